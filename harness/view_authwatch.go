package main

import (
	"fmt"
	"os"
	"path/filepath"
	"strings"
	"sync"
	"time"

	"rcproxy/core/authip"
)

// authwatch view (C18): the REAL `LoopIPWhiteList` - initial parse, fsnotify watcher goroutine, reload on events -
// on a scratch directory. A case rewrites the whitelist file several times in quick succession (in place or by
// rename, as editors and config management do) and then waits for the live set to settle; the verdicts of
// `IpMap.Validate` for a fixed probe set must then be those of the LAST file content. The Lean model gets exactly
// that last content (`AuthIp.reload` + `validate`), so the comparison is "the watcher converges to the model".
// One watcher serves the whole process (inotify instances are a limited resource); cases are few.
type authwatchView struct{}

func (authwatchView) Name() string  { return "authwatch" }
func (authwatchView) MinKinds() int { return 3 }

var (
	watchOnce sync.Once
	watchDir  string
	watchErr  error
)

const watchFile = "authip.yml"

func startWatcher() {
	watchOnce.Do(func() {
		watchDir, watchErr = os.MkdirTemp("", "rcverif-authwatch")
		if watchErr != nil {
			return
		}
		authip.VerifResetIpMap()
		watchErr = os.WriteFile(filepath.Join(watchDir, watchFile), []byte("enable: false\nip_white_list: []\n"), 0o644)
		if watchErr != nil {
			return
		}
		watchErr = authip.LoopIPWhiteList(watchDir, watchFile)
	})
}

func cleanupWatcher() {
	if watchDir != "" {
		os.RemoveAll(watchDir)
	}
}

// line: authwatch R|I en list gapms ; ... (R = rewrite by rename, I = in place)
func (authwatchView) Gen(r *Rng, i int) string {
	n := 1 + r.Intn(4)
	var evs []string
	for k := 0; k < n; k++ {
		var ips []string
		for _, ip := range authipPool {
			if r.Chance(1, 3) {
				ips = append(ips, hx([]byte(ip)))
			}
		}
		l := "-"
		if len(ips) > 0 {
			l = strings.Join(ips, ",")
		}
		en := 1
		if r.Chance(1, 5) {
			en = 0
		}
		mode := "R"
		if r.Chance(1, 3) {
			mode = "I"
		}
		gap := []int{0, 5, 30, 150, 400}[r.Intn(5)]
		evs = append(evs, fmt.Sprintf("%s %d %s %d", mode, en, l, gap))
	}
	return "authwatch " + strings.Join(evs, " ; ")
}

func authFileContent(enable bool, ips []string) []byte {
	var b strings.Builder
	if len(ips) == 0 {
		fmt.Fprintf(&b, "enable: %v\nip_white_list: []\n", enable)
	} else {
		fmt.Fprintf(&b, "enable: %v\nip_white_list:\n", enable)
		for _, ip := range ips {
			fmt.Fprintf(&b, "  - %q\n", ip)
		}
	}
	return []byte(b.String())
}

func (authwatchView) ExecModel(line string) (out string, oracle string, tags []string, modelLine string) {
	startWatcher()
	if watchErr != nil {
		return "bad-op " + watchErr.Error(), "", nil, line
	}
	path := filepath.Join(watchDir, watchFile)
	var lastEn bool
	var lastIps []string
	lastList := "-"
	tagset := map[string]bool{"dom:C18": true}
	evs := strings.Split(strings.TrimPrefix(line, "authwatch "), ";")
	for _, ev := range evs {
		f := strings.Fields(ev)
		if len(f) != 4 {
			return "bad-op", "", nil, line
		}
		lastEn = f[1] != "0"
		lastIps = nil
		lastList = f[2]
		if f[2] != "-" {
			for _, h := range strings.Split(f[2], ",") {
				b, err := unhx(h)
				if err != nil {
					return "bad-op", "", nil, line
				}
				lastIps = append(lastIps, string(b))
			}
		}
		content := authFileContent(lastEn, lastIps)
		if f[0] == "R" {
			tmp := path + ".tmp"
			_ = os.WriteFile(tmp, content, 0o644)
			_ = os.Rename(tmp, path)
			tagset["rewrite-by-rename"] = true
		} else {
			_ = os.WriteFile(path, content, 0o644)
			tagset["rewrite-in-place"] = true
		}
		gap := 0
		fmt.Sscanf(f[3], "%d", &gap)
		if gap > 0 {
			time.Sleep(time.Duration(gap) * time.Millisecond)
		}
		if gap < 100 && len(evs) > 1 {
			tagset["rapid-rewrites"] = true
		}
	}
	want := func(ip string) bool {
		if !lastEn {
			return true
		}
		for _, x := range lastIps {
			if x == ip {
				return true
			}
		}
		return false
	}
	verdicts := func() string {
		var s []string
		for _, ip := range authipPool {
			if authip.IpMap.Validate(ip) {
				s = append(s, "1")
			} else {
				s = append(s, "0")
			}
		}
		return strings.Join(s, " ")
	}
	wantStr := func() string {
		var s []string
		for _, ip := range authipPool {
			if want(ip) {
				s = append(s, "1")
			} else {
				s = append(s, "0")
			}
		}
		return strings.Join(s, " ")
	}()
	// "within a few seconds": poll until the live set equals the file, at most 5 s
	deadline := time.Now().Add(5 * time.Second)
	got := verdicts()
	for got != wantStr && time.Now().Before(deadline) {
		time.Sleep(10 * time.Millisecond)
		got = verdicts()
	}
	if got != wantStr {
		oracle = fmt.Sprintf("C18: 5 s after the last rewrite the admitted set is not the file's: probe verdicts %s, the file says %s (enable=%v list=%v)", got, wantStr, lastEn, lastIps)
	}
	// the model sees only the last content
	en := "0"
	if lastEn {
		en = "1"
	}
	var ml []string
	ml = append(ml, fmt.Sprintf("W %s %s", en, lastList))
	var outs []string
	outs = append(outs, "ok")
	for i, ip := range authipPool {
		ml = append(ml, "V "+hx([]byte(ip)))
		outs = append(outs, strings.Fields(got)[i])
	}
	for t := range tagset {
		tags = append(tags, t)
	}
	return strings.Join(outs, " "), oracle, tags, "authip " + strings.Join(ml, " ; ")
}

func (v authwatchView) Exec(line string) (string, string, []string) {
	o, w, t, _ := v.ExecModel(line)
	return o, w, t
}

func (authwatchView) Shrink(line string) []string { return nil }
