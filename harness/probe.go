package main

import (
	"fmt"
	"time"
)

func show(tag string, s *SimEnv) {
	s.drainAll()
	fmt.Fprintf(realStdout, "  [%s]", tag)
	for i, c := range s.clients {
		fmt.Fprintf(realStdout, " c%d{open=%v q=%d recv=%q eof=%v}", i, c.vc.Opened(), c.vc.InMsgLen(), c.recv, c.eof)
	}
	for i, b := range s.backends {
		fmt.Fprintf(realStdout, " b%d@%s{open=%v out=%d in=%d recv=%q}", i, b.addr, b.vc.Opened(), b.vc.OutFragLen(), b.vc.InFragLen(), b.recv)
	}
	fmt.Fprintln(realStdout)
}

func twoNodeEnv(cfg SimConfig) *SimEnv {
	s, err := NewSimEnv(cfg)
	if err != nil {
		panic(err)
	}
	s.AddPool("10.0.0.1:7001", false)
	s.AddPool("10.0.0.2:7002", false)
	s.env.SetReplicaset("10.0.0.1:7001", nil, [][2]int32{{0, 8191}})
	s.env.SetReplicaset("10.0.0.2:7002", nil, [][2]int32{{8192, 16383}})
	return s
}

func probe() {
	pr := func(f string, a ...interface{}) { fmt.Fprintf(realStdout, f+"\n", a...) }
	func() {
		defer func() {
			if r := recover(); r != nil {
				pr("  PANIC: %v", r)
			}
		}()
		pr("C01: GET a; PING; MGET a b in one chunk (a->15495 node2, b->3300 node1)")
		s := twoNodeEnv(SimConfig{Limit: 1 << 20})
		defer s.Close()
		c, _ := s.AddClient("1.2.3.4")
		s.Feed(c, []byte("*2\r\n$3\r\nget\r\n$1\r\na\r\n*1\r\n$4\r\nping\r\n*3\r\n$4\r\nmget\r\n$1\r\na\r\n$1\r\nb\r\n"))
		show("after feed", s)
		s.env.RunTasks()
		show("after tasks", s)
		// node2 answers get a and mget a; node1 answers mget b
		s.Feed(s.backendsOf("10.0.0.2:7002")[0], []byte("$2\r\nva\r\n*1\r\n$2\r\nva\r\n"))
		show("node2 replied", s)
		s.Feed(s.backendsOf("10.0.0.1:7001")[0], []byte("*1\r\n$2\r\nvb\r\n"))
		show("node1 replied", s)
	}()
	func() {
		defer func() {
			if r := recover(); r != nil {
				pr("  PANIC: %v", r)
			}
		}()
		pr("C16: timeout 50ms, GET b; GET a, expire, then replies, then GET c")
		s := twoNodeEnv(SimConfig{Limit: 1 << 20, TimeoutMs: 50})
		defer s.Close()
		c, _ := s.AddClient("1.2.3.4")
		s.Feed(c, []byte("*2\r\n$3\r\nget\r\n$1\r\nb\r\n*2\r\n$3\r\nget\r\n$1\r\na\r\n"))
		s.env.RunTasks()
		show("sent", s)
		s.env.ShiftDeadlines(-time.Second)
		s.env.MsgTimeout()
		s.env.RunTasks()
		show("expired", s)
		s.Feed(s.backendsOf("10.0.0.1:7001")[0], []byte("$2\r\nvb\r\n"))
		s.Feed(s.backendsOf("10.0.0.2:7002")[0], []byte("$2\r\nva\r\n"))
		show("late replies", s)
		s.Feed(c, []byte("*2\r\n$3\r\nget\r\n$1\r\nc\r\n"))
		s.env.RunTasks()
		s.Feed(s.backendsOf("10.0.0.1:7001")[0], []byte("$2\r\nvc\r\n"))
		show("get c answered", s)
	}()
	func() {
		defer func() {
			if r := recover(); r != nil {
				pr("  PANIC: %v", r)
			}
		}()
		pr("C15: GET a, backend connection closed by peer")
		s := twoNodeEnv(SimConfig{Limit: 1 << 20})
		defer s.Close()
		c, _ := s.AddClient("1.2.3.4")
		s.Feed(c, []byte("*2\r\n$3\r\nget\r\n$1\r\na\r\n"))
		s.env.RunTasks()
		show("sent", s)
		s.PeerClose(s.backendsOf("10.0.0.2:7002")[0])
		s.env.RunTasks()
		show("backend closed", s)
		s.Feed(c, []byte("*2\r\n$3\r\nget\r\n$1\r\na\r\n"))
		s.env.RunTasks()
		show("second get a", s)
	}()
	func() {
		defer func() {
			if r := recover(); r != nil {
				pr("  PANIC: %v", r)
			}
		}()
		pr("C13/C11: MGET a b; node1 answers -ERR for b; node2 answers -MOVED for a afterwards")
		s := twoNodeEnv(SimConfig{Limit: 1 << 20})
		defer s.Close()
		c, _ := s.AddClient("1.2.3.4")
		s.Feed(c, []byte("*3\r\n$4\r\nmget\r\n$1\r\na\r\n$1\r\nb\r\n"))
		s.env.RunTasks()
		s.Feed(s.backendsOf("10.0.0.1:7001")[0], []byte("-ERR boom\r\n"))
		show("error for b", s)
		s.Feed(s.backendsOf("10.0.0.2:7002")[0], []byte("-MOVED 15495 10.0.0.1:7001\r\n"))
		show("moved for a", s)
	}()
	func() {
		defer func() {
			if r := recover(); r != nil {
				pr("  PANIC: %v", r)
			}
		}()
		pr("C03: slots 8192.. unowned; A: GET b; MGET a b ; B: GET c; GET b")
		s, _ := NewSimEnv(SimConfig{Limit: 1 << 20})
		defer s.Close()
		s.AddPool("10.0.0.1:7001", false)
		s.env.SetReplicaset("10.0.0.1:7001", nil, [][2]int32{{0, 8191}})
		a, _ := s.AddClient("1.2.3.4")
		b, _ := s.AddClient("1.2.3.5")
		s.Feed(a, []byte("*2\r\n$3\r\nget\r\n$1\r\nb\r\n*3\r\n$4\r\nmget\r\n$1\r\na\r\n$1\r\nb\r\n"))
		s.env.RunTasks()
		show("A sent", s)
		s.Feed(b, []byte("*2\r\n$3\r\nget\r\n$1\r\nc\r\n*2\r\n$3\r\nget\r\n$1\r\nb\r\n"))
		s.env.RunTasks()
		show("B sent", s)
		n1 := s.backendsOf("10.0.0.1:7001")[0]
		s.Feed(n1, []byte("$4\r\nA-b1\r\n"))
		show("reply1", s)
		s.Feed(n1, []byte("*1\r\n$8\r\nA-secret\r\n"))
		show("reply2", s)
		s.Feed(n1, []byte("$3\r\nB-c\r\n"))
		show("reply3", s)
		s.Feed(n1, []byte("$3\r\nB-b\r\n"))
		show("reply4", s)
	}()
}
