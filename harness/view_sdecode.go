package main

import (
	"fmt"
	"strconv"
	"strings"

	"rcproxy/core"
	"rcproxy/core/codec"
)

// sdecode view: the real SRespCodec.Decode / InitializingDecode on raw bytes vs SDecode.frameReply /
// initializingDecode. Oracle (C02): a well-formed RESP2 reply, nested to any depth, followed by
// anything, is framed exactly and classified by its first line; a proper prefix is "incomplete".
type sdecodeView struct{}

func (sdecodeView) Name() string  { return "sdecode" }
func (sdecodeView) MinKinds() int { return 10 }

type replyTree struct {
	kind byte // + - : $ n(ull bulk) * N(ull array)
	line []byte
	kids []*replyTree
}

func (t *replyTree) enc() []byte {
	switch t.kind {
	case '+', '-', ':':
		return append(append([]byte{t.kind}, t.line...), '\r', '\n')
	case '$':
		return bulkOf(t.line)
	case 'n':
		return []byte("$-1\r\n")
	case 'N':
		return []byte("*-1\r\n")
	}
	out := []byte("*" + strconv.Itoa(len(t.kids)) + "\r\n")
	for _, k := range t.kids {
		out = append(out, k.enc()...)
	}
	return out
}

var sdecodeErrLines = []string{"ERR unknown command 'foo'", "WRONGTYPE Operation against a key", "MOVED 3999 127.0.0.1:6381", "ASK 3999 127.0.0.1:6381",
	"NOAUTH Authentication required.", "ERR invalid password", "LOADING Redis is loading", "", "ERR", "MOVEDX", "ASKING?", "READONLY You can't write against a read only replica."}
var sdecodeStatusLines = []string{"OK", "PONG", "QUEUED", "OKAY", "", "string", "PONGG", "O"}

func genReply(r *Rng, depth int) *replyTree {
	k := r.Intn(10)
	if depth <= 0 && k >= 7 {
		k = r.Intn(7)
	}
	switch k {
	case 0:
		return &replyTree{kind: '+', line: []byte(sdecodeStatusLines[r.Intn(len(sdecodeStatusLines))])}
	case 1:
		return &replyTree{kind: '-', line: []byte(sdecodeErrLines[r.Intn(len(sdecodeErrLines))])}
	case 2:
		return &replyTree{kind: ':', line: []byte(strconv.Itoa(r.Intn(100000) - 50000))}
	case 3, 4:
		var b []byte
		switch r.Intn(4) {
		case 0:
			b = nil
		case 1:
			b = []byte("a\r\nb")
		case 2:
			b = r.Bytes(r.Intn(40))
		default:
			b = []byte(strings.Repeat("v", r.Intn(300)))
		}
		return &replyTree{kind: '$', line: b}
	case 5:
		return &replyTree{kind: 'n'}
	case 6:
		return &replyTree{kind: 'N'}
	default:
		n := r.Intn(5)
		t := &replyTree{kind: '*'}
		for i := 0; i < n; i++ {
			t.kids = append(t.kids, genReply(r, depth-1))
		}
		return t
	}
}

func (sdecodeView) Gen(r *Rng, i int) string {
	if r.Chance(1, 12) {
		steps := 1 + r.Intn(2)
		full := strings.Repeat("+OK\r\n", steps)
		var data []byte
		switch r.Intn(4) {
		case 0:
			data = []byte(full)
		case 1:
			data = []byte(full[:r.Intn(len(full)+1)])
		case 2:
			data = append([]byte(full), genReply(r, 2).enc()...)
		default:
			data = genReply(r, 1).enc()
		}
		return fmt.Sprintf("sinit %d %s", steps, hx(data))
	}
	enc := genReply(r, 4).enc()
	data := enc
	switch r.Intn(8) {
	case 0, 1:
		data = append(append([]byte{}, enc...), genReply(r, 2).enc()...)
	case 2:
		data = append(append([]byte{}, enc...), r.Bytes(1+r.Intn(6))...)
	case 3, 4:
		data = enc[:r.Intn(len(enc))]
	case 5:
		data = mutate(r, enc)
	}
	return "sdecode " + hx(data)
}

// independent framing of one reply (oracle): length, class name, error
func specFrame(b []byte) (n int, class string, err error) {
	line, rest, e := strictLineLoose(b)
	if e != nil {
		return 0, "", e
	}
	if len(line) == 0 {
		return 0, "", errProtocol
	}
	hdr := len(b) - len(rest)
	switch line[0] {
	case '+':
		switch {
		case strings.HasPrefix(string(line), "+OK"):
			return hdr, "ok", nil
		case strings.HasPrefix(string(line), "+PONG"):
			return hdr, "pong", nil
		}
		return hdr, "status", nil
	case '-':
		s := string(line)
		switch {
		case strings.HasPrefix(s, "-NOAUTH Authentication required"):
			return hdr, "needauth", nil
		case strings.HasPrefix(s, "-ERR invalid password"):
			return hdr, "authfailed", nil
		case strings.HasPrefix(s, "-ERR Client sent AUTH, but no password is set"), strings.HasPrefix(s, "-ERR AUTH <password> called without any password configured for the default user."):
			return hdr, "needntauth", nil
		case strings.HasPrefix(s, "-MOVED"):
			return hdr, "moved", nil
		case strings.HasPrefix(s, "-ASK"):
			return hdr, "ask", nil
		}
		return hdr, "error", nil
	case ':':
		return hdr, "integer", nil
	case '$':
		if string(line) == "$-1" {
			return hdr, "bulk", nil
		}
		k, ok := strictInt(line[1:])
		if !ok {
			return 0, "", errProtocol
		}
		if len(rest) < k+2 {
			return 0, "", errIncomplete
		}
		if rest[k] != '\r' || rest[k+1] != '\n' {
			return 0, "", errProtocol
		}
		return hdr + k + 2, "bulk", nil
	case '*':
		if string(line) == "*-1" {
			return hdr, "nullarray", nil
		}
		k, ok := strictInt(line[1:])
		if !ok {
			return 0, "", errProtocol
		}
		off := hdr
		for i := 0; i < k; i++ {
			m, _, e := specFrame(b[off:])
			if e != nil {
				return 0, "", e
			}
			off += m
		}
		return off, "multibulk", nil
	}
	return 0, "", errProtocol
}

func strictLineLoose(b []byte) (line, rest []byte, err error) {
	i := strings.IndexByte(string(b), '\n')
	if i < 0 {
		return nil, nil, errIncomplete
	}
	if i < 2 || b[i-1] != '\r' {
		return nil, nil, errProtocol
	}
	return b[:i-1], b[i+1:], nil
}

var classCode = map[string]codec.Command{"ok": codec.RspOk, "pong": codec.RspPong, "status": codec.RspStatus, "needauth": codec.RspNeedAuth,
	"authfailed": codec.RspAuthFailed, "needntauth": codec.RspNeedNtAuth, "moved": codec.RspMoved, "ask": codec.RspAsk, "error": codec.RspError,
	"integer": codec.RspInteger, "bulk": codec.RspBulk, "multibulk": codec.RspMultibulk, "nullarray": codec.UNKNOWN}

func (sdecodeView) Exec(line string) (string, string, []string) {
	f := strings.Fields(line)
	switch {
	case len(f) == 2 && f[0] == "sdecode":
		data, err := unhx(f[1])
		if err != nil {
			return "bad-op", "", nil
		}
		typ, n, e := core.VerifFrameReply(append([]byte{}, data...))
		var out, kind string
		switch {
		case e == nil:
			out, kind = fmt.Sprintf("ok type=%d consumed=%d", typ, n), "ok"
		case e == codec.ErrInvalidResp || e == codec.ErrUnKnown:
			out, kind = "stuck", "stuck"
		default:
			out, kind = "incomplete", "incomplete"
		}
		tags := []string{"dom:C02", "out:" + kind}
		oracle := ""
		sn, class, se := specFrame(data)
		switch se {
		case nil:
			tags = append(tags, "in:wellformed", "class:"+class)
			if len(data) > sn {
				tags = append(tags, "trailing")
			}
			if kind != "ok" || n != sn || typ != classCode[class] {
				oracle = fmt.Sprintf("C02: a well-formed %s reply of %d bytes was framed as %s (type %d, %d bytes): %q", class, sn, kind, typ, n, clip(data))
			}
		case errIncomplete:
			tags = append(tags, "in:prefix")
			if kind != "incomplete" {
				oracle = fmt.Sprintf("C02: a proper prefix of a reply was framed as %s: %q", out, clip(data))
			}
		default:
			tags = append(tags, "in:malformed")
		}
		return out, oracle, tags
	case len(f) == 3 && f[0] == "sinit":
		steps, _ := strconv.Atoi(f[1])
		data, err := unhx(f[2])
		if err != nil {
			return "bad-op", "", nil
		}
		n, done, e := core.VerifInitializingDecode(int8(steps), append([]byte{}, data...))
		var out string
		switch {
		case e == nil && done:
			out = fmt.Sprintf("done %d", n)
		case e == nil:
			out = "fallthrough"
		case e == codec.ErrInvalidInitializing:
			out = "invalid"
		default:
			out = "incomplete"
		}
		tags := []string{"dom:C02", "init:" + strings.Fields(out)[0]}
		oracle := ""
		full := strings.Repeat("+OK\r\n", steps)
		if strings.HasPrefix(string(data), full) && out != fmt.Sprintf("done %d", len(full)) {
			oracle = fmt.Sprintf("C02: %d handshake replies present but %s", steps, out)
		}
		if len(data) > 0 && len(data) < len(full) && strings.HasPrefix(full, string(data)) && out != "incomplete" {
			oracle = fmt.Sprintf("C02: partial handshake reply %q gave %s", data, out)
		}
		return out, oracle, tags
	}
	return "bad-op", "", nil
}

func (sdecodeView) Shrink(line string) []string {
	f := strings.Fields(line)
	if len(f) != 2 {
		return nil
	}
	var res []string
	for _, h := range shrinkHexField(f[1]) {
		res = append(res, f[0]+" "+h)
	}
	return res
}
