package main

// sim view: the real event loop (eventloop, conn, Pool, listenServer) driven
// deterministically over socketpairs vs the Lean `Sim` state machine.
//
// A symbolic trace line has no choices and no reply bytes in it:
//
//   sim <cfg> | <topo> | C 1 ; c 0 <hex> ; T ; s 0 ok ; X 1 ; E ; ...
//
// Backend events are symbolic ("answer the oldest pending command on backend
// connection j with a normal reply / this error / a redirect"): the reply bytes
// are computed from the command the real code actually sent (a fake redis node
// whose values embed the key), so a trace replays meaningfully whatever order
// Go's map iteration happened to produce. Exec resolves the symbols, records
// the choices Go made (slot visiting order, replica picks - through a recording
// SConn wrapper) and hands the Lean model the concrete trace.

import (
	"bytes"
	"fmt"
	"runtime/debug"
	"sort"
	"strconv"
	"strings"

	"rcproxy/core"
	"rcproxy/core/codec"
	"rcproxy/core/pkg/constant"
	"rcproxy/core/pkg/hashkit"
)

type simView struct {
	names     []string
	noVariant bool // set on the view that runs the uncut variant of a failing trace (C08)
}

func newSimView() *simView {
	v := &simView{}
	for k := range codec.CommandStr2Type {
		v.names = append(v.names, k)
	}
	sort.Strings(v.names)
	return v
}

func (*simView) Name() string  { return "sim" }
func (*simView) MinKinds() int { return 16 }

// ---------- recording wrapper ----------

type enqRec struct {
	backend int
	peer    *core.Msg
	key     string
	req     []byte
}

type recConn struct {
	core.SConn
	sim *simRun
	idx int
}

func (r *recConn) EnqueueOutFrag(f *core.Frag) {
	r.sim.enq = append(r.sim.enq, enqRec{backend: r.idx, peer: f.Peer, key: f.Key, req: append([]byte(nil), f.Req...)})
	r.SConn.EnqueueOutFrag(f)
}

// ---------- topology / config ----------

type simTopo struct {
	removed map[string]bool // nodes that left the topology during the run (harness-side bookkeeping, not printed)
	pools   []struct {
		addr  string
		slave bool
	}
	ranges []struct {
		lo, hi int
		master string
		slaves []string
	}
}

func (t *simTopo) owner(slot int) (master string, slaves []string, ok bool) {
	for _, r := range t.ranges {
		if r.lo <= slot && slot <= r.hi {
			return r.master, r.slaves, true
		}
	}
	return "", nil, false
}

func (t *simTopo) hasPool(addr string) bool {
	if t.removed[addr] {
		return false
	}
	for _, p := range t.pools {
		if p.addr == addr {
			return true
		}
	}
	return false
}

func (t *simTopo) String() string {
	var parts []string
	for _, p := range t.pools {
		s := "0"
		if p.slave {
			s = "1"
		}
		parts = append(parts, fmt.Sprintf("P %s %s", hx([]byte(p.addr)), s))
	}
	for _, r := range t.ranges {
		sl := "-"
		if len(r.slaves) > 0 {
			var hs []string
			for _, s := range r.slaves {
				hs = append(hs, hx([]byte(s)))
			}
			sl = strings.Join(hs, "+")
		}
		parts = append(parts, fmt.Sprintf("R %d %d %s %s", r.lo, r.hi, hx([]byte(r.master)), sl))
	}
	return strings.Join(parts, " , ")
}

func parseTopo(s string) (*simTopo, error) {
	t := &simTopo{}
	for _, it := range strings.Split(s, ",") {
		f := strings.Fields(it)
		if len(f) == 0 {
			continue
		}
		switch f[0] {
		case "P":
			a, err := unhx(f[1])
			if err != nil || len(f) != 3 {
				return nil, fmt.Errorf("bad pool")
			}
			t.pools = append(t.pools, struct {
				addr  string
				slave bool
			}{string(a), f[2] != "0"})
		case "R":
			if len(f) != 5 {
				return nil, fmt.Errorf("bad range")
			}
			lo, _ := strconv.Atoi(f[1])
			hi, _ := strconv.Atoi(f[2])
			m, _ := unhx(f[3])
			var sl []string
			if f[4] != "-" {
				for _, h := range strings.Split(f[4], "+") {
					b, _ := unhx(h)
					sl = append(sl, string(b))
				}
			}
			t.ranges = append(t.ranges, struct {
				lo, hi int
				master string
				slaves []string
			}{lo, hi, string(m), sl})
		default:
			return nil, fmt.Errorf("bad topo item %q", it)
		}
	}
	return t, nil
}

type simCfg struct {
	limit   int
	timeout bool
	pw      string
	noslave bool
	conns   int
}

func (c simCfg) String() string {
	b := func(x bool) int {
		if x {
			return 1
		}
		return 0
	}
	return fmt.Sprintf("limit=%d timeout=%d pw=%s noslave=%d conns=%d", c.limit, b(c.timeout), hx([]byte(c.pw)), b(c.noslave), c.conns)
}

func parseCfg(s string) (simCfg, error) {
	var c simCfg
	for _, tok := range strings.Fields(s) {
		kv := strings.SplitN(tok, "=", 2)
		if len(kv) != 2 {
			return c, fmt.Errorf("bad cfg")
		}
		switch kv[0] {
		case "limit":
			c.limit, _ = strconv.Atoi(kv[1])
		case "timeout":
			c.timeout = kv[1] != "0"
		case "pw":
			b, _ := unhx(kv[1])
			c.pw = string(b)
		case "noslave":
			c.noslave = kv[1] != "0"
		case "conns":
			c.conns, _ = strconv.Atoi(kv[1])
		}
	}
	if c.conns < 1 {
		c.conns = 1
	}
	return c, nil
}

// ---------- fake redis node ----------

func bulkOf(b []byte) []byte {
	return append(append([]byte("$"+strconv.Itoa(len(b))+"\r\n"), b...), '\r', '\n')
}

func valOf(k []byte) []byte {
	if len(k) > 0 && k[len(k)-1] == '0' {
		return []byte("$-1\r\n")
	}
	return bulkOf(append([]byte("V:"), k...))
}

// fakeReply: the normal reply of a redis node to args; values embed the key so that
// a reply delivered to the wrong request is recognisable.
func fakeReply(args [][]byte) []byte {
	name := string(lowerASCII(args[0]))
	switch name {
	case "auth", "readonly", "asking", "set", "mset", "setex", "psetex", "hmset", "lset", "ltrim", "restore", "pfmerge":
		return []byte("+OK\r\n")
	case "get":
		return valOf(args[1])
	case "mget":
		out := []byte("*" + strconv.Itoa(len(args)-1) + "\r\n")
		for _, k := range args[1:] {
			out = append(out, valOf(k)...)
		}
		return out
	case "del":
		n := 0
		for _, k := range args[1:] {
			if !(len(k) > 0 && k[len(k)-1] == '0') {
				n++
			}
		}
		return []byte(":" + strconv.Itoa(n) + "\r\n")
	case "type":
		return []byte("+string\r\n")
	case "hgetall", "hscan", "sscan", "zscan", "smembers", "lrange":
		inner := bulkOf(append([]byte("F:"), args[1]...))
		return append([]byte("*2\r\n$1\r\n0\r\n*2\r\n$1\r\nf\r\n"), inner...)
	case "incr", "decr", "llen", "scard", "strlen", "ttl", "exists":
		return []byte(":" + strconv.Itoa(len(args[1])) + "\r\n")
	case "cluster":
		return []byte("$-1\r\n")
	}
	return bulkOf(append([]byte("E:"), bytes.Join(args, []byte(" "))...))
}

// ---------- one execution ----------

type simReq struct {
	args     [][]byte
	typ      codec.Command
	local    bool     // answered by the proxy itself at decode time
	keys     [][]byte // keys whose fragments must be answered
	pending  map[string]int
	failed   bool   // an error / timeout / close completed it
	lost     bool   // ... because its backend connection was lost or a redirect named an unknown node (C15)
	notok    bool   // a node answered an MSET fragment with a status other than OK (C07)
	failedBy string // what completed it first: "err" (a backend error reply), "timeout", "lost", "big", ...
	errLine  []byte // the error reply a node gave (failedBy == "err")
	rejected bool
}

type simClientState struct {
	rejectedAtOpen bool // the whitelist turned the connection away
	peer           *simPeer
	leftover       []byte
	reqs           []*simReq
	closed         bool // harness closed it or the proxy did
	quit           bool
	invalid        bool
}

type simBackendState struct {
	peer     *simPeer
	parsed   int        // bytes of peer.recv parsed into commands so far
	cmds     [][][]byte // commands received, in order
	answered int        // number of commands answered
	closed   bool
	half     *halfReply // the first part of the reply to cmds[answered] is on the wire, the rest is not
	wireChk  int        // commands on the wire already compared with what was queued (C02 / C06)
	enqChk   int        // position in r.enq up to which queued entries were matched
}

// a reply cut across two read events of the proxy
type halfReply struct {
	cmd       [][]byte
	reply     []byte
	cut       int
	kind, arg string
}

type simRun struct {
	env      *SimEnv
	cfg      simCfg
	topo     *simTopo
	clients  []*simClientState
	backends []*simBackendState
	enq      []enqRec
	redirs   []redirRec // every MOVED / ASK reply given, for the C13 oracle
	model    []string   // concrete events for the Lean model
	snaps    []string
	fails    []string
	tags     map[string]bool
	crashed  string
}

// redirRec: backend `from` answered `cmd` with MOVED/ASK naming `addr`; marks[j] = commands backend j had received then
type redirRec struct {
	cmd     [][]byte
	addr    string
	isAsk   bool
	marks   []int
	enqMark int // number of EnqueueOutFrag calls recorded when the reply was given
}

// fail records an oracle verdict: at most two per property (a verdict that repeats after every event must not
// crowd out what another property's oracle has to say at the end of the trace), twelve in all
func (r *simRun) fail(format string, a ...interface{}) {
	msg := fmt.Sprintf(format, a...)
	pid := msg
	if k := strings.Index(msg, ":"); k > 0 {
		pid = msg[:k]
	}
	n := 0
	for _, f := range r.fails {
		if strings.HasPrefix(f, pid+":") {
			n++
		}
	}
	if n < 2 && len(r.fails) < 12 {
		r.fails = append(r.fails, msg)
	}
}

func newSimRun(cfg simCfg, topo *simTopo) (*simRun, error) {
	env, err := NewSimEnv(SimConfig{Limit: cfg.limit, TimeoutMs: map[bool]int{false: 0, true: 60000}[cfg.timeout], Passwd: cfg.pw, DisableSlave: cfg.noslave, Conns: cfg.conns})
	if err != nil {
		return nil, err
	}
	r := &simRun{env: env, cfg: cfg, topo: topo, tags: map[string]bool{}}
	// pools with a recording dial
	dial := func(addr string, isSlave bool) (core.SConn, error) {
		sc, err := env.dial(addr, isSlave)
		if err != nil {
			return nil, err
		}
		idx := len(env.backends) - 1
		r.backends = append(r.backends, &simBackendState{peer: env.backends[idx]})
		return &recConn{SConn: sc, sim: r, idx: idx}, nil
	}
	for _, p := range topo.pools {
		env.env.NewPool(p.addr, p.slave, dial)
	}
	for _, rg := range topo.ranges {
		env.env.SetReplicaset(rg.master, rg.slaves, [][2]int32{{int32(rg.lo), int32(rg.hi)}})
	}
	// pre-connect every pool once, in order (RedisPreconnect)
	for _, p := range topo.pools {
		if core.EngineGlobal.ProxyPool[p.addr].Get() == nil {
			return nil, fmt.Errorf("preconnect failed")
		}
	}
	return r, nil
}

// refreshBackends parses what each backend has received into commands.
func (r *simRun) refreshBackends() {
	r.env.drainAll()
	for j, b := range r.backends {
		for b.parsed < len(b.peer.recv) {
			args, n, err := strictParse(b.peer.recv[b.parsed:])
			if err != nil {
				if err == errProtocol {
					r.fail("C12: backend %s received bytes that are not a well-formed command: %q", b.peer.addr, b.peer.recv[b.parsed:])
					for k := b.enqChk; k < len(r.enq); k++ {
						if r.enq[k].backend == j {
							r.fail("C02: node %s received %q where %q had been queued for that connection: the forwarded bytes are not the request", b.peer.addr, clip(b.peer.recv[b.parsed:]), clip(r.enq[k].req))
							break
						}
					}
					b.parsed = len(b.peer.recv)
				}
				break
			}
			b.cmds = append(b.cmds, args)
			b.parsed += n
		}
	}
	r.checkWire()
}

// checkWire (C02 / C06): what a node receives is what was queued for it. The recording connection wrapper copied
// the bytes of every fragment when it was queued; every command on the wire (handshake aside) must be the next -
// or, when queued entries were dropped unwritten, a later - queued entry of that connection, byte for byte.
func (r *simRun) checkWire() {
	for j, b := range r.backends {
		for ; b.wireChk < len(b.cmds); b.wireChk++ {
			cmd := b.cmds[b.wireChk]
			name := string(lowerASCII(cmd[0]))
			if name == "auth" || name == "readonly" || name == "cluster" {
				continue
			}
			found := false
			for k := b.enqChk; k < len(r.enq); k++ {
				e := r.enq[k]
				if e.backend != j {
					continue
				}
				if args, _, err := strictParse(e.req); err == nil && sameCmd(args, cmd) {
					b.enqChk = k + 1
					found = true
					break
				}
			}
			if !found {
				pid := "C02"
				if name == "mget" || name == "del" || name == "mset" {
					pid = "C06"
				}
				var queued []string
				for _, e := range r.enq {
					if e.backend == j {
						queued = append(queued, clipStr(string(e.req), 60))
					}
				}
				r.fail("%s: node %s received %q on connection %d, which is not (or not again) among the requests queued for that connection %q: the bytes were altered between queueing and writing", pid, b.peer.addr, clip(encodeCmd(cmd)), j, queued)
				// whose input is it? keys carry the client number: a command made of another connection's bytes where
				// this client's request had been queued is one client's input disturbing another connection (C12)
				for k := b.enqChk; k < len(r.enq); k++ {
					if e := r.enq[k]; e.backend == j {
						if want, _, err := strictParse(e.req); err == nil && len(want) > 1 && len(cmd) > 1 {
							if a, b2 := keyClient(want[1]), keyClient(cmd[1]); a >= 0 && b2 >= 0 && a != b2 {
								r.fail("C12: node %s received %q, made of client %d's input, where client %d's request %q had been queued: one connection's bytes disturbed another connection's request", b.peer.addr, clip(encodeCmd(cmd)), b2, a, clip(e.req))
							}
						}
						break
					}
				}
				return
			}
		}
	}
}

func (r *simRun) snapshot() {
	r.refreshBackends()
	var cs, bs []string
	for _, c := range r.clients {
		cs = append(cs, strconv.Itoa(len(c.peer.recv)))
	}
	for _, b := range r.backends {
		bs = append(bs, strconv.Itoa(len(b.peer.recv)))
	}
	r.snaps = append(r.snaps, strings.Join(cs, ".")+"/"+strings.Join(bs, "."))
}

func (r *simRun) output() string {
	var cs, bs []string
	for _, c := range r.clients {
		st := "o"
		if !c.peer.vc.Opened() {
			st = "x"
		}
		cs = append(cs, st+":"+hx(c.peer.recv))
	}
	for _, b := range r.backends {
		st := "o"
		if !b.peer.vc.Opened() {
			st = "x"
		}
		bs = append(bs, hx([]byte(b.peer.addr))+":"+st+":"+hx(b.peer.recv))
	}
	flag := "ok"
	if r.crashed != "" {
		flag = r.crashed
	}
	return fmt.Sprintf("flag=%s clients=%s backends=%s trace=%s", flag, strings.Join(cs, ","), strings.Join(bs, ","), strings.Join(r.snaps, ";"))
}

// classify a decoded request the way the proxy does (used to reconstruct choices, not as an oracle)
func (r *simRun) classify(args [][]byte, size int) *simReq {
	name := append([]byte{}, args[0]...)
	typ := codec.Transform2Type(name, len(args)-1)
	if (typ == codec.ReqEval || typ == codec.ReqEvalsha) && len(args)-1 < 3 {
		typ = codec.ReqWrongArgumentsNumber
	}
	if size > r.cfg.limit {
		typ = codec.ReqTooLarge
	}
	q := &simReq{args: args, typ: typ, pending: map[string]int{}}
	switch {
	case typ <= codec.UNKNOWN || typ >= codec.Sentinel, typ == codec.ReqTooLarge, typ == codec.ReqWrongArgumentsNumber,
		typ == codec.ReqPing, typ == codec.ReqQuit, typ == codec.ReqAuth:
		q.local = true
	case typ == codec.ReqMget || typ == codec.ReqDel:
		q.keys = args[1:]
	case typ == codec.ReqMset:
		for i := 1; i+1 < len(args); i += 2 {
			q.keys = append(q.keys, args[i])
		}
	case typ == codec.ReqEval || typ == codec.ReqEvalsha:
		q.keys = [][]byte{args[3]}
	default:
		q.keys = [][]byte{args[1]}
	}
	for _, k := range q.keys {
		q.pending[string(k)]++
	}
	return q
}

// routable: can every slot of q be routed in the current topology?  Returns the failing (slot, addr) otherwise.
func (r *simRun) routable(q *simReq) (ok bool, failSlot int, failAddr string) {
	slots := map[int]bool{}
	var order []int
	for _, k := range q.keys {
		s := int(hashkit.Hash(string(k)))
		if !slots[s] {
			slots[s] = true
			order = append(order, s)
		}
	}
	sort.Ints(order)
	for _, s := range order {
		m, _, owned := r.topo.owner(s)
		if !owned {
			return false, s, ""
		}
		// a read may go to a replica that has a pool; otherwise the master must have one
		if !r.topo.hasPool(m) {
			masterOnly := r.cfg.noslave || q.typ > codec.ReqWriteCmdStart || q.typ == codec.ReqHscan || q.typ == codec.ReqSscan || q.typ == codec.ReqZscan
			_, sl, _ := r.topo.owner(s)
			live := false
			for _, a := range sl {
				if r.topo.hasPool(a) {
					live = true
				}
			}
			if masterOnly || !live {
				return false, s, m
			}
		}
	}
	return true, 0, ""
}

// clientEvent feeds bytes, reconstructs the choices Go made, and appends the concrete model event.
func (r *simRun) clientEvent(ci int, data []byte) {
	c := r.clients[ci]
	enq0 := len(r.enq)
	nb0 := len(r.backends)
	wasOpen := c.peer.vc.Opened()
	if err := r.env.Feed(c.peer, data); err != nil {
		r.tags["feed-error"] = true
	}
	// harness-side view of the request stream of this client
	var newReqs []*simReq
	if wasOpen && !c.quit && !c.invalid {
		if len(c.leftover) > 0 {
			r.tags["request-cut-across-reads"] = true // the leftover path: conn.Peek/Discard over ring + fresh bytes
		}
		c.leftover = append(c.leftover, data...)
		for len(c.leftover) > 0 {
			args, n, err := strictParse(c.leftover)
			if err == errIncomplete {
				break
			}
			if err != nil {
				c.invalid = true
				break
			}
			q := r.classify(args, n)
			c.leftover = c.leftover[n:]
			c.reqs = append(c.reqs, q)
			newReqs = append(newReqs, q)
			if q.typ == codec.ReqQuit {
				c.quit = true
				break
			}
		}
	}
	// group the recorded enqueues by request object, in order
	var groups [][]enqRec
	for _, e := range r.enq[enq0:] {
		if len(groups) > 0 && groups[len(groups)-1][0].peer == e.peer {
			groups[len(groups)-1] = append(groups[len(groups)-1], e)
		} else {
			groups = append(groups, []enqRec{e})
		}
	}
	var choices []string
	// Which request dialled which NEW connection. New connections appear in r.backends in dial order. An accepted
	// request shows its targets (the recorded enqueues); a rejected multi-slot request shows nothing, but the slots
	// it visited before the failing one dialled connections too, and the connection numbering of everything that
	// follows depends on that order. So: claimedAt[b] = the first use of the new connection b by an accepted request
	// (position in newReqs, then position among that request's enqueues: a request dials in the order it enqueues);
	// b was dialled no later than every connection created after it.
	const never = 1 << 40
	const perReq = 1 << 20
	nNew := len(r.backends) - nb0
	claimedAt := make([]int, nNew)
	for k := range claimedAt {
		claimedAt[k] = never
	}
	{
		gi := 0
		for pos, q := range newReqs {
			if q.local {
				continue
			}
			if ok, _, _ := r.routable(q); !ok {
				continue
			}
			if gi < len(groups) {
				for ei, e := range groups[gi] {
					if e.backend >= nb0 && claimedAt[e.backend-nb0] == never {
						claimedAt[e.backend-nb0] = pos*perReq + ei
					}
				}
			}
			gi++
		}
	}
	// rejected requests: the slots they can have dialled for (collected youngest connection first, reversed below)
	type rejInfo struct {
		used map[int]bool
		vs   []string
	}
	rej := map[int]*rejInfo{}
	canDial := func(q *simReq, used map[int]bool, addr string) (int, bool) {
		masterOnly := r.cfg.noslave || q.typ > codec.ReqWriteCmdStart || q.typ == codec.ReqHscan || q.typ == codec.ReqSscan || q.typ == codec.ReqZscan
		for _, k := range q.keys {
			s := int(hashkit.Hash(string(k)))
			if used[s] {
				continue
			}
			m, sl, _ := r.topo.owner(s)
			live := false
			for _, a := range sl {
				if r.topo.hasPool(a) {
					live = true
				}
			}
			if (m == addr && (masterOnly || !live)) || (!masterOnly && containsStr(sl, addr)) {
				return s, true
			}
		}
		return 0, false
	}
	// From the youngest new connection to the oldest: it was dialled no later than the one created after it (`ub`).
	// If its first use by an accepted request is that early, that request dialled it (the latest possibility, which
	// leaves the most room for the older ones); otherwise the latest rejected request up to `ub` that can have been
	// routed there did - and every older connection then has to be accounted for at or before that request too.
	ub := never
	for k := nNew - 1; k >= 0; k-- {
		if claimedAt[k] != never && claimedAt[k] <= ub {
			ub = claimedAt[k]
			continue
		}
		for pos := len(newReqs) - 1; pos >= 0; pos-- {
			if pos*perReq > ub {
				continue
			}
			q := newReqs[pos]
			if q.local {
				continue
			}
			ok, fs, _ := r.routable(q)
			if ok {
				continue
			}
			ri := rej[pos]
			if ri == nil {
				ri = &rejInfo{used: map[int]bool{fs: true}} // a slot is visited once per request; the failing slot dialled nothing
				rej[pos] = ri
			}
			if s, can := canDial(q, ri.used, r.backends[nb0+k].peer.addr); can {
				ri.vs = append(ri.vs, fmt.Sprintf("%d@%s", s, hx([]byte(r.backends[nb0+k].peer.addr))))
				ri.used[s] = true
				ub = pos * perReq
				break
			}
		}
	}
	for _, ri := range rej {
		for a, b := 0, len(ri.vs)-1; a < b; a, b = a+1, b-1 {
			ri.vs[a], ri.vs[b] = ri.vs[b], ri.vs[a]
		}
	}
	gi := 0
	for pos, q := range newReqs {
		if q.local {
			continue
		}
		ok, fs, fa := r.routable(q)
		if ok {
			if gi >= len(groups) {
				choices = append(choices, "_")
				r.tags["choice-missing"] = true
				continue
			}
			var vs []string
			for _, e := range groups[gi] {
				vs = append(vs, fmt.Sprintf("%d@%s", hashkit.Hash(e.key), hx([]byte(r.backends[e.backend].peer.addr))))
			}
			gi++
			choices = append(choices, strings.Join(vs, ","))
		} else {
			q.rejected = true
			q.local = true
			var vs []string
			if ri := rej[pos]; ri != nil {
				vs = ri.vs
				if len(vs) > 0 {
					r.tags["rejected-request-dialled"] = true
				}
			}
			vs = append(vs, fmt.Sprintf("%d@%s", fs, hx([]byte(fa))))
			choices = append(choices, strings.Join(vs, ","))
		}
	}
	ch := "-"
	if len(choices) > 0 {
		ch = strings.Join(choices, "/")
	}
	r.model = append(r.model, fmt.Sprintf("c %d %s %s", ci, hx(data), ch))
}

func containsStr(l []string, s string) bool {
	for _, x := range l {
		if x == s {
			return true
		}
	}
	return false
}

// backendEvent answers the oldest pending command on backend j.
func (r *simRun) backendEvent(j int, kind string, arg string) {
	if r.backends[j].half != nil {
		r.finishHalf(j)
		return
	}
	if reply := r.backendReply(j, kind, arg); reply != nil {
		b := r.backends[j]
		if err := r.env.Feed(b.peer, reply); err != nil {
			r.tags["feed-error"] = true
			if kind == "err" {
				r.fail("C11: the event loop returned %v on the ordinary error reply %q of a node: the proxy would shut down instead of relaying the error", err, clip(reply))
			}
		}
		r.model = append(r.model, fmt.Sprintf("S %d %s", j, hx(reply)))
	}
}

// backendBatch answers the next k pending commands of backend j normally, all in ONE read event of the proxy
// (replies for different requests - possibly of different clients - arriving in one chunk)
func (r *simRun) backendBatch(j, k int) {
	if r.backends[j].half != nil {
		r.finishHalf(j)
		return
	}
	var all []byte
	for i := 0; i < k; i++ {
		reply := r.backendReply(j, "ok", "")
		if reply == nil {
			break
		}
		all = append(all, reply...)
	}
	if len(all) == 0 {
		return
	}
	r.tags["replies-batched"] = true
	if err := r.env.Feed(r.backends[j].peer, all); err != nil {
		r.tags["feed-error"] = true
	}
	r.model = append(r.model, fmt.Sprintf("S %d %s", j, hx(all)))
}

// backendReply computes (and accounts for) the reply to the oldest pending command on backend j; nil = nothing to answer
func (r *simRun) backendReply(j int, kind string, arg string) []byte {
	cmd, reply, kind := r.prepareReply(j, kind, arg)
	if reply == nil {
		return nil
	}
	r.commitReply(j, cmd, kind, arg, reply)
	return reply
}

// halfEvent: the node starts answering its oldest pending command but only the first part of the reply arrives
// in this read event of the proxy (the rest comes with `f`, or never if the connection is lost first)
func (r *simRun) halfEvent(j int, cutSeed int, kind string, arg string) {
	b := r.backends[j]
	if b.half != nil {
		r.finishHalf(j)
		return
	}
	if kind == "big" {
		r.backendEvent(j, kind, arg)
		return
	}
	cmd, reply, kind := r.prepareReply(j, kind, arg)
	if reply == nil {
		return
	}
	if len(reply) < 2 {
		r.commitReply(j, cmd, kind, arg, reply)
		_ = r.env.Feed(b.peer, reply)
		r.model = append(r.model, fmt.Sprintf("S %d %s", j, hx(reply)))
		return
	}
	cut := 1 + cutSeed%(len(reply)-1)
	b.half = &halfReply{cmd: cmd, reply: reply, cut: cut, kind: kind, arg: arg}
	r.tags["reply-cut-across-reads"] = true
	if err := r.env.Feed(b.peer, reply[:cut]); err != nil {
		r.tags["feed-error"] = true
	}
	r.model = append(r.model, fmt.Sprintf("S %d %s", j, hx(reply[:cut])))
}

// moreHalf: a further part of a reply that is already partly with the proxy, still not all of it
func (r *simRun) moreHalf(j int, cutSeed int) {
	b := r.backends[j]
	h := b.half
	if h == nil || b.closed || !b.peer.vc.Opened() {
		return
	}
	rest := len(h.reply) - h.cut
	if rest < 2 {
		r.finishHalf(j)
		return
	}
	n := 1 + cutSeed%(rest-1)
	r.tags["reply-cut-twice"] = true
	if err := r.env.Feed(b.peer, h.reply[h.cut:h.cut+n]); err != nil {
		r.tags["feed-error"] = true
	}
	r.model = append(r.model, fmt.Sprintf("S %d %s", j, hx(h.reply[h.cut:h.cut+n])))
	h.cut += n
}

// finishHalf: the rest of a reply whose first part is already with the proxy
func (r *simRun) finishHalf(j int) {
	b := r.backends[j]
	h := b.half
	b.half = nil
	if h == nil || b.closed || !b.peer.vc.Opened() {
		return
	}
	r.commitReply(j, h.cmd, h.kind, h.arg, h.reply)
	r.tags["reply-completed-later"] = true
	if err := r.env.Feed(b.peer, h.reply[h.cut:]); err != nil {
		r.tags["feed-error"] = true
		if h.kind == "err" {
			r.fail("C11: the event loop returned %v on the ordinary error reply %q of a node: the proxy would shut down instead of relaying the error", err, clip(h.reply))
		}
	}
	r.model = append(r.model, fmt.Sprintf("S %d %s", j, hx(h.reply[h.cut:])))
}

// prepareReply computes the reply to the oldest pending command on backend j without accounting for it;
// nil = nothing to answer
func (r *simRun) prepareReply(j int, kind string, arg string) ([][]byte, []byte, string) {
	r.refreshBackends()
	b := r.backends[j]
	if b.answered >= len(b.cmds) || b.closed || !b.peer.vc.Opened() {
		r.tags["backend-noop"] = true
		return nil, nil, kind
	}
	cmd := b.cmds[b.answered]
	name := string(lowerASCII(cmd[0]))
	var reply []byte
	handshake := name == "auth" || name == "readonly" || name == "asking" || name == "cluster"
	if handshake {
		kind = "ok"
	}
	slot := 0
	if len(cmd) > 1 {
		slot = specSlot(cmd[1])
	}
	switch kind {
	case "ok":
		reply = fakeReply(cmd)
	case "err":
		line, _ := unhx(arg)
		reply = append(append([]byte("-"), line...), '\r', '\n')
	case "moved":
		a, _ := unhx(arg)
		reply = []byte(fmt.Sprintf("-MOVED %d %s\r\n", slot, a))
	case "ask":
		a, _ := unhx(arg)
		reply = []byte(fmt.Sprintf("-ASK %d %s\r\n", slot, a))
	case "big":
		n, _ := strconv.Atoi(arg)
		reply = bulkOf(bytes.Repeat([]byte("x"), n))
	case "notok":
		// a status that is not OK: only meaningful for MSET fragments, anything else is answered normally
		if name == "mset" {
			reply = []byte("+QUEUED\r\n")
		} else {
			kind = "ok"
			reply = fakeReply(cmd)
		}
	case "nullarr":
		reply = []byte("*-1\r\n")
		if name == "mget" || name == "del" || name == "mset" {
			reply = fakeReply(cmd)
		}
	default:
		reply = fakeReply(cmd)
	}
	return cmd, reply, kind
}

// commitReply accounts for a reply that is (about to be) completely delivered to the proxy
func (r *simRun) commitReply(j int, cmd [][]byte, kind string, arg string, reply []byte) {
	b := r.backends[j]
	b.answered++
	r.tags["reply:"+kind] = true
	if kind == "moved" || kind == "ask" {
		a, _ := unhx(arg)
		known := false
		for _, p := range r.topo.pools {
			if p.addr == string(a) {
				known = true
			}
		}
		if known {
			rec := redirRec{cmd: cmd, addr: string(a), isAsk: kind == "ask", enqMark: len(r.enq)}
			for _, ob := range r.backends {
				rec.marks = append(rec.marks, len(ob.cmds))
			}
			r.redirs = append(r.redirs, rec)
		} else {
			// C15: a redirect to a node the proxy does not know must fail the request, not strand it
			kind = "unknown-node"
			r.tags["redirect-unknown-node"] = true
		}
	}
	r.noteAnswered(j, cmd, kind, reply)
}

// ---------- provenance oracle ----------

// keyOwner: keys carry "c<client>r<req>" so that the request a command belongs to is recognisable
func keyOwner(k []byte) (ci, ri int, ok bool) {
	s := string(k)
	i := strings.Index(s, "c")
	for i >= 0 {
		var a, b int
		if n, _ := fmt.Sscanf(s[i:], "c%dr%d", &a, &b); n == 2 {
			return a, b, true
		}
		j := strings.Index(s[i+1:], "c")
		if j < 0 {
			break
		}
		i += 1 + j
	}
	return 0, 0, false
}

func (r *simRun) noteAnswered(j int, cmd [][]byte, kind string, reply []byte) {
	name := string(lowerASCII(cmd[0]))
	if name == "auth" || name == "readonly" || name == "asking" || name == "cluster" {
		return
	}
	var keys [][]byte
	switch name {
	case "mget", "del":
		keys = cmd[1:]
	case "mset":
		for i := 1; i+1 < len(cmd); i += 2 {
			keys = append(keys, cmd[i])
		}
	case "eval", "evalsha":
		if len(cmd) > 3 {
			keys = [][]byte{cmd[3]}
		}
	default:
		if len(cmd) > 1 {
			keys = [][]byte{cmd[1]}
		}
	}
	for _, k := range keys {
		ci, ri, ok := keyOwner(k)
		if !ok || ci >= len(r.clients) || ri >= len(r.clients[ci].reqs) {
			continue
		}
		q := r.clients[ci].reqs[ri]
		switch kind {
		case "ok", "nullarr", "notok":
			if q.pending[string(k)] > 0 {
				q.pending[string(k)]--
			}
			if kind == "notok" {
				q.notok = true
			}
		case "moved", "ask":
			// stays pending: it will be re-sent
		default:
			if !q.failed && !q.complete() {
				q.failedBy = kind
				if kind == "err" {
					q.errLine = append([]byte{}, reply...)
				}
			}
			q.failed = true
			if kind == "lost" || kind == "unknown-node" {
				q.lost = true
			}
		}
		if kind == "big" && len(reply) > r.cfg.limit {
			if !q.failed && q.failedBy == "" {
				q.failedBy = "big"
			}
			q.failed = true
		}
	}
}

func (q *simReq) complete() bool {
	if q.local || q.failed {
		return true
	}
	for _, n := range q.pending {
		if n > 0 {
			return false
		}
	}
	return true
}

// parseReplies splits a client's received stream into RESP replies.
func parseReplies(b []byte) (replies [][]byte, rest []byte) {
	for len(b) > 0 {
		n := replyLen(b)
		if n <= 0 {
			break
		}
		replies = append(replies, b[:n])
		b = b[n:]
	}
	return replies, b
}

func replyLen(b []byte) int {
	i := bytes.IndexByte(b, '\n')
	if i < 1 {
		return 0
	}
	line := b[:i-1]
	if len(line) == 0 {
		return -1
	}
	switch line[0] {
	case '+', '-', ':':
		return i + 1
	case '$':
		n, err := strconv.Atoi(string(line[1:]))
		if err != nil {
			return -1
		}
		if n < 0 {
			return i + 1
		}
		if len(b) < i+1+n+2 {
			return 0
		}
		return i + 1 + n + 2
	case '*':
		n, err := strconv.Atoi(string(line[1:]))
		if err != nil {
			return -1
		}
		off := i + 1
		for k := 0; k < n; k++ {
			m := replyLen(b[off:])
			if m <= 0 {
				return m
			}
			off += m
		}
		return off
	}
	return -1
}

// acceptable: could `reply` be the proxy's answer to request q?
func (r *simRun) acceptable(q *simReq, reply []byte) bool {
	if len(reply) > 0 && reply[0] == '-' {
		return true // some error: rejections, backend errors, timeouts, lost connections
	}
	switch q.typ {
	case codec.ReqPing:
		return string(reply) == "+PONG\r\n"
	case codec.ReqQuit, codec.ReqAuth:
		return string(reply) == "+OK\r\n"
	case codec.ReqMget:
		return bytes.Equal(reply, fakeReply(q.args))
	case codec.ReqDel:
		return bytes.Equal(reply, fakeReply(q.args))
	case codec.ReqMset:
		return string(reply) == "+OK\r\n" && !q.notok
	}
	if q.local {
		return false
	}
	want := fakeReply(append([][]byte{lowerASCII(q.args[0])}, q.args[1:]...))
	return bytes.Equal(reply, want) || string(reply) == "*-1\r\n"
}

// checkClients: C01 / C03 (order, provenance, no stray bytes) and C09 (completed prefix delivered).
func (r *simRun) checkClients(after string) {
	for ci, c := range r.clients {
		replies, rest := parseReplies(c.peer.recv)
		if len(rest) > 0 && replyLen(rest) < 0 {
			r.fail("C01: client %d received bytes that are not a reply after %d replies: %q (%s)", ci, len(replies), rest, after)
		}
		if len(replies) > len(c.reqs) {
			r.fail("C01: client %d got %d replies for %d requests (%s)", ci, len(replies), len(c.reqs), after)
			continue
		}
		for i, rp := range replies {
			q := c.reqs[i]
			if len(rp) > r.cfg.limit && rp[0] != '-' {
				r.fail("C17: client %d, request %d %q: a reply of %d bytes was delivered although the size limit is %d; it must be replaced by an error reply (%s)", ci, i, clip(encodeCmd(q.args)), len(rp), r.cfg.limit, after)
			}
			switch {
			case q.failedBy == "err" && len(rp) > 0 && rp[0] != '-':
				r.fail("C11: client %d, request %d %q: a node answered %q but the client received the non-error reply %q (%s)", ci, i, clip(encodeCmd(q.args)), clip(q.errLine), clip(rp), after)
			case q.failedBy == "err" && len(q.keys) == 1 && len(q.errLine) <= r.cfg.limit && !bytes.Equal(rp, q.errLine): // (an error line over the size limit is answered with the too-large error)
				r.fail("C11: client %d, request %d %q: the node's error %q reached the client as %q (%s)", ci, i, clip(encodeCmd(q.args)), clip(q.errLine), clip(rp), after)
			case q.failedBy == "timeout" && len(rp) > 0 && rp[0] != '-':
				// (another failure may have completed it first - lost connection, unknown node -, so any error is fine)
				r.fail("C16: client %d, request %d %q timed out but was answered with the non-error reply %q (%s)", ci, i, clip(encodeCmd(q.args)), clip(rp), after)
			}
			if !r.acceptable(c.reqs[i], rp) {
				// a reply that answers another request of the same connection is an ordering defect (C01);
				// anything else was produced for someone else's request (C03)
				own := false
				for k, q := range c.reqs {
					if k != i && r.acceptable(q, rp) {
						own = true
					}
				}
				split := c.reqs[i].typ == codec.ReqMget || c.reqs[i].typ == codec.ReqDel || c.reqs[i].typ == codec.ReqMset
				if split && !c.reqs[i].local && !c.reqs[i].rejected && !(c.reqs[i].notok && string(rp) == "+OK\r\n") {
					r.fail("C07: client %d, reply %d is %q, which is not the reassembled reply of its split request %q (%s)", ci, i, clip(rp), clip(encodeCmd(c.reqs[i].args)), after)
				}
				if c.reqs[i].notok && string(rp) == "+OK\r\n" {
					r.fail("C07: client %d, request %d %q was answered +OK although a node answered one of its fragments with a status other than OK (%s)", ci, i, clip(encodeCmd(c.reqs[i].args)), after)
				} else if own {
					r.fail("C01: client %d, reply %d is %q, which answers another of its requests, not request %d %q (%s)", ci, i, clip(rp), i, clip(encodeCmd(c.reqs[i].args)), after)
				} else {
					r.fail("C03: client %d, reply %d is %q, which is not a reply to its request %q (%s)", ci, i, clip(rp), clip(encodeCmd(c.reqs[i].args)), after)
				}
				break
			}
		}
		if !c.peer.vc.Opened() && !c.closed && !c.quit && !c.invalid && r.crashed == "" && !c.rejectedAtOpen {
			// a client that sent only well-formed requests and did not quit must not be disconnected
			switch {
			case r.tags["expired"]:
				r.fail("C16: the proxy closed client %d, which sent only well-formed requests and did not quit: after a timeout the connection must stay usable (%s)", ci, after)
			case r.tags["request-cut-across-reads"]:
				r.fail("C08: the proxy closed client %d although it sent only well-formed requests, some of them split across reads (%s)", ci, after)
			default:
				r.fail("C01: the proxy closed client %d, which sent only well-formed requests and did not quit: its outstanding requests get no reply (%s)", ci, after)
			}
		}
		if c.peer.vc.Opened() {
			// C09: the maximal prefix of completed requests must have been delivered
			p := 0
			for p < len(c.reqs) && c.reqs[p].complete() {
				p++
			}
			if len(replies) < p {
				lost, timedOut := -1, -1
				for k := len(replies); k < p; k++ {
					if c.reqs[k].lost && lost < 0 {
						lost = k
					}
					if c.reqs[k].failedBy == "timeout" && timedOut < 0 {
						timedOut = k
					}
				}
				if timedOut >= 0 && timedOut == len(replies) {
					r.fail("C16: client %d: request %d %q has timed out but no timeout error was delivered; %d of %d completed leading requests are unanswered (%s)", ci, timedOut, clip(encodeCmd(c.reqs[timedOut].args)), p-len(replies), p, after)
				} else if lost >= 0 {
					r.fail("C15: client %d is left waiting: its request %d %q was queued to or in flight on a lost backend connection (or redirected to an unknown node) and %d of %d completed leading requests are unanswered (%s)", ci, lost, clip(encodeCmd(c.reqs[lost].args)), p-len(replies), p, after)
				} else {
					r.fail("C09: client %d has %d leading requests completed but only %d replies delivered (%s)", ci, p, len(replies), after)
				}
			}
		}
	}
}

// checkAllAnswered: C01 at the end of a trace. The drain phase has answered every command the fake nodes received,
// so every request of an open connection whose fragments were all answered (or failed) must have got its reply.
func (r *simRun) checkAllAnswered() {
	r.refreshBackends()
	for _, b := range r.backends {
		if !b.closed && b.answered < len(b.cmds) {
			return // the trace ends with commands unanswered (not drained): nothing to say
		}
	}
	for ci, c := range r.clients {
		if !c.peer.vc.Opened() || c.closed {
			continue
		}
		replies, _ := parseReplies(c.peer.recv)
		done := 0
		for done < len(c.reqs) && c.reqs[done].complete() {
			done++
		}
		if len(replies) < done {
			r.fail("C01: at the end of the trace client %d has received %d replies for %d requests that are all answered; request %d %q got none", ci, len(replies), done, len(replies), clip(encodeCmd(c.reqs[len(replies)].args)))
		}
	}
}

func clipStr(s string, n int) string {
	if len(s) > n {
		return s[:n] + "..."
	}
	return s
}

func clip(b []byte) []byte {
	if len(b) > 120 {
		return append(append([]byte{}, b[:120]...), "..."...)
	}
	return b
}

// checkBackends: C10 (per connection, a client's commands arrive in request order), C13 (ASKING precedes a
// command re-sent after ASK), C04 (role / owner of the key's slot, handshake first).
func (r *simRun) checkBackends() {
	r.checkRedirects()
	// C10: the order guarantee rests on the configured number of connections per node
	open := map[string]int{}
	for _, b := range r.backends {
		if !b.closed && b.peer.vc.Opened() {
			open[b.peer.addr]++
		}
	}
	for addr, n := range open {
		if n > r.cfg.conns {
			r.fail("C10: %d connections are open to node %s, %d per node are configured: one client's pipeline is spread over them and can be reordered", n, addr, r.cfg.conns)
		}
	}
	for j, b := range r.backends {
		last := map[int]int{}
		// C04 handshake
		want := 0
		if r.cfg.pw != "" {
			want++
			if len(b.cmds) > 0 && string(lowerASCII(b.cmds[0][0])) != "auth" {
				r.fail("C04: backend %d (%s): first command is %q, expected AUTH", j, b.peer.addr, b.cmds[0][0])
			}
		}
		isSlave := false
		for _, p := range r.topo.pools {
			if p.addr == b.peer.addr {
				isSlave = p.slave
			}
		}
		if isSlave && len(b.cmds) > want && string(lowerASCII(b.cmds[want][0])) != "readonly" {
			r.fail("C04: replica connection %d (%s): command %d is %q, expected READONLY", j, b.peer.addr, want, b.cmds[want][0])
		}
		for i, cmd := range b.cmds {
			name := string(lowerASCII(cmd[0]))
			if name == "auth" || name == "readonly" || name == "asking" || name == "cluster" || len(cmd) < 2 {
				continue
			}
			key := cmd[1]
			if (name == "eval" || name == "evalsha") && len(cmd) > 3 {
				key = cmd[3]
			}
			ci, ri, ok := keyOwner(key)
			if !ok {
				continue
			}
			redirected := i > 0 && string(lowerASCII(b.cmds[i-1][0])) == "asking"
			if prev, seen := last[ci]; seen && ri < prev && !redirected && !r.tags["reply:moved"] && !r.tags["reply:ask"] {
				r.fail("C10: backend connection %d (%s) received request %d of client %d after its request %d", j, b.peer.addr, ri, ci, prev)
			}
			if ri > last[ci] {
				last[ci] = ri
			}
			// C04: the node must belong to the replica set owning the key's slot (unless redirected there)
			if !r.tags["reply:moved"] && !r.tags["reply:ask"] {
				m, sl, owned := r.topo.owner(specSlot(key))
				if !owned || (b.peer.addr != m && !containsStr(sl, b.peer.addr)) {
					r.fail("C04: %q for key %q (slot %d) was sent to %s, which is not in the owning replica set", name, key, specSlot(key), b.peer.addr)
				} else if b.peer.addr != m {
					t := codec.CommandStr2Type[name]
					if r.cfg.noslave || !refReadOnly[name] || refScan[name] {
						r.fail("C04: %q (type %d) was sent to replica %s; it must go to the master %s", name, t, b.peer.addr, m)
					}
				}
			}
		}
	}
}

func sameCmd(a, b [][]byte) bool {
	if len(a) != len(b) {
		return false
	}
	for i := range a {
		if !bytes.Equal(a[i], b[i]) {
			return false
		}
	}
	return true
}

// checkRedirects: C13. (a) every ASKING on the wire is directly followed by a command that an ASK reply sent to
// this very node; (b) a command re-sent to the node named by an ASK reply arrives there directly behind ASKING.
func (r *simRun) checkRedirects() {
	for j, b := range r.backends {
		for i, cmd := range b.cmds {
			if string(lowerASCII(cmd[0])) != "asking" || i+1 >= len(b.cmds) {
				continue
			}
			ok := false
			for _, rec := range r.redirs {
				if rec.isAsk && rec.addr == b.peer.addr && sameCmd(rec.cmd, b.cmds[i+1]) {
					ok = true
				}
			}
			if !ok {
				r.fail("C13: on backend connection %d (%s) ASKING is followed by %q, which no ASK reply redirected to this node", j, b.peer.addr, clip(encodeCmd(b.cmds[i+1])))
			}
		}
	}
	// (c) termination: a command is sent once and re-sent at most MaxRedirects times, so a node can be asked to
	// redirect it at most MaxRedirects+1 times
	counts := map[string]int{}
	for _, rec := range r.redirs {
		counts[string(encodeCmd(rec.cmd))]++
	}
	for c, n := range counts {
		if n > constant.MaxRedirects+1 {
			r.fail("C13: %q was redirected %d times and re-sent every time, the bound is %d re-sends: redirect handling does not terminate", clip([]byte(c)), n, constant.MaxRedirects)
			break
		}
	}
	// (b) in queueing order (the recording SConn wrapper sees every EnqueueOutFrag): the first time the command is
	// queued again after its ASK reply, it goes to a connection of the named node, directly behind ASKING
	for _, rec := range r.redirs {
		if !rec.isAsk {
			continue
		}
		want := encodeCmd(rec.cmd)
		for i := rec.enqMark; i < len(r.enq); i++ {
			if !bytes.Equal(r.enq[i].req, want) {
				continue
			}
			e := r.enq[i]
			okAsking := false
			if i > rec.enqMark {
				p := r.enq[i-1]
				if args, _, err := strictParse(p.req); err == nil && len(args) == 1 && string(lowerASCII(args[0])) == "asking" && p.backend == e.backend {
					okAsking = true
				}
			}
			if !okAsking {
				r.fail("C13: %q was re-queued after an ASK redirect without ASKING directly before it on the same connection (connection %d)", clip(want), e.backend)
			} else if e.backend < len(r.backends) && r.backends[e.backend].peer.addr != rec.addr {
				r.fail("C13: %q was re-sent to %s, the ASK reply named %s", clip(want), r.backends[e.backend].peer.addr, rec.addr)
			}
			break
		}
	}
}

// ---------- Exec ----------

func (v *simView) Exec(line string) (out string, oracle string, tags []string) {
	o, w, t, _ := v.run(line)
	return o, w, t
}

// ExecModel also returns the concrete trace (with the choices Go made in THIS run) for the Lean model.
func (v *simView) ExecModel(line string) (out string, oracle string, tags []string, modelLine string) {
	return v.run(line)
}

func (v *simView) run(line string) (out string, oracle string, tags []string, modelLine string) {
	parts := strings.Split(strings.TrimPrefix(line, "sim "), "|")
	if len(parts) != 3 {
		return "bad-op", "", nil, line
	}
	cfg, err1 := parseCfg(parts[0])
	topo, err2 := parseTopo(parts[1])
	if err1 != nil || err2 != nil {
		return "bad-op", "", nil, line
	}
	old := debug.SetGCPercent(-1)
	defer debug.SetGCPercent(old)
	r, err := newSimRun(cfg, topo)
	if err != nil {
		return "bad-op " + err.Error(), "", nil, line
	}
	defer r.env.Close()
	for _, ev := range strings.Split(parts[2], ";") {
		if !r.apply(ev) {
			break
		}
	}
	r.finish()
	if v != nil && !v.noVariant && r.tags["request-cut-across-reads"] && len(r.fails) > 0 && !strings.Contains(strings.Join(r.fails, "|"), "C08:") {
		// C08, differentially: the same trace with every cut request delivered in ONE read instead. If that one is served
		// without complaint, what went wrong depends on how the bytes were cut into reads
		if uncut, changed := uncutLine(parts[2]); changed {
			v2 := &simView{noVariant: true}
			if _, o2, _, _ := v2.run("sim " + parts[0] + "|" + parts[1] + "|" + uncut); o2 == "" {
				r.fail("C08: the same requests are served correctly when every request arrives in one read, and not when they are cut across reads at the points of this trace (%s)", clipStr(r.fails[0], 200))
			}
		}
	}
	return r.result()
}

// uncutLine: every client chunk that ends inside a request is completed with the bytes of that client's next chunk
// (which disappears); the order of everything else stays
func uncutLine(events string) (string, bool) {
	evs := strings.Split(events, ";")
	pend := map[string][]byte{} // client -> bytes of an unfinished request
	open := map[string]int{}    // client -> index of the event holding the unfinished request
	changed := false
	out := make([]string, len(evs))
	copy(out, evs)
	for i, ev := range evs {
		f := strings.Fields(ev)
		if len(f) < 3 || f[0] != "c" {
			continue
		}
		d, err := unhx(f[2])
		if err != nil {
			continue
		}
		ci := f[1]
		if j, ok := open[ci]; ok {
			// continuation: move these bytes into the event that holds the beginning
			fj := strings.Fields(out[j])
			dj, _ := unhx(fj[2])
			out[j] = fmt.Sprintf(" c %s %s ", ci, hx(append(dj, d...)))
			out[i] = ""
			changed = true
			delete(open, ci)
			pend[ci] = append(pend[ci], d...)
			i = j
		} else {
			pend[ci] = append(pend[ci], d...)
		}
		// is the client's stream inside a request now?
		rest := pend[ci]
		for len(rest) > 0 {
			_, n, perr := strictParse(rest)
			if perr != nil {
				break
			}
			rest = rest[n:]
		}
		pend[ci] = rest
		if len(rest) > 0 {
			if _, _, perr := strictParse(rest); perr == errIncomplete {
				open[ci] = i
			}
		}
	}
	var keep []string
	for _, e := range out {
		if strings.TrimSpace(e) != "" {
			keep = append(keep, e)
		}
	}
	return strings.Join(keep, ";"), changed
}

func (r *simRun) result() (out string, oracle string, tags []string, modelLine string) {
	for t := range r.tags {
		tags = append(tags, t)
	}
	tags = append(tags, r.domainTags()...)
	modelLine = "sim " + r.cfg.String() + " | " + r.topo.String() + " | " + strings.Join(r.model, " ; ")
	return r.output(), strings.Join(r.fails, " | "), tags, modelLine
}

func (r *simRun) finish() {
	defer func() {
		if rec := recover(); rec != nil {
			r.fail("harness: %v", rec)
		}
	}()
	if r.crashed == "" {
		r.checkBackends()
		r.checkAllAnswered()
	}
}

// apply executes one symbolic event on the real code; false when the proxy crashed.
func (r *simRun) apply(ev string) (alive bool) {
	if r.crashed != "" {
		return false
	}
	defer func() {
		if rec := recover(); rec != nil {
			r.crashed = "panic"
			// the process is gone: every request in flight on every connection stays unanswered (C01), and the
			// mechanism that was running when it died failed at its job
			why := fmt.Sprintf("the proxy panicked on event `%s`: %v", clipStr(strings.TrimSpace(ev), 80), rec)
			f := strings.Fields(ev)
			if len(f) > 0 {
				switch {
				case f[0] == "s" && len(f) > 2 && (f[2] == "moved" || f[2] == "ask"), f[0] == "h" && len(f) > 3 && (f[3] == "moved" || f[3] == "ask"):
					r.fail("C13: %s (while following a redirect)", why)
				case f[0] == "s" && len(f) > 2 && (f[2] == "err" || f[2] == "big"), f[0] == "h" && len(f) > 3 && f[3] == "err":
					r.fail("C11: %s (while relaying an error reply)", why)
				case f[0] == "X" || f[0] == "K":
					r.fail("C15: %s (while failing the requests of a lost connection)", why)
				case f[0] == "E":
					r.fail("C16: %s (while timing requests out)", why)
				}
			}
			if len(r.redirs) > 0 && !strings.Contains(strings.Join(r.fails, "|"), "C13:") {
				r.fail("C13: %s; %d redirect(s) had been followed in this trace: the redirected request never gets its final reply", why, len(r.redirs))
			}
			r.fail("C12: %s", why)
			r.fail("C01: %s: requests in flight are never answered", why)
			alive = false
		}
	}()
	f := strings.Fields(ev)
	if len(f) == 0 {
		return true
	}
	n0 := len(r.model)
	switch f[0] {
	case "C":
		ip := "10.9.9.9"
		if len(f) > 1 {
			ip = f[1]
		}
		p, _ := r.env.AddClient(ip)
		r.clients = append(r.clients, &simClientState{peer: p})
		r.model = append(r.model, "C 1")
	case "c":
		i, _ := strconv.Atoi(f[1])
		d, _ := unhx(f[2])
		if i < len(r.clients) && !r.clients[i].closed {
			r.clientEvent(i, d)
		}
	case "x":
		i, _ := strconv.Atoi(f[1])
		if i < len(r.clients) && !r.clients[i].closed {
			r.clients[i].closed = true
			_ = r.env.PeerClose(r.clients[i].peer)
			r.model = append(r.model, fmt.Sprintf("x %d", i))
		}
	case "T":
		_, _ = r.env.env.RunTasks()
		r.model = append(r.model, "T")
		r.noteProxyClosedBackends()
	case "K":
		// a node leaves the topology: what `ticker` does for an address that is no longer in the server map
		p, _ := strconv.Atoi(f[1])
		if p < len(r.topo.pools) && !r.topo.removed[r.topo.pools[p].addr] {
			addr := r.topo.pools[p].addr
			if pool, ok := core.EngineGlobal.ProxyPool[addr]; ok {
				pool.Close()
				delete(core.EngineGlobal.ProxyPool, addr)
			}
			if r.topo.removed == nil {
				r.topo.removed = map[string]bool{}
			}
			r.topo.removed[addr] = true
			r.tags["node-removed"] = true
			r.model = append(r.model, fmt.Sprintf("K %d", p))
		}
	case "s":
		j, _ := strconv.Atoi(f[1])
		kind, arg := "ok", ""
		if len(f) > 2 {
			kind = f[2]
		}
		if len(f) > 3 {
			arg = f[3]
		}
		if j < len(r.backends) {
			r.backendEvent(j, kind, arg)
		}
	case "m":
		j, _ := strconv.Atoi(f[1])
		k, _ := strconv.Atoi(f[2])
		if j < len(r.backends) {
			r.backendBatch(j, k)
		}
	case "h":
		// h <backend> <cut> [kind [arg]]: only the first part of the next reply arrives
		j, _ := strconv.Atoi(f[1])
		cut, _ := strconv.Atoi(f[2])
		kind, arg := "ok", ""
		if len(f) > 3 {
			kind = f[3]
		}
		if len(f) > 4 {
			arg = f[4]
		}
		if j < len(r.backends) {
			r.halfEvent(j, cut, kind, arg)
		}
	case "f":
		j, _ := strconv.Atoi(f[1])
		if j < len(r.backends) {
			r.finishHalf(j)
		}
	case "g":
		// g <backend> <cut>: one more part of a reply that is already partly delivered
		j, _ := strconv.Atoi(f[1])
		cut := 0
		if len(f) > 2 {
			cut, _ = strconv.Atoi(f[2])
		}
		if j < len(r.backends) {
			r.moreHalf(j, cut)
		}
	case "X":
		j, _ := strconv.Atoi(f[1])
		if j < len(r.backends) && !r.backends[j].closed {
			r.refreshBackends()
			b := r.backends[j]
			b.closed = true
			if b.half != nil {
				b.half = nil
				r.tags["lost-part-way-through-a-reply"] = true
			}
			// everything sent to this connection and not yet answered is lost
			for _, cmd := range b.cmds[b.answered:] {
				r.noteAnswered(j, cmd, "lost", nil)
			}
			b.answered = len(b.cmds)
			// what is still queued inside the proxy for this connection is lost too
			r.markQueuedLost(j)
			_ = r.env.PeerClose(b.peer)
			r.model = append(r.model, fmt.Sprintf("X %d", j))
		}
	case "E":
		r.refreshBackends()
		if len(f) > 1 {
			// E k: exactly the k earliest deadlines of unanswered fragments pass (deadline order = write order)
			k, _ := strconv.Atoi(f[1])
			for _, x := range r.env.env.ExpireOldest(k) {
				r.tags["expired-some"] = true
				if args, _, err := strictParse(x.Req); err == nil {
					r.noteAnswered(-1, args, "timeout", nil)
				}
			}
			r.model = append(r.model, fmt.Sprintf("E %d", k))
			break
		}
		if r.cfg.timeout {
			r.tags["expired"] = true
			for j, b := range r.backends {
				if b.closed {
					continue
				}
				for _, cmd := range b.cmds[b.answered:] {
					r.noteAnswered(j, cmd, "timeout", nil)
				}
			}
		}
		r.env.env.ShiftDeadlines(-2 * 3600 * 1e9)
		r.env.env.MsgTimeout()
		r.model = append(r.model, "E")
	}
	if len(r.model) > n0 {
		if r.cfg.timeout && f[0] != "E" {
			// the event loop scans the deadlines after every wake-up; nothing has expired here, so nothing may happen
			r.env.env.MsgTimeout()
		}
		r.snapshot()
		r.checkClients("after event `" + strings.TrimSpace(ev) + "`")
	}
	return true
}

// noteProxyClosedBackends: connections the proxy itself closed (a removed node's pool): whatever they carried is lost
func (r *simRun) noteProxyClosedBackends() {
	r.refreshBackends()
	for j, b := range r.backends {
		if !b.closed && b.peer.vc.Opened() && r.topo.removed[b.peer.addr] {
			// C15: the close tasks of a removed node's pool have run (they were queued before this T)
			r.fail("C15: node %s was removed from the topology but its connection %d is still open after the poller ran its tasks: requests in flight on it are never failed", b.peer.addr, j)
		}
		if b.closed || b.peer.vc.Opened() {
			continue
		}
		b.closed = true
		b.half = nil
		for _, cmd := range b.cmds[b.answered:] {
			r.noteAnswered(j, cmd, "lost", nil)
		}
		b.answered = len(b.cmds)
		r.markQueuedLost(j)
	}
}

// markQueuedLost: fragments enqueued to backend j but not yet written (no runTasks since) are failed by the proxy.
func (r *simRun) markQueuedLost(j int) {
	seen := len(r.backends[j].cmds)
	_ = seen
	// every recorded enqueue to j whose command has not shown up on the wire yet
	count := 0
	for _, e := range r.enq {
		if e.backend == j {
			count++
		}
	}
	// commands on the wire (excluding handshake / asking)
	wire := 0
	for _, cmd := range r.backends[j].cmds {
		n := string(lowerASCII(cmd[0]))
		if n != "auth" && n != "readonly" && n != "asking" && n != "cluster" {
			wire++
		}
	}
	k := 0
	for _, e := range r.enq {
		if e.backend != j {
			continue
		}
		if args, _, err := strictParse(e.req); err == nil && string(lowerASCII(args[0])) == "asking" {
			continue // ASKING is the proxy's own command, not a client fragment
		}
		k++
		if k > wire {
			if args, _, err := strictParse(e.req); err == nil {
				r.noteAnswered(j, args, "lost", nil)
			}
		}
	}
}

// keyClient: the client number a generated key carries ("c<ci>r<n>.<x>", possibly behind a "{tag}"), or -1
func keyClient(k []byte) int {
	str := string(k)
	if i := strings.Index(str, "}"); strings.HasPrefix(str, "{") && i > 0 {
		str = str[i+1:]
	}
	if !strings.HasPrefix(str, "c") {
		return -1
	}
	j := strings.Index(str, "r")
	if j < 2 {
		return -1
	}
	n, err := strconv.Atoi(str[1:j])
	if err != nil {
		return -1
	}
	return n
}

func (r *simRun) domainTags() []string {
	t := []string{"dom:C01", "dom:C03", "dom:C09", "dom:C10", "dom:C04"}
	for _, c := range r.clients {
		for _, q := range c.reqs {
			switch {
			case q.rejected:
				t = append(t, "req:unroutable")
			case q.local:
				t = append(t, "req:local")
			case q.typ == codec.ReqMget || q.typ == codec.ReqDel || q.typ == codec.ReqMset:
				t = append(t, "req:split", "dom:C07", "dom:C06")
			default:
				t = append(t, "req:single", "dom:C02")
			}
		}
	}
	if r.tags["reply:moved"] || r.tags["reply:ask"] {
		t = append(t, "dom:C13")
	}
	if r.tags["reply:err"] || r.tags["reply:big"] {
		t = append(t, "dom:C11")
	}
	for _, b := range r.backends {
		if b.closed {
			t = append(t, "dom:C15", "ev:backend-close")
		}
	}
	if r.cfg.timeout {
		t = append(t, "dom:C16")
	}
	if len(r.clients) > 1 {
		t = append(t, "multi-client", "dom:C12")
	}
	for _, c := range r.clients {
		if c.invalid {
			t = append(t, "dom:C12", "client-sent-malformed")
			break
		}
	}
	if r.cfg.limit < 4096 {
		t = append(t, "dom:C17", "small-limit")
	}
	if r.tags["request-cut-across-reads"] {
		t = append(t, "dom:C08")
	}
	if r.tags["node-removed"] {
		t = append(t, "dom:C15")
	}
	return t
}

func (v *simView) Shrink(line string) []string {
	parts := strings.Split(line, "|")
	if len(parts) != 3 {
		return nil
	}
	evs := strings.Split(parts[2], ";")
	var res []string
	// drop one event (later ones first), then halves
	for i := len(evs) - 1; i >= 0; i-- {
		if strings.HasPrefix(strings.TrimSpace(evs[i]), "C") {
			continue
		}
		c := append(append([]string{}, evs[:i]...), evs[i+1:]...)
		res = append(res, parts[0]+"|"+parts[1]+"|"+strings.Join(c, ";"))
	}
	if len(evs) > 4 {
		res = append([]string{parts[0] + "|" + parts[1] + "|" + strings.Join(evs[:len(evs)/2], ";")}, res...)
	}
	return res
}
