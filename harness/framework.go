package main

import (
	"bufio"
	"encoding/hex"
	"encoding/json"
	"fmt"
	"os"
	"os/exec"
	"path/filepath"
	"sort"
	"strconv"
	"strings"
	"time"
)

// A View ties one slice of the real code to the Lean model: Gen produces input
// lines, Exec runs the REAL implementation on a line and returns its canonical
// output plus an independent verdict of the property's executable spec
// ("" = property holds on this case), and tags describing which branches /
// outcome kinds the case exercised.
type View interface {
	Name() string
	Gen(r *Rng, i int) string
	Exec(line string) (out string, oracle string, tags []string)
	// Shrink proposes smaller variants of a line (may return nil).
	Shrink(line string) []string
	// MinKinds is the least number of distinct tags a healthy run must hit.
	MinKinds() int
}

type Mismatch struct {
	Line  string   `json:"line"`
	Tags  []string `json:"tags"`
	Go    string   `json:"go"`
	Model string   `json:"model"`
	// Oracle verdict for the (shrunk) line on the real code.
	Oracle string `json:"oracle,omitempty"`
	// what was seen when the disagreement was first detected (before shrinking)
	OrigLine  string `json:"orig_line,omitempty"`
	OrigGo    string `json:"orig_go,omitempty"`
	OrigModel string `json:"orig_model,omitempty"`
	// the concrete line (with the choices observed in that execution) the model was given
	ModelLine string `json:"model_line,omitempty"`
}

type OracleFail struct {
	// the case as generated and everything the oracles said about it (shrinking keeps only the first property's
	// verdict alive)
	OrigLine string   `json:"orig_line,omitempty"`
	OrigWhy  string   `json:"orig_why,omitempty"`
	Line     string   `json:"line"`
	Tags     []string `json:"tags"`
	Go       string   `json:"go"`
	Why      string   `json:"why"`
}

type Report struct {
	View        string `json:"view"`
	Seed        uint64 `json:"seed"`
	Cases       int    `json:"cases"`
	CorpusCases int    `json:"corpus_cases"`
	// Hang: the line on which the real code did not return within the per-case deadline (the run stops there)
	Hang       string         `json:"hang,omitempty"`
	Distinct   int            `json:"distinct"`
	Tags       map[string]int `json:"tags"`
	Kinds      int            `json:"kinds"`
	MinKinds   int            `json:"min_kinds"`
	Degenerate bool           `json:"degenerate"`
	Mismatches []Mismatch     `json:"mismatches"`
	// Unreproduced: disagreements that none of ten re-executions of the same line showed again (the complete
	// case is kept for analysis; it does not count as a disagreement)
	Unreproduced []Mismatch   `json:"unreproduced,omitempty"`
	OracleFails  []OracleFail `json:"oracle_fails"`
	Samples      []string     `json:"samples"`
	DriverFailed string       `json:"driver_failed,omitempty"`
}

func hx(b []byte) string {
	if len(b) == 0 {
		return "-"
	}
	return hex.EncodeToString(b)
}

func unhx(s string) ([]byte, error) {
	if s == "-" {
		return nil, nil
	}
	return hex.DecodeString(s)
}

// runDriver pipes lines to the compiled Lean driver and returns one output per line.
func runDriver(driver string, lines []string) ([]string, error) {
	cmd := exec.Command(driver)
	stdin, err := cmd.StdinPipe()
	if err != nil {
		return nil, err
	}
	stdout, err := cmd.StdoutPipe()
	if err != nil {
		return nil, err
	}
	cmd.Stderr = os.Stderr
	if err := cmd.Start(); err != nil {
		return nil, err
	}
	go func() {
		w := bufio.NewWriterSize(stdin, 1<<20)
		for _, l := range lines {
			w.WriteString(l)
			w.WriteByte('\n')
		}
		w.Flush()
		stdin.Close()
	}()
	var outs []string
	sc := bufio.NewScanner(stdout)
	sc.Buffer(make([]byte, 1<<20), 1<<30)
	for sc.Scan() {
		outs = append(outs, sc.Text())
	}
	if err := cmd.Wait(); err != nil {
		return outs, fmt.Errorf("driver: %v", err)
	}
	if len(outs) != len(lines) {
		return outs, fmt.Errorf("driver returned %d lines for %d inputs", len(outs), len(lines))
	}
	return outs, nil
}

func loadCorpus(dir, view string) []string {
	var lines []string
	files, _ := filepath.Glob(filepath.Join(dir, view+"*.txt"))
	sort.Strings(files)
	for _, f := range files {
		fh, err := os.Open(f)
		if err != nil {
			continue
		}
		sc := bufio.NewScanner(fh)
		sc.Buffer(make([]byte, 1<<20), 1<<30)
		for sc.Scan() {
			l := strings.TrimSpace(sc.Text())
			if l == "" || strings.HasPrefix(l, "#") {
				continue
			}
			lines = append(lines, l)
		}
		fh.Close()
	}
	return lines
}

// ModelExecer is implemented by views whose model input differs from the symbolic line
// (the real run's nondeterministic choices are appended).
type ModelExecer interface {
	ExecModel(line string) (out string, oracle string, tags []string, modelLine string)
}

// safeExecModel is safeExec that also yields the line to hand to the model.
func safeExecModel(v View, line string) (out, oracle string, tags []string, modelLine string) {
	if hangLine != "" {
		return "HANG", "", nil, line
	}
	if !withWatchdog(caseDeadline, func() { out, oracle, tags, modelLine = safeExecModel0(v, line) }) {
		hangLine = line
		return "HANG", "", nil, line
	}
	return
}

func safeExecModel0(v View, line string) (out, oracle string, tags []string, modelLine string) {
	me, ok := v.(ModelExecer)
	if !ok {
		o, w, t := safeExec0(v, line)
		return o, w, t, line
	}
	defer func() {
		if r := recover(); r != nil {
			out = fmt.Sprintf("PANIC %v", r)
			oracle = fmt.Sprintf("the real code panicked: %v", r)
			tags = []string{"panic"}
			modelLine = line
		}
	}()
	return me.ExecModel(line)
}

// safeExec runs v.Exec and turns a panic of the real code into an output.
// hangLine is set when the real code did not return on a line; after that nothing is executed any more
var hangLine string

func safeExec(v View, line string) (out, oracle string, tags []string) {
	if hangLine != "" {
		return "HANG", "", nil
	}
	if !withWatchdog(caseDeadline, func() { out, oracle, tags = safeExec0(v, line) }) {
		hangLine = line
		return "HANG", "", nil
	}
	return
}

func safeExec0(v View, line string) (out, oracle string, tags []string) {
	defer func() {
		if r := recover(); r != nil {
			out = fmt.Sprintf("PANIC %v", r)
			oracle = fmt.Sprintf("the real code panicked: %v", r)
			tags = []string{"panic"}
		}
	}()
	return v.Exec(line)
}

// shrink greedily minimises a line while `bad` keeps holding.
func shrink(v View, line string, bad func(string) bool) string {
	cur := line
	for round := 0; round < 200; round++ {
		improved := false
		for _, cand := range v.Shrink(cur) {
			if hangLine != "" {
				return cur
			}
			if len(cand) < len(cur) && bad(cand) {
				cur = cand
				improved = true
				break
			}
		}
		if !improved {
			break
		}
	}
	return cur
}

func runView(v View, seed uint64, n int, driver, corpusDir string) *Report {
	rep := &Report{View: v.Name(), Seed: seed, Tags: map[string]int{}, MinKinds: v.MinKinds()}
	lines := loadCorpus(corpusDir, v.Name())
	rep.CorpusCases = len(lines)
	root := NewRng(seed ^ 0x5eed0000)
	for i := 0; i < n; i++ {
		// some generators (sim) execute the real code while they build a case
		var l string
		if !withWatchdog(caseDeadline, func() { l = v.Gen(root.Fork(), i) }) {
			hangLine = fmt.Sprintf("%s (generated case %d of seed %d did not finish: the real code did not return, or allocated without end)", v.Name(), i, seed)
			if p, ok := v.(interface{ PartialLine() string }); ok {
				hangLine = p.PartialLine()
			}
			rep.Hang = hangLine
			rep.Cases = len(lines)
			return rep
		}
		lines = append(lines, l)
	}
	// VERIF_REPEAT=k (soak runs only): every line is executed k times - Go's map iteration order and scheduling
	// differ between executions, so a choice the harness reconstructs wrongly shows up as a disagreement
	if k, _ := strconv.Atoi(os.Getenv("VERIF_REPEAT")); k > 1 {
		var rl []string
		for _, l := range lines {
			for j := 0; j < k; j++ {
				rl = append(rl, l)
			}
		}
		lines = rl
	}
	rep.Cases = len(lines)
	goOuts := make([]string, len(lines))
	modelLines := make([]string, len(lines))
	seen := map[string]bool{}
	for i, l := range lines {
		out, oracle, tags, ml := safeExecModel(v, l)
		if hangLine != "" {
			// the real code spins or blocks: nothing after this case can be trusted (package-level state is in use
			// by the stuck goroutine), so the run ends here and says so
			rep.Hang = hangLine
			rep.Cases = i + 1
			return rep
		}
		goOuts[i] = out
		modelLines[i] = ml
		if !seen[l] {
			seen[l] = true
			rep.Distinct++
		}
		for _, t := range tags {
			rep.Tags[t]++
		}
		if oracle != "" && len(rep.OracleFails) < 20 {
			pid := oracle
			if k := strings.Index(pid, ":"); k > 0 {
				pid = pid[:k+1]
			}
			small := l
			if len(rep.OracleFails) < shrinkBudget {
				small = shrink(v, l, func(c string) bool { _, o, _ := safeExec(v, c); return strings.Contains(o, pid) })
			}
			o2, w2, t2 := safeExec(v, small)
			if hangLine != "" {
				rep.Hang = hangLine
				rep.Cases = i + 1
				return rep
			}
			rep.OracleFails = append(rep.OracleFails, OracleFail{Line: small, Go: o2, Why: w2, Tags: t2, OrigLine: l, OrigWhy: oracle})
		}
	}
	rep.Kinds = len(rep.Tags)
	rep.Degenerate = n >= 200 && rep.Kinds < rep.MinKinds
	modelOuts, err := runDriver(driver, modelLines)
	if err != nil {
		rep.DriverFailed = err.Error()
	}
	for i := range lines {
		if i >= len(modelOuts) {
			break
		}
		if modelOuts[i] != goOuts[i] && len(rep.Mismatches) < 20 {
			// Does it happen again? Some choices the real code makes (map iteration order) differ from execution to
			// execution and are reconstructed by the view; a disagreement counts when one of ten further executions of
			// the same line shows one too.
			again := false
			for try := 0; try < 10 && !again; try++ {
				g, _, _, ml := safeExecModel(v, lines[i])
				if hangLine != "" {
					rep.Hang = hangLine
					return rep
				}
				m, err := runDriver(driver, []string{ml})
				again = err != nil || len(m) != 1 || m[0] != g
			}
			if !again {
				if len(rep.Unreproduced) < 5 {
					rep.Unreproduced = append(rep.Unreproduced, Mismatch{Line: lines[i], OrigGo: goOuts[i], OrigModel: modelOuts[i], ModelLine: modelLines[i]})
				}
				continue
			}
			small := lines[i]
			if len(rep.Mismatches) < shrinkBudget {
				small = shrink(v, lines[i], func(c string) bool {
					g, _, _, ml := safeExecModel(v, c)
					m, err := runDriver(driver, []string{ml})
					return err == nil && len(m) == 1 && m[0] != g
				})
			}
			g, o, tg, ml := safeExecModel(v, small)
			_, _, tg0 := safeExec(v, lines[i])
			m, _ := runDriver(driver, []string{ml})
			if hangLine != "" {
				rep.Hang = hangLine
				return rep
			}
			mm := Mismatch{Line: small, Go: g, Oracle: o, Tags: append(tg, tg0...), OrigLine: lines[i], OrigGo: goOuts[i], OrigModel: modelOuts[i]}
			if len(m) == 1 {
				mm.Model = m[0]
			}
			rep.Mismatches = append(rep.Mismatches, mm)
		}
	}
	// samples: first corpus case, and a few generated ones
	for i := 0; i < len(lines) && len(rep.Samples) < 5; i += 1 + len(lines)/5 {
		s := lines[i] + " => " + goOuts[i]
		if len(s) > 600 {
			s = s[:600] + "..."
		}
		rep.Samples = append(rep.Samples, s)
	}
	return rep
}

// shrinkBudget: how many failures / disagreements of one run are minimised (the rest are reported as found)
const shrinkBudget = 5

// caseDeadline bounds one case on the real code (cases take milliseconds; the largest buffer cases < 1 s)
const caseDeadline = 60 * time.Second

func withWatchdog(d time.Duration, f func()) bool {
	done := make(chan struct{})
	go func() {
		defer close(done)
		f()
	}()
	deadline := time.After(d)
	tick := time.NewTicker(50 * time.Millisecond)
	defer tick.Stop()
	for {
		select {
		case <-done:
			return true
		case <-deadline:
			return false
		case <-tick.C:
			// a case that makes the real code allocate without end (an event loop spinning on a buffer it keeps
			// growing) is stopped like one that does not return, before it takes the machine's memory
			if rssBytes() > memCeiling {
				return false
			}
		}
	}
}

// memCeiling: resident memory beyond which a case counts as running away (the largest legitimate cases - multi-megabyte
// replies, 2^16-slot tables - stay far below 1 GB)
const memCeiling = 6 << 30

func rssBytes() uint64 {
	b, err := os.ReadFile("/proc/self/statm")
	if err != nil {
		return 0
	}
	f := strings.Fields(string(b))
	if len(f) < 2 {
		return 0
	}
	pages, _ := strconv.ParseUint(f[1], 10, 64)
	return pages * uint64(os.Getpagesize())
}

func writeReport(path string, rep *Report) {
	b, _ := json.MarshalIndent(rep, "", " ")
	if path == "" || path == "-" {
		realStdout.Write(b)
		realStdout.WriteString("\n")
		return
	}
	_ = os.WriteFile(path, b, 0o644)
}

// generic shrink helper for a hex field: drop byte ranges / halves
func shrinkHexField(h string) []string {
	b, err := unhx(h)
	if err != nil || len(b) == 0 {
		return nil
	}
	var res []string
	n := len(b)
	for _, cut := range []int{n / 2, n / 4, n / 8, 4, 2, 1} {
		if cut < 1 || cut > n {
			continue
		}
		for off := 0; off+cut <= n; off += cut {
			c := append(append([]byte{}, b[:off]...), b[off+cut:]...)
			res = append(res, hx(c))
			if len(res) > 400 {
				return res
			}
		}
	}
	return res
}
