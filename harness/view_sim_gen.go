package main

import (
	"fmt"
	"runtime/debug"
	"strconv"
	"strings"
)

var simErrLines = []string{
	"ERR something went wrong", "WRONGTYPE Operation against a key holding the wrong kind of value",
	"LOADING Redis is loading the dataset in memory", "CLUSTERDOWN The cluster is down", "TRYAGAIN Multiple keys request during rehashing of slot",
	"CROSSSLOT Keys in request don't hash to the same slot", "READONLY You can't write against a read only replica.", "ERR", "BUSY x",
	// (only errors redis gives to data commands: the authentication failures `-NOAUTH`, `-ERR invalid password`, ...
	// make the proxy shut down by design and are outside every property's domain)
	"ERR invalid expire time in 'set' command", "ERR invalid cursor", "ERR value is not an integer or out of range",
	"NOPERM this user has no permissions", "ERR invalid DB index", "EXECABORT Transaction discarded because of previous errors.",
}

func genTopo(r *Rng, allowHoles bool) *simTopo {
	t := &simTopo{}
	nm := 1 + r.Intn(4)
	port := 7000
	type rs struct {
		m  string
		sl []string
	}
	var sets []rs
	for i := 0; i < nm; i++ {
		port++
		m := fmt.Sprintf("10.0.0.%d:%d", i+1, port)
		var sl []string
		for k := 0; k < r.Intn(3); k++ {
			port++
			sl = append(sl, fmt.Sprintf("10.0.1.%d:%d", i+1, port))
		}
		sets = append(sets, rs{m, sl})
	}
	missing := allowHoles && r.Chance(1, 12) // a node of the slot table without a pool
	gap := allowHoles && !missing && r.Chance(1, 6)
	for i, s := range sets {
		if !(missing && i == 0 && r.Bool()) {
			t.pools = append(t.pools, struct {
				addr  string
				slave bool
			}{s.m, false})
		}
		for _, a := range s.sl {
			if missing && r.Chance(1, 3) {
				continue
			}
			t.pools = append(t.pools, struct {
				addr  string
				slave bool
			}{a, true})
		}
	}
	// contiguous ranges, optionally with an unowned gap
	lo := 0
	for i, s := range sets {
		hi := 16383
		if i < len(sets)-1 {
			hi = lo + (16384-lo)/(len(sets)-i) - 1
		}
		rlo, rhi := lo, hi
		if gap && i == len(sets)-1 {
			rhi = hi - 4000
		}
		t.ranges = append(t.ranges, struct {
			lo, hi int
			master string
			slaves []string
		}{rlo, rhi, s.m, s.sl})
		lo = hi + 1
	}
	return t
}

// topoHasHoles: an unowned slot range, or a node of the slot table without a pool
func topoHasHoles(t *simTopo) bool {
	next := 0
	for _, rg := range t.ranges {
		if rg.lo != next {
			return true
		}
		next = rg.hi + 1
		if !t.hasPool(rg.master) {
			return true
		}
		for _, a := range rg.slaves {
			if !t.hasPool(a) {
				return true
			}
		}
	}
	return next != 16384
}

type simGenState struct {
	run    *simRun
	rng    *Rng
	nreq   []int // requests generated per client (complete ones)
	events []string
	v      *simView
	focus  int // -1, or the kind of request (case of request()) this trace keeps coming back to
}

// the case being generated, up to and including the event that is being applied (for the report, should the real
// code not come back from it)
var simGenPartial string

func (v *simView) PartialLine() string { return simGenPartial }

func (g *simGenState) emit(ev string) {
	g.events = append(g.events, ev)
	simGenPartial = "sim " + g.run.cfg.String() + " | " + g.run.topo.String() + " | " + strings.Join(g.events, " ; ")
	g.run.apply(ev)
}

func (g *simGenState) key(ci int, withTag bool) []byte {
	r := g.rng
	k := fmt.Sprintf("c%dr%d.%d", ci, g.nreq[ci], r.Intn(1000))
	if withTag {
		k = fmt.Sprintf("{t%d}", r.Intn(3)) + k
	}
	if r.Chance(1, 5) {
		k += "0" // absent key: null value
	}
	return []byte(k)
}

func (g *simGenState) request(ci int) []byte {
	r := g.rng
	var args [][]byte
	sel := r.Intn(20)
	if g.focus >= 0 && r.Bool() {
		// a trace that keeps coming back to one kind of split request: state that a recycled request object carries
		// over (a DEL count, an MGET key index, an MSET status) only shows when the same kind follows itself
		sel = g.focus
	}
	switch sel {
	case 0:
		args = [][]byte{randCase(r, "ping")}
	case 1:
		args = [][]byte{[]byte("nosuchcmd"), g.key(ci, false)}
	case 2:
		args = [][]byte{randCase(r, "get")} // wrong arity
	case 3:
		pw := "pw"
		if r.Bool() {
			pw = "bad"
		}
		args = [][]byte{[]byte("auth"), []byte(pw)}
	case 4, 5, 6, 7:
		n := 1 + r.Intn(5)
		args = [][]byte{randCase(r, "mget")}
		tag := r.Chance(1, 3)
		for i := 0; i < n; i++ {
			args = append(args, g.key(ci, tag))
		}
		if n > 1 && r.Chance(1, 4) {
			args = append(args, args[1]) // duplicate key
		}
	case 8:
		n := 1 + r.Intn(4)
		args = [][]byte{[]byte("del")}
		for i := 0; i < n; i++ {
			args = append(args, g.key(ci, false))
		}
	case 9:
		n := 1 + r.Intn(3)
		args = [][]byte{[]byte("mset")}
		for i := 0; i < n; i++ {
			args = append(args, g.key(ci, false), []byte("v"+strconv.Itoa(i)))
		}
	case 10, 11, 12, 13:
		args = [][]byte{randCase(r, "get"), g.key(ci, r.Chance(1, 4))}
	case 14:
		args = [][]byte{[]byte("set"), g.key(ci, false), r.Bytes(r.Intn(20))}
	case 15:
		args = [][]byte{[]byte("eval"), []byte("return 1"), []byte("1"), g.key(ci, false)}
	case 16:
		if r.Chance(1, 6) {
			args = [][]byte{[]byte("quit")}
		} else {
			args = [][]byte{[]byte("hgetall"), g.key(ci, false)}
		}
	default:
		// any single-key command of the real table with a plausible arity
		name := g.v.names[r.Intn(len(g.v.names))]
		for name == "mget" || name == "del" || name == "mset" || name == "ping" || name == "quit" || name == "auth" || name == "eval" || name == "evalsha" {
			name = g.v.names[r.Intn(len(g.v.names))]
		}
		args = [][]byte{randCase(r, name), g.key(ci, false)}
		ar := refArity[name]
		n := ar - 1
		if ar == -1 {
			n = r.Intn(3)
		}
		for i := 0; i < n; i++ {
			args = append(args, []byte(strconv.Itoa(r.Intn(100))))
		}
	}
	g.nreq[ci]++
	return encodeCmd(args)
}

// requestGet: a plain GET of a fresh key of client ci
func (g *simGenState) requestGet(ci int) []byte {
	args := [][]byte{[]byte("get"), g.key(ci, false)}
	g.nreq[ci]++
	return encodeCmd(args)
}

func (v *simView) Gen(rng *Rng, i int) string {
	old := debug.SetGCPercent(-1)
	defer debug.SetGCPercent(old)
	cfg := simCfg{limit: 1 << 20, conns: 1}
	if rng.Chance(1, 6) {
		cfg.limit = 60 + rng.Intn(200)
	}
	// a wide MGET whose own size is within the limit while its reassembled reply is not (each per-slot reply is):
	// the limit applies to the merged reply as well
	var wide []byte
	if rng.Chance(1, 25) {
		n := 7 + rng.Intn(6)
		args := [][]byte{[]byte("mget")}
		seen := map[int]bool{}
		for len(args) < n+1 {
			x := 100 + rng.Intn(900)
			if x%10 == 0 || seen[x] { // (a key ending in 0 is an absent key)
				continue
			}
			seen[x] = true
			args = append(args, []byte(fmt.Sprintf("c0r0.%d", x)))
		}
		wide = encodeCmd(args)
		merged := len(fakeReply(args))
		cfg.limit = len(wide) + rng.Intn(merged-len(wide)+4) // mostly between the two sizes, sometimes just above
	}
	cfg.timeout = rng.Chance(1, 3)
	if rng.Chance(1, 4) {
		cfg.pw = "pw"
	}
	cfg.noslave = rng.Chance(1, 4)
	if rng.Chance(1, 6) {
		cfg.conns = 2
	}
	// with several connections per node a rejected multi-slot request rotates pools in a way the
	// harness cannot observe, so unroutable slots are only generated with one connection per node
	topo := genTopo(rng, cfg.conns == 1)
	run, err := newSimRun(cfg, topo)
	if err != nil {
		return "sim " + cfg.String() + " | " + topo.String() + " | "
	}
	defer run.env.Close()
	g := &simGenState{run: run, rng: rng, v: v, focus: -1}
	if rng.Chance(1, 5) {
		g.focus = []int{8, 8, 9, 4}[rng.Intn(4)]
	}
	nc := 1 + rng.Intn(3)
	for c := 0; c < nc; c++ {
		g.emit("C 10.9.9." + strconv.Itoa(c+1))
		g.nreq = append(g.nreq, 0)
	}
	addrs := []string{}
	for _, p := range topo.pools {
		addrs = append(addrs, p.addr)
	}
	steps := 5 + rng.Intn(40)
	pendingBackends := func() []int {
		run.refreshBackends()
		var res []int
		for j, b := range run.backends {
			if !b.closed && b.answered < len(b.cmds) && b.peer.vc.Opened() {
				res = append(res, j)
			}
		}
		return res
	}
	answer := func(j int, allowFaults bool) {
		kind := "ok"
		if allowFaults {
			switch x := rng.Intn(100); {
			case x < 8:
				kind = "err " + hx([]byte(simErrLines[rng.Intn(len(simErrLines))]))
			case x < 13 && len(addrs) > 0:
				kind = "moved " + hx([]byte(addrs[rng.Intn(len(addrs))]))
			case x < 17 && len(addrs) > 0:
				kind = "ask " + hx([]byte(addrs[rng.Intn(len(addrs))]))
			case x < 18:
				kind = "moved " + hx([]byte("10.9.9.9:1")) // a node the proxy does not know
			case x < 21:
				kind = "big " + strconv.Itoa(cfg.limit+1+rng.Intn(50))
			case x < 23:
				kind = "nullarr"
			case x < 27:
				kind = "notok"
			}
			if strings.HasPrefix(kind, "big") && cfg.limit > 4096 {
				kind = "ok"
			}
		}
		if allowFaults && !strings.HasPrefix(kind, "big") && rng.Chance(1, 5) {
			// only the first part of the reply arrives now; the rest with a later `f` / `s` / `m` on this
			// connection - or never, if the connection is lost first
			g.emit(fmt.Sprintf("h %d %d %s", j, rng.Intn(1<<20), kind))
			return
		}
		g.emit(fmt.Sprintf("s %d %s", j, kind))
	}
	halfBackends := func() []int {
		var res []int
		for j, b := range run.backends {
			if b.half != nil && !b.closed {
				res = append(res, j)
			}
		}
		return res
	}
	if wide != nil {
		g.emit(fmt.Sprintf("c 0 %s", hx(wide)))
		g.nreq[0]++
		for it := 0; it < 40 && run.crashed == ""; it++ {
			g.emit("T")
			pb := pendingBackends()
			if len(pb) == 0 {
				break
			}
			answer(pb[rng.Intn(len(pb))], false)
		}
	}
	if rng.Chance(1, 120) {
		// a long pipeline behind one slow request: more replies become deliverable at once than one writev takes
		ci := 0
		data := append([]byte{}, g.requestGet(ci)...)
		npings := 1030 + rng.Intn(300)
		for k := 0; k < npings; k++ {
			data = append(data, []byte("*1\r\n$4\r\nping\r\n")...)
		}
		g.nreq[ci] += npings
		g.emit(fmt.Sprintf("c %d %s", ci, hx(data)))
	}
	if rng.Chance(1, 40) && len(addrs) > 0 {
		// a redirect storm: one request is bounced by MOVED / ASK replies (mixed, or ASK only) more often than the
		// proxy follows redirects
		ci := 0
		g.emit(fmt.Sprintf("c %d %s", ci, hx(g.requestGet(ci))))
		askOnly := rng.Bool()
		for hop := 0; hop < 60 && run.crashed == ""; hop++ { // an ASK hop costs two answers (ASKING, then the command)
			g.emit("T")
			pb := pendingBackends()
			if len(pb) == 0 {
				break
			}
			kind := "ask"
			if !askOnly && rng.Bool() {
				kind = "moved"
			}
			g.emit(fmt.Sprintf("s %d %s %s", pb[0], kind, hx([]byte(addrs[rng.Intn(len(addrs))]))))
		}
	}
	for st := 0; st < steps && run.crashed == ""; st++ {
		x := rng.Intn(100)
		switch {
		case x < 35:
			ci := rng.Intn(nc)
			if run.clients[ci].closed || run.clients[ci].quit {
				continue
			}
			var data []byte
			for k := 0; k < 1+rng.Intn(3); k++ {
				data = append(data, g.request(ci)...)
			}
			if rng.Chance(1, 5) && len(data) > 2 {
				cut := 1 + rng.Intn(len(data)-1)
				g.emit(fmt.Sprintf("c %d %s", ci, hx(data[:cut])))
				if rng.Bool() {
					g.emit("T")
				}
				g.emit(fmt.Sprintf("c %d %s", ci, hx(data[cut:])))
			} else {
				g.emit(fmt.Sprintf("c %d %s", ci, hx(data)))
			}
		case x < 55:
			g.emit("T")
		case x < 84:
			if hb := halfBackends(); len(hb) > 0 && rng.Chance(2, 3) {
				if rng.Chance(1, 4) {
					g.emit(fmt.Sprintf("g %d %d", hb[rng.Intn(len(hb))], rng.Intn(1<<20)))
				} else {
					g.emit(fmt.Sprintf("f %d", hb[rng.Intn(len(hb))]))
				}
			} else if pb := pendingBackends(); len(pb) > 0 {
				answer(pb[rng.Intn(len(pb))], true)
			} else {
				g.emit("T")
			}
		case x < 88:
			if pb := pendingBackends(); len(pb) > 0 {
				g.emit(fmt.Sprintf("m %d %d", pb[rng.Intn(len(pb))], 2+rng.Intn(3)))
			} else {
				g.emit("T")
			}
		case x < 91:
			if len(run.backends) > 0 {
				g.emit(fmt.Sprintf("X %d", rng.Intn(len(run.backends))))
			}
		case x < 94:
			g.emit(fmt.Sprintf("x %d", rng.Intn(nc)))
		case x < 97:
			if cfg.timeout {
				if rng.Bool() {
					g.emit("E")
				} else {
					g.emit(fmt.Sprintf("E %d", 1+rng.Intn(3))) // only the earliest deadlines have passed
				}
			}
		case x < 98:
			// (only in topologies without other reasons to reject a request: with an unowned range AND a removed
			// node one request can fail in two ways and which one the map iteration hits first is not observable)
			if rng.Chance(1, 3) && len(topo.pools) > 0 && !topoHasHoles(topo) && cfg.conns == 1 { // (and one connection per node, as for every unroutable slot)
				g.emit(fmt.Sprintf("K %d", rng.Intn(len(topo.pools))))
			} else {
				g.emit("T")
			}
		default:
			g.emit("T")
		}
	}
	// drain: run tasks and answer everything normally until nothing is pending
	for it := 0; it < 80 && run.crashed == ""; it++ {
		g.emit("T")
		pb := pendingBackends()
		if len(pb) == 0 {
			break
		}
		for _, j := range pb {
			answer(j, false)
		}
	}
	return "sim " + cfg.String() + " | " + topo.String() + " | " + strings.Join(g.events, " ; ")
}
