package main

import (
	"bytes"
	"fmt"
	"runtime"
	"runtime/debug"
	"strconv"
	"strings"

	"rcproxy/core/pkg/buffer/elastic"
	"rcproxy/core/pkg/buffer/linkedlist"
	"rcproxy/core/pkg/buffer/ring"
	rbPool "rcproxy/core/pkg/pool/ringbuffer"
)

// buffer views (C19): operation sequences on the real ring / linked-list / elastic buffers vs the Lean models;
// oracle = an ideal FIFO byte queue kept alongside.
//
// Written bytes come from one per-case stream (byte k of the case is k % 251); bytes read or peeked are
// reported as a digest len:first:weighted-sum (same function in Driver.lean).

func streamBytes(start, n int) []byte {
	b := make([]byte, n)
	for i := range b {
		b[i] = byte((start + i) % 251)
	}
	return b
}

func digest(b []byte) string {
	first := 0
	if len(b) > 0 {
		first = int(b[0])
	}
	sum := 0
	for i, x := range b {
		sum = (sum + (i+1)*int(x)) % 65521
	}
	return fmt.Sprintf("%d:%d:%d", len(b), first, sum)
}

func b01(b bool) string {
	if b {
		return "1"
	}
	return "0"
}

func splitOps(s string) [][]string {
	var res [][]string
	for _, ev := range strings.Split(s, ";") {
		f := strings.Fields(ev)
		if len(f) > 0 {
			res = append(res, f)
		}
	}
	return res
}

// poison overwrites a slice the buffer was given: a buffer must have copied what it keeps (io.Writer contract;
// the proxy recycles reply memory right after queueing it)
func poison(bs ...[]byte) {
	for _, b := range bs {
		for i := range b {
			b[i] = 0xAA
		}
	}
}

// fifo is the specification: an ideal byte queue.
type fifo struct{ b []byte }

func (q *fifo) write(p []byte) { q.b = append(q.b, p...) }
func (q *fifo) take(n int) []byte {
	if n > len(q.b) {
		n = len(q.b)
	}
	out := append([]byte{}, q.b[:n]...)
	q.b = q.b[n:]
	return out
}

type bufCase struct {
	fails []string
	tags  map[string]bool
}

func (c *bufCase) fail(format string, a ...interface{}) {
	if len(c.fails) < 4 {
		c.fails = append(c.fails, "C19: "+fmt.Sprintf(format, a...))
	}
}

func (c *bufCase) tagList(extra ...string) []string {
	t := []string{"dom:C19"}
	for k := range c.tags {
		t = append(t, k)
	}
	return append(t, extra...)
}

func sizeTag(prefix string, n int) string {
	switch {
	case n <= 0:
		return prefix + ":0"
	case n < 64:
		return prefix + ":small"
	case n < 1024:
		return prefix + ":mid"
	case n < 4096:
		return prefix + ":1k"
	default:
		return prefix + ":4k+"
	}
}

// guard runs f and converts a panic into an output marker + oracle failure
func (c *bufCase) guard(op string, f func() string) (out string, ok bool) {
	defer func() {
		if r := recover(); r != nil {
			c.fail("%s panicked: %v", op, r)
			out, ok = "PANIC", false
		}
	}()
	return f(), true
}

// ---------- ring ----------

type ringView struct{}

func (ringView) Name() string  { return "ring" }
func (ringView) MinKinds() int { return 14 }

func genLen(r *Rng) int {
	switch r.Intn(10) {
	case 0:
		return 0
	case 1, 2, 3:
		return 1 + r.Intn(8)
	case 4, 5:
		return 1 + r.Intn(100)
	case 6, 7:
		return 200 + r.Intn(1200)
	case 8:
		return 1024 * (1 + r.Intn(4))
	default:
		return 3000 + r.Intn(6000)
	}
}

func genN(r *Rng, around int) int {
	switch r.Intn(8) {
	case 0:
		return -1
	case 1:
		return 0
	case 2:
		return around
	case 3:
		return around + 1 + r.Intn(5)
	case 4:
		if around > 1 {
			return 1 + r.Intn(around)
		}
		return 1
	default:
		return genLen(r)
	}
}

func (ringView) Gen(r *Rng, i int) string {
	sizes := []int{0, 1, 2, 3, 4, 8, 16, 64, 1000, 1024, 4096, 5000, 8192}
	size := sizes[r.Intn(len(sizes))]
	n := 3 + r.Intn(30)
	var ops []string
	buffered := 0
	small := r.Chance(1, 3) // keep everything tiny: wrap-around on small rings
	for j := 0; j < n; j++ {
		l := genLen(r)
		if small {
			l = r.Intn(7)
		}
		switch r.Intn(12) {
		case 0, 1, 2, 3:
			ops = append(ops, fmt.Sprintf("w %d", l))
			buffered += l
		case 4:
			ops = append(ops, "b")
			buffered++
		case 5, 6:
			ops = append(ops, fmt.Sprintf("p %d", genN(r, buffered)))
		case 7, 8:
			k := genN(r, buffered)
			if small && k > 0 {
				k = r.Intn(6)
			}
			ops = append(ops, fmt.Sprintf("d %d", k))
			if k > 0 {
				buffered -= k
				if buffered < 0 {
					buffered = 0
				}
			}
		case 9:
			k := genN(r, buffered)
			if k < 0 {
				k = 0
			}
			ops = append(ops, fmt.Sprintf("r %d", k))
			buffered -= k
			if buffered < 0 {
				buffered = 0
			}
		case 10:
			if r.Chance(1, 2) {
				ops = append(ops, "rb")
				if buffered > 0 {
					buffered--
				}
			} else {
				ops = append(ops, "bytes")
			}
		default:
			if r.Chance(1, 4) {
				ops = append(ops, "reset")
				buffered = 0
			} else {
				// fill exactly to a power of two, then one more byte: growth at the boundary
				ops = append(ops, fmt.Sprintf("w %d", l), "b")
				buffered += l + 1
			}
		}
	}
	return fmt.Sprintf("ring %d | %s", size, strings.Join(ops, " ; "))
}

func ringSummary(rb *ring.Buffer) string {
	return fmt.Sprintf("[%d %d %d %d %s %s]", rb.Buffered(), rb.Available(), rb.Cap(), rb.Len(), b01(rb.IsEmpty()), b01(rb.IsFull()))
}

func (ringView) Exec(line string) (string, string, []string) {
	parts := strings.Split(strings.TrimPrefix(line, "ring "), "|")
	if len(parts) != 2 {
		return "bad-op", "", nil
	}
	size, err := strconv.Atoi(strings.TrimSpace(parts[0]))
	if err != nil || size < 0 {
		return "bad-op", "", nil
	}
	c := &bufCase{tags: map[string]bool{}}
	rb := ring.New(size)
	q := &fifo{}
	k := 0
	var outs []string
	c.tags[sizeTag("cap", size)] = true
	for _, op := range splitOps(parts[1]) {
		capBefore := rb.Cap()
		o, ok := c.guard(strings.Join(op, " "), func() string {
			switch {
			case op[0] == "w" && len(op) == 2:
				l, _ := strconv.Atoi(op[1])
				p := streamBytes(k, l)
				k += l
				wrapped := false
				if rb.Cap() > 0 && l > 0 {
					// will the write wrap around the end of the array?
					h, t := rb.Peek(-1)
					_ = h
					wrapped = len(t) > 0
				}
				q.write(p)
				n, _ := rb.Write(p)
				poison(p)
				if n != l {
					c.fail("Write of %d bytes returned %d", l, n)
				}
				c.tags[sizeTag("w", l)] = true
				if wrapped {
					c.tags["write-while-wrapped"] = true
				}
				return ringSummary(rb)
			case op[0] == "b":
				ch := byte(k % 251)
				k++
				_ = rb.WriteByte(ch)
				q.write([]byte{ch})
				c.tags["writebyte"] = true
				return ringSummary(rb)
			case op[0] == "p" && len(op) == 2:
				n, _ := strconv.Atoi(op[1])
				h, t := rb.Peek(n)
				got := append(append([]byte{}, h...), t...)
				want := q.b
				if n > 0 && n < len(want) {
					want = want[:n]
				}
				if !bytes.Equal(got, want) {
					c.fail("Peek(%d) returned %d bytes %s, the queue holds %d and the first %d are %s", n, len(got), digest(got), len(q.b), len(want), digest(want))
				}
				if len(t) > 0 {
					c.tags["peek-wrapped"] = true
				}
				c.tags["peek"] = true
				return digest(h) + "/" + digest(t) + " " + ringSummary(rb)
			case op[0] == "d" && len(op) == 2:
				n, _ := strconv.Atoi(op[1])
				d, _ := rb.Discard(n)
				want := 0
				if n > 0 {
					want = len(q.take(n))
				}
				if d != want {
					c.fail("Discard(%d) reported %d, %d bytes were there to discard", n, d, want)
				}
				c.tags["discard"] = true
				if want > 0 && len(q.b) > 0 {
					c.tags["discard-partial"] = true
				}
				return strconv.Itoa(d) + " " + ringSummary(rb)
			case op[0] == "r" && len(op) == 2:
				n, _ := strconv.Atoi(op[1])
				p := make([]byte, n)
				m, err := rb.Read(p)
				want := q.take(n)
				if !bytes.Equal(p[:m], want) {
					c.fail("Read(%d) returned %d bytes %s, expected %d bytes %s", n, m, digest(p[:m]), len(want), digest(want))
				}
				c.tags["read"] = true
				return digest(p[:m]) + "/" + b01(err != nil) + " " + ringSummary(rb)
			case op[0] == "rb":
				b, err := rb.ReadByte()
				want := q.take(1)
				s := "-"
				if err == nil {
					s = strconv.Itoa(int(b))
					if len(want) != 1 || want[0] != b {
						c.fail("ReadByte returned %d, expected %v", b, want)
					}
				} else if len(want) != 0 {
					c.fail("ReadByte reported empty, expected %v", want)
				}
				c.tags["readbyte"] = true
				return s + " " + ringSummary(rb)
			case op[0] == "bytes":
				got := rb.Bytes()
				if !bytes.Equal(got, q.b) {
					c.fail("Bytes() returned %s, the queue holds %s", digest(got), digest(q.b))
				}
				return digest(got) + " " + ringSummary(rb)
			case op[0] == "reset":
				rb.Reset()
				q.b = nil
				c.tags["reset"] = true
				return ringSummary(rb)
			}
			return "bad-op"
		})
		outs = append(outs, o)
		if !ok {
			break
		}
		if rb.Buffered() != len(q.b) {
			c.fail("after `%s`: Buffered() = %d, the queue holds %d bytes", strings.Join(op, " "), rb.Buffered(), len(q.b))
		}
		if rb.Available() != rb.Cap()-len(q.b) {
			c.fail("after `%s`: Available() = %d with capacity %d and %d bytes buffered", strings.Join(op, " "), rb.Available(), rb.Cap(), len(q.b))
		}
		if rb.IsEmpty() != (len(q.b) == 0) {
			c.fail("after `%s`: IsEmpty() = %v with %d bytes buffered", strings.Join(op, " "), rb.IsEmpty(), len(q.b))
		}
		if rb.Cap() != capBefore {
			c.tags["grow"] = true
			if capBefore >= 4096 {
				c.tags["grow-above-threshold"] = true
			}
		}
		if rb.IsFull() {
			c.tags["full"] = true
		}
	}
	return strings.Join(outs, " | "), strings.Join(c.fails, " | "), c.tagList()
}

func (ringView) Shrink(line string) []string { return shrinkOps(line) }

// shrinkOps: drop one operation, or halve one numeric argument
func shrinkOps(line string) []string {
	i := strings.Index(line, "|")
	if i < 0 {
		return nil
	}
	head, tail := line[:i+1], line[i+1:]
	ops := splitOps(tail)
	join := func(ops [][]string) string {
		var s []string
		for _, o := range ops {
			s = append(s, strings.Join(o, " "))
		}
		return head + " " + strings.Join(s, " ; ")
	}
	var res []string
	for j := range ops {
		cp := append(append([][]string{}, ops[:j]...), ops[j+1:]...)
		res = append(res, join(cp))
	}
	for j, o := range ops {
		if len(o) == 2 {
			if n, err := strconv.Atoi(o[1]); err == nil && n > 1 {
				cp := append([][]string{}, ops...)
				cp[j] = []string{o[0], strconv.Itoa(n / 2)}
				res = append(res, join(cp))
				cp2 := append([][]string{}, ops...)
				cp2[j] = []string{o[0], strconv.Itoa(n - 1)}
				res = append(res, join(cp2))
			}
		}
	}
	return res
}

// ---------- linked list ----------

type llistView struct{}

func (llistView) Name() string  { return "llist" }
func (llistView) MinKinds() int { return 8 }

func (llistView) Gen(r *Rng, i int) string {
	n := 3 + r.Intn(25)
	var ops []string
	buffered := 0
	for j := 0; j < n; j++ {
		l := genLen(r)
		if r.Chance(2, 3) {
			l = r.Intn(12)
		}
		switch r.Intn(10) {
		case 0, 1, 2, 3:
			ops = append(ops, fmt.Sprintf("w %d", l))
			buffered += l
		case 4:
			ops = append(ops, fmt.Sprintf("f %d", l))
			buffered += l
		case 5:
			ops = append(ops, fmt.Sprintf("p %d", genN(r, buffered)))
		case 6:
			var lens []string
			for x := r.Intn(4); x > 0; x-- {
				lens = append(lens, strconv.Itoa(r.Intn(6)))
			}
			if len(lens) == 0 {
				lens = []string{"-"}
			}
			ops = append(ops, fmt.Sprintf("pw %d %s", genN(r, buffered), strings.Join(lens, ",")))
		case 7, 8:
			k := genN(r, buffered)
			if r.Chance(1, 2) && buffered > 0 {
				k = 1 + r.Intn(buffered)
			}
			ops = append(ops, fmt.Sprintf("d %d", k))
			if k > 0 {
				buffered -= k
				if buffered < 0 {
					buffered = 0
				}
			}
		default:
			if r.Chance(1, 6) {
				ops = append(ops, "reset")
				buffered = 0
			} else {
				k := genN(r, buffered)
				if k < 0 {
					k = 0
				}
				ops = append(ops, fmt.Sprintf("r %d", k))
				buffered -= k
				if buffered < 0 {
					buffered = 0
				}
			}
		}
	}
	return "llist | " + strings.Join(ops, " ; ")
}

func digests(bs [][]byte) string {
	var s []string
	for _, b := range bs {
		s = append(s, digest(b))
	}
	return strings.Join(s, ",")
}

func flat(bs [][]byte) []byte {
	var out []byte
	for _, b := range bs {
		out = append(out, b...)
	}
	return out
}

func parseLens(s string) []int {
	if s == "-" {
		return nil
	}
	var res []int
	for _, x := range strings.Split(s, ",") {
		n, _ := strconv.Atoi(x)
		res = append(res, n)
	}
	return res
}

// checkPeek: what a vectored peek returned must be a prefix of `have`, covering at least min(n, len(have)) bytes
// (everything for n <= 0)
func (c *bufCase) checkPeek(what string, n int, got, have []byte) {
	if len(got) > len(have) || !bytes.Equal(got, have[:len(got)]) {
		c.fail("%s(%d) returned %d bytes %s that are not a prefix of the %d queued bytes", what, n, len(got), digest(got), len(have))
		return
	}
	need := len(have)
	if n > 0 && n < need {
		need = n
	}
	if len(got) < need {
		c.fail("%s(%d) returned only %d of the %d bytes asked for and available", what, n, len(got), need)
	}
}

func (llistView) Exec(line string) (string, string, []string) {
	parts := strings.Split(strings.TrimPrefix(line, "llist "), "|")
	if len(parts) != 2 {
		return "bad-op", "", nil
	}
	c := &bufCase{tags: map[string]bool{}}
	var ll linkedlist.Buffer
	q := &fifo{}
	k := 0
	var outs []string
	sum := func() string { return fmt.Sprintf("[%d %d %s]", ll.Buffered(), ll.Len(), b01(ll.IsEmpty())) }
	for _, op := range splitOps(parts[1]) {
		o, ok := c.guard(strings.Join(op, " "), func() string {
			switch {
			case op[0] == "w" && len(op) == 2:
				l, _ := strconv.Atoi(op[1])
				p := streamBytes(k, l)
				k += l
				q.write(p)
				ll.PushBack(p)
				poison(p)
				c.tags[sizeTag("w", l)] = true
				return sum()
			case op[0] == "f" && len(op) == 2:
				l, _ := strconv.Atoi(op[1])
				p := streamBytes(k, l)
				k += l
				q.b = append(append([]byte{}, p...), q.b...)
				ll.PushFront(p)
				poison(p)
				c.tags["pushfront"] = true
				return sum()
			case op[0] == "p" && len(op) == 2:
				n, _ := strconv.Atoi(op[1])
				bs := ll.Peek(n)
				c.checkPeek("Peek", n, flat(bs), q.b)
				c.tags["peek"] = true
				return digests(bs) + " " + sum()
			case op[0] == "pw" && len(op) == 3:
				n, _ := strconv.Atoi(op[1])
				var extra [][]byte
				pos := 100000
				for _, l := range parseLens(op[2]) {
					extra = append(extra, streamBytes(pos, l))
					pos += l
				}
				bs := ll.PeekWithBytes(n, extra...)
				c.checkPeek("PeekWithBytes", n, flat(bs), append(flat(extra), q.b...))
				c.tags["peekwithbytes"] = true
				return digests(bs) + " " + sum()
			case op[0] == "d" && len(op) == 2:
				n, _ := strconv.Atoi(op[1])
				d, _ := ll.Discard(n)
				want := 0
				if n > 0 {
					want = len(q.take(n))
				}
				if d != want {
					c.fail("Discard(%d) reported %d, %d bytes were there to discard", n, d, want)
				}
				c.tags["discard"] = true
				if want > 0 && len(q.b) > 0 {
					c.tags["discard-partial"] = true
				}
				return strconv.Itoa(d) + " " + sum()
			case op[0] == "r" && len(op) == 2:
				n, _ := strconv.Atoi(op[1])
				p := make([]byte, n)
				m, _ := ll.Read(p)
				want := q.take(n)
				if !bytes.Equal(p[:m], want) {
					c.fail("Read(%d) returned %d bytes %s, expected %d bytes %s", n, m, digest(p[:m]), len(want), digest(want))
				}
				c.tags["read"] = true
				return digest(p[:m]) + " " + sum()
			case op[0] == "reset":
				ll.Reset()
				q.b = nil
				c.tags["reset"] = true
				return sum()
			}
			return "bad-op"
		})
		outs = append(outs, o)
		if !ok {
			break
		}
		if ll.Buffered() != len(q.b) {
			c.fail("after `%s`: Buffered() = %d, the queue holds %d bytes", strings.Join(op, " "), ll.Buffered(), len(q.b))
		}
		if ll.IsEmpty() != (len(q.b) == 0) {
			c.fail("after `%s`: IsEmpty() = %v with %d bytes queued", strings.Join(op, " "), ll.IsEmpty(), len(q.b))
		}
	}
	return strings.Join(outs, " | "), strings.Join(c.fails, " | "), c.tagList()
}

func (llistView) Shrink(line string) []string { return shrinkOps(line) }

// ---------- elastic (ring + list, pooled ring) ----------

type elasticView struct{}

func (elasticView) Name() string  { return "elastic" }
func (elasticView) MinKinds() int { return 14 }

func (elasticView) Gen(r *Rng, i int) string {
	maxes := []int{1, 8, 64, 1024, 2048, 4096, 65536}
	max := maxes[r.Intn(len(maxes))]
	n := 4 + r.Intn(30)
	var ops []string
	buffered, rbuf := 0, 0
	small := r.Chance(1, 3)
	length := func() int {
		if small {
			return r.Intn(12)
		}
		return genLen(r)
	}
	for j := 0; j < n; j++ {
		switch r.Intn(16) {
		case 0, 1, 2:
			l := length()
			ops = append(ops, fmt.Sprintf("w %d", l))
			buffered += l
		case 3, 4:
			var lens []string
			for x := 1 + r.Intn(4); x > 0; x-- {
				l := length()
				lens = append(lens, strconv.Itoa(l))
				buffered += l
			}
			ops = append(ops, "v "+strings.Join(lens, ","))
		case 5, 6:
			ops = append(ops, fmt.Sprintf("p %d", genN(r, buffered)))
		case 7, 8:
			k := genN(r, buffered)
			if r.Chance(1, 2) && buffered > 0 {
				k = 1 + r.Intn(buffered)
			}
			ops = append(ops, fmt.Sprintf("d %d", k))
			if k > 0 {
				buffered -= k
				if buffered < 0 {
					buffered = 0
				}
			}
		case 9:
			k := genN(r, buffered)
			if k < 0 {
				k = 0
			}
			ops = append(ops, fmt.Sprintf("r %d", k))
			buffered -= k
			if buffered < 0 {
				buffered = 0
			}
		case 10:
			if r.Chance(1, 2) {
				ops = append(ops, fmt.Sprintf("reset %d", []int{-1, 0, 8, 2048}[r.Intn(4)]))
			} else {
				ops = append(ops, "release")
			}
			buffered = 0
		case 11, 12:
			l := length()
			ops = append(ops, fmt.Sprintf("Rw %d", l))
			rbuf += l
		case 13:
			ops = append(ops, fmt.Sprintf("Rp %d", genN(r, rbuf)))
		case 14:
			k := genN(r, rbuf)
			if r.Chance(1, 2) {
				ops = append(ops, fmt.Sprintf("Rd %d", k))
			} else {
				if k < 0 {
					k = 0
				}
				ops = append(ops, fmt.Sprintf("Rr %d", k))
			}
			if k > 0 {
				rbuf -= k
				if rbuf < 0 {
					rbuf = 0
				}
			}
		default:
			if r.Chance(1, 2) {
				ops = append(ops, "Rdone")
			} else {
				ops = append(ops, "Rreset")
			}
			rbuf = 0
		}
	}
	return fmt.Sprintf("elastic %d | %s", max, strings.Join(ops, " ; "))
}

func (elasticView) Exec(line string) (string, string, []string) {
	parts := strings.Split(strings.TrimPrefix(line, "elastic "), "|")
	if len(parts) != 2 {
		return "bad-op", "", nil
	}
	max, err := strconv.Atoi(strings.TrimSpace(parts[0]))
	if err != nil || max <= 0 {
		return "bad-op", "", nil
	}
	// the pooled ring a RingBuffer acquires is part of the behaviour: start from an empty pool and stay on one P
	// so that sync.Pool hands rings back in a fixed order
	// (a garbage collection empties sync.Pool: none may run inside a case)
	prev := runtime.GOMAXPROCS(1)
	defer runtime.GOMAXPROCS(prev)
	oldGC := debug.SetGCPercent(-1)
	defer debug.SetGCPercent(oldGC)
	rbPool.VerifReset()
	c := &bufCase{tags: map[string]bool{}}
	a, _ := elastic.New(max)
	var rr elastic.RingBuffer
	qa, qr := &fifo{}, &fifo{}
	k := 0
	var outs []string
	c.tags[sizeTag("max", max)] = true
	sum := func() string {
		return fmt.Sprintf("[A %d %s R %d %d %d %d %s]", a.Buffered(), b01(a.IsEmpty()), rr.Buffered(), rr.Len(), rr.Cap(), rr.Available(), b01(rr.IsEmpty()))
	}
	fin := func(o string) string {
		if o == "" {
			return sum()
		}
		return o + " " + sum()
	}
	for _, op := range splitOps(parts[1]) {
		o, ok := c.guard(strings.Join(op, " "), func() string {
			switch {
			case op[0] == "w" && len(op) == 2:
				l, _ := strconv.Atoi(op[1])
				p := streamBytes(k, l)
				k += l
				before := a.Buffered()
				qa.write(p)
				n, _ := a.Write(p)
				poison(p)
				if n != l {
					c.fail("Write of %d bytes returned %d", l, n)
				}
				c.tags[sizeTag("w", l)] = true
				if before >= max {
					c.tags["write-beyond-static"] = true
				}
				return fin("")
			case op[0] == "v" && len(op) == 2:
				var bs [][]byte
				total := 0
				for _, l := range parseLens(op[1]) {
					bs = append(bs, streamBytes(k, l))
					k += l
					total += l
				}
				before := a.Buffered()
				qa.write(flat(bs))
				n, _ := a.Writev(bs)
				poison(bs...)
				if n != total {
					c.fail("Writev of %d bytes returned %d", total, n)
				}
				c.tags["writev"] = true
				if before < max && before+total > max {
					c.tags["writev-spill"] = true
				}
				return fin("")
			case op[0] == "p" && len(op) == 2:
				n, _ := strconv.Atoi(op[1])
				bs := a.Peek(n)
				c.checkPeek("Peek", n, flat(bs), qa.b)
				c.tags["peek"] = true
				if len(bs) > 2 {
					c.tags["peek-ring-and-list"] = true
				}
				return fin(digests(bs))
			case op[0] == "d" && len(op) == 2:
				n, _ := strconv.Atoi(op[1])
				d, _ := a.Discard(n)
				want := 0
				if n > 0 {
					want = len(qa.take(n))
				}
				if d != want {
					c.fail("Discard(%d) reported %d, %d bytes were there to discard", n, d, want)
				}
				c.tags["discard"] = true
				if want > 0 && len(qa.b) > 0 {
					c.tags["discard-partial"] = true
				}
				return fin(strconv.Itoa(d))
			case op[0] == "r" && len(op) == 2:
				n, _ := strconv.Atoi(op[1])
				p := make([]byte, n)
				m, _ := a.Read(p)
				want := qa.take(n)
				if !bytes.Equal(p[:m], want) {
					c.fail("Read(%d) returned %d bytes %s, expected %d bytes %s", n, m, digest(p[:m]), len(want), digest(want))
				}
				c.tags["read"] = true
				return fin(digest(p[:m]))
			case op[0] == "reset" && len(op) == 2:
				n, _ := strconv.Atoi(op[1])
				a.Reset(n)
				if n > 0 {
					max = n
				}
				qa.b = nil
				c.tags["reset"] = true
				return fin("")
			case op[0] == "release":
				a.Release()
				qa.b = nil
				c.tags["release"] = true
				return fin("")
			case op[0] == "Rw" && len(op) == 2:
				l, _ := strconv.Atoi(op[1])
				p := streamBytes(k, l)
				k += l
				fresh := rr.Cap() == 0 && l > 0
				qr.write(p)
				n, _ := rr.Write(p)
				poison(p)
				if n != l {
					c.fail("RingBuffer.Write of %d bytes returned %d", l, n)
				}
				if fresh {
					c.tags["ring-acquired"] = true
				}
				return fin("")
			case op[0] == "Rp" && len(op) == 2:
				n, _ := strconv.Atoi(op[1])
				h, t := rr.Peek(n)
				got := append(append([]byte{}, h...), t...)
				want := qr.b
				if n > 0 && n < len(want) {
					want = want[:n]
				}
				if !bytes.Equal(got, want) {
					c.fail("RingBuffer.Peek(%d) returned %s, expected %s", n, digest(got), digest(want))
				}
				return fin(digest(h) + "/" + digest(t))
			case op[0] == "Rd" && len(op) == 2:
				n, _ := strconv.Atoi(op[1])
				d, err := rr.Discard(n)
				want := 0
				if n > 0 {
					want = len(qr.take(n))
				}
				if d != want {
					c.fail("RingBuffer.Discard(%d) reported %d, %d bytes were there", n, d, want)
				}
				return fin(strconv.Itoa(d) + "/" + b01(err != nil))
			case op[0] == "Rr" && len(op) == 2:
				n, _ := strconv.Atoi(op[1])
				p := make([]byte, n)
				m, err := rr.Read(p)
				want := qr.take(n)
				if !bytes.Equal(p[:m], want) {
					c.fail("RingBuffer.Read(%d) returned %s, expected %s", n, digest(p[:m]), digest(want))
				}
				return fin(digest(p[:m]) + "/" + b01(err != nil))
			case op[0] == "Rreset":
				rr.Reset()
				qr.b = nil
				return fin("")
			case op[0] == "Rdone":
				rr.Done()
				qr.b = nil
				c.tags["ring-returned-to-pool"] = true
				return fin("")
			}
			return "bad-op"
		})
		outs = append(outs, o)
		if !ok {
			break
		}
		if a.Buffered() != len(qa.b) {
			c.fail("after `%s`: Buffer.Buffered() = %d, the queue holds %d bytes", strings.Join(op, " "), a.Buffered(), len(qa.b))
		}
		if a.IsEmpty() != (len(qa.b) == 0) {
			c.fail("after `%s`: Buffer.IsEmpty() = %v with %d bytes queued", strings.Join(op, " "), a.IsEmpty(), len(qa.b))
		}
		if rr.Buffered() != len(qr.b) {
			c.fail("after `%s`: RingBuffer.Buffered() = %d, the queue holds %d bytes", strings.Join(op, " "), rr.Buffered(), len(qr.b))
		}
	}
	return strings.Join(outs, " | "), strings.Join(c.fails, " | "), c.tagList()
}

func (elasticView) Shrink(line string) []string { return shrinkOps(line) }
