package main

import (
	"fmt"
	"sort"
	"strings"
	"sync"
	"sync/atomic"
	"time"

	"rcproxy/core"
	"rcproxy/core/pkg/logging"
	"rcproxy/core/pkg/redis"
)

// handover view: the real refresh goroutine (loopClusterNodes / updateClusterNodes) and the real
// eventloop.ticker, interleaved at the points where the view can hold either of them - the log lines
// they write, routed through the logging hook: the goroutine after `setServer`, the ticker right after
// the flag test (`start load`) or inside the add loop (`add new server`). While one side is held the
// other one runs. Compared with Handover.run (the micro-step model, in the program order regenerated
// from the source). Oracle (C14), independent of the model: whenever nothing is in progress and the
// change flag is down, the pools and the slot table are those of the latest valid CLUSTER NODES reply.
type handoverView struct{}

func (handoverView) Name() string  { return "handover" }
func (handoverView) MinKinds() int { return 6 }

type hoTopo struct {
	masters []cnode
	slaves  []cnode
	nextIP  int
}

func (t *hoTopo) text() string {
	var lines []string
	for _, m := range t.masters {
		lines = append(lines, m.line())
	}
	for _, s := range t.slaves {
		lines = append(lines, s.line())
	}
	return strings.Join(lines, "\n") + "\n"
}

func (t *hoTopo) newAddr(r *Rng) string {
	t.nextIP++
	last := []int{1, 2, 3, 4, 5, 6}[r.Intn(6)] // clusterInfoOf: ...7/8/9 are unhealthy
	return fmt.Sprintf("127.0.%d.%d:700%d@1700%d", t.nextIP, 1+r.Intn(200), last, last)
}

func (t *hoTopo) mutate(r *Rng) string {
	switch k := r.Intn(10); {
	case k < 4 || len(t.masters) < 3:
		// a new master takes the upper half of some master's first range
		i := r.Intn(len(t.masters))
		var lo, hi int
		fmt.Sscanf(t.masters[i].slots[0], "%d-%d", &lo, &hi)
		if hi-lo < 4 {
			return "same"
		}
		mid := lo + (hi-lo)/2
		t.masters[i].slots[0] = fmt.Sprintf("%d-%d", lo, mid)
		t.masters = append(t.masters, cnode{id: fmt.Sprintf("%040x", r.Next()), addr: t.newAddr(r), flags: "master", master: "-", link: "connected",
			slots: []string{fmt.Sprintf("%d-%d", mid+1, hi)}})
		return "add-master"
	case k < 6:
		if len(t.masters) <= 3 {
			return "same"
		}
		// a master leaves; its ranges go to another one
		i := r.Intn(len(t.masters))
		gone := t.masters[i]
		t.masters = append(t.masters[:i], t.masters[i+1:]...)
		j := r.Intn(len(t.masters))
		t.masters[j].slots = append(t.masters[j].slots, gone.slots...)
		var keep []cnode
		for _, s := range t.slaves {
			if s.master != gone.id {
				keep = append(keep, s)
			}
		}
		t.slaves = keep
		return "remove-master"
	case k < 8:
		m := t.masters[r.Intn(len(t.masters))]
		t.slaves = append(t.slaves, cnode{id: fmt.Sprintf("%040x", r.Next()), addr: t.newAddr(r), flags: "slave", master: m.id, link: "connected"})
		return "add-replica"
	case k < 9:
		if len(t.slaves) == 0 {
			return "same"
		}
		i := r.Intn(len(t.slaves))
		if r.Chance(1, 2) {
			t.slaves = append(t.slaves[:i], t.slaves[i+1:]...)
			return "remove-replica"
		}
		t.slaves[i].master = t.masters[r.Intn(len(t.masters))].id
		return "reparent-replica"
	}
	return "same"
}

func (handoverView) Gen(r *Rng, n int) string {
	t := &hoTopo{}
	nm := 3 + r.Intn(2)
	lo := 0
	for i := 0; i < nm; i++ {
		hi := 16383
		if i < nm-1 {
			hi = lo + (16384-lo)/(nm-i) - 1
		}
		t.masters = append(t.masters, cnode{id: fmt.Sprintf("%040x", r.Next()), addr: t.newAddr(r), flags: "master", master: "-", link: "connected",
			slots: []string{fmt.Sprintf("%d-%d", lo, hi)}})
		lo = hi + 1
	}
	var evs []string
	emitM := func(hold bool) {
		op := "M "
		if hold {
			op = "Mh "
		}
		evs = append(evs, op+hx(wrapBulk(t.text())))
	}
	emitM(false)
	evs = append(evs, "K")
	gHeld, tHeld := false, false
	steps := 4 + r.Intn(8)
	for i := 0; i < steps; i++ {
		switch k := r.Intn(12); {
		case k < 4:
			if gHeld {
				evs = append(evs, "Gc")
				gHeld = false
				continue
			}
			if r.Chance(1, 12) {
				evs = append(evs, "M "+hx([]byte([]string{"$-1\r\n", "-ERR x\r\n", "+OK\r\n", "$3\r\nabc\r\n"}[r.Intn(4)])))
				continue
			}
			t.mutate(r)
			hold := r.Chance(1, 4)
			emitM(hold)
			gHeld = hold
		case k < 6:
			if gHeld {
				evs = append(evs, "Gc")
				gHeld = false
			}
		case k < 10:
			if tHeld {
				evs = append(evs, "Kc")
				tHeld = false
				continue
			}
			switch r.Intn(4) {
			case 0:
				evs = append(evs, "Kh")
				tHeld = true
			case 1, 2:
				evs = append(evs, "Ka")
				tHeld = true
			default:
				evs = append(evs, "K")
			}
		default:
			if tHeld {
				evs = append(evs, "Kc")
				tHeld = false
			}
		}
	}
	if gHeld {
		evs = append(evs, "Gc")
	}
	if tHeld {
		evs = append(evs, "Kc")
	}
	evs = append(evs, "K")
	return "handover " + strings.Join(evs, " ; ")
}

// one process-wide sink: the hooks below are re-armed per case
var hoSink struct {
	once    sync.Once
	holdG   int32 // 1: hold the goroutine at "set server done"
	holdT   int32 // 1: hold the ticker at "start load", 2: at the first "add new server"
	heldG   chan struct{}
	heldT   chan struct{}
	relG    chan struct{}
	relT    chan struct{}
	enabled int32
}

func hoInstallSink() {
	hoSink.once.Do(func() {
		hoSink.heldG = make(chan struct{}, 1)
		hoSink.heldT = make(chan struct{}, 1)
		hoSink.relG = make(chan struct{})
		hoSink.relT = make(chan struct{})
		logging.VerifSetSink(func(line string) {
			if atomic.LoadInt32(&hoSink.enabled) == 0 {
				return
			}
			switch {
			case strings.Contains(line, "[cluster loop] set server done"):
				if atomic.CompareAndSwapInt32(&hoSink.holdG, 1, 0) {
					hoSink.heldG <- struct{}{}
					<-hoSink.relG
				}
			case strings.Contains(line, "[server changed] start load new server"):
				if atomic.CompareAndSwapInt32(&hoSink.holdT, 1, 0) {
					hoSink.heldT <- struct{}{}
					<-hoSink.relT
				}
			case strings.Contains(line, "[server changed] add new server"):
				if atomic.CompareAndSwapInt32(&hoSink.holdT, 2, 0) {
					hoSink.heldT <- struct{}{}
					<-hoSink.relT
				}
			}
		})
	})
}

func (v handoverView) Exec(line string) (out string, oracle string, tags []string) {
	o, w, t, _ := v.ExecModel(line)
	return o, w, t
}

// ExecModel also returns the line for the model: `Ka` carries whether the ticker reached the hold point (it
// does when it has a pool to create - which, after a pass that overlapped a publication, depends on how far the
// interrupted loop got; the model takes the observed answer and checks that a held ticker had a raised flag)
func (handoverView) ExecModel(line string) (out string, oracle string, tags []string, modelLine string) {
	hoInstallSink()
	env, err := NewSimEnv(SimConfig{Limit: 1 << 20})
	if err != nil {
		return "bad-op", "", nil, line
	}
	atomic.StoreInt32(&hoSink.holdG, 0)
	atomic.StoreInt32(&hoSink.holdT, 0)
	atomic.StoreInt32(&hoSink.enabled, 1)
	defer func() {
		atomic.StoreInt32(&hoSink.enabled, 0)
		for _, p := range core.EngineGlobal.ProxyPool {
			p.Close()
		}
		env.Close()
	}()
	core.VerifResetClusterPanic()
	marker := make(chan struct{}, 16)
	var endOfCase int32
	done := env.env.StartClusterLoop(func(addr string) (*redis.Info, error) {
		if addr == "9.9.9.9:9" {
			if atomic.LoadInt32(&endOfCase) != 0 {
				panic("verif: end of case")
			}
			marker <- struct{}{}
			return nil, fmt.Errorf("marker")
		}
		return clusterInfoOf(addr)
	})
	markerMsg := wrapBulk("m 9.9.9.9:9@19 master - 0 0 0 connected 0\n")
	var fails []string
	tags = []string{"dom:C14"}
	gHeld, tHeld := false, false
	var tDone chan struct{}
	dead := false
	// waitMarker: the goroutine has worked through everything fed so far
	waitMarker := func() bool {
		select {
		case <-marker:
			return true
		case <-done:
			dead = true
			return false
		case <-time.After(5 * time.Second):
			dead = true
			return false
		}
	}
	var lastClean []cleanMaster
	haveClean := false
	pendingClean := false // the text the goroutine is working on (held) becomes the latest valid one when it finishes
	var pendingMasters []cleanMaster
	noteText := func(msg []byte) (masters []cleanMaster, ok bool, usable bool) {
		usable = len(msg) > 3 && msg[0] == '$' && msg[1] != '-'
		if !usable {
			return nil, false, false
		}
		if lf := strings.Index(string(msg), "\n"); lf > 0 && len(msg) >= lf+3 {
			masters, ok = cleanTopo(string(msg[lf+1 : len(msg)-2]))
		}
		return
	}
	show := func() string {
		st := env.env.ClusterState()
		for tries := 0; tries < 50; tries++ {
			time.Sleep(200 * time.Microsecond)
			st2 := env.env.ClusterState()
			same := len(st2.Servers) == len(st.Servers)
			st = st2
			if same {
				break
			}
		}
		var servers []string
		for _, n := range st.Servers {
			servers = append(servers, showVNode(n))
		}
		sort.Strings(servers)
		var sets []string
		for _, rs := range st.Replicasets {
			var sl []string
			for _, s := range rs[1:] {
				sl = append(sl, hx([]byte(s.Addr)))
			}
			sets = append(sets, hx([]byte(rs[0].Addr))+":"+strings.Join(sl, "+"))
		}
		view := "-"
		settled := !gHeld && !tHeld && !st.Changed
		if settled {
			tags = append(tags, "settled")
			var pools []string
			for a, p := range core.EngineGlobal.ProxyPool {
				pools = append(pools, fmt.Sprintf("%s/%d", hx([]byte(a)), b2i(p.VerifIsSlave())))
			}
			sort.Strings(pools)
			var runs []string
			cur, cnt := "", 0
			for s := 0; s < 16384; s++ {
				m, sl, ok := env.env.SlotOwner(int32(s))
				o := "-"
				if ok {
					var hs []string
					for _, a := range sl {
						hs = append(hs, hx([]byte(a)))
					}
					o = hx([]byte(m)) + "~" + strings.Join(hs, "+")
				}
				if o == cur {
					cnt++
				} else {
					if cnt > 0 {
						runs = append(runs, fmt.Sprintf("%sx%d", cur, cnt))
					}
					cur, cnt = o, 1
				}
			}
			runs = append(runs, fmt.Sprintf("%sx%d", cur, cnt))
			view = fmt.Sprintf("pools=%s table=%s", strings.Join(pools, ","), strings.Join(runs, ","))
			// the oracle: nothing is in progress, nothing is pending - the loop must route by the latest valid description
			if haveClean && !dead {
				tags = append(tags, "settled-checked")
				fs := checkTable(env, lastClean)
				want := map[string]int{}
				for _, m := range lastClean {
					want[m.addr] = 0
					for _, s := range m.slaves {
						want[s] = 1
					}
				}
				for a, role := range want {
					p, ok := core.EngineGlobal.ProxyPool[a]
					if !ok {
						fs = append(fs, fmt.Sprintf("C14: node %s of the latest valid CLUSTER NODES reply has no connection pool although the change flag is down and nothing is in progress: the description was published while the event loop was loading the previous one and its flag was taken down unseen", a))
					} else if b2i(p.VerifIsSlave()) != role {
						fs = append(fs, fmt.Sprintf("C14: pool %s has replica role %v, the latest valid CLUSTER NODES reply says %d", a, p.VerifIsSlave(), role))
					}
				}
				for a := range core.EngineGlobal.ProxyPool {
					if _, ok := want[a]; !ok {
						fs = append(fs, fmt.Sprintf("C14: a pool is kept for %s, which the latest valid CLUSTER NODES reply does not list, although the change flag is down and nothing is in progress", a))
					}
				}
				if len(fs) > 3 {
					fs = fs[:3]
				}
				fails = append(fails, fs...)
			}
		}
		return fmt.Sprintf("g=%s t=%s changed=%d servers=%s sets=%s view=%s", map[bool]string{false: "idle", true: "held"}[gHeld],
			map[bool]string{false: "idle", true: "held"}[tHeld], b2i(st.Changed), strings.Join(servers, ","), strings.Join(sets, ","), view)
	}
	startTick := func(hold int32) {
		atomic.StoreInt32(&hoSink.holdT, hold)
		tDone = make(chan struct{})
		go func(d chan struct{}) {
			defer close(d)
			defer func() {
				if r := recover(); r != nil {
					fails = append(fails, fmt.Sprintf("C14: the ticker panicked while loading a new topology: %v", r))
				}
			}()
			env.env.Ticker()
		}(tDone)
		if hold == 0 {
			<-tDone
			return
		}
		select {
		case <-hoSink.heldT:
			tHeld = true
			tags = append(tags, fmt.Sprintf("ticker-held:%d", hold))
		case <-tDone:
			atomic.StoreInt32(&hoSink.holdT, 0) // nothing to load / nothing to add: the pass is over
			tags = append(tags, "ticker-hold-not-reached")
		}
	}
	var outs []string
	var mevs []string
	for _, ev := range strings.Split(strings.TrimPrefix(line, "handover "), ";") {
		f := strings.Fields(ev)
		if len(f) == 0 {
			continue
		}
		if dead {
			break
		}
		mevs = append(mevs, strings.TrimSpace(ev))
		switch f[0] {
		case "M", "Mh":
			if gHeld || len(f) < 2 {
				outs = append(outs, "bad-op")
				continue
			}
			msg, _ := unhx(f[1])
			masters, ok, usable := noteText(msg)
			if f[0] == "Mh" {
				atomic.StoreInt32(&hoSink.holdG, 1)
			}
			env.env.ClusterFeed(msg)
			env.env.ClusterFeed(markerMsg)
			if f[0] == "Mh" {
				select {
				case <-hoSink.heldG:
					gHeld = true
					tags = append(tags, "goroutine-held")
					pendingClean, pendingMasters = ok, masters
				case <-marker:
					atomic.StoreInt32(&hoSink.holdG, 0) // nothing changed: the goroutine never reached setServer
					tags = append(tags, "goroutine-hold-not-reached")
					if usable {
						lastClean, haveClean = masters, ok
					}
				case <-time.After(5 * time.Second):
					dead = true
				}
			} else {
				if waitMarker() && usable {
					lastClean, haveClean = masters, ok
				}
			}
			if usable {
				tags = append(tags, "probe:text")
			} else {
				tags = append(tags, "probe:unusable")
			}
		case "Gc":
			if gHeld {
				hoSink.relG <- struct{}{}
				gHeld = false
				waitMarker()
				lastClean, haveClean = pendingMasters, pendingClean
			}
		case "K":
			if tHeld {
				outs = append(outs, "bad-op")
				continue
			}
			startTick(0)
			tags = append(tags, "tick:whole")
		case "Kh", "Ka":
			if tHeld {
				outs = append(outs, "bad-op")
				continue
			}
			startTick(map[string]int32{"Kh": 1, "Ka": 2}[f[0]])
			if f[0] == "Ka" {
				mevs[len(mevs)-1] = fmt.Sprintf("Ka %d", b2i(tHeld))
			}
		case "Kc":
			if tHeld {
				hoSink.relT <- struct{}{}
				<-tDone
				tHeld = false
				tags = append(tags, "ticker-released")
			}
		default:
			outs = append(outs, "bad-op")
			continue
		}
		if core.VerifClusterPanic() != nil {
			fails = append(fails, fmt.Sprintf("C14: the refresh goroutine panicked: %v", core.VerifClusterPanic()))
			dead = true
		}
		if gHeld && tHeld {
			tags = append(tags, "both-held")
		}
		if gHeld || tHeld {
			tags = append(tags, "interleaved")
		}
		outs = append(outs, show())
	}
	// release whatever is still held, end the goroutine of this case
	if tHeld {
		hoSink.relT <- struct{}{}
		<-tDone
	}
	if gHeld {
		hoSink.relG <- struct{}{}
		waitMarker()
	}
	if dead {
		fails = append(fails, "C14: the refresh goroutine stopped or did not come back within 5 s")
	} else {
		atomic.StoreInt32(&endOfCase, 1)
		for attempt := 0; attempt < 4; attempt++ {
			env.env.ClusterFeed(markerMsg)
			select {
			case <-done:
				attempt = 4
			case <-time.After(2 * time.Second):
			}
		}
		core.VerifResetClusterPanic()
	}
	time.Sleep(time.Millisecond)
	return strings.Join(outs, " | "), strings.Join(fails, " | "), tags, "handover " + strings.Join(mevs, " ; ")
}

func (handoverView) Shrink(line string) []string {
	evs := strings.Split(strings.TrimPrefix(line, "handover "), ";")
	var res []string
	for i := len(evs) - 1; i >= 0; i-- {
		c := append(append([]string{}, evs[:i]...), evs[i+1:]...)
		res = append(res, "handover "+strings.Join(c, ";"))
	}
	return res
}
