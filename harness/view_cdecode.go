package main

import (
	"bufio"
	"bytes"
	"fmt"
	"os"
	"runtime"
	"sort"
	"strconv"
	"strings"

	"rcproxy/core"
	"rcproxy/core/codec"
	"rcproxy/core/pkg/hashkit"
)

// cdecode view: the real CRespCodec.Decode on arbitrary bytes vs the model's
// CDecode.decode. Oracles: C02 (single-key pass-through), C06 (exact split),
// C08 (prefix never an error; consumption exact), C12 (never crash / never
// forward what redis rejects), C17 (served iff supported, arity, size).
type cdecodeView struct {
	names     []string        // names of the real command table, sorted
	docsYes   map[string]bool // docs/command.md "Yes" rows (+ auth)
	keyPool   [][]byte
	otherCmds []string
}

func loadDocs() map[string]bool {
	yes := map[string]bool{"auth": true}
	fh, err := os.Open("/repo/docs/command.md")
	if err != nil {
		return yes
	}
	defer fh.Close()
	sc := bufio.NewScanner(fh)
	for sc.Scan() {
		line := strings.TrimSpace(sc.Text())
		if !strings.HasPrefix(line, "|") {
			continue
		}
		cols := strings.Split(strings.Trim(line, "|"), "|")
		if len(cols) < 2 {
			continue
		}
		name := strings.ToLower(strings.TrimSpace(cols[0]))
		if strings.TrimSpace(cols[1]) == "Yes" {
			yes[name] = true
		}
	}
	return yes
}

func newCDecodeView() *cdecodeView {
	v := &cdecodeView{docsYes: loadDocs()}
	for k := range codec.CommandStr2Type {
		v.names = append(v.names, k)
	}
	sort.Strings(v.names)
	// keys that force slot collisions, hash tags, odd shapes
	v.keyPool = [][]byte{
		[]byte("a"), []byte("b"), []byte("c"), []byte("{t}1"), []byte("{t}2"), []byte("x{t}"), []byte("{t}"),
		[]byte(""), []byte("{}k"), []byte("}{a}"), []byte("{a"), []byte("a}"), []byte("k\r\nk"), []byte("\x00\xff"),
		[]byte("foo"), []byte("bar"), []byte("{user1000}.following"), []byte("{user1000}.followers"), []byte("a"), []byte("b"),
	}
	v.otherCmds = []string{"keys", "scan", "flushall", "info", "select", "multi", "exec", "subscribe", "rename", "bitop", "msetnx",
		"cluster", "getdel", "xadd", "", "g", "GETX", "se t", "get\x00"}
	return v
}

func (*cdecodeView) Name() string  { return "cdecode" }
func (*cdecodeView) MinKinds() int { return 14 }

func randCase(r *Rng, s string) []byte {
	b := []byte(s)
	mode := r.Intn(4)
	for i := range b {
		if b[i] >= 'a' && b[i] <= 'z' {
			switch mode {
			case 0: // lower
			case 1:
				b[i] -= 32
			default:
				if r.Bool() {
					b[i] -= 32
				}
			}
		}
	}
	return b
}

func (v *cdecodeView) randArg(r *Rng) []byte {
	switch r.Intn(8) {
	case 0, 1, 2, 3:
		return v.keyPool[r.Intn(len(v.keyPool))]
	case 4:
		return r.Bytes(r.Intn(12))
	case 5:
		return []byte(strconv.Itoa(r.Intn(100000)))
	case 6:
		return bytes.Repeat([]byte{byte('a' + r.Intn(26))}, r.Intn(300))
	default:
		return append([]byte("k"), r.Bytes(r.Intn(4))...)
	}
}

// validRequest builds a mostly well-formed request from the real command table.
func (v *cdecodeView) validRequest(r *Rng) [][]byte {
	var name string
	switch r.Intn(10) {
	case 0, 1:
		name = []string{"mget", "del", "mset"}[r.Intn(3)]
	case 2:
		name = v.otherCmds[r.Intn(len(v.otherCmds))]
	default:
		name = v.names[r.Intn(len(v.names))]
	}
	args := [][]byte{randCase(r, name)}
	ar, known := refArity[name]
	var n int
	switch {
	case !known:
		n = r.Intn(4)
	case ar >= 0:
		n = ar
	case ar == -1:
		n = 1 + r.Intn(4)
		if name == "mget" || name == "del" {
			n = 1 + r.Intn(12)
			if r.Chance(1, 10) {
				n = 50 + r.Intn(250)
			}
		}
		if name == "eval" || name == "evalsha" {
			n = 3 + r.Intn(3)
		}
	default:
		n = 2 * (1 + r.Intn(6))
	}
	if r.Chance(1, 8) { // wrong arity
		switch r.Intn(3) {
		case 0:
			n++
		case 1:
			if n > 0 {
				n--
			}
		default:
			n = 0
		}
	}
	for i := 0; i < n; i++ {
		args = append(args, v.randArg(r))
	}
	return args
}

func mutate(r *Rng, b []byte) []byte {
	c := append([]byte{}, b...)
	if len(c) == 0 {
		return []byte("\r\n")
	}
	switch r.Intn(14) {
	case 0: // truncate
		return c[:r.Intn(len(c))]
	case 1: // flip a byte
		c[r.Intn(len(c))] = byte(r.Next())
	case 2: // leading zero on some length
		for tries := 0; tries < 20; tries++ {
			i := r.Intn(len(c))
			if c[i] == '*' || c[i] == '$' {
				return append(append(append([]byte{}, c[:i+1]...), '0'), c[i+1:]...)
			}
		}
	case 3: // negative / sign
		for tries := 0; tries < 20; tries++ {
			i := r.Intn(len(c))
			if c[i] == '*' || c[i] == '$' {
				return append(append(append([]byte{}, c[:i+1]...), "-+"[r.Intn(2)]), c[i+1:]...)
			}
		}
	case 4: // replace a length by something else
		for tries := 0; tries < 20; tries++ {
			i := r.Intn(len(c))
			if c[i] == '*' || c[i] == '$' {
				j := bytes.IndexByte(c[i:], '\r')
				if j > 0 {
					repl := []string{"0", "-1", "00", "18446744073709551619", "999999999", "1x", "", " 1", "9223372036854775807", "-0", "1000000000000000000"}[r.Intn(11)]
					return append(append(append([]byte{}, c[:i+1]...), repl...), c[i+j:]...)
				}
			}
		}
	case 5: // drop a CR
		if i := bytes.IndexByte(c, '\r'); i >= 0 {
			return append(append([]byte{}, c[:i]...), c[i+1:]...)
		}
	case 6: // drop an LF
		if i := bytes.LastIndexByte(c, '\n'); i >= 0 {
			return append(append([]byte{}, c[:i]...), c[i+1:]...)
		}
	case 7: // wrong marker
		for tries := 0; tries < 20; tries++ {
			i := r.Intn(len(c))
			if c[i] == '*' || c[i] == '$' {
				c[i] = "+-:$*#"[r.Intn(6)]
				return c
			}
		}
	case 8: // inline command
		return []byte("PING\r\n")
	case 9: // random bytes
		return r.Bytes(1 + r.Intn(20))
	case 10: // empty line in front
		return append([]byte("\r\n"), c...)
	case 11: // insert a byte
		i := r.Intn(len(c) + 1)
		return append(append(append([]byte{}, c[:i]...), byte(r.Next())), c[i:]...)
	case 12: // duplicate a chunk
		i := r.Intn(len(c))
		j := i + r.Intn(len(c)-i)
		return append(append(append([]byte{}, c[:j]...), c[i:j]...), c[j:]...)
	default: // bare fragments
		return [][]byte{[]byte("*\r\n"), []byte("*1\n"), []byte("$\r\n"), []byte("*0\r\n"), []byte("*-1\r\n"), []byte("\n"), []byte("*1\r\n$-1\r\n"), []byte("*1\r\n\r\n")}[r.Intn(8)]
	}
	return c
}

func (v *cdecodeView) Gen(r *Rng, i int) string {
	req := encodeCmd(v.validRequest(r))
	data := req
	limit := 1 << 20
	switch r.Intn(10) {
	case 0, 1, 2: // malformed stream
		data = mutate(r, req)
		if r.Chance(1, 3) {
			data = mutate(r, data)
		}
	case 3: // proper prefix of a valid request
		if len(req) > 0 {
			data = req[:r.Intn(len(req))]
		}
	case 4, 5: // followed by more data (pipeline / trailing bytes)
		tail := encodeCmd(v.validRequest(r))
		if r.Bool() {
			tail = tail[:r.Intn(len(tail)+1)]
		}
		data = append(append([]byte{}, req...), tail...)
	}
	switch r.Intn(6) {
	case 0:
		limit = len(req) - 1 + r.Intn(3) // around the request's own size
	case 1:
		limit = 16 + r.Intn(64)
	}
	if limit < 1 {
		limit = 1
	}
	return fmt.Sprintf("cdecode %d %s", limit, hx(data))
}

func showFragsGo(m map[int32][]byte) string {
	var slots []int
	for s := range m {
		slots = append(slots, int(s))
	}
	sort.Ints(slots)
	var parts []string
	for _, s := range slots {
		parts = append(parts, fmt.Sprintf("%d:%s", s, hx(m[int32(s)])))
	}
	return strings.Join(parts, ",")
}

func (v *cdecodeView) Exec(line string) (string, string, []string) {
	f := strings.Fields(line)
	if len(f) != 3 {
		return "bad-op", "", nil
	}
	limit, err1 := strconv.Atoi(f[1])
	data, err2 := unhx(f[2])
	if err1 != nil || err2 != nil {
		return "bad-op", "", nil
	}
	in := append([]byte{}, data...) // the decoder lower-cases in place
	var ms0, ms1 runtime.MemStats
	hugeCount := len(data) > 6 && data[0] == '*' && bytes.IndexByte(data, '\r') > 6
	if hugeCount {
		runtime.ReadMemStats(&ms0)
	}
	res := core.VerifDecode(limit, in)
	if hugeCount {
		runtime.ReadMemStats(&ms1)
	}
	var out string
	kind := ""
	switch {
	case res.NilMsg:
		out, kind = "nilmsg", "nilmsg"
	case res.Err == codec.ErrInvalidResp:
		out, kind = "invalid", "invalid"
	case res.Err != nil:
		out, kind = "incomplete", "incomplete"
	default:
		var keys []string
		for _, k := range res.Keys {
			keys = append(keys, hx([]byte(k)))
		}
		key := "-"
		if len(res.Keys) == 0 && len(res.FragKeys) == 1 {
			for _, k := range res.FragKeys {
				key = hx([]byte(k))
			}
		}
		out = fmt.Sprintf("ok type=%d consumed=%d key=%s keys=%s frags=%s", res.Type, res.Consumed, key, strings.Join(keys, ","), showFragsGo(res.Frags))
		kind = "ok"
	}

	// ---------- oracle ----------
	tags := []string{"dom:C12", "out:" + kind}
	var fails []string
	fail := func(format string, a ...interface{}) { fails = append(fails, fmt.Sprintf(format, a...)) }
	args, n, perr := strictParse(data)
	served := kind == "ok" && res.Type != codec.UNKNOWN && res.Type != codec.ReqTooLarge && res.Type != codec.ReqWrongArgumentsNumber && res.Type < codec.Sentinel
	if hugeCount {
		tags = append(tags, "huge-count")
		if grown := ms1.TotalAlloc - ms0.TotalAlloc; grown > 64<<20 {
			fail("C12: a %d-byte input made the decoder allocate %d MiB (size hint taken from the client supplied count)", len(data), grown>>20)
		}
	}
	if kind == "nilmsg" {
		fail("C12: decoder returned neither a request nor an error (the handler dereferences it)")
	}
	if kind == "ok" {
		if res.Consumed > len(data) || res.Consumed < 1 {
			fail("C12: consumed %d of %d bytes", res.Consumed, len(data))
		}
		if served {
			for s, fr := range res.Frags {
				a, m, e := strictParse(fr)
				if e != nil || m != len(fr) || len(a) == 0 {
					fail("C12: fragment for slot %d is not a command redis accepts: %q", s, fr)
				}
			}
		}
	}
	switch perr {
	case errProtocol:
		tags = append(tags, "in:protocol-error")
		if kind == "ok" {
			fail("C12: input that redis rejects as a protocol error was accepted: %q", data)
		}
		if kind == "incomplete" && len(data) < 200 && !hasLongDigitRun(data, 3) {
			// the decoder waits for more bytes. That is fine when it has not seen the end of the offending line yet -
			// but then more bytes must bring the verdict. With 4 KB of line ends behind it (more than any length this
			// short input can declare) the input must be rejected, not waited on: a connection that sent it would stall
			ext := append(append([]byte{}, data...), bytes.Repeat([]byte("\r\n"), 2048)...)
			if r2 := core.VerifDecode(limit, ext); !r2.NilMsg && r2.Err != nil && r2.Err != codec.ErrInvalidResp {
				fail("C12: the malformed input %q is neither answered with an error nor is the connection closed, whatever follows it: the proxy waits for more bytes forever", data)
			}
		}
	case errIncomplete:
		tags = append(tags, "in:incomplete", "dom:C08")
		if kind == "invalid" {
			fail("C08: an incomplete but so far well-formed request was treated as an error: %q", data)
		}
		if kind == "ok" {
			fail("C08: an incomplete request was accepted: %q", data)
		}
	case nil:
		tags = append(tags, "in:wellformed", "dom:C08", "dom:C17")
		name := string(lowerASCII(args[0]))
		argc := len(args) - 1
		supported := v.docsYes[name]
		arityOK := true
		if ar, ok := refArity[name]; ok {
			switch {
			case ar >= 0:
				arityOK = argc == ar
			case ar == -1:
				arityOK = argc >= 1
			default:
				arityOK = argc >= 2 && argc%2 == 0
			}
			if (name == "eval" || name == "evalsha") && argc < 3 {
				arityOK = false
			}
		}
		sizeOK := n <= limit
		if kind != "ok" {
			fail("C08: a complete well-formed request was not recognised (%s): %q", kind, data[:n])
		} else {
			if res.Consumed != n {
				fail("C08: consumed %d bytes of a %d-byte request", res.Consumed, n)
			}
			if len(data) > n {
				// the same request with nothing buffered behind it must be framed and classified the same way
				alone := core.VerifDecode(limit, append([]byte{}, data[:n]...))
				if alone.Err != nil || alone.NilMsg || alone.Type != res.Type || alone.Consumed != res.Consumed {
					fail("C08: a %d-byte request is classified type %d (consumed %d) with %d more bytes buffered behind it, but type %d (consumed %d, err %v) on its own", n, res.Type, res.Consumed, len(data)-n, alone.Type, alone.Consumed, alone.Err)
				}
				tags = append(tags, "pipelined")
			}
			want := supported && arityOK && sizeOK
			if served != want {
				fail("C17: request %q served=%v but supported=%v arity-ok=%v size-ok=%v (size %d, limit %d, type %d)", name, served, supported, arityOK, sizeOK, n, limit, res.Type)
			}
			if !served {
				tags = append(tags, "rejected")
				switch {
				case !supported:
					tags = append(tags, "rej:unsupported")
					if res.Type != codec.UNKNOWN && sizeOK {
						fail("C17: unsupported command %q got type %d", name, res.Type)
					}
				case !sizeOK:
					tags = append(tags, "rej:too-large")
				default:
					tags = append(tags, "rej:arity")
				}
			}
			if served {
				tags = append(tags, "served")
				switch res.Type {
				case codec.ReqMget, codec.ReqDel, codec.ReqMset:
					tags = append(tags, "dom:C06", "dom:C05", "split")
					fails = append(fails, checkSplit(name, args[1:], res.Frags)...)
				case codec.ReqPing, codec.ReqQuit:
					tags = append(tags, "local")
				default:
					tags = append(tags, "dom:C02", "dom:C05", "single")
					wantReq := encodeCmd(append([][]byte{lowerASCII(args[0])}, args[1:]...))
					keyIdx := 1
					if res.Type == codec.ReqEval || res.Type == codec.ReqEvalsha {
						keyIdx = 3
					}
					wantSlot := int32(specSlot(args[keyIdx]))
					if len(res.Frags) != 1 {
						fail("C02: %d fragments for a single-key request", len(res.Frags))
					} else {
						for s, fr := range res.Frags {
							if !bytes.Equal(fr, wantReq) {
								fail("C02: forwarded bytes differ from the request: got %q want %q", fr, wantReq)
							}
							if s != wantSlot && s != hashkit.Hash(string(args[keyIdx])) {
								fail("C02: fragment filed under slot %d, key slot is %d", s, wantSlot)
							}
							if s != wantSlot {
								fail("C05: slot %d for key %q, key slot is %d", s, args[keyIdx], wantSlot)
							}
						}
					}
				}
			}
		}
	}
	if len(data) > 200 {
		tags = append(tags, "big")
	}
	return out, strings.Join(fails, " | "), tags
}

// checkSplit: C06 on the real fragments of a served MGET/DEL/MSET.
func checkSplit(name string, items [][]byte, frags map[int32][]byte) []string {
	var fails []string
	step := 1
	if name == "mset" {
		step = 2
	}
	// expected per-slot item lists, in original order
	want := map[int32][][]byte{}
	for i := 0; i+step <= len(items); i += step {
		s := int32(specSlot(items[i]))
		want[s] = append(want[s], items[i:i+step]...)
	}
	if len(frags) != len(want) {
		fails = append(fails, fmt.Sprintf("C06: %d fragments for %d distinct slots", len(frags), len(want)))
	}
	for s, fr := range frags {
		a, m, e := strictParse(fr)
		if e != nil || m != len(fr) || len(a) == 0 {
			fails = append(fails, fmt.Sprintf("C06: fragment for slot %d is not well-formed: %q", s, fr))
			continue
		}
		if string(a[0]) != name {
			fails = append(fails, fmt.Sprintf("C06: fragment for slot %d is a %q, request was %q", s, a[0], name))
		}
		w := want[s]
		if len(w) != len(a)-1 {
			fails = append(fails, fmt.Sprintf("C06: fragment for slot %d carries %d items, expected %d", s, len(a)-1, len(w)))
			continue
		}
		for i := range w {
			if !bytes.Equal(w[i], a[i+1]) {
				fails = append(fails, fmt.Sprintf("C06: fragment for slot %d item %d is %q, expected %q", s, i, a[i+1], w[i]))
				break
			}
		}
	}
	return fails
}

// hasLongDigitRun: more than n consecutive decimal digits somewhere (a declared length that large is out of reach of the
// stall probe)
func hasLongDigitRun(b []byte, n int) bool {
	run := 0
	for _, c := range b {
		if c >= '0' && c <= '9' {
			run++
			if run > n {
				return true
			}
		} else {
			run = 0
		}
	}
	return false
}

func (v *cdecodeView) Shrink(line string) []string {
	f := strings.Fields(line)
	if len(f) != 3 {
		return nil
	}
	var res []string
	for _, h := range shrinkHexField(f[2]) {
		res = append(res, "cdecode "+f[1]+" "+h)
	}
	return res
}
