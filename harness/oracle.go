package main

// Independent executable specifications used to decide, on the REAL code's
// output, whether a property holds for one concrete case. Nothing here calls
// into rcproxy.

import (
	"bytes"
	"errors"
	"strconv"
)

// ---- Redis Cluster key slot (bitwise CRC16/XMODEM + hash-tag rule) ----

func specCRC16(b []byte) uint16 {
	var c uint16
	for _, x := range b {
		c ^= uint16(x) << 8
		for i := 0; i < 8; i++ {
			if c&0x8000 != 0 {
				c = c<<1 ^ 0x1021
			} else {
				c <<= 1
			}
		}
	}
	return c
}

func specHashTag(key []byte) []byte {
	s := bytes.IndexByte(key, '{')
	if s < 0 {
		return key
	}
	e := bytes.IndexByte(key[s+1:], '}')
	if e < 1 {
		return key
	}
	return key[s+1 : s+1+e]
}

func specSlot(key []byte) int { return int(specCRC16(specHashTag(key))) % 16384 }

// ---- the request grammar a Redis server accepts (strict) ----

var errIncomplete = errors.New("incomplete")
var errProtocol = errors.New("protocol error")

// strictInt parses what redis' string2ll accepts for a length: canonical
// decimal, no sign, no leading zero.
func strictInt(b []byte) (int, bool) {
	if len(b) == 0 || len(b) > 18 {
		return 0, false
	}
	if b[0] == '0' && len(b) > 1 {
		return 0, false
	}
	n := 0
	for _, c := range b {
		if c < '0' || c > '9' {
			return 0, false
		}
		n = n*10 + int(c-'0')
	}
	return n, true
}

func strictLine(b []byte) (line []byte, rest []byte, err error) {
	i := bytes.IndexByte(b, '\n')
	if i < 0 {
		return nil, nil, errIncomplete
	}
	if i < 1 || b[i-1] != '\r' {
		return nil, nil, errProtocol
	}
	return b[:i-1], b[i+1:], nil
}

// strictParse parses exactly one multibulk command from the front of b.
func strictParse(b []byte) (args [][]byte, consumed int, err error) {
	if len(b) == 0 {
		return nil, 0, errIncomplete
	}
	if b[0] != '*' {
		return nil, 0, errProtocol
	}
	line, rest, err := strictLine(b)
	if err != nil {
		return nil, 0, err
	}
	n, ok := strictInt(line[1:])
	if !ok || n < 1 || n > 1024*1024 {
		return nil, 0, errProtocol
	}
	for i := 0; i < n; i++ {
		if len(rest) == 0 {
			return nil, 0, errIncomplete
		}
		if rest[0] != '$' {
			return nil, 0, errProtocol
		}
		var l []byte
		l, rest, err = strictLine(rest)
		if err != nil {
			return nil, 0, err
		}
		k, ok := strictInt(l[1:])
		if !ok || k > 512*1024*1024 {
			return nil, 0, errProtocol
		}
		if len(rest) < k+2 {
			return nil, 0, errIncomplete
		}
		if rest[k] != '\r' || rest[k+1] != '\n' {
			return nil, 0, errProtocol
		}
		args = append(args, rest[:k])
		rest = rest[k+2:]
	}
	return args, len(b) - len(rest), nil
}

func encodeCmd(args [][]byte) []byte {
	var b []byte
	b = append(b, '*')
	b = append(b, strconv.Itoa(len(args))...)
	b = append(b, '\r', '\n')
	for _, a := range args {
		b = append(b, '$')
		b = append(b, strconv.Itoa(len(a))...)
		b = append(b, '\r', '\n')
		b = append(b, a...)
		b = append(b, '\r', '\n')
	}
	return b
}

func lowerASCII(b []byte) []byte {
	c := append([]byte{}, b...)
	for i := range c {
		if c[i] >= 'A' && c[i] <= 'Z' {
			c[i] ^= 0x20
		}
	}
	return c
}
