package main

// simenv: the REAL eventloop / conn / Pool / listenServer driven single-threaded
// and deterministically in-process. Client and backend connections are
// socketpairs; the harness holds the peer ends.

import (
	"fmt"
	"net"
	"sort"

	"golang.org/x/sys/unix"

	"rcproxy/core"
	"rcproxy/core/server"
)

type simPeer struct {
	fd     int // harness end
	vc     *core.VerifConn
	recv   []byte // everything the proxy has written to this connection
	eof    bool
	addr   string // backend address (backends only)
	closed bool   // harness closed its end
}

type SimEnv struct {
	env      *core.VerifEnv
	handler  core.EventHandler
	clients  []*simPeer
	backends []*simPeer // in dial order
	dialFail map[string]bool
	sndbuf   int
}

type SimConfig struct {
	Limit        int
	TimeoutMs    int
	Passwd       string
	DisableSlave bool
	Conns        int
	SndBuf       int // SO_SNDBUF for the proxy side of client sockets (0 = default)
	RetryMs      int // server_retry_timeout (0 = 1000)
}

func NewSimEnv(cfg SimConfig) (*SimEnv, error) { return NewSimEnvW(cfg, 0) }

// NewSimEnvW: as NewSimEnv with an explicit outbound-buffer static cap (WriteBufferCap; 0 = the proxy's default)
func NewSimEnvW(cfg SimConfig, writeBufferCap int) (*SimEnv, error) {
	server.VerifResetAuthCmd()
	server.VerifResetScratch() // package-level scratch slices as in a fresh process
	retry := cfg.RetryMs
	if retry < 1 {
		retry = 1000
	}
	h := server.NewListenServer(server.WithRedisPassword(cfg.Passwd), server.WithDisableRedisSlave(cfg.DisableSlave), server.WithServerRetryTimeout(retry))
	h.OnBoot(core.Engine{})
	env, err := core.VerifNewEnv(core.VerifOptions{MsgMaxLength: cfg.Limit, RequestTimeoutMs: cfg.TimeoutMs, ServerConnections: cfg.Conns, Passwd: cfg.Passwd, WriteBufferCap: writeBufferCap}, h)
	if err != nil {
		return nil, err
	}
	return &SimEnv{env: env, handler: h, dialFail: map[string]bool{}, sndbuf: cfg.SndBuf}, nil
}

func (s *SimEnv) Close() {
	s.env.Shutdown()
	for _, p := range append(append([]*simPeer{}, s.clients...), s.backends...) {
		if !p.closed {
			unix.Close(p.fd)
			p.closed = true
		}
	}
}

func socketpair() (proxyFd, peerFd int, err error) {
	fds, err := unix.Socketpair(unix.AF_UNIX, unix.SOCK_STREAM|unix.SOCK_NONBLOCK|unix.SOCK_CLOEXEC, 0)
	if err != nil {
		return 0, 0, err
	}
	return fds[0], fds[1], nil
}

func tcpAddr(hostport string) *net.TCPAddr {
	host, port, err := net.SplitHostPort(hostport)
	if err != nil {
		return &net.TCPAddr{IP: net.ParseIP("127.0.0.1"), Port: 1}
	}
	p := 0
	fmt.Sscanf(port, "%d", &p)
	return &net.TCPAddr{IP: net.ParseIP(host), Port: p}
}

// dial is installed as Pool.Dial.
func (s *SimEnv) dial(addr string, isSlave bool) (core.SConn, error) {
	if s.dialFail[addr] {
		return nil, fmt.Errorf("dial %s: refused (simulated)", addr)
	}
	pfd, hfd, err := socketpair()
	if err != nil {
		return nil, err
	}
	vc, err := s.env.AddServer(pfd, tcpAddr("127.0.0.1:7"), tcpAddr(addr), isSlave)
	peer := &simPeer{fd: hfd, vc: vc, addr: addr}
	s.backends = append(s.backends, peer)
	if err != nil {
		return nil, err
	}
	return vc.SConn(), nil
}

func (s *SimEnv) AddPool(addr string, isSlave bool) { s.env.NewPool(addr, isSlave, s.dial) }

func (s *SimEnv) AddClient(ip string) (*simPeer, error) {
	pfd, hfd, err := socketpair()
	if err != nil {
		return nil, err
	}
	if s.sndbuf > 0 {
		_ = unix.SetsockoptInt(pfd, unix.SOL_SOCKET, unix.SO_SNDBUF, s.sndbuf)
	}
	vc, err := s.env.AddClient(pfd, &net.TCPAddr{IP: net.ParseIP(ip), Port: 40000 + len(s.clients)})
	p := &simPeer{fd: hfd, vc: vc}
	s.clients = append(s.clients, p)
	return p, err
}

// drain reads everything currently readable on the harness end of p.
func (p *simPeer) drain() {
	if p.closed {
		return
	}
	buf := make([]byte, 1<<16)
	for {
		n, err := unix.Read(p.fd, buf)
		if n > 0 {
			p.recv = append(p.recv, buf[:n]...)
			continue
		}
		if n == 0 && err == nil {
			p.eof = true
		}
		if err != nil && err != unix.EAGAIN && err != unix.EINTR {
			p.eof = true
		}
		return
	}
}

// send writes b to the proxy through p; returns false when the socket does not take it all.
func (p *simPeer) send(b []byte) bool {
	for len(b) > 0 {
		n, err := unix.Write(p.fd, b)
		if err != nil || n <= 0 {
			return false
		}
		b = b[n:]
	}
	return true
}

// Feed delivers b to the proxy as ONE readable event per 64 KiB (the proxy's read buffer size).
func (s *SimEnv) Feed(p *simPeer, b []byte) error {
	if !p.send(b) {
		return fmt.Errorf("socket full")
	}
	for n := 0; n < len(b); n += 1 << 16 {
		if err := s.env.Readable(p.vc); err != nil {
			return err
		}
	}
	return nil
}

// PeerClose closes the harness end and delivers the resulting EOF.
func (s *SimEnv) PeerClose(p *simPeer) error {
	if !p.closed {
		p.drain()
		unix.Close(p.fd)
		p.closed = true
	}
	return s.env.Readable(p.vc)
}

// drainAll reads everything the proxy has written and plays the part of epoll for backlogged connections: while a
// connection has bytes in its outbound buffer (the kernel did not take them all), the peer is drained and the proxy
// gets a writable event, until the backlog is gone. The model's byte streams are "everything produced so far";
// C19_conn_stream is what says that wire ++ backlog is exactly that.
func (s *SimEnv) drainAll() {
	for round := 0; round < 4096; round++ {
		for _, p := range s.clients {
			p.drain()
		}
		for _, p := range s.backends {
			p.drain()
		}
		backlog := false
		for _, p := range append(append([]*simPeer{}, s.clients...), s.backends...) {
			if p.vc != nil && !p.closed && p.vc.Opened() && p.vc.OutboundBuffered() > 0 {
				backlog = true
				_ = s.env.Writable(p.vc)
			}
		}
		if !backlog {
			return
		}
	}
}

func (s *SimEnv) backendsOf(addr string) []*simPeer {
	var res []*simPeer
	for _, b := range s.backends {
		if b.addr == addr {
			res = append(res, b)
		}
	}
	return res
}

func sortedKeys(m map[string]bool) []string {
	var ks []string
	for k := range m {
		ks = append(ks, k)
	}
	sort.Strings(ks)
	return ks
}
