package main

import (
	"fmt"
	"strconv"
	"strings"

	"rcproxy/core/pkg/hashkit"
)

// hash view: hashkit.Hash vs the model's goSlot; oracle = bitwise CRC16 + tag rule (C05).
type hashView struct{}

func (hashView) Name() string  { return "hash" }
func (hashView) MinKinds() int { return 5 }

// every arrangement of '{', '}', 'x' up to length 7 is enumerated first, then random keys
func braceKey(i int) []byte {
	// enumerate strings over a 3-letter alphabet in length-lexicographic order
	alpha := []byte{'{', '}', 'x'}
	n, count := 0, 1
	for i >= count {
		i -= count
		n++
		count *= 3
	}
	b := make([]byte, n)
	for j := n - 1; j >= 0; j-- {
		b[j] = alpha[i%3]
		i /= 3
	}
	return b
}

const braceKeys = 3280 // 3^0 + ... + 3^7

func (hashView) Gen(r *Rng, i int) string {
	var key []byte
	switch {
	case i < braceKeys:
		key = braceKey(i)
	case r.Chance(1, 3):
		// tagged key with random binary content around and inside the tag
		key = append(key, r.Bytes(r.Intn(6))...)
		key = append(key, '{')
		key = append(key, r.Bytes(r.Intn(8))...)
		key = append(key, '}')
		key = append(key, r.Bytes(r.Intn(6))...)
	case r.Chance(1, 2):
		n := r.Intn(40)
		key = make([]byte, n)
		for j := range key {
			key[j] = "{}ab\x00\xff\r\n"[r.Intn(8)]
		}
	default:
		key = r.Bytes(r.Intn(300))
	}
	return "hash " + hx(key)
}

func (hashView) Exec(line string) (string, string, []string) {
	f := strings.Fields(line)
	if len(f) != 2 {
		return "bad-op", "", nil
	}
	key, err := unhx(f[1])
	if err != nil {
		return "bad-op", "", nil
	}
	got := int(hashkit.Hash(string(key)))
	want := specSlot(key)
	tags := []string{"dom:C05"}
	tag := specHashTag(key)
	switch {
	case len(key) == 0:
		tags = append(tags, "empty")
	case len(tag) != len(key):
		tags = append(tags, "tagged")
	case strings.ContainsAny(string(key), "{}"):
		tags = append(tags, "braces-no-tag")
	default:
		tags = append(tags, "plain")
	}
	if len(key) > 64 {
		tags = append(tags, "long")
	}
	oracle := ""
	if got != want {
		oracle = fmt.Sprintf("C05: Hash(%q) = %d, Redis Cluster key slot is %d", key, got, want)
	}
	return strconv.Itoa(got), oracle, tags
}

func (hashView) Shrink(line string) []string {
	f := strings.Fields(line)
	if len(f) != 2 {
		return nil
	}
	var res []string
	for _, h := range shrinkHexField(f[1]) {
		res = append(res, "hash "+h)
	}
	return res
}
