package main

import (
	"bufio"
	"fmt"
	"net"
	"strings"
	"sync/atomic"
	"time"
)

// poolmon view (C20): the REAL health monitor goroutine of a pool (`engine.newPool` -> `Pool.monitor` -> `detect`)
// against a fake node on a loopback TCP port that answers PING from its k-th connection on (k = 1: healthy; k = 2:
// the first probe fails, the second succeeds; never: dead). The pool starts banned; after one monitor cycle the
// auto-ban flag must be what `Route.monitorCycle` says. A case takes 5-12 s of wall clock (the monitor's ticker),
// so there are only a few.
type poolmonView struct{}

func (poolmonView) Name() string  { return "poolmon" }
func (poolmonView) MinKinds() int { return 1 }

func (poolmonView) Gen(r *Rng, i int) string {
	switch i % 4 {
	case 0:
		// healthy, and the pool changes its role first (SetIsSlave, as the first topology load does for a replica
		// listed as a seed): a role change releases the connections, it must not stop the monitor
		return "poolmon 1 flip"
	case 1:
		return "poolmon 2" // first probe refused, second answered
	case 2:
		return "poolmon 0" // dead
	default:
		return "poolmon 1" // healthy
	}
}

// fakeNode accepts connections; connection number n (1-based) is served iff okFrom > 0 && n >= okFrom
type fakeNode struct {
	ln     net.Listener
	conns  int32
	pongs  int32
	okFrom int32
}

func startFakeNode(okFrom int) (*fakeNode, error) {
	ln, err := net.Listen("tcp", "127.0.0.1:0")
	if err != nil {
		return nil, err
	}
	f := &fakeNode{ln: ln, okFrom: int32(okFrom)}
	go func() {
		for {
			c, err := ln.Accept()
			if err != nil {
				return
			}
			n := atomic.AddInt32(&f.conns, 1)
			if f.okFrom == 0 || n < f.okFrom {
				c.Close() // the probe's PING gets no answer
				continue
			}
			go func(c net.Conn) {
				defer c.Close()
				rd := bufio.NewReader(c)
				for {
					line, err := rd.ReadString('\n')
					if err != nil {
						return
					}
					if strings.HasPrefix(line, "*") || strings.HasPrefix(line, "$") {
						continue
					}
					if strings.EqualFold(strings.TrimSpace(line), "ping") {
						atomic.AddInt32(&f.pongs, 1)
						c.Write([]byte("+PONG\r\n"))
					} else {
						c.Write([]byte("+OK\r\n"))
					}
				}
			}(c)
		}
	}()
	return f, nil
}

func (v poolmonView) ExecModel(line string) (out string, oracle string, tags []string, modelLine string) {
	f := strings.Fields(line)
	flip := len(f) == 3 && f[2] == "flip"
	if len(f) != 2 && !flip {
		return "bad-op", "", nil, line
	}
	okFrom := 0
	fmt.Sscanf(f[1], "%d", &okFrom)
	node, err := startFakeNode(okFrom)
	if err != nil {
		return "bad-op " + err.Error(), "", nil, line
	}
	defer node.ln.Close()
	env, err := NewSimEnv(SimConfig{Limit: 1 << 20})
	if err != nil {
		return "bad-op", "", nil, line
	}
	defer env.Close()
	pool := env.env.NewMonitoredPool(node.ln.Addr().String(), !flip)
	defer pool.Close()
	if flip {
		pool.SetIsSlave(true)
	}
	pool.AutoBanFlag = true
	pool.LiftBanTime = time.Now().Add(-time.Hour)
	// one monitor cycle: tick after 5 s, first probe; on failure a 5 s pause and a second probe
	want := map[int]bool{0: true, 1: false, 2: false}[okFrom]
	deadline := time.Now().Add(14 * time.Second)
	probesNeeded := map[int]int32{0: 2, 1: 1, 2: 2}[okFrom]
	for time.Now().Before(deadline) {
		if atomic.LoadInt32(&node.conns) >= probesNeeded && (want || !pool.AutoBanFlag) {
			break
		}
		time.Sleep(50 * time.Millisecond)
	}
	time.Sleep(300 * time.Millisecond) // let the cycle that probed finish its bookkeeping
	got := pool.AutoBanFlag
	out = map[bool]string{true: "banned", false: "clear"}[got]
	p1, p2 := 0, 0
	switch okFrom {
	case 1:
		p1 = 1
	case 2:
		p2 = 1
	}
	tags = []string{"dom:C20", fmt.Sprintf("node-answers-from-probe:%d", okFrom)}
	if flip {
		tags = append(tags, "role-change-before-probe")
	}
	if got != want {
		oracle = fmt.Sprintf("C20: after a monitor cycle in which the node answered %d PING(s) (probes seen: %d) the pool's auto-ban flag is %v, expected %v: a healthy replica is not readmitted / a dead one not banned", atomic.LoadInt32(&node.pongs), atomic.LoadInt32(&node.conns), got, want)
	}
	return out, oracle, tags, fmt.Sprintf("monitor %d %d", p1, p2)
}

func (v poolmonView) Exec(line string) (string, string, []string) {
	o, w, t, _ := v.ExecModel(line)
	return o, w, t
}

func (poolmonView) Shrink(line string) []string { return nil }
