package main

import (
	"fmt"
	"math/rand"
	"sort"
	"strconv"
	"strings"
	"time"

	"rcproxy/core"
	"rcproxy/core/codec"
	"rcproxy/core/server"
)

// route view: the real listenServer.route vs Route.route; oracle for C04 (owner set, role) and
// C20 (the candidate list is the whole list of healthy replicas).
type routeView struct{ names []string }

func newRouteView() *routeView {
	v := &routeView{}
	for k := range codec.CommandStr2Type {
		v.names = append(v.names, k)
	}
	sort.Strings(v.names)
	return v
}

func (*routeView) Name() string  { return "route" }
func (*routeView) MinKinds() int { return 6 }

func (v *routeView) Gen(r *Rng, i int) string {
	topo := genTopo(r, false)
	// drop some replica pools: a replica without a pool is not a candidate
	if r.Chance(1, 3) {
		var kept []struct {
			addr  string
			slave bool
		}
		for _, p := range topo.pools {
			if p.slave && r.Chance(1, 3) {
				continue
			}
			kept = append(kept, p)
		}
		topo.pools = kept
	}
	name := v.names[r.Intn(len(v.names))]
	typ := codec.CommandStr2Type[name]
	noslave := 0
	if r.Chance(1, 5) {
		noslave = 1
	}
	// auto-ban state of some replica pools: p = banned and the lift time has passed (skipped until the monitor
	// clears the flag), f = banned with the lift time still ahead (picked up again, flag cleared)
	var bans []string
	if r.Chance(1, 3) {
		for _, p := range topo.pools {
			if p.slave && r.Chance(1, 2) {
				bans = append(bans, hx([]byte(p.addr))+":"+[]string{"p", "f"}[r.Intn(2)])
			}
		}
	}
	ban := "-"
	if len(bans) > 0 {
		ban = strings.Join(bans, ",")
	}
	return fmt.Sprintf("route noslave=%d ban=%s | %s | %d %d %d", noslave, ban, topo.String(), typ, r.Intn(16384), r.Intn(1<<30))
}

func (v *routeView) Exec(line string) (string, string, []string) {
	o, w, t, _ := v.ExecModel(line)
	return o, w, t
}

func (v *routeView) ExecModel(line string) (out string, oracle string, tags []string, modelLine string) {
	parts := strings.Split(strings.TrimPrefix(line, "route "), "|")
	if len(parts) != 3 {
		return "bad-op", "", nil, line
	}
	noslave := strings.Contains(parts[0], "noslave=1")
	skipped, readmit := map[string]bool{}, map[string]bool{}
	for _, tok := range strings.Fields(parts[0]) {
		if strings.HasPrefix(tok, "ban=") && tok != "ban=-" {
			for _, it := range strings.Split(strings.TrimPrefix(tok, "ban="), ",") {
				kv := strings.Split(it, ":")
				if len(kv) != 2 {
					return "bad-op", "", nil, line
				}
				a, err := unhx(kv[0])
				if err != nil {
					return "bad-op", "", nil, line
				}
				if kv[1] == "p" {
					skipped[string(a)] = true
				} else {
					readmit[string(a)] = true
				}
			}
		}
	}
	topo, err := parseTopo(parts[1])
	q := strings.Fields(parts[2])
	if err != nil || len(q) != 3 {
		return "bad-op", "", nil, line
	}
	typ, _ := strconv.Atoi(q[0])
	slot, _ := strconv.Atoi(q[1])
	seed, _ := strconv.Atoi(q[2])
	m, sl, owned := topo.owner(slot)
	if !owned {
		return "unowned", "", []string{"unowned"}, fmt.Sprintf("route noslave=%d | %s | %d %d 0", b2i(noslave), topo.String(), typ, slot)
	}
	env, err := NewSimEnv(SimConfig{Limit: 1 << 20, DisableSlave: noslave})
	if err != nil {
		return "bad-op", "", nil, line
	}
	defer env.Close()
	for _, p := range topo.pools {
		env.AddPool(p.addr, p.slave)
	}
	for _, rg := range topo.ranges {
		env.env.SetReplicaset(rg.master, rg.slaves, [][2]int32{{int32(rg.lo), int32(rg.hi)}})
	}
	for a := range skipped {
		if p, ok := core.EngineGlobal.ProxyPool[a]; ok {
			p.AutoBanFlag = true
			p.LiftBanTime = time.Now().Add(-time.Hour)
		}
	}
	for a := range readmit {
		if p, ok := core.EngineGlobal.ProxyPool[a]; ok {
			p.AutoBanFlag = true
			p.LiftBanTime = time.Now().Add(time.Hour)
		}
	}
	rand.Seed(int64(seed))
	addr, isSlave, cands := server.VerifRoute(env.handler, codec.Command(typ), int32(slot))
	draw := 0
	if len(cands) > 0 {
		rand.Seed(int64(seed))
		draw = rand.Intn(len(cands))
	}
	var hc []string
	for _, c := range cands {
		hc = append(hc, hx([]byte(c)))
	}
	out = fmt.Sprintf("addr=%s slave=%d cands=%s", hx([]byte(addr)), b2i(isSlave), strings.Join(hc, ","))
	// the model's "has a pool" is "is a candidate": a skipped (banned, lift time passed) replica is handed to the
	// model as a replica without a pool
	mtopo := *topo
	mtopo.pools = nil
	for _, p := range topo.pools {
		if p.slave && skipped[p.addr] {
			continue
		}
		mtopo.pools = append(mtopo.pools, p)
	}
	modelLine = fmt.Sprintf("route noslave=%d | %s | %d %d %d", b2i(noslave), mtopo.String(), typ, slot, draw)
	// ---- oracle ----
	tags = []string{"dom:C04", "dom:C20"}
	name := codec.CommandType2Str[codec.Command(typ)]
	var fails []string
	inSet := addr == m || containsStr(sl, addr)
	if !inSet {
		fails = append(fails, fmt.Sprintf("C04: %s on slot %d routed to %s, outside the owning replica set %s %v", name, slot, addr, m, sl))
	}
	mustMaster := noslave || !refReadOnly[name] || refScan[name]
	if mustMaster && addr != m {
		fails = append(fails, fmt.Sprintf("C04: %s (write/scan/script or replica reads disabled) routed to %s instead of the master %s", name, addr, m))
	}
	if addr != m && !topo.hasPool(addr) {
		fails = append(fails, fmt.Sprintf("C04: routed to replica %s which has no pool", addr))
	}
	var healthy []string
	for _, a := range sl {
		if topo.hasPool(a) && !skipped[a] {
			healthy = append(healthy, a)
		}
	}
	if len(skipped) > 0 {
		tags = append(tags, "replica-banned")
	}
	if len(readmit) > 0 {
		tags = append(tags, "replica-readmitted")
	}
	isRead := !noslave && refReadOnly[name] && !refScan[name] && codec.Command(typ) < codec.ReqWriteCmdStart
	if isRead {
		tags = append(tags, "read")
		if len(healthy) >= 2 {
			tags = append(tags, "multi-replica")
		}
		if strings.Join(cands, ",") != strings.Join(healthy, ",") {
			fails = append(fails, fmt.Sprintf("C20: read %s on slot %d: the pick was made among %v, the healthy replicas are %v", name, slot, cands, healthy))
		} else if len(healthy) > 0 && addr != healthy[draw] {
			fails = append(fails, fmt.Sprintf("C20: draw %d among %v returned %s", draw, healthy, addr))
		}
		if len(healthy) == 0 {
			tags = append(tags, "no-replica")
		}
	} else {
		tags = append(tags, "master-only")
	}
	if isSlave {
		tags = append(tags, "to-replica")
	}
	_ = core.None
	return out, strings.Join(fails, " | "), tags, modelLine
}

func b2i(b bool) int {
	if b {
		return 1
	}
	return 0
}

func (v *routeView) Shrink(line string) []string { return nil }
