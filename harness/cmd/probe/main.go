package main

import (
	"fmt"

	"rcproxy/core"
	"rcproxy/core/pkg/hashkit"
)

func main() {
	fmt.Println("hash }{a} =", hashkit.Hash("}{a}"), "hash a =", hashkit.Hash("a"))
	for _, in := range []string{"*0\r\n", "*-1\r\n", "*02\r\n$3\r\nget\r\n$1\r\na\r\n", "*2\r\n$03\r\nget\r\n$1\r\na\r\n", "*2\r\n$3\r\nget\r\n$-1\r\n",
		"*2\r\n$3\r\nget\r\n$18446744073709551619\r\nabc\r\n", "\r\n", "*\r\n", "*1\n", "*2\r\n$3\r\nget\r\n$\r\n", "*2\r\n$3\r\nget\r\n\r\n"} {
		func() {
			defer func() {
				if r := recover(); r != nil {
					fmt.Printf("%q => PANIC %v\n", in, r)
				}
			}()
			r := core.VerifDecode(1000, []byte(in))
			fmt.Printf("%q => err=%v nil=%v type=%d consumed=%d frags=%q\n", in, r.Err, r.NilMsg, r.Type, r.Consumed, r.Frags)
		}()
	}
	// C17: pipeline of five 22-byte GETs with limit 64
	p := ""
	for i := 0; i < 5; i++ {
		p += fmt.Sprintf("*2\r\n$3\r\nget\r\n$1\r\n%d\r\n", i)
	}
	b := []byte(p)
	for len(b) > 0 {
		r := core.VerifDecode(64, b)
		fmt.Printf("limit64 buffered=%d => type=%d consumed=%d\n", len(b), r.Type, r.Consumed)
		if r.Consumed == 0 {
			break
		}
		b = b[r.Consumed:]
	}
}
