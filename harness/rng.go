package main

// Rng: splitmix64. Every random choice of a run derives from one state so that
// a case replays exactly from (seed, index).
type Rng struct{ s uint64 }

func NewRng(seed uint64) *Rng { return &Rng{s: seed} }

func (r *Rng) Next() uint64 {
	r.s += 0x9e3779b97f4a7c15
	z := r.s
	z = (z ^ (z >> 30)) * 0xbf58476d1ce4e5b9
	z = (z ^ (z >> 27)) * 0x94d049bb133111eb
	return z ^ (z >> 31)
}

func (r *Rng) Intn(n int) int {
	if n <= 0 {
		return 0
	}
	return int(r.Next() % uint64(n))
}

func (r *Rng) Bool() bool { return r.Next()&1 == 1 }

// Chance returns true with probability num/den.
func (r *Rng) Chance(num, den int) bool { return r.Intn(den) < num }

func (r *Rng) Pick(xs []string) string { return xs[r.Intn(len(xs))] }

// Fork derives an independent generator (used per case).
func (r *Rng) Fork() *Rng { return NewRng(r.Next()) }

func (r *Rng) Bytes(n int) []byte {
	b := make([]byte, n)
	for i := range b {
		b[i] = byte(r.Next())
	}
	return b
}
