package main

import (
	"flag"
	"fmt"
	"os"
)

func views() map[string]View {
	return map[string]View{
		"hash":      hashView{},
		"cdecode":   newCDecodeView(),
		"sim":       newSimView(),
		"route":     newRouteView(),
		"sdecode":   sdecodeView{},
		"cluster":   clusterView{},
		"authip":    authipView{},
		"ring":      ringView{},
		"llist":     llistView{},
		"elastic":   elasticView{},
		"connio":    connioView{},
		"authwatch": authwatchView{},
		"poolmon":   poolmonView{},
		"handover":  handoverView{},
		"pool":      poolView{},
		"connin":    conninView{},
	}
}

// the proxy logs with fmt.Print* to os.Stdout when no logger is configured;
// send that to /dev/null and keep the real stdout for our own output
var realStdout = os.Stdout

func init() {
	if devnull, err := os.OpenFile(os.DevNull, os.O_WRONLY, 0); err == nil {
		os.Stdout = devnull
	}
}

func main() {
	if len(os.Args) < 2 {
		fmt.Fprintln(os.Stderr, "usage: rcharness run|exec ...")
		os.Exit(2)
	}
	switch os.Args[1] {
	case "run":
		fs := flag.NewFlagSet("run", flag.ExitOnError)
		view := fs.String("view", "", "view name")
		seed := fs.Uint64("seed", 1, "seed")
		n := fs.Int("n", 1000, "generated cases")
		driver := fs.String("driver", "/verif/lean/.lake/build/bin/rcdriver", "model driver")
		corpus := fs.String("corpus", "/verif/corpus", "corpus dir")
		out := fs.String("out", "-", "report file")
		_ = fs.Parse(os.Args[2:])
		v, ok := views()[*view]
		if !ok {
			fmt.Fprintln(os.Stderr, "unknown view", *view)
			os.Exit(2)
		}
		rep := runView(v, *seed, *n, *driver, *corpus)
		cleanupWatcher()
		writeReport(*out, rep)
	case "execmodel":
		// execmodel <view> <line>: real code output and the concrete line handed to the model
		v, ok := views()[os.Args[2]]
		if !ok {
			os.Exit(2)
		}
		out, oracle, _, ml := safeExecModel(v, os.Args[3])
		fmt.Fprintln(realStdout, out)
		fmt.Fprintln(realStdout, ml)
		fmt.Fprintln(realStdout, oracle)
	case "probe":
		probe()
	case "exec":
		// exec <view> <line...>: run the real code on one line (replay)
		if len(os.Args) < 4 {
			os.Exit(2)
		}
		v, ok := views()[os.Args[2]]
		if !ok {
			os.Exit(2)
		}
		line := os.Args[3]
		out, oracle, tags := safeExec(v, line)
		fmt.Fprintln(realStdout, "go:", out)
		fmt.Fprintln(realStdout, "oracle:", oracle)
		fmt.Fprintln(realStdout, "tags:", tags)
	default:
		os.Exit(2)
	}
}
