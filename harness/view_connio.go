package main

import (
	"bytes"
	"fmt"
	"runtime"
	"runtime/debug"
	"strconv"
	"strings"

	"golang.org/x/sys/unix"

	"rcproxy/core"
	rbPool "rcproxy/core/pkg/pool/ringbuffer"
)

// connio view (C19 users, C10): the REAL conn.write / conn.writev / eventloop.write on a socketpair whose proxy side
// has a tiny send buffer and whose peer reads only when told to: short writes and EAGAIN happen for real. The number
// of bytes the kernel accepted in each call is observed (peer side: bytes read so far + bytes queued, FIONREAD) and
// handed to the Lean ConnIO model, which must predict the backlog (`OutboundBuffered`) after every step; the oracle
// is stream integrity: what the peer finally receives is exactly what was submitted, in order.
type connioView struct{}

func (connioView) Name() string  { return "connio" }
func (connioView) MinKinds() int { return 8 }

func (connioView) Gen(r *Rng, i int) string {
	maxes := []int{64, 1024, 4096, 65536}
	max := maxes[r.Intn(len(maxes))]
	n := 4 + r.Intn(24)
	var ops []string
	big := func() int {
		switch r.Intn(6) {
		case 0:
			return r.Intn(20)
		case 1, 2:
			return 500 + r.Intn(3000)
		case 3:
			return 4096 * (1 + r.Intn(3))
		default:
			return 3000 + r.Intn(20000)
		}
	}
	if r.Chance(1, 3) {
		// a backend connection's path: requests join the pending-write queue (EnqueueOutFrag), the poller runs the
		// write signal (handleWriteSignal: one vectored write of everything queued), writable events drain the backlog
		small := func() int {
			switch r.Intn(5) {
			case 0:
				return 1 + r.Intn(20)
			case 1, 2:
				return 20 + r.Intn(300)
			case 3:
				return 2000 + r.Intn(6000)
			default:
				return 500 + r.Intn(3000)
			}
		}
		for j := 0; j < n; j++ {
			switch r.Intn(10) {
			case 0, 1, 2, 3:
				var lens []string
				for x := 1 + r.Intn(4); x > 0; x-- {
					lens = append(lens, strconv.Itoa(small()))
				}
				ops = append(ops, "q "+strings.Join(lens, ","))
			case 4, 5:
				ops = append(ops, "t")
			case 6, 7:
				ops = append(ops, "f")
			default:
				ops = append(ops, fmt.Sprintf("d %d", []int{1, 100, 2000, 5000, 20000, 100000}[r.Intn(6)]))
			}
		}
		return fmt.Sprintf("connio %d | %s", max, strings.Join(ops, " ; "))
	}
	for j := 0; j < n; j++ {
		switch r.Intn(10) {
		case 0, 1, 2:
			var lens []string
			for x := 1 + r.Intn(5); x > 0; x-- {
				lens = append(lens, strconv.Itoa(big()))
			}
			ops = append(ops, "v "+strings.Join(lens, ","))
		case 3, 4:
			ops = append(ops, fmt.Sprintf("w %d", big()))
		case 5, 6:
			ops = append(ops, "f")
		default:
			ops = append(ops, fmt.Sprintf("d %d", []int{1, 100, 2000, 5000, 20000, 100000}[r.Intn(6)]))
		}
	}
	return fmt.Sprintf("connio %d | %s", max, strings.Join(ops, " ; "))
}

type connioRun struct {
	env   *SimEnv
	peer  *simPeer
	recv  []byte
	model []string
}

func (c *connioRun) queued() int {
	n, err := unix.IoctlGetInt(c.peer.fd, unix.TIOCINQ)
	if err != nil {
		return 0
	}
	return n
}

// wire = bytes the kernel has accepted from the proxy so far
func (c *connioRun) wire() int { return len(c.recv) + c.queued() }

func (c *connioRun) read(k int) {
	buf := make([]byte, k)
	for k > 0 {
		n, err := unix.Read(c.peer.fd, buf[:k])
		if n <= 0 || err != nil {
			return
		}
		c.recv = append(c.recv, buf[:n]...)
		k -= n
	}
}

func (connioView) ExecModel(line string) (out string, oracle string, tags []string, modelLine string) {
	parts := strings.Split(strings.TrimPrefix(line, "connio "), "|")
	if len(parts) != 2 {
		return "bad-op", "", nil, line
	}
	max, err := strconv.Atoi(strings.TrimSpace(parts[0]))
	if err != nil || max <= 0 {
		return "bad-op", "", nil, line
	}
	prev := runtime.GOMAXPROCS(1)
	defer runtime.GOMAXPROCS(prev)
	oldGC := debug.SetGCPercent(-1)
	defer debug.SetGCPercent(oldGC)
	rbPool.VerifReset()
	env, err := NewSimEnvW(SimConfig{Limit: 1 << 20, Conns: 1, SndBuf: 4096}, max)
	if err != nil {
		return "bad-op " + err.Error(), "", nil, line
	}
	defer env.Close()
	peer, err := env.AddClient("10.9.9.9")
	if err != nil {
		return "bad-op " + err.Error(), "", nil, line
	}
	c := &connioRun{env: env, peer: peer}
	tagset := map[string]bool{}
	var fails []string
	fail := func(format string, a ...interface{}) {
		if len(fails) < 9 {
			msg := fmt.Sprintf(format, a...)
			// the write path carries every reply to a client (C02) and every request to a node (C10)
			fails = append(fails, "C19: "+msg, "C10: "+msg, "C02: "+msg)
		}
	}
	var submitted []byte
	var qlens []int // lengths of the requests queued since the last write signal, oldest first
	// bytes still in the pending-write queue: the queue is FIFO, so it holds the most recently queued requests
	queuedBytes := func() int {
		n := peer.vc.OutFragLen()
		if n > len(qlens) {
			n = len(qlens)
		}
		t := 0
		for _, l := range qlens[len(qlens)-n:] {
			t += l
		}
		return t
	}
	k := 0
	var outs []string
	for _, op := range splitOps(parts[1]) {
		before := c.wire()
		backlog := peer.vc.OutboundBuffered()
		switch {
		case op[0] == "v" && len(op) == 2:
			var bs [][]byte
			total := 0
			for _, l := range parseLens(op[1]) {
				bs = append(bs, streamBytes(k, l))
				k += l
				total += l
			}
			submitted = append(submitted, flat(bs)...)
			_, _ = peer.vc.Writev(bs)
			poison(bs...)
			acc := c.wire() - before
			c.model = append(c.model, fmt.Sprintf("v %s a=%d", op[1], acc))
			switch {
			case backlog > 0:
				tagset["writev-behind-backlog"] = true
			case acc == 0 && total > 0:
				tagset["writev-eagain"] = true
			case acc < total:
				tagset["writev-short"] = true
				if len(bs) > 1 && acc >= len(bs[0]) {
					tagset["writev-short-past-first-slice"] = true
				}
			default:
				tagset["writev-complete"] = true
			}
		case op[0] == "w" && len(op) == 2:
			l, _ := strconv.Atoi(op[1])
			p := streamBytes(k, l)
			k += l
			submitted = append(submitted, p...)
			_, _ = peer.vc.Write(p)
			poison(p)
			acc := c.wire() - before
			c.model = append(c.model, fmt.Sprintf("w %d a=%d", l, acc))
			switch {
			case backlog > 0:
				tagset["write-behind-backlog"] = true
			case acc < l:
				tagset["write-short"] = true
			default:
				tagset["write-complete"] = true
			}
		case op[0] == "q" && len(op) == 2:
			for _, l := range parseLens(op[1]) {
				p := streamBytes(k, l)
				k += l
				frag := core.FragPool.Get()
				frag.Req = append(frag.Req[:0], p...)
				peer.vc.SConn().EnqueueOutFrag(frag)
				submitted = append(submitted, p...)
				qlens = append(qlens, l)
			}
			c.model = append(c.model, "q "+op[1])
			tagset["enqueue"] = true
			if backlog > 0 {
				tagset["enqueue-behind-backlog"] = true
			}
		case op[0] == "t":
			_, _ = env.env.RunTasks()
			acc := c.wire() - before
			c.model = append(c.model, fmt.Sprintf("t a=%d", acc))
			if len(qlens) > 0 {
				total := 0
				for _, l := range qlens {
					total += l
				}
				switch {
				case backlog > 0:
					tagset["signal-behind-backlog"] = true
				case acc < total:
					tagset["signal-short"] = true
				default:
					tagset["signal-complete"] = true
				}
			}
			qlens = qlens[:0]
		case op[0] == "f":
			if backlog == 0 {
				// eventloop.write is only ever called with a backlog (the poller watches writability only then)
				continue
			}
			_ = env.env.Writable(peer.vc)
			acc := c.wire() - before
			c.model = append(c.model, fmt.Sprintf("f a=%d", acc))
			if peer.vc.OutboundBuffered() > 0 {
				tagset["flush-partial"] = true
			} else {
				tagset["flush-drained"] = true
			}
		case op[0] == "d" && len(op) == 2:
			n, _ := strconv.Atoi(op[1])
			c.read(n)
			continue
		default:
			return "bad-op", "", nil, line
		}
		if !peer.vc.Opened() {
			fail("the proxy closed the connection during `%s`", strings.Join(op, " "))
			break
		}
		outs = append(outs, fmt.Sprintf("[%d %d]", peer.vc.OutboundBuffered(), c.wire()))
		if qb := queuedBytes(); c.wire()+peer.vc.OutboundBuffered()+qb != len(submitted) {
			fail("after `%s`: %d bytes on the wire + %d backlogged + %d queued != %d submitted", strings.Join(op, " "), c.wire(), peer.vc.OutboundBuffered(), qb, len(submitted))
		}
	}
	if len(qlens) > 0 && peer.vc.Opened() {
		before := c.wire()
		_, _ = env.env.RunTasks()
		c.model = append(c.model, fmt.Sprintf("t a=%d", c.wire()-before))
		outs = append(outs, fmt.Sprintf("[%d %d]", peer.vc.OutboundBuffered(), c.wire()))
		qlens = qlens[:0]
	}
	// drain completely: the peer reads, the proxy gets writable events, until nothing is left
	for i := 0; i < 10000 && peer.vc.Opened(); i++ {
		c.read(1 << 20)
		if peer.vc.OutboundBuffered() == 0 {
			break
		}
		before := c.wire()
		_ = env.env.Writable(peer.vc)
		c.model = append(c.model, fmt.Sprintf("f a=%d", c.wire()-before))
		outs = append(outs, fmt.Sprintf("[%d %d]", peer.vc.OutboundBuffered(), c.wire()))
	}
	c.read(1 << 20)
	if !bytes.Equal(c.recv, submitted) {
		at := 0
		for at < len(c.recv) && at < len(submitted) && c.recv[at] == submitted[at] {
			at++
		}
		fail("the peer received %d bytes, %d were submitted; the streams differ from offset %d", len(c.recv), len(submitted), at)
	}
	outs = append(outs, "stream "+digest(c.recv))
	c.model = append(c.model, "end")
	for t := range tagset {
		tags = append(tags, t)
	}
	tags = append(tags, "dom:C19", "dom:C10", "dom:C02", sizeTag("max", max))
	return strings.Join(outs, " | "), strings.Join(fails, " | "), tags, fmt.Sprintf("connio %d | %s", max, strings.Join(c.model, " ; "))
}

func (v connioView) Exec(line string) (string, string, []string) {
	o, w, t, _ := v.ExecModel(line)
	return o, w, t
}

func (connioView) Shrink(line string) []string { return shrinkOps(line) }

var _ = core.MaxStreamBufferCap
