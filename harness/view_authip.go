package main

import (
	"fmt"
	"os"
	"path/filepath"
	"strings"
	"time"

	"rcproxy/core/authip"
)

// authip view: the real parseAuthIp on files written to a scratch directory, IpMap.Validate and the
// admission check of OnCOpened on a real client connection, vs AuthIp.reload / validate / admits.
// Oracle (C18): after a readable file state F, an address is admitted iff the list is disabled or
// the address is in F's list; a rejected connection is closed with no bytes written.
type authipView struct{}

func (authipView) Name() string  { return "authip" }
func (authipView) MinKinds() int { return 6 }

var authipPool = []string{"10.0.0.1", "10.0.0.2", "10.0.0.3", "192.168.1.7", "127.0.0.1", "1.2.3.4", "10.0.0.10", "8.8.8.8"}

func (authipView) Gen(r *Rng, i int) string {
	var evs []string
	n := 3 + r.Intn(10)
	for k := 0; k < n; k++ {
		switch x := r.Intn(10); {
		case x < 4:
			var ips []string
			for _, ip := range authipPool {
				if r.Chance(1, 3) {
					ips = append(ips, hx([]byte(ip)))
				}
			}
			if r.Chance(1, 6) && len(ips) > 0 {
				ips = append(ips, ips[0]) // duplicate entry
			}
			l := "-"
			if len(ips) > 0 {
				l = strings.Join(ips, ",")
			}
			en := 1
			if r.Chance(1, 4) {
				en = 0
			}
			evs = append(evs, fmt.Sprintf("W %d %s", en, l))
		case x < 5:
			evs = append(evs, []string{"B", "D"}[r.Intn(2)])
		case x < 8:
			evs = append(evs, "V "+hx([]byte(authipPool[r.Intn(len(authipPool))])))
		default:
			evs = append(evs, "A "+hx([]byte(authipPool[r.Intn(len(authipPool))]+":"+fmt.Sprint(1000+r.Intn(60000)))))
		}
	}
	for _, ip := range authipPool[:4] {
		evs = append(evs, "V "+hx([]byte(ip)))
	}
	return "authip " + strings.Join(evs, " ; ")
}

// settle lets the whitelist map's background resize (started by a reload's inserts) finish before the next reload
// deletes from it - reloads of a real file are never microseconds apart
func settle() { time.Sleep(500 * time.Microsecond) }

func writeAuthFile(path string, enable bool, ips []string) error {
	var b strings.Builder
	fmt.Fprintf(&b, "enable: %v\nip_white_list:\n", enable)
	for _, ip := range ips {
		fmt.Fprintf(&b, "  - %q\n", ip)
	}
	if len(ips) == 0 {
		b.Reset()
		fmt.Fprintf(&b, "enable: %v\nip_white_list: []\n", enable)
	}
	tmp := path + ".tmp"
	if err := os.WriteFile(tmp, []byte(b.String()), 0o644); err != nil {
		return err
	}
	return os.Rename(tmp, path) // rewrite by rename, like editors and config management do
}

func (authipView) Exec(line string) (out string, oracle string, tags []string) {
	dir, err := os.MkdirTemp("", "rcverif-authip")
	if err != nil {
		return "bad-op", "", nil
	}
	defer os.RemoveAll(dir)
	authip.VerifResetIpMap()
	defer authip.VerifResetIpMap()
	env, err := NewSimEnv(SimConfig{Limit: 1 << 20})
	if err != nil {
		return "bad-op", "", nil
	}
	defer env.Close()
	file := filepath.Join(dir, "authip.yaml")
	tags = []string{"dom:C18"}
	var outs, fails []string
	var cur *struct {
		enable bool
		list   map[string]bool
	}
	expect := func(ip string) bool { return cur == nil || !cur.enable || cur.list[ip] }
	for _, ev := range strings.Split(strings.TrimPrefix(line, "authip "), ";") {
		f := strings.Fields(ev)
		if len(f) == 0 {
			continue
		}
		switch f[0] {
		case "W":
			var ips []string
			if f[2] != "-" {
				for _, h := range strings.Split(f[2], ",") {
					b, _ := unhx(h)
					ips = append(ips, string(b))
				}
			}
			enable := f[1] != "0"
			if err := writeAuthFile(file, enable, ips); err != nil {
				return "bad-op", "", nil
			}
			settle()
			if err := authip.VerifParseAuthIp(dir, "authip.yaml"); err != nil {
				outs = append(outs, "err")
				fails = append(fails, fmt.Sprintf("C18: a valid whitelist file was not loaded: %v", err))
			} else {
				outs = append(outs, "ok")
			}
			cur = &struct {
				enable bool
				list   map[string]bool
			}{enable, map[string]bool{}}
			for _, ip := range ips {
				cur.list[ip] = true
			}
			if enable {
				tags = append(tags, "file:enabled")
			} else {
				tags = append(tags, "file:disabled")
			}
		case "B":
			_ = os.WriteFile(file, []byte("enable: [unclosed\n  - :\n"), 0o644)
			if authip.VerifParseAuthIp(dir, "authip.yaml") == nil {
				outs = append(outs, "ok")
			} else {
				outs = append(outs, "err")
			}
			tags = append(tags, "file:broken")
		case "D":
			_ = os.Remove(file)
			if authip.VerifParseAuthIp(dir, "authip.yaml") == nil {
				outs = append(outs, "ok")
			} else {
				outs = append(outs, "err")
			}
			tags = append(tags, "file:deleted")
		case "V":
			b, _ := unhx(f[1])
			got := authip.IpMap.Validate(string(b))
			outs = append(outs, fmt.Sprint(b2i(got)))
			if got != expect(string(b)) {
				fails = append(fails, fmt.Sprintf("C18: %s admitted=%v but the file says enable=%v list=%v", b, got, cur != nil && cur.enable, curList(cur)))
			}
			if got {
				tags = append(tags, "validate:yes")
			} else {
				tags = append(tags, "validate:no")
			}
		case "A":
			b, _ := unhx(f[1])
			hostport := string(b)
			ip := strings.Split(hostport, ":")[0]
			p, _ := env.AddClient(ip)
			p.drain()
			admitted := p.vc.Opened()
			if admitted {
				outs = append(outs, "admit")
				tags = append(tags, "conn:admitted")
			} else {
				outs = append(outs, "reject")
				tags = append(tags, "conn:rejected")
				if len(p.recv) > 0 {
					fails = append(fails, fmt.Sprintf("C18: a rejected connection from %s received %q", ip, p.recv))
				}
			}
			if admitted != expect(ip) {
				fails = append(fails, fmt.Sprintf("C18: connection from %s admitted=%v but the file says enable=%v list=%v", ip, admitted, cur != nil && cur.enable, curList(cur)))
			}
		}
	}
	return strings.Join(outs, " "), strings.Join(fails, " | "), tags
}

func curList(cur *struct {
	enable bool
	list   map[string]bool
}) []string {
	if cur == nil {
		return nil
	}
	return sortedKeys(cur.list)
}

func (authipView) Shrink(line string) []string {
	evs := strings.Split(strings.TrimPrefix(line, "authip "), ";")
	var res []string
	for i := len(evs) - 1; i >= 0; i-- {
		c := append(append([]string{}, evs[:i]...), evs[i+1:]...)
		res = append(res, "authip "+strings.Join(c, ";"))
	}
	return res
}
