package main

import (
	"fmt"
	"strconv"
	"strings"
	"time"

	"golang.org/x/sys/unix"

	"rcproxy/core"
	"rcproxy/core/codec"
)

// pool view: the real core.Pool (Get / Release / Close / SetIsSlave, the active list), the real
// listenServer.getConn with its ban bookkeeping and the retry of OnCReact - driven through real client requests on
// the real event loop - against Model/PoolBan.lean. Dials can FAIL here (SimEnv.dialFail), which the sim view
// never does. One slot range: pool 0 is its master, pool 1 (rep=1) its only replica.
//
//	pool m=<maxActive> rep=<0|1> | g <p> ; l <c> ; v <c> ; d <p> <0|1> ; e <p> ; R <p> ; C <p> ; S <p> <0|1> ; r ; w
//
// g = Pool.Get on pool p, l = the peer of connection c goes away (EOF delivered), v = it goes away silently (the
// proxy finds out when it writes), d = dialling pool p's node fails (0) / works (1)
// from now on, R = Release, C = Close, S = SetIsSlave, r / w = a client GET / SET through the proxy.
// Output per op: the result and per pool "count order flag banUnits closed slave".
type poolView struct{}

func (poolView) Name() string  { return "pool" }
func (poolView) MinKinds() int { return 14 }

const poolRetryMs = 600000 // ten minutes: a ban set by getConn never runs out inside a case

var poolAddrs = []string{"10.9.0.1:7000", "10.9.0.2:7000"}

func (poolView) Gen(r *Rng, i int) string {
	m := 1 + r.Intn(3)
	rep := 0
	if r.Chance(1, 2) {
		rep = 1
	}
	np := 1 + rep
	n := 4 + r.Intn(30)
	var ops []string
	conns := 0 // upper bound on the number of connections dialled so far
	streak := 0
	for len(ops) < n {
		if streak > 0 {
			// a streak of requests while a node cannot be dialled: the ban order climbs to its cap
			streak--
			ops = append(ops, []string{"r", "w", "r"}[r.Intn(3)])
			continue
		}
		switch k := r.Intn(20); {
		case k < 5:
			ops = append(ops, "r")
			conns++
		case k < 8:
			ops = append(ops, "w")
			conns++
		case k < 11:
			ops = append(ops, fmt.Sprintf("g %d", r.Intn(np)))
			conns++
		case k < 13:
			if conns > 0 {
				ops = append(ops, fmt.Sprintf("l %d", r.Intn(conns)))
			}
		case k < 14:
			if conns > 0 {
				// the peer vanishes; the proxy finds out by writing the next request
				ops = append(ops, fmt.Sprintf("v %d", r.Intn(conns)), []string{"r", "w"}[r.Intn(2)], []string{"r", "w"}[r.Intn(2)])
				conns += 2
			}
		case k < 15 && r.Chance(1, 3):
			// the ban of a node runs out (reads skip a flagged replica from then on, until the monitor clears the flag)
			ops = append(ops, fmt.Sprintf("e %d", r.Intn(np)), "r", "r")
			conns += 2
		case k < 16:
			ok := r.Intn(2)
			ops = append(ops, fmt.Sprintf("d %d %d", r.Intn(np), ok))
			if ok == 0 && r.Chance(1, 2) {
				streak = 2 + r.Intn(6)
			}
		case k < 17:
			ops = append(ops, fmt.Sprintf("R %d", r.Intn(np)))
		case k < 18:
			if r.Chance(1, 3) {
				ops = append(ops, fmt.Sprintf("C %d", r.Intn(np)))
			}
		case k < 19:
			if rep == 1 && r.Bool() {
				// the replica is promoted and demoted again with requests in between: the connections dialled while
				// it was a master must not serve reads once it is a replica again
				ops = append(ops, "S 1 0", "r", "S 1 1", "r")
				conns += 2
			} else {
				ops = append(ops, fmt.Sprintf("S %d %d", r.Intn(np), r.Intn(2)))
			}
		default:
			// lose everything dialled so far, then ask again
			for c := 0; c < conns && c < 6; c++ {
				ops = append(ops, fmt.Sprintf("l %d", c))
			}
			ops = append(ops, "r", "w")
		}
	}
	return fmt.Sprintf("pool m=%d rep=%d | %s", m, rep, strings.Join(ops, " ; "))
}

type poolRun struct {
	env         *SimEnv
	cl          *simPeer
	pools       []*core.Pool
	dialAs      []bool // role each backend connection was dialled with (by backend index)
	acked       []bool // READONLY of that connection has been answered
	lift        []time.Time
	units       []int
	fails       []string
	tags        map[string]bool
	maxAct      int
	skipReplica bool
}

func (pr *poolRun) fail(f string, a ...interface{}) {
	if len(pr.fails) < 4 {
		pr.fails = append(pr.fails, fmt.Sprintf(f, a...))
	}
}

func (pr *poolRun) indexOf(c core.SConn) int {
	for i, b := range pr.env.backends {
		if b.vc != nil && b.vc.SConn() == c {
			return i
		}
	}
	return -1
}

// after every op: remember the role of connections dialled meanwhile, run the poller's tasks (write signals, the
// close requests of Release), and read what arrived
func (pr *poolRun) settle() {
	for len(pr.dialAs) < len(pr.env.backends) {
		b := pr.env.backends[len(pr.dialAs)]
		pr.dialAs = append(pr.dialAs, b.vc != nil && b.vc.SConn().IsSlave())
		pr.acked = append(pr.acked, false)
	}
	_, _ = pr.env.env.RunTasks()
	pr.env.drainAll()
	// a replica connection sends READONLY when it opens and holds requests back until that is answered
	for i, b := range pr.env.backends {
		if pr.dialAs[i] && !pr.acked[i] && !b.closed && b.vc != nil && b.vc.Opened() && strings.Contains(string(b.recv), "READONLY") {
			pr.acked[i] = true
			_ = pr.env.Feed(b, []byte("+OK\r\n"))
			_, _ = pr.env.env.RunTasks()
			pr.env.drainAll()
		}
	}
}

func (pr *poolRun) state(opStart time.Time) string {
	var parts []string
	for i, p := range pr.pools {
		if !p.LiftBanTime.Equal(pr.lift[i]) {
			pr.lift[i] = p.LiftBanTime
			d := p.LiftBanTime.Sub(opStart)
			pr.units[i] = int((d + time.Duration(poolRetryMs/2)*time.Millisecond) / (time.Duration(poolRetryMs) * time.Millisecond))
		}
		parts = append(parts, fmt.Sprintf("%d %d %d %d %d %d", p.ActiveCount(), p.LiftBanOrder, b2i(p.AutoBanFlag), pr.units[i], b2i(p.VerifClosed()), b2i(p.VerifIsSlave())))
		// ---- oracle (C10): never more pooled connections than configured
		lim := pr.maxAct
		if lim < 1 {
			lim = 1
		}
		if p.ActiveCount() > lim {
			pr.fail("C10: pool %d holds %d connections, server_connections is %d", i, p.ActiveCount(), pr.maxAct)
		}
		if p.LiftBanOrder > 5 || p.LiftBanOrder < 0 {
			pr.fail("C20: ban order %d of pool %d is outside 0..5", p.LiftBanOrder, i)
		}
	}
	return "[" + strings.Join(parts, "|") + "]"
}

var (
	poolGetReq = []byte("*2\r\n$3\r\nget\r\n$1\r\nk\r\n")
	poolSetReq = []byte("*3\r\n$3\r\nset\r\n$1\r\nk\r\n$1\r\nv\r\n")
)

// request sends one client request and plays the node's part; returns the result token
func (pr *poolRun) request(isRead bool) string {
	req, reply := poolSetReq, "+OK\r\n"
	if isRead {
		req, reply = poolGetReq, "$-1\r\n"
	}
	before := make([]int, len(pr.env.backends))
	for i, b := range pr.env.backends {
		before[i] = len(b.recv)
	}
	cb := len(pr.cl.recv)
	// route skips a flagged replica whose ban has run out (the read is then the master's)
	pr.skipReplica = len(pr.pools) > 1 && pr.pools[1].AutoBanFlag && pr.pools[1].LiftBanTime.Before(time.Now())
	ordersBefore := []int32{}
	for _, p := range pr.pools {
		ordersBefore = append(ordersBefore, p.LiftBanOrder)
	}
	if err := pr.env.Feed(pr.cl, req); err != nil {
		return "feed-error"
	}
	pr.settle()
	pr.cl.drain()
	if got := pr.cl.recv[cb:]; len(got) > 0 {
		// answered by the proxy itself
		pr.tags["req:err"] = true
		if strings.Contains(string(got), "closed") {
			pr.tags["req:write-failed"] = true
		}
		if got[0] != '-' {
			pr.fail("C15: a request that could not be forwarded was answered with %q, not an error", got)
		}
		for i, b := range pr.env.backends {
			if i < len(before) && len(b.recv) != before[i] {
				pr.fail("C15: the request was answered with an error and still reached connection %d", i)
			}
		}
		return "err " + hx(got)
	}
	// which connection got it?
	target := -1
	for i, b := range pr.env.backends {
		prev := 0
		if i < len(before) {
			prev = before[i]
		}
		if len(b.recv) > prev && strings.HasSuffix(string(b.recv), string(req)) {
			if target >= 0 {
				pr.fail("C10: one request reached two connections (%d and %d)", target, i)
			}
			target = i
		}
	}
	if target < 0 {
		pr.fail("C15: the request was neither forwarded nor answered")
		return "lost"
	}
	b := pr.env.backends[target]
	if !b.vc.Opened() {
		pr.fail("C15: the request was queued on connection %d, which is closed", target)
	}
	// ---- oracle (C04): role of the connection, READONLY first on a replica connection
	wantAddr := poolAddrs[0]
	if isRead && len(pr.pools) > 1 && !pr.skipReplica {
		wantAddr = poolAddrs[1]
	}
	if b.addr != wantAddr {
		pr.fail("C04: request (read=%v) went to %s, expected %s", isRead, b.addr, wantAddr)
	}
	if target >= len(before) {
		pr.tags["req:dialled"] = true
	} else {
		pr.tags["req:pooled"] = true
	}
	if pr.dialAs[target] && !strings.HasPrefix(string(b.recv), "*1\r\n$8\r\nREADONLY\r\n") {
		pr.fail("C04: connection %d was dialled for a replica and does not start with READONLY", target)
	}
	if isRead && len(pr.pools) > 1 && b.addr == poolAddrs[1] && pr.pools[1].VerifIsSlave() && !strings.Contains(string(b.recv[:len(b.recv)-len(req)]), "READONLY") {
		pr.fail("C04: read sent to replica %s on connection %d that never sent READONLY", b.addr, target)
	}
	if err := pr.env.Feed(b, []byte(reply)); err != nil {
		return "feed-error"
	}
	pr.settle()
	pr.cl.drain()
	if got := string(pr.cl.recv[cb:]); got != reply {
		pr.fail("C15: the client received %q for its request, the node answered %q", got, reply)
	}
	// ---- oracle (C20): a served request resets the ban order of the node that served it
	pi := 0
	if b.addr == poolAddrs[1] {
		pi = 1
	}
	if pr.pools[pi].LiftBanOrder != 0 {
		pr.fail("C20: pool %d served a request and keeps ban order %d", pi, pr.pools[pi].LiftBanOrder)
	}
	_ = ordersBefore
	pr.tags["req:fwd"] = true
	return fmt.Sprintf("fwd c%d", target)
}

func (v poolView) Exec(line string) (string, string, []string) {
	parts := strings.Split(strings.TrimPrefix(line, "pool "), "|")
	if len(parts) != 2 {
		return "bad-op", "", nil
	}
	m, rep := -1, -1
	for _, tok := range strings.Fields(parts[0]) {
		if strings.HasPrefix(tok, "m=") {
			m, _ = strconv.Atoi(tok[2:])
		}
		if strings.HasPrefix(tok, "rep=") {
			rep, _ = strconv.Atoi(tok[4:])
		}
	}
	if m < 1 || rep < 0 || rep > 1 {
		return "bad-op", "", nil
	}
	env, err := NewSimEnv(SimConfig{Limit: 1 << 20, Conns: m, RetryMs: poolRetryMs})
	if err != nil {
		return "bad-op", "", nil
	}
	defer env.Close()
	pr := &poolRun{env: env, tags: map[string]bool{"dom:C15": true, "dom:C10": true, "dom:C20": true, "dom:C04": true}, maxAct: m}
	env.AddPool(poolAddrs[0], false)
	var slaves []string
	if rep == 1 {
		env.AddPool(poolAddrs[1], true)
		slaves = []string{poolAddrs[1]}
	}
	env.env.SetReplicaset(poolAddrs[0], slaves, [][2]int32{{0, 16383}})
	for i := 0; i <= rep; i++ {
		pr.pools = append(pr.pools, core.EngineGlobal.ProxyPool[poolAddrs[i]])
		pr.lift = append(pr.lift, time.Time{})
		pr.units = append(pr.units, 0)
	}
	cl, err := env.AddClient("127.0.0.1")
	if err != nil {
		return "bad-op", "", nil
	}
	pr.cl = cl
	var outs []string
	for _, op := range strings.Split(parts[1], ";") {
		f := strings.Fields(op)
		if len(f) == 0 {
			continue
		}
		arg := func(i int) int {
			if i < len(f) {
				n, err := strconv.Atoi(f[i])
				if err == nil {
					return n
				}
			}
			return -1
		}
		start := time.Now()
		res := ""
		switch {
		case f[0] == "g" && len(f) == 2:
			p := arg(1)
			if p < 0 || p >= len(pr.pools) {
				res = "nil"
				break
			}
			nb := len(env.backends)
			c := pr.pools[p].Get()
			pr.settle()
			if c == nil {
				res = "nil"
				pr.tags["get:nil"] = true
				break
			}
			i := pr.indexOf(c)
			res = fmt.Sprintf("c%d", i)
			if i >= nb {
				pr.tags["get:dialled"] = true
			} else {
				pr.tags["get:rotated"] = true
			}
			// ---- oracle (C15): Get never hands out a dead connection, and one of the right node
			if i < 0 || !env.backends[i].vc.Opened() {
				pr.fail("C15: Pool.Get of pool %d returned a closed connection (c%d)", p, i)
			} else if env.backends[i].addr != poolAddrs[p] {
				pr.fail("C04: Pool.Get of pool %d returned a connection to %s", p, env.backends[i].addr)
			}
		case f[0] == "l" && len(f) == 2:
			c := arg(1)
			if c >= 0 && c < len(env.backends) {
				if env.backends[c].vc != nil && env.backends[c].vc.Opened() {
					pr.tags["lose:open"] = true
				}
				_ = env.PeerClose(env.backends[c])
			}
			pr.settle()
			res = "-"
		case f[0] == "v" && len(f) == 2:
			// the peer goes away and no EOF event reaches the proxy: it finds out when it writes
			c := arg(1)
			if c >= 0 && c < len(env.backends) && !env.backends[c].closed {
				env.backends[c].drain()
				unix.Close(env.backends[c].fd)
				env.backends[c].closed = true
				if env.backends[c].vc != nil && env.backends[c].vc.Opened() {
					pr.tags["vanish:open"] = true
				}
			}
			res = "-"
		case f[0] == "e" && len(f) == 2:
			// time passes: the ban of pool p has run out (LiftBanTime lies in the past)
			if p := arg(1); p >= 0 && p < len(pr.pools) {
				pr.pools[p].LiftBanTime = time.Now().Add(-time.Hour)
				pr.lift[p] = pr.pools[p].LiftBanTime
				if pr.pools[p].AutoBanFlag {
					pr.tags["ban-ran-out"] = true
				}
			}
			res = "-"
		case f[0] == "d" && len(f) == 3:
			p, ok := arg(1), arg(2)
			if p >= 0 && p < len(pr.pools) {
				env.dialFail[poolAddrs[p]] = ok == 0
				pr.tags[fmt.Sprintf("dial:%d", ok)] = true
			}
			res = "-"
		case f[0] == "R" && len(f) == 2:
			if p := arg(1); p >= 0 && p < len(pr.pools) {
				pr.pools[p].Release()
				pr.tags["release"] = true
			}
			pr.settle()
			res = "-"
		case f[0] == "C" && len(f) == 2:
			if p := arg(1); p >= 0 && p < len(pr.pools) {
				pr.pools[p].Close()
				pr.tags["close"] = true
			}
			pr.settle()
			res = "-"
		case f[0] == "S" && len(f) == 3:
			if p := arg(1); p >= 0 && p < len(pr.pools) {
				if pr.pools[p].VerifIsSlave() != (arg(2) == 1) {
					pr.tags["role-change"] = true
				}
				pr.pools[p].SetIsSlave(arg(2) == 1)
			}
			pr.settle()
			res = "-"
		case f[0] == "r" && len(f) == 1:
			res = pr.request(true)
		case f[0] == "w" && len(f) == 1:
			res = pr.request(false)
		default:
			return "bad-op", "", nil
		}
		// connections open after the op, by index: the model keeps the same flags
		var open []string
		for i, b := range env.backends {
			if b.vc != nil && b.vc.Opened() {
				open = append(open, strconv.Itoa(i))
			}
		}
		st := pr.state(start)
		for i, p := range pr.pools {
			if p.LiftBanOrder == 5 {
				pr.tags["ban:cap"] = true
			}
			if p.AutoBanFlag {
				pr.tags["ban:flag"] = true
			}
			if p.VerifClosed() {
				pr.tags["pool-closed"] = true
			}
			_ = i
		}
		outs = append(outs, fmt.Sprintf("%s %s open=%s", res, st, strings.Join(open, ",")))
	}
	var tags []string
	for t := range pr.tags {
		tags = append(tags, t)
	}
	_ = codec.OK
	return strings.Join(outs, " ; "), strings.Join(pr.fails, " | "), tags
}

func (poolView) Shrink(line string) []string {
	parts := strings.SplitN(line, "|", 2)
	if len(parts) != 2 {
		return nil
	}
	ops := strings.Split(parts[1], ";")
	var res []string
	for i := range ops {
		rest := append(append([]string{}, ops[:i]...), ops[i+1:]...)
		if len(rest) == 0 {
			continue
		}
		res = append(res, parts[0]+"|"+strings.Join(rest, ";"))
	}
	return res
}
