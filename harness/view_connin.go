package main

import (
	"fmt"
	"strconv"
	"strings"
)

// connin view (C08 / C19): the inbound side of a REAL client connection - eventloop.read, conn.Peek / conn.Discard
// over the pooled inbound ring and the event loop's read buffer, the store of the unconsumed rest at the end of a
// read event - against Model/ConnIn.lean. A pipeline is cut into read events at arbitrary points; no slot is
// owned, so every decoded request is answered by the proxy at once (PONG or an error) and the number of replies
// is the number of requests handed to the handler.
//
//	connin <limit> | <hex chunk> ; <hex chunk> ; ...
//
// Output per read event: replies so far, bytes in the inbound ring afterwards (the leftover), open flag.
type conninView struct{}

func (conninView) Name() string  { return "connin" }
func (conninView) MinKinds() int { return 6 }

func (conninView) Gen(r *Rng, i int) string {
	limit := 1 << 20
	if r.Chance(1, 5) {
		limit = 40 + r.Intn(400)
	}
	var data []byte
	nreq := 1 + r.Intn(8)
	for k := 0; k < nreq; k++ {
		var args [][]byte
		switch r.Intn(8) {
		case 0:
			args = [][]byte{[]byte("ping")}
		case 1:
			args = [][]byte{[]byte("get"), r.Bytes(1 + r.Intn(12))}
		case 2:
			n := 1 + r.Intn(40)
			if r.Chance(1, 4) {
				n = 500 + r.Intn(5000) // leftovers that make the ring grow and wrap
			}
			args = [][]byte{[]byte("set"), []byte("k" + strconv.Itoa(k)), r.Bytes(n)}
		case 3:
			args = [][]byte{[]byte("mget")}
			for j := 0; j < 1+r.Intn(5); j++ {
				args = append(args, []byte("k"+strconv.Itoa(r.Intn(50))))
			}
		case 4:
			args = [][]byte{[]byte("nosuchcmd"), []byte("x")}
		case 5:
			args = [][]byte{[]byte("get")} // wrong arity
		case 6:
			args = [][]byte{[]byte("del"), []byte(""), []byte("a")}
		default:
			args = [][]byte{[]byte("hset"), []byte("h"), []byte("f"), r.Bytes(r.Intn(300))}
		}
		data = append(data, encodeCmd(args)...)
	}
	if r.Chance(1, 8) {
		// malformed tail: the connection is closed when the decoder reaches it
		data = append(data, []byte("*1\r\n$x\r\n")...)
	}
	if r.Chance(1, 6) && len(data) > 3 {
		data = data[:len(data)-1-r.Intn(3)] // the last request never completes
	}
	// cut into read events
	cut := func(data []byte, prefix string) []string {
		var chunks []string
		for len(data) > 0 {
			n := 1 + r.Intn(len(data))
			if r.Chance(1, 3) {
				n = 1 + r.Intn(1+len(data)/4)
			}
			if n > 60000 {
				n = 60000
			}
			chunks = append(chunks, prefix+hx(data[:n]))
			data = data[n:]
		}
		return chunks
	}
	chunks := cut(data, "")
	if r.Chance(1, 3) {
		// a second client on the same ring pool, its read events interleaved with the first one's; the first client
		// may go away in the middle of a request: the ring that held its leftover goes back to the pool and is the
		// next one handed out
		var datab []byte
		for k := 0; k < 1+r.Intn(4); k++ {
			datab = append(datab, encodeCmd([][]byte{[]byte("set"), []byte("b" + strconv.Itoa(k)), r.Bytes(1 + r.Intn(200))})...)
		}
		datab = append(datab, []byte("*1\r\n$4\r\nping\r\n")...)
		cb := cut(datab, "b:")
		for len(cb) < 2 {
			cb = append(cb, "b:"+hx([]byte("*1\r\n$4\r\nping\r\n")))
		}
		var mixed []string
		closeAt := -1
		if r.Chance(1, 2) && len(chunks) > 1 {
			closeAt = 1 + r.Intn(len(chunks)-1)
		}
		i, j := 0, 0
		for i < len(chunks) || j < len(cb) {
			if closeAt >= 0 && i == closeAt {
				mixed = append(mixed, "xa")
				i = len(chunks)
				continue
			}
			if i < len(chunks) && (j >= len(cb) || r.Bool()) {
				mixed = append(mixed, chunks[i])
				i++
			} else {
				mixed = append(mixed, cb[j])
				j++
			}
		}
		chunks = mixed
	}
	return fmt.Sprintf("connin %d | %s", limit, strings.Join(chunks, " ; "))
}

func (conninView) Exec(line string) (string, string, []string) {
	parts := strings.Split(strings.TrimPrefix(line, "connin "), "|")
	if len(parts) != 2 {
		return "bad-op", "", nil
	}
	limit, err := strconv.Atoi(strings.TrimSpace(parts[0]))
	if err != nil || limit < 1 {
		return "bad-op", "", nil
	}
	env, err := NewSimEnv(SimConfig{Limit: limit})
	if err != nil {
		return "bad-op", "", nil
	}
	defer env.Close()
	type ccl struct {
		p      *simPeer
		all    []byte
		closed bool // the harness closed it
	}
	cls := map[string]*ccl{}
	get := func(name string) *ccl {
		if c, ok := cls[name]; ok {
			return c
		}
		p, err := env.AddClient("127.0.0." + map[string]string{"a": "1", "b": "2"}[name])
		if err != nil {
			return nil
		}
		cls[name] = &ccl{p: p}
		return cls[name]
	}
	if get("a") == nil {
		return "bad-op", "", nil
	}
	tags := map[string]bool{"dom:C08": true, "dom:C19": true}
	var outs, fails []string
	for _, tok := range strings.Split(parts[1], ";") {
		tok = strings.TrimSpace(tok)
		if tok == "" {
			continue
		}
		name := "a"
		if strings.HasPrefix(tok, "b:") || tok == "xb" {
			name = "b"
			tags["two-clients"] = true
		}
		c := get(name)
		if c == nil {
			return "bad-op", "", nil
		}
		if tok == "xa" || tok == "xb" {
			if !c.closed && c.p.vc.Opened() {
				if c.p.vc.InboundBuffered() > 0 {
					tags["closed-with-leftover"] = true
				}
				_ = env.PeerClose(c.p)
			}
			c.closed = true
			replies, _ := parseReplies(c.p.recv)
			outs = append(outs, fmt.Sprintf("n=%d left=0 open=0", len(replies)))
			continue
		}
		chunk, err := unhx(strings.TrimPrefix(tok, "b:"))
		if err != nil || len(chunk) == 0 || len(chunk) > 65536 {
			return "bad-op", "", nil
		}
		if !c.closed {
			c.all = append(c.all, chunk...)
			if c.p.vc.Opened() {
				if err := env.Feed(c.p, chunk); err != nil {
					return "bad-op", "", nil
				}
			}
		}
		env.drainAll()
		c.p.drain()
		replies, rest := parseReplies(c.p.recv)
		open := c.p.vc.Opened() && !c.closed
		left := 0
		if open {
			left = c.p.vc.InboundBuffered()
		}
		if len(rest) > 0 {
			fails = append(fails, fmt.Sprintf("C08: client %s received bytes that are not a reply: %q", name, clip(rest)))
		}
		if left > 0 {
			tags["leftover"] = true
		}
		if left > 1024 {
			tags["leftover-large"] = true
		}
		if !open {
			tags["closed"] = true
		}
		outs = append(outs, fmt.Sprintf("n=%d left=%d open=%d", len(replies), left, b2i(open)))
		if c.closed {
			continue
		}
		// ---- oracle (independent of the model): the requests completely received so far, parsed strictly
		want, consumed, bad := 0, 0, false
		for consumed < len(c.all) {
			_, n, perr := strictParse(c.all[consumed:])
			if perr != nil {
				bad = perr == errProtocol
				break
			}
			want++
			consumed += n
		}
		if !bad && open {
			if len(replies) != want {
				fails = append(fails, fmt.Sprintf("C08: %d requests of client %s have arrived completely, %d replies were produced (%d read events so far)", want, name, len(replies), len(outs)))
			}
			if left != len(c.all)-consumed {
				fails = append(fails, fmt.Sprintf("C19: %d bytes of an incomplete request of client %s are outstanding, its inbound buffer holds %d", len(c.all)-consumed, name, left))
			}
		}
		if !bad && !open {
			fails = append(fails, fmt.Sprintf("C08: client %s was closed although it sent only well-formed requests (possibly incomplete)", name))
		}
	}
	if len(outs) > 1 {
		tags["multi-event"] = true
	}
	if limit < 1<<20 {
		tags["small-limit"] = true
	}
	var ts []string
	for t := range tags {
		ts = append(ts, t)
	}
	if len(fails) > 3 {
		fails = fails[:3]
	}
	return strings.Join(outs, " ; "), strings.Join(fails, " | "), ts
}

func (conninView) Shrink(line string) []string {
	parts := strings.SplitN(line, "|", 2)
	if len(parts) != 2 {
		return nil
	}
	toks := strings.Split(parts[1], ";")
	var res []string
	// merge two neighbouring read events (the bytes stay the same)
	for i := 0; i+1 < len(toks); i++ {
		a, b := strings.TrimSpace(toks[i]), strings.TrimSpace(toks[i+1])
		m := append(append([]string{}, toks[:i]...), " "+a+b+" ")
		m = append(m, toks[i+2:]...)
		res = append(res, parts[0]+"|"+strings.Join(m, ";"))
	}
	// drop the last event
	if len(toks) > 1 {
		res = append(res, parts[0]+"|"+strings.Join(toks[:len(toks)-1], ";"))
	}
	return res
}
