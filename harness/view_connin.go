package main

import (
	"fmt"
	"strconv"
	"strings"
)

// connin view (C08 / C19): the inbound side of a REAL client connection - eventloop.read, conn.Peek / conn.Discard
// over the pooled inbound ring and the event loop's read buffer, the store of the unconsumed rest at the end of a
// read event - against Model/ConnIn.lean. A pipeline is cut into read events at arbitrary points; no slot is
// owned, so every decoded request is answered by the proxy at once (PONG or an error) and the number of replies
// is the number of requests handed to the handler.
//
//	connin <limit> | <hex chunk> ; <hex chunk> ; ...
//
// Output per read event: replies so far, bytes in the inbound ring afterwards (the leftover), open flag.
type conninView struct{}

func (conninView) Name() string  { return "connin" }
func (conninView) MinKinds() int { return 6 }

func (conninView) Gen(r *Rng, i int) string {
	limit := 1 << 20
	if r.Chance(1, 5) {
		limit = 40 + r.Intn(400)
	}
	var data []byte
	nreq := 1 + r.Intn(8)
	for k := 0; k < nreq; k++ {
		var args [][]byte
		switch r.Intn(8) {
		case 0:
			args = [][]byte{[]byte("ping")}
		case 1:
			args = [][]byte{[]byte("get"), r.Bytes(1 + r.Intn(12))}
		case 2:
			n := 1 + r.Intn(40)
			if r.Chance(1, 4) {
				n = 500 + r.Intn(5000) // leftovers that make the ring grow and wrap
			}
			args = [][]byte{[]byte("set"), []byte("k" + strconv.Itoa(k)), r.Bytes(n)}
		case 3:
			args = [][]byte{[]byte("mget")}
			for j := 0; j < 1+r.Intn(5); j++ {
				args = append(args, []byte("k"+strconv.Itoa(r.Intn(50))))
			}
		case 4:
			args = [][]byte{[]byte("nosuchcmd"), []byte("x")}
		case 5:
			args = [][]byte{[]byte("get")} // wrong arity
		case 6:
			args = [][]byte{[]byte("del"), []byte(""), []byte("a")}
		default:
			args = [][]byte{[]byte("hset"), []byte("h"), []byte("f"), r.Bytes(r.Intn(300))}
		}
		data = append(data, encodeCmd(args)...)
	}
	if r.Chance(1, 8) {
		// malformed tail: the connection is closed when the decoder reaches it
		data = append(data, []byte("*1\r\n$x\r\n")...)
	}
	if r.Chance(1, 6) && len(data) > 3 {
		data = data[:len(data)-1-r.Intn(3)] // the last request never completes
	}
	// cut into read events
	var chunks []string
	for len(data) > 0 {
		n := 1 + r.Intn(len(data))
		if r.Chance(1, 3) {
			n = 1 + r.Intn(1+len(data)/4)
		}
		if n > 60000 {
			n = 60000
		}
		chunks = append(chunks, hx(data[:n]))
		data = data[n:]
	}
	return fmt.Sprintf("connin %d | %s", limit, strings.Join(chunks, " ; "))
}

func (conninView) Exec(line string) (string, string, []string) {
	parts := strings.Split(strings.TrimPrefix(line, "connin "), "|")
	if len(parts) != 2 {
		return "bad-op", "", nil
	}
	limit, err := strconv.Atoi(strings.TrimSpace(parts[0]))
	if err != nil || limit < 1 {
		return "bad-op", "", nil
	}
	env, err := NewSimEnv(SimConfig{Limit: limit})
	if err != nil {
		return "bad-op", "", nil
	}
	defer env.Close()
	cl, err := env.AddClient("127.0.0.1")
	if err != nil {
		return "bad-op", "", nil
	}
	tags := map[string]bool{"dom:C08": true, "dom:C19": true}
	var outs, fails []string
	var all []byte
	for _, tok := range strings.Split(parts[1], ";") {
		tok = strings.TrimSpace(tok)
		if tok == "" {
			continue
		}
		chunk, err := unhx(tok)
		if err != nil || len(chunk) == 0 || len(chunk) > 65536 {
			return "bad-op", "", nil
		}
		all = append(all, chunk...)
		if cl.vc.Opened() {
			if err := env.Feed(cl, chunk); err != nil {
				return "bad-op", "", nil
			}
		}
		env.drainAll()
		cl.drain()
		replies, rest := parseReplies(cl.recv)
		open := cl.vc.Opened()
		left := 0
		if open {
			left = cl.vc.InboundBuffered()
		}
		if len(rest) > 0 {
			fails = append(fails, fmt.Sprintf("C08: the client received bytes that are not a reply: %q", clip(rest)))
		}
		if left > 0 {
			tags["leftover"] = true
		}
		if left > 1024 {
			tags["leftover-large"] = true
		}
		if !open {
			tags["closed"] = true
		}
		outs = append(outs, fmt.Sprintf("n=%d left=%d open=%d", len(replies), left, b2i(open)))
		// ---- oracle (independent of the model): the requests completely received so far, parsed strictly
		want, consumed, bad := 0, 0, false
		for consumed < len(all) {
			_, n, perr := strictParse(all[consumed:])
			if perr != nil {
				bad = perr == errProtocol
				break
			}
			want++
			consumed += n
		}
		if !bad && open {
			if len(replies) != want {
				fails = append(fails, fmt.Sprintf("C08: %d requests have arrived completely, %d replies were produced (segmentation: %d read events so far)", want, len(replies), len(outs)))
			}
			if left != len(all)-consumed {
				fails = append(fails, fmt.Sprintf("C19: %d bytes of an incomplete request are outstanding, the inbound buffer holds %d", len(all)-consumed, left))
			}
		}
		if !bad && !open {
			fails = append(fails, "C08: the connection was closed although only well-formed requests (possibly incomplete) were sent")
		}
	}
	if len(outs) > 1 {
		tags["multi-event"] = true
	}
	if limit < 1<<20 {
		tags["small-limit"] = true
	}
	var ts []string
	for t := range tags {
		ts = append(ts, t)
	}
	if len(fails) > 3 {
		fails = fails[:3]
	}
	return strings.Join(outs, " ; "), strings.Join(fails, " | "), ts
}

func (conninView) Shrink(line string) []string {
	parts := strings.SplitN(line, "|", 2)
	if len(parts) != 2 {
		return nil
	}
	toks := strings.Split(parts[1], ";")
	var res []string
	// merge two neighbouring read events (the bytes stay the same)
	for i := 0; i+1 < len(toks); i++ {
		a, b := strings.TrimSpace(toks[i]), strings.TrimSpace(toks[i+1])
		m := append(append([]string{}, toks[:i]...), " "+a+b+" ")
		m = append(m, toks[i+2:]...)
		res = append(res, parts[0]+"|"+strings.Join(m, ";"))
	}
	// drop the last event
	if len(toks) > 1 {
		res = append(res, parts[0]+"|"+strings.Join(toks[:len(toks)-1], ";"))
	}
	return res
}
