package main

import (
	"fmt"
	"sort"
	"strconv"
	"strings"
	"sync/atomic"
	"time"

	"rcproxy/core"
	"rcproxy/core/pkg/redis"
)

// cluster view: the real refresh goroutine (loopClusterNodes) fed through the cluster channel,
// then eventloop.ticker, vs Cluster.onProbeReply / slotTable. Oracle (C14): an unusable probe
// reply leaves the published state untouched and the goroutine alive; a usable one makes the slot
// table what the text says.
type clusterView struct{}

func (clusterView) Name() string  { return "cluster" }
func (clusterView) MinKinds() int { return 6 }

// INFO of a newly seen node, from the last digit of its address (same rule in the Lean driver)
func clusterInfoOf(addr string) (*redis.Info, error) {
	if addr == "" {
		return nil, fmt.Errorf("no addr")
	}
	switch addr[len(addr)-1] {
	case '9':
		return nil, fmt.Errorf("unreachable")
	case '7':
		return &redis.Info{Loading: true, MasterLinkStatus: "up"}, nil
	case '8':
		return &redis.Info{Loading: false, MasterLinkStatus: "down"}, nil
	}
	return &redis.Info{Loading: false, MasterLinkStatus: "up"}, nil
}

type cnode struct {
	id, addr, flags, master, link string
	slots                         []string
}

func (n cnode) line() string {
	parts := []string{n.id, n.addr, n.flags, n.master, "0", "1600000000000", "3", n.link}
	parts = append(parts, n.slots...)
	return strings.Join(parts, " ")
}

func genClusterText(r *Rng) string {
	nm := 1 + r.Intn(5)
	var nodes []cnode
	lo := 0
	port := 7000 + r.Intn(3)*10
	for i := 0; i < nm; i++ {
		port++
		id := fmt.Sprintf("%040x", r.Next())
		hi := 16383
		if i < nm-1 {
			hi = lo + (16384-lo)/(nm-i) - 1
		}
		m := cnode{id: id, addr: fmt.Sprintf("127.0.0.%d:%d@1%d", i+1, port, port), flags: "master", master: "-", link: "connected"}
		switch r.Intn(6) {
		case 0:
			mid := lo + (hi-lo)/2
			m.slots = []string{fmt.Sprintf("%d-%d", lo, mid), fmt.Sprintf("%d-%d", mid+1, hi)}
		case 1:
			// a slot in migration: the source lists `[slot->-target]`, the target lists `[slot-<-source]` (resharding)
			marker := fmt.Sprintf("[%d->-%s]", lo, id[:8])
			if r.Bool() {
				marker = fmt.Sprintf("[%d-<-%s]", lo, id[:8])
			}
			m.slots = []string{fmt.Sprintf("%d-%d", lo, hi), marker}
			if r.Chance(1, 3) {
				m.slots = []string{marker, fmt.Sprintf("%d-%d", lo, hi)}
			}
		case 2:
			m.slots = []string{strconv.Itoa(lo), fmt.Sprintf("%d-%d", lo+1, hi)}
		default:
			m.slots = []string{fmt.Sprintf("%d-%d", lo, hi)}
		}
		if i == 0 && r.Chance(1, 3) {
			m.flags = "myself,master"
		}
		nodes = append(nodes, m)
		for k := 0; k < r.Intn(3); k++ {
			port++
			nodes = append(nodes, cnode{id: fmt.Sprintf("%040x", r.Next()), addr: fmt.Sprintf("127.0.1.%d:%d@1%d", i+1, port, port), flags: "slave", master: id, link: "connected"})
		}
		lo = hi + 1
	}
	// mutations of individual lines
	for i := range nodes {
		switch r.Intn(40) {
		case 0:
			nodes[i].flags += ",fail"
		case 1:
			nodes[i].flags += ",fail?"
		case 2:
			nodes[i].flags = "handshake"
		case 3:
			nodes[i].flags += ",noaddr"
			nodes[i].addr = ":0@0"
		case 4:
			nodes[i].link = "disconnected"
		case 5:
			nodes[i].addr = "127.0.0.1"
		case 6:
			nodes[i].addr = "127.0.0.1:x"
		case 7:
			if len(nodes[i].slots) > 0 {
				nodes[i].slots[0] = []string{"16384", "0-16384", "5-1", "-1", "a-b", "", "99999999999", "7-"}[r.Intn(8)]
			}
		case 8:
			nodes[i].slots = nil
		case 9:
			nodes[i].master = "0000000000000000000000000000000000000000"
		case 10:
			nodes[i].flags = "-"
		case 11:
			if nodes[i].flags == "slave" && i > 0 {
				nodes[i].addr = nodes[i-1].addr // duplicate address
			}
		}
	}
	var lines []string
	for _, n := range nodes {
		l := n.line()
		if r.Chance(1, 50) {
			f := strings.Fields(l)
			l = strings.Join(f[:r.Intn(len(f))], " ") // too few columns
		}
		lines = append(lines, l)
	}
	if r.Chance(1, 10) {
		r2 := NewRng(r.Next())
		for i := len(lines) - 1; i > 0; i-- {
			j := r2.Intn(i + 1)
			lines[i], lines[j] = lines[j], lines[i]
		}
	}
	return strings.Join(lines, "\n") + "\n"
}

// cleanTopo: the reference reading of a nodes text in the plain form redis prints for a healthy cluster (flags
// master / myself,master / slave, link connected, address ip:port@cport, slot tokens a-b / n / [migrating markers],
// every replica's master listed, every node healthy by clusterInfoOf, at least three nodes). ok = false for anything
// else: the oracle then says nothing.
type cleanMaster struct {
	addr   string
	ranges [][2]int
	slaves []string
}

func cleanTopo(text string) (masters []cleanMaster, ok bool) {
	byID := map[string]int{}
	seenAddr := map[string]bool{}
	type sl struct{ addr, master string }
	var slaves []sl
	n := 0
	for _, line := range strings.Split(strings.TrimSuffix(text, "\n"), "\n") {
		f := strings.Split(line, " ")
		if len(f) < 8 || len(f[0]) != 40 {
			return nil, false
		}
		at := strings.Index(f[1], "@")
		if at < 0 {
			return nil, false
		}
		addr := f[1][:at]
		host, port, found := strings.Cut(addr, ":")
		if _, err := strconv.Atoi(port); !found || err != nil || len(strings.Split(host, ".")) != 4 || seenAddr[addr] {
			return nil, false
		}
		seenAddr[addr] = true
		if info, err := clusterInfoOf(addr); err != nil || info.Loading || info.MasterLinkStatus != "up" {
			return nil, false
		}
		if f[7] != "connected" {
			return nil, false
		}
		switch f[2] {
		case "master", "myself,master":
			if f[3] != "-" {
				return nil, false
			}
			m := cleanMaster{addr: addr}
			for _, tok := range f[8:] {
				if strings.HasPrefix(tok, "[") {
					continue
				}
				a, b, isRange := strings.Cut(tok, "-")
				lo, err1 := strconv.Atoi(a)
				hi := lo
				var err2 error
				if isRange {
					hi, err2 = strconv.Atoi(b)
				}
				if err1 != nil || err2 != nil || lo < 0 || hi > 16383 || lo > hi {
					return nil, false
				}
				m.ranges = append(m.ranges, [2]int{lo, hi})
			}
			if len(m.ranges) == 0 {
				return nil, false
			}
			byID[f[0]] = len(masters)
			masters = append(masters, m)
		case "slave":
			if len(f) != 8 {
				return nil, false
			}
			slaves = append(slaves, sl{addr, f[3]})
		default:
			return nil, false
		}
		n++
	}
	for _, s := range slaves {
		i, found := byID[s.master]
		if !found {
			return nil, false
		}
		masters[i].slaves = append(masters[i].slaves, s.addr)
	}
	// disjoint ranges
	var owned [16384]bool
	for _, m := range masters {
		for _, r := range m.ranges {
			for s := r[0]; s <= r[1]; s++ {
				if owned[s] {
					return nil, false
				}
				owned[s] = true
			}
		}
	}
	return masters, n >= 3
}

// checkTable: after a tick that rebuilt the table from a clean text, every slot is owned by the master that lists it,
// with exactly that master's replicas, and slots nobody lists are unowned
func checkTable(env *SimEnv, masters []cleanMaster) []string {
	var fails []string
	var want [16384]int
	for i := range want {
		want[i] = -1
	}
	for i, m := range masters {
		for _, r := range m.ranges {
			for s := r[0]; s <= r[1]; s++ {
				want[s] = i
			}
		}
	}
	for s := 0; s < 16384 && len(fails) < 3; s++ {
		m, sl, ok := env.env.SlotOwner(int32(s))
		switch {
		case want[s] < 0 && ok:
			fails = append(fails, fmt.Sprintf("C14: slot %d is claimed by no node of the latest valid CLUSTER NODES reply but the table routes it to %s", s, m))
		case want[s] >= 0 && !ok:
			fails = append(fails, fmt.Sprintf("C14: slot %d is claimed by the healthy master %s in the latest valid CLUSTER NODES reply but the table has no owner for it", s, masters[want[s]].addr))
		case want[s] >= 0 && (m != masters[want[s]].addr || strings.Join(sl, ",") != strings.Join(masters[want[s]].slaves, ",")):
			fails = append(fails, fmt.Sprintf("C14: slot %d: the latest valid CLUSTER NODES reply says master %s replicas %v, the table says master %s replicas %v", s, masters[want[s]].addr, masters[want[s]].slaves, m, sl))
		}
	}
	return fails
}

func wrapBulk(text string) []byte {
	return []byte("$" + strconv.Itoa(len(text)) + "\r\n" + text + "\r\n")
}

var unusableProbeReplies = []string{"-ERR loading\r\n", "-LOADING Redis is loading the dataset in memory\r\n", "+OK\r\n", "$-1\r\n", "*0\r\n", ":5\r\n", "$0\r\n\r\n",
	"$3\r\nabc\r\n", "-E\r\n", "*-1\r\n", "$1\r\nx\r\n", "+PONG\r\n", "$999999\r\n" + "x\r\n"}

func (clusterView) Gen(r *Rng, i int) string {
	var evs []string
	text := genClusterText(r)
	n := 1 + r.Intn(6)
	for k := 0; k < n; k++ {
		switch x := r.Intn(10); {
		case x < 3:
			evs = append(evs, "M "+hx([]byte(unusableProbeReplies[r.Intn(len(unusableProbeReplies))])))
		case x < 5:
			text = genClusterText(r)
			evs = append(evs, "M "+hx(wrapBulk(text)))
		case x < 6:
			// the same topology again (no change expected)
			evs = append(evs, "M "+hx(wrapBulk(text)))
		case x < 7:
			// one replica re-parented (it now replicates another master of the same text), or one line dropped
			ls := strings.Split(strings.TrimSuffix(text, "\n"), "\n")
			reparented := false
			if r.Bool() {
				var masterIDs []string
				var slaveIdx []int
				for k, l := range ls {
					f := strings.Split(l, " ")
					if len(f) >= 8 && strings.Contains(f[2], "master") {
						masterIDs = append(masterIDs, f[0])
					}
					if len(f) >= 8 && f[2] == "slave" {
						slaveIdx = append(slaveIdx, k)
					}
				}
				if len(masterIDs) > 1 && len(slaveIdx) > 0 {
					k := slaveIdx[r.Intn(len(slaveIdx))]
					f := strings.Split(ls[k], " ")
					for _, id := range masterIDs {
						if id != f[3] {
							f[3] = id
							break
						}
					}
					ls[k] = strings.Join(f, " ")
					reparented = true
				}
			}
			if !reparented && len(ls) > 1 {
				j := r.Intn(len(ls))
				ls = append(ls[:j], ls[j+1:]...)
			}
			text = strings.Join(ls, "\n") + "\n"
			evs = append(evs, "M "+hx(wrapBulk(text)))
		default:
			evs = append(evs, "K")
		}
	}
	evs = append(evs, "K")
	return "cluster " + strings.Join(evs, " ; ")
}

func showVNode(n core.VerifNode) string {
	var sl []string
	for _, s := range n.Slots {
		sl = append(sl, fmt.Sprintf("%d-%d", s[0], s[1]))
	}
	return fmt.Sprintf("%s/%d/%s/%s/%s", hx([]byte(n.Addr))[0:len(hx([]byte(n.Addr)))], n.Role, hx([]byte(n.Name)), hx([]byte(n.MasterId)), strings.Join(sl, "+"))
}

func (clusterView) Exec(line string) (out string, oracle string, tags []string) {
	env, err := NewSimEnv(SimConfig{Limit: 1 << 20})
	if err != nil {
		return "bad-op", "", nil
	}
	defer func() {
		for _, p := range core.EngineGlobal.ProxyPool {
			p.Close()
		}
		env.Close()
	}()
	core.VerifResetClusterPanic()
	marker := make(chan struct{}, 8)
	var endOfCase int32
	done := env.env.StartClusterLoop(func(addr string) (*redis.Info, error) {
		if addr == "9.9.9.9:9" {
			if atomic.LoadInt32(&endOfCase) != 0 {
				// unwind the refresh goroutine of this case (the hook recovers): it must not live on and compete
				// for the next case's probe replies
				panic("verif: end of case")
			}
			marker <- struct{}{}
			return nil, fmt.Errorf("marker")
		}
		return clusterInfoOf(addr)
	})
	markerMsg := wrapBulk("m 9.9.9.9:9@19 master - 0 0 0 connected 0\n")
	alive := true
	sync := func() {
		if !alive {
			return
		}
		// (a marker can get lost: the refresh goroutine of the previous case re-reads the engine's channel once
		// more before it parks and may take it; a live goroutine answers one of the repeats)
		for attempt := 0; attempt < 4; attempt++ {
			if !env.env.ClusterFeed(markerMsg) {
				return
			}
			select {
			case <-marker:
				return
			case <-done:
				alive = false
				return
			case <-time.After(3 * time.Second):
			}
		}
		alive = false
	}
	var outs []string
	var fails []string
	tags = []string{"dom:C14"}
	prev := ""
	var lastClean []cleanMaster // reference reading of the latest usable probe text, nil when it is not in the plain form
	haveClean := false
	for _, ev := range strings.Split(strings.TrimPrefix(line, "cluster "), ";") {
		f := strings.Fields(ev)
		if len(f) == 0 {
			continue
		}
		switch f[0] {
		case "M":
			msg, _ := unhx(f[1])
			if alive {
				env.env.ClusterFeed(msg)
				sync()
			}
			if core.VerifClusterPanic() != nil {
				fails = append(fails, fmt.Sprintf("C14: the refresh goroutine panicked on %q: %v", clip(msg), core.VerifClusterPanic()))
			}
			// hashmap.HashMap grows in a background goroutine; read until two reads agree
			st := env.env.ClusterState()
			for tries := 0; tries < 50; tries++ {
				time.Sleep(300 * time.Microsecond)
				st2 := env.env.ClusterState()
				same := len(st2.Servers) == len(st.Servers)
				st = st2
				if same {
					break
				}
			}
			var servers []string
			for _, n := range st.Servers {
				servers = append(servers, showVNode(n))
			}
			sort.Strings(servers)
			var sets []string
			for _, rs := range st.Replicasets {
				var sl []string
				for _, s := range rs[1:] {
					sl = append(sl, hx([]byte(s.Addr)))
				}
				sets = append(sets, hx([]byte(rs[0].Addr))+":"+strings.Join(sl, "+"))
			}
			o := fmt.Sprintf("alive=%d changed=%d servers=%s sets=%s", b2i(alive), b2i(st.Changed), strings.Join(servers, ","), strings.Join(sets, ","))
			outs = append(outs, o)
			usable := len(msg) > 3 && msg[0] == '$' && msg[1] != '-'
			if !alive {
				fails = append(fails, fmt.Sprintf("C14: the refresh goroutine stopped after the probe reply %q; later topology changes can never be adopted", clip(msg)))
			}
			if !usable {
				tags = append(tags, "probe:unusable")
				if prev != "" && o[strings.Index(o, "servers="):] != prev[strings.Index(prev, "servers="):] && alive {
					fails = append(fails, fmt.Sprintf("C14: an unusable probe reply %q changed the published topology", clip(msg)))
				}
			} else {
				tags = append(tags, "probe:text")
				if st.Changed {
					tags = append(tags, "changed")
				}
				// the text between the bulk header and the trailing CRLF
				if lf := strings.Index(string(msg), "\n"); lf > 0 && len(msg) >= lf+3 {
					lastClean, haveClean = cleanTopo(string(msg[lf+1 : len(msg)-2]))
					if haveClean {
						tags = append(tags, "probe:clean-text")
					}
				} else {
					haveClean = false
				}
			}
			prev = o
		case "K":
			st := env.env.ClusterState()
			if !st.Changed {
				env.env.Ticker()
				outs = append(outs, "tick unchanged")
				tags = append(tags, "tick:unchanged")
				continue
			}
			func() {
				defer func() {
					if r := recover(); r != nil {
						fails = append(fails, fmt.Sprintf("C14: the ticker panicked while rebuilding the slot table: %v", r))
						outs = append(outs, "tick PANIC")
					}
				}()
				env.env.Ticker()
			}()
			var pools []string
			for a, p := range core.EngineGlobal.ProxyPool {
				pools = append(pools, fmt.Sprintf("%s/%d", hx([]byte(a)), b2i(p.VerifIsSlave())))
			}
			sort.Strings(pools)
			var runs []string
			cur, cnt := "", 0
			for s := 0; s < 16384; s++ {
				m, sl, ok := env.env.SlotOwner(int32(s))
				o := "-"
				if ok {
					var hs []string
					for _, a := range sl {
						hs = append(hs, hx([]byte(a)))
					}
					o = hx([]byte(m)) + "~" + strings.Join(hs, "+")
				}
				if o == cur {
					cnt++
				} else {
					if cnt > 0 {
						runs = append(runs, fmt.Sprintf("%sx%d", cur, cnt))
					}
					cur, cnt = o, 1
				}
			}
			runs = append(runs, fmt.Sprintf("%sx%d", cur, cnt))
			outs = append(outs, fmt.Sprintf("tick pools=%s table=%s", strings.Join(pools, ","), strings.Join(runs, ",")))
			tags = append(tags, "tick:rebuilt")
			if haveClean && alive {
				tags = append(tags, "table-checked")
				fails = append(fails, checkTable(env, lastClean)...)
			}
		}
	}
	// Let the refresh goroutine settle back into its receive on THIS engine's channel before the
	// engine is replaced by the next case: it re-reads EngineGlobal.clusterChan on every iteration
	// and would otherwise steal the next case's probe replies.
	sync()
	if alive {
		// end the goroutine (see above) and wait for it
		atomic.StoreInt32(&endOfCase, 1)
		for attempt := 0; attempt < 4; attempt++ {
			env.env.ClusterFeed(markerMsg)
			select {
			case <-done:
				attempt = 4
			case <-time.After(2 * time.Second):
			}
		}
		core.VerifResetClusterPanic()
	}
	time.Sleep(time.Millisecond)
	return strings.Join(outs, " | "), strings.Join(fails, " | "), tags
}

func (clusterView) Shrink(line string) []string {
	evs := strings.Split(strings.TrimPrefix(line, "cluster "), ";")
	var res []string
	for i := len(evs) - 1; i >= 0; i-- {
		c := append(append([]string{}, evs[:i]...), evs[i+1:]...)
		res = append(res, "cluster "+strings.Join(c, ";"))
	}
	return res
}
