import RcVerif.Model.Inst
import RcVerif.Model.CDecode
import RcVerif.Spec.KeySlot
/-
  Line-protocol driver: one request per input line, one canonical answer per
  output line. Core-only, compiled as `rcdriver`.
-/
open RcVerif

def sortBySlot {α} (l : List (Nat × α)) : List (Nat × α) :=
  (l.toArray.qsort (fun a b => a.1 < b.1)).toList

def showFrags (l : List (Nat × Bytes)) : String :=
  String.intercalate "," ((sortBySlot l).map (fun p => s!"{p.1}:{hexOrDash p.2}"))

def showKeys (l : List Bytes) : String :=
  String.intercalate "," (l.map hexOrDash)

def stepLine (line : String) : String :=
  match (line.trimAscii.toString.splitOn " ").filter (· ≠ "") with
  | ["hash", k] =>
    match fromHex k with
    | some key => s!"{goSlot key}"
    | none => "bad-op"
  | ["spec-slot", k] =>
    match fromHex k with
    | some key => s!"{Spec.keySlot key}"
    | none => "bad-op"
  | ["cdecode", lim, d] =>
    match lim.toNat?, fromHex d with
    | some limit, some view =>
      match CDecode.decode goTables goSlot limit view with
      | .incomplete => "incomplete"
      | .invalid => "invalid"
      | .panic => "PANIC"
      | .ok m n => s!"ok type={m.type} consumed={n} key={hexOrDash m.key} keys={showKeys m.keys} frags={showFrags m.frags}"
    | _, _ => "bad-op"
  | _ => "bad-op"

partial def loop (h : IO.FS.Stream) (out : IO.FS.Stream) : IO Unit := do
  let line ← h.getLine
  if line.isEmpty then return ()
  out.putStrLn (stepLine line)
  loop h out

def main : IO Unit := do
  let out ← IO.getStdout
  loop (← IO.getStdin) out
  out.flush
