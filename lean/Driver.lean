import RcVerif.Model.Inst
import RcVerif.Model.CDecode
import RcVerif.Spec.KeySlot
import RcVerif.Model.SimInst
import RcVerif.Model.Route
import RcVerif.Model.Cluster
import RcVerif.Model.Handover
import RcVerif.Model.AuthIp
import RcVerif.Model.Elastic
import RcVerif.Model.ConnIO
import RcVerif.Model.PoolBan
import RcVerif.Model.ConnIn
/-
  Line-protocol driver: one request per input line, one canonical answer per
  output line. Core-only, compiled as `rcdriver`.
-/
open RcVerif

def sortBySlot {α} (l : List (Nat × α)) : List (Nat × α) :=
  (l.toArray.qsort (fun a b => a.1 < b.1)).toList

def showFrags (l : List (Nat × Bytes)) : String :=
  String.intercalate "," ((sortBySlot l).map (fun p => s!"{p.1}:{hexOrDash p.2}"))

def showKeys (l : List Bytes) : String :=
  String.intercalate "," (l.map hexOrDash)

/-! ### sim: `sim <cfg> | <topo> | ev ; ev ; ...` (concrete events with choices) -/

def kv (tok : String) : String × String :=
  match tok.splitOn "=" with
  | [k, v] => (k, v)
  | _ => (tok, "")

def parseCfg (s : String) : Option Sim.Cfg := do
  let toks := (s.splitOn " ").filter (· ≠ "")
  let get (k : String) : Option String := (toks.map kv).lookup k
  let limit ← (← get "limit").toNat?
  let timeout ← (← get "timeout").toNat?
  let pw ← fromHex (← get "pw")
  let noslave ← (← get "noslave").toNat?
  let conns ← (← get "conns").toNat?
  pure { limit := limit, timeout := timeout != 0, passwd := pw, disableSlave := noslave != 0, maxActive := conns }

/-- topology items separated by ',' : `P addrhex isSlave` | `R lo hi masterhex slavehex+slavehex` -/
def parseTopo (s : String) : Option (List (Bytes × Bool) × List (Nat × Nat × Sim.RSet)) :=
  ((s.splitOn ",").map (fun it => (it.splitOn " ").filter (· ≠ ""))).foldlM (fun (acc : List (Bytes × Bool) × List (Nat × Nat × Sim.RSet)) it =>
    match it with
    | [] => some acc
    | ["P", a, sl] => do
      let addr ← fromHex a
      pure (acc.1 ++ [(addr, sl != "0")], acc.2)
    | ["R", lo, hi, m, sl] => do
      let lo ← lo.toNat?
      let hi ← hi.toNat?
      let m ← fromHex m
      let slaves ← if sl = "-" then some [] else (sl.splitOn "+").mapM fromHex
      pure (acc.1, acc.2 ++ [(lo, hi, { master := m, slaves := slaves })])
    | _ => none) ([], [])

def parseChoices (s : String) : Option (List Sim.ReqChoice) :=
  if s = "-" then some [] else
  (s.splitOn "/").mapM (fun rc =>
    if rc = "_" then some { visit := [] } else do
      let vs ← (rc.splitOn ",").mapM (fun v =>
        match v.splitOn "@" with
        | [sl, a] => do
          let sl ← sl.toNat?
          let a ← fromHex a
          pure (sl, a)
        | _ => none)
      pure { visit := vs })

def parseEvent (s : String) : Option Sim.Event :=
  match (s.splitOn " ").filter (· ≠ "") with
  | ["C", adm] => some (.connect (adm != "0"))
  | ["c", i, d, ch] => do
    let i ← i.toNat?
    let d ← fromHex d
    let ch ← parseChoices ch
    pure (.clientBytes i d ch)
  | ["x", i] => do pure (.clientClose (← i.toNat?))
  | ["T"] => some .runTasks
  | ["S", j, d] => do
    let j ← j.toNat?
    let d ← fromHex d
    pure (.backendBytes j d)
  | ["X", j] => do pure (.backendClose (← j.toNat?))
  | ["E"] => some (.expire 1000000000)
  | ["E", n] => n.toNat?.map (fun k => .expire k)
  | ["K", p] => do pure (.poolRemove (← p.toNat?))
  | _ => none

def simInit (cfg : Sim.Cfg) (pools : List (Bytes × Bool)) (table : List (Nat × Nat × Sim.RSet)) : Sim.State :=
  Sim.init goStrs cfg pools table

def showSim (s : Sim.State) : String :=
  let cs := s.clients.map (fun c => s!"{if c.opened then "o" else "x"}:{hexOrDash c.out}")
  let bs := s.backends.map (fun b => s!"{toHex b.addr}:{if b.opened then "o" else "x"}:{hexOrDash b.out}")
  let fl := match s.flag with | some f => f | none => "ok"
  s!"flag={fl} clients={String.intercalate "," cs} backends={String.intercalate "," bs}"

def simLine (rest : String) : String :=
  match rest.splitOn "|" with
  | [cfgS, topoS, evS] =>
    match parseCfg cfgS, parseTopo topoS with
    | some cfg, some (pools, table) =>
      let evs := ((evS.splitOn ";").map String.trimAscii).map (·.toString) |>.filter (· ≠ "")
      match evs.mapM parseEvent with
      | some es =>
        let s0 := simInit cfg pools table
        -- snapshot of the output lengths after each event
        let (sN, snaps) := es.foldl (fun (acc : Sim.State × List String) e =>
          let s' := Sim.step goTables goStrs cfg goSlot acc.1 e
          let snap := String.intercalate "." (s'.clients.map (fun c => toString c.out.length)) ++ "/" ++
                      String.intercalate "." (s'.backends.map (fun b => toString b.out.length))
          (s', acc.2 ++ [snap])) (s0, [])
        showSim sN ++ " trace=" ++ String.intercalate ";" snaps
      | none => "bad-op events"
    | _, _ => "bad-op cfg"
  | _ => "bad-op shape"

/-! ### route: `route noslave=<0/1> | <topo> | <type> <slot> <draw>` -/
def routeLine (rest : String) : String :=
  match rest.splitOn "|" with
  | [cfgS, topoS, qS] =>
    let noslave := (cfgS.splitOn "noslave=1").length > 1
    match parseTopo topoS, (qS.splitOn " ").filter (· ≠ "") with
    | some (pools, table), [ty, slot, draw] =>
      match ty.toNat?, slot.toNat?, draw.toNat? with
      | some ty, some slot, some draw =>
        match Sim.slotOwner table slot with
        | none => "unowned"
        | some rs =>
          let hasPool := fun a => pools.any (fun p => p.1 = a)
          let rs' : Route.RSet := { master := rs.master, slaves := rs.slaves }
          let (a, sl) := Route.route goTables noslave hasPool ty rs' draw
          let cands := if Route.masterOnly goTables noslave ty then [] else Route.candidates hasPool rs'
          s!"addr={hexOrDash a} slave={if sl then 1 else 0} cands={String.intercalate "," (cands.map hexOrDash)}"
      | _, _, _ => "bad-op"
    | _, _ => "bad-op"
  | _ => "bad-op"

/-! ### cluster: `cluster ev ; ev ...` with `M <hex>` (probe reply) and `K` (tick) -/

/-- INFO of a newly seen node, derived from the last digit of its address (shared with the harness):
    ...7 loading, ...8 master link down, ...9 unreachable, anything else healthy -/
def clusterInfo (addr : Bytes) : Option Cluster.Info :=
  match addr.getLast? with
  | some 57 => none
  | some 55 => some { loading := true, linkUp := true }
  | some 56 => some { loading := false, linkUp := false }
  | _ => some { loading := false, linkUp := true }

def showNode (n : Cluster.Node) : String :=
  s!"{toHex n.addr}/{if n.isSlave then 1 else 0}/{hexOrDash n.name}/{hexOrDash n.masterId}/" ++
    String.intercalate "+" (n.slots.map (fun r => s!"{r.1}-{r.2}"))

def showRState (st : Cluster.RState) : String :=
  let servers := (st.servers.map showNode).toArray.qsort (· < ·) |>.toList
  let sets := st.sets.map (fun p => toHex p.1.addr ++ ":" ++ String.intercalate "+" (p.2.map (fun n => toHex n.addr)))
  s!"alive={if st.alive then 1 else 0} changed={if st.changed then 1 else 0} servers={String.intercalate "," servers} sets={String.intercalate "," sets}"

/-- run-length encoding of the slot table -/
def showTable (sets : List (Cluster.Node × List Cluster.Node)) (nslots : Nat) : String :=
  let owners := (List.range nslots).map (fun s => match Cluster.slotTable sets s with
    | some p => toHex p.1.addr ++ "~" ++ String.intercalate "+" (p.2.map (fun n => toHex n.addr))
    | none => "-")
  let runs := owners.foldl (fun (acc : List (String × Nat)) o =>
    match acc with
    | (o', n) :: rest => if o = o' then (o', n + 1) :: rest else (o, 1) :: (o', n) :: rest
    | [] => [(o, 1)]) []
  String.intercalate "," (runs.reverse.map (fun r => s!"{r.1}x{r.2}"))

def clusterLine (rest : String) : String :=
  let evs := ((rest.splitOn ";").map String.trimAscii).map (·.toString) |>.filter (· ≠ "")
  let (_, _, outs) := evs.foldl (fun (acc : Cluster.RState × List (Cluster.Node × List Cluster.Node) × List String) ev =>
    let (st, tbl, outs) := acc
    match (ev.splitOn " ").filter (· ≠ "") with
    | ["M", h] =>
      match fromHex h with
      | some msg =>
        let st' := Cluster.onProbeReply Gen.redisClusterSlots clusterInfo st msg
        (st', tbl, outs ++ [showRState st'])
      | none => (st, tbl, outs ++ ["bad-op"])
    | ["K"] =>
      if st.changed then
        let st' := { st with changed := false }
        let pools := (Cluster.poolsAfterTick st').map (fun p => s!"{toHex p.1}/{if p.2 then 1 else 0}") |>.toArray.qsort (· < ·) |>.toList
        (st', st.sets, outs ++ [s!"tick pools={String.intercalate "," pools} table={showTable st.sets Gen.redisClusterSlots}"])
      else (st, tbl, outs ++ ["tick unchanged"])
    | _ => (st, tbl, outs ++ ["bad-op"])) (({} : Cluster.RState), [], [])
  String.intercalate " | " outs

/-! ### handover: `handover ev ; ev ...` - the hand-over model at the points where the view can hold the real
    goroutine / the real ticker: `M <hex>` (reply taken, goroutine runs to the end), `Mh <hex>` (held after
    `setServer`), `Gc` (released), `K` (a whole tick), `Kh` (held after the flag test), `Ka <0|1>` (held inside the
    add loop, the removal loop is over - or, `0`, not held: nothing to add), `Kc` (released) -/
def showHandover (s : Handover.MState) : String :=
  let servers := (s.r.servers.map showNode).toArray.qsort (· < ·) |>.toList
  let sets := s.r.sets.map (fun p => toHex p.1.addr ++ ":" ++ String.intercalate "+" (p.2.map (fun n => toHex n.addr)))
  let settled := s.gpc == .idle && s.tpc == .idle && !s.r.changed
  let view := if settled then
      let pools := (s.pools.map (fun p => s!"{toHex p.1}/{if p.2 then 1 else 0}")).toArray.qsort (· < ·) |>.toList
      s!"pools={String.intercalate "," pools} table={showTable s.table Gen.redisClusterSlots}"
    else "-"
  s!"g={if s.gpc == .idle then "idle" else "held"} t={if s.tpc == .idle then "idle" else "held"} changed={if s.r.changed then 1 else 0} servers={String.intercalate "," servers} sets={String.intercalate "," sets} view={view}"

def handoverLine (rest : String) : String :=
  let evs := ((rest.splitOn ";").map String.trimAscii).map (·.toString) |>.filter (· ≠ "")
  let rf := Handover.resetFirstNow
  let go (s : Handover.MState) (es : List Handover.Ev) : Handover.MState :=
    Handover.run Gen.redisClusterSlots clusterInfo rf s es
  let (_, outs) := evs.foldl (fun (acc : Handover.MState × List String) ev =>
    let (s, outs) := acc
    let r : Option Handover.MState :=
      match (ev.splitOn " ").filter (· ≠ "") with
      | ["M", h] => if s.gpc != .idle then none else (fromHex h).map (fun msg => go s [.deliver msg, .g, .g, .g, .g])
      | ["Mh", h] => if s.gpc != .idle then none else (fromHex h).map (fun msg => go s [.deliver msg, .g, .g])
      | ["Gc"] => some (go s [.g, .g, .g, .g])
      | ["K"] => if s.tpc != .idle then none else some (go s [.tick, .t, .t, .t, .t])
      | ["Kh"] => if s.tpc != .idle then none else some (go s [.tick])
      | ["Ka", held] =>
        if s.tpc != .idle then none else
        -- the view says whether the ticker was held at a pool it had to create (`1`) or ran to its end (`0`);
        -- a held ticker must have found the flag raised
        if held == "1" then
          let s1 := go s [.tick, .t]
          if s1.tpc == .add then some s1 else none
        else some (go s [.tick, .t, .t, .t, .t])
      | ["Kc"] => some (go s [.t, .t, .t, .t])
      | _ => none
    match r with
    | some s' => (s', outs ++ [showHandover s'])
    | none => (s, outs ++ ["bad-op"])) (({} : Handover.MState), [])
  String.intercalate " | " outs

/-! ### authip: `authip ev ; ev ...` with `W <0/1> <ip,ip|->`, `B` (unreadable), `D` (deleted), `V <ip>`, `A <remote>` -/
def authipLine (rest : String) : String :=
  let evs := ((rest.splitOn ";").map String.trimAscii).map (·.toString) |>.filter (· ≠ "")
  let (_, outs) := evs.foldl (fun (acc : AuthIp.WL × List String) ev =>
    let (w, outs) := acc
    match (ev.splitOn " ").filter (· ≠ "") with
    | ["W", en, l] =>
      match (if l = "-" then some [] else (l.splitOn ",").mapM fromHex) with
      | some ips => (AuthIp.reload w (some { enable := en != "0", list := ips }), outs ++ ["ok"])
      | none => (w, outs ++ ["bad-op"])
    | ["B"] => (AuthIp.reload w none, outs ++ ["err"])
    | ["D"] => (AuthIp.reload w none, outs ++ ["err"])
    | ["V", ip] =>
      match fromHex ip with
      | some b => (w, outs ++ [if AuthIp.validate w b then "1" else "0"])
      | none => (w, outs ++ ["bad-op"])
    | ["A", r] =>
      match fromHex r with
      | some b => (w, outs ++ [if AuthIp.admits w b then "admit" else "reject"])
      | none => (w, outs ++ ["bad-op"])
    | _ => (w, outs ++ ["bad-op"])) (({} : AuthIp.WL), [])
  String.intercalate " " outs

/-! ### buffers: `ring <size> | op ; op ...`, `llist | op ; ...`, `elastic <maxStatic> | op ; ...`
    Written bytes come from one per-case stream (byte k of the case is `k % 251`); read / peeked bytes are
    reported as a digest `len:first:weighted-sum`. -/

def streamBytes (start len : Nat) : Bytes := (List.range len).map (fun i => UInt8.ofNat ((start + i) % 251))

def digest (b : Bytes) : String :=
  let first := match b with | x :: _ => x.toNat | [] => 0
  let (_, sum) := b.foldl (fun (acc : Nat × Nat) x => (acc.1 + 1, (acc.2 + acc.1 * x.toNat) % 65521)) (1, 0)
  s!"{b.length}:{first}:{sum}"

def parseInt (s : String) : Option Int :=
  if s.startsWith "-" then (s.drop 1).toString.toNat?.map (fun n => -(n : Int)) else s.toNat?.map (fun n => (n : Int))

def b01 (b : Bool) : String := if b then "1" else "0"

def ringSummary (rb : Ring.Ring) : String :=
  s!"[{Ring.buffered rb} {Ring.available rb} {rb.size} {rb.buf.length} {b01 rb.isEmpty} {b01 (Ring.isFull rb)}]"

def splitOps (s : String) : List (List String) :=
  (((s.splitOn ";").map String.trimAscii).map (·.toString) |>.filter (· ≠ "")).map (fun ev => (ev.splitOn " ").filter (· ≠ ""))

def ringLine (rest : String) : String :=
  match rest.splitOn "|" with
  | [hd, ops] =>
    match hd.trimAscii.toString.toNat? with
    | none => "bad-op"
    | some size =>
      let (_, _, outs) := (splitOps ops).foldl (fun (acc : Ring.Ring × Nat × List String) op =>
        let (rb, k, outs) := acc
        match op with
        | ["w", l] => match l.toNat? with
          | some l => let rb' := Ring.write rb (streamBytes k l); (rb', k + l, outs ++ [ringSummary rb'])
          | none => (rb, k, outs ++ ["bad-op"])
        | ["b"] => let rb' := Ring.writeByte rb (UInt8.ofNat (k % 251)); (rb', k + 1, outs ++ [ringSummary rb'])
        | ["p", n] => match parseInt n with
          | some n => let (h, t) := Ring.peek rb n; (rb, k, outs ++ [s!"{digest h}/{digest t} {ringSummary rb}"])
          | none => (rb, k, outs ++ ["bad-op"])
        | ["d", n] => match parseInt n with
          | some n => let (rb', d) := Ring.discard rb n; (rb', k, outs ++ [s!"{d} {ringSummary rb'}"])
          | none => (rb, k, outs ++ ["bad-op"])
        | ["r", n] => match n.toNat? with
          | some n => let (rb', out, err) := Ring.read rb n; (rb', k, outs ++ [s!"{digest out}/{b01 err} {ringSummary rb'}"])
          | none => (rb, k, outs ++ ["bad-op"])
        | ["rb"] => let (rb', b) := Ring.readByte rb
                    (rb', k, outs ++ [s!"{match b with | some x => toString x.toNat | none => "-"} {ringSummary rb'}"])
        | ["bytes"] => (rb, k, outs ++ [s!"{digest (Ring.content rb)} {ringSummary rb}"])
        | ["reset"] => let rb' := Ring.reset rb; (rb', k, outs ++ [ringSummary rb'])
        | _ => (rb, k, outs ++ ["bad-op"])) (Ring.new size, 0, [])
      String.intercalate " | " outs
  | _ => "bad-op"

def llSummary (l : LList.LL) : String := s!"[{l.bytes} {l.size} {b01 (LList.isEmpty l)}]"

def digests (l : List Bytes) : String := String.intercalate "," (l.map digest)

def parseLens (s : String) : Option (List Nat) := if s = "-" then some [] else (s.splitOn ",").mapM String.toNat?

/-- cut the next `lens` slices off the stream -/
def streamSlices (k : Nat) (lens : List Nat) : List Bytes × Nat :=
  lens.foldl (fun (acc : List Bytes × Nat) l => (acc.1 ++ [streamBytes acc.2 l], acc.2 + l)) ([], k)

def llistLine (rest : String) : String :=
  let ops := match rest.splitOn "|" with | [_, ops] => ops | _ => rest
  let (_, _, outs) := (splitOps ops).foldl (fun (acc : LList.LL × Nat × List String) op =>
    let (l, k, outs) := acc
    match op with
    | ["w", n] => match n.toNat? with
      | some n => let l' := LList.pushBack l (streamBytes k n); (l', k + n, outs ++ [llSummary l'])
      | none => (l, k, outs ++ ["bad-op"])
    | ["f", n] => match n.toNat? with
      | some n => let l' := LList.pushFront l (streamBytes k n); (l', k + n, outs ++ [llSummary l'])
      | none => (l, k, outs ++ ["bad-op"])
    | ["p", n] => match parseInt n with
      | some n => (l, k, outs ++ [s!"{digests (LList.peek l n)} {llSummary l}"])
      | none => (l, k, outs ++ ["bad-op"])
    | ["pw", n, lens] => match parseInt n, parseLens lens with
      | some n, some lens =>
        let (bs, _) := streamSlices 100000 lens
        (l, k, outs ++ [s!"{digests (LList.peekWithBytes l n bs)} {llSummary l}"])
      | _, _ => (l, k, outs ++ ["bad-op"])
    | ["d", n] => match parseInt n with
      | some n => let (l', d) := LList.discard l n; (l', k, outs ++ [s!"{d} {llSummary l'}"])
      | none => (l, k, outs ++ ["bad-op"])
    | ["r", n] => match n.toNat? with
      | some n => let (l', out) := LList.read l n; (l', k, outs ++ [s!"{digest out} {llSummary l'}"])
      | none => (l, k, outs ++ ["bad-op"])
    | ["reset"] => (LList.reset l, k, outs ++ [llSummary (LList.reset l)])
    | _ => (l, k, outs ++ ["bad-op"])) (({} : LList.LL), 0, [])
  String.intercalate " | " outs

def eringSummary (e : Elastic.ERing) : String :=
  s!"{e.buffered} {e.len} {e.cap} {e.available} {b01 e.isEmpty}"

def elasticSummary (a : Elastic.EBuf) (r : Elastic.ERing) : String :=
  s!"[A {a.buffered} {b01 a.isEmpty} R {eringSummary r}]"

structure EState where
  pool : Elastic.Pool := {}
  a : Elastic.EBuf
  r : Elastic.ERing := {}
  k : Nat := 0

def elasticLine (rest : String) : String :=
  match rest.splitOn "|" with
  | [hd, ops] =>
    match hd.trimAscii.toString.toNat? with
    | none => "bad-op"
    | some maxStatic =>
      let (_, outs) := (splitOps ops).foldl (fun (acc : EState × List String) op =>
        let (st, outs) := acc
        let fin (st' : EState) (o : String) : EState × List String :=
          (st', outs ++ [(if o = "" then "" else o ++ " ") ++ elasticSummary st'.a st'.r])
        match op with
        | ["w", n] => match n.toNat? with
          | some n => let (pool, a) := st.a.write st.pool (streamBytes st.k n); fin { st with pool := pool, a := a, k := st.k + n } ""
          | none => (st, outs ++ ["bad-op"])
        | ["v", lens] => match parseLens lens with
          | some lens =>
            let (bs, k') := streamSlices st.k lens
            let (pool, a) := st.a.writev st.pool bs
            fin { st with pool := pool, a := a, k := k' } ""
          | none => (st, outs ++ ["bad-op"])
        | ["p", n] => match parseInt n with
          | some n => fin st (digests (st.a.peek n))
          | none => (st, outs ++ ["bad-op"])
        | ["d", n] => match parseInt n with
          | some n => let (pool, a, d) := st.a.discard st.pool n; fin { st with pool := pool, a := a } s!"{d}"
          | none => (st, outs ++ ["bad-op"])
        | ["r", n] => match n.toNat? with
          | some n => let (pool, a, out) := st.a.read st.pool n; fin { st with pool := pool, a := a } (digest out)
          | none => (st, outs ++ ["bad-op"])
        | ["reset", n] => match parseInt n with
          | some n => fin { st with a := st.a.reset n } ""
          | none => (st, outs ++ ["bad-op"])
        | ["release"] => let (pool, a) := st.a.release st.pool; fin { st with pool := pool, a := a } ""
        | ["Rw", n] => match n.toNat? with
          | some n => let (pool, r) := st.r.write st.pool (streamBytes st.k n); fin { st with pool := pool, r := r, k := st.k + n } ""
          | none => (st, outs ++ ["bad-op"])
        | ["Rp", n] => match parseInt n with
          | some n => let (h, t) := st.r.peek n; fin st s!"{digest h}/{digest t}"
          | none => (st, outs ++ ["bad-op"])
        | ["Rd", n] => match parseInt n with
          | some n => let (pool, r, d, err) := st.r.discard st.pool n; fin { st with pool := pool, r := r } s!"{d}/{b01 err}"
          | none => (st, outs ++ ["bad-op"])
        | ["Rr", n] => match n.toNat? with
          | some n => let (pool, r, out, err) := st.r.read st.pool n; fin { st with pool := pool, r := r } s!"{digest out}/{b01 err}"
          | none => (st, outs ++ ["bad-op"])
        | ["Rreset"] => fin { st with r := st.r.reset } ""
        | ["Rdone"] => let (pool, r) := st.r.release st.pool; fin { st with pool := pool, r := r } ""
        | _ => (st, outs ++ ["bad-op"])) (({ a := { maxStatic := maxStatic } } : EState), [])
      String.intercalate " | " outs
  | _ => "bad-op"

/-! ### connio: `connio <maxStatic> | v l1,l2 a=K ; w l a=K ; f a=K ; q l1,l2 ; t a=K ; end` (K = bytes the kernel accepted) -/
def parseAcc (tok : String) : Option Nat :=
  if tok.startsWith "a=" then (tok.drop 2).toString.toNat? else none

def connioLine (rest : String) : String :=
  match rest.splitOn "|" with
  | [hd, ops] =>
    match hd.trimAscii.toString.toNat? with
    | none => "bad-op"
    | some maxStatic =>
      let init : Elastic.Pool × ConnIO.Conn × Nat × List String := ({}, { out := { maxStatic := maxStatic } }, 0, [])
      let (_, _, _, outs) := (splitOps ops).foldl (fun (acc : Elastic.Pool × ConnIO.Conn × Nat × List String) op =>
        let (pool, c, k, outs) := acc
        let fin (pool' : Elastic.Pool) (c' : ConnIO.Conn) (k' : Nat) :=
          (pool', c', k', outs ++ [s!"[{c'.out.buffered} {c'.wire.length}]"])
        match op with
        | ["v", lens, a] => match parseLens lens, parseAcc a with
          | some lens, some a =>
            let (bs, k') := streamSlices k lens
            let (pool', c') := ConnIO.writev pool c bs a
            fin pool' c' k'
          | _, _ => (pool, c, k, outs ++ ["bad-op"])
        | ["w", l, a] => match l.toNat?, parseAcc a with
          | some l, some a =>
            let (pool', c') := ConnIO.write pool c (streamBytes k l) a
            fin pool' c' (k + l)
          | _, _ => (pool, c, k, outs ++ ["bad-op"])
        | ["f", a] => match parseAcc a with
          | some a => let (pool', c') := ConnIO.flush pool c a; fin pool' c' k
          | none => (pool, c, k, outs ++ ["bad-op"])
        | ["q", lens] => match parseLens lens with
          | some lens =>
            -- `EnqueueOutFrag` for each request: nothing is written before the write signal runs
            let (bs, k') := streamSlices k lens
            fin pool (bs.foldl ConnIO.enqueue c) k'
          | none => (pool, c, k, outs ++ ["bad-op"])
        | ["t", a] => match parseAcc a with
          | some a => let (pool', c') := ConnIO.writeSignal pool c [a]; fin pool' c' k
          | none => (pool, c, k, outs ++ ["bad-op"])
        | ["end"] => (pool, c, k, outs ++ [s!"stream {digest c.wire}"])
        | _ => (pool, c, k, outs ++ ["bad-op"])) init
      String.intercalate " | " outs
  | _ => "bad-op"

/-! ### pool: `pool m=<maxActive> rep=<0|1> | g p ; l c ; d p ok ; R p ; C p ; S p b ; r ; w` -/
def poolSummary (s : PoolBan.St) : String :=
  let ps := s.pools.map (fun p => s!"{p.active.length} {p.order} {b01 p.flag} {p.banUnits} {b01 p.closed} {b01 p.isSlave}")
  let opened := (List.range s.conns.length).filter (PoolBan.isOpen s.conns)
  "[" ++ String.intercalate "|" ps ++ "] open=" ++ String.intercalate "," (opened.map toString)

def poolLine (rest : String) : String :=
  match rest.splitOn "|" with
  | [hd, ops] =>
    let toks := (hd.trimAscii.toString.splitOn " ").filter (· ≠ "")
    let m := toks.findSome? (fun t => if t.startsWith "m=" then (t.drop 2).toString.toNat? else none)
    let rep := toks.findSome? (fun t => if t.startsWith "rep=" then (t.drop 4).toString.toNat? else none)
    match m, rep with
    | some m, some rep =>
      if m < 1 ∨ rep > 1 then "bad-op" else
      let (_, outs, bad) := (splitOps ops).foldl (fun (acc : PoolBan.St × List String × Bool) op =>
        let (s, outs, bad) := acc
        let fin (s' : PoolBan.St) (res : String) := (s', outs ++ [res ++ " " ++ poolSummary s'], bad)
        let showGet (r : Option Nat) := match r with | some c => s!"c{c}" | none => "nil"
        let showReq (o : PoolBan.Served) := match o with
          | .fwd c => s!"fwd c{c}"
          | .lost _ => "err " ++ hexOrDash Gen.strErrBackendClosed
          | .err => "err " ++ hexOrDash Gen.strErrUnKnownProxyPoolConnError
        match op with
        | ["g", p] => match p.toNat? with
          | some p => let (s', r) := PoolBan.get s p; fin s' (showGet r)
          | none => (s, outs, true)
        | ["l", c] => match c.toNat? with
          | some c => fin (PoolBan.lose s c) "-"
          | none => (s, outs, true)
        | ["v", c] => match c.toNat? with
          | some c => fin (PoolBan.vanish s c) "-"
          | none => (s, outs, true)
        | ["e", p] => match p.toNat? with
          | some p => fin (PoolBan.expire s p) "-"
          | none => (s, outs, true)
        | ["d", p, ok] => match p.toNat? with
          | some p => fin (PoolBan.setDial s p (ok != "0")) "-"
          | none => (s, outs, true)
        | ["R", p] => match p.toNat? with
          | some p => fin (PoolBan.release s p) "-"
          | none => (s, outs, true)
        | ["C", p] => match p.toNat? with
          | some p => fin (PoolBan.close s p) "-"
          | none => (s, outs, true)
        | ["S", p, b] => match p.toNat? with
          | some p => fin (PoolBan.setIsSlave s p (b == "1")) "-"
          | none => (s, outs, true)
        | ["r"] => let (s', o) := PoolBan.serve s true; fin s' (showReq o)
        | ["w"] => let (s', o) := PoolBan.serve s false; fin s' (showReq o)
        | _ => (s, outs, true)) (PoolBan.init m (rep == 1), [], false)
      if bad then "bad-op" else String.intercalate " ; " outs
    | _, _ => "bad-op"
  | _ => "bad-op"

/-! ### connin: `connin <limit> | <hex chunk> ; b:<hex chunk> ; xa ; xb ; ...` (two clients `a` (default) and `b`
    sharing the ring pool; `x?` = the client closes) -/
structure ConninCl where
  c : ConnIn.InConn := {}
  n : Nat := 0
  closed : Bool := false

def conninLine (rest : String) : String :=
  match rest.splitOn "|" with
  | [hd, chunks] =>
    match hd.trimAscii.toString.toNat? with
    | none => "bad-op"
    | some limit =>
      let toks := ((chunks.splitOn ";").map (fun t => t.trimAscii.toString)).filter (· ≠ "")
      let step := fun (acc : Elastic.Pool × ConninCl × ConninCl × List String × Bool) (tok : String) =>
        let (pool, a, b, outs, bad) := acc
        let isB := tok.startsWith "b:" || tok == "xb"
        let cl := if isB then b else a
        let put := fun (pool' : Elastic.Pool) (cl' : ConninCl) (out : String) =>
          if isB then (pool', a, cl', outs ++ [out], bad) else (pool', cl', b, outs ++ [out], bad)
        if tok == "xa" || tok == "xb" then
          if cl.closed then put pool cl s!"n={cl.n} left=0 open=0"
          else
            let r := cl.c.close pool
            put r.1 { cl with c := r.2, closed := true } s!"n={cl.n} left=0 open=0"
        else
          let hex := if tok.startsWith "b:" then (tok.drop 2).toString else tok
          match fromHex hex with
          | none => (pool, a, b, outs, true)
          | some chunk =>
            if cl.closed then put pool cl s!"n={cl.n} left=0 open=0"
            else
              let r := ConnIn.feed goTables goSlot limit pool cl.c chunk
              let n' := cl.n + r.1.length
              if r.2.2.2 then
                -- invalid input: the proxy closes the connection, its ring goes back to the pool
                let k := r.2.2.1.close r.2.1
                put k.1 { c := k.2, n := n', closed := true } s!"n={n'} left=0 open=0"
              else put r.2.1 { c := r.2.2.1, n := n', closed := false } s!"n={n'} left={r.2.2.1.inb.buffered} open=1"
      let (_, _, _, outs, bad) := toks.foldl step (({} : Elastic.Pool), ({} : ConninCl), ({} : ConninCl), [], false)
      if bad then "bad-op" else String.intercalate " ; " outs
  | _ => "bad-op"

def stepLine (line : String) : String :=
  let line := line.trimAscii.toString
  if line.startsWith "sim " then simLine (line.drop 4).toString else
  if line.startsWith "route " then routeLine (line.drop 6).toString else
  if line.startsWith "cluster " then clusterLine (line.drop 8).toString else
  if line.startsWith "handover " then handoverLine (line.drop 9).toString else
  if line.startsWith "authip " then authipLine (line.drop 7).toString else
  if line.startsWith "ring " then ringLine (line.drop 5).toString else
  if line.startsWith "llist " then llistLine (line.drop 6).toString else
  if line.startsWith "elastic " then elasticLine (line.drop 8).toString else
  if line.startsWith "connio " then connioLine (line.drop 7).toString else
  if line.startsWith "pool " then poolLine (line.drop 5).toString else
  if line.startsWith "connin " then conninLine (line.drop 7).toString else
  match (line.trimAscii.toString.splitOn " ").filter (· ≠ "") with
  | ["monitor", p1, p2] => if Route.monitorCycle (p1 != "0") (p2 != "0") then "banned" else "clear"
  | ["hash", k] =>
    match fromHex k with
    | some key => s!"{goSlot key}"
    | none => "bad-op"
  | ["spec-slot", k] =>
    match fromHex k with
    | some key => s!"{Spec.keySlot key}"
    | none => "bad-op"
  | ["sdecode", d] =>
    match fromHex d with
    | some view =>
      match SDecode.frameReply goTables view with
      | .incomplete => "incomplete"
      | .stuck => "stuck"
      | .ok ty n => s!"ok type={ty} consumed={n}"
    | none => "bad-op"
  | ["sinit", st, d] =>
    match st.toNat?, fromHex d with
    | some steps, some view =>
      match SDecode.initializingDecode steps view with
      | .incomplete => "incomplete"
      | .done n => s!"done {n}"
      | .fallThrough => "fallthrough"
      | .invalidInit => "invalid"
    | _, _ => "bad-op"
  | ["cdecode", lim, d] =>
    match lim.toNat?, fromHex d with
    | some limit, some view =>
      match CDecode.decode goTables goSlot limit view with
      | .incomplete => "incomplete"
      | .invalid => "invalid"
      | .panic => "PANIC"
      | .ok m n => s!"ok type={m.type} consumed={n} key={hexOrDash m.key} keys={showKeys m.keys} frags={showFrags m.frags}"
    | _, _ => "bad-op"
  | _ => "bad-op"

partial def loop (h : IO.FS.Stream) (out : IO.FS.Stream) : IO Unit := do
  let line ← h.getLine
  if line.isEmpty then return ()
  out.putStrLn (stepLine line)
  loop h out

def main : IO Unit := do
  let out ← IO.getStdout
  loop (← IO.getStdin) out
  out.flush
