import RcVerif.Gen.Tables
import RcVerif.Model.Basic
import RcVerif.Model.Hash
import RcVerif.Model.Resp
import RcVerif.Model.Commands
import RcVerif.Model.CDecode
import RcVerif.Spec.KeySlot
