import RcVerif.Lemmas.SimBack
import RcVerif.Props.C01
/-
  C10 — requests from one client reach each node in the order sent.

  Stated over ALL histories of the event-loop machine (`Sim.run` from `Sim.init`): any number of clients,
  any interleaving of client reads, write signals, backend replies, redirects, closes and expiries, and any
  admissible routing choice. For every redis connection the proxy ever opened:

   * the byte stream written to it is its handshake followed by the request bytes of the fragments written,
     in the order they were queued (`EnqueueOutFrag` order): the write signal drains head-first, nothing overtakes;
   * the order in which replies are matched (`inFragQueue`) is that same written order;
   * the fragments queued directly by one client's requests appear in that queue in request order, and each
     is a fragment of the request it is numbered after.

  "One connection per node" (`maxActive = 1`): `C10_one_connection` shows `Pool.Get` keeps returning the one
  open connection, so per-connection order is per-node order.
-/
namespace RcVerif.Props.C10
open RcVerif RcVerif.Sim RcVerif.Lemmas.SimInv RcVerif.Lemmas.SimBack RcVerif.Props.C01

/-- the full statement -/
def C10_statement : Prop :=
  ∀ (cfg : Cfg) (slotFn : Bytes → Nat) (pools : List (Bytes × Bool)) (table : List (Nat × Nat × RSet))
    (es : List Event) (i : Nat) (b : Backend),
    (reach cfg slotFn pools table es).backends[i]? = some b →
      -- what the node received: the handshake, then the written fragments, in written order
      b.out = b.hs ++ (b.sent.map (·.bytes)).flatten ∧
      -- written order is queue order: what was written is a prefix of what was queued ...
      (∃ lost, b.enq = b.sent ++ lost) ∧
      -- ... and on an open connection nothing queued is skipped: the rest is exactly the pending queue
      (b.opened = true → b.enq = b.sent ++ b.outQ) ∧
      -- replies are matched in written order
      (b.opened = true → ∃ answered, b.sent.map (·.ref) = answered ++ b.inQ) ∧
      -- each client's directly queued fragments are in request order
      (∀ c, (numsOf c b.enq).Pairwise (· ≤ ·)) ∧
      -- and each is a fragment of the request it is numbered after
      (∀ e ∈ b.enq, ∀ c n, e.direct = some (c, n) → ∃ id slot r, e.ref = .frag id slot ∧
          (reach cfg slotFn pools table es).msgs[id]? = some r ∧ r.owner = c ∧ r.num = n)

theorem C10 : C10_statement := by
  intro cfg slotFn pools table es i b hb
  have hB := binv_run goTables goStrs cfg slotFn es _ (binv_init goStrs cfg pools table) i b hb
  have hD := dinv_run goTables goStrs cfg slotFn es _ (dinv_init goStrs cfg pools table) i b hb
  refine ⟨hB.stream, hB.pre, hB.queued, hB.await, hD.2, fun e he c n hd => (hD.1 e he c n hd).2⟩

/-- corollary, in terms of positions: of two fragments that requests number `n1 < n2` of one client queued to a
    connection, the earlier request's comes first - so a pipelined write is written to the master's connection
    before the read of the same key that follows it -/
theorem C10_earlier_first (cfg : Cfg) (slotFn : Bytes → Nat) (pools : List (Bytes × Bool)) (table : List (Nat × Nat × RSet))
    (es : List Event) (i : Nat) (b : Backend) (hb : (reach cfg slotFn pools table es).backends[i]? = some b)
    (j k : Nat) (e1 e2 : QEntry) (c n1 n2 : Nat) (h1 : b.enq[j]? = some e1) (h2 : b.enq[k]? = some e2)
    (hd1 : e1.direct = some (c, n1)) (hd2 : e2.direct = some (c, n2)) (hlt : n1 < n2) : j < k := by
  have hp := (C10 cfg slotFn pools table es i b hb).2.2.2.2.1 c
  unfold numsOf at hp
  rw [List.pairwise_filterMap] at hp
  rcases Nat.lt_trichotomy j k with h | h | h
  · exact h
  · subst h; rw [h1] at h2; injection h2 with h2; subst h2
    rw [hd1] at hd2; injection hd2 with hd2; injection hd2 with _ hd2; omega
  · exfalso
    obtain ⟨hk, hk'⟩ := List.getElem?_eq_some_iff.mp h2
    obtain ⟨hj, hj'⟩ := List.getElem?_eq_some_iff.mp h1
    have := (List.pairwise_iff_getElem.mp hp) k j hk hj h
    rw [hk', hj'] at this
    have := this n2 (by simp [hd2]) n1 (by simp [hd1])
    omega

/-- the same order on the wire: the fragments written so far are a prefix of that queue -/
theorem C10_written_in_order (cfg : Cfg) (slotFn : Bytes → Nat) (pools : List (Bytes × Bool)) (table : List (Nat × Nat × RSet))
    (es : List Event) (i : Nat) (b : Backend) (hb : (reach cfg slotFn pools table es).backends[i]? = some b) (c : Nat) :
    (numsOf c b.sent).Pairwise (· ≤ ·) := by
  obtain ⟨_, ⟨lost, hl⟩, _, _, hp, _⟩ := C10 cfg slotFn pools table es i b hb
  have := hp c
  rw [hl, numsOf_append, List.pairwise_append] at this
  exact this.1

/-- one connection per node: while the pool's only connection is open, `Pool.Get` returns it -/
theorem C10_one_connection (S : Strs) (cfg : Cfg) (s : State) (p id : Nat) (pool : Pool) (b : Backend)
    (hmax : cfg.maxActive = 1) (hp : s.pools[p]? = some pool) (ha : pool.active = [id])
    (hb : s.backends[id]? = some b) (ho : b.opened = true) :
    (poolGet S cfg s p).2 = id ∧ (poolGet S cfg s p).1.backends = s.backends := by
  unfold poolGet
  rw [hp]
  simp only [ha, hmax, List.length_cons, List.length_nil, Nat.lt_irrefl, ↓reduceIte]
  simp [rotate, hb, ho]

/- non-vacuity: two clients pipeline SET/GET to one node with interleaved reads; per client the written order is
   the request order. Evaluated by the kernel on the model with the real tables. -/
def exCfg : Cfg := { limit := 1000, timeout := false, passwd := [], disableSlave := true, maxActive := 1 }
def setA : Bytes := [42, 51, 13, 10, 36, 51, 13, 10, 115, 101, 116, 13, 10, 36, 49, 13, 10, 97, 13, 10, 36, 49, 13, 10, 120, 13, 10]
def getA : Bytes := [42, 50, 13, 10, 36, 51, 13, 10, 103, 101, 116, 13, 10, 36, 49, 13, 10, 97, 13, 10]
def ch : ReqChoice := { visit := [(15495, [109])] }
def exEvents : List Event :=
  [.connect true, .connect true,
   .clientBytes 0 (setA ++ getA) [ch, ch],
   .clientBytes 1 getA [ch],
   .runTasks,
   .clientBytes 1 (setA ++ getA) [ch, ch],
   .clientBytes 0 getA [ch],
   .runTasks]
example :
    let s := reach exCfg goSlot [([109], false)] [(0, 16383, { master := [109], slaves := [] })] exEvents
    s.flag = none ∧
    s.backends.map (fun b => (numsOf 0 b.sent, numsOf 1 b.sent)) = [([0, 1, 2], [0, 1, 2])] ∧
    s.backends.map (fun b => b.out) = [setA ++ getA ++ getA ++ setA ++ getA ++ getA] := by
  decide +kernel

end RcVerif.Props.C10
