import RcVerif.Props.C08
import RcVerif.Lemmas.ConnIn
/-
  C08 on the real buffering path. `Props/C08.lean` proves framing independent of segmentation for a read loop
  over "the unconsumed bytes". Here that abstraction is discharged: the loop as the code runs it - `conn.Peek(0)`
  gluing the pooled inbound ring (`elastic.RingBuffer`: the leftover of earlier reads) and the event loop's read
  buffer (the fresh bytes), `conn.Discard(consumed)`, and the store of the unconsumed rest at the end of the
  read event (`Model/ConnIn.lean`) - is a refinement of that abstract loop, for every sequence of chunks, every
  ring state (wrap-around, growth, a ring returned to the pool and taken again) the history produced.
-/
namespace RcVerif.Props.C08
open RcVerif RcVerif.Elastic RcVerif.ConnIn RcVerif.CDecode
open RcVerif.Lemmas.ElasticBuf RcVerif.Lemmas.ConnIn RcVerif.Lemmas.Decode

theorem encodeCmd_length_pos (name : Bytes) (args : List Bytes) : 0 < (encodeCmd name args).length := by
  have := enc_length_pos ⟨name, args⟩
  unfold Req.enc at this
  rw [← encodeCmd_eq_spec] at this
  exact this

/-- the decode loop over `Peek` / `Discard` is the abstract loop over the connection's view -/
theorem C08_conn_drain (slot : Bytes → Nat) (limit : Nat) :
    ∀ (fuel : Nat) (pool : Pool) (c : InConn), PInv pool → EInv c.inb →
      let r := ConnIn.drain goTables slot limit fuel pool c
      let a := drain slot limit fuel c.view
      r.1 = a.1 ∧ r.2.2.2 = a.2.2 ∧ PInv r.2.1 ∧ EInv r.2.2.1.inb ∧
      (a.2.2 = false → r.2.2.1.view = a.2.1) ∧ (c.buf = [] → r.2.2.1.buf = []) := by
  intro fuel
  induction fuel with
  | zero => intro pool c hp he; exact ⟨rfl, rfl, hp, he, fun _ => rfl, id⟩
  | succ fuel ih =>
    intro pool c hp he
    have hpk : c.peek 0 = some c.view := by
      have := peek_spec c he 0 (by omega)
      simpa using this
    cases hd : decode goTables slot limit c.view with
    | incomplete =>
      simp only [ConnIn.drain, drain, hpk, hd]
      and_intros <;> first | trivial | rfl | exact hp | exact he | (intro h; first | rfl | cases h | exact h)
    | invalid =>
      simp only [ConnIn.drain, drain, hpk, hd]
      and_intros <;> first | trivial | rfl | exact hp | exact he | (intro h; first | rfl | cases h | exact h)
    | panic =>
      simp only [ConnIn.drain, drain, hpk, hd]
      and_intros <;> first | trivial | rfl | exact hp | exact he | (intro h; first | rfl | cases h | exact h)
    | ok m n =>
      obtain ⟨name, args, t, hv, _, hn, _⟩ := decode_ok goTables slot limit c.view m n hd
      have hpos : 0 < n := by rw [hn]; exact encodeCmd_length_pos name args
      have hle : n ≤ c.view.length := by rw [hv, hn]; simp
      obtain ⟨d1, d2, d3, d4⟩ := discard_spec pool c hp he n hpos hle
      obtain ⟨i1, i2, i3, i4, i5, i6⟩ := ih (c.discard pool (n : Int)).1 (c.discard pool (n : Int)).2.1 d1 d2
      rw [d3] at i1 i2 i5
      simp only [ConnIn.drain, drain, hpk, hd]
      exact ⟨by rw [i1], i2, i3, i4, i5, fun hb => i6 (d4 hb)⟩

/-- one readable event: the requests handed to the handler, whether the connection is closed, and - when it is
    not - the leftover, are those of the abstract loop on `leftover ++ chunk`; the leftover is in the ring -/
theorem C08_conn_feed (slot : Bytes → Nat) (limit : Nat) (pool : Pool) (c : InConn) (chunk : Bytes)
    (hp : PInv pool) (he : EInv c.inb) (hb : c.buf = []) :
    let r := ConnIn.feed goTables slot limit pool c chunk
    let a := feed slot limit c.view chunk
    r.1 = a.1 ∧ r.2.2.2 = a.2.2 ∧ PInv r.2.1 ∧ EInv r.2.2.1.inb ∧
    (a.2.2 = false → r.2.2.1.view = a.2.1 ∧ r.2.2.1.buf = []) := by
  have hview : ({ c with buf := chunk } : InConn).view = c.view ++ chunk := by
    simp [InConn.view, hb]
  obtain ⟨i1, i2, i3, i4, i5, _⟩ :=
    C08_conn_drain slot limit (({ c with buf := chunk } : InConn).view.length + 1) pool { c with buf := chunk } hp he
  rw [hview] at i1 i2 i3 i4 i5
  simp only [ConnIn.feed, feed]
  rw [hview]
  cases hcl : (ConnIn.drain goTables slot limit ((c.view ++ chunk).length + 1) pool { c with buf := chunk }).2.2.2 with
  | true =>
    rw [hcl] at i2
    simp only [if_true]
    refine ⟨i1, ?_, i3, i4, fun h => ?_⟩
    · rw [hcl]; exact i2
    · rw [← i2] at h; cases h
  | false =>
    rw [hcl] at i2
    simp only [Bool.false_eq_true, if_false]
    obtain ⟨s1, s2, s3, s4⟩ := store_spec _ _ i3 i4
    exact ⟨i1, i2, s1, s2, fun h => ⟨by rw [s3]; exact i5 h, s4⟩⟩

/-- any number of readable events -/
theorem C08_conn_feedAll (slot : Bytes → Nat) (limit : Nat) (chunks : List Bytes) :
    ∀ (pool : Pool) (c : InConn), PInv pool → EInv c.inb → c.buf = [] →
      let r := ConnIn.feedAll goTables slot limit pool c chunks
      let a := feedAll slot limit c.view chunks
      r.1 = a.1 ∧ r.2.2.2 = a.2.2 ∧ (a.2.2 = false → r.2.2.1.view = a.2.1) := by
  induction chunks with
  | nil => intro pool c _ _ _; exact ⟨rfl, rfl, fun _ => rfl⟩
  | cons chunk cs ih =>
    intro pool c hp he hb
    obtain ⟨f1, f2, f3, f4, f5⟩ := C08_conn_feed slot limit pool c chunk hp he hb
    simp only [ConnIn.feedAll, feedAll]
    cases hcl : (feed slot limit c.view chunk).2.2 with
    | true =>
      rw [hcl] at f2
      simp only [f2, hcl, if_true]
      exact ⟨f1, trivial, (fun h => by cases h)⟩
    | false =>
      rw [hcl] at f2
      obtain ⟨v1, v2⟩ := f5 hcl
      obtain ⟨i1, i2, i3⟩ := ih _ _ f3 f4 v2
      rw [v1] at i1 i2 i3
      simp only [f2, hcl, Bool.false_eq_true, if_false]
      exact ⟨by rw [f1, i1], i2, i3⟩

/-- **C08 on the connection**: for every pipeline of valid requests and EVERY way of cutting its bytes into read
    events, a fresh connection (empty inbound ring, empty ring pool) hands the handler exactly the requests, in
    order, is not closed, and ends with nothing left over - through `Peek`, `Discard` and the pooled ring -/
theorem C08_conn_stream (slot : Bytes → Nat) (limit : Nat) (rs : List Req) (hrs : ∀ r ∈ rs, r.Ok)
    (chunks : List Bytes) (h : chunks.flatten = stream rs) :
    let r := ConnIn.feedAll goTables slot limit {} {} chunks
    r.1 = rs.map (Req.msg slot limit) ∧ r.2.2.2 = false ∧ r.2.2.1.view = [] := by
  have he0 : EInv ({} : InConn).inb := fun _ h => by simp at h
  obtain ⟨i1, i2, i3⟩ := C08_conn_feedAll slot limit chunks {} {} pinv_empty he0 rfl
  have hv : ({} : InConn).view = [] := rfl
  rw [hv, C08_stream slot limit rs hrs chunks h] at i1 i2 i3
  exact ⟨i1, i2, i3 rfl⟩

/-- the error branches of the two primitives, stated outright: `Peek(n)` is refused exactly when `n` exceeds what
    is buffered (and returns the first `n` bytes of leftover ++ fresh otherwise); `Discard(n)` with `n` outside
    `1 .. buffered` drops everything and reports how much that was -/
theorem C08_conn_peek_total (c : InConn) (he : EInv c.inb) (n : Int) :
    (n > (c.view.length : Int) ∧ c.peek n = none) ∨
    (n ≤ (c.view.length : Int) ∧ c.peek n = some (if n ≤ 0 then c.view else c.view.take n.toNat)) := by
  by_cases hn : n ≤ (c.view.length : Int)
  · exact Or.inr ⟨hn, peek_spec c he n hn⟩
  · exact Or.inl ⟨by omega, (peek_none_iff c he n).mpr (by omega)⟩

theorem C08_conn_discard_total (pool : Pool) (c : InConn) (hp : PInv pool) (he : EInv c.inb) (n : Int) :
    (c.discard pool n).2.1.view = (if n ≤ 0 ∨ n > (c.view.length : Int) then [] else c.view.drop n.toNat) := by
  by_cases h : n ≤ 0 ∨ n > (c.view.length : Int)
  · rw [if_pos h]; exact (discard_reset_spec pool c hp he n h).2.2.1
  · rw [if_neg h]
    have h0 : 0 < n.toNat := by omega
    have hle : n.toNat ≤ c.view.length := by omega
    have := (discard_spec pool c hp he n.toNat h0 hle).2.2.1
    have e : ((n.toNat : Nat) : Int) = n := by omega
    rw [e] at this; exact this

/-! ### two connections, one ring pool, any interleaving of their read events -/

structure Two where
  pool : Pool := {}
  c1 : InConn := {}
  c2 : InConn := {}
  closed1 : Bool := false
  closed2 : Bool := false
  msgs1 : List CMsg := []
  msgs2 : List CMsg := []

/-- an event of the first (`false`) or the second (`true`) connection: a read event with a chunk, or (`none`) the
    client goes away - `releaseTCP` hands its inbound ring, leftover and all, back to the pool. A closed
    connection reads no more -/
def Two.step (slot : Bytes → Nat) (limit : Nat) (t : Two) (ev : Bool × Option Bytes) : Two :=
  if ev.1 then
    if t.closed2 then t
    else match ev.2 with
      | some chunk =>
        let r := ConnIn.feed goTables slot limit t.pool t.c2 chunk
        { t with pool := r.2.1, c2 := r.2.2.1, closed2 := r.2.2.2, msgs2 := t.msgs2 ++ r.1 }
      | none =>
        let k := t.c2.close t.pool
        { t with pool := k.1, c2 := k.2, closed2 := true }
  else
    if t.closed1 then t
    else match ev.2 with
      | some chunk =>
        let r := ConnIn.feed goTables slot limit t.pool t.c1 chunk
        { t with pool := r.2.1, c1 := r.2.2.1, closed1 := r.2.2.2, msgs1 := t.msgs1 ++ r.1 }
      | none =>
        let k := t.c1.close t.pool
        { t with pool := k.1, c1 := k.2, closed1 := true }

/-- the same history over two independent "unconsumed bytes" loops -/
structure AbsTwo where
  v1 : Bytes := []
  v2 : Bytes := []
  closed1 : Bool := false
  closed2 : Bool := false
  msgs1 : List CMsg := []
  msgs2 : List CMsg := []

def AbsTwo.step (slot : Bytes → Nat) (limit : Nat) (a : AbsTwo) (ev : Bool × Option Bytes) : AbsTwo :=
  if ev.1 then
    if a.closed2 then a
    else match ev.2 with
      | some chunk =>
        let r := feed slot limit a.v2 chunk
        { a with v2 := r.2.1, closed2 := r.2.2, msgs2 := a.msgs2 ++ r.1 }
      | none => { a with closed2 := true }
  else
    if a.closed1 then a
    else match ev.2 with
      | some chunk =>
        let r := feed slot limit a.v1 chunk
        { a with v1 := r.2.1, closed1 := r.2.2, msgs1 := a.msgs1 ++ r.1 }
      | none => { a with closed1 := true }

/-- what relates the two: same requests, same closed flags, and - for a connection still open - its view is the
    abstract leftover, held entirely in its ring; the pool and both rings are well-formed -/
structure TwoRel (t : Two) (a : AbsTwo) : Prop where
  pool : PInv t.pool
  e1 : EInv t.c1.inb
  e2 : EInv t.c2.inb
  m1 : t.msgs1 = a.msgs1
  m2 : t.msgs2 = a.msgs2
  f1 : t.closed1 = a.closed1
  f2 : t.closed2 = a.closed2
  o1 : a.closed1 = false → t.c1.view = a.v1 ∧ t.c1.buf = []
  o2 : a.closed2 = false → t.c2.view = a.v2 ∧ t.c2.buf = []

theorem two_step (slot : Bytes → Nat) (limit : Nat) (t : Two) (a : AbsTwo) (h : TwoRel t a)
    (ev : Bool × Option Bytes) : TwoRel (t.step slot limit ev) (a.step slot limit ev) := by
  obtain ⟨who, ev⟩ := ev
  cases who with
  | true =>
    simp only [Two.step, AbsTwo.step, if_true]
    cases hc : a.closed2 with
    | true => simp only [h.f2, hc, if_true]; exact h
    | false =>
      simp only [h.f2, hc, Bool.false_eq_true, if_false]
      cases ev with
      | some chunk =>
        obtain ⟨v, b⟩ := h.o2 hc
        obtain ⟨f1, f2, f3, f4, f5⟩ := C08_conn_feed slot limit t.pool t.c2 chunk h.pool h.e2 b
        rw [v] at f1 f2 f5
        exact ⟨f3, h.e1, f4, h.m1, by simp only; rw [h.m2, f1], h.f1, f2, h.o1, f5⟩
      | none =>
        obtain ⟨r1, r2, _⟩ := ering_release_spec t.pool t.c2.inb h.pool h.e2
        exact ⟨r1, h.e1, r2, h.m1, h.m2, h.f1, rfl, h.o1, (fun hf => by cases hf)⟩
  | false =>
    simp only [Two.step, AbsTwo.step, Bool.false_eq_true, if_false]
    cases hc : a.closed1 with
    | true => simp only [h.f1, hc, if_true]; exact h
    | false =>
      simp only [h.f1, hc, Bool.false_eq_true, if_false]
      cases ev with
      | some chunk =>
        obtain ⟨v, b⟩ := h.o1 hc
        obtain ⟨f1, f2, f3, f4, f5⟩ := C08_conn_feed slot limit t.pool t.c1 chunk h.pool h.e1 b
        rw [v] at f1 f2 f5
        exact ⟨f3, f4, h.e2, by simp only; rw [h.m1, f1], h.m2, f2, h.f2, f5, h.o2⟩
      | none =>
        obtain ⟨r1, r2, _⟩ := ering_release_spec t.pool t.c1.inb h.pool h.e1
        exact ⟨r1, r2, h.e2, h.m1, h.m2, rfl, h.f2, (fun hf => by cases hf), h.o2⟩

/-- **two connections sharing the ring pool**: however their read events interleave - and whenever one of them
    goes away, even in the middle of a request, its ring going back to the pool with the leftover in it - each
    connection hands the handler exactly what it would alone: rings travel between them through the pool without
    carrying a byte across -/
theorem C08_conn_interleaved (slot : Bytes → Nat) (limit : Nat) (evs : List (Bool × Option Bytes)) :
    TwoRel (evs.foldl (Two.step slot limit) {}) (evs.foldl (AbsTwo.step slot limit) {}) := by
  have h0 : TwoRel {} {} :=
    ⟨pinv_empty, fun _ h => by simp at h, fun _ h => by simp at h, rfl, rfl, rfl, rfl,
     fun _ => ⟨rfl, rfl⟩, fun _ => ⟨rfl, rfl⟩⟩
  generalize ({} : Two) = t at h0 ⊢
  generalize ({} : AbsTwo) = a at h0 ⊢
  induction evs generalizing t a with
  | nil => exact h0
  | cons ev rest ih => exact ih _ _ (two_step slot limit t a h0 ev)

/- non-vacuity: the first client sends half a request and goes away; the second one's request, cut in two,
   travels through the ring the first one gave back - kernel-evaluated -/
example :
    let ping : Bytes := (⟨[112, 105, 110, 103], []⟩ : Req).enc
    let t := [(false, some (ping.take 5)), (false, none), (true, some (ping.take 6)), (true, some (ping.drop 6))].foldl
      (Two.step goSlot 1000) {}
    t.msgs1 = [] ∧ t.msgs2.map (·.type) = [goTables.cPing] ∧ t.closed2 = false ∧ t.c2.view = [] := by
  decide +kernel

/- non-vacuity: "GET a" then "PING", cut inside the first request and again inside the second: the leftover
   travels through the ring twice; kernel-evaluated -/
example :
    let r1 : Req := ⟨[71, 69, 84], [[97]]⟩
    let r2 : Req := ⟨[112, 105, 110, 103], []⟩
    let s := stream [r1, r2]
    let r := ConnIn.feedAll goTables goSlot 1000 {} {} [s.take 7, (s.drop 7).take 20, s.drop 27]
    r.1.map (·.type) = [7, goTables.cPing] ∧ r.2.2.2 = false ∧ r.2.2.1.view = [] := by
  decide +kernel

end RcVerif.Props.C08
