import RcVerif.Model.Route
import RcVerif.Model.Inst
import RcVerif.Lemmas.Tables
/-
  C04 — every forwarded request or fragment goes to a node of the replica set
  owning the key's slot: writes, cursor scans and scripts to its master, reads
  to the master or one of its replicas, always the master when replica reads are
  disabled; a connection first authenticates (when a password is set) and, on a
  replica, switches to read-only mode.

  * `C04_route_in_set`, `C04_master_when_required`: decision logic, all topologies and draws.
  * `C04_classes`: over the REGENERATED command table - every command that may be
    served by a replica (code below the write marker, not a scan) is flagged
    read-only by Redis (frozen reference); scripts and everything else sit above it.
  * `C04_handshake`: the bytes sent on open.
-/
namespace RcVerif.Props.C04
open RcVerif RcVerif.Route RcVerif.Commands RcVerif.Lemmas.Tables

/-- whatever the draw, pools and flags: the chosen node belongs to the owning replica set -/
theorem C04_route_in_set (disableSlave : Bool) (hasPool : Bytes → Bool) (ty : Nat) (rs : RSet) (draw : Nat) :
    (route goTables disableSlave hasPool ty rs draw).1 = rs.master ∨
    (route goTables disableSlave hasPool ty rs draw).1 ∈ rs.slaves := by
  unfold route
  split
  · left; rfl
  · cases h : (candidates hasPool rs)[draw]? with
    | none => left; rfl
    | some a =>
      right
      have : a ∈ candidates hasPool rs := List.mem_of_getElem? h
      exact (List.mem_filter.mp this).1

/-- a replica is only ever chosen for a read while replica reads are enabled, and only one that has a pool -/
theorem C04_replica_only_for_reads (disableSlave : Bool) (hasPool : Bytes → Bool) (ty : Nat) (rs : RSet)
    (draw : Nat) (h : (route goTables disableSlave hasPool ty rs draw).2 = true) :
    disableSlave = false ∧ ¬ ty > goTables.cWriteStart ∧ ty ≠ goTables.cHscan ∧ ty ≠ goTables.cSscan ∧
    ty ≠ goTables.cZscan ∧ hasPool (route goTables disableSlave hasPool ty rs draw).1 = true := by
  unfold route at h ⊢
  by_cases hm : masterOnly goTables disableSlave ty = true
  · simp [hm] at h
  · simp only [hm, Bool.false_eq_true, ↓reduceIte] at h ⊢
    have hm' := hm
    unfold masterOnly at hm'
    simp at hm'
    cases hc : (candidates hasPool rs)[draw]? with
    | none => rw [hc] at h; simp at h
    | some a =>
      have hmem : a ∈ candidates hasPool rs := List.mem_of_getElem? hc
      have := (List.mem_filter.mp hmem).2
      exact ⟨hm'.1.1.1.1, by omega, hm'.1.1.2, hm'.1.2, hm'.2, this⟩

/-- writes, scans, scripts, or replica reads disabled: always the master -/
theorem C04_master_when_required (disableSlave : Bool) (hasPool : Bytes → Bool) (ty : Nat) (rs : RSet) (draw : Nat)
    (h : disableSlave = true ∨ ty > goTables.cWriteStart ∨ ty = goTables.cHscan ∨ ty = goTables.cSscan ∨ ty = goTables.cZscan) :
    route goTables disableSlave hasPool ty rs draw = (rs.master, false) := by
  unfold route masterOnly
  rcases h with h | h | h | h | h <;> simp [h]

def isIn (name : Bytes) (l : List Bytes) : Bool := l.contains name

/-- **table theorem** (kernel-evaluated over the regenerated table): a command that `route` may send
    to a replica is one Redis itself flags read-only; cursor scans are named exactly as in the
    reference; scripts sit above the write marker -/
theorem C04_classes : ∀ p ∈ goTables.str2type,
    ((p.2 < goTables.cWriteStart ∧ p.2 ≠ goTables.cHscan ∧ p.2 ≠ goTables.cSscan ∧ p.2 ≠ goTables.cZscan)
        → isIn p.1 Spec.refReadOnly = true ∧ isIn p.1 Spec.refScan = false) ∧
    (isIn p.1 Spec.refScan = true → (p.2 = goTables.cHscan ∨ p.2 = goTables.cSscan ∨ p.2 = goTables.cZscan)) ∧
    (p.2 ≠ goTables.cWriteStart) := by
  decide +kernel

theorem C04_scripts_to_master :
    goTables.cEval > goTables.cWriteStart ∧ goTables.cEvalsha > goTables.cWriteStart := by decide

/-- a command Redis does not flag read-only is never sent to a replica -/
theorem C04_writes_never_to_replica (hasPool : Bytes → Bool) (name : Bytes) (c : Nat) (rs : RSet) (draw : Nat)
    (hmem : (name, c) ∈ goTables.str2type) (hw : isIn name Spec.refReadOnly = false) :
    route goTables false hasPool c rs draw = (rs.master, false) := by
  have hc := C04_classes _ hmem
  simp only at hc
  by_cases h : c < goTables.cWriteStart ∧ c ≠ goTables.cHscan ∧ c ≠ goTables.cSscan ∧ c ≠ goTables.cZscan
  · have := (hc.1 h).1
    rw [hw] at this; exact absurd this (by simp)
  · apply C04_master_when_required
    have hne := hc.2.2
    by_cases h1 : c < goTables.cWriteStart
    · simp only [h1, true_and] at h
      right; right
      by_cases a : c = goTables.cHscan
      · exact Or.inl a
      · by_cases b : c = goTables.cSscan
        · exact Or.inr (Or.inl b)
        · by_cases d : c = goTables.cZscan
          · exact Or.inr (Or.inr d)
          · exact absurd ⟨a, b, d⟩ h
    · right; left; omega

/-- the handshake: AUTH <password> iff a password is configured, followed by READONLY iff the
    connection is to a replica; one `+OK` is awaited for each -/
theorem C04_handshake (passwd : Bytes) (isSlave : Bool) :
    handshake Gen.strAuthCmd0 Gen.strReadOnly passwd isSlave =
      ((if passwd.isEmpty then [] else Gen.strAuthCmd0 ++ itoa passwd.length ++ [13, 10] ++ passwd ++ [13, 10])
        ++ (if isSlave then Gen.strReadOnly else []),
       (if passwd.isEmpty then 0 else 1) + (if isSlave then 1 else 0)) := rfl

/-- the AUTH / READONLY bytes are the well-formed commands a Redis server expects -/
theorem C04_handshake_wellformed :
    Gen.strAuthCmd0 = [42, 50, 13, 10, 36, 52, 13, 10, 97, 117, 116, 104, 13, 10, 36] ∧
    Gen.strReadOnly = [42, 49, 13, 10, 36, 56, 13, 10, 82, 69, 65, 68, 79, 78, 76, 89, 13, 10] := by
  decide

/- non-vacuity -/
example : (route goTables false (fun _ => true) goTables.cDel { master := [109], slaves := [[97]] } 0) = ([109], false) := by
  decide +kernel
example : (route goTables false (fun _ => true) 7 { master := [109], slaves := [[97]] } 0) = ([97], true) := by
  decide +kernel

end RcVerif.Props.C04
