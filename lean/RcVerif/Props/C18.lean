import RcVerif.Model.AuthIp
/-
  C18 — with the whitelist enabled exactly the listed addresses are admitted, with it disabled
  everyone; after the file changes (additions and removals alike, enable / disable, rewrite by
  rename) the admitted set is the one in the file, whatever the history of earlier edits and of
  unreadable intermediate states.
  Not modelled: inotify itself and the "within a few seconds" bound (runtime behaviour).
-/
namespace RcVerif.Props.C18
open RcVerif RcVerif.AuthIp

theorem mem_foldl_insert (list : List Bytes) (acc : List Bytes) (ip : Bytes) :
    ip ∈ list.foldl (fun acc x => if acc.contains x then acc else acc ++ [x]) acc ↔ ip ∈ acc ∨ ip ∈ list := by
  induction list generalizing acc with
  | nil => simp
  | cons x xs ih =>
    simp only [List.foldl_cons]
    rw [ih]
    by_cases h : acc.contains x = true
    · simp only [h, ↓reduceIte, List.mem_cons]
      have hx : x ∈ acc := by simpa using h
      constructor
      · rintro (h1 | h1)
        · exact Or.inl h1
        · exact Or.inr (Or.inr h1)
      · rintro (h1 | h1 | h1)
        · exact Or.inl h1
        · subst h1; exact Or.inl hx
        · exact Or.inr h1
    · simp only [h, Bool.false_eq_true, ↓reduceIte, List.mem_append, List.mem_cons, List.mem_singleton, List.not_mem_nil, or_false]
      constructor
      · rintro ((h1 | h1) | h1)
        · exact Or.inl h1
        · exact Or.inr (Or.inl h1)
        · exact Or.inr (Or.inr h1)
      · rintro (h1 | h1 | h1)
        · exact Or.inl (Or.inl h1)
        · exact Or.inl (Or.inr h1)
        · exact Or.inr h1

/-- after a successful reload the key set of the map is exactly the list in the file -/
theorem reload_mem (w : WL) (f : File) (ip : Bytes) : ip ∈ (reload w (some f)).ips ↔ ip ∈ f.list := by
  unfold reload
  simp only
  rw [mem_foldl_insert]
  constructor
  · rintro (h | h)
    · have := (List.mem_filter.mp h).2
      simpa using this
    · exact h
  · intro h; exact Or.inr h

/-- **C18 (one reload)**: whatever was admitted before, after the file `f` has been loaded an address is
    admitted iff the whitelist is disabled or the address is listed -/
theorem C18_reload (w : WL) (f : File) (ip : Bytes) :
    validate (reload w (some f)) ip = (!f.enable || decide (ip ∈ f.list)) := by
  unfold validate
  have henable : (reload w (some f)).enable = f.enable := rfl
  rw [henable]
  congr 1
  rw [Bool.eq_iff_iff]
  simp only [List.contains_iff_mem, decide_eq_true_eq]
  exact reload_mem w f ip

/-- the last file state that could be read -/
def lastGood : List (Option File) → Option File
  | [] => none
  | x :: xs => match lastGood xs with
    | some f => some f
    | none => x

/-- **C18 (histories)**: after ANY history of edits - including states of the file that could not be
    read or parsed, which are skipped - the admitted set is that of the last readable file state -/
theorem C18_history (hist : List (Option File)) (w0 : WL) (f : File) (h : lastGood hist = some f) (ip : Bytes) :
    validate (hist.foldl reload w0) ip = (!f.enable || decide (ip ∈ f.list)) := by
  induction hist generalizing w0 with
  | nil => simp [lastGood] at h
  | cons x xs ih =>
    simp only [List.foldl_cons]
    simp only [lastGood] at h
    cases hl : lastGood xs with
    | some g =>
      rw [hl] at h
      simp only at h
      exact ih _ (by rw [hl]; exact h)
    | none =>
      rw [hl] at h
      simp only at h
      subst h
      -- no later readable state: every later reload leaves the state alone
      have hnone : ∀ (ys : List (Option File)) (w : WL), lastGood ys = none → ys.foldl reload w = w := by
        intro ys
        induction ys with
        | nil => intro _ _; rfl
        | cons y ys ihy =>
          intro w hy
          simp only [lastGood] at hy
          cases hly : lastGood ys with
          | some g => rw [hly] at hy; simp at hy
          | none =>
            rw [hly] at hy
            simp only at hy
            subst hy
            simp only [List.foldl_cons, reload]
            exact ihy w hly
      rw [hnone xs _ hl]
      exact C18_reload w0 f ip

/-- removals take effect: an address dropped from the file is rejected after the reload -/
theorem C18_removal (w : WL) (f : File) (ip : Bytes) (he : f.enable = true) (hn : ip ∉ f.list) :
    validate (reload w (some f)) ip = false := by
  rw [C18_reload]; simp [he, hn]

/-- disabled: everyone is admitted -/
theorem C18_disabled (w : WL) (f : File) (ip : Bytes) (he : f.enable = false) :
    validate (reload w (some f)) ip = true := by
  rw [C18_reload]; simp [he]

/-- an unreadable file leaves the admitted set as it was -/
theorem C18_unreadable (w : WL) : reload w none = w := rfl

/-- the watcher reloads on write, on create (rewrite by rename) and on rename of the watched file only -/
theorem C18_triggers (watched name : Bytes) (op : Op) :
    triggers watched name op = true ↔ name = watched ∧ (op = .write ∨ op = .create ∨ op = .rename) := by
  unfold triggers
  cases op <;> simp

/- non-vacuity (the repaired defect): 10.0.0.2 removed from the file is no longer admitted -/
example :
    let w1 := reload {} (some { enable := true, list := [[49], [50]] })
    let w2 := reload w1 (some { enable := true, list := [[49]] })
    validate w1 [50] = true ∧ validate w2 [50] = false ∧ validate w2 [49] = true := by decide

end RcVerif.Props.C18
