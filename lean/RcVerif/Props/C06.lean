import RcVerif.Lemmas.Decode
import RcVerif.Lemmas.Group
import RcVerif.Lemmas.Tables
/-
  C06 — MGET / DEL / MSET with any key list are split into exactly one
  well-formed command of the same kind per distinct slot, containing exactly the
  keys (for MSET the key/value pairs) of that slot in the original relative
  order, duplicates kept; nothing else is sent.

  Stated over the command tables regenerated from the Go source and parametric
  in the slot function (hence "over all slot layouts").
-/
namespace RcVerif.Props.C06
open RcVerif RcVerif.Resp RcVerif.CDecode RcVerif.Commands
open RcVerif.Lemmas.Decode RcVerif.Lemmas.Group RcVerif.Lemmas.Tables RcVerif.Lemmas.Frame

/-- the request type the proxy assigns -/
abbrev typeOf (name : Bytes) (args : List Bytes) : Nat := transform2Type goTables name args.length

theorem name_of_type (name : Bytes) (args : List Bytes) (c : Nat) (h : typeOf name args = c)
    (hc : c ∈ [goTables.cMget, goTables.cDel, goTables.cMset]) :
    (c = goTables.cMget → toLower name = nameMget) ∧ (c = goTables.cDel → toLower name = nameDel) ∧
    (c = goTables.cMset → toLower name = nameMset) := by
  have hd := special_codes_distinct c (by
    simp only [List.mem_cons, List.not_mem_nil, or_false] at hc ⊢
    rcases hc with h | h | h <;> simp [h])
  obtain ⟨hl, _⟩ := transform2Type_real goTables name args.length c h hd.1 hd.2.1
  exact split_names _ (lookup_mem _ _ _ hl)

theorem checkArgs_mset (n : Nat) :
    checkArgs goTables goTables.cMset n =
      if n < 2 ∨ n % 2 = 1 then goTables.cWrongArgs else goTables.cMset := by
  have hl : lookup goTables.cMset goTables.type2nargs = some (-2) := by decide +kernel
  unfold checkArgs
  rw [hl]
  simp only
  rw [if_neg (by decide), if_neg (by decide), if_pos (by decide)]

/-- arity: a request typed MSET has an even, non-zero number of arguments (so pairing loses nothing) -/
theorem mset_even (name : Bytes) (args : List Bytes) (h : typeOf name args = goTables.cMset) :
    args.length % 2 = 0 ∧ 2 ≤ args.length := by
  have hd := special_codes_distinct goTables.cMset (by simp)
  obtain ⟨_, hc⟩ := transform2Type_real goTables name args.length _ h hd.1 hd.2.1
  rw [checkArgs_mset] at hc
  split at hc
  · exact absurd hc.symm hd.2.1
  · omega

theorem unpairs_pairs (l : List Bytes) (h : l.length % 2 = 0) : unpairs (pairs l) = l := by
  fun_induction pairs l with
  | case1 k v rest ih =>
    have : rest.length % 2 = 0 := by simp at h; omega
    simp [unpairs] at ih ⊢
    exact ih this
  | case2 l hne =>
    match l, hne with
    | [], _ => rfl
    | [x], _ => simp at h
    | a :: b :: r, hne => exact absurd rfl (hne a b r)

/-- the total number of grouped items is the number of items: nothing lost, nothing duplicated -/
theorem total_addToGroup {α} (s : Nat) (k : α) (g : List (Nat × List α)) :
    ((addToGroup s k g).map (·.2.length)).sum = (g.map (·.2.length)).sum + 1 := by
  induction g with
  | nil => simp [addToGroup]
  | cons p g ih =>
    obtain ⟨s', ks⟩ := p
    simp only [addToGroup]
    split
    · simp; omega
    · simp [ih]; omega

theorem total_group {α} (f : α → Nat) (items : List α) :
    ((groupBySlot f items).map (·.2.length)).sum = items.length := by
  unfold groupBySlot
  have : ∀ (g : List (Nat × List α)),
      ((items.foldl (fun g k => addToGroup (f k) k g) g).map (·.2.length)).sum
        = (g.map (·.2.length)).sum + items.length := by
    induction items with
    | nil => simp
    | cons x xs ih =>
      intro g
      simp only [List.foldl_cons, ih, total_addToGroup, List.length_cons]; omega
  simpa using this []

/-- the full statement for MGET and DEL -/
def C06_mget_del_statement : Prop :=
  ∀ (slot : Bytes → Nat) (limit : Nat) (name : Bytes) (keys : List Bytes) (t : Bytes),
    SmallReq name keys →
    (typeOf name keys = goTables.cMget ∨ typeOf name keys = goTables.cDel) →
    (Spec.encRequest (name :: keys)).length ≤ limit →
    ∃ m, decode goTables slot limit (Spec.encRequest (name :: keys) ++ t)
            = .ok m (Spec.encRequest (name :: keys)).length ∧
      m.type = typeOf name keys ∧ m.keys = keys ∧
      -- one fragment per distinct slot
      (m.frags.map (·.1)).Nodup ∧
      -- the fragment of slot s exists iff some key has slot s, and is the command of the same
      -- kind over exactly the keys of that slot, in the original order (duplicates kept)
      (∀ s req, (s, req) ∈ m.frags ↔
        (keys.filter (fun k => slot k = s) ≠ [] ∧
         req = Spec.encRequest (toLower name :: keys.filter (fun k => slot k = s)))) ∧
      -- every key occurrence is in exactly one fragment
      (m.groups.map (·.2.length)).sum = keys.length

theorem C06_mget_del : C06_mget_del_statement := by
  intro slot limit name keys t hs hty hsize
  rw [← encodeCmd_eq_spec] at hsize ⊢
  refine ⟨_, decode_encode goTables slot limit name keys t hs, ?_⟩
  have hnm := name_of_type name keys (typeOf name keys) rfl (by
    rcases hty with h | h <;> simp [h])
  have hsz : ¬ ((encodeCmd name keys).length > limit) := by omega
  have hbuild : build goTables slot limit name keys (encodeCmd (toLower name) keys) (encodeCmd name keys).length
      = { type := typeOf name keys, key := [], keys := keys, groups := groupBySlot slot keys,
          frags := (groupBySlot slot keys).map (fun p => (p.1, encodeCmd (toLower name) p.2)) } := by
    unfold build
    simp only [typeOf] at hty hnm
    simp only [hty, ↓reduceIte, hsz]
    rcases hty with h | h
    · simp only [h, ↓reduceIte, hnm.1 h]
    · have hne : goTables.cDel ≠ goTables.cMget := fun e => codes_distinct.1 e.symm
      simp only [h, hne, ↓reduceIte, hnm.2.1 h]
  rw [hbuild]
  refine ⟨rfl, rfl, ?_, ?_, total_group slot keys⟩
  · simp only [List.map_map]
    exact group_nodup slot keys
  · intro s req
    simp only [List.mem_map, Prod.mk.injEq]
    constructor
    · rintro ⟨⟨s', ks⟩, hmem, h1, h2⟩
      simp only at h1 h2
      subst h1
      obtain ⟨e, hne⟩ := (group_mem slot keys s' ks).mp hmem
      subst e
      exact ⟨hne, by rw [← h2, encodeCmd_eq_spec]⟩
    · rintro ⟨hne, hreq⟩
      exact ⟨(s, keys.filter (fun k => slot k = s)), (group_mem slot keys s _).mpr ⟨rfl, hne⟩, rfl,
        by rw [hreq, encodeCmd_eq_spec]⟩

/-- the full statement for MSET: items are key/value pairs -/
def C06_mset_statement : Prop :=
  ∀ (slot : Bytes → Nat) (limit : Nat) (name : Bytes) (items : List Bytes) (t : Bytes),
    SmallReq name items →
    typeOf name items = goTables.cMset →
    (Spec.encRequest (name :: items)).length ≤ limit →
    ∃ m, decode goTables slot limit (Spec.encRequest (name :: items) ++ t)
            = .ok m (Spec.encRequest (name :: items)).length ∧
      m.type = goTables.cMset ∧
      -- the items really are all the pairs, in order
      unpairs (pairs items) = items ∧ m.keys = (pairs items).map (·.1) ∧
      (m.frags.map (·.1)).Nodup ∧
      (∀ s req, (s, req) ∈ m.frags ↔
        ((pairs items).filter (fun p => slot p.1 = s) ≠ [] ∧
         req = Spec.encRequest (toLower name :: unpairs ((pairs items).filter (fun p => slot p.1 = s))))) ∧
      ((groupBySlot (fun p : Bytes × Bytes => slot p.1) (pairs items)).map (·.2.length)).sum = (pairs items).length

theorem C06_mset : C06_mset_statement := by
  intro slot limit name items t hs hty hsize
  rw [← encodeCmd_eq_spec] at hsize ⊢
  refine ⟨_, decode_encode goTables slot limit name items t hs, ?_⟩
  have hnm := (name_of_type name items _ rfl (by simp [hty])).2.2 hty
  have hev := mset_even name items hty
  have hsz : ¬ ((encodeCmd name items).length > limit) := by omega
  have hbuild : build goTables slot limit name items (encodeCmd (toLower name) items) (encodeCmd name items).length
      = { type := goTables.cMset, key := [], keys := (pairs items).map (·.1),
          groups := (groupBySlot (fun p : Bytes × Bytes => slot p.1) (pairs items)).map (fun p => (p.1, unpairs p.2)),
          frags := (groupBySlot (fun p : Bytes × Bytes => slot p.1) (pairs items)).map
            (fun p => (p.1, encodeCmd (toLower name) (unpairs p.2))) } := by
    unfold build
    simp only [typeOf] at hty
    have h1 : goTables.cMset ≠ goTables.cMget := fun e => codes_distinct.2.1 e.symm
    have h2 : goTables.cMset ≠ goTables.cDel := fun e => codes_distinct.2.2.1 e.symm
    simp only [hty, h1, h2, or_self, ↓reduceIte, hsz, hnm]
  rw [hbuild]
  refine ⟨rfl, unpairs_pairs items hev.1, rfl, ?_, ?_, total_group _ _⟩
  · simp only [List.map_map]
    exact group_nodup _ _
  · intro s req
    simp only [List.mem_map, Prod.mk.injEq]
    constructor
    · rintro ⟨⟨s', ks⟩, hmem, h1, h2⟩
      simp only at h1 h2
      subst h1
      obtain ⟨e, hne⟩ := (group_mem _ (pairs items) s' ks).mp hmem
      subst e
      exact ⟨hne, by rw [← h2, encodeCmd_eq_spec]⟩
    · rintro ⟨hne, hreq⟩
      exact ⟨(s, (pairs items).filter (fun p => slot p.1 = s)),
        (group_mem _ (pairs items) s _).mpr ⟨rfl, hne⟩, rfl, by rw [hreq, encodeCmd_eq_spec]⟩

/-- every fragment is a command a Redis server accepts -/
theorem fragments_wellformed (name : Bytes) (grp : List Bytes) :
    Spec.WellFormedRequest (Spec.encRequest (toLower name :: grp)) :=
  ⟨toLower name :: grp, by simp, rfl⟩

/- non-vacuity: a concrete MGET over two slots, evaluated by the kernel with the real slot function
   ("MGET Foo Bar" from the repository's own test: slots 10576 and 5379) -/
example :
    (match decode goTables goSlot 1000 (Spec.encRequest [[77, 71, 69, 84], [70, 111, 111], [66, 97, 114]]) with
     | .ok m _ => m.frags.map (·.1)
     | _ => []) = [10576, 5379] := by decide +kernel

example : typeOf [77, 71, 69, 84] [[70, 111, 111], [66, 97, 114]] = goTables.cMget := by decide +kernel

end RcVerif.Props.C06
