import RcVerif.Lemmas.Crc
/-
  C05 — the slot the proxy assigns to a key equals the Redis Cluster key slot,
  for every byte string.

  Model: `Hash.hashKey` over the table and slot count REGENERATED from
  core/pkg/hashkit/crc16.go and core/pkg/constant/constant.go (`goSlot`).
  Spec:  `Spec.keySlot` — bit-by-bit CRC16/XMODEM and the hash-tag rule.
-/
namespace RcVerif.Props.C05
open RcVerif RcVerif.Spec RcVerif.Hash RcVerif.Lemmas.Crc

/-- the full statement of the property -/
def C05_statement : Prop := ∀ key : Bytes, goSlot key = Spec.keySlot key

/-- every entry of the Go table is the bitwise CRC remainder of its index
    (finite table, evaluated by the kernel) -/
theorem table_correct : ∀ i : Fin 256,
    Gen.crc16tab.getD i.val 0 = (crcShift8 (BitVec.ofNat 16 (i.val * 256))).toNat := by
  decide +kernel

theorem table_lt : ∀ i : Fin 256, Gen.crc16tab.getD i.val 0 < 65536 := by
  decide +kernel

theorem table_length : Gen.crc16tab.length = 256 := by decide +kernel

theorem slots_eq : Gen.redisClusterSlots = 16384 := by decide

/-- the specification's byte step, written with the table -/
theorem spec_byte (c : BitVec 16) (b : UInt8) :
    (crcByte c b).toNat =
      ((c.toNat % 256) * 256) ^^^ Gen.crc16tab.getD ((c.toNat / 256) ^^^ b.toNat) 0 := by
  unfold crcByte
  generalize hx : c ^^^ BitVec.ofNat 16 b.toNat <<< 8 = x
  have hxn : x.toNat = c.toNat ^^^ (b.toNat * 256) := by
    rw [← hx, BitVec.toNat_xor, BitVec.toNat_shiftLeft, BitVec.toNat_ofNat, Nat.shiftLeft_eq]
    have hb : b.toNat < 256 := b.toNat_lt
    have : b.toNat % 2 ^ 16 * 2 ^ 8 % 2 ^ 16 = b.toNat * 256 := by omega
    rw [this]
  have hlo : x.toNat % 256 = c.toNat % 256 := by
    rw [hxn]
    have := @Nat.xor_mod_two_pow c.toNat (b.toNat * 256) 8
    simp at this
    rw [this]
  have hhi : x.toNat / 256 = (c.toNat / 256) ^^^ b.toNat := by
    rw [hxn]
    have := Nat.shiftRight_xor_distrib (a := c.toNat) (b := b.toNat * 256) (i := 8)
    simp only [Nat.shiftRight_eq_div_pow] at this
    have e : (2:Nat) ^ 8 = 256 := by decide
    rw [e] at this
    rw [this, Nat.mul_div_cancel _ (by decide : 0 < 256)]
  have hhi_lt : x.toNat / 256 < 256 := by have := x.isLt; omega
  rw [split_bytes x, shift8_xor]
  have h1 := table_correct ⟨x.toNat / 256, hhi_lt⟩
  have h2 := shift8_low ⟨x.toNat % 256, Nat.mod_lt _ (by decide)⟩
  simp only at h1 h2
  rw [h2, BitVec.toNat_xor, ← h1, BitVec.toNat_ofNat, hlo, hhi, Nat.xor_comm]
  have : c.toNat % 256 * 256 % 2 ^ 16 = c.toNat % 256 * 256 := by omega
  rw [this]

/-- the uint32 loop body of `hash`, seen through its low 16 bits, is the
    specification's byte step (for EVERY 32-bit state, no enumeration) -/
theorem step_low16 (crc : Nat) (b : UInt8) :
    crcStep Gen.crc16tab crc b % 65536 = (crcByte (BitVec.ofNat 16 crc) b).toNat := by
  rw [spec_byte, BitVec.toNat_ofNat]
  unfold crcStep
  have hb : b.toNat < 256 := b.toNat_lt
  have e16 : (65536 : Nat) = 2 ^ 16 := by decide
  rw [e16, Nat.xor_mod_two_pow]
  have hidx : ((crc >>> 8) ^^^ b.toNat) % 256 = (crc % 2 ^ 16 / 256) ^^^ b.toNat := by
    have e8 : (256 : Nat) = 2 ^ 8 := by decide
    rw [e8, Nat.xor_mod_two_pow, Nat.shiftRight_eq_div_pow]
    have h1 : crc / 2 ^ 8 % 2 ^ 8 = crc % 2 ^ 16 / 2 ^ 8 := by omega
    have h2 : b.toNat % 2 ^ 8 = b.toNat := by omega
    rw [h1, h2]
  rw [hidx]
  have hlt : (crc % 2 ^ 16 / 256) ^^^ b.toNat < 256 := by
    have e8 : (256 : Nat) = 2 ^ 8 := by decide
    rw [e8]; apply Nat.xor_lt_two_pow <;> omega
  have ht := table_lt ⟨_, hlt⟩
  simp only at ht
  rw [Nat.mod_eq_of_lt (a := Gen.crc16tab.getD _ 0) (by omega)]
  have hs : crc <<< 8 % 2 ^ 32 % 2 ^ 16 = crc % 2 ^ 16 % 256 * 256 := by
    rw [Nat.shiftLeft_eq]; omega
  rw [hs]

/-- the whole loop: low 16 bits of the uint32 accumulator = specification CRC -/
theorem fold_low16 (key : Bytes) (crc : Nat) (c : BitVec 16) (h : crc % 65536 = c.toNat) :
    key.foldl (crcStep Gen.crc16tab) crc % 65536 = (key.foldl crcByte c).toNat := by
  induction key generalizing crc c with
  | nil => simpa using h
  | cons b bs ih =>
    simp only [List.foldl_cons]
    apply ih
    rw [step_low16]
    congr 2
    apply BitVec.eq_of_toNat_eq
    rw [BitVec.toNat_ofNat, ← h]

/-- `hash(key)` = CRC16/XMODEM(key) mod 16384 -/
theorem hashRaw_eq (key : Bytes) :
    hashRaw Gen.crc16tab Gen.redisClusterSlots key = (crc16 key).toNat % 16384 := by
  unfold hashRaw crc16
  rw [slots_eq, ← fold_low16 key 0 0#16 (by decide)]
  exact (Nat.mod_mod_of_dvd _ (by decide : 16384 ∣ 65536)).symm

/-- the hash-tag rule of `Hash` is the cluster specification's -/
theorem hashKey_eq (key : Bytes) :
    hashKey Gen.crc16tab Gen.redisClusterSlots key
      = hashRaw Gen.crc16tab Gen.redisClusterSlots (hashTag key) := by
  unfold hashKey hashTag
  cases indexOf 123 key with
  | none => rfl
  | some s =>
    simp only
    cases indexOf 125 (List.drop (s + 1) key) with
    | none => rfl
    | some e => cases e <;> simp

/-- **C05**: for every byte string, the proxy's slot is the Redis Cluster key slot. -/
theorem C05 : C05_statement := by
  intro key
  unfold goSlot goTables keySlot
  simp only
  rw [hashKey_eq, hashRaw_eq]

/-- the slot is always a valid slot number -/
theorem slot_lt (key : Bytes) : goSlot key < 16384 := by
  rw [C05 key]; unfold keySlot; omega

/- non-vacuity / sanity: concrete keys evaluated by the kernel -/
example : goSlot [97] = 15495 := by decide +kernel                          -- "a"
example : goSlot [125, 123, 97, 125] = 15495 := by decide +kernel           -- "}{a}" hashes "a" (fixed defect)
example : goSlot [123, 125, 107] = Spec.keySlot [123, 125, 107] := by decide +kernel  -- "{}k": empty tag, whole key
example : Spec.keySlot [102, 111, 111] = 12182 := by decide +kernel          -- "foo" (CLUSTER KEYSLOT foo = 12182)

end RcVerif.Props.C05
