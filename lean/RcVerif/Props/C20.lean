import RcVerif.Model.Route
import RcVerif.Model.Inst
/-
  C20 — with replica reads enabled, a read on a slot whose master has several
  healthy replicas may be served by EVERY one of them: the list handed to the
  random pick is the whole list of healthy replicas, and the pick returns the
  replica at the drawn index. Writes still go to the master.
  (Uniformity of `math/rand` is assumed, not modelled.)
-/
namespace RcVerif.Props.C20
open RcVerif RcVerif.Route

/-- a read request type: below the write marker and not a cursor scan -/
def IsRead (ty : Nat) : Prop :=
  ¬ ty > goTables.cWriteStart ∧ ty ≠ goTables.cHscan ∧ ty ≠ goTables.cSscan ∧ ty ≠ goTables.cZscan

theorem masterOnly_read (ty : Nat) (h : IsRead ty) : masterOnly goTables false ty = false := by
  unfold masterOnly; simp [h.1, h.2.1, h.2.2.1, h.2.2.2]

/-- the candidate list IS the list of healthy replicas (in table order) -/
theorem C20_candidates (hasPool : Bytes → Bool) (rs : RSet) :
    candidates hasPool rs = rs.slaves.filter hasPool := rfl

/-- every healthy replica is the result of the draw that points at it -/
theorem C20_every_replica_reachable (hasPool : Bytes → Bool) (ty : Nat) (rs : RSet) (h : IsRead ty)
    (a : Bytes) (ha : a ∈ rs.slaves) (hp : hasPool a = true) :
    ∃ draw, draw < (candidates hasPool rs).length ∧
      route goTables false hasPool ty rs draw = (a, true) := by
  have hm : a ∈ candidates hasPool rs := by
    unfold candidates; exact List.mem_filter.mpr ⟨ha, hp⟩
  obtain ⟨i, hi, he⟩ := List.getElem_of_mem hm
  refine ⟨i, hi, ?_⟩
  unfold route
  rw [masterOnly_read ty h]
  simp [List.getElem?_eq_getElem hi, he]

/-- the pick is exactly the element at the drawn index: uniform draws give a uniform spread -/
theorem C20_pick (hasPool : Bytes → Bool) (ty : Nat) (rs : RSet) (h : IsRead ty)
    (draw : Nat) (hd : draw < (candidates hasPool rs).length) :
    route goTables false hasPool ty rs draw = ((candidates hasPool rs)[draw], true) := by
  unfold route
  rw [masterOnly_read ty h]
  simp [List.getElem?_eq_getElem hd]

/-- distinct draws reach distinct positions: with n healthy replicas all n are used -/
theorem C20_spread (hasPool : Bytes → Bool) (ty : Nat) (rs : RSet) (h : IsRead ty) :
    ∀ i, i < (candidates hasPool rs).length →
      (route goTables false hasPool ty rs i).1 = (candidates hasPool rs)[i]! := by
  intro i hi
  rw [C20_pick hasPool ty rs h i hi]
  simp [hi]

/-- writes, scans and scripts are unaffected: always the master -/
theorem C20_writes_to_master (disableSlave : Bool) (hasPool : Bytes → Bool) (ty : Nat) (rs : RSet)
    (draw : Nat) (h : ty > goTables.cWriteStart) :
    route goTables disableSlave hasPool ty rs draw = (rs.master, false) := by
  unfold route masterOnly; simp [h]

/- non-vacuity: GET (type 7) with three healthy replicas, draws 0,1,2 reach all three -/
example :
    let rs : RSet := { master := [109], slaves := [[97], [98], [99]] }
    (List.range 3).map (fun d => (route goTables false (fun _ => true) 7 rs d).1) = [[97], [98], [99]] := by
  decide +kernel
example : IsRead 7 := by unfold IsRead; decide

/-- a replica that answers its health probe is readmitted: the monitor clears its auto-ban flag whatever it was,
    so `route` (which skips a flagged pool once its lift time has passed) picks it up again -/
theorem C20_monitor_readmits (probe2 : Bool) : RcVerif.Route.monitorCycle true probe2 = false := by
  simp [RcVerif.Route.monitorCycle]

theorem C20_monitor_second_probe : RcVerif.Route.monitorCycle false true = false := rfl

theorem C20_monitor_bans_dead : RcVerif.Route.monitorCycle false false = true := rfl

end RcVerif.Props.C20
