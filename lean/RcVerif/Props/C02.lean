import RcVerif.Lemmas.Decode
import RcVerif.Lemmas.Reply
import RcVerif.Lemmas.MergeBasic
import RcVerif.Lemmas.Tables
import RcVerif.Model.SimInst
/-
  C02 — single-key requests and their replies pass through byte-exact.

  * request: for every supported single-key command, any argument bytes and any trailing data,
    the one fragment built is the client's request with only the command name lower-cased,
    filed under the slot of its key;
  * reply: every well-formed RESP2 reply value (status, error, integer, bulk, null, arrays nested
    to any depth) is framed exactly, whatever follows it, and - unless it is a redirect - becomes
    the client's reply verbatim; above the size limit it is replaced by the too-large error.
-/
namespace RcVerif.Props.C02
open RcVerif RcVerif.Resp RcVerif.CDecode RcVerif.Commands RcVerif.Merge RcVerif.SDecode RcVerif.Spec
open RcVerif.Lemmas.Decode RcVerif.Lemmas.Frame RcVerif.Lemmas.Reply RcVerif.Lemmas.MergeBasic RcVerif.Lemmas.Tables

/-- lower-casing only touches letter case -/
theorem lower_only_case (b : UInt8) : lowerByte b = b ∨ (65 ≤ b ∧ b ≤ 90 ∧ lowerByte b = b ^^^ 0x20) := by
  unfold lowerByte
  split
  · rename_i h; exact Or.inr ⟨h.1, h.2, rfl⟩
  · exact Or.inl rfl

/-- a single-key request type: a real command that is not split, not a script and not answered locally -/
def SingleKey (ty : Nat) : Prop :=
  ty ≠ goTables.cUnknown ∧ ty ≠ goTables.cWrongArgs ∧ ty ≠ goTables.cMget ∧ ty ≠ goTables.cDel ∧
  ty ≠ goTables.cMset ∧ ty ≠ goTables.cEval ∧ ty ≠ goTables.cEvalsha

/-- **request pass-through** -/
theorem C02_request (slot : Bytes → Nat) (limit : Nat) (name key : Bytes) (args : List Bytes) (t : Bytes)
    (hs : SmallReq name (key :: args))
    (hty : SingleKey (transform2Type goTables name (key :: args).length))
    (hsize : (Spec.encRequest (name :: key :: args)).length ≤ limit) :
    ∃ m, decode goTables slot limit (Spec.encRequest (name :: key :: args) ++ t)
            = .ok m (Spec.encRequest (name :: key :: args)).length ∧
      m.type = transform2Type goTables name (key :: args).length ∧
      m.frags = [(slot key, Spec.encRequest (toLower name :: key :: args))] ∧ m.key = key := by
  rw [← encodeCmd_eq_spec] at hsize ⊢
  refine ⟨_, decode_encode goTables slot limit name (key :: args) t hs, ?_⟩
  obtain ⟨h1, h2, h3, h4, h5, h6, h7⟩ := hty
  have hsz : ¬ ((encodeCmd name (key :: args)).length > limit) := by omega
  unfold build
  simp only [h3, h4, h5, h6, h7, or_self, ↓reduceIte, hsz]
  refine ⟨trivial, ?_, trivial⟩
  rw [encodeCmd_eq_spec]

/-- scripts: the key is the third argument -/
theorem C02_request_eval (slot : Bytes → Nat) (limit : Nat) (name script numkeys key : Bytes) (args : List Bytes) (t : Bytes)
    (hs : SmallReq name (script :: numkeys :: key :: args))
    (hty : transform2Type goTables name (script :: numkeys :: key :: args).length = goTables.cEval ∨
           transform2Type goTables name (script :: numkeys :: key :: args).length = goTables.cEvalsha)
    (hsize : (Spec.encRequest (name :: script :: numkeys :: key :: args)).length ≤ limit) :
    ∃ m, decode goTables slot limit (Spec.encRequest (name :: script :: numkeys :: key :: args) ++ t)
            = .ok m (Spec.encRequest (name :: script :: numkeys :: key :: args)).length ∧
      m.frags = [(slot key, Spec.encRequest (toLower name :: script :: numkeys :: key :: args))] := by
  rw [← encodeCmd_eq_spec] at hsize ⊢
  refine ⟨_, decode_encode goTables slot limit name _ t hs, ?_⟩
  have hd := codes_distinct
  have hsz : ¬ ((encodeCmd name (script :: numkeys :: key :: args)).length > limit) := by omega
  have h3 : ¬ ((script :: numkeys :: key :: args).length < 3) := by simp
  unfold build
  rcases hty with h | h
  · have n1 : goTables.cEval ≠ goTables.cMget := fun e => hd.2.2.2.1 e.symm
    have n2 : goTables.cEval ≠ goTables.cDel := fun e => hd.2.2.2.2.2.1 e.symm
    have n3 : goTables.cEval ≠ goTables.cMset := fun e => hd.2.2.2.2.2.2.2.1 e.symm
    simp only [h, n1, n2, n3, or_self, ↓reduceIte, true_or, hsz, h3]
    rw [encodeCmd_eq_spec]
  · have n1 : goTables.cEvalsha ≠ goTables.cMget := fun e => hd.2.2.2.2.1 e.symm
    have n2 : goTables.cEvalsha ≠ goTables.cDel := fun e => hd.2.2.2.2.2.2.1 e.symm
    have n3 : goTables.cEvalsha ≠ goTables.cMset := fun e => hd.2.2.2.2.2.2.2.2.1 e.symm
    simp only [h, n1, n2, n3, or_self, ↓reduceIte, or_true, hsz, h3]
    rw [encodeCmd_eq_spec]

/-- **reply framing**: every well-formed reply value is framed exactly, whatever follows -/
theorem C02_reply_framed (v : Reply) (t : Bytes) (h : WF v) :
    frameReply goTables (encReply v ++ t) = .ok (cls goTables v) (encReply v).length :=
  frameReply_enc goTables v t h

/-- **reply pass-through**: unless the reply is a redirect, it becomes the client's reply verbatim -/
theorem C02_reply_verbatim (slot : Bytes → Nat) (limit : Nat) (m : MMsg) (s : Nat) (f : MFrag) (v : Reply)
    (hf : getFrag m s = some f) (hnd : f.done = false) (herr : f.err = [])
    (hty : m.type ≠ goTables.cMget ∧ m.type ≠ goTables.cMset ∧ m.type ≠ goTables.cDel)
    (hr : cls goTables v ≠ goTables.rMoved ∧ cls goTables v ≠ goTables.rAsk)
    (hsz : (encReply v).length ≤ limit) :
    let r := onReply goTables goMergeConsts slot limit m s (cls goTables v) (encReply v)
    r.2 = .ready ∧ r.1.done = true ∧ r.1.rspBody = encReply v :=
  default_passthrough goTables goMergeConsts slot limit m s _ _ f hf hnd herr hty hr hsz

/-- above the limit the reply is replaced by the too-large error -/
theorem C02_reply_limit (slot : Bytes → Nat) (limit : Nat) (m : MMsg) (s : Nat) (f : MFrag) (v : Reply)
    (hf : getFrag m s = some f) (hnd : f.done = false)
    (hr : cls goTables v ≠ goTables.rMoved ∧ cls goTables v ≠ goTables.rAsk)
    (hsz : (encReply v).length > limit) :
    let r := onReply goTables goMergeConsts slot limit m s (cls goTables v) (encReply v)
    r.2 = .ready ∧ r.1.done = true ∧ r.1.rspBody = Gen.strErrMsgRspTooLarge :=
  reply_too_large goTables goMergeConsts slot limit m s _ _ f hf hnd hr hsz (by decide)

/-- the handshake replies are swallowed: `+OK` once or twice, under every split -/
theorem C02_handshake_swallowed :
    ∀ steps ∈ [1, 2], ∀ cut ≤ steps * 5,
      let full := (List.replicate steps okLine).flatten
      initializingDecode steps full = .done (steps * 5) ∧
      (cut < steps * 5 → cut > 0 → initializingDecode steps (full.take cut) = .incomplete) := by
  decide +kernel

/- non-vacuity: GET is a single-key type; a nested reply is framed -/
example : SingleKey (transform2Type goTables [71, 69, 84] 1) := by unfold SingleKey; decide +kernel
example : WF (.array [.bulk [97], .nullBulk, .array [.integer [49], .status [79, 75]]]) := by
  simp [WF, WFs, Small]

end RcVerif.Props.C02
