import RcVerif.Lemmas.MergeBasic
import RcVerif.Lemmas.Reply
import RcVerif.Model.SimInst
/-
  C11 — backend errors reach the client as errors, never as success or a crash.

  * single-key request: any error line that is not a redirect is the client's reply, verbatim;
  * split MGET / DEL / MSET: an error reply to ANY fragment, at any point of any arrival
    order, completes the whole request exactly once with that error; no merge code (and
    hence no panic) is reached; replies of the other fragments that arrive later are dropped.
-/
namespace RcVerif.Props.C11
open RcVerif RcVerif.Merge RcVerif.SDecode RcVerif.Spec RcVerif.Lemmas.MergeBasic RcVerif.Lemmas.Reply

/-- an error line a Redis node can produce that the proxy does not act on itself -/
def PlainError (line : Bytes) : Prop :=
  (10 : UInt8) ∉ line ∧ classifyError goTables (45 :: line) = goTables.rError

/-- such an error reply is framed exactly and classified as an error -/
theorem C11_error_framed (line t : Bytes) (h : PlainError line) :
    frameReply goTables (encReply (.error line) ++ t) = .ok goTables.rError (encReply (.error line)).length := by
  have := frameReply_enc goTables (.error line) t h.1
  rw [this]; simp [cls, h.2]

/-- single-key: the error is the client's reply, byte for byte -/
theorem C11_single_verbatim (slot : Bytes → Nat) (limit : Nat) (m : MMsg) (s : Nat) (f : MFrag) (body : Bytes)
    (hf : getFrag m s = some f) (hnd : f.done = false) (herr : f.err = [])
    (hty : m.type ≠ goTables.cMget ∧ m.type ≠ goTables.cMset ∧ m.type ≠ goTables.cDel)
    (hsz : body.length ≤ limit) :
    let r := onReply goTables goMergeConsts slot limit m s goTables.rError body
    r.2 = .ready ∧ r.1.done = true ∧ r.1.rspBody = body :=
  default_passthrough goTables goMergeConsts slot limit m s goTables.rError body f hf hnd herr hty
    ⟨by decide, by decide⟩ hsz

/-- split request: an error on any fragment fails the whole request with that error, whatever
    state the other fragments are in -/
theorem C11_split_error (slot : Bytes → Nat) (limit : Nat) (m : MMsg) (s : Nat) (f : MFrag) (body : Bytes)
    (hf : getFrag m s = some f) (hnd : f.done = false) (herr : f.err = [])
    (hty : m.type = goTables.cMget ∨ m.type = goTables.cMset ∨ m.type = goTables.cDel)
    (hsz : body.length ≤ limit) (hb : body ≠ []) :
    let r := onReply goTables goMergeConsts slot limit m s goTables.rError body
    r.2 = .ready ∧ r.1.done = true ∧ r.1.rspBody = body ∧ r.1.err = body ∧ (∀ x ∈ r.1.frags, x.done = true) :=
  split_error goTables goMergeConsts slot limit m s body f hf hnd herr hty ⟨by decide, by decide⟩ hsz hb

/-- after that, whatever the other nodes answer is dropped and changes nothing: the request is
    completed exactly once -/
theorem C11_late_replies_dropped (slot : Bytes → Nat) (limit : Nat) (m : MMsg) (s rtype : Nat) (f : MFrag) (body : Bytes)
    (hf : getFrag m s = some f) (hd : f.done = true) :
    onReply goTables goMergeConsts slot limit m s rtype body = (m, .dropped) :=
  done_dropped goTables goMergeConsts slot limit m s rtype body f hf hd

/-- a reply over the size limit is replaced by the too-large error (single and split alike) -/
theorem C11_oversized_is_error (slot : Bytes → Nat) (limit : Nat) (m : MMsg) (s rtype : Nat) (f : MFrag) (body : Bytes)
    (hf : getFrag m s = some f) (hnd : f.done = false)
    (hr : rtype ≠ goTables.rMoved ∧ rtype ≠ goTables.rAsk) (hsz : body.length > limit) :
    let r := onReply goTables goMergeConsts slot limit m s rtype body
    r.2 = .ready ∧ r.1.done = true ∧ r.1.rspBody = Gen.strErrMsgRspTooLarge :=
  reply_too_large goTables goMergeConsts slot limit m s rtype body f hf hnd hr hsz (by decide)

/-- the real Redis error prefixes are plain errors; MOVED / ASK / auth failures are not -/
example : PlainError [69, 82, 82, 32, 118, 97, 108, 117, 101] := ⟨by decide, by decide +kernel⟩       -- "ERR value"
example : PlainError [87, 82, 79, 78, 71, 84, 89, 80, 69, 32, 120] := ⟨by decide, by decide +kernel⟩   -- "WRONGTYPE x"
example : PlainError [67, 76, 85, 83, 84, 69, 82, 68, 79, 87, 78] := ⟨by decide, by decide +kernel⟩   -- "CLUSTERDOWN"
example : ¬ PlainError [77, 79, 86, 69, 68, 32, 49, 32, 97] := by                                      -- "MOVED 1 a"
  intro h; have := h.2; revert this; decide +kernel

end RcVerif.Props.C11
