import RcVerif.Lemmas.SimRoute
import RcVerif.Props.C01
/-
  C04 over whole histories of the event-loop machine, and the "to that node" half of C13.

  * `C04_history`: in every reachable state, every fragment that a client request queued directly sits in the queue
    history of a connection whose node is the master or a replica of the replica set owning the fragment's slot in
    the proxy's topology (the role rules - writes, scans and scripts to the master - are `C04_master_when_required`
    etc. on `route`, which the machine consults through `routeAdmissible`);
  * `C04_pooled_connections`: every pooled connection is a connection to its pool's node;
  * `C13_resend_to_named_node`: the connection `OnMoved` re-queues a redirected fragment on is an open connection
    to the very node the redirect named.
-/
namespace RcVerif.Props.C04
open RcVerif RcVerif.Sim RcVerif.Lemmas.SimRoute RcVerif.Props.C01

theorem C04_history (cfg : Cfg) (slotFn : Bytes → Nat) (pools : List (Bytes × Bool)) (table : List (Nat × Nat × RSet))
    (es : List Event) (i : Nat) (b : Backend) (e : QEntry) (id slot : Nat)
    (hb : (reach cfg slotFn pools table es).backends[i]? = some b) (he : e ∈ b.enq)
    (hd : e.direct.isSome = true) (href : e.ref = .frag id slot) :
    ∃ rs, slotOwner (reach cfg slotFn pools table es).table slot = some rs ∧ (b.addr = rs.master ∨ b.addr ∈ rs.slaves) :=
  (j_run goTables goStrs cfg slotFn es _ (j_init goStrs cfg pools table)).2 i b e hb he hd id slot href

theorem C04_pooled_connections (cfg : Cfg) (slotFn : Bytes → Nat) (pools : List (Bytes × Bool)) (table : List (Nat × Nat × RSet))
    (es : List Event) (p : Nat) (pool : Pool) (id : Nat)
    (hp : (reach cfg slotFn pools table es).pools[p]? = some pool) (hid : id ∈ pool.active) :
    ∃ b, (reach cfg slotFn pools table es).backends[id]? = some b ∧ b.addr = pool.addr :=
  (j_run goTables goStrs cfg slotFn es _ (j_init goStrs cfg pools table)).1 p pool id hp hid

/-- the re-send of a redirected fragment goes to an open connection of the node the redirect named -/
theorem C13_resend_to_named_node (cfg : Cfg) (slotFn : Bytes → Nat) (pools : List (Bytes × Bool)) (table : List (Nat × Nat × RSet))
    (es : List Event) (addr : Bytes) (p : Nat)
    (hp : findPool (reach cfg slotFn pools table es).pools addr = some p) :
    let s := reach cfg slotFn pools table es
    ∃ b, (poolGet goStrs cfg s p).1.backends[(poolGet goStrs cfg s p).2]? = some b ∧ b.addr = addr ∧ b.opened = true := by
  intro s
  have hj := j_run goTables goStrs cfg slotFn es _ (j_init goStrs cfg pools table)
  obtain ⟨pool, hpool, hpa⟩ := findPool_addr s.pools addr p hp
  obtain ⟨_, hget⟩ := j_poolGet goStrs cfg s p hj
  obtain ⟨b, hb, hba⟩ := hget pool hpool
  obtain ⟨b2, hb2, ho⟩ := RcVerif.Props.C13.poolGet_open goStrs cfg s p pool hpool
  rw [hb] at hb2; injection hb2 with hb2; subst hb2
  exact ⟨b, hb, by rw [hba, hpa], ho⟩

end RcVerif.Props.C04
