import RcVerif.Lemmas.PoolBan
import RcVerif.Gen.Tables
/-
  Property theorems over the pool / ban model (`Model/PoolBan.lean`): `Pool.Get` with dial FAILURES, `Release`,
  `Close`, `SetIsSlave`, and `getConn`'s ban bookkeeping with the retry of `OnCReact`. Histories = every list of
  operations (`Op`) from the initial state. The model is tied to the real `core.Pool` / `listenServer.getConn`
  by the `pool` view.

  C15: a connection handed out is never a dead one; lost connections are replaced on demand; a node that cannot
       be dialled (or whose pool was closed) costs the request an error reply at once - nothing is queued.
  C10: a pool never holds more connections than configured; with one connection per node `Get` keeps returning it.
  C04: every pooled connection was dialled with the pool's current role (a role change releases them all).
  C20: the per-node ban state: order bounded by 5, ban length 2^order retry periods, reset by a served request.
-/
namespace RcVerif.PoolBan

/-- the invariant holds in every reachable state -/
theorem pool_inv_reachable (m : Nat) (rep : Bool) (ops : List Op) : Inv (run (init m rep) ops) :=
  inv_run (inv_init m rep) ops

/-- the constants the model carries are those the code has NOW (regenerated from `getConn` and `Pool.Get` on every
    run): the ban order is capped at 5 by `>= 5` / `= 5`, a ban lasts `1 << order` retry periods, `Pool.Get` dials
    while `count < maxActive` -/
theorem pool_constants_are_modelled :
    Gen.banOrderCap = 5 ∧ Gen.banOrderCapAssigned = 5 ∧ Gen.banDoubles = true ∧ Gen.poolDialWhile = "<" :=
  ⟨rfl, rfl, rfl, rfl⟩

/-! ### C15 -/

/-- `Pool.Get` never hands out a closed connection: what it returns is open, heads the pool's list, was dialled
    by this pool - in every reachable state, whatever was lost, released or failed to dial before -/
theorem C15_get_never_closed (m : Nat) (rep : Bool) (ops : List Op) (p : Nat) (s' : St) (c : Nat)
    (h : get (run (init m rep) ops) p = (s', some c)) :
    isOpen s'.conns c = true ∧ ∃ x, s'.conns[c]? = some x ∧ x.pool = p := by
  have hI := inv_get (pool_inv_reachable m rep ops) h
  obtain ⟨ho, pl', hp', hh⟩ := get_some h
  refine ⟨ho, ?_⟩
  have hmem : c ∈ pl'.active := by
    cases ha : pl'.active with
    | nil => rw [ha] at hh; cases hh
    | cons a t => rw [ha] at hh; simp at hh; subst hh; exact List.mem_cons_self ..
  obtain ⟨x, hx, hxp, _⟩ := (hI p pl' hp').1 c hmem
  exact ⟨x, hx, hxp⟩

/-- lost connections are replaced on demand: when every pooled connection is dead (or none is pooled), the pool is
    not closed and the node can be dialled, `Get` returns a NEW connection -/
theorem C15_redial_after_loss (s : St) (p : Nat) (pl : Pool) (hp : s.pools[p]? = some pl)
    (hcl : pl.closed = false) (hd : pl.dialOk = true) (hdead : ∀ c ∈ pl.active, isOpen s.conns c = false) :
    (get s p).2 = some s.conns.length ∧ isOpen (get s p).1.conns s.conns.length = true := by
  have hrot : rotateRev s.conns pl.active.reverse = none :=
    rotateRev_none (fun c hc => hdead c (List.mem_reverse.mp hc))
  have key : (get s p).2 = some s.conns.length := by
    unfold get; rw [hp]; simp only [hcl, Bool.false_eq_true, if_false]
    by_cases hlt : pl.active.length < pl.maxActive
    · rw [if_pos hlt]; simp [dial, hd]
    · rw [if_neg hlt, hrot]; simp [dial, hd]
  refine ⟨key, ?_⟩
  have h : get s p = ((get s p).1, some s.conns.length) := by rw [← key]
  exact (get_some h).1

/-- a failed `Get` (closed pool, or the node cannot be dialled) dials nothing -/
theorem C15_get_failure_dials_nothing (s : St) (p : Nat) (s' : St) (h : get s p = (s', none)) :
    s'.conns = s.conns := get_none_conns h

/-- exactly when `Get` fails: the pool is unknown or closed, or a dial was needed (room left, or every pooled
    connection dead) and the node could not be dialled -/
theorem C15_get_fails_iff (s : St) (p : Nat) (pl : Pool) (hp : s.pools[p]? = some pl) :
    (get s p).2 = none ↔
      pl.closed = true ∨ (pl.dialOk = false ∧
        (pl.active.length < pl.maxActive ∨ ∀ c ∈ pl.active, isOpen s.conns c = false)) := by
  unfold get; rw [hp]; simp only
  by_cases hc : pl.closed = true
  · simp [hc]
  · have hcf : pl.closed = false := by simpa using hc
    rw [if_neg hc]
    by_cases hlt : pl.active.length < pl.maxActive
    · rw [if_pos hlt]
      cases hd : pl.dialOk <;> simp [dial, hd, hcf, hlt]
    · rw [if_neg hlt]
      cases hr : rotateRev s.conns pl.active.reverse with
      | some pr =>
        obtain ⟨id, rest⟩ := pr
        have hopen := rotateRev_open hr
        have hmem : id ∈ pl.active := List.mem_reverse.mp ((rotateRev_sublist hr).subset (List.mem_cons_self ..))
        simp only [hcf, Bool.false_eq_true, false_or, hlt]
        constructor
        · intro h; cases h
        · rintro ⟨_, hall⟩
          rw [hall id hmem] at hopen; cases hopen
      | none =>
        have hall : ∀ c ∈ pl.active, isOpen s.conns c = false := by
          intro c hc'
          -- an open connection in the list would have been found
          cases ho : isOpen s.conns c with
          | false => rfl
          | true =>
            exfalso
            have : ∀ l : List Nat, c ∈ l → rotateRev s.conns l ≠ none := by
              intro l
              induction l with
              | nil => intro h; cases h
              | cons a t ih =>
                intro hm
                unfold rotateRev
                by_cases hoa : isOpen s.conns a = true
                · rw [if_pos hoa]; exact fun h => by cases h
                · rw [if_neg hoa]
                  rcases List.mem_cons.mp hm with h1 | h1
                  · subst h1; exact absurd ho hoa
                  · exact ih h1
            exact this _ (List.mem_reverse.mpr hc') hr
        cases hd : pl.dialOk <;> simp [dial, hd, hcf, hlt] <;> exact hall

/-- a request is either queued on an OPEN connection or answered with the error at once; in the second case
    nothing was dialled (so nothing can be waiting on a connection) -/
theorem C15_request_served_or_refused (s : St) (isRead : Bool) :
    (∃ c, (request s isRead).2 = .fwd c ∧ isOpen (request s isRead).1.conns c = true) ∨
    ((request s isRead).2 = .err ∧ (request s isRead).1.conns = s.conns) := by
  have gc : ∀ (t : St) (t1 : St) (r : Option Nat) (b : Bool), getConn t isRead = (t1, r, b) →
      (∀ c, r = some c → isOpen t1.conns c = true) ∧ (r = none → t1.conns = t.conns) := by
    intro t t1 r b h
    unfold getConn at h
    simp only at h
    generalize hs0 : (if routePool t isRead = 1 then updPool t 1 (fun pl => { pl with flag := false }) else t) = t0 at h
    have hc0 : t0.conns = t.conns := by
      rw [← hs0]; split
      · exact updPool_conns _ _ _
      · rfl
    cases hg : get t0 (routePool t isRead) with
    | mk u r' =>
      rw [hg] at h
      cases r' with
      | none =>
        simp only at h
        injection h with h1 h2; injection h2 with h2 h3
        subst h1; subst h2
        refine ⟨fun c hc => (by cases hc), fun _ => ?_⟩
        rw [updPool_conns, get_none_conns hg, hc0]
      | some c =>
        simp only at h
        injection h with h1 h2; injection h2 with h2 h3
        subst h1; subst h2
        refine ⟨fun c' hc => ?_, fun hn => by cases hn⟩
        injection hc with hc; subst hc
        rw [updPool_conns]; exact (get_some hg).1
  unfold request
  split
  · next s1 c b heq =>
    exact Or.inl ⟨c, rfl, (gc s s1 (some c) b heq).1 c rfl⟩
  · next s1 heq =>
    have h1 := (gc s s1 none true heq).2 rfl
    split
    · next s2 c b heq2 => exact Or.inl ⟨c, rfl, (gc s1 s2 (some c) b heq2).1 c rfl⟩
    · next s2 b heq2 => exact Or.inr ⟨rfl, by rw [(gc s1 s2 none b heq2).2 rfl, h1]⟩
  · next s1 heq => exact Or.inr ⟨rfl, (gc s s1 none false heq).2 rfl⟩

/-- `Pool.Close` (the node left the topology): every pooled connection is closed, the list emptied, the pool
    closed; from then on `Get` refuses without dialling -/
theorem C15_close_closes_all (s : St) (p : Nat) (pl : Pool) (hp : s.pools[p]? = some pl) (hcl : pl.closed = false)
    (hI : Inv s) :
    (∀ c ∈ pl.active, isOpen (close s p).conns c = false) ∧
    (∃ pl', (close s p).pools[p]? = some pl' ∧ pl'.closed = true ∧ pl'.active = []) ∧
    get (close s p) p = (close s p, none) := by
  have hne : ¬ pl.closed = true := by rw [hcl]; exact Bool.false_ne_true
  have hrel : release s p = { pools := s.pools.set p { pl with active := [] }, conns := closeConns s.conns pl.active } := by
    unfold release; rw [hp]; simp only; rw [if_neg hne]
  have hrp : (release s p).pools[p]? = some { pl with active := [] } := by
    rw [hrel]; simp only; rw [List.getElem?_set_self']; rw [hp]; rfl
  have hcs : close s p = setPool (release s p) p { pl with active := [], closed := true } := by
    unfold close; rw [hp]; simp only; rw [if_neg hne, hrp]
  have hpl' : (close s p).pools[p]? = some { pl with active := [], closed := true } := by
    rw [hcs]; exact setPool_self_get _ hrp
  refine ⟨fun c hc => ?_, ⟨_, hpl', rfl, rfl⟩, ?_⟩
  · rw [hcs]; show isOpen (release s p).conns c = false
    rw [hrel]
    obtain ⟨x, hx, _, _⟩ := (hI p pl hp).1 c hc
    have hlt : c < s.conns.length := by
      rcases Nat.lt_or_ge c s.conns.length with h | h
      · exact h
      · rw [List.getElem?_eq_none_iff.mpr h] at hx; cases hx
    exact closeConns_closes _ _ _ hc hlt
  · unfold get; rw [hpl']; simp

/-- a closed pool stays closed, whatever happens afterwards -/
theorem C15_closed_is_final (s : St) (p : Nat) (op : Op) (pl : Pool) (hp : s.pools[p]? = some pl)
    (hc : pl.closed = true) : ∃ pl', (step s op).pools[p]? = some pl' ∧ pl'.closed = true := by
  -- every operation rewrites pools only through `set`, and never clears `closed`
  have upd : ∀ (t : St) (q : Nat) (f : Pool → Pool), (∀ x, (f x).closed = x.closed) →
      ∀ plq, t.pools[p]? = some plq → plq.closed = true →
      ∃ pl', (updPool t q f).pools[p]? = some pl' ∧ pl'.closed = true := by
    intro t q f hf plq hq hcq
    by_cases hqp : q = p
    · subst hqp; exact ⟨f plq, updPool_get_self f hq, by rw [hf]; exact hcq⟩
    · exact ⟨plq, by rw [updPool_get_ne f hqp]; exact hq, hcq⟩
  have getk : ∀ (t : St) (q : Nat) plq, t.pools[p]? = some plq → plq.closed = true →
      ∃ pl', (get t q).1.pools[p]? = some pl' ∧ pl'.closed = true := by
    intro t q plq hq hcq
    cases hg : get t q with
    | mk t' r =>
      cases get_cases hg with
      | refused h1 _ _ => subst h1; exact ⟨plq, hq, hcq⟩
      | dialled pl1 pl0 hp1 hcl1 h0 hact hd =>
        have hqp : q ≠ p := by
          intro h; subst h; rw [hq] at hp1; injection hp1 with hp1; subst hp1; rw [hcq] at hcl1; cases hcl1
        rcases dial_spec hd with ⟨_, _, hs⟩ | ⟨_, _, hs⟩ <;> subst hs
        · exact ⟨plq, by show (t.pools.set q _)[p]? = _; rw [List.getElem?_set_ne hqp]; exact hq, hcq⟩
        · exact ⟨plq, by show (t.pools.set q _)[p]? = _; rw [List.getElem?_set_ne hqp]; exact hq, hcq⟩
      | rotated pl1 hp1 hcl1 id rest hfull hrot hs hr =>
        have hqp : q ≠ p := by
          intro h; subst h; rw [hq] at hp1; injection hp1 with hp1; subst hp1; rw [hcq] at hcl1; cases hcl1
        subst hs
        exact ⟨plq, by show (t.pools.set q _)[p]? = _; rw [List.getElem?_set_ne hqp]; exact hq, hcq⟩
  have relk : ∀ (t : St) (q : Nat) plq, t.pools[p]? = some plq → plq.closed = true →
      ∃ pl', (release t q).pools[p]? = some pl' ∧ pl'.closed = true := by
    intro t q plq hq hcq
    unfold release
    cases hl : t.pools[q]? with
    | none => exact ⟨plq, hq, hcq⟩
    | some x =>
      simp only
      by_cases hx : x.closed = true
      · rw [if_pos hx]; exact ⟨plq, hq, hcq⟩
      · rw [if_neg hx]
        have hqp : q ≠ p := by
          intro h; subst h; rw [hq] at hl; injection hl with hl; subst hl; exact hx hcq
        exact ⟨plq, by show (t.pools.set q _)[p]? = _; rw [List.getElem?_set_ne hqp]; exact hq, hcq⟩
  have gck : ∀ (t : St) (r : Bool) plq, t.pools[p]? = some plq → plq.closed = true →
      ∃ pl', (getConn t r).1.pools[p]? = some pl' ∧ pl'.closed = true := by
    intro t r plq hq hcq
    unfold getConn; simp only
    have h0 : ∃ pl0, (if routePool t r = 1 then updPool t 1 (fun pl => { pl with flag := false }) else t).pools[p]? = some pl0
        ∧ pl0.closed = true := by
      split
      · exact upd t 1 _ (fun _ => rfl) plq hq hcq
      · exact ⟨plq, hq, hcq⟩
    generalize (if routePool t r = 1 then updPool t 1 (fun pl => { pl with flag := false }) else t) = t0 at h0
    obtain ⟨pl0, hq0, hc0⟩ := h0
    obtain ⟨pl1, hq1, hc1⟩ := getk t0 (routePool t r) pl0 hq0 hc0
    cases hg : get t0 (routePool t r) with
    | mk u r' =>
      rw [hg] at hq1
      cases r' with
      | none => exact upd u _ banFail (fun _ => rfl) pl1 hq1 hc1
      | some c => exact upd u _ _ (fun _ => rfl) pl1 hq1 hc1
  cases op with
  | get q => exact getk s q pl hp hc
  | lose c => exact ⟨pl, hp, hc⟩
  | vanish c => exact ⟨pl, hp, hc⟩
  | setDial q ok =>
    have : setDial s q ok = updPool s q (fun pl => { pl with dialOk := ok }) := by unfold setDial updPool; rfl
    show ∃ pl', (setDial s q ok).pools[p]? = some pl' ∧ pl'.closed = true
    rw [this]; exact upd s q _ (fun _ => rfl) pl hp hc
  | expire q =>
    show ∃ pl', (expire s q).pools[p]? = some pl' ∧ pl'.closed = true
    rw [expire_eq]; exact upd s q _ (fun _ => rfl) pl hp hc
  | release q => exact relk s q pl hp hc
  | close q =>
    show ∃ pl', (close s q).pools[p]? = some pl' ∧ pl'.closed = true
    unfold close
    cases hl : s.pools[q]? with
    | none => exact ⟨pl, hp, hc⟩
    | some x =>
      simp only
      by_cases hx : x.closed = true
      · rw [if_pos hx]; exact ⟨pl, hp, hc⟩
      · rw [if_neg hx]
        obtain ⟨pl1, hq1, hc1⟩ := relk s q pl hp hc
        cases hl1 : (release s q).pools[q]? with
        | none => exact ⟨pl1, hq1, hc1⟩
        | some y =>
          simp only
          by_cases hqp : q = p
          · subst hqp; exact ⟨_, setPool_self_get _ hl1, rfl⟩
          · exact ⟨pl1, by show ((release s q).pools.set q _)[p]? = _; rw [List.getElem?_set_ne hqp]; exact hq1, hc1⟩
  | setSlave q b =>
    show ∃ pl', (setIsSlave s q b).pools[p]? = some pl' ∧ pl'.closed = true
    unfold setIsSlave
    cases hl : s.pools[q]? with
    | none => exact ⟨pl, hp, hc⟩
    | some x =>
      simp only
      by_cases hb : x.isSlave = b
      · rw [if_pos hb]; exact ⟨pl, hp, hc⟩
      · rw [if_neg hb]
        by_cases hqp : q = p
        · subst hqp
          rw [hp] at hl; injection hl with hl; subst hl
          exact relk _ q { pl with isSlave := b } (setPool_self_get _ hp) hc
        · exact relk _ q pl (by show (s.pools.set q _)[p]? = _; rw [List.getElem?_set_ne hqp]; exact hp) hc
  | req r =>
    show ∃ pl', (serve s r).1.pools[p]? = some pl' ∧ pl'.closed = true
    rw [serve_pools]
    obtain ⟨pl1, hq1, hc1⟩ := gck s r pl hp hc
    unfold request
    split
    · next s1 c b heq => rw [heq] at hq1; exact ⟨pl1, hq1, hc1⟩
    · next s1 heq =>
      rw [heq] at hq1
      obtain ⟨pl2, hq2, hc2⟩ := gck s1 r pl1 hq1 hc1
      split
      · next s2 c b heq2 => rw [heq2] at hq2; exact ⟨pl2, hq2, hc2⟩
      · next s2 b heq2 => rw [heq2] at hq2; exact ⟨pl2, hq2, hc2⟩
    · next s1 heq => rw [heq] at hq1; exact ⟨pl1, hq1, hc1⟩

/-- the loss is discovered by the write itself (the peer went away and no EOF was delivered yet): the request that
    was queued on that connection is answered with the connection-closed error, the connection is closed - so the
    pool will not hand it out again - and nothing else changes in the pools -/
theorem C15_write_failure_closes (s : St) (isRead : Bool) (c : Nat) (h : (serve s isRead).2 = .lost c) :
    isOpen (serve s isRead).1.conns c = false ∧ (request s isRead).2 = .fwd c ∧
    (serve s isRead).1.pools = (request s isRead).1.pools := by
  refine ⟨?_, ?_, serve_pools s isRead⟩
  · cases hr : request s isRead with
    | mk s1 o =>
      cases o with
      | err => simp [serve, hr] at h
      | fwd c' =>
        cases hx : s1.conns[c']? with
        | none => simp [serve, hr, deliver, hx] at h
        | some x =>
          by_cases hg : x.gone = true
          · simp [serve, hr, deliver, hx, hg] at h ⊢
            subst h
            exact isOpen_modify_self _ _
          · simp [serve, hr, deliver, hx, hg] at h
  · cases hr : request s isRead with
    | mk s1 o =>
      cases o with
      | err => simp [serve, hr] at h
      | fwd c' =>
        cases hd : deliver s1 c' with
        | mk s2 ok =>
          cases ok <;> simp [serve, hr, hd] at h ⊢
          exact h

/-- every request has one of three fates, each of which answers the client or puts the request on a live socket:
    written to an open connection, failed by the write (error reply, connection closed), refused (error reply) -/
theorem C15_serve_total (s : St) (isRead : Bool) :
    (∃ c, (serve s isRead).2 = .fwd c ∧ isOpen (serve s isRead).1.conns c = true) ∨
    (∃ c, (serve s isRead).2 = .lost c ∧ isOpen (serve s isRead).1.conns c = false) ∨
    (serve s isRead).2 = .err := by
  cases hs : (serve s isRead).2 with
  | err => exact Or.inr (Or.inr rfl)
  | lost c => exact Or.inr (Or.inl ⟨c, rfl, (C15_write_failure_closes s isRead c hs).1⟩)
  | fwd c =>
    refine Or.inl ⟨c, rfl, ?_⟩
    cases hr : request s isRead with
    | mk s1 o =>
      cases o with
      | err => simp [serve, hr] at hs
      | fwd c' =>
        have hopen : isOpen s1.conns c' = true := by
          rcases C15_request_served_or_refused s isRead with ⟨c2, h1, h2⟩ | ⟨h1, _⟩
          · rw [hr] at h1 h2; simp only at h1 h2; injection h1 with h1; subst h1; exact h2
          · rw [hr] at h1; cases h1
        cases hx : s1.conns[c']? with
        | none => simp [isOpen, hx] at hopen
        | some x =>
          by_cases hg : x.gone = true
          · simp [serve, hr, deliver, hx, hg] at hs
          · simp [serve, hr, deliver, hx, hg] at hs ⊢
            subst hs; exact hopen

/-! ### connections only ever go from open to closed -/

theorem getConn_ext (s : St) (isRead : Bool) : Ext s.conns (getConn s isRead).1.conns := by
  unfold getConn; simp only
  have h0 : (if routePool s isRead = 1 then updPool s 1 (fun pl => { pl with flag := false }) else s).conns = s.conns := by
    split
    · exact updPool_conns _ _ _
    · rfl
  generalize (if routePool s isRead = 1 then updPool s 1 (fun pl => { pl with flag := false }) else s) = s0 at h0
  cases hg : get s0 (routePool s isRead) with
  | mk u r =>
    have he := get_ext hg
    rw [h0] at he
    cases r with
    | none => simp only; rw [updPool_conns]; exact he
    | some c => simp only; rw [updPool_conns]; exact he

theorem request_ext (s : St) (isRead : Bool) : Ext s.conns (request s isRead).1.conns := by
  have h1 := getConn_ext s isRead
  unfold request
  split
  · next s1 c _ heq => rw [heq] at h1; exact h1
  · next s1 heq =>
    rw [heq] at h1
    have h2 := getConn_ext s1 isRead
    split
    · next s2 c _ heq2 => rw [heq2] at h2; exact h1.trans h2
    · next s2 _ heq2 => rw [heq2] at h2; exact h1.trans h2
  · next s1 heq => rw [heq] at h1; exact h1

theorem step_ext (s : St) (op : Op) : Ext s.conns (step s op).conns := by
  cases op with
  | get p => exact get_ext (s' := (get s p).1) (r := (get s p).2) rfl
  | lose c => exact ext_modify _ c
  | vanish c => exact ext_vanish _ c
  | setDial p ok =>
    show Ext s.conns (setDial s p ok).conns
    unfold setDial; cases s.pools[p]? <;> exact Ext.refl _
  | expire p =>
    show Ext s.conns (expire s p).conns
    rw [expire_eq, updPool_conns]; exact Ext.refl _
  | release p => exact release_ext s p
  | close p =>
    show Ext s.conns (close s p).conns
    unfold close
    cases hl : s.pools[p]? with
    | none => exact Ext.refl _
    | some pl =>
      simp only
      split
      · exact Ext.refl _
      · have := release_ext s p
        cases (release s p).pools[p]? <;> exact this
  | setSlave p b =>
    show Ext s.conns (setIsSlave s p b).conns
    unfold setIsSlave
    cases hl : s.pools[p]? with
    | none => exact Ext.refl _
    | some pl =>
      simp only
      split
      · exact Ext.refl _
      · exact release_ext (setPool s p { pl with isSlave := b }) p
  | req r => exact (request_ext s r).trans (serve_ext s r)

theorem run_ext (s : St) (ops : List Op) : Ext s.conns (run s ops).conns := by
  induction ops generalizing s with
  | nil => exact Ext.refl _
  | cons op rest ih => exact (step_ext s op).trans (ih (step s op))

/-- a connection that is closed stays closed through every later history - a lost connection is never revived,
    and (with `C15_get_never_closed`) never handed out again -/
theorem C15_dead_stays_dead (s : St) (c : Nat) (hc : c < s.conns.length) (h : isOpen s.conns c = false)
    (ops : List Op) : isOpen (run s ops).conns c = false :=
  closed_stays_closed (run_ext s ops) hc h

theorem C15_dead_never_returned (s : St) (c : Nat) (hc : c < s.conns.length) (h : isOpen s.conns c = false)
    (ops : List Op) (p : Nat) (s' : St) (c' : Nat) (hg : get (run s ops) p = (s', some c')) : c' ≠ c := by
  intro e; subst e
  have hopen := (get_some hg).1
  have hdead := C15_dead_stays_dead s c' hc h ops
  have hlen : c' < (run s ops).conns.length := Nat.lt_of_lt_of_le hc (run_ext s ops).1
  have := closed_stays_closed (get_ext hg) hlen hdead
  rw [hopen] at this; cases this

/-- a role change releases the connections and nothing else: the pool stays open (its health monitor ends only
    with `Close`), the ban state is untouched -/
theorem C20_role_change_keeps_pool (s : St) (p : Nat) (b : Bool) (pl : Pool) (hp : s.pools[p]? = some pl) :
    ∃ pl', (setIsSlave s p b).pools[p]? = some pl' ∧ pl'.closed = pl.closed ∧ pl'.order = pl.order ∧
      pl'.flag = pl.flag ∧ pl'.isSlave = b := by
  unfold setIsSlave; rw [hp]; simp only
  by_cases hb : pl.isSlave = b
  · rw [if_pos hb]; exact ⟨pl, hp, rfl, rfl, rfl, hb⟩
  · rw [if_neg hb]
    have hl' : (setPool s p { pl with isSlave := b }).pools[p]? = some { pl with isSlave := b } := setPool_self_get _ hp
    unfold release; rw [hl']; simp only
    by_cases hc : pl.closed = true
    · rw [if_pos hc]; exact ⟨_, hl', rfl, rfl, rfl, rfl⟩
    · rw [if_neg hc]
      refine ⟨{ pl with isSlave := b, active := [] }, ?_, rfl, rfl, rfl, rfl⟩
      simp only [setPool, List.set_set]
      rw [List.getElem?_set_self']; rw [hp]; rfl

/-! ### C10 -/

/-- a pool never holds more connections than `server_connections` (at least one), in every reachable state -/
theorem C10_pool_bound (m : Nat) (rep : Bool) (ops : List Op) (p : Nat) (pl : Pool)
    (hp : (run (init m rep) ops).pools[p]? = some pl) : pl.active.length ≤ max pl.maxActive 1 :=
  (pool_inv_reachable m rep ops p pl hp).2.1

/-- one connection per node: while it is open, `Get` keeps returning that very connection and leaves the pool
    as it is (so every request for the node travels over one socket) -/
theorem C10_single_connection_reused (s : St) (p : Nat) (pl : Pool) (c : Nat) (hp : s.pools[p]? = some pl)
    (hcl : pl.closed = false) (hm : pl.maxActive = 1) (ha : pl.active = [c]) (ho : isOpen s.conns c = true) :
    get s p = (setPool s p pl, some c) := by
  have e : ({ pl with active := [c] } : Pool) = pl := by cases pl; simp_all
  have hne : ¬ pl.closed = true := by rw [hcl]; exact Bool.false_ne_true
  have hfull : ¬ pl.active.length < pl.maxActive := by rw [ha, hm]; simp
  unfold get; rw [hp]; simp only
  rw [if_neg hne, if_neg hfull, ha, List.reverse_singleton, rotateRev_head ho]
  simp only [List.reverse_nil]
  rw [e]

/-- with several connections and all of them alive `Get` takes the one at the back and moves it to the front:
    round-robin over the pooled connections -/
theorem C10_get_rotates (s : St) (p : Nat) (pl : Pool) (front : List Nat) (c : Nat) (hp : s.pools[p]? = some pl)
    (hcl : pl.closed = false) (ha : pl.active = front ++ [c]) (hfull : ¬ pl.active.length < pl.maxActive)
    (ho : isOpen s.conns c = true) :
    get s p = (setPool s p { pl with active := c :: front }, some c) := by
  unfold get; rw [hp]; simp only [hcl, Bool.false_eq_true, if_false]
  rw [if_neg hfull, ha, List.reverse_append, List.reverse_singleton, List.singleton_append, rotateRev_head ho]
  simp only [List.reverse_reverse]

/-! ### C04 -/

/-- every pooled connection was dialled by its pool with the pool's CURRENT role: a role change releases what was
    pooled, so a replica connection always started with READONLY and a master connection never did -/
theorem C04_pooled_role (m : Nat) (rep : Bool) (ops : List Op) (p : Nat) (pl : Pool)
    (hp : (run (init m rep) ops).pools[p]? = some pl) (c : Nat) (hc : c ∈ pl.active) :
    ∃ x, (run (init m rep) ops).conns[c]? = some x ∧ x.pool = p ∧ x.slave = pl.isSlave :=
  (pool_inv_reachable m rep ops p pl hp).1 c hc

/-- the connection `Get` returns carries the pool's current role -/
theorem C04_get_role (m : Nat) (rep : Bool) (ops : List Op) (p : Nat) (s' : St) (c : Nat)
    (h : get (run (init m rep) ops) p = (s', some c)) :
    ∃ x pl', s'.conns[c]? = some x ∧ s'.pools[p]? = some pl' ∧ x.slave = pl'.isSlave := by
  have hI := inv_get (pool_inv_reachable m rep ops) h
  obtain ⟨_, pl', hp', hh⟩ := get_some h
  have hmem : c ∈ pl'.active := by
    cases ha : pl'.active with
    | nil => rw [ha] at hh; cases hh
    | cons a t => rw [ha] at hh; simp at hh; subst hh; exact List.mem_cons_self ..
  obtain ⟨x, hx, _, hxs⟩ := (hI p pl' hp').1 c hmem
  exact ⟨x, pl', hx, hp', hxs⟩

/-! ### C20: the ban state a failed dial leaves behind -/

/-- the ban order never leaves 0..5 -/
theorem C20_ban_order_bounded (m : Nat) (rep : Bool) (ops : List Op) (p : Nat) (pl : Pool)
    (hp : (run (init m rep) ops).pools[p]? = some pl) : pl.order ≤ 5 :=
  (pool_inv_reachable m rep ops p pl hp).2.2.1

/-- one failed `getConn`: the node is banned for 2^order retry periods, the order climbs by one up to 5 -/
theorem C20_ban_backoff (pl : Pool) :
    (banFail pl).flag = true ∧ (banFail pl).banUnits = 2 ^ pl.order ∧ (banFail pl).order = min (pl.order + 1) 5 := by
  refine ⟨rfl, rfl, ?_⟩
  simp only [banFail]; split <;> omega

/-- `n` failed attempts in a row -/
def failN : Nat → Pool → Pool
  | 0, q => q
  | n + 1, q => failN n (banFail q)

/-- `k + 1` failures in a row starting from a clean node: order `min (k+1) 5`, the last ban `2^(min k 5)` periods -/
theorem C20_fail_streak (pl : Pool) (h0 : pl.order = 0) (k : Nat) :
    (failN (k + 1) pl).order = min (k + 1) 5 ∧ (failN (k + 1) pl).banUnits = 2 ^ (min k 5) := by
  have step : ∀ (n : Nat) (q : Pool), q.order = min n 5 →
      (banFail q).order = min (n + 1) 5 ∧ (banFail q).banUnits = 2 ^ (min n 5) := by
    intro n q hq
    refine ⟨?_, by simp only [banFail]; rw [hq]⟩
    simp only [banFail]; split <;> omega
  have gen : ∀ (k : Nat) (q : Pool) (n : Nat), q.order = min n 5 →
      (failN (k + 1) q).order = min (n + k + 1) 5 ∧ (failN (k + 1) q).banUnits = 2 ^ (min (n + k) 5) := by
    intro k
    induction k with
    | zero => intro q n hq; exact step n q hq
    | succ j ih =>
      intro q n hq
      have := ih (banFail q) (n + 1) (step n q hq).1
      have e1 : n + 1 + j + 1 = n + (j + 1) + 1 := by omega
      have e2 : n + 1 + j = n + (j + 1) := by omega
      rw [e1, e2] at this; exact this
  have := gen k pl 0 (by rw [h0]; rfl)
  simpa using this

/-- `getConn`'s bookkeeping: a failed attempt applies `banFail` to the routed pool (and asks for a second attempt
    when the node was a replica), a successful one resets its order -/
theorem C20_getConn_fail (s : St) (isRead : Bool) (u : St)
    (hg : get (if routePool s isRead = 1 then updPool s 1 (fun pl => { pl with flag := false }) else s)
            (routePool s isRead) = (u, none)) :
    getConn s isRead = (updPool u (routePool s isRead) banFail, none, decide (routePool s isRead = 1)) := by
  unfold getConn; simp only; rw [hg]

theorem C20_getConn_ok (s : St) (isRead : Bool) (u : St) (c : Nat)
    (hg : get (if routePool s isRead = 1 then updPool s 1 (fun pl => { pl with flag := false }) else s)
            (routePool s isRead) = (u, some c)) :
    getConn s isRead = (updPool u (routePool s isRead) (fun pl => { pl with order := 0 }), some c, false) := by
  unfold getConn; simp only; rw [hg]

/-- what `route` does with a flagged replica, as the code has it: while the ban has not run out the replica is
    picked (and un-flagged); once it has run out the replica is skipped and reads go to the master - until the
    health monitor clears the flag (DESIGN §9: the log messages say the opposite) -/
theorem route_with_flagged_replica (s : St) (rp : Pool) (h : s.pools[1]? = some rp) (hf : rp.flag = true) :
    routePool s true = (if rp.banPassed then 0 else 1) ∧ routePool s false = 0 := by
  unfold routePool; rw [h]; simp [hf]
  cases rp.banPassed <;> rfl

/-- a replica that is not flagged gets the reads, a master-only topology sends everything to the master -/
theorem route_unflagged (s : St) :
    (∀ rp, s.pools[1]? = some rp → rp.flag = false → routePool s true = 1) ∧
    (s.pools[1]? = none → ∀ r, routePool s r = 0) := by
  constructor
  · intro rp h hf; unfold routePool; rw [h]; simp [hf]
  · intro h r; unfold routePool; rw [h]

/-! ### non-vacuity: concrete histories evaluated by the kernel -/

/-- the replica cannot be dialled, is flagged, its ban runs out: the next read goes to the master -/
example :
    let s := run (init 1 true) [.setDial 1 false, .req true, .expire 1]
    (serve s true).2 = .fwd 0 ∧ ((serve s true).1.conns.map (·.pool)) = [0] := by decide


/-- two connections dialled, the older one lost: `Get` skips it, hands out the live one; when that is lost too a
    third one is dialled -/
example :
    let s := run (init 2 false) [.get 0, .get 0, .lose 0]
    (get s 0).2 = some 1 ∧ (get (lose s 1) 0).2 = some 2 := by decide

/-- a node that cannot be dialled: three reads of its only replica (two attempts each) take the order to its
    cap, each is answered with the error, nothing is dialled -/
example :
    let s := run (init 1 true) [.setDial 1 false, .req true, .req true, .req true]
    (s.pools.map (·.order)) = [0, 5] ∧ (s.pools.map (·.banUnits)) = [0, 32] ∧ s.conns = [] ∧
    (request s true).2 = .err := by decide

/-- the node comes back: the next read is served over a new connection and the order is reset -/
example :
    let s := run (init 1 true) [.setDial 1 false, .req true, .setDial 1 true]
    (request s true).2 = .fwd 0 ∧ ((request s true).1.pools.map (·.order)) = [0, 0] := by decide

/-- a role change releases the pooled connections; the next one is dialled with the new role -/
example :
    let s := run (init 2 true) [.req true, .setSlave 1 false, .req true]
    s.conns.map (fun x => (x.opened, x.slave)) = [(false, true), (true, false)] := by decide

/-- the peer of the only connection vanishes: the next request is failed by its write, the connection is closed,
    and the request after that is served over a new connection -/
example :
    let s := run (init 1 false) [.req false, .vanish 0]
    (serve s false).2 = .lost 0 ∧ (serve (serve s false).1 false).2 = .fwd 1 := by decide

/-- a closed pool refuses and dials nothing -/
example :
    let s := run (init 2 false) [.get 0, .close 0]
    (get s 0).2 = none ∧ s.conns.map (·.opened) = [false] ∧ (request s false).2 = .err := by decide

end RcVerif.PoolBan
