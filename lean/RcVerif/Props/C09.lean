import RcVerif.Props.C01
/-
  C09 — completed replies are delivered promptly, not withheld by later requests.

  Safety form over all event histories: after EVERY event, on every open client connection the
  request at the head of the queue is not complete - i.e. the moment the backends have answered a
  request and all earlier ones, those replies have been written (within the same event-loop
  iteration), however many further requests are queued behind them. The wall-clock latency of one
  iteration is not modelled.
-/
namespace RcVerif.Props.C09
open RcVerif RcVerif.Sim RcVerif.Lemmas.SimInv RcVerif.Props.C01

def C09_statement : Prop :=
  ∀ (cfg : Cfg) (slotFn : Bytes → Nat) (pools : List (Bytes × Bool)) (table : List (Nat × Nat × RSet))
    (es : List Event) (c : Nat) (cl : Client),
    (reach cfg slotFn pools table es).flag = none →
    (reach cfg slotFn pools table es).clients[c]? = some cl → cl.opened = true →
      -- no completed request is waiting at the head of the queue
      donePrefix (reach cfg slotFn pools table es).msgs cl.queue = []

theorem C09 : C09_statement := by
  intro cfg slotFn pools table es c cl hflag hcl hop
  have hg := good_run goTables goStrs cfg slotFn es _ (good_init goStrs cfg pools table)
  rcases hg with hg | hg
  · rw [hflag] at hg; exact absurd hg (by simp)
  · have hok := hg c cl hcl
    have hh := hok.head (by simp) hop
    cases hq : cl.queue with
    | nil => simp [donePrefix]
    | cons i rest =>
      rw [hq] at hh
      unfold donePrefix
      cases hr : (reach cfg slotFn pools table es).msgs[i]? with
      | none => rfl
      | some r => simp [hh r hr]

/-- in particular a flush has nothing left to deliver: every reply that could be delivered has been -/
theorem C09_nothing_withheld (cfg : Cfg) (slotFn : Bytes → Nat) (pools : List (Bytes × Bool)) (table : List (Nat × Nat × RSet))
    (es : List Event) (c : Nat) (cl : Client)
    (hflag : (reach cfg slotFn pools table es).flag = none)
    (hcl : (reach cfg slotFn pools table es).clients[c]? = some cl) (hop : cl.opened = true) :
    flushClient (reach cfg slotFn pools table es) c = reach cfg slotFn pools table es := by
  have h := C09 cfg slotFn pools table es c cl hflag hcl hop
  unfold flushClient State.client
  rw [hcl]
  simp [hop, h]

/- non-vacuity: GET a; GET b on two nodes, only a answered: a's reply is already on the wire (the repaired defect) -/
def exEvents : List Event :=
  [.connect true,
   .clientBytes 0 [42, 50, 13, 10, 36, 51, 13, 10, 103, 101, 116, 13, 10, 36, 49, 13, 10, 97, 13, 10,
                   42, 50, 13, 10, 36, 51, 13, 10, 103, 101, 116, 13, 10, 36, 49, 13, 10, 98, 13, 10]
     [{ visit := [(15495, [110])] }, { visit := [(3300, [109])] }],
   .runTasks,
   .backendBytes 1 [36, 49, 13, 10, 118, 13, 10]]
example :
    let s := reach exCfg goSlot [([109], false), ([110], false)]
      [(0, 8191, { master := [109], slaves := [] }), (8192, 16383, { master := [110], slaves := [] })] exEvents
    s.flag = none ∧ s.clients.map (·.out) = [[36, 49, 13, 10, 118, 13, 10]] ∧ s.clients.map (·.queue.length) = [1] := by
  decide +kernel

end RcVerif.Props.C09
