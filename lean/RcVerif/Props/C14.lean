import RcVerif.Model.Cluster
import RcVerif.Model.Inst
/-
  C14 — the routing table follows the latest valid CLUSTER NODES description; unusable probe
  replies leave the previous map in force and never stop later updates from being adopted.

  * `C14_alive` / `C14_alive_history`: whatever the probe replies were, the refresh loop is
    still running (for ALL byte strings and all histories);
  * `C14_keeps_*`: each class of unusable reply leaves the published state untouched;
  * `C14_adopts`: a usable text is adopted from ANY reachable state: the published nodes are
    exactly the usable lines, grouped master -> its replicas;
  * `C14_filter`: which lines are usable (failed / handshake / noaddr / disconnected / address-less
    nodes and loading or link-down NEW replicas are excluded);
  * `C14_table`: the slot table built by the ticker maps a slot to a published set whose master
    claims it, and to nothing when no master claims it.
  Not modelled: the interleaving of the refresh goroutine with the ticker (publication is
  taken as atomic) and the once-per-second cadence.
-/
namespace RcVerif.Props.C14
open RcVerif RcVerif.Cluster RcVerif.Resp RcVerif.SDecode

variable (info : Bytes → Option Info)

abbrev step (st : RState) (msg : Bytes) : RState := onProbeReply Gen.redisClusterSlots info st msg

theorem adopt_alive (st : RState) (text : Bytes) : (adopt Gen.redisClusterSlots info st text).alive = st.alive := by
  unfold adopt
  split
  · rfl
  · simp only
    split <;> rfl

/-- the loop never exits: no probe reply, however malformed, stops the refresh goroutine -/
theorem C14_alive (st : RState) (msg : Bytes) (h : st.alive = true) : (step info st msg).alive = true := by
  unfold step onProbeReply
  simp only [h, Bool.not_true, Bool.false_eq_true, ↓reduceIte]
  split
  · exact h
  · rw [adopt_alive]; exact h

theorem C14_alive_history (msgs : List Bytes) (st : RState) (h : st.alive = true) :
    (msgs.foldl (step info) st).alive = true := by
  induction msgs generalizing st with
  | nil => exact h
  | cons m ms ih => exact ih _ (C14_alive info st m h)

/-- a reply the gate rejects leaves the whole state untouched -/
theorem C14_keeps (st : RState) (msg : Bytes) (h : probeText msg = none) : step info st msg = st := by
  unfold step onProbeReply
  split
  · rfl
  · rw [h]

/-- error replies (`-ERR ...`, `-LOADING ...`), statuses, integers, arrays: anything that is not a bulk string -/
theorem C14_gate_non_bulk (msg : Bytes) (h : msg.head? ≠ some 36) : probeText msg = none := by
  unfold probeText
  split
  · rfl
  · split
    · rfl
    · split
      · rfl
      · split
        · rfl
        · simp [h]

/-- the nil reply `$-1` -/
theorem C14_gate_nil (rest : Bytes) : probeText ([36, 45, 49] ++ rest) = none := by
  unfold probeText; simp

/-- `+OK` -/
theorem C14_gate_ok (rest : Bytes) : probeText ([43, 79, 75] ++ rest) = none := by
  unfold probeText; simp

/-- a too short reply -/
theorem C14_gate_short (msg : Bytes) (h : msg.length < 3) : probeText msg = none := by
  unfold probeText; simp [h]

/-- an oversized text or a malformed length -/
theorem C14_gate_length (msg : Bytes) (text : Bytes) (h : probeText msg = some text) :
    ∃ lf n, indexOf 10 msg = some lf ∧ parseLen ((msg.take (lf - 1)).drop 1) = .ok n ∧ n ≤ 163840 ∧
      msg.head? = some 36 ∧ text = (msg.take (msg.length - 3)).drop (lf + 1) := by
  unfold probeText at h
  split at h
  · exact absurd h (by simp)
  split at h
  · exact absurd h (by simp)
  split at h
  · exact absurd h (by simp)
  split at h
  · exact absurd h (by simp)
  rename_i lf hlf
  split at h
  · exact absurd h (by simp)
  rename_i hc
  split at h
  · exact absurd h (by simp)
  rename_i n hn
  split at h
  · exact absurd h (by simp)
  rename_i hle
  injection h with h
  simp only [not_or, ne_eq, Decidable.not_not] at hc
  exact ⟨lf, n, hlf, hn, by omega, hc.1, h.symm⟩

/-- a text with fewer than three usable nodes is not adopted -/
theorem C14_keeps_few_nodes (st : RState) (text : Bytes)
    (h : parseText Gen.redisClusterSlots (fun a => st.servers.any (·.addr = a)) info text = none) :
    adopt Gen.redisClusterSlots info st text = st := by
  unfold adopt; rw [h]

theorem parseText_len (known : Bytes → Bool) (text : Bytes) (ns : List Node)
    (h : parseText Gen.redisClusterSlots known info text = some ns) :
    3 ≤ ns.length ∧ ns = (splitOn 10 text).filterMap (parseLineNode Gen.redisClusterSlots known info) := by
  unfold parseText at h
  simp only at h
  split at h
  · exact absurd h (by simp)
  · injection h with h; subst h; exact ⟨by omega, rfl⟩

/-- **adoption**: from ANY state (whatever unusable replies came before), a text whose usable lines are
    `ns` either publishes exactly those nodes - grouped master -> its replicas, change flag raised - or,
    when its change signature and node count equal what was published last, leaves the published sets -/
theorem C14_adopts (st : RState) (text : Bytes) (ns : List Node)
    (h : parseText Gen.redisClusterSlots (fun a => st.servers.any (·.addr = a)) info text = some ns) :
    let st' := adopt Gen.redisClusterSlots info st text
    (st'.servers = setServers ns ∧ st'.sets = setReplicasets ns ∧ st'.changed = true) ∨
    (st'.servers = st.servers ∧ st'.sets = st.sets ∧ st'.changed = st.changed ∧
      sortBytes (ns.map sigOf) = st.lastNames ∧ ns.length = st.servers.length) := by
  intro st'
  simp only [st', adopt, h]
  split
  · exact Or.inl ⟨rfl, rfl, rfl⟩
  · rename_i hch
    simp only [ne_eq, not_or, Decidable.not_not] at hch
    exact Or.inr ⟨rfl, rfl, rfl, hch.2, hch.1⟩

/-- **line filter**: a line contributes a node only if it has at least eight columns, is flagged master
    or slave, is not flagged noaddr / handshake / fail(?), its link is not disconnected, it has a usable
    address - and, if the node was not known before, INFO answered and a replica is neither loading
    nor cut off from its master -/
theorem C14_filter (known : Bytes → Bool) (line : Bytes) (n : Node)
    (h : parseLineNode Gen.redisClusterSlots known info line = some n) :
    let xs := splitOn 32 line
    8 ≤ xs.length ∧
    isInfix bNoaddr (xs.getD 2 []) = false ∧ isInfix bHandshake (xs.getD 2 []) = false ∧
    isInfix bFail (xs.getD 2 []) = false ∧
    (isInfix bMaster (xs.getD 2 []) = true ∨ isInfix bSlave (xs.getD 2 []) = true) ∧
    isInfix bDisconnected (xs.getD 7 []) = false ∧
    n.addr = parseAddr (xs.getD 1 []) ∧ n.addr ≠ [] ∧
    (known n.addr = true ∨ ∃ i, info n.addr = some i ∧ (n.isSlave = true → i.loading = false ∧ i.linkUp = true)) := by
  intro xs
  unfold parseLineNode at h
  simp only at h
  split at h
  · rename_i hu
    unfold lineUsable at hu
    simp only [Bool.and_eq_true, decide_eq_true_eq, Bool.not_eq_true', Bool.or_eq_true] at hu
    obtain ⟨⟨⟨⟨⟨⟨h8, hna⟩, hhs⟩, hfail⟩, hrole⟩, hdis⟩, haddr⟩ := hu
    cases hn : nodeOfLine Gen.redisClusterSlots (splitOn 32 line) with
    | none => rw [hn] at h; exact absurd h (by simp)
    | some nd =>
      rw [hn] at h
      simp only at h
      have hnd_addr : nd.addr = parseAddr (xs.getD 1 []) := by
        unfold nodeOfLine at hn
        simp only at hn
        split at hn
        · injection hn with hn; subst hn; rfl
        · split at hn
          · exact absurd hn (by simp)
          · split at hn
            · exact absurd hn (by simp)
            · injection hn with hn; subst hn; rfl
      unfold admitNode at h
      have hfin : n = nd ∧ (known nd.addr = true ∨ ∃ i, info nd.addr = some i ∧ (nd.isSlave = true → i.loading = false ∧ i.linkUp = true)) := by
        split at h
        · rename_i hk; injection h with h; exact ⟨h.symm, Or.inl hk⟩
        · split at h
          · exact absurd h (by simp)
          · rename_i i hi
            split at h
            · exact absurd h (by simp)
            · rename_i hl
              split at h
              · exact absurd h (by simp)
              · rename_i hu2
                injection h with h
                refine ⟨h.symm, Or.inr ⟨i, hi, ?_⟩⟩
                intro hs
                constructor
                · by_cases hld : i.loading = true
                  · exact absurd ⟨hs, hld⟩ hl
                  · simpa using hld
                · by_cases hup : i.linkUp = true
                  · exact hup
                  · exact absurd ⟨hs, by simpa using hup⟩ hu2
      obtain ⟨hnn, hinfo⟩ := hfin
      subst hnn
      refine ⟨h8, hna, hhs, hfail, hrole, hdis, hnd_addr, ?_, hinfo⟩
      rw [hnd_addr]
      intro he
      have he' : parseAddr ((splitOn 32 line).getD 1 []) = [] := he
      rw [he'] at haddr
      exact absurd haddr (by simp)
  · exact absurd h (by simp)

def SetsOK (ns : List Node) (sets : List (Node × List Node)) : Prop :=
  ∀ p ∈ sets, p.1 ∈ ns ∧ p.1.isSlave = false ∧ ∀ s ∈ p.2, s ∈ ns ∧ s.isSlave = true ∧ s.masterId = p.1.name

theorem attach_ok (ns : List Node) (sets : List (Node × List Node)) (sl : Node)
    (h : SetsOK ns sets) (hsl : sl ∈ ns) (hs : sl.isSlave = true) :
    SetsOK ns (match sets.findIdx? (fun p => p.1.name = sl.masterId) with
      | some i => sets.mapIdx (fun j p => if j = i then (p.1, p.2 ++ [sl]) else p)
      | none => sets) := by
  cases hf : sets.findIdx? (fun p => p.1.name = sl.masterId) with
  | none => exact h
  | some i =>
    simp only
    intro p hp
    rw [List.mem_mapIdx] at hp
    obtain ⟨j, hj, rfl⟩ := hp
    have hmem : sets[j] ∈ sets := List.getElem_mem hj
    have hq := h sets[j] hmem
    by_cases hji : j = i
    · subst hji
      simp only [↓reduceIte]
      refine ⟨hq.1, hq.2.1, ?_⟩
      intro s hs'
      rcases List.mem_append.mp hs' with h1 | h1
      · exact hq.2.2 s h1
      · simp at h1; subst h1
        have := List.findIdx?_eq_some_iff_getElem.mp hf
        obtain ⟨hlt, hp1, _⟩ := this
        exact ⟨hsl, hs, by simpa using (Eq.symm (by simpa using hp1))⟩
    · simp only [hji, ↓reduceIte]; exact hq

/-- the published replica sets: every master is a usable master line, its replicas are exactly usable
    replica lines that name it -/
theorem C14_sets_sound (ns : List Node) : SetsOK ns (setReplicasets ns) := by
  unfold setReplicasets
  simp only
  have hinit : SetsOK ns ((ns.filter (fun n => !n.isSlave)).map (fun m => (m, []))) := by
    intro p hp
    obtain ⟨m, hm, rfl⟩ := List.mem_map.mp hp
    have := List.mem_filter.mp hm
    exact ⟨this.1, by simpa using this.2, by simp⟩
  have hsl : ∀ s ∈ ns.filter (·.isSlave), s ∈ ns ∧ s.isSlave = true := fun s hs => by
    have := List.mem_filter.mp hs; exact ⟨this.1, this.2⟩
  generalize (ns.filter (·.isSlave)) = sls at hsl
  generalize ((ns.filter (fun n => !n.isSlave)).map (fun m => (m, ([] : List Node)))) = sets0 at hinit
  induction sls generalizing sets0 with
  | nil => exact hinit
  | cons s rest ih =>
    simp only [List.foldl_cons]
    apply ih
    · intro x hx; exact hsl x (by simp [hx])
    · exact attach_ok ns sets0 s hinit (hsl s (by simp)).1 (hsl s (by simp)).2

/-- **slot table**: a slot is served by a published set whose master claims it -/
theorem C14_table (sets : List (Node × List Node)) (slot : Nat) (p : Node × List Node)
    (h : slotTable sets slot = some p) :
    p ∈ sets ∧ ∃ r ∈ p.1.slots, r.1 ≤ slot ∧ slot ≤ r.2 := by
  unfold slotTable at h
  have hm := List.mem_of_find?_eq_some h
  have hp := List.find?_some h
  refine ⟨List.mem_reverse.mp hm, ?_⟩
  simp only [List.any_eq_true, decide_eq_true_eq] at hp
  exact hp

/-- ... and an unclaimed slot is served by nobody (requests for it are answered with an error) -/
theorem C14_unclaimed (sets : List (Node × List Node)) (slot : Nat)
    (h : ∀ p ∈ sets, ∀ r ∈ p.1.slots, ¬ (r.1 ≤ slot ∧ slot ≤ r.2)) :
    slotTable sets slot = none := by
  unfold slotTable
  apply List.find?_eq_none.mpr
  intro p hp
  simp only [List.any_eq_true, decide_eq_true_eq, not_exists, not_and]
  intro r hr
  have := h p (List.mem_reverse.mp hp) r hr
  intro h1; exact fun h2 => this ⟨h1, h2⟩

/-- claimed slots are served: if some published master claims the slot, the table has an entry -/
theorem C14_claimed (sets : List (Node × List Node)) (slot : Nat) (p : Node × List Node) (hp : p ∈ sets)
    (r : Nat × Nat) (hr : r ∈ p.1.slots) (h : r.1 ≤ slot ∧ slot ≤ r.2) :
    (slotTable sets slot).isSome := by
  unfold slotTable
  rw [List.find?_isSome]
  exact ⟨p, List.mem_reverse.mpr hp, by simp only [List.any_eq_true, decide_eq_true_eq]; exact ⟨r, hr, h⟩⟩

/- non-vacuity / regression witnesses (kernel-evaluated): one `-ERR` reply keeps the loop alive, `*0` and `:5`
   do not panic and change nothing -/
example : (step (fun _ => none) {} [45, 69, 82, 82, 32, 120, 13, 10]).alive = true := by decide +kernel
example : step (fun _ => none) {} [42, 48, 13, 10] = ({} : RState) := C14_keeps _ _ _ (C14_gate_non_bulk _ (by decide))
example : parseSlot 16384 [49, 54, 51, 56, 52] = none := by decide +kernel       -- "16384" is out of range
example : parseSlot 16384 [53, 45, 49] = none := by decide +kernel               -- "5-1" is reversed
example : parseSlot 16384 [48, 45, 49, 54, 51, 56, 51] = some (0, 16383) := by decide +kernel

end RcVerif.Props.C14
