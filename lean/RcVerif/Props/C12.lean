import RcVerif.Lemmas.Decode
import RcVerif.Model.Inst
/-
  C12 (decoder level) — whatever bytes a client sends:
  * the decoder never reaches a Go panic and always returns one of
    incomplete / invalid / a request (never "no request and no error");
  * when it returns a request it consumed at least one and at most the buffered
    bytes, and every fragment it built for forwarding is a command a Redis
    server accepts (canonical RESP) — nothing Redis rejects is ever forwarded;
  * `invalid` closes the offending connection (event-loop level, see Sim).
  The statements quantify over ALL byte strings, limits and slot functions.
-/
namespace RcVerif.Props.C12
open RcVerif RcVerif.Resp RcVerif.CDecode RcVerif.Commands
open RcVerif.Lemmas.Decode RcVerif.Lemmas.Frame

/-- totality: no input makes the decoder panic -/
theorem C12_no_panic (slot : Bytes → Nat) (limit : Nat) (view : Bytes) :
    decode goTables slot limit view ≠ .panic :=
  decode_no_panic goTables slot limit view

/-- the decoder's outcome is always one of the three the event loop handles -/
theorem C12_total (slot : Bytes → Nat) (limit : Nat) (view : Bytes) :
    decode goTables slot limit view = .incomplete ∨ decode goTables slot limit view = .invalid ∨
    ∃ m n, decode goTables slot limit view = .ok m n := by
  cases h : decode goTables slot limit view with
  | incomplete => simp
  | invalid => simp
  | panic => exact absurd h (C12_no_panic slot limit view)
  | ok m n => exact Or.inr (Or.inr ⟨m, n, rfl⟩)

theorem build_frags_wellformed (T : Tables) (slot : Bytes → Nat) (limit : Nat) (name : Bytes)
    (args : List Bytes) (n : Nat) :
    ∀ p ∈ (build T slot limit name args (encodeCmd (toLower name) args) n).frags,
      Spec.WellFormedRequest p.2 := by
  have wf : ∀ nm ks, Spec.WellFormedRequest (encodeCmd nm ks) := fun nm ks =>
    ⟨nm :: ks, by simp, encodeCmd_eq_spec nm ks⟩
  intro p hp
  unfold build at hp
  simp only at hp
  split at hp
  · split at hp <;> (simp only [List.mem_map] at hp; obtain ⟨q, _, e⟩ := hp; rw [← e]; exact wf _ _)
  · split at hp
    · split at hp <;> (simp only [List.mem_map] at hp; obtain ⟨q, _, e⟩ := hp; rw [← e]; exact wf _ _)
    · split at hp
      · split at hp <;> (simp only [List.mem_singleton] at hp; rw [hp]; exact wf _ _)
      · split at hp <;> (simp only [List.mem_singleton] at hp; rw [hp]; exact wf _ _)

/-- **nothing malformed is forwarded**: an accepted request was a canonical encoding, exactly its
    bytes were consumed, and every fragment built from it is a well-formed Redis command -/
theorem C12_accepts_only_wellformed (slot : Bytes → Nat) (limit : Nat) (view : Bytes) (m : CMsg) (n : Nat)
    (h : decode goTables slot limit view = .ok m n) :
    0 < n ∧ n ≤ view.length ∧ Spec.WellFormedRequest (view.take n) ∧
    ∀ p ∈ m.frags, Spec.WellFormedRequest p.2 := by
  obtain ⟨name, args, t, hv, _, hn, hm⟩ := decode_ok goTables slot limit view m n h
  have hpos : 0 < (encodeCmd name args).length := by simp [encodeCmd]
  refine ⟨by omega, by rw [hv, hn]; simp, ?_, ?_⟩
  · rw [hv, hn, List.take_left']
    · exact ⟨name :: args, by simp, encodeCmd_eq_spec name args⟩
    · rfl
  · rw [hm]; exact build_frags_wellformed goTables slot limit name args n

/-- conversely, every input Redis would accept as one command is accepted (no over-rejection) -/
theorem C12_accepts_all_wellformed (slot : Bytes → Nat) (limit : Nat) (name : Bytes) (args : List Bytes)
    (t : Bytes) (hs : SmallReq name args) :
    ∃ m, decode goTables slot limit (Spec.encRequest (name :: args) ++ t)
      = .ok m (Spec.encRequest (name :: args)).length := by
  rw [← encodeCmd_eq_spec]
  exact ⟨_, decode_encode goTables slot limit name args t hs⟩

/- witnesses of the repaired defects, evaluated by the kernel: each of these inputs is now `invalid` -/
example : decode goTables goSlot 1000 [42, 48, 13, 10] = .invalid := by decide +kernel               -- "*0\r\n"
example : decode goTables goSlot 1000 [42, 45, 49, 13, 10] = .invalid := by decide +kernel           -- "*-1\r\n"
example : decode goTables goSlot 1000 [13, 10] = .invalid := by decide +kernel                       -- "\r\n"
example : decode goTables goSlot 1000 [42, 49, 10] = .invalid := by decide +kernel                   -- "*1\n"
example : decode goTables goSlot 1000
    [42, 48, 50, 13, 10, 36, 51, 13, 10, 103, 101, 116, 13, 10, 36, 49, 13, 10, 97, 13, 10] = .invalid := by
  decide +kernel                                                                                       -- "*02…"
example : decode goTables goSlot 1000
    [42, 50, 13, 10, 36, 51, 13, 10, 103, 101, 116, 13, 10, 36, 45, 49, 13, 10] = .invalid := by
  decide +kernel                                                                                       -- "$-1" as an argument
example : decode goTables goSlot 1000 [42, 50, 13, 10, 36, 51, 13, 10, 103, 101] = .incomplete := by
  decide +kernel                                                                                       -- a proper prefix

end RcVerif.Props.C12
