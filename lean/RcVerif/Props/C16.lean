import RcVerif.Props.C03
import RcVerif.Props.C09
import RcVerif.Lemmas.MergeBasic
/-
  C16 — a timed-out request gets exactly one timeout error, in its pipeline position; a backend reply
  that arrives later is discarded; the connection stays usable.

  * `C16_expiry_completes`: the expiry scan completes every request that has an unanswered fragment with
    a pending deadline with the timeout error and marks ALL its fragments done (split requests: once,
    whichever fragment's deadline fires first);
  * `C16_late_reply_discarded`: whatever redis answers for such a fragment later is dropped and changes
    nothing;
  * exactly once, in pipeline position, connection still usable: the invariants of C01 and C09 hold for
    ALL histories, expiry events included (`C16_position_and_once`): the error is delivered as the reply
    of that request number, replies before and after it keep their places, and nothing stays stuck at
    the head of the queue.
  Real clocks are not modelled: `expire` is "every pending deadline has passed".
-/
namespace RcVerif.Props.C16
open RcVerif RcVerif.Sim RcVerif.Merge RcVerif.Lemmas.SimInv RcVerif.Props.C01 RcVerif.Props.C03

/-- one entry of the expiry scan (`msgTimeout` on one fragment whose deadline has passed) -/
def tstep (S : Strs) (s : State) (f : FragRef) : State :=
  match f with
  | .frag mi slot =>
    match s.req mi with
    | none => s
    | some r =>
      match getFrag r.m slot with
      | none => s
      | some fr =>
        if fr.done then s
        else
          let m1 : MMsg := { r.m with frags := r.m.frags.map (fun x => if x.done then x else { x with err := S.errTimeout, done := true }) }
          let m2 : MMsg := { m1 with err := S.errTimeout, rspBody := S.errTimeout, fragDone := m1.frags.length, done := true }
          flushClient (s.updReq mi (fun r => { r with m := m2 })) r.owner
  | _ => s

theorem expire_eq (S : Strs) (s : State) (n : Nat) :
    expire S s n = { (((liveDeadlines s).take n).foldl (tstep S) s) with timeouts := (liveDeadlines s).drop n } := rfl

/-- the request was completed by a timeout: done, answered with the timeout error, every fragment done -/
def TimedOut (S : Strs) (r : Req) : Prop :=
  r.m.done = true ∧ r.m.rspBody = S.errTimeout ∧ r.m.err = S.errTimeout ∧ ∀ x ∈ r.m.frags, x.done = true

theorem tstep_other (S : Strs) (s : State) (f : FragRef) (mj : Nat)
    (h : ∀ slot, f ≠ .frag mj slot) : (tstep S s f).msgs[mj]? = s.msgs[mj]? := by
  unfold tstep
  cases f with
  | asking => rfl
  | probe => rfl
  | frag mi slot =>
    have hne : mj ≠ mi := fun e => h slot (by rw [e])
    dsimp only
    split
    · rfl
    · split
      · rfl
      · split
        · rfl
        · rw [msgs_flushClient, msgs_updReq_other _ mi mj _ hne]

theorem getFrag_done_of_all (m : MMsg) (slot : Nat) (fr : MFrag) (h : getFrag m slot = some fr)
    (hall : ∀ x ∈ m.frags, x.done = true) : fr.done = true := by
  unfold getFrag at h
  exact hall fr (List.mem_of_find?_eq_some h)

theorem tstep_keeps_timedOut (S : Strs) (s : State) (f : FragRef) (mi : Nat) (r : Req)
    (hr : s.msgs[mi]? = some r) (ht : TimedOut S r) : (tstep S s f).msgs[mi]? = some r := by
  by_cases hf : ∃ slot, f = .frag mi slot
  · obtain ⟨slot, rfl⟩ := hf
    unfold tstep State.req
    dsimp only
    rw [hr]
    dsimp only
    cases hg : getFrag r.m slot with
    | none => exact hr
    | some fr =>
      dsimp only
      have := getFrag_done_of_all r.m slot fr hg ht.2.2.2
      simp only [this, ↓reduceIte]
      exact hr
  · rw [tstep_other S s f mi (fun slot e => hf ⟨slot, e⟩)]; exact hr

theorem tstep_times_out (S : Strs) (s : State) (mi slot : Nat) (r : Req) (fr : MFrag)
    (hr : s.msgs[mi]? = some r) (hg : getFrag r.m slot = some fr) (hnd : fr.done = false) :
    ∃ r', (tstep S s (.frag mi slot)).msgs[mi]? = some r' ∧ TimedOut S r' ∧ r'.owner = r.owner ∧ r'.num = r.num := by
  unfold tstep State.req
  dsimp only
  rw [hr]
  dsimp only
  rw [hg]
  dsimp only
  simp only [hnd, Bool.false_eq_true, ↓reduceIte]
  rw [msgs_flushClient, msgs_updReq_same s mi _ r hr]
  refine ⟨_, rfl, ⟨rfl, rfl, rfl, ?_⟩, rfl, rfl⟩
  intro x hx
  simp only [List.mem_map] at hx
  obtain ⟨y, _, rfl⟩ := hx
  split
  · rename_i h; exact h
  · rfl

/-- **expiry completes**: every request that still has an unanswered fragment with a pending deadline is
    completed by the expiry scan with the timeout error (and all its fragments are marked done, so
    that whatever redis sends later is dropped) -/
theorem fold_times_out (S : Strs) (ts : List FragRef) (s : State) (mi : Nat) (r : Req)
    (hr : s.msgs[mi]? = some r) :
    (TimedOut S r → (ts.foldl (tstep S) s).msgs[mi]? = some r) ∧
    ((∃ slot fr, FragRef.frag mi slot ∈ ts ∧ getFrag r.m slot = some fr ∧ fr.done = false) →
      ∃ r', (ts.foldl (tstep S) s).msgs[mi]? = some r' ∧ TimedOut S r' ∧ r'.owner = r.owner ∧ r'.num = r.num) := by
  induction ts generalizing s r with
  | nil =>
    refine ⟨fun _ => hr, ?_⟩
    rintro ⟨slot, fr, hmem, _⟩; simp at hmem
  | cons f ts ih =>
    simp only [List.foldl_cons]
    constructor
    · intro ht
      exact (ih (tstep S s f) r (tstep_keeps_timedOut S s f mi r hr ht)).1 ht
    · rintro ⟨slot, fr, hmem, hg, hnd⟩
      by_cases hf : ∃ slot', f = .frag mi slot'
      · obtain ⟨slot', rfl⟩ := hf
        -- this entry targets the same request
        cases hg' : getFrag r.m slot' with
        | none =>
          have hsame : tstep S s (.frag mi slot') = s := by
            unfold tstep State.req; dsimp only; rw [hr]; dsimp only; rw [hg']
          rw [hsame]
          rcases List.mem_cons.mp hmem with he | hmem'
          · injection he with _ he; subst he; rw [hg] at hg'; simp at hg'
          · exact (ih s r hr).2 ⟨slot, fr, hmem', hg, hnd⟩
        | some fr' =>
          by_cases hd' : fr'.done = true
          · have hsame : tstep S s (.frag mi slot') = s := by
              unfold tstep State.req; dsimp only; rw [hr]; dsimp only; rw [hg']; dsimp only; simp [hd']
            rw [hsame]
            rcases List.mem_cons.mp hmem with he | hmem'
            · injection he with _ he; subst he
              rw [hg] at hg'; injection hg' with hg'; subst hg'
              rw [hnd] at hd'; exact absurd hd' (by simp)
            · exact (ih s r hr).2 ⟨slot, fr, hmem', hg, hnd⟩
          · obtain ⟨r', hr', ht', ho', hn'⟩ := tstep_times_out S s mi slot' r fr' hr hg' (by simpa using hd')
            exact ⟨r', (ih _ r' hr').1 ht', ht', ho', hn'⟩
      · have hr2 : (tstep S s f).msgs[mi]? = some r := by
          rw [tstep_other S s f mi (fun slot e => hf ⟨slot, e⟩)]; exact hr
        have hmem' : FragRef.frag mi slot ∈ ts := by
          rcases List.mem_cons.mp hmem with he | hmem'
          · exact absurd ⟨slot, he.symm⟩ hf
          · exact hmem'
        exact (ih _ r hr2).2 ⟨slot, fr, hmem', hg, hnd⟩


/-- **C16 (completion)** -/
theorem C16_expiry_completes (s : State) (n : Nat) (mi : Nat) (r : Req) (hr : s.msgs[mi]? = some r)
    (h : ∃ slot fr, FragRef.frag mi slot ∈ (liveDeadlines s).take n ∧ getFrag r.m slot = some fr ∧ fr.done = false) :
    ∃ r', (expire goStrs s n).msgs[mi]? = some r' ∧ r'.m.done = true ∧ r'.m.rspBody = Gen.strErrMsgRequestTimeout ∧
      (∀ x ∈ r'.m.frags, x.done = true) ∧ r'.owner = r.owner ∧ r'.num = r.num := by
  obtain ⟨r', h1, h2, h3, h4⟩ := (fold_times_out goStrs ((liveDeadlines s).take n) s mi r hr).2 h
  exact ⟨r', by rw [expire_eq]; exact h1, h2.1, h2.2.1, h2.2.2.2, h3, h4⟩

/-- a request none of whose deadlines has passed keeps its state -/
theorem C16_others_untouched (s : State) (n : Nat) (mj : Nat) (h : ∀ slot, FragRef.frag mj slot ∉ (liveDeadlines s).take n) :
    (expire goStrs s n).msgs[mj]? = s.msgs[mj]? := by
  rw [expire_eq]
  show (((liveDeadlines s).take n).foldl (tstep goStrs) s).msgs[mj]? = _
  generalize (liveDeadlines s).take n = ts at h
  induction ts generalizing s with
  | nil => rfl
  | cons f ts ih =>
    simp only [List.foldl_cons]
    rw [ih _ (fun slot hm => h slot (List.mem_cons_of_mem _ hm))]
    exact tstep_other goStrs s f mj (fun slot e => h slot (by rw [e]; simp))

/-- the deadlines that have not passed stay pending, in order; with `n` at least the number of pending deadlines all
    of them have passed -/
theorem C16_later_deadlines_stay (s : State) (n : Nat) : (expire goStrs s n).timeouts = (liveDeadlines s).drop n := rfl

theorem C16_all_passed (s : State) (n : Nat) (h : s.timeouts.length ≤ n) :
    (liveDeadlines s).take n = liveDeadlines s ∧ (expire goStrs s n).timeouts = [] := by
  have hl : (liveDeadlines s).length ≤ n := Nat.le_trans (List.length_filter_le _ _) h
  refine ⟨List.take_of_length_le hl, ?_⟩
  rw [C16_later_deadlines_stay]
  exact List.drop_of_length_le hl

/-- **C16 (late reply)**: after the timeout every fragment of the request is done, so whatever redis
    sends for it later is dropped without touching anything -/
theorem C16_late_reply_discarded (slotFn : Bytes → Nat) (limit : Nat) (r' : Req) (slot rtype : Nat) (body : Bytes) (fr : MFrag)
    (hall : ∀ x ∈ r'.m.frags, x.done = true) (hg : getFrag r'.m slot = some fr) :
    onReply goTables goMergeConsts slotFn limit r'.m slot rtype body = (r'.m, .dropped) :=
  RcVerif.Lemmas.MergeBasic.done_dropped goTables goMergeConsts slotFn limit r'.m slot rtype body fr hg
    (getFrag_done_of_all r'.m slot fr hg hall)

/-- **C16 (position, once, usable)**: for all histories - expiry events anywhere in them - each connection's
    delivered replies are its requests 0,1,2,.. in order (so the timeout error sits in its request's
    position and appears once), and no completed request is held back at the head of the queue -/
theorem C16_position_and_once (cfg : Cfg) (slotFn : Bytes → Nat) (pools : List (Bytes × Bool)) (table : List (Nat × Nat × RSet))
    (es : List Event) (c : Nat) (cl : Client)
    (hflag : (reach cfg slotFn pools table es).flag = none)
    (hcl : (reach cfg slotFn pools table es).clients[c]? = some cl) :
    cl.out = (cl.log.map (·.2)).flatten ∧ cl.log.map (·.1) = List.range cl.log.length ∧
    (cl.opened = true → cl.log.length + cl.queue.length = cl.decoded ∧
                        donePrefix (reach cfg slotFn pools table es).msgs cl.queue = []) := by
  have h1 := C01 cfg slotFn pools table es c cl hflag hcl
  refine ⟨h1.1, h1.2.1, fun hop => ⟨h1.2.2.2.1 hop, RcVerif.Props.C09.C09 cfg slotFn pools table es c cl hflag hcl hop⟩⟩

/- non-vacuity: GET b; GET a on two nodes with a timeout configured, expiry, then both late replies, then GET c:
   two timeout errors in position, the late replies dropped, the third request answered (the repaired defect) -/
def exCfgT : Cfg := { limit := 1000, timeout := true, passwd := [], disableSlave := false, maxActive := 1 }
def getReq (k : UInt8) : Bytes := [42, 50, 13, 10, 36, 51, 13, 10, 103, 101, 116, 13, 10, 36, 49, 13, 10, k, 13, 10]
def exEvents : List Event :=
  [.connect true,
   .clientBytes 0 (getReq 98 ++ getReq 97) [{ visit := [(3300, [109])] }, { visit := [(15495, [110])] }],
   .runTasks, .expire 2,
   .backendBytes 0 [36, 49, 13, 10, 120, 13, 10], .backendBytes 1 [36, 49, 13, 10, 121, 13, 10],
   .clientBytes 0 (getReq 98) [{ visit := [(3300, [109])] }], .runTasks,
   .backendBytes 0 [36, 49, 13, 10, 122, 13, 10]]
example :
    let s := reach exCfgT goSlot [([109], false), ([110], false)]
      [(0, 8191, { master := [109], slaves := [] }), (8192, 16383, { master := [110], slaves := [] })] exEvents
    s.flag = none ∧
    s.clients.map (·.out) = [Gen.strErrMsgRequestTimeout ++ Gen.strErrMsgRequestTimeout ++ [36, 49, 13, 10, 122, 13, 10]] ∧
    s.clients.map (·.queue.length) = [0] := by
  decide +kernel

/- only the earlier deadline has passed: the first request gets the timeout error (its late reply is dropped), the
   second one is answered normally -/
def exEventsOne : List Event :=
  [.connect true,
   .clientBytes 0 (getReq 98 ++ getReq 97) [{ visit := [(3300, [109])] }, { visit := [(15495, [110])] }],
   .runTasks, .expire 1,
   .backendBytes 0 [36, 49, 13, 10, 120, 13, 10], .backendBytes 1 [36, 49, 13, 10, 121, 13, 10]]
example :
    let s := reach exCfgT goSlot [([109], false), ([110], false)]
      [(0, 8191, { master := [109], slaves := [] }), (8192, 16383, { master := [110], slaves := [] })] exEventsOne
    s.flag = none ∧
    s.clients.map (·.out) = [Gen.strErrMsgRequestTimeout ++ [36, 49, 13, 10, 121, 13, 10]] ∧
    s.clients.map (·.queue.length) = [0] ∧ s.timeouts = [] := by
  decide +kernel

end RcVerif.Props.C16
