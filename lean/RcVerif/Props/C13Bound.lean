import RcVerif.Lemmas.SimRedir
import RcVerif.Props.C01
/-
  C13, termination over whole histories ("redirect handling always terminates").

  For EVERY history of the event-loop machine (any interleaving of requests, replies, MOVED / ASK redirects to any
  nodes, closes, expiries) and every fragment of every request: the number of times the fragment has been re-queued
  by a redirect is at most its redirect counter and at most `maxRedirects` (the Go constant, regenerated: 16).
  With `C13_bounded` (at the bound the request is completed with an error instead) a redirect loop - MOVED or ASK,
  between any nodes - ends after at most `maxRedirects` re-sends.
-/
namespace RcVerif.Props.C13
open RcVerif RcVerif.Sim RcVerif.Lemmas.SimRedir RcVerif.Props.C01

/-- **C13, bound**: over all histories, no fragment is ever re-sent more than `maxRedirects` times -/
theorem C13_resend_bound (cfg : Cfg) (slotFn : Bytes → Nat) (pools : List (Bytes × Bool)) (table : List (Nat × Nat × RSet))
    (es : List Event) (mi slot : Nat) :
    resends (reach cfg slotFn pools table es) mi slot ≤ Gen.maxRedirects ∧
    resends (reach cfg slotFn pools table es) mi slot ≤ red (reach cfg slotFn pools table es) mi slot := by
  have h : resends (reach cfg slotFn pools table es) mi slot ≤
      min (red (reach cfg slotFn pools table es) mi slot) goStrs.maxRedirects :=
    rinv_run goTables goStrs cfg slotFn es _ (rinv_init goStrs cfg pools table) mi slot
  have hmax : goStrs.maxRedirects = Gen.maxRedirects := rfl
  rw [hmax] at h
  omega

/-- the counter is written by redirect handling only: a reply merge keeps every fragment's counter -/
theorem C13_counter_untouched_by_replies (slotFn : Bytes → Nat) (limit : Nat) (m : Merge.MMsg) (slot rtype : Nat) (body : Bytes)
    (slot' : Nat) :
    RcVerif.Props.C13.redOf (Merge.onReply goTables goMergeConsts slotFn limit m slot rtype body).1 slot' =
      RcVerif.Props.C13.redOf m slot' :=
  redSame_onReply goTables goMergeConsts slotFn limit m slot rtype body slot'

/- non-vacuity: after the 17-redirect MOVED loop of `C13.exLoop` the fragment has been re-sent exactly 16 times -/
example :
    resends (reach exCfg goSlot exPools exTable exLoop) 0 15495 = 16 ∧
    red (reach exCfg goSlot exPools exTable exLoop) 0 15495 = 17 := by decide +kernel

end RcVerif.Props.C13
