import RcVerif.Model.Sim
import RcVerif.Model.PoolBan
namespace RcVerif.Props.PoolAgree
open RcVerif

/-- the pool's view of the event-loop model's connections -/
def asConns (backends : List Sim.Backend) : List PoolBan.Conn :=
  backends.map (fun b => { pool := 0, opened := b.opened, slave := b.isSlave })

theorem isOpen_asConns (backends : List Sim.Backend) (id : Nat) :
    PoolBan.isOpen (asConns backends) id = (match backends[id]? with | some b => b.opened | none => false) := by
  unfold PoolBan.isOpen asConns
  rw [List.getElem?_map]
  cases backends[id]? <;> rfl

/-- the two models of the rotation loop of `Pool.Get` agree: the event-loop model's `rotate` (fuel, from the back
    of the list) and the pool model's `rotateRev` (structural, on the reversed list) pick the same connection and
    leave the same list -/
theorem rotate_agrees (backends : List Sim.Backend) :
    ∀ (l : List Nat) (fuel : Nat), l.length < fuel →
      Sim.rotate backends fuel l.reverse =
        (PoolBan.rotateRev (asConns backends) l).map (fun p => (p.1, p.1 :: p.2.reverse)) := by
  intro l
  induction l with
  | nil =>
    intro fuel hf
    cases fuel with
    | zero => cases hf
    | succ f => simp [Sim.rotate, PoolBan.rotateRev]
  | cons a t ih =>
    intro fuel hf
    cases fuel with
    | zero => cases hf
    | succ f =>
      have hf' : t.length < f := by simp at hf; omega
      simp only [List.reverse_cons, Sim.rotate, List.getLast?_concat, List.dropLast_concat, PoolBan.rotateRev,
        isOpen_asConns]
      cases hb : backends[a]? with
      | none => simp only [Bool.false_eq_true, if_false]; exact ih f hf'
      | some b =>
        simp only
        by_cases ho : b.opened = true
        · simp [ho]
        · simp only [ho, if_false]; exact ih f hf'

/-- the pool model's picture of a pool of the event-loop model (which has no failing dials and marks a node that
    left the topology as `removed` instead of closing its pool) -/
def asPool (cfg : Sim.Cfg) (q : Sim.Pool) : PoolBan.Pool :=
  { maxActive := cfg.maxActive, active := q.active, isSlave := q.isSlave }

def asSt (cfg : Sim.Cfg) (s : Sim.State) : PoolBan.St :=
  { pools := s.pools.map (asPool cfg), conns := asConns s.backends }

/-- **the two models of `Pool.Get` agree**: on every state of the event-loop model, for every pool, the pool
    model (with dials that succeed) returns the connection the event-loop model's `poolGet` returns and leaves the
    same active list - the theorems proved over either model speak about the same function -/
theorem poolGet_agrees (S : Sim.Strs) (cfg : Sim.Cfg) (s : Sim.State) (p : Nat) (q : Sim.Pool)
    (hq : s.pools[p]? = some q) :
    (PoolBan.get (asSt cfg s) p).2 = some (Sim.poolGet S cfg s p).2 ∧
    ((PoolBan.get (asSt cfg s) p).1.pools[p]?).map (·.active) =
      ((Sim.poolGet S cfg s p).1.pools[p]?).map (·.active) := by
  have hp : (asSt cfg s).pools[p]? = some (asPool cfg q) := by simp [asSt, hq]
  have hlen : (asSt cfg s).conns.length = s.backends.length := by simp [asSt, asConns]
  have hplt : p < s.pools.length := by
    rcases Nat.lt_or_ge p s.pools.length with h | h
    · exact h
    · rw [List.getElem?_eq_none_iff.mpr h] at hq; cases hq
  have hqe : s.pools[p] = q := by
    have := List.getElem?_eq_getElem hplt
    rw [this] at hq; injection hq
  unfold PoolBan.get Sim.poolGet
  rw [hp, hq]
  simp only [asPool, Bool.false_eq_true, if_false]
  by_cases hlt : q.active.length < cfg.maxActive
  · simp only [hlt, ↓reduceIte]
    simp [PoolBan.dial, Sim.dial, hq, hqe, hlen, asSt, asConns, Sim.setAt, hplt, List.getElem?_set_self hplt]
  · simp only [hlt, ↓reduceIte]
    have hr := rotate_agrees s.backends q.active.reverse (q.active.length + 1) (by simp)
    rw [List.reverse_reverse] at hr
    rw [hr]
    have hc : (asSt cfg s).conns = asConns s.backends := rfl
    rw [hc]
    cases PoolBan.rotateRev (asConns s.backends) q.active.reverse with
    | none =>
      simp [PoolBan.dial, Sim.dial, hq, hqe, hlen, asSt, asConns, Sim.setAt, hplt, List.getElem?_set_self hplt]
    | some pr =>
      simp [PoolBan.setPool, asSt, Sim.setAt, hplt, List.getElem?_set_self hplt, hq, hqe]

end RcVerif.Props.PoolAgree
