import RcVerif.Lemmas.MergeMGet
import RcVerif.Lemmas.MergeDelSet
import RcVerif.Lemmas.Decode
import RcVerif.Model.SimInst
/-
  C07 — split multi-key replies are reassembled correctly in ANY arrival order.

  * MGET: one element per requested key, in request order, each equal to what the
    owning node returned for that key (null when absent, duplicates repeated, values
    any bytes);
  * DEL: the sum of the per-node counts;
  * MSET: OK only if every node answered OK;
  and the completion happens exactly at the last answer, whatever the order
  (`order` ranges over all permutations of the fragments).

  Stated over the constants regenerated from the Go source (`goTables`,
  `goMergeConsts`) and parametric in the slot function and in the nodes' contents.
-/
namespace RcVerif.Props.C07
open RcVerif RcVerif.Merge RcVerif.CDecode RcVerif.Commands RcVerif.Lemmas.Frame
open RcVerif.Lemmas.MergeMGet RcVerif.Lemmas.MergeDelSet RcVerif.Lemmas.Group RcVerif.Lemmas.Decode

theorem typesOK : TypesOK goTables := ⟨by decide, by decide, by decide⟩
theorem typesD : TypesD goTables := ⟨by decide, by decide, by decide, by decide, by decide⟩

/-- the request object the decoder builds for an MGET is a valid starting point: one fresh
    fragment per group, groups = keys grouped by slot (links C06 to C07) -/
theorem init_of_mget (slot : Bytes → Nat) (keys : List Bytes) (nm : Bytes) :
    let m0 := ofCMsg { type := goTables.cMget, key := [], keys := keys, groups := groupBySlot slot keys,
                       frags := (groupBySlot slot keys).map (fun p => (p.1, encodeCmd nm p.2)) }
    Init goTables slot m0 ∧ (m0.frags.map (·.slot)).Nodup := by
  intro m0
  have hslots : m0.frags.map (·.slot) = (groupBySlot slot keys).map (·.1) := by
    simp [m0, ofCMsg, List.map_map, Function.comp]
  refine ⟨⟨rfl, rfl, ?_, ?_, rfl, rfl⟩, ?_⟩
  · intro fr hfr
    simp only [m0, ofCMsg, List.mem_map] at hfr
    obtain ⟨p, _, rfl⟩ := hfr
    exact ⟨rfl, rfl⟩
  · intro s
    rw [hslots]
    constructor
    · rintro ⟨ks, h⟩; exact List.mem_map.mpr ⟨(s, ks), h, rfl⟩
    · intro h
      obtain ⟨p, hp, rfl⟩ := List.mem_map.mp h
      exact ⟨p.2, hp⟩
  · rw [hslots]; exact group_nodup slot keys

/-- **C07 (MGET)** -/
theorem C07_mget (slot : Bytes → Nat) (limit : Nat) (val : Bytes → Val) (m0 : MMsg)
    (hi : Init goTables slot m0) (hv : ∀ k, (val k).WF) (hsm : Small m0.keys.length)
    (hnd : (m0.frags.map (·.slot)).Nodup) (hne : m0.frags ≠ [])
    (hsz : ∀ s, (bodyOf slot val m0.keys s).length ≤ limit) (hfin : (finalOf val m0.keys).length ≤ limit)
    (order : List Nat) (hperm : order.Perm (m0.frags.map (·.slot))) :
    let r := feedOrder goTables goMergeConsts slot limit val m0 order m0.keys
    r.1.done = true ∧
    -- one element per requested key, in request order, as returned by the owning node
    r.1.rspBody = Spec.encReply (.array (m0.keys.map (fun k => (val k).reply))) ∧
    -- completed exactly at the last answer
    r.2 = List.replicate (order.length - 1) Signal.waiting ++ [Signal.ready] := by
  intro r
  have h := mget_any_order goTables goMergeConsts slot limit val typesOK m0 hi hv hsm hnd hne hsz hfin order hperm
  have hr : r = _ := h
  rw [hr]
  exact ⟨rfl, rfl, rfl⟩

/-- the result does not depend on the order the nodes answer in -/
theorem C07_mget_order_independent (slot : Bytes → Nat) (limit : Nat) (val : Bytes → Val) (m0 : MMsg)
    (hi : Init goTables slot m0) (hv : ∀ k, (val k).WF) (hsm : Small m0.keys.length)
    (hnd : (m0.frags.map (·.slot)).Nodup) (hne : m0.frags ≠ [])
    (hsz : ∀ s, (bodyOf slot val m0.keys s).length ≤ limit) (hfin : (finalOf val m0.keys).length ≤ limit)
    (o1 o2 : List Nat) (h1 : o1.Perm (m0.frags.map (·.slot))) (h2 : o2.Perm (m0.frags.map (·.slot))) :
    (feedOrder goTables goMergeConsts slot limit val m0 o1 m0.keys).1.rspBody
      = (feedOrder goTables goMergeConsts slot limit val m0 o2 m0.keys).1.rspBody := by
  rw [mget_any_order goTables goMergeConsts slot limit val typesOK m0 hi hv hsm hnd hne hsz hfin o1 h1,
      mget_any_order goTables goMergeConsts slot limit val typesOK m0 hi hv hsm hnd hne hsz hfin o2 h2]

/-- **C07 (DEL)**: the sum of the per-node counts, in any arrival order -/
theorem C07_del (slot : Bytes → Nat) (limit : Nat) (cnt : Nat → Nat) (m0 : MMsg)
    (hi : InitDel goTables m0) (hsm : ∀ s, Small (cnt s))
    (hnd : (m0.frags.map (·.slot)).Nodup) (hne : m0.frags ≠ []) (hsz : ∀ s, (delBody cnt s).length ≤ limit)
    (order : List Nat) (hperm : order.Perm (m0.frags.map (·.slot))) :
    let r := order.foldl (fun (acc : MMsg × List Signal) s =>
          let r := onReply goTables goMergeConsts slot limit acc.1 s goTables.rInteger (delBody cnt s)
          (r.1, acc.2 ++ [r.2])) (m0, [])
    r.1.done = true ∧
    r.1.rspBody = [58] ++ itoa (((m0.frags.map (·.slot)).map cnt).sum) ++ [13, 10] ∧
    r.2 = List.replicate (order.length - 1) Signal.waiting ++ [Signal.ready] := by
  intro r
  have h := del_any_order goTables goMergeConsts slot limit cnt typesD m0 hi hsm hnd hne hsz order hperm
  have hr : r = _ := h
  rw [hr]
  refine ⟨rfl, ?_, rfl⟩
  simp [finish, finalDel, itoaInt]

/-- **C07 (MSET)**: OK only if every node answered OK, in any arrival order -/
theorem C07_mset (slot : Bytes → Nat) (limit : Nat) (rt : Nat → Nat) (body : Nat → Bytes) (m0 : MMsg)
    (hi : InitSet goTables m0)
    (hrt : ∀ s, rt s ≠ goTables.rMoved ∧ rt s ≠ goTables.rAsk ∧ rt s ≠ goTables.rError)
    (hnd : (m0.frags.map (·.slot)).Nodup) (hne : m0.frags ≠ []) (hsz : ∀ s, (body s).length ≤ limit)
    (order : List Nat) (hperm : order.Perm (m0.frags.map (·.slot))) :
    let r := order.foldl (fun (acc : MMsg × List Signal) s =>
          let r := onReply goTables goMergeConsts slot limit acc.1 s (rt s) (body s)
          (r.1, acc.2 ++ [r.2])) (m0, [])
    r.1.done = true ∧
    (r.1.rspBody = Gen.strOK ↔ ∀ fr ∈ m0.frags, rt fr.slot = goTables.rOk) ∧
    r.2 = List.replicate (order.length - 1) Signal.waiting ++ [Signal.ready] := by
  intro r
  have h := mset_any_order goTables goMergeConsts slot limit rt body ⟨hrt, by decide⟩ m0 hi hnd hne hsz order hperm
  have hr : r = _ := h
  rw [hr]
  refine ⟨rfl, ?_, rfl⟩
  show finalSet goTables goMergeConsts rt m0 = Gen.strOK ↔ _
  unfold finalSet
  have hne' : goMergeConsts.errUnknown ≠ Gen.strOK := by decide
  by_cases hall : (m0.frags.all (fun fr => decide (rt fr.slot = goTables.rOk))) = true
  · simp only [hall, ↓reduceIte]
    constructor
    · intro _ fr hfr
      have := List.all_eq_true.mp hall fr hfr
      simpa using this
    · intro _; rfl
  · simp only [hall, Bool.false_eq_true, ↓reduceIte]
    constructor
    · intro h; exact absurd h hne'
    · intro h
      exfalso; apply hall
      exact List.all_eq_true.mpr (fun fr hfr => by simpa using h fr hfr)

/- non-vacuity: MGET over two slots answered in both orders, kernel-evaluated with the real slot function.
   keys "Foo" (slot 10576) and "Bar" (slot 5379); node values "1" and null -/
def exVal (k : Bytes) : Val := if k = [70, 111, 111] then .bulk [49] else .null
def exM0 : MMsg :=
  ofCMsg { type := goTables.cMget, key := [], keys := [[70, 111, 111], [66, 97, 114]],
           groups := groupBySlot goSlot [[70, 111, 111], [66, 97, 114]],
           frags := (groupBySlot goSlot [[70, 111, 111], [66, 97, 114]]).map (fun p => (p.1, encodeCmd nameMget p.2)) }
example : (feedOrder goTables goMergeConsts goSlot 1000 exVal exM0 [10576, 5379] exM0.keys).1.rspBody
    = [42, 50, 13, 10, 36, 49, 13, 10, 49, 13, 10, 36, 45, 49, 13, 10] := by decide +kernel
example : (feedOrder goTables goMergeConsts goSlot 1000 exVal exM0 [5379, 10576] exM0.keys).1.rspBody
    = [42, 50, 13, 10, 36, 49, 13, 10, 49, 13, 10, 36, 45, 49, 13, 10] := by decide +kernel

end RcVerif.Props.C07
