import RcVerif.Lemmas.SimInv
import RcVerif.Model.SimInst
/-
  C01 — on every client connection exactly one reply per request, in request order, nothing else.

  Stated over ALL histories of events of the event-loop machine (`Sim.run` from `Sim.init`), with
  arbitrary interleavings of client bytes, write signals, backend replies (in any order across
  connections), closes and expiries, and arbitrary choices for what Go leaves open:

  for every client connection, the bytes written to it are exactly the concatenation of the replies
  delivered so far; those replies answer the connection's requests number 0, 1, 2, ... in that order,
  each exactly once; and every request decoded so far is either delivered or still queued (none
  dropped) - for locally answered, rejected, single and split requests alike.
-/
namespace RcVerif.Props.C01
open RcVerif RcVerif.Sim RcVerif.Lemmas.SimInv

theorem good_init (S : Strs) (cfg : Cfg) (pools : List (Bytes × Bool)) (table : List (Nat × Nat × RSet)) :
    Good (Sim.init S cfg pools table) := by
  right
  unfold Sim.init
  have : ∀ (l : List Nat) (s : State), s.clients = [] → (l.foldl (fun s p => (poolGet S cfg s p).1) s).clients = [] := by
    intro l
    induction l with
    | nil => intro s h; exact h
    | cons p l ih =>
      intro s h
      exact ih _ (by rw [(same_poolGet S cfg s p).1]; exact h)
  intro c cl hc
  rw [this _ _ rfl] at hc
  simp at hc

/-- the state reached by any history -/
abbrev reach (cfg : Cfg) (slotFn : Bytes → Nat) (pools : List (Bytes × Bool)) (table : List (Nat × Nat × RSet))
    (es : List Event) : State :=
  run goTables goStrs cfg slotFn (Sim.init goStrs cfg pools table) es

/-- the full statement -/
def C01_statement : Prop :=
  ∀ (cfg : Cfg) (slotFn : Bytes → Nat) (pools : List (Bytes × Bool)) (table : List (Nat × Nat × RSet))
    (es : List Event) (c : Nat) (cl : Client),
    (reach cfg slotFn pools table es).flag = none →          -- inside the modelled domain
    (reach cfg slotFn pools table es).clients[c]? = some cl →
      -- nothing but replies is ever written: no stray bytes
      cl.out = (cl.log.map (·.2)).flatten ∧
      -- the delivered replies answer requests 0,1,2,.. in order, each exactly once
      cl.log.map (·.1) = List.range cl.log.length ∧
      -- the queue holds the next requests, in order
      cl.queue.map (numOf (reach cfg slotFn pools table es).msgs) = List.range' cl.log.length cl.queue.length ∧
      -- none dropped: every request decoded on an open connection is delivered or queued
      (cl.opened = true → cl.log.length + cl.queue.length = cl.decoded) ∧
      cl.log.length + cl.queue.length ≤ cl.decoded

theorem C01 : C01_statement := by
  intro cfg slotFn pools table es c cl hflag hcl
  have hg := good_run goTables goStrs cfg slotFn es _ (good_init goStrs cfg pools table)
  rcases hg with hg | hg
  · rw [hflag] at hg; exact absurd hg (by simp)
  · have hok := hg c cl hcl
    obtain ⟨k, h1, h2, h3, h4⟩ := hok.nums
    have hk : k = cl.log.length := by
      have := congrArg List.length h1; simpa using this.symm
    subst hk
    exact ⟨hok.out, h1, h2, h4, h3⟩

/-- corollary: the i-th reply on the wire belongs to the i-th request -/
theorem C01_ith_reply (cfg : Cfg) (slotFn : Bytes → Nat) (pools : List (Bytes × Bool)) (table : List (Nat × Nat × RSet))
    (es : List Event) (c : Nat) (cl : Client) (i : Nat) (p : Nat × Bytes)
    (hflag : (reach cfg slotFn pools table es).flag = none)
    (hcl : (reach cfg slotFn pools table es).clients[c]? = some cl) (hp : cl.log[i]? = some p) : p.1 = i := by
  have h := (C01 cfg slotFn pools table es c cl hflag hcl).2.1
  have : (cl.log.map (·.1))[i]? = some p.1 := by rw [List.getElem?_map, hp]; rfl
  rw [h] at this
  have hi : i < cl.log.length := (List.getElem?_eq_some_iff.mp hp).1
  rw [List.getElem?_range hi] at this
  injection this with this; exact this.symm

/- non-vacuity: "GET a; PING" in one chunk, then the backend answers: +PONG comes second
   (the repaired defect), evaluated by the kernel on the model with the real tables -/
def exCfg : Cfg := { limit := 1000, timeout := false, passwd := [], disableSlave := false, maxActive := 1 }
def exEvents : List Event :=
  [.connect true,
   .clientBytes 0 [42, 50, 13, 10, 36, 51, 13, 10, 103, 101, 116, 13, 10, 36, 49, 13, 10, 97, 13, 10,
                   42, 49, 13, 10, 36, 52, 13, 10, 112, 105, 110, 103, 13, 10] [{ visit := [(15495, [109])] }],
   .runTasks,
   .backendBytes 0 [36, 49, 13, 10, 118, 13, 10]]
example :
    let s := reach exCfg goSlot [([109], false)] [(0, 16383, { master := [109], slaves := [] })] exEvents
    s.flag = none ∧ (s.clients.map (·.out)) = [[36, 49, 13, 10, 118, 13, 10, 43, 80, 79, 78, 71, 13, 10]] ∧
    (s.clients.map (fun c => c.log.map (·.1))) = [[0, 1]] := by
  decide +kernel

end RcVerif.Props.C01
