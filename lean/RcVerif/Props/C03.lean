import RcVerif.Props.C01
/-
  C03 — a client never receives a reply produced for a different request.

  Over all event histories (client disconnects with requests in flight, unroutable slots, expiries,
  backend closes and re-dials included):
  * `C03_queue_is_own`: every request queued on a client connection is one that was decoded on that
    very connection (and, by C01, they are its requests number k, k+1, ...);
  * `C03_flush_writes_own`: a flush writes to a connection nothing but the stored replies of the
    completed requests at the head of ITS OWN queue, in order;
  * `C03_reply_touches_only_its_request`: merging a backend reply that was framed for fragment
    `(mi, slot)` changes request `mi` only - no other request's reply bytes or completion flag can
    be affected, whoever owns it;
  * which fragment a framed reply belongs to is positional (head of the connection's awaiting queue,
    `Sim.sreadLoop`), and that queue is the FIFO of what was written (C10).
  The message pool's object reuse is not part of the model: that it cannot be observed is exactly
  what the sim correspondence view checks on the real code (a recycled request object with a live
  fragment pointing at it shows up as a model/implementation disagreement and as a provenance
  failure of the trace oracle).
-/
namespace RcVerif.Props.C03
open RcVerif RcVerif.Sim RcVerif.Merge RcVerif.Lemmas.SimInv RcVerif.Props.C01

theorem C03_queue_is_own (cfg : Cfg) (slotFn : Bytes → Nat) (pools : List (Bytes × Bool)) (table : List (Nat × Nat × RSet))
    (es : List Event) (c : Nat) (cl : Client)
    (hflag : (reach cfg slotFn pools table es).flag = none)
    (hcl : (reach cfg slotFn pools table es).clients[c]? = some cl) :
    ∀ i ∈ cl.queue, ∃ r, (reach cfg slotFn pools table es).msgs[i]? = some r ∧ r.owner = c := by
  have hg := good_run goTables goStrs cfg slotFn es _ (good_init goStrs cfg pools table)
  rcases hg with hg | hg
  · rw [hflag] at hg; exact absurd hg (by simp)
  · exact (hg c cl hcl).own

/-! ### what a flush writes -/

theorem msgs_closeClient (s : State) (c : Nat) : (closeClient s c).msgs = s.msgs := rfl

/-- the update a flush applies to the connection when there is something to deliver -/
def flushUpd (s : State) (cl : Client) : Client → Client :=
  let ds := donePrefix s.msgs cl.queue
  let replies := ds.filterMap (fun i => (s.msgs[i]?).map (fun r => (r.num, r.m.rspBody)))
  fun cl0 => { cl0 with out := cl0.out ++ (replies.map (·.2)).flatten, queue := cl0.queue.drop ds.length,
                        log := cl0.log ++ replies }

/-- a flush is: nothing, or that update, or that update followed by closing the connection (QUIT) -/
theorem flushClient_cases (s : State) (c : Nat) :
    flushClient s c = s ∨
    ∃ cl, s.clients[c]? = some cl ∧ cl.opened = true ∧ (donePrefix s.msgs cl.queue).isEmpty = false ∧
      (flushClient s c = s.updClient c (flushUpd s cl) ∨
       flushClient s c = closeClient (s.updClient c (flushUpd s cl)) c) := by
  unfold flushClient State.client
  cases hcl : s.clients[c]? with
  | none => exact Or.inl rfl
  | some cl =>
    dsimp only
    by_cases hop : cl.opened = true
    · simp only [hop, Bool.not_true, Bool.false_eq_true, ↓reduceIte]
      by_cases hds : (donePrefix s.msgs cl.queue).isEmpty = true
      · simp only [hds, ↓reduceIte]; exact Or.inl trivial
      · have hds' : (donePrefix s.msgs cl.queue).isEmpty = false := by simpa using hds
        simp only [hds', Bool.false_eq_true, ↓reduceIte]
        right
        refine ⟨cl, rfl, hop, hds', ?_⟩
        unfold flushUpd
        dsimp only
        split
        · split
          · exact Or.inr rfl
          · exact Or.inl rfl
        · exact Or.inl rfl
    · have : cl.opened = false := by simpa using hop
      simp only [this, Bool.not_false, ↓reduceIte]; exact Or.inl trivial

theorem msgs_flushClient (s : State) (c : Nat) : (flushClient s c).msgs = s.msgs := by
  rcases flushClient_cases s c with h | ⟨cl, _, _, _, h | h⟩ <;> rw [h] <;> rfl

theorem msgs_deliver (s : State) (c : Nat) : (deliver s c).msgs = s.msgs := by
  unfold deliver
  split
  · split
    · rfl
    · split
      · rfl
      · exact msgs_flushClient s c
  · rfl

/-- a flush of connection `c` does not touch any other connection -/
theorem C03_flush_other_untouched (s : State) (c c' : Nat) (hne : c' ≠ c) :
    (flushClient s c).clients[c']? = s.clients[c']? := by
  rcases flushClient_cases s c with h | ⟨cl, _, _, _, h | h⟩ <;> rw [h]
  · exact client_updClient_other s c c' _ hne
  · unfold closeClient
    rw [client_updClient_other _ c c' _ hne, client_updClient_other s c c' _ hne]

/-- the bytes a flush adds to connection `c` are the stored replies of completed requests at the head of
    `c`'s own queue, in queue order -/
theorem C03_flush_writes_own (s : State) (c : Nat) (cl cl' : Client) (h : CInvX s none)
    (hcl : s.clients[c]? = some cl) (hcl' : (flushClient s c).clients[c]? = some cl') :
    ∃ ds rest, cl.queue = ds ++ rest ∧
      (∀ i ∈ ds, ∃ r, s.msgs[i]? = some r ∧ r.owner = c ∧ r.m.done = true) ∧
      cl'.out = cl.out ++ (ds.filterMap (fun i => (s.msgs[i]?).map (fun r => r.m.rspBody))).flatten := by
  have hok := h c cl hcl
  obtain ⟨rest, hq, hdone, _⟩ := donePrefix_spec s.msgs cl.queue
  have hown : ∀ i ∈ donePrefix s.msgs cl.queue, ∃ r, s.msgs[i]? = some r ∧ r.owner = c ∧ r.m.done = true := by
    intro i hi
    obtain ⟨r, hr, hd⟩ := hdone i hi
    obtain ⟨r', hr', ho⟩ := hok.own i (by rw [hq]; exact List.mem_append_left _ hi)
    rw [hr] at hr'; injection hr' with hr'; subst hr'
    exact ⟨r, hr, ho, hd⟩
  have hmapmap : ∀ ds : List Nat,
      ((ds.filterMap (fun i => (s.msgs[i]?).map (fun r => (r.num, r.m.rspBody)))).map (·.2))
        = ds.filterMap (fun i => (s.msgs[i]?).map (fun r => r.m.rspBody)) := by
    intro ds
    induction ds with
    | nil => rfl
    | cons i ds ih =>
      cases hr : s.msgs[i]? with
      | none => simp [List.filterMap_cons, hr, ih]
      | some r => simp [List.filterMap_cons, hr, ih]
  rcases flushClient_cases s c with hf | ⟨cl0, hcl0, _, _, hf | hf⟩
  · rw [hf, hcl] at hcl'; injection hcl' with hcl'; subst hcl'
    exact ⟨[], cl.queue, by simp, by simp, by simp⟩
  · rw [hcl] at hcl0; injection hcl0 with hcl0; subst hcl0
    rw [hf, client_updClient_same s c _ cl hcl] at hcl'
    injection hcl' with hcl'; subst hcl'
    refine ⟨donePrefix s.msgs cl.queue, rest, hq, hown, ?_⟩
    show cl.out ++ _ = _
    rw [hmapmap]
  · rw [hcl] at hcl0; injection hcl0 with hcl0; subst hcl0
    have hc1 := client_updClient_same s c (flushUpd s cl) cl hcl
    rw [hf] at hcl'
    unfold closeClient at hcl'
    rw [client_updClient_same _ c _ _ hc1] at hcl'
    injection hcl' with hcl'; subst hcl'
    refine ⟨donePrefix s.msgs cl.queue, rest, hq, hown, ?_⟩
    show cl.out ++ _ = _
    rw [hmapmap]

/-! ### merging a reply touches one request only -/

theorem msgs_updReq_other (s : State) (mi mj : Nat) (f : Req → Req) (h : mj ≠ mi) :
    (s.updReq mi f).msgs[mj]? = s.msgs[mj]? := by
  show (setAt s.msgs mi f)[mj]? = _
  rw [getElem?_setAt]; simp [h]

theorem msgs_onMoved_other (S : Strs) (cfg : Cfg) (s : State) (mi slot : Nat) (isAsk : Bool) (addr : Bytes) (mj : Nat)
    (h : mj ≠ mi) : (onMoved S cfg s mi slot isAsk addr).msgs[mj]? = s.msgs[mj]? := by
  unfold onMoved
  split
  · rw [(same_fail s _).2]
  · dsimp only
    split
    · rw [msgs_flushClient, msgs_updReq_other _ mi mj _ h, msgs_updReq_other _ mi mj _ h]
    · split
      · rw [msgs_flushClient, msgs_updReq_other _ mi mj _ h, msgs_updReq_other _ mi mj _ h]
      · rename_i p _
        have hp := (same_poolGet S cfg (s.updReq mi
          (fun r => { r with m := setFrag r.m slot (fun f => { f with redirects := f.redirects + 1 }) })) p).2
        split
        · show (enqueueOut (enqueueOut _ _ _) _ _).msgs[mj]? = _
          simp only [enqueueOut, State.updBackend]
          rw [hp, msgs_updReq_other _ mi mj _ h]
        · show (enqueueOut _ _ _).msgs[mj]? = _
          simp only [enqueueOut, State.updBackend]
          rw [hp, msgs_updReq_other _ mi mj _ h]

/-- **no cross-talk**: processing the reply framed for fragment `(mi, slot)` leaves every other request
    exactly as it was - its stored reply, its completion flag, its fragments -/
theorem C03_reply_touches_only_its_request (cfg : Cfg) (slotFn : Bytes → Nat) (s : State) (mi slot rtype : Nat)
    (body : Bytes) (mj : Nat) (h : mj ≠ mi) :
    (onFragReply goTables goStrs cfg slotFn s mi slot rtype body).1.msgs[mj]? = s.msgs[mj]? := by
  unfold onFragReply State.req
  cases hr : s.msgs[mi]? with
  | none => dsimp only; rw [(same_fail s _).2]
  | some r =>
    dsimp only
    generalize onReply goTables goStrs.merge slotFn cfg.limit r.m slot rtype body = res
    obtain ⟨m', sig⟩ := res
    dsimp only
    cases sig with
    | panic => dsimp only; rw [(same_fail _ _).2, msgs_updReq_other _ mi mj _ h]
    | dropped => exact msgs_updReq_other _ mi mj _ h
    | waiting => exact msgs_updReq_other _ mi mj _ h
    | redirect => dsimp only; rw [msgs_onMoved_other _ _ _ mi slot _ _ mj h, msgs_updReq_other _ mi mj _ h]
    | ready =>
      dsimp only
      split
      · dsimp only; rw [(same_fail _ _).2, msgs_updReq_other _ mi mj _ h]
      · dsimp only; rw [msgs_deliver, msgs_updReq_other _ mi mj _ h]

end RcVerif.Props.C03
