import RcVerif.Lemmas.Decode
import RcVerif.Lemmas.Tables
/-
  C17 — a request is served iff its command (case-insensitively) is in the
  supported set, its argument count satisfies that command's arity rule and its
  own encoded size is within the limit; exactly its own bytes are consumed either
  way (so the following requests are unaffected).

  Table part: the supported name set of the REGENERATED Go table equals the
  documented one (docs/command.md "Yes" rows, also regenerated) plus AUTH, and
  its arity classes equal the frozen reference (`Lemmas.Tables`).
-/
namespace RcVerif.Props.C17
open RcVerif RcVerif.Resp RcVerif.CDecode RcVerif.Commands
open RcVerif.Lemmas.Decode RcVerif.Lemmas.Tables RcVerif.Lemmas.Frame

/-- the handler serves a request (forwards it, or answers PING/QUIT/AUTH itself) exactly when its
    type is a real command: `OnCReact` rejects `<= UNKNOWN`, `>= Sentinel`, too-large and wrong-arity -/
def Served (m : CMsg) : Prop :=
  goTables.cUnknown < m.type ∧ m.type < goTables.cSentinel ∧
  m.type ≠ goTables.cTooLarge ∧ m.type ≠ goTables.cWrongArgs

theorem lookupB_eq (k : Bytes) (l : List (Bytes × Int)) : Spec.lookupB k l = lookup k l := by
  induction l with
  | nil => rfl
  | cons p l ih => obtain ⟨k', v⟩ := p; simp [Spec.lookupB, lookup, ih]

/-- classes of the reference table are the seven the code knows -/
theorem ref_classes : ∀ p ∈ Spec.refArity, p.2 ∈ [0, 1, 2, 3, 4, -1, -2] := by decide +kernel

theorem eval_names : ∀ p ∈ goTables.str2type,
    (p.2 = goTables.cEval ↔ p.1 = Spec.nameEval) ∧ (p.2 = goTables.cEvalsha ↔ p.1 = Spec.nameEvalsha) := by
  decide +kernel

/-- `checkArgs` implements the arity classes -/
theorem checkArgs_spec (c : Nat) (cls : Int) (n : Nat)
    (hl : lookup c goTables.type2nargs = some cls) (hcls : cls ∈ [0, 1, 2, 3, 4, -1, -2]) :
    checkArgs goTables c n = if Spec.arityOK cls n then c else goTables.cWrongArgs := by
  unfold checkArgs
  rw [hl]
  simp only [nargs_constants.1, nargs_constants.2.1, nargs_constants.2.2]
  simp only [List.mem_cons, List.not_mem_nil, or_false] at hcls
  unfold Spec.arityOK
  rcases hcls with h | h | h | h | h | h | h <;> subst h <;> simp <;> (try omega) <;> (try grind)

/-- the type the decoder assigns, as a function of name, argument count and size -/
theorem build_type (slot : Bytes → Nat) (limit : Nat) (name : Bytes) (args : List Bytes) (raw : Bytes) (n : Nat) :
    (build goTables slot limit name args raw n).type =
      if n > limit then goTables.cTooLarge
      else if (transform2Type goTables name args.length = goTables.cEval ∨
               transform2Type goTables name args.length = goTables.cEvalsha) ∧ args.length < 3
        then goTables.cWrongArgs
        else transform2Type goTables name args.length := by
  have hd := codes_distinct
  unfold build
  simp only
  generalize transform2Type goTables name args.length = ty
  by_cases h1 : ty = goTables.cMget ∨ ty = goTables.cDel
  · have : ¬ (ty = goTables.cEval ∨ ty = goTables.cEvalsha) := by
      rcases h1 with h | h <;> subst h <;> simp [hd]
    simp only [h1, ↓reduceIte, this, false_and]
    split <;> rfl
  · simp only [h1, ↓reduceIte]
    by_cases h2 : ty = goTables.cMset
    · have : ¬ (ty = goTables.cEval ∨ ty = goTables.cEvalsha) := by subst h2; simp [hd]
      simp only [h2, ↓reduceIte, this, false_and]
      split <;> rfl
    · simp only [h2, ↓reduceIte]
      by_cases h3 : ty = goTables.cEval ∨ ty = goTables.cEvalsha
      · simp only [h3, ↓reduceIte, true_and]
        split <;> split <;> rfl
      · simp only [h3, ↓reduceIte, false_and]
        split <;> rfl

def C17_statement : Prop :=
  ∀ (slot : Bytes → Nat) (limit : Nat) (name : Bytes) (args : List Bytes) (t : Bytes),
    SmallReq name args →
    ∃ m, decode goTables slot limit (Spec.encRequest (name :: args) ++ t)
            = .ok m (Spec.encRequest (name :: args)).length ∧
      (Served m ↔ (Spec.arityRule (toLower name) args.length = true ∧
                   (Spec.encRequest (name :: args)).length ≤ limit))

theorem C17_served_iff : C17_statement := by
  intro slot limit name args t hs
  rw [← encodeCmd_eq_spec]
  refine ⟨_, decode_encode goTables slot limit name args t hs, ?_⟩
  unfold Served
  rw [build_type]
  generalize hL : (encodeCmd name args).length = L
  by_cases hsz : L > limit
  · simp only [hsz, ↓reduceIte]
    constructor
    · intro h; exact absurd rfl h.2.2.1
    · intro h; omega
  · simp only [hsz, ↓reduceIte]
    have hle : L ≤ limit := by omega
    simp only [hle, and_true]
    unfold Spec.arityRule
    rw [lookupB_eq]
    cases hl : lookup (toLower name) goTables.str2type with
    | none =>
      -- not a supported name: type UNKNOWN; and the reference has no such name either
      have hty : transform2Type goTables name args.length = goTables.cUnknown := by
        unfold transform2Type; rw [hl]
      have href : lookup (toLower name) Spec.refArity = none := by
        cases hr : lookup (toLower name) Spec.refArity with
        | none => rfl
        | some cls =>
          have := reference_covered _ (lookup_mem _ _ _ hr)
          simp only [hl] at this
          exact absurd this (by simp)
      rw [hty, href]
      have : ¬ (goTables.cUnknown = goTables.cEval ∨ goTables.cUnknown = goTables.cEvalsha) := by decide
      simp only [this, false_and, ↓reduceIte]
      constructor
      · intro h; exact absurd h.1 (Nat.lt_irrefl _)
      · intro h; exact absurd h (by simp)
    | some c =>
      have hmem := lookup_mem _ _ _ hl
      obtain ⟨hreal1, hreal2, hreal3, hreal4⟩ := names_real _ hmem
      obtain ⟨harity, hsome⟩ := arity_matches_reference _ hmem
      simp only at hreal1 hreal2 hreal3 hreal4 harity hsome
      cases hr : lookup (toLower name) Spec.refArity with
      | none => rw [hr] at hsome; exact absurd hsome (by simp)
      | some cls =>
        rw [hr] at harity
        have hcls := ref_classes _ (lookup_mem _ _ _ hr)
        simp only at hcls
        have hty : transform2Type goTables name args.length
            = if Spec.arityOK cls args.length then c else goTables.cWrongArgs := by
          unfold transform2Type; rw [hl]; exact checkArgs_spec c cls args.length harity hcls
        obtain ⟨hev1, hev2⟩ := eval_names _ hmem
        simp only at hev1 hev2
        rw [hty]
        simp only
        by_cases hok : Spec.arityOK cls args.length = true
        · simp only [hok, ↓reduceIte, Bool.true_and, Bool.or_eq_true, beq_iff_eq, Bool.not_eq_true',
            Bool.or_eq_true, decide_eq_true_eq]
          by_cases hev : c = goTables.cEval ∨ c = goTables.cEvalsha
          · have hname : toLower name = Spec.nameEval ∨ toLower name = Spec.nameEvalsha := by
              rcases hev with h | h
              · exact Or.inl (hev1.mp h)
              · exact Or.inr (hev2.mp h)
            by_cases h3 : args.length < 3
            · simp only [hev, h3, and_self, ↓reduceIte]
              constructor
              · intro h; exact absurd rfl h.2.2.2
              · intro h
                rcases h with h | h
                · rcases hname with e | e <;> simp [e] at h
                · omega
            · simp only [hev, h3, and_false, ↓reduceIte]
              constructor
              · intro _; right; omega
              · intro _; exact ⟨hreal1, hreal2, hreal3, hreal4⟩
          · have hname : ¬ (toLower name = Spec.nameEval ∨ toLower name = Spec.nameEvalsha) := by
              intro h
              rcases h with h | h
              · exact hev (Or.inl (hev1.mpr h))
              · exact hev (Or.inr (hev2.mpr h))
            simp only [hev, false_and, ↓reduceIte]
            constructor
            · intro _; left
              simp only [not_or] at hname
              simp [hname.1, hname.2]
            · intro _; exact ⟨hreal1, hreal2, hreal3, hreal4⟩
        · simp only [hok, Bool.false_eq_true, ↓reduceIte, Bool.false_and]
          have : ¬ (goTables.cWrongArgs = goTables.cEval ∨ goTables.cWrongArgs = goTables.cEvalsha) := by decide
          simp only [this, false_and, ↓reduceIte]
          constructor
          · intro h; exact absurd rfl h.2.2.2
          · intro h; exact absurd h (by simp)

/-- rejected or served, exactly the request's own bytes are consumed: later requests are unaffected -/
theorem C17_consumes_own_bytes (slot : Bytes → Nat) (limit : Nat) (name : Bytes) (args : List Bytes)
    (t : Bytes) (hs : SmallReq name args) :
    ∃ m, decode goTables slot limit (Spec.encRequest (name :: args) ++ t)
      = .ok m (Spec.encRequest (name :: args)).length := by
  rw [← encodeCmd_eq_spec]
  exact ⟨_, decode_encode goTables slot limit name args t hs⟩

/-- table theorems re-exported as obligations of this property (they are about the regenerated tables) -/
theorem C17_names_are_documented :
    (∀ p ∈ goTables.str2type, p.1 = [97, 117, 116, 104] ∨ (p.1, true) ∈ Gen.docRows) ∧
    (∀ r ∈ Gen.docRows, r.2 = true → (lookup r.1 goTables.str2type).isSome) := names_eq_docs

theorem C17_arity_is_reference : ∀ p ∈ goTables.str2type,
    lookup p.2 goTables.type2nargs = lookup p.1 Spec.refArity ∧ (lookup p.1 Spec.refArity).isSome :=
  arity_matches_reference

theorem C17_reference_is_table : ∀ p ∈ Spec.refArity, (lookup p.1 goTables.str2type).isSome :=
  reference_covered

theorem C17_names_lower_case : ∀ p ∈ goTables.str2type, toLower p.1 = p.1 := names_lower

/- non-vacuity -/
example : Spec.arityRule [103, 101, 116] 1 = true := by decide +kernel     -- get key
example : Spec.arityRule [103, 101, 116] 2 = false := by decide +kernel    -- get key extra
example : Spec.arityRule [107, 101, 121, 115] 1 = false := by decide +kernel  -- keys: unsupported

end RcVerif.Props.C17
