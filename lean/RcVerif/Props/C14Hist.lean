import RcVerif.Lemmas.Handover
import RcVerif.Model.Inst
import RcVerif.Props.C14
/-
  C14 over histories, and the hand-over between the refresh goroutine and the event loop.

  Atomic level (the goroutine's iterations as whole steps):
  * `C14_published`: in every reachable state what is published (server map, replica sets, remembered
    signature) is what ONE earlier description said - never a mixture of two;
  * `C14_latest`: after a usable reply describing `ns`, and whatever unusable or unchanged replies follow,
    the published topology carries exactly `ns`'s change signature (`Describes`), and when the reply
    changed anything it IS `ns`, grouped master -> replicas (`C14_adopts`);
  * `sig_perm`: equal change signatures = the same node signatures as a multiset.

  Hand-over level (`Model/Handover.lean`: single reads and writes of `ServerMap`, `Replicasets`,
  `serverChanged`, every interleaving, torn intermediate values included), in the program order the code
  has now (`Gen.tickerOrder`, regenerated from `eventloop.ticker` on every run):
  * `C14_handover`: whenever the flag is down and both sides are idle, the pools and the slot table the
    event loop routes by are exactly the published server map and replica sets;
  * `C14_settles`: from every reachable state, once the goroutine has finished and one further tick has
    run, that situation is reached, and what is published is the atomic model's result on the replies
    taken so far - so every theorem of `Props/C14.lean` about `onProbeReply` applies to what is routed by;
  * `resetLast_loses_update`: in the order the code had before (flag taken down at the END of the
    rebuild) the statement is false: a concrete schedule ends flag-down, idle, and routing slots to a node
    that has no pool - for good, because the next identical descriptions are "unchanged".
-/
namespace RcVerif.Props.C14Hist
open RcVerif RcVerif.Cluster RcVerif.Handover

variable (info : Bytes → Option Info)

abbrev astep (st : RState) (msg : Bytes) : RState := onProbeReply Gen.redisClusterSlots info st msg

/-! ### atomic level -/

/-- what is published came, whole, from one description -/
def Pub (st : RState) : Prop :=
  ∃ ns, st.servers = setServers ns ∧ st.sets = setReplicasets ns ∧ st.lastNames = sortBytes (ns.map sigOf)

/-- the published topology has the change signature of `ns` -/
def Describes (st : RState) (ns : List Node) : Prop :=
  ∃ ns', sortBytes (ns'.map sigOf) = sortBytes (ns.map sigOf) ∧
    st.servers = setServers ns' ∧ st.sets = setReplicasets ns'

theorem pub_step (st : RState) (msg : Bytes) (h : Pub st) : Pub (astep info st msg) := by
  unfold astep onProbeReply
  split
  · exact h
  · split
    · exact h
    · unfold adopt
      split
      · exact h
      · rename_i ns _
        simp only
        split
        · exact ⟨ns, rfl, rfl, rfl⟩
        · rename_i hc
          simp only [ne_eq, not_or, Decidable.not_not] at hc
          obtain ⟨ns', h1, h2, h3⟩ := h
          exact ⟨ns', h1, h2, by simp only; rw [hc.2]; exact h3⟩

/-- **every reachable published state is one description, whole** -/
theorem C14_published (msgs : List Bytes) : Pub (msgs.foldl (astep info) {}) := by
  suffices h : ∀ st, Pub st → Pub (msgs.foldl (astep info) st) from h {} ⟨[], rfl, rfl, rfl⟩
  induction msgs with
  | nil => intro st h; exact h
  | cons m ms ih => intro st h; exact ih _ (pub_step info st m h)

/-- **the latest valid description wins**: a usable reply describing `ns`, arriving after ANY history, followed
    by any replies that change nothing (unusable ones, or the same description again), leaves the
    published topology carrying `ns`'s signature -/
theorem C14_latest (before : List Bytes) (msg text : Bytes) (ns : List Node) (after : List Bytes)
    (hgate : probeText msg = some text)
    (hparse : parseText Gen.redisClusterSlots
      (fun a => (before.foldl (astep info) {}).servers.any (·.addr = a)) info text = some ns)
    (hquiet : ∀ m ∈ after, astep info ((before ++ [msg]).foldl (astep info) {}) m =
      (before ++ [msg]).foldl (astep info) {}) :
    Describes ((before ++ [msg] ++ after).foldl (astep info) {}) ns := by
  have hafter : ∀ (st : RState) (l : List Bytes), (∀ m ∈ l, astep info st m = st) → l.foldl (astep info) st = st := by
    intro st l
    induction l with
    | nil => intro _; rfl
    | cons m ms ih =>
      intro h
      rw [List.foldl_cons, h m (by simp)]
      exact ih (fun m' hm' => h m' (by simp [hm']))
  rw [List.foldl_append, hafter _ _ hquiet, List.foldl_append]
  simp only [List.foldl_cons, List.foldl_nil]
  have hpub := C14_published info before
  have hal : (before.foldl (astep info) {}).alive = true := C14.C14_alive_history info before {} rfl
  generalize before.foldl (astep info) {} = st at hparse hpub hal
  unfold astep onProbeReply
  simp only [hal, Bool.not_true, Bool.false_eq_true, ↓reduceIte, hgate]
  unfold adopt
  rw [hparse]
  simp only
  split
  · exact ⟨ns, rfl, rfl, rfl⟩
  · rename_i hc
    simp only [ne_eq, not_or, Decidable.not_not] at hc
    obtain ⟨ns', h1, h2, h3⟩ := hpub
    exact ⟨ns', by rw [← h3, hc.2], h1, h2⟩


/-! ### hand-over level -/

/-- the program order of `ticker` the model (and the driver of the correspondence view) runs -/
abbrev resetFirst : Bool := resetFirstNow

/-- the source has one of the two orders the model can run, and the goroutine publishes in the modelled order -/
theorem order_is_modelled :
    (Gen.tickerOrder = ["reset", "remove", "add", "table"] ∨ Gen.tickerOrder = ["remove", "add", "table", "reset"]) ∧
    Gen.publishOrder = ["setServer", "setReplicaset", "flag"] := by decide

abbrev mrun (evs : List Ev) : MState := run Gen.redisClusterSlots info resetFirst {} evs

theorem resetFirst_now : resetFirst = true := by decide

/-- **hand-over**: in every state reachable under any interleaving of the goroutine's and the event loop's
    reads and writes (torn values included), when the change flag is down and both are idle, the event loop's
    pools and slot table are exactly the published server map and replica sets -/
theorem C14_handover (evs : List Ev) (hg : (mrun info evs).gpc = .idle) (ht : (mrun info evs).tpc = .idle)
    (hc : (mrun info evs).r.changed = false) : Clean (mrun info evs) := by
  have hinv : Inv (mrun info evs) := by
    unfold mrun; rw [resetFirst_now]; exact inv_run _ _ evs {} inv_init
  have := hinv.prog hc hg
  simpa [Progress, ht] using this

/-- what is published, whenever the goroutine is between two replies, is the atomic model's result on the
    replies it has taken from the channel: the theorems about `onProbeReply` describe what is routed by -/
theorem C14_published_is_atomic (evs : List Ev) (hg : (mrun info evs).gpc = .idle) :
    PubEq (mrun info evs).r (atomic Gen.redisClusterSlots info (mrun info evs).log) := by
  have := rinv_run Gen.redisClusterSlots info resetFirst evs {} (rinv_init _ _)
  simpa [RInv, hg, mrun] using this

theorem settles_of_inv (s0 : MState) (hinv0 : Inv s0) (hr0 : RInv Gen.redisClusterSlots info s0) :
    (settle true s0).gpc = .idle ∧ (settle true s0).tpc = .idle ∧ (settle true s0).r.changed = false ∧
    Clean (settle true s0) ∧ (settle true s0).log = s0.log ∧
    PubEq (settle true s0).r (atomic Gen.redisClusterSlots info s0.log) := by
  have hg1 : (finishG s0).gpc = .idle := finishG_gpc s0
  have hinv1 : Inv (finishG s0) := by
    rw [finishG_eq_run Gen.redisClusterSlots info s0 true]; exact inv_run _ _ _ _ hinv0
  have hr1 : RInv Gen.redisClusterSlots info (finishG s0) := by
    rw [finishG_eq_run Gen.redisClusterSlots info s0 true]; exact rinv_run _ _ _ _ _ hr0
  have hinv2 : Inv (finishT true (finishG s0)) := by
    rw [finishT_eq_run Gen.redisClusterSlots info _ true]; exact inv_run _ _ _ _ hinv1
  have hr2 : RInv Gen.redisClusterSlots info (finishT true (finishG s0)) := by
    rw [finishT_eq_run Gen.redisClusterSlots info _ true]; exact rinv_run _ _ _ _ _ hr1
  have ht2 : (finishT true (finishG s0)).tpc = .idle := finishT_tpc _ hinv1.noReset
  have hinv3 : Inv (tTick true (finishT true (finishG s0))) := inv_tTick _ hinv2
  have hr3 : RInv Gen.redisClusterSlots info (tTick true (finishT true (finishG s0))) := rinv_tTick _ _ _ _ hr2
  have hc3 : (tTick true (finishT true (finishG s0))).r.changed = false := by
    unfold tTick
    split
    · rfl
    · rename_i hno
      simp only [ht2, true_and] at hno
      simpa using hno
  have hinv4 : Inv (settle true s0) := by
    unfold settle
    rw [finishT_eq_run Gen.redisClusterSlots info _ true]; exact inv_run _ _ _ _ hinv3
  have hr4 : RInv Gen.redisClusterSlots info (settle true s0) := by
    unfold settle
    rw [finishT_eq_run Gen.redisClusterSlots info _ true]; exact rinv_run _ _ _ _ _ hr3
  have hgs : (settle true s0).gpc = .idle := by
    unfold settle; rw [finishT_gpc, tTick_gpc, finishT_gpc]; exact hg1
  have hts : (settle true s0).tpc = .idle := by unfold settle; exact finishT_tpc _ hinv3.noReset
  have hcs : (settle true s0).r.changed = false := by
    unfold settle; rw [finishT_changed _ hinv3.noReset]; exact hc3
  have hlog : (settle true s0).log = s0.log := by
    unfold settle; rw [finishT_log, tTick_log, finishT_log, finishG_log]
  refine ⟨hgs, hts, hcs, ?_, hlog, ?_⟩
  · have := hinv4.prog hcs hgs
    simpa [Progress, hts] using this
  · rw [← hlog]
    have := hr4
    simpa [RInv, hgs] using this

/-- **convergence**: from every reachable state, once the goroutine has finished what it is doing, the running
    pass (if any) is over and one more tick has run, the flag is down, both are idle, the event loop routes
    by exactly what is published, and that is the atomic result on the replies taken so far -/
theorem C14_settles (evs : List Ev) :
    (settle resetFirst (mrun info evs)).gpc = .idle ∧ (settle resetFirst (mrun info evs)).tpc = .idle ∧
    (settle resetFirst (mrun info evs)).r.changed = false ∧ Clean (settle resetFirst (mrun info evs)) ∧
    (settle resetFirst (mrun info evs)).log = (mrun info evs).log ∧
    PubEq (settle resetFirst (mrun info evs)).r (atomic Gen.redisClusterSlots info (mrun info evs).log) := by
  have hinv0 : Inv (mrun info evs) := by
    unfold mrun; rw [resetFirst_now]; exact inv_run _ _ evs {} inv_init
  have hr0 : RInv Gen.redisClusterSlots info (mrun info evs) := rinv_run _ _ _ evs {} (rinv_init _ _)
  rw [resetFirst_now] at *
  exact settles_of_inv info _ hinv0 hr0


/-! ### what is routed by has a pool -/

theorem setServers_of_nodup (ns : List Node) (h : AddrNodup ns) : setServers ns = ns := by
  unfold setServers
  suffices hgen : ∀ (acc rest : List Node), AddrNodup (acc ++ rest) →
      rest.foldl (fun acc n => if acc.any (·.addr = n.addr) then acc else acc ++ [n]) acc = acc ++ rest by
    simpa using hgen [] ns (by simpa using h)
  intro acc rest
  induction rest generalizing acc with
  | nil => intro _; simp
  | cons n rest ih =>
    intro hnd
    rw [List.foldl_cons]
    have hno : ¬ (acc.any (·.addr = n.addr)) = true := by
      intro hany
      rw [List.any_eq_true] at hany
      obtain ⟨m, hm, hma⟩ := hany
      have hma' : m.addr = n.addr := by simpa using hma
      unfold AddrNodup at hnd
      rw [List.map_append, List.nodup_append] at hnd
      exact hnd.2.2 m.addr (List.mem_map_of_mem hm) n.addr (by simp) hma'
    rw [if_neg hno]
    have := ih (acc ++ [n]) (by simpa [List.append_assoc] using hnd)
    simpa [List.append_assoc] using this

theorem serverRole_mem (ns : List Node) (h : AddrNodup ns) (n : Node) (hn : n ∈ ns) :
    serverRole ns n.addr = some n.isSlave := by
  induction ns with
  | nil => exact absurd hn (by simp)
  | cons m rest ih =>
    unfold AddrNodup at h
    simp only [List.map_cons, List.nodup_cons] at h
    by_cases hm : m.addr = n.addr
    · rcases List.mem_cons.mp hn with he | hr
      · subst he; simp [serverRole]
      · exact absurd (by rw [hm]; exact List.mem_map_of_mem hr) h.1
    · rcases List.mem_cons.mp hn with he | hr
      · subst he; exact absurd rfl hm
      · have := ih h.2 hr
        simpa [serverRole, List.find?_cons, hm] using this

/-- **no slot is routed to a node without a pool**: in a settled state (flag down, both sides idle) whose published
    description lists every address once, every slot the table routes goes to a master that has a pool in the master
    role, and each of its replicas has a pool in the replica role. (This is what the reset-last order broke.) -/
theorem C14_routed_nodes_have_pools (evs : List Ev)
    (hg : (mrun info evs).gpc = .idle) (ht : (mrun info evs).tpc = .idle) (hc : (mrun info evs).r.changed = false)
    (ns : List Node) (hnd : AddrNodup ns)
    (hs : (mrun info evs).r.servers = setServers ns) (hsets : (mrun info evs).r.sets = setReplicasets ns)
    (slot : Nat) (p : Node × List Node) (hp : slotTable (mrun info evs).table slot = some p) :
    poolRole (mrun info evs).pools p.1.addr = some false ∧ ∀ sl ∈ p.2, poolRole (mrun info evs).pools sl.addr = some true := by
  have hclean := C14_handover info evs hg ht hc
  have hmem : p ∈ setReplicasets ns := by
    rw [hclean.2, hsets] at hp
    exact (C14.C14_table _ slot p hp).1
  have hok := C14.C14_sets_sound ns p hmem
  rw [setServers_of_nodup ns hnd] at hs
  constructor
  · rw [hclean.1, hs, serverRole_mem ns hnd p.1 hok.1, hok.2.1]
  · intro sl hsl
    have := hok.2.2 sl hsl
    rw [hclean.1, hs, serverRole_mem ns hnd sl this.1, this.2.1]

/-! ### the order the code had: flag taken down at the end of the rebuild -/

def v1 : Bytes := [36, 50, 54, 52, 13, 10, 97, 97, 97, 97, 97, 97, 97, 97, 97, 97, 97, 97, 97, 97, 97, 97, 97, 97, 97, 97, 97, 97, 97, 97, 97, 97, 97, 97, 97, 97, 97, 97, 97, 97, 97, 97, 97, 97, 97, 97, 32, 49, 46, 49, 46, 49, 46, 49, 58, 49, 64, 50, 32, 109, 97, 115, 116, 101, 114, 32, 45, 32, 48, 32, 48, 32, 49, 32, 99, 111, 110, 110, 101, 99, 116, 101, 100, 32, 48, 45, 53, 52, 54, 48, 10, 98, 98, 98, 98, 98, 98, 98, 98, 98, 98, 98, 98, 98, 98, 98, 98, 98, 98, 98, 98, 98, 98, 98, 98, 98, 98, 98, 98, 98, 98, 98, 98, 98, 98, 98, 98, 98, 98, 98, 98, 32, 49, 46, 49, 46, 49, 46, 50, 58, 49, 64, 50, 32, 109, 97, 115, 116, 101, 114, 32, 45, 32, 48, 32, 48, 32, 49, 32, 99, 111, 110, 110, 101, 99, 116, 101, 100, 32, 53, 52, 54, 49, 45, 49, 48, 57, 50, 50, 10, 99, 99, 99, 99, 99, 99, 99, 99, 99, 99, 99, 99, 99, 99, 99, 99, 99, 99, 99, 99, 99, 99, 99, 99, 99, 99, 99, 99, 99, 99, 99, 99, 99, 99, 99, 99, 99, 99, 99, 99, 32, 49, 46, 49, 46, 49, 46, 51, 58, 49, 64, 50, 32, 109, 97, 115, 116, 101, 114, 32, 45, 32, 48, 32, 48, 32, 49, 32, 99, 111, 110, 110, 101, 99, 116, 101, 100, 32, 49, 48, 57, 50, 51, 45, 49, 54, 51, 56, 51, 10, 13, 10]
def v2 : Bytes := [36, 51, 52, 57, 13, 10, 97, 97, 97, 97, 97, 97, 97, 97, 97, 97, 97, 97, 97, 97, 97, 97, 97, 97, 97, 97, 97, 97, 97, 97, 97, 97, 97, 97, 97, 97, 97, 97, 97, 97, 97, 97, 97, 97, 97, 97, 32, 49, 46, 49, 46, 49, 46, 49, 58, 49, 64, 50, 32, 109, 97, 115, 116, 101, 114, 32, 45, 32, 48, 32, 48, 32, 49, 32, 99, 111, 110, 110, 101, 99, 116, 101, 100, 32, 49, 48, 48, 45, 53, 52, 54, 48, 10, 98, 98, 98, 98, 98, 98, 98, 98, 98, 98, 98, 98, 98, 98, 98, 98, 98, 98, 98, 98, 98, 98, 98, 98, 98, 98, 98, 98, 98, 98, 98, 98, 98, 98, 98, 98, 98, 98, 98, 98, 32, 49, 46, 49, 46, 49, 46, 50, 58, 49, 64, 50, 32, 109, 97, 115, 116, 101, 114, 32, 45, 32, 48, 32, 48, 32, 49, 32, 99, 111, 110, 110, 101, 99, 116, 101, 100, 32, 53, 52, 54, 49, 45, 49, 48, 57, 50, 50, 10, 99, 99, 99, 99, 99, 99, 99, 99, 99, 99, 99, 99, 99, 99, 99, 99, 99, 99, 99, 99, 99, 99, 99, 99, 99, 99, 99, 99, 99, 99, 99, 99, 99, 99, 99, 99, 99, 99, 99, 99, 32, 49, 46, 49, 46, 49, 46, 51, 58, 49, 64, 50, 32, 109, 97, 115, 116, 101, 114, 32, 45, 32, 48, 32, 48, 32, 49, 32, 99, 111, 110, 110, 101, 99, 116, 101, 100, 32, 49, 48, 57, 50, 51, 45, 49, 54, 51, 56, 51, 10, 100, 100, 100, 100, 100, 100, 100, 100, 100, 100, 100, 100, 100, 100, 100, 100, 100, 100, 100, 100, 100, 100, 100, 100, 100, 100, 100, 100, 100, 100, 100, 100, 100, 100, 100, 100, 100, 100, 100, 100, 32, 49, 46, 49, 46, 49, 46, 52, 58, 49, 64, 50, 32, 109, 97, 115, 116, 101, 114, 32, 45, 32, 48, 32, 48, 32, 49, 32, 99, 111, 110, 110, 101, 99, 116, 101, 100, 32, 48, 45, 57, 57, 10, 13, 10]
def v3 : Bytes := [36, 52, 51, 53, 13, 10, 97, 97, 97, 97, 97, 97, 97, 97, 97, 97, 97, 97, 97, 97, 97, 97, 97, 97, 97, 97, 97, 97, 97, 97, 97, 97, 97, 97, 97, 97, 97, 97, 97, 97, 97, 97, 97, 97, 97, 97, 32, 49, 46, 49, 46, 49, 46, 49, 58, 49, 64, 50, 32, 109, 97, 115, 116, 101, 114, 32, 45, 32, 48, 32, 48, 32, 49, 32, 99, 111, 110, 110, 101, 99, 116, 101, 100, 32, 50, 48, 48, 45, 53, 52, 54, 48, 10, 98, 98, 98, 98, 98, 98, 98, 98, 98, 98, 98, 98, 98, 98, 98, 98, 98, 98, 98, 98, 98, 98, 98, 98, 98, 98, 98, 98, 98, 98, 98, 98, 98, 98, 98, 98, 98, 98, 98, 98, 32, 49, 46, 49, 46, 49, 46, 50, 58, 49, 64, 50, 32, 109, 97, 115, 116, 101, 114, 32, 45, 32, 48, 32, 48, 32, 49, 32, 99, 111, 110, 110, 101, 99, 116, 101, 100, 32, 53, 52, 54, 49, 45, 49, 48, 57, 50, 50, 10, 99, 99, 99, 99, 99, 99, 99, 99, 99, 99, 99, 99, 99, 99, 99, 99, 99, 99, 99, 99, 99, 99, 99, 99, 99, 99, 99, 99, 99, 99, 99, 99, 99, 99, 99, 99, 99, 99, 99, 99, 32, 49, 46, 49, 46, 49, 46, 51, 58, 49, 64, 50, 32, 109, 97, 115, 116, 101, 114, 32, 45, 32, 48, 32, 48, 32, 49, 32, 99, 111, 110, 110, 101, 99, 116, 101, 100, 32, 49, 48, 57, 50, 51, 45, 49, 54, 51, 56, 51, 10, 100, 100, 100, 100, 100, 100, 100, 100, 100, 100, 100, 100, 100, 100, 100, 100, 100, 100, 100, 100, 100, 100, 100, 100, 100, 100, 100, 100, 100, 100, 100, 100, 100, 100, 100, 100, 100, 100, 100, 100, 32, 49, 46, 49, 46, 49, 46, 52, 58, 49, 64, 50, 32, 109, 97, 115, 116, 101, 114, 32, 45, 32, 48, 32, 48, 32, 49, 32, 99, 111, 110, 110, 101, 99, 116, 101, 100, 32, 48, 45, 57, 57, 10, 101, 101, 101, 101, 101, 101, 101, 101, 101, 101, 101, 101, 101, 101, 101, 101, 101, 101, 101, 101, 101, 101, 101, 101, 101, 101, 101, 101, 101, 101, 101, 101, 101, 101, 101, 101, 101, 101, 101, 101, 32, 49, 46, 49, 46, 49, 46, 53, 58, 49, 64, 50, 32, 109, 97, 115, 116, 101, 114, 32, 45, 32, 48, 32, 48, 32, 49, 32, 99, 111, 110, 110, 101, 99, 116, 101, 100, 32, 49, 48, 48, 45, 49, 57, 57, 10, 13, 10]
def addrE : Bytes := [49, 46, 49, 46, 49, 46, 53, 58, 49]
def healthy : Bytes → Option Info := fun _ => some { loading := false, linkUp := true }

/-- three nodes published and loaded; a fourth node published; while the event loop is loading it (pools
    done, table not yet) a fifth node is published -/
def lostUpdate : List Ev :=
  [.deliver v1, .g, .g, .g, .g, .tick, .t, .t, .t, .t,
   .deliver v2, .g, .g, .g, .g, .tick, .t, .t,
   .deliver v3, .g, .g, .g, .g,
   .t, .t]

/-- **reset-last loses an update**: the schedule ends with the flag down and both sides idle, the table routes
    slots 100-199 to the fifth node, and there is no pool for it; identical later descriptions are
    "unchanged", so nothing repairs it -/
theorem resetLast_loses_update :
    let s := run 16384 healthy false {} lostUpdate
    s.gpc = .idle ∧ s.tpc = .idle ∧ s.r.changed = false ∧
    serverRole s.r.servers addrE = some false ∧ poolRole s.pools addrE = none ∧
    ((slotTable s.table 150).map (·.1.addr)) = some addrE := by decide +kernel

theorem resetLast_not_clean : ¬ Clean (run 16384 healthy false {} lostUpdate) := by
  intro h
  have h1 := h.1 addrE
  have h2 := resetLast_loses_update
  simp only at h2
  rw [h2.2.2.2.1, h2.2.2.2.2.1] at h1
  exact absurd h1 (by decide)

/-- the same schedule in the order the code has now: the flag is still up at the end, the next tick loads the
    fifth node -/
example :
    let s := settle true (run 16384 healthy true {} lostUpdate)
    s.r.changed = false ∧ poolRole s.pools addrE = some false ∧
    ((slotTable s.table 150).map (·.1.addr)) = some addrE := by decide +kernel

/-! ### signatures -/

theorem insertSorted_perm (x : Bytes) (l : List Bytes) : (insertSorted x l).Perm (x :: l) := by
  induction l with
  | nil => exact List.Perm.refl _
  | cons y ys ih =>
    unfold insertSorted
    split
    · exact List.Perm.refl _
    · exact (List.Perm.cons y ih).trans (List.Perm.swap x y ys)

theorem sortBytes_perm (l : List Bytes) : (sortBytes l).Perm l := by
  induction l with
  | nil => exact List.Perm.refl _
  | cons x xs ih =>
    show (insertSorted x (sortBytes xs)).Perm (x :: xs)
    exact (insertSorted_perm x _).trans (List.Perm.cons x ih)

/-- equal change signatures: the same node signatures, as a multiset -/
theorem sig_perm (a b : List Node) (h : sortBytes (a.map sigOf) = sortBytes (b.map sigOf)) :
    (a.map sigOf).Perm (b.map sigOf) :=
  (sortBytes_perm _).symm.trans (h ▸ sortBytes_perm _)

end RcVerif.Props.C14Hist
