import RcVerif.Lemmas.SimPend
import RcVerif.Props.C09
/-
  C15 — losing a backend never leaves a client waiting forever.

  Global (all histories of the machine, every fault point, every pipeline position, single and split requests):
  * `C15_no_orphan`: in every reachable state inside the modelled domain, every unanswered fragment of every
    uncompleted request sits in the awaiting-reply or pending-write queue of an OPEN redis connection. So there is
    never a request that nothing will ever complete: a reply, a redirect, the loss of that connection
    (`C15_close_fails_all`) or its deadline (C16) reaches it.
  * with C09 (`C15_answered`): a completed request at the head of an open client's queue has been written out.
  Local:
  * `C15_close_fails_all`: closing a connection completes, with the backend-closed error, every request that had an
    unanswered fragment written to it or still queued for it, marks all their fragments done and flushes the owners;
  * `C15_closed_state`, `C15_closed_skipped`: the closed connection's queues are emptied; a pending write signal for it
    is a no-op;
  * `C15_redial`: when all pooled connections of a node are lost, the next `Pool.Get` dials a new, open one;
    `poolGet_open` (C13): `Pool.Get` never hands out a closed connection;
  * `C13_unknown_node`: a redirect to a node without a pool completes the request with an error.
  Not modelled: the removal of a node from the topology by the refresh ticker closing its pool's connections is
  modelled only as the `backendClose` events it causes (the pool bookkeeping of `ticker` is covered by C14's model);
  real time ("forever") is not modelled - the theorem is the safety core: nothing is ever left referenced by no queue.
-/
namespace RcVerif.Props.C15
open RcVerif RcVerif.Sim RcVerif.Merge RcVerif.Lemmas.SimInv RcVerif.Lemmas.SimBack RcVerif.Lemmas.SimPend
open RcVerif.Props.C01 RcVerif.Props.C03

/-- the full statement (safety core) -/
def C15_statement : Prop :=
  ∀ (cfg : Cfg) (slotFn : Bytes → Nat) (pools : List (Bytes × Bool)) (table : List (Nat × Nat × RSet))
    (es : List Event) (mi : Nat) (r : Req) (slot : Nat),
    (reach cfg slotFn pools table es).flag = none →
    (reach cfg slotFn pools table es).msgs[mi]? = some r → r.m.done = false → Undone r.m slot →
      Pending (reach cfg slotFn pools table es) (.frag mi slot)

theorem C15_no_orphan : C15_statement := by
  intro cfg slotFn pools table es mi r slot hflag hr hd hu
  rcases goodP_run goTables goStrs cfg slotFn es _ (goodP_init goStrs cfg pools table) with h | h
  · rw [hflag] at h; exact absurd h (by simp)
  · exact h mi r hr hd slot hu (by simp)

/-- and what is completed is not held back: nothing completed sits at the head of an open client's queue (C09) -/
theorem C15_answered (cfg : Cfg) (slotFn : Bytes → Nat) (pools : List (Bytes × Bool)) (table : List (Nat × Nat × RSet))
    (es : List Event) (c : Nat) (cl : Client)
    (hflag : (reach cfg slotFn pools table es).flag = none)
    (hcl : (reach cfg slotFn pools table es).clients[c]? = some cl) (hop : cl.opened = true) :
    donePrefix (reach cfg slotFn pools table es).msgs cl.queue = [] :=
  RcVerif.Props.C09.C09 cfg slotFn pools table es c cl hflag hcl hop

/-- **a lost connection fails everything that depended on it**: when a backend connection is closed, every request
    that still has an unanswered fragment awaiting a reply on it (written: `inQ`) or queued to it (not yet written:
    `outQ`) is completed with the backend-closed error, all its fragments are marked done (replies that might still
    arrive elsewhere are dropped), and its owner is flushed. Single and split requests alike, at every position. -/
theorem C15_close_fails_all (S : Strs) (s : State) (b : Nat) (x : Backend) (hx : s.backends[b]? = some x)
    (ho : x.opened = true) (mi : Nat) (r : Req) (hr : s.msgs[mi]? = some r)
    (h : ∃ slot fr, FragRef.frag mi slot ∈ x.inQ ++ x.outQ.map (·.ref) ∧ getFrag r.m slot = some fr ∧ fr.done = false) :
    ∃ r', (backendClose S s b).msgs[mi]? = some r' ∧ LostOut S r' ∧ r'.owner = r.owner ∧ r'.num = r.num := by
  rw [msgs_backendClose S s b x hx ho]
  exact (fold_fails S _ s mi r hr).2 h

/-- the connection itself: closed, both queues emptied; everything else about the connections is as before -/
theorem C15_closed_state (S : Strs) (s : State) (b : Nat) (x : Backend) (hx : s.backends[b]? = some x)
    (ho : x.opened = true) :
    (backendClose S s b).backends[b]? = some { x with opened := false, inQ := [], outQ := [], leftover := [] } ∧
    ∀ j, j ≠ b → (backendClose S s b).backends[j]? = s.backends[j]? := by
  unfold backendClose
  have hx' : s.backend b = some x := hx
  rw [hx']
  simp only [ho, Bool.not_true, Bool.false_eq_true, ↓reduceIte]
  have hb : (List.foldl dropTimeout (failFrags S s (x.inQ ++ x.outQ.map (·.ref))) x.inQ).backends = s.backends :=
    BSame.trans (bsame_failFrags S _ s) (bsame_foldl_dropTimeout _ _)
  constructor
  · rw [backend_upd_same _ b _ x (by rw [hb]; exact hx)]
  · intro j hj
    rw [backend_upd_other _ b j _ hj, hb]

/-- queued work for a closed connection is skipped by the write signal -/
theorem C15_closed_skipped (S : Strs) (cfg : Cfg) (s : State) (b : Nat) (x : Backend) (hx : s.backends[b]? = some x)
    (hc : x.opened = false) : writeSignal S cfg s b = s := by
  unfold writeSignal
  have hx' : s.backend b = some x := hx
  rw [hx']
  simp [hc]

theorem rotate_none (backends : List Backend) (fuel : Nat) (active : List Nat)
    (h : ∀ id ∈ active, ∀ b, backends[id]? = some b → b.opened = false) : rotate backends fuel active = none := by
  induction fuel generalizing active with
  | zero => rfl
  | succ fuel ih =>
    unfold rotate
    cases hl : active.getLast? with
    | none => rfl
    | some id =>
      dsimp only
      have hmem : id ∈ active := List.mem_of_getLast? hl
      have hrest : ∀ id' ∈ active.dropLast, ∀ b, backends[id']? = some b → b.opened = false :=
        fun id' hm => h id' (List.dropLast_subset _ hm)
      cases hb : backends[id]? with
      | none => exact ih _ hrest
      | some b =>
        dsimp only
        rw [h id hmem b hb]
        exact ih _ hrest

/-- **served over a new connection**: when every pooled connection of a node has been lost, the next `Pool.Get`
    dials a new one (to the same node), open and with empty queues; the proxy keeps going -/
theorem C15_redial (S : Strs) (cfg : Cfg) (s : State) (p : Nat) (pool : Pool) (hp : s.pools[p]? = some pool)
    (hclosed : ∀ id ∈ pool.active, ∀ b, s.backends[id]? = some b → b.opened = false) :
    (poolGet S cfg s p).2 = s.backends.length ∧
    ∃ b, (poolGet S cfg s p).1.backends[s.backends.length]? = some b ∧ b.opened = true ∧ b.addr = pool.addr ∧
      b.outQ = [] ∧ b.inQ = [] ∧ (poolGet S cfg s p).1.flag = s.flag := by
  unfold poolGet
  rw [hp]
  dsimp only
  have hd : ∀ (s0 : State) (pool0 : Pool), s0.pools[p]? = some pool0 → pool0.addr = pool.addr → s0.backends = s.backends → s0.flag = s.flag →
      (dial S cfg s0 p).2 = s.backends.length ∧
      ∃ b, (dial S cfg s0 p).1.backends[s.backends.length]? = some b ∧ b.opened = true ∧ b.addr = pool.addr ∧
        b.outQ = [] ∧ b.inQ = [] ∧ (dial S cfg s0 p).1.flag = s.flag := by
    intro s0 pool0 h0 ha hb hf
    unfold dial
    rw [h0]
    dsimp only
    rw [hb]
    refine ⟨rfl, ?_⟩
    simp [ha, hf]
  split
  · exact hd s pool hp rfl rfl rfl
  · rw [rotate_none s.backends _ pool.active hclosed]
    dsimp only
    refine hd _ { pool with active := [] } ?_ rfl rfl rfl
    show (setAt s.pools p _)[p]? = _
    rw [getElem?_setAt]; simp [hp]


/-- **a node leaves the topology** (`ticker`: `Pool.Close`, pool deleted): every pooled connection of the node gets
    a close task, queued behind the write signals already pending (same FIFO queue); nothing else changes. When the
    poller runs that task it is `backendClose` (`C15_close_fails_all`: everything in flight or queued on it fails);
    the node's slots are rejected from then on (no pool). `C15_no_orphan` covers histories with such removals. -/
theorem C15_pool_removed (s : State) (p : Nat) (pool : Pool) (hp : s.pools[p]? = some pool) (hr : pool.removed = false) :
    (poolRemove s p).tasks = s.tasks ++ pool.active.map Task.close ∧
    (poolRemove s p).msgs = s.msgs ∧ (poolRemove s p).clients = s.clients ∧ (poolRemove s p).backends = s.backends ∧
    (poolRemove s p).pools[p]? = some { pool with removed := true, active := [] } := by
  unfold poolRemove
  rw [hp]
  simp only [hr, Bool.false_eq_true, ↓reduceIte, true_and]
  show (setAt s.pools p _)[p]? = _
  rw [getElem?_setAt]; simp [hp]

theorem C15_close_task (S : Strs) (cfg : Cfg) (s : State) (b : Nat) :
    runTask S cfg (backendClose S) s (.close b) = backendClose S s b := rfl

/-- a removed pool is never found again: requests for the node's slots are answered with the no-pool error -/
theorem C15_removed_not_found (pools : List Pool) (addr : Bytes) (p : Nat) (pool : Pool) (h : findPool pools addr = some p)
    (hp : pools[p]? = some pool) : pool.removed = false := by
  unfold findPool at h
  have := List.findIdx?_eq_some_iff_getElem.mp h
  obtain ⟨hlt, hpred, _⟩ := this
  have : pools[p] = pool := by
    have := List.getElem?_eq_some_iff.mp hp
    exact this.2
  rw [this] at hpred
  have := hpred
  simp at this
  exact this.2

/- non-vacuity, kernel-evaluated on the model with the real tables: GET a is written to node m, GET a again is
   still queued; the connection is lost: both are answered with the error, in order; the next GET dials a new
   connection (backend 1) and is served -/
def exCfg : Cfg := { limit := 1000, timeout := false, passwd := [], disableSlave := true, maxActive := 1 }
def getA : Bytes := [42, 50, 13, 10, 36, 51, 13, 10, 103, 101, 116, 13, 10, 36, 49, 13, 10, 97, 13, 10]
def ch : ReqChoice := { visit := [(15495, [109])] }
def exEvents : List Event :=
  [.connect true, .clientBytes 0 getA [ch], .runTasks, .clientBytes 0 getA [ch],
   .backendClose 0,
   .clientBytes 0 getA [ch], .runTasks, .backendBytes 1 [36, 49, 13, 10, 118, 13, 10]]
example :
    let s := reach exCfg goSlot [([109], false)] [(0, 16383, { master := [109], slaves := [] })] exEvents
    s.flag = none ∧
    s.clients.map (·.out) = [Gen.strErrBackendClosed ++ Gen.strErrBackendClosed ++ [36, 49, 13, 10, 118, 13, 10]] ∧
    s.backends.map (fun b => (b.opened, b.sent.length)) = [(false, 1), (true, 1)] := by
  decide +kernel

end RcVerif.Props.C15
