import RcVerif.Lemmas.Decode
import RcVerif.Model.Inst
/-
  C08 — request framing is independent of TCP segmentation.

  * `C08_prefix`: a proper prefix of a valid request is never an error: the
    decoder reports "incomplete" and consumes nothing.
  * `C08_suffix`: what the decoder extracts from `enc r ++ t` does not depend on
    the bytes `t` that happen to be buffered behind the request.
  * `C08_stream`: the read loop (model of `eventloop.cread` + `conn.Peek/Discard`
    at the level of "unconsumed bytes") extracts, for every pipeline and every
    way of cutting it into chunks, the same request sequence as when the whole
    pipeline arrives at once, and ends with an empty leftover.
-/
namespace RcVerif.Props.C08
open RcVerif RcVerif.Resp RcVerif.CDecode RcVerif.Commands
open RcVerif.Lemmas.Decode RcVerif.Lemmas.Frame

/-- a request: command name and arguments, small enough for 18-digit length fields -/
structure Req where
  name : Bytes
  args : List Bytes

def Req.enc (r : Req) : Bytes := Spec.encRequest (r.name :: r.args)
def Req.Ok (r : Req) : Prop := SmallReq r.name r.args

theorem C08_prefix (slot : Bytes → Nat) (limit : Nat) (r : Req) (hr : r.Ok) (p s : Bytes)
    (hs : s ≠ []) (h : p ++ s = r.enc) :
    decode goTables slot limit p = .incomplete := by
  unfold Req.enc at h
  rw [← encodeCmd_eq_spec] at h
  exact decode_prefix goTables slot limit r.name r.args p s hr hs h

/-- what the handler receives for request `r` -/
def Req.msg (slot : Bytes → Nat) (limit : Nat) (r : Req) : CMsg :=
  build goTables slot limit r.name r.args (Spec.encRequest (toLower r.name :: r.args)) r.enc.length

theorem C08_suffix (slot : Bytes → Nat) (limit : Nat) (r : Req) (hr : r.Ok) (t : Bytes) :
    decode goTables slot limit (r.enc ++ t) = .ok (r.msg slot limit) r.enc.length := by
  unfold Req.enc Req.msg Req.enc
  rw [← encodeCmd_eq_spec, ← encodeCmd_eq_spec]
  exact decode_encode goTables slot limit r.name r.args t hr

/-! ### the read loop -/

/-- `eventloop.cread` on the bytes in view (leftover ++ fresh chunk): decode
    requests until the decoder reports incomplete (keep the rest as the new
    leftover) or invalid (close). Fuel bounds the loop; each iteration consumes
    at least one byte. Returns (requests, leftover, closed). -/
def drain (slot : Bytes → Nat) (limit : Nat) : Nat → Bytes → List CMsg × Bytes × Bool
  | 0, view => ([], view, false)
  | fuel + 1, view =>
    match decode goTables slot limit view with
    | .ok m n =>
      let (ms, left, closed) := drain slot limit fuel (view.drop n)
      (m :: ms, left, closed)
    | .invalid => ([], [], true)
    | .panic => ([], [], true)
    | .incomplete => ([], view, false)

/-- one readable event: the view is the old leftover followed by the fresh chunk -/
def feed (slot : Bytes → Nat) (limit : Nat) (leftover chunk : Bytes) : List CMsg × Bytes × Bool :=
  drain slot limit ((leftover ++ chunk).length + 1) (leftover ++ chunk)

/-- feed a sequence of chunks -/
def feedAll (slot : Bytes → Nat) (limit : Nat) : Bytes → List Bytes → List CMsg × Bytes × Bool
  | leftover, [] => ([], leftover, false)
  | leftover, c :: cs =>
    let (ms, left, closed) := feed slot limit leftover c
    if closed then (ms, left, true)
    else
      let (ms', left', closed') := feedAll slot limit left cs
      (ms ++ ms', left', closed')

def stream (rs : List Req) : Bytes := (rs.map Req.enc).flatten

theorem enc_length_pos (r : Req) : 0 < r.enc.length := by
  unfold Req.enc Spec.encRequest; simp

/-- draining `stream rs ++ p`, where `p` is a proper prefix of a further valid
    request (or empty), yields exactly `rs` and leaves `p` -/
theorem drain_stream (slot : Bytes → Nat) (limit : Nat) (rs : List Req) (hrs : ∀ r ∈ rs, r.Ok)
    (p : Bytes) (hp : p = [] ∨ ∃ (r : Req) (s : Bytes), r.Ok ∧ s ≠ [] ∧ p ++ s = r.enc)
    (fuel : Nat) (hf : rs.length < fuel) :
    drain slot limit fuel (stream rs ++ p) = (rs.map (Req.msg slot limit), p, false) := by
  induction rs generalizing fuel with
  | nil =>
    cases fuel with
    | zero => omega
    | succ fuel =>
      simp only [stream, List.map_nil, List.flatten_nil, List.nil_append, drain]
      rcases hp with hp | ⟨r, s, hr, hs, h⟩
      · subst hp
        have : decode goTables slot limit [] = .incomplete := by
          unfold decode frame; simp
        rw [this]
      · rw [C08_prefix slot limit r hr p s hs h]
  | cons r rs ih =>
    cases fuel with
    | zero => omega
    | succ fuel =>
      have hr : r.Ok := hrs r (by simp)
      have hshape : stream (r :: rs) ++ p = r.enc ++ (stream rs ++ p) := by simp [stream]
      simp only [drain, hshape, C08_suffix slot limit r hr]
      rw [List.drop_left']
      · rw [ih (fun x hx => hrs x (by simp [hx])) fuel (by simp at hf; omega)]
        simp
      · rfl

theorem stream_length_ge (rs : List Req) : rs.length ≤ (stream rs).length := by
  induction rs with
  | nil => simp [stream]
  | cons r rs ih =>
    have := enc_length_pos r
    simp [stream] at ih ⊢
    omega

/-- a leftover is either empty or a proper prefix of a valid request -/
def Partial (p : Bytes) : Prop := p = [] ∨ ∃ (r : Req) (s : Bytes), r.Ok ∧ s ≠ [] ∧ p ++ s = r.enc

/-- every prefix of a pipeline is some complete requests followed by a partial one -/
theorem prefix_split (rs : List Req) (hrs : ∀ r ∈ rs, r.Ok) (v w : Bytes) (h : v ++ w = stream rs) :
    ∃ k p', v = stream (rs.take k) ++ p' ∧ Partial p' ∧ p' ++ w = stream (rs.drop k) := by
  induction rs generalizing v with
  | nil =>
    simp [stream] at h
    exact ⟨0, [], by simp [stream, h.1], Or.inl rfl, by simp [stream, h.2]⟩
  | cons r rs ih =>
    have hshape : stream (r :: rs) = r.enc ++ stream rs := by simp [stream]
    rw [hshape] at h
    rcases prefix_cases _ _ _ _ h with ⟨t, h1, h2⟩ | ⟨q, h1, h2⟩
    · by_cases ht : t = []
      · subst ht
        simp at h1 h2
        exact ⟨1, [], by simp [stream, h1], Or.inl rfl, by simp [h2]⟩
      · refine ⟨0, v, by simp [stream], ?_, by simp [hshape, h]⟩
        exact Or.inr ⟨r, t, hrs r (by simp), ht, h1.symm⟩
    · obtain ⟨k, p', e1, e2, e3⟩ := ih (fun x hx => hrs x (by simp [hx])) q h2.symm
      refine ⟨k + 1, p', ?_, e2, ?_⟩
      · rw [h1, e1]; simp [stream]
      · simpa using e3

theorem C08_stream_gen (slot : Bytes → Nat) (limit : Nat) (chunks : List Bytes) :
    ∀ (rs : List Req), (∀ r ∈ rs, r.Ok) → ∀ (p : Bytes), Partial p →
      p ++ chunks.flatten = stream rs →
      feedAll slot limit p chunks = (rs.map (Req.msg slot limit), [], false) := by
  induction chunks with
  | nil =>
    intro rs hrs p hp h
    simp at h
    simp only [feedAll]
    cases rs with
    | nil => simp [stream] at h; subst h; rfl
    | cons r' rs =>
      exfalso
      have hr' : r'.Ok := hrs r' (by simp)
      have hshape : stream (r' :: rs) = r'.enc ++ stream rs := by simp [stream]
      rcases hp with hp | ⟨r, s, hr, hs, hps⟩
      · subst hp
        have := enc_length_pos r'
        have h' := congrArg List.length h
        simp [stream] at h'
        omega
      · -- r'.enc would be a proper prefix of r.enc: the decoder would consume two different lengths
        rw [h, hshape] at hps
        have d1 := C08_suffix slot limit r' hr' (stream rs ++ s)
        have d2 := C08_suffix slot limit r hr []
        rw [List.append_nil, ← hps, List.append_assoc, d1] at d2
        have hlen := (COut.ok.inj d2).2
        simp only [List.length_append] at hlen
        have : 0 < s.length := List.length_pos_iff.mpr hs
        omega
  | cons c cs ih =>
    intro rs hrs p hp h
    have h' : (p ++ c) ++ cs.flatten = stream rs := by simpa using h
    obtain ⟨k, p', e1, e2, e3⟩ := prefix_split rs hrs (p ++ c) cs.flatten h'
    have htake : ∀ r ∈ rs.take k, r.Ok := fun r hr => hrs r (List.mem_of_mem_take hr)
    have hdrop : ∀ r ∈ rs.drop k, r.Ok := fun r hr => hrs r (List.mem_of_mem_drop hr)
    have hfuel : (rs.take k).length < (p ++ c).length + 1 := by
      have h1 := stream_length_ge (rs.take k)
      have h2 := congrArg List.length e1
      simp only [List.length_append] at h2 ⊢
      omega
    have hp' : p' = [] ∨ ∃ (r : Req) (s : Bytes), r.Ok ∧ s ≠ [] ∧ p' ++ s = r.enc := e2
    have hfeed : feed slot limit p c = ((rs.take k).map (Req.msg slot limit), p', false) := by
      unfold feed
      rw [e1, drain_stream slot limit (rs.take k) htake p' hp' _ (by rw [← e1]; exact hfuel)]
    simp only [feedAll, hfeed, Bool.false_eq_true, ↓reduceIte]
    rw [ih (rs.drop k) hdrop p' e2 e3]
    simp only [← List.map_append, List.take_append_drop]

/-- **C08**: for every pipeline of valid requests and every way of cutting its bytes into
    chunks, the read loop extracts exactly the requests, in order, none lost, duplicated or
    altered, and nothing is left over -/
theorem C08_stream (slot : Bytes → Nat) (limit : Nat) (rs : List Req) (hrs : ∀ r ∈ rs, r.Ok)
    (chunks : List Bytes) (h : chunks.flatten = stream rs) :
    feedAll slot limit [] chunks = (rs.map (Req.msg slot limit), [], false) :=
  C08_stream_gen slot limit chunks rs hrs [] (Or.inl rfl) (by simpa using h)

/- non-vacuity: "GET a" then "PING" cut in the middle of the first request, kernel-evaluated -/
example :
    let r1 : Req := ⟨[71, 69, 84], [[97]]⟩
    let r2 : Req := ⟨[112, 105, 110, 103], []⟩
    let s := stream [r1, r2]
    (feedAll goSlot 1000 [] [s.take 7, s.drop 7]).1.map (·.type) = [7, goTables.cPing] := by
  decide +kernel

end RcVerif.Props.C08
