import RcVerif.Lemmas.ElasticBuf
import RcVerif.Lemmas.ConnIOBuf
/-
  C19 — the I/O buffers behave as exact FIFO byte queues.

  For EVERY sequence of operations (any chunk sizes, wrap-around, growth below and above the 4 KB threshold, spill from
  the ring into the list, partial drains, resets, pooled rings being recycled):

  * `C19_ring`    - `ring.Buffer` started by `New(size)`: each observation (bytes peeked, read, counts discarded) is
                    what the ideal FIFO byte queue gives, and `Buffered` / `Available` / `IsEmpty` are exact;
  * `C19_llist`   - `linkedlist.Buffer`: same; vectored peeks return whole nodes: a prefix of the queue that covers
                    the bytes asked for;
  * `C19_elastic` - `elastic.Buffer` (ring first, list beyond `maxStaticBytes`) together with a second
                    `elastic.RingBuffer` sharing the ring pool: same, and a ring taken from the pool is always empty.

  * `C19_conn_stream` - the users (core/connection.go `write` / `writev`, core/eventloop.go `write`): whatever number
                    of bytes the kernel accepts in each call (partial writes, EAGAIN), the bytes on the wire followed
                    by the backlog are exactly the bytes handed to the connection, in order: a slow reader gets every
                    reply complete and uncorrupted.

  The models are `RcVerif.Model.Ring / LList / Elastic / ConnIO`; their constants (default size, growth threshold) are
  regenerated from the Go source. Not modelled: ReadFrom / WriteTo, pool size calibration, int overflow in `grow`,
  the recycling of byte slices (`bsPool`) - the backing memory is a value here, so aliasing of recycled memory
  cannot be expressed (the sim view's byte-exact comparison of streams is what would show it).
-/
namespace RcVerif.Props.C19
open RcVerif RcVerif.Elastic RcVerif.Lemmas.RingBuf RcVerif.Lemmas.LListBuf RcVerif.Lemmas.ElasticBuf
open RcVerif.Ring (Ring)
open RcVerif.LList (LL)

/-- what an operation lets its caller see -/
inductive Obs
  | none
  | bytes (b : Bytes)
  | count (n : Nat)
  | byte (b : Option UInt8)
  deriving Repr, DecidableEq

/-! ### ring.Buffer -/

inductive ROp
  | write (p : Bytes)
  | writeByte (c : UInt8)
  | peek (n : Int)
  | discard (n : Int)
  | read (k : Nat)
  | readByte
  | reset
  deriving Repr

def rstep (rb : Ring) : ROp → Ring × Obs
  | .write p => (Ring.write rb p, .none)
  | .writeByte c => (Ring.writeByte rb c, .none)
  | .peek n => (rb, .bytes ((Ring.peek rb n).1 ++ (Ring.peek rb n).2))
  | .discard n => ((Ring.discard rb n).1, .count (Ring.discard rb n).2)
  | .read k => ((Ring.read rb k).1, .bytes (Ring.read rb k).2.1)
  | .readByte => ((Ring.readByte rb).1, .byte (Ring.readByte rb).2)
  | .reset => (Ring.reset rb, .none)

/-- the specification: an ideal FIFO byte queue -/
def qstep (q : Bytes) : ROp → Bytes × Obs
  | .write p => (q ++ p, .none)
  | .writeByte c => (q ++ [c], .none)
  | .peek n => (q, .bytes (if n ≤ 0 then q else q.take n.toNat))
  | .discard n => (q.drop n.toNat, .count (min n.toNat q.length))
  | .read k => (q.drop k, .bytes (q.take k))
  | .readByte => (q.drop 1, .byte q.head?)
  | .reset => ([], .none)

def runR (rb : Ring) : List ROp → Ring × List Obs
  | [] => (rb, [])
  | op :: ops => let (rb', o) := rstep rb op; let (rb'', os) := runR rb' ops; (rb'', o :: os)

def runQ (q : Bytes) : List ROp → Bytes × List Obs
  | [] => (q, [])
  | op :: ops => let (q', o) := qstep q op; let (q'', os) := runQ q' ops; (q'', o :: os)

/-- one operation on a well-formed ring is one operation on the queue -/
theorem rstep_refines (rb : Ring) (h : Inv rb) (op : ROp) :
    Inv (rstep rb op).1 ∧ Ring.content (rstep rb op).1 = (qstep (Ring.content rb) op).1 ∧
    (rstep rb op).2 = (qstep (Ring.content rb) op).2 := by
  cases op with
  | write p => exact ⟨(write_spec rb h p).1, (write_spec rb h p).2, rfl⟩
  | writeByte c =>
    show Inv (Ring.writeByte rb c) ∧ Ring.content (Ring.writeByte rb c) = Ring.content rb ++ [c] ∧ _
    rw [writeByte_eq rb h c]
    exact ⟨(write_spec rb h [c]).1, (write_spec rb h [c]).2, rfl⟩
  | peek n => exact ⟨h, rfl, by show Obs.bytes _ = Obs.bytes _; rw [RcVerif.Lemmas.RingBuf.peek_spec rb h n]⟩
  | discard n =>
    obtain ⟨d1, d2, d3⟩ := RcVerif.Lemmas.RingBuf.discard_spec rb h n
    exact ⟨d1, d2, by show Obs.count _ = Obs.count _; rw [d3]⟩
  | read k =>
    obtain ⟨d1, d2, d3⟩ := ring_read_spec rb h k
    exact ⟨d1, d2, by show Obs.bytes _ = Obs.bytes _; rw [d3]⟩
  | readByte =>
    by_cases he : rb.isEmpty = true
    · have hc : Ring.content rb = [] := by simp [Ring.content, he]
      simp [rstep, qstep, Ring.readByte, he, hc, h]
    · obtain ⟨e1, e2⟩ := readByte_eq rb h he
      obtain ⟨d1, d2, d3⟩ := ring_read_spec rb h 1
      refine ⟨by show Inv (Ring.readByte rb).1; rw [e1]; exact d1, by show Ring.content (Ring.readByte rb).1 = _; rw [e1]; exact d2, ?_⟩
      show Obs.byte (Ring.readByte rb).2 = Obs.byte (Ring.content rb).head?
      rw [e2, d3]
      cases Ring.content rb <;> rfl
  | reset => exact ⟨inv_reset rb h, content_reset rb, rfl⟩

theorem runR_refines (ops : List ROp) (rb : Ring) (h : Inv rb) :
    Inv (runR rb ops).1 ∧ Ring.content (runR rb ops).1 = (runQ (Ring.content rb) ops).1 ∧
    (runR rb ops).2 = (runQ (Ring.content rb) ops).2 := by
  induction ops generalizing rb with
  | nil => exact ⟨h, rfl, rfl⟩
  | cons op ops ih =>
    obtain ⟨s1, s2, s3⟩ := rstep_refines rb h op
    obtain ⟨i1, i2, i3⟩ := ih (rstep rb op).1 s1
    simp only [runR, runQ]
    refine ⟨i1, by rw [i2, s2], by rw [i3, s2, s3]⟩

/-- **C19, ring**: every observation of every operation sequence on `ring.New(size)` is the ideal queue's, and the
    reported lengths are exact -/
theorem C19_ring (size : Nat) (ops : List ROp) :
    let rb := (runR (Ring.new size) ops).1
    (runR (Ring.new size) ops).2 = (runQ [] ops).2 ∧
    Ring.content rb = (runQ [] ops).1 ∧
    Ring.buffered rb = (runQ [] ops).1.length ∧
    Ring.available rb = rb.size - (runQ [] ops).1.length ∧
    (rb.isEmpty = true ↔ (runQ [] ops).1 = []) := by
  obtain ⟨hn, hc⟩ := inv_new size
  obtain ⟨i1, i2, i3⟩ := runR_refines ops (Ring.new size) hn
  rw [hc] at i2 i3
  refine ⟨i3, i2, ?_, ?_, ?_⟩
  · rw [← i2, content_length _ i1]
  · rw [available_eq _ i1, ← i2, content_length _ i1]
  · rw [← i2]
    constructor
    · intro he; simp [Ring.content, he]
    · intro hc0
      cases hE : (runR (Ring.new size) ops).1.isEmpty with
      | true => rfl
      | false =>
        have hs := pos_of_nonempty _ i1 (by simp [hE])
        have hl := content_length _ i1
        rw [hc0] at hl
        have hr := i1.rlt hs
        have hw := i1.wlt hs
        simp only [Ring.buffered, hE, Bool.false_eq_true, ↓reduceIte, List.length_nil] at hl
        split at hl
        · omega
        · split at hl <;> omega

/-! ### linkedlist.Buffer -/

inductive LOp
  | pushBack (p : Bytes)
  | pushFront (p : Bytes)
  | peek (n : Int)
  | peekWithBytes (n : Int) (bs : List Bytes)
  | discard (n : Int)
  | read (k : Nat)
  | reset
  deriving Repr

/-- observations of the list: vectored peeks return slices -/
inductive LObs
  | none
  | slices (bs : List Bytes)
  | bytes (b : Bytes)
  | count (n : Nat)
  deriving Repr, DecidableEq

def lstep (l : LL) : LOp → LL × LObs
  | .pushBack p => (LList.pushBack l p, .none)
  | .pushFront p => (LList.pushFront l p, .none)
  | .peek n => (l, .slices (LList.peek l n))
  | .peekWithBytes n bs => (l, .slices (LList.peekWithBytes l n bs))
  | .discard n => ((LList.discard l n).1, .count (LList.discard l n).2)
  | .read k => ((LList.read l k).1, .bytes (LList.read l k).2)
  | .reset => (LList.reset l, .none)

/-- how the queue moves -/
def lnext (q : Bytes) : LOp → Bytes
  | .pushBack p => q ++ p
  | .pushFront p => p ++ q
  | .peek _ => q
  | .peekWithBytes _ _ => q
  | .discard n => q.drop n.toNat
  | .read k => q.drop k
  | .reset => []

/-- `flat` is a prefix of `have` that covers `n` bytes of it (all of it when `n ≤ 0` or fewer are there) -/
def CoversPrefix (n : Int) (flat have_ : Bytes) : Prop :=
  (∃ rest, have_ = flat ++ rest) ∧ min (LList.clampMax n) have_.length ≤ flat.length

/-- what the caller may see, given the queue -/
def lok (q : Bytes) : LOp → LObs → Prop
  | .pushBack _, .none => True
  | .pushFront _, .none => True
  | .peek n, .slices bs => CoversPrefix n bs.flatten q
  | .peekWithBytes n ex, .slices bs => CoversPrefix n bs.flatten (ex.flatten ++ q)
  | .discard n, .count d => d = min n.toNat q.length
  | .read k, .bytes b => b = q.take k
  | .reset, .none => True
  | _, _ => False

def runL (l : LL) : List LOp → LL × List LObs
  | [] => (l, [])
  | op :: ops => let (l', o) := lstep l op; let (l'', os) := runL l' ops; (l'', o :: os)

/-- every observation conforms to the queue as it stood -/
def Conforms : Bytes → List LOp → List LObs → Prop
  | _, [], [] => True
  | q, op :: ops, o :: os => lok q op o ∧ Conforms (lnext q op) ops os
  | _, _, _ => False

theorem lstep_refines (l : LL) (h : LInv l) (op : LOp) :
    LInv (lstep l op).1 ∧ LList.content (lstep l op).1 = lnext (LList.content l) op ∧
    lok (LList.content l) op (lstep l op).2 := by
  cases op with
  | pushBack p => exact ⟨(pushBack_spec l h p).1, (pushBack_spec l h p).2, trivial⟩
  | pushFront p => exact ⟨(pushFront_spec l h p).1, (pushFront_spec l h p).2, trivial⟩
  | peek n => exact ⟨h, rfl, RcVerif.Lemmas.LListBuf.peek_spec l n⟩
  | peekWithBytes n bs => exact ⟨h, rfl, peekWithBytes_spec l n bs⟩
  | discard n =>
    obtain ⟨d1, d2, d3⟩ := RcVerif.Lemmas.LListBuf.discard_spec l h n
    exact ⟨d1, d2, d3⟩
  | read k =>
    obtain ⟨d1, d2, d3⟩ := read_spec l h k
    exact ⟨d1, d2, d3⟩
  | reset => exact ⟨inv_empty, rfl, trivial⟩

theorem runL_refines (ops : List LOp) (l : LL) (h : LInv l) :
    LInv (runL l ops).1 ∧ Conforms (LList.content l) ops (runL l ops).2 := by
  induction ops generalizing l with
  | nil => exact ⟨h, trivial⟩
  | cons op ops ih =>
    obtain ⟨s1, s2, s3⟩ := lstep_refines l h op
    obtain ⟨i1, i2⟩ := ih (lstep l op).1 s1
    simp only [runL]
    exact ⟨i1, s3, by rw [← s2]; exact i2⟩

/-- **C19, linked list**: every operation sequence on an empty `linkedlist.Buffer` conforms to the ideal queue, and
    the byte and node counters are exact -/
theorem C19_llist (ops : List LOp) :
    Conforms [] ops (runL {} ops).2 ∧
    (runL {} ops).1.bytes = (LList.content (runL {} ops).1).length ∧
    (runL {} ops).1.size = (runL {} ops).1.nodes.length := by
  obtain ⟨i1, i2⟩ := runL_refines ops {} inv_empty
  exact ⟨i2, i1.bytes, i1.size⟩

/-! ### elastic.Buffer and elastic.RingBuffer over one ring pool -/

inductive EOp
  | write (p : Bytes)
  | writev (bs : List Bytes)
  | peek (n : Int)
  | discard (n : Int)
  | read (k : Nat)
  | reset (maxStatic : Int)
  | release
  -- the second buffer: an `elastic.RingBuffer` (a connection's inbound buffer) sharing the pool
  | rWrite (p : Bytes)
  | rPeek (n : Int)
  | rDiscard (n : Int)
  | rRead (k : Nat)
  | rReset
  | rDone
  deriving Repr

structure EState where
  pool : Pool := {}
  a : EBuf
  r : ERing := {}

def estep (s : EState) : EOp → EState × LObs
  | .write p => let (pool, a) := s.a.write s.pool p; ({ s with pool := pool, a := a }, .none)
  | .writev bs => let (pool, a) := s.a.writev s.pool bs; ({ s with pool := pool, a := a }, .none)
  | .peek n => (s, .slices (s.a.peek n))
  | .discard n => let (pool, a, d) := s.a.discard s.pool n; ({ s with pool := pool, a := a }, .count d)
  | .read k => let (pool, a, out) := s.a.read s.pool k; ({ s with pool := pool, a := a }, .bytes out)
  | .reset m => ({ s with a := s.a.reset m }, .none)
  | .release => let (pool, a) := s.a.release s.pool; ({ s with pool := pool, a := a }, .none)
  | .rWrite p => let (pool, r) := s.r.write s.pool p; ({ s with pool := pool, r := r }, .none)
  | .rPeek n => (s, .bytes ((s.r.peek n).1 ++ (s.r.peek n).2))
  | .rDiscard n => let (pool, r, d, _) := s.r.discard s.pool n; ({ s with pool := pool, r := r }, .count d)
  | .rRead k => let (pool, r, out, _) := s.r.read s.pool k; ({ s with pool := pool, r := r }, .bytes out)
  | .rReset => ({ s with r := s.r.reset }, .none)
  | .rDone => let (pool, r) := s.r.release s.pool; ({ s with pool := pool, r := r }, .none)

/-- the two queues -/
def enext (q : Bytes × Bytes) : EOp → Bytes × Bytes
  | .write p => (q.1 ++ p, q.2)
  | .writev bs => (q.1 ++ bs.flatten, q.2)
  | .peek _ => q
  | .discard n => (q.1.drop n.toNat, q.2)
  | .read k => (q.1.drop k, q.2)
  | .reset _ => ([], q.2)
  | .release => ([], q.2)
  | .rWrite p => (q.1, q.2 ++ p)
  | .rPeek _ => q
  | .rDiscard n => (q.1, q.2.drop n.toNat)
  | .rRead k => (q.1, q.2.drop k)
  | .rReset => (q.1, [])
  | .rDone => (q.1, [])

def eok (q : Bytes × Bytes) : EOp → LObs → Prop
  | .write _, .none => True
  | .writev _, .none => True
  | .peek n, .slices bs => CoversPrefix n bs.flatten q.1
  | .discard n, .count d => d = min n.toNat q.1.length
  | .read k, .bytes b => b = q.1.take k
  | .reset _, .none => True
  | .release, .none => True
  | .rWrite _, .none => True
  | .rPeek n, .bytes b => b = if n ≤ 0 then q.2 else q.2.take n.toNat
  | .rDiscard n, .count d => d = min n.toNat q.2.length
  | .rRead k, .bytes b => b = q.2.take k
  | .rReset, .none => True
  | .rDone, .none => True
  | _, _ => False

def runE (s : EState) : List EOp → EState × List LObs
  | [] => (s, [])
  | op :: ops => let (s', o) := estep s op; let (s'', os) := runE s' ops; (s'', o :: os)

def EConforms : Bytes × Bytes → List EOp → List LObs → Prop
  | _, [], [] => True
  | q, op :: ops, o :: os => eok q op o ∧ EConforms (enext q op) ops os
  | _, _, _ => False

structure EOK (s : EState) : Prop where
  pool : PInv s.pool
  a : BInv s.a
  r : EInv s.r

def equeues (s : EState) : Bytes × Bytes := (s.a.content, s.r.content)

theorem estep_refines (s : EState) (h : EOK s) (op : EOp) :
    EOK (estep s op).1 ∧ equeues (estep s op).1 = enext (equeues s) op ∧ eok (equeues s) op (estep s op).2 := by
  cases op with
  | write p =>
    obtain ⟨w1, w2, w3⟩ := ebuf_write_spec s.pool s.a h.pool h.a p
    exact ⟨⟨w1, w2, h.r⟩, by simp [equeues, enext, estep, w3], trivial⟩
  | writev bs =>
    obtain ⟨w1, w2, w3⟩ := ebuf_writev_spec s.pool s.a h.pool h.a bs
    exact ⟨⟨w1, w2, h.r⟩, by simp [equeues, enext, estep, w3], trivial⟩
  | peek n => exact ⟨h, rfl, ebuf_peek_spec s.a h.a n⟩
  | discard n =>
    obtain ⟨w1, w2, w3, w4⟩ := ebuf_discard_spec s.pool s.a h.pool h.a n
    exact ⟨⟨w1, w2, h.r⟩, by simp [equeues, enext, estep, w3], w4⟩
  | read k =>
    obtain ⟨w1, w2, w3, w4⟩ := ebuf_read_spec s.pool s.a h.pool h.a k
    exact ⟨⟨w1, w2, h.r⟩, by simp [equeues, enext, estep, w3], w4⟩
  | reset m =>
    obtain ⟨w1, w2⟩ := ebuf_reset_spec s.a h.a m
    exact ⟨⟨h.pool, w1, h.r⟩, by simp [equeues, enext, estep, w2], trivial⟩
  | release =>
    obtain ⟨w1, w2, w3⟩ := ebuf_release_spec s.pool s.a h.pool h.a
    exact ⟨⟨w1, w2, h.r⟩, by simp [equeues, enext, estep, w3], trivial⟩
  | rWrite p =>
    obtain ⟨w1, w2, w3⟩ := ering_write_spec s.pool s.r h.pool h.r p
    exact ⟨⟨w1, h.a, w2⟩, by simp [equeues, enext, estep, w3], trivial⟩
  | rPeek n => exact ⟨h, rfl, ering_peek_spec s.r h.r n⟩
  | rDiscard n =>
    obtain ⟨w1, w2, w3, w4⟩ := ering_discard_spec s.pool s.r h.pool h.r n
    exact ⟨⟨w1, h.a, w2⟩, by simp [equeues, enext, estep, w3], w4⟩
  | rRead k =>
    obtain ⟨w1, w2, w3, w4⟩ := ering_read_spec s.pool s.r h.pool h.r k
    exact ⟨⟨w1, h.a, w2⟩, by simp [equeues, enext, estep, w3], w4⟩
  | rReset =>
    obtain ⟨w1, w2⟩ := ering_reset_spec s.r h.r
    exact ⟨⟨h.pool, h.a, w1⟩, by simp [equeues, enext, estep, w2], trivial⟩
  | rDone =>
    obtain ⟨w1, w2, w3⟩ := ering_release_spec s.pool s.r h.pool h.r
    exact ⟨⟨w1, h.a, w2⟩, by simp [equeues, enext, estep, w3], trivial⟩

theorem runE_refines (ops : List EOp) (s : EState) (h : EOK s) :
    EOK (runE s ops).1 ∧ EConforms (equeues s) ops (runE s ops).2 := by
  induction ops generalizing s with
  | nil => exact ⟨h, trivial⟩
  | cons op ops ih =>
    obtain ⟨s1, s2, s3⟩ := estep_refines s h op
    obtain ⟨i1, i2⟩ := ih (estep s op).1 s1
    simp only [runE]
    exact ⟨i1, s3, by rw [← s2]; exact i2⟩

/-- **C19, elastic**: every operation sequence on a fresh `elastic.Buffer` and a fresh `elastic.RingBuffer` that
    share an (initially empty) ring pool conforms to two ideal queues; `Buffered` is exact; whatever sits in the
    pool afterwards is empty -/
theorem C19_elastic (maxStatic : Nat) (ops : List EOp) :
    let fin := (runE { a := { maxStatic := maxStatic } } ops).1
    EConforms ([], []) ops (runE { a := { maxStatic := maxStatic } } ops).2 ∧
    fin.a.buffered = fin.a.content.length ∧ fin.r.buffered = fin.r.content.length ∧
    (∀ r, fin.pool.priv = some r → Ring.content r = []) ∧ (∀ r ∈ fin.pool.shared, Ring.content r = []) := by
  have h0 : EOK { a := { maxStatic := maxStatic } } :=
    ⟨pinv_empty, ⟨fun _ h => by simp at h, inv_empty⟩, fun _ h => by simp at h⟩
  obtain ⟨i1, i2⟩ := runE_refines ops _ h0
  exact ⟨i2, ebuf_buffered _ i1.a, ering_buffered _ i1.r, fun r hr => (i1.pool.priv r hr).2, fun r hr => (i1.pool.shared r hr).2⟩

/-! ### the users: a connection's write path under arbitrary short writes -/

inductive COp
  | writev (bs : List Bytes) (accepted : Nat)
  | write (data : Bytes) (accepted : Nat)
  | writable (accepted : Nat)
  deriving Repr

def cstep (s : Pool × ConnIO.Conn) : COp → Pool × ConnIO.Conn
  | .writev bs acc => ConnIO.writev s.1 s.2 bs acc
  | .write d acc => ConnIO.write s.1 s.2 d acc
  | .writable acc => ConnIO.flush s.1 s.2 acc

def submitted : List COp → Bytes
  | [] => []
  | .writev bs _ :: ops => bs.flatten ++ submitted ops
  | .write d _ :: ops => d ++ submitted ops
  | .writable _ :: ops => submitted ops

open RcVerif.Lemmas.ConnIOBuf in
theorem cstep_spec (s : Pool × ConnIO.Conn) (h : CInv s.1 s.2) (op : COp) :
    CInv (cstep s op).1 (cstep s op).2 ∧ stream (cstep s op).2 = stream s.2 ++ submitted [op] := by
  cases op with
  | writev bs acc =>
    have := writev_spec s.1 s.2 h bs acc
    simpa [submitted, cstep] using this
  | write d acc =>
    have := RcVerif.Lemmas.ConnIOBuf.write_spec s.1 s.2 h d acc
    simpa [submitted, cstep] using this
  | writable acc =>
    have := flush_spec s.1 s.2 h acc
    simpa [submitted, cstep] using this

theorem submitted_cons (op : COp) (ops : List COp) : submitted (op :: ops) = submitted [op] ++ submitted ops := by
  cases op <;> simp [submitted]

open RcVerif.Lemmas.ConnIOBuf in
/-- **C19, users**: for every sequence of writes, vectored writes and writable events and EVERY choice of how many
    bytes the kernel accepts each time, what is on the wire followed by what is backlogged is exactly what was
    submitted, in order -/
theorem C19_conn_stream (maxStatic : Nat) (ops : List COp) :
    let fin := ops.foldl cstep (({} : Pool), ({ out := { maxStatic := maxStatic } } : ConnIO.Conn))
    fin.2.wire ++ fin.2.out.content = submitted ops := by
  have key : ∀ (ops : List COp) (s : Pool × ConnIO.Conn), CInv s.1 s.2 →
      stream (ops.foldl cstep s).2 = stream s.2 ++ submitted ops := by
    intro ops
    induction ops with
    | nil => intro s _; simp [submitted]
    | cons op ops ih =>
      intro s h
      obtain ⟨h1, h2⟩ := cstep_spec s h op
      rw [List.foldl_cons, ih (cstep s op) h1, h2, submitted_cons op ops, List.append_assoc]
  have h0 : CInv ({} : Pool) ({ out := { maxStatic := maxStatic } } : ConnIO.Conn) :=
    ⟨pinv_empty, ⟨fun _ h => by simp at h, inv_empty⟩⟩
  have := key ops (({} : Pool), ({ out := { maxStatic := maxStatic } } : ConnIO.Conn)) h0
  simpa [stream, EBuf.content, ERing.content, LList.content] using this

/-! ### the pending-write queue of a backend connection under arbitrary short writes -/

inductive QOp
  | enqueue (req : Bytes)             -- `EnqueueOutFrag`
  | signal (accepted : List Nat)      -- the poller runs `handleWriteSignal`; bytes accepted by each vectored write
  | writable (accepted : Nat)         -- a writable event drains the backlog
  deriving Repr

def bqstep (s : Pool × ConnIO.Conn) : QOp → Pool × ConnIO.Conn
  | .enqueue req => (s.1, ConnIO.enqueue s.2 req)
  | .signal accs => ConnIO.writeSignal s.1 s.2 accs
  | .writable acc => ConnIO.flush s.1 s.2 acc

def enqueued : List QOp → Bytes
  | [] => []
  | .enqueue req :: ops => req ++ enqueued ops
  | _ :: ops => enqueued ops

open RcVerif.Lemmas.ConnIOBuf in
theorem bqstep_spec (s : Pool × ConnIO.Conn) (h : CInv s.1 s.2) (op : QOp) :
    CInv (bqstep s op).1 (bqstep s op).2 ∧ qstream (bqstep s op).2 = qstream s.2 ++ enqueued [op] := by
  cases op with
  | enqueue req =>
    have := enqueue_spec s.1 s.2 h req
    simpa [enqueued, bqstep] using this
  | signal accs =>
    have := writeSignal_spec s.1 s.2 h accs (by decide)
    simpa [enqueued, bqstep] using ⟨this.1, this.2.1⟩
  | writable acc =>
    have := flush_spec s.1 s.2 h acc
    refine ⟨this.1, ?_⟩
    simp only [bqstep, enqueued, List.append_nil, qstream, this.2, flush_queue]

theorem enqueued_cons (op : QOp) (ops : List QOp) : enqueued (op :: ops) = enqueued [op] ++ enqueued ops := by
  cases op <;> simp [enqueued]

open RcVerif.Lemmas.ConnIOBuf in
/-- **C10 under a backlog**: for every sequence of requests queued on a backend connection, write signals and writable
    events, and EVERY choice of how many bytes the kernel accepts in each write, what is on the wire, followed by the
    backlog, followed by what is still queued, is exactly the requests in the order they were queued -/
theorem C10_queue_stream (maxStatic : Nat) (ops : List QOp) :
    let fin := ops.foldl bqstep (({} : Pool), ({ out := { maxStatic := maxStatic } } : ConnIO.Conn))
    fin.2.wire ++ fin.2.out.content ++ fin.2.queue.flatten = enqueued ops := by
  have key : ∀ (ops : List QOp) (s : Pool × ConnIO.Conn), CInv s.1 s.2 →
      qstream (ops.foldl bqstep s).2 = qstream s.2 ++ enqueued ops := by
    intro ops
    induction ops with
    | nil => intro s _; simp [enqueued]
    | cons op ops ih =>
      intro s h
      obtain ⟨h1, h2⟩ := bqstep_spec s h op
      rw [List.foldl_cons, ih (bqstep s op) h1, h2, enqueued_cons op ops, List.append_assoc]
  have h0 : CInv ({} : Pool) ({ out := { maxStatic := maxStatic } } : ConnIO.Conn) :=
    ⟨pinv_empty, ⟨fun _ h => by simp at h, inv_empty⟩⟩
  have := key ops (({} : Pool), ({ out := { maxStatic := maxStatic } } : ConnIO.Conn)) h0
  simpa [qstream, stream, EBuf.content, ERing.content, LList.content] using this

/- non-vacuity: two requests queued, the kernel takes 3 bytes of the vectored write, a third request is queued behind
   the backlog, a writable event drains the backlog, the write signal runs while the kernel takes nothing: order kept -/
example :
    let fin := [QOp.enqueue [1, 2], .enqueue [3, 4], .signal [3], .enqueue [5, 6], .writable 2, .signal [0]].foldl bqstep
      (({} : Pool), ({ out := { maxStatic := 8 } } : ConnIO.Conn))
    fin.2.wire = [1, 2, 3, 4] ∧ fin.2.out.content = [5, 6] ∧ fin.2.queue = [] := by decide +kernel

/- non-vacuity, kernel-evaluated: wrap-around and growth on a 4-byte ring; spill into the list -/
example :
    (runR (Ring.new 4) [.write [1, 2, 3], .discard 2, .write [4, 5, 6], .peek (-1), .write [7, 8], .read 3, .peek 0]).2 =
      [.none, .count 2, .none, .bytes [3, 4, 5, 6], .none, .bytes [3, 4, 5], .bytes [6, 7, 8]] := by decide +kernel

example :
    (runE { a := { maxStatic := 4 } } [.write [1, 2, 3], .writev [[4, 5], [6]], .rWrite [9], .read 4, .rDone, .peek (-1)]).2 =
      [.none, .none, .none, .bytes [1, 2, 3, 4], .none, .slices [[5, 6]]] := by decide +kernel

end RcVerif.Props.C19
