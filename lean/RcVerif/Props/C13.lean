import RcVerif.Lemmas.SimBack
import RcVerif.Props.C10
import RcVerif.Props.C16
/-
  C13 — MOVED and ASK redirects are followed transparently and terminate.

  * `C13_redirect_not_merged`: a MOVED/ASK reply is never merged into the request - no client byte comes from it;
  * `C13_followed`: a redirect naming a known node re-queues the fragment, with its original request bytes, at the
    tail of the pending queue of an open connection of that node's pool (`poolGet_open`), ASKING directly before it
    for ASK; with C10 (`stream`, queue order = wire order) the node receives `ASKING` immediately followed by the
    request;
  * `C13_bounded` / `C13_unknown_node`: the redirect counter of the fragment goes up by one per redirect followed;
    at `maxRedirects` (the Go constant, regenerated) the request is completed with an error instead - so a
    redirect loop ends; a redirect to an unknown node completes the request with an error as well;
  * once, and in pipeline order: the invariants of C01/C09 hold for ALL histories, redirects included
    (`C13_once_in_order`), and a reply that arrives for a request already completed is dropped (C16).
  The count over whole histories - no fragment is ever re-sent more than `maxRedirects` times, for any mix of MOVED
  and ASK between any nodes - is `C13_resend_bound` in `Props/C13Bound.lean` (an invariant over `Sim.step`).
-/
namespace RcVerif.Props.C13
open RcVerif RcVerif.Sim RcVerif.Merge RcVerif.Lemmas.SimInv RcVerif.Lemmas.SimBack RcVerif.Props.C01 RcVerif.Props.C03

/-- a MOVED / ASK reply is never merged into the request: it only records the reply type and signals the
    redirect; the reply body, the counters and every fragment's `done` flag are untouched, so the client never
    sees it (the final node's reply is what gets merged, later) -/
theorem C13_redirect_not_merged (T : Tables) (K : Merge.Consts) (slotFn : Bytes → Nat) (limit : Nat) (m : MMsg)
    (slot rtype : Nat) (body : Bytes) (f : MFrag) (hf : getFrag m slot = some f) (hd : f.done = false)
    (hr : rtype = T.rMoved ∨ rtype = T.rAsk) :
    onReply T K slotFn limit m slot rtype body = (setFrag m slot (fun x => { x with rtype := rtype }), .redirect) ∧
    (setFrag m slot (fun x => { x with rtype := rtype })).rspBody = m.rspBody ∧
    (setFrag m slot (fun x => { x with rtype := rtype })).done = m.done ∧
    (setFrag m slot (fun x => { x with rtype := rtype })).fragDone = m.fragDone ∧
    (setFrag m slot (fun x => { x with rtype := rtype })).frags.map (fun x => (x.slot, x.req, x.done, x.rsp, x.redirects)) =
      m.frags.map (fun x => (x.slot, x.req, x.done, x.rsp, x.redirects)) := by
  refine ⟨?_, rfl, rfl, rfl, ?_⟩
  · unfold onReply
    rw [hf]
    simp only [hd, Bool.false_eq_true, ↓reduceIte, hr]
  · unfold setFrag
    simp only [List.map_map]
    apply List.map_congr_left
    intro x _
    simp only [Function.comp]
    split <;> rfl

/-- the redirect counter of a fragment -/
def redOf (m : MMsg) (slot : Nat) : Nat := ((getFrag m slot).map (·.redirects)).getD 0

/-- the entries a redirect queues: for ASK, ASKING first and the request directly behind it -/
def resend (S : Strs) (mi slot : Nat) (isAsk : Bool) (req : Bytes) : List QEntry :=
  (if isAsk then [{ ref := .asking, bytes := S.asking }] else []) ++ [{ ref := .frag mi slot, bytes := req }]

theorem getFrag_setFrag (m : MMsg) (slot : Nat) (g : MFrag → MFrag) (hg : ∀ x, (g x).slot = x.slot) :
    getFrag (setFrag m slot g) slot = (getFrag m slot).map g := by
  unfold getFrag setFrag
  dsimp only
  induction m.frags with
  | nil => rfl
  | cons x xs ih =>
    simp only [List.map_cons, List.find?_cons]
    by_cases hx : x.slot = slot
    · simp [hx, hg]
    · simp [hx, ih]

/-- **followed**: a redirect naming a known node, within the bound, re-queues the fragment on the connection
    `Pool.Get` returns for that node's pool: at the tail of its pending queue, ASKING directly before it for ASK,
    carrying the very bytes of the original request; the redirect counter goes up by one; nothing is written
    to any client -/
theorem C13_followed (S : Strs) (cfg : Cfg) (s : State) (mi slot : Nat) (isAsk : Bool) (addr : Bytes)
    (r : Req) (fr : MFrag) (p : Nat) (hr : s.msgs[mi]? = some r) (hfr : getFrag r.m slot = some fr)
    (hred : fr.redirects + 1 ≤ S.maxRedirects) (hp : findPool s.pools addr = some p) :
    let s1 := s.updReq mi (fun r => { r with m := setFrag r.m slot (fun f => { f with redirects := f.redirects + 1 }) })
    let g := poolGet S cfg s1 p
    let s' := onMoved S cfg s mi slot isAsk addr
    (∀ x, g.1.backends[g.2]? = some x →
        s'.backends[g.2]? = some { x with outQ := x.outQ ++ resend S mi slot isAsk fr.req,
                                           enq := x.enq ++ resend S mi slot isAsk fr.req }) ∧
    (∀ j, j ≠ g.2 → s'.backends[j]? = g.1.backends[j]?) ∧
    s'.clients = s.clients ∧
    s'.msgs[mi]? = some { r with m := setFrag r.m slot (fun f => { f with redirects := f.redirects + 1 }) } := by
  intro s1 g s'
  have hr' : s.req mi = some r := hr
  have hs' : s' = enqueueOut (if isAsk then enqueueOut g.1 g.2 { ref := .asking, bytes := S.asking } else g.1) g.2
      { ref := .frag mi slot, bytes := fragReq S s1 (.frag mi slot) } := by
    show onMoved S cfg s mi slot isAsk addr = _
    unfold onMoved
    rw [hr']
    have hro : redOf r.m slot = fr.redirects := by simp [redOf, hfr]
    unfold redOf at hro
    simp only [hro, show ¬ (fr.redirects + 1 > S.maxRedirects) from by omega, ↓reduceIte]
    have hp1 : findPool s1.pools addr = some p := hp
    simp only [s1] at hp1
    rw [hp1]
  have hbytes : fragReq S s1 (.frag mi slot) = fr.req := by
    unfold fragReq State.req
    dsimp only
    rw [show s1.msgs[mi]? = some _ from msgs_updReq_same s mi _ r hr]
    dsimp only
    rw [getFrag_setFrag r.m slot (fun f => { f with redirects := f.redirects + 1 }) (fun _ => rfl), hfr]
    rfl
  rw [hbytes] at hs'
  refine ⟨fun x hx => ?_, fun j hj => ?_, ?_, ?_⟩
  · rw [hs']
    cases isAsk with
    | false =>
      simp only [Bool.false_eq_true, ↓reduceIte, resend, List.nil_append]
      exact backend_upd_same g.1 g.2 _ x hx
    | true =>
      simp only [↓reduceIte, resend]
      have h1 := backend_upd_same g.1 g.2 (fun x => { x with outQ := x.outQ ++ [{ ref := .asking, bytes := S.asking }], enq := x.enq ++ [{ ref := .asking, bytes := S.asking }] }) x hx
      have h2 := backend_upd_same (enqueueOut g.1 g.2 { ref := .asking, bytes := S.asking }) g.2
        (fun x => { x with outQ := x.outQ ++ [{ ref := .frag mi slot, bytes := fr.req }], enq := x.enq ++ [{ ref := .frag mi slot, bytes := fr.req }] }) _ h1
      rw [show (enqueueOut (enqueueOut g.1 g.2 _) g.2 _).backends[g.2]? = _ from h2]
      simp
  · rw [hs']
    cases isAsk with
    | false =>
      simp only [Bool.false_eq_true, ↓reduceIte]
      exact backend_upd_other g.1 g.2 j _ hj
    | true =>
      simp only [↓reduceIte]
      rw [show (enqueueOut (enqueueOut g.1 g.2 _) g.2 _).backends[j]? = _ from backend_upd_other _ g.2 j _ hj]
      exact backend_upd_other g.1 g.2 j _ hj
  · rw [hs']
    have h1 : g.1.clients = s.clients := (same_poolGet S cfg s1 p).1
    cases isAsk <;> exact h1
  · rw [hs']
    have h1 : g.1.msgs = s1.msgs := (same_poolGet S cfg s1 p).2
    have h2 : s1.msgs[mi]? = some _ := msgs_updReq_same s mi _ r hr
    cases isAsk <;> (show g.1.msgs[mi]? = _; rw [h1]; exact h2)


/-- completed with the error `e`: done, answered with `e`, every fragment done (later replies are dropped) -/
def FailedWith (e : Bytes) (r : Req) : Prop :=
  r.m.done = true ∧ r.m.rspBody = e ∧ ∀ x ∈ r.m.frags, x.done = true

theorem failReq_failed (m : MMsg) (e : Bytes) (o n : Nat) : FailedWith e { owner := o, num := n, m := failReq m e } := by
  refine ⟨rfl, rfl, fun x hx => ?_⟩
  simp only [failReq, allDone, List.mem_map] at hx
  obtain ⟨y, _, rfl⟩ := hx
  rfl

/-- the failing branch of `OnMoved` -/
theorem onMoved_fails (S : Strs) (s : State) (mi slot : Nat) (r : Req) (e : Bytes) (hr : s.msgs[mi]? = some r) :
    let s' := flushClient (s.updReq mi (fun r => { r with m := failReq (setFrag r.m slot (fun f => { f with err := e })) e })) r.owner
    s'.backends = s.backends ∧
    ∃ r', s'.msgs[mi]? = some r' ∧ FailedWith e r' ∧ r'.owner = r.owner ∧ r'.num = r.num := by
  intro s'
  refine ⟨bsame_flushClient _ _, { r with m := failReq (setFrag r.m slot (fun f => { f with err := e })) e }, ?_,
    failReq_failed _ e r.owner r.num, rfl, rfl⟩
  show (flushClient _ _).msgs[mi]? = _
  rw [msgs_flushClient]
  exact msgs_updReq_same s mi _ r hr

/-- **terminates**: once a fragment has been redirected `maxRedirects` times, the next redirect is not followed:
    the request is completed with the too-many-redirects error (and flushed), nothing is queued -/
theorem C13_bounded (S : Strs) (cfg : Cfg) (s : State) (mi slot : Nat) (isAsk : Bool) (addr : Bytes)
    (r : Req) (fr : MFrag) (hr : s.msgs[mi]? = some r) (hfr : getFrag r.m slot = some fr)
    (hred : fr.redirects + 1 > S.maxRedirects) :
    (onMoved S cfg s mi slot isAsk addr).backends = s.backends ∧
    ∃ r', (onMoved S cfg s mi slot isAsk addr).msgs[mi]? = some r' ∧ FailedWith S.errTooManyRedirects r' ∧
      r'.owner = r.owner ∧ r'.num = r.num := by
  have hr' : s.req mi = some r := hr
  unfold onMoved
  rw [hr']
  have hro : ((getFrag r.m slot).map (·.redirects)).getD 0 = fr.redirects := by simp [hfr]
  simp only [hro, hred, ↓reduceIte]
  exact onMoved_fails S (s.updReq mi _) mi slot
    { r with m := setFrag r.m slot (fun f => { f with redirects := f.redirects + 1 }) } S.errTooManyRedirects (msgs_updReq_same s mi _ r hr)

/-- a redirect naming a node the proxy has no pool for is not followed either: the request is completed with an
    error instead of being dropped (also part of C15) -/
theorem C13_unknown_node (S : Strs) (cfg : Cfg) (s : State) (mi slot : Nat) (isAsk : Bool) (addr : Bytes)
    (r : Req) (fr : MFrag) (hr : s.msgs[mi]? = some r) (hfr : getFrag r.m slot = some fr)
    (hred : fr.redirects + 1 ≤ S.maxRedirects) (hp : findPool s.pools addr = none) :
    (onMoved S cfg s mi slot isAsk addr).backends = s.backends ∧
    ∃ r', (onMoved S cfg s mi slot isAsk addr).msgs[mi]? = some r' ∧ FailedWith S.errUnknownPool r' ∧
      r'.owner = r.owner ∧ r'.num = r.num := by
  have hr' : s.req mi = some r := hr
  unfold onMoved
  rw [hr']
  have hro : ((getFrag r.m slot).map (·.redirects)).getD 0 = fr.redirects := by simp [hfr]
  simp only [hro, show ¬ (fr.redirects + 1 > S.maxRedirects) from by omega, ↓reduceIte]
  have hp1 : findPool (s.updReq mi (fun r => { r with m := setFrag r.m slot (fun f => { f with redirects := f.redirects + 1 }) })).pools addr = none := hp
  rw [hp1]
  exact onMoved_fails S (s.updReq mi _) mi slot
    { r with m := setFrag r.m slot (fun f => { f with redirects := f.redirects + 1 }) } S.errUnknownPool (msgs_updReq_same s mi _ r hr)

theorem rotate_open (backends : List Backend) (fuel : Nat) (active : List Nat) (id : Nat) (act' : List Nat)
    (h : rotate backends fuel active = some (id, act')) : ∃ b, backends[id]? = some b ∧ b.opened = true := by
  induction fuel generalizing active with
  | zero => simp [rotate] at h
  | succ fuel ih =>
    unfold rotate at h
    split at h
    · simp at h
    · split at h
      · rename_i b hb
        split at h
        · rename_i ho
          injection h with h; injection h with h1 _; subst h1
          exact ⟨b, hb, ho⟩
        · exact ih _ h
      · exact ih _ h

theorem dial_open (S : Strs) (cfg : Cfg) (s : State) (p : Nat) (pool : Pool) (hp : s.pools[p]? = some pool) :
    ∃ b, (dial S cfg s p).1.backends[(dial S cfg s p).2]? = some b ∧ b.opened = true ∧ b.addr = pool.addr := by
  unfold dial
  rw [hp]
  dsimp only
  refine ⟨{ addr := pool.addr, isSlave := pool.isSlave, initSteps := (handshake S cfg pool.isSlave).2,
            initializing := (handshake S cfg pool.isSlave).2 > 0, out := (handshake S cfg pool.isSlave).1,
            hs := (handshake S cfg pool.isSlave).1 }, ?_, rfl, rfl⟩
  simp

/-- `Pool.Get` hands out an open connection (closed ones are evicted, a new one is dialled if none is left) -/
theorem poolGet_open (S : Strs) (cfg : Cfg) (s : State) (p : Nat) (pool : Pool) (hp : s.pools[p]? = some pool) :
    ∃ b, (poolGet S cfg s p).1.backends[(poolGet S cfg s p).2]? = some b ∧ b.opened = true := by
  unfold poolGet
  rw [hp]
  dsimp only
  split
  · obtain ⟨b, h1, h2, _⟩ := dial_open S cfg s p pool hp
    exact ⟨b, h1, h2⟩
  · split
    · rename_i id act' hrot
      exact rotate_open s.backends _ _ id act' hrot
    · have hp' : ({ s with pools := setAt s.pools p (fun q => { q with active := [] }) } : State).pools[p]? = some { pool with active := [] } := by
        show (setAt s.pools p _)[p]? = _
        rw [getElem?_setAt]; simp [hp]
      obtain ⟨b, h1, h2, _⟩ := dial_open S cfg _ p _ hp'
      exact ⟨b, h1, h2⟩


/-- once and in pipeline order, for every history (redirects are ordinary events of the machine) -/
theorem C13_once_in_order : C01_statement := C01

/- non-vacuity, kernel-evaluated on the model with the real tables: GET a is answered ASK by node m, re-sent to
   node n behind ASKING, and the client receives only n's reply -/
def exCfg : Cfg := { limit := 1000, timeout := false, passwd := [], disableSlave := true, maxActive := 1 }
def getA : Bytes := [42, 50, 13, 10, 36, 51, 13, 10, 103, 101, 116, 13, 10, 36, 49, 13, 10, 97, 13, 10]
def askN : Bytes := [45, 65, 83, 75, 32, 49, 53, 52, 57, 53, 32, 110, 13, 10]          -- "-ASK 15495 n\r\n"
def movedM : Bytes := [45, 77, 79, 86, 69, 68, 32, 49, 53, 52, 57, 53, 32, 109, 13, 10] -- "-MOVED 15495 m\r\n"
def exPools : List (Bytes × Bool) := [([109], false), ([110], false)]
def exTable : List (Nat × Nat × RSet) := [(0, 16383, { master := [109], slaves := [] })]
def exAsk : List Event :=
  [.connect true, .clientBytes 0 getA [{ visit := [(15495, [109])] }], .runTasks,
   .backendBytes 0 askN, .runTasks,
   .backendBytes 1 [43, 79, 75, 13, 10, 36, 49, 13, 10, 118, 13, 10]]
example :
    let s := reach exCfg goSlot exPools exTable exAsk
    s.flag = none ∧ s.clients.map (·.out) = [[36, 49, 13, 10, 118, 13, 10]] ∧
    s.backends.map (·.out) = [getA, Gen.reqAsking ++ getA] := by
  decide +kernel

/- a redirect loop (node m keeps answering MOVED to itself) ends after `maxRedirects` re-sends with the error -/
def exLoop : List Event :=
  [.connect true, .clientBytes 0 getA [{ visit := [(15495, [109])] }], .runTasks] ++
  (List.replicate 17 [Event.backendBytes 0 movedM, Event.runTasks]).flatten
example :
    let s := reach exCfg goSlot exPools exTable exLoop
    s.flag = none ∧ s.clients.map (·.out) = [Gen.strErrTooManyRedirects] ∧
    s.backends.map (fun b => b.sent.length) = [17, 0] := by
  decide +kernel

end RcVerif.Props.C13
