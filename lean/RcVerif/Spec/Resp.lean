import RcVerif.Model.Basic
/-
  Specification side of RESP: the canonical encoding of a request (what client
  libraries emit and what a Redis server accepts without a protocol error) and
  an inductive RESP2 reply type with its encoder. Written independently of the
  decoders.
-/
namespace RcVerif.Spec

/-- `$<len>\r\n<bytes>\r\n` -/
def encBulk (b : Bytes) : Bytes := [36] ++ itoa b.length ++ [13, 10] ++ b ++ [13, 10]

/-- `*<n>\r\n` followed by the `n` bulk strings -/
def encRequest (args : List Bytes) : Bytes :=
  [42] ++ itoa args.length ++ [13, 10] ++ (args.map encBulk).flatten

/-- a byte string a Redis server parses as exactly one command: the canonical
    encoding of a non-empty argument list (canonical decimal counts and lengths,
    no sign, no leading zero). -/
def WellFormedRequest (b : Bytes) : Prop := ∃ args : List Bytes, args ≠ [] ∧ b = encRequest args

/-- RESP2 reply values, nested to any depth -/
inductive Reply
  | status (line : Bytes)          -- `+line\r\n`
  | error (line : Bytes)           -- `-line\r\n`
  | integer (line : Bytes)         -- `:line\r\n` (digits, optional sign)
  | bulk (b : Bytes)               -- `$len\r\n b \r\n`
  | nullBulk                       -- `$-1\r\n`
  | array (xs : List Reply)        -- `*n\r\n` elements
  | nullArray                      -- `*-1\r\n`

mutual
def encReply : Reply → Bytes
  | .status l => [43] ++ l ++ [13, 10]
  | .error l => [45] ++ l ++ [13, 10]
  | .integer l => [58] ++ l ++ [13, 10]
  | .bulk b => encBulk b
  | .nullBulk => [36, 45, 49, 13, 10]
  | .array xs => [42] ++ itoa xs.length ++ [13, 10] ++ encReplies xs
  | .nullArray => [42, 45, 49, 13, 10]
def encReplies : List Reply → Bytes
  | [] => []
  | x :: xs => encReply x ++ encReplies xs
end

end RcVerif.Spec
