import RcVerif.Model.Basic
/-
  Specification of the Redis Cluster key slot, written independently of the
  implementation: bit-by-bit CRC16/XMODEM (polynomial 0x1021, initial value 0,
  most significant bit first, no reflection, no final xor) and the hash-tag rule
  of the cluster specification.
-/
namespace RcVerif.Spec

/-- one bit of the shift register -/
def crcShift1 (c : BitVec 16) : BitVec 16 :=
  if c.msb then (c <<< 1) ^^^ 0x1021#16 else c <<< 1

def crcShift8 (c : BitVec 16) : BitVec 16 :=
  crcShift1 (crcShift1 (crcShift1 (crcShift1 (crcShift1 (crcShift1 (crcShift1 (crcShift1 c)))))))

/-- feed one byte: xor it into the top byte, then shift eight times -/
def crcByte (c : BitVec 16) (b : UInt8) : BitVec 16 :=
  crcShift8 (c ^^^ (BitVec.ofNat 16 b.toNat <<< 8))

def crc16 (key : Bytes) : BitVec 16 := key.foldl crcByte 0#16

/-- the part of the key that is hashed: between the first '{' and the first '}'
    after it if that is non-empty, otherwise the whole key -/
def hashTag (key : Bytes) : Bytes :=
  match indexOf 123 key with
  | none => key
  | some s =>
    match indexOf 125 (key.drop (s + 1)) with
    | none => key
    | some 0 => key
    | some (e + 1) => (key.drop (s + 1)).take (e + 1)

def keySlot (key : Bytes) : Nat := (crc16 (hashTag key)).toNat % 16384

end RcVerif.Spec
