import RcVerif.Model.Basic
/-
  Model of core/authip/authip.go (after the fix): the whitelist state, `parseAuthIp` on an already
  parsed file (`none` = the file could not be read or is not valid YAML), `ipMap.Validate`, the
  watcher's event filter, and the admission check of `OnCOpened` (core/server/server_c.go).
-/
namespace RcVerif.AuthIp

structure WL where
  enable : Bool := false
  ips : List Bytes := []          -- the keys of the hash map
  deriving Repr, DecidableEq

/-- what the YAML file says -/
structure File where
  enable : Bool
  list : List Bytes
  deriving Repr, DecidableEq

/-- `parseAuthIp`: entries that are no longer listed are dropped, listed ones are inserted
    (`GetOrInsert`: an existing key is kept), then `enable` is taken over -/
def reload (w : WL) : Option File → WL
  | none => w                                    -- read / unmarshal error: previous state stays
  | some f =>
    let kept := w.ips.filter (fun ip => f.list.contains ip)
    let ips := f.list.foldl (fun acc ip => if acc.contains ip then acc else acc ++ [ip]) kept
    { enable := f.enable, ips := ips }

/-- `ipMap.Validate` -/
def validate (w : WL) (ip : Bytes) : Bool := !w.enable || w.ips.contains ip

/-- file-system events the watcher reacts to -/
inductive Op | write | create | rename | remove | chmod
  deriving Repr, DecidableEq

/-- the watcher reloads on WRITE, CREATE (rewrite by rename onto the watched name) and RENAME of the watched file -/
def triggers (watched name : Bytes) (op : Op) : Bool :=
  decide (name = watched) && (op == .write || op == .create || op == .rename)

/-- `OnCOpened`: the address before the first ':' of the remote address is checked -/
def remoteIp (remote : Bytes) : Bytes := remote.takeWhile (· ≠ 58)

def admits (w : WL) (remote : Bytes) : Bool := validate w (remoteIp remote)

end RcVerif.AuthIp
