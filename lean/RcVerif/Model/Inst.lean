import RcVerif.Gen.Tables
import RcVerif.Model.Hash
import RcVerif.Model.Commands
/-
  Instantiation of the parametric model with the tables and constants
  regenerated from the Go source on every run.
-/
namespace RcVerif

def goTables : Tables where
  crcTab := Gen.crc16tab
  slots := Gen.redisClusterSlots
  str2type := Gen.str2type
  type2nargs := Gen.type2nargs
  nargsInf := Gen.nargsInf
  nargsEvenInf := Gen.nargsEvenInf
  nargsFixed := [Gen.nargsz, Gen.nargs0, Gen.nargs1, Gen.nargs2, Gen.nargs3]
  cUnknown := Gen.cmdUNKNOWN
  cMget := Gen.cmdReqMget
  cDel := Gen.cmdReqDel
  cMset := Gen.cmdReqMset
  cEval := Gen.cmdReqEval
  cEvalsha := Gen.cmdReqEvalsha
  cPing := Gen.cmdReqPing
  cQuit := Gen.cmdReqQuit
  cAuth := Gen.cmdReqAuth
  cTooLarge := Gen.cmdReqTooLarge
  cWrongArgs := Gen.cmdReqWrongArgumentsNumber
  cWriteStart := Gen.cmdReqWriteCmdStart
  cHscan := Gen.cmdReqHscan
  cSscan := Gen.cmdReqSscan
  cZscan := Gen.cmdReqZscan
  cSentinel := Gen.cmdSentinel
  rStatus := Gen.cmdRspStatus
  rOk := Gen.cmdRspOk
  rPong := Gen.cmdRspPong
  rError := Gen.cmdRspError
  rNeedAuth := Gen.cmdRspNeedAuth
  rNeedNtAuth := Gen.cmdRspNeedNtAuth
  rAuthFailed := Gen.cmdRspAuthFailed
  rInteger := Gen.cmdRspInteger
  rBulk := Gen.cmdRspBulk
  rMultibulk := Gen.cmdRspMultibulk
  rAsk := Gen.cmdRspAsk
  rMoved := Gen.cmdRspMoved

/-- the proxy's key → slot function -/
def goSlot (key : Bytes) : Nat := Hash.hashKey goTables.crcTab goTables.slots key

end RcVerif
