import RcVerif.Model.Resp
import RcVerif.Model.SDecode
/-
  Model of core/cluster.go (after the fixes): `loopClusterNodes` (one iteration
  per probe reply), `updateClusterNodes`, `parse`, `newClusterNode`, `parseAddr`,
  `parseSlot`, `isChanged`, `setServer`, `setReplicaset`; and of the topology part
  of `eventloop.ticker` (pool add/remove, slot table rebuild).
  `redisInfo` (the INFO probe of a newly seen node) is a parameter.
-/
namespace RcVerif.Cluster
open RcVerif.Resp RcVerif.SDecode

/-- `strings.Contains` -/
def isInfix (p : Bytes) : Bytes → Bool
  | [] => p.isEmpty
  | x :: xs => isPrefix p (x :: xs) || isInfix p xs

structure Node where
  name : Bytes
  addr : Bytes
  isSlave : Bool
  masterId : Bytes
  slots : List (Nat × Nat)
  deriving Repr, DecidableEq

/-- what `redisInfo` tells about a node -/
structure Info where
  loading : Bool
  linkUp : Bool
  deriving Repr, DecidableEq

structure RState where
  servers : List Node := []                 -- `ServerMap` (keyed by address), in insertion order
  sets : List (Node × List Node) := []      -- `Replicasets`
  lastNames : List Bytes := []              -- `lastServerNames` (sorted signature)
  changed : Bool := false                   -- `serverChanged`
  alive : Bool := true                      -- the refresh goroutine is still running
  deriving Repr

def allDigits (b : Bytes) : Bool := !b.isEmpty && b.all isDigit

/-- `strconv.Atoi` / `ParseInt(_, 10, _)` succeed: optional sign, digits; at most 18 digits modelled -/
def parseIntOk (b : Bytes) : Option Int :=
  let (neg, ds) := match b with
    | 45 :: r => (true, r)
    | 43 :: r => (false, r)
    | r => (false, r)
  if allDigits ds ∧ ds.length ≤ 18 then
    match parseDigits 0 ds with
    | some n => some (if neg then -(Int.ofNat n) else Int.ofNat n)
    | none => none
  else none

/-- `parseAddr`: "ip:port@cport" ↦ "ip:port" ("" when invalid) -/
def parseAddr (s : Bytes) : Bytes :=
  match splitOn 58 s with                      -- ':'
  | ip :: portC :: _ =>
    if ip.isEmpty then []
    else
      let port := (splitOn 64 portC).headD []  -- '@'
      if port.isEmpty then []
      else match parseIntOk port with
        | some _ => ip ++ [58] ++ port
        | none => []
  | _ => []

/-- `parseSlot`: "a" or "a-b" with 0 ≤ a ≤ b < slots -/
def parseSlot (nslots : Nat) (s : Bytes) : Option (Nat × Nat) :=
  match splitOn 45 s with                      -- '-'
  | [] => none
  | a :: rest =>
    match parseIntOk a with
    | none => none
    | some start =>
      if start < 0 ∨ start ≥ nslots ∨ start ≥ 2147483648 then none
      else match rest with
        | [] => some (start.toNat, start.toNat)
        | b :: _ =>
          match parseIntOk b with
          | none => none
          | some e => if start > e ∨ e ≥ nslots then none else some (start.toNat, e.toNat)

def parseSlots (nslots : Nat) : List Bytes → Option (List (Nat × Nat))
  | [] => some []
  | x :: xs =>
    if x.head? = some 91 then parseSlots nslots xs        -- "[": migration marker, skipped
    else match parseSlot nslots x, parseSlots nslots xs with
      | some r, some rs => some (r :: rs)
      | _, _ => none

def bMaster : Bytes := [109, 97, 115, 116, 101, 114]
def bSlave : Bytes := [115, 108, 97, 118, 101]
def bNoaddr : Bytes := [110, 111, 97, 100, 100, 114]
def bHandshake : Bytes := [104, 97, 110, 100, 115, 104, 97, 107, 101]
def bFail : Bytes := [102, 97, 105, 108]
def bDisconnected : Bytes := [100, 105, 115, 99, 111, 110, 110, 101, 99, 116, 101, 100]

/-- the INFO gate for a node that was not known before: `redisInfo` must answer, and a replica must
    be neither loading nor cut off from its master -/
def admitNode (known : Bytes → Bool) (info : Bytes → Option Info) (n : Node) : Option Node :=
  if known n.addr then some n
  else match info n.addr with
    | none => none
    | some i =>
      if n.isSlave ∧ i.loading then none
      else if n.isSlave ∧ !i.linkUp then none
      else some n

/-- the flag / link / address filter of `parse` on the columns of one line -/
def lineUsable (xs : List Bytes) : Bool :=
  decide (8 ≤ xs.length) &&
  !(isInfix bNoaddr (xs.getD 2 [])) && !(isInfix bHandshake (xs.getD 2 [])) &&
  !(isInfix bFail (xs.getD 2 [])) &&
  (isInfix bMaster (xs.getD 2 []) || isInfix bSlave (xs.getD 2 [])) &&
  !(isInfix bDisconnected (xs.getD 7 [])) &&
  !(parseAddr (xs.getD 1 [])).isEmpty

/-- `newClusterNode` on a usable line -/
def nodeOfLine (nslots : Nat) (xs : List Bytes) : Option Node :=
  let isSlave := !(isInfix bMaster (xs.getD 2 []))
  let base : Node := { name := xs.getD 0 [], addr := parseAddr (xs.getD 1 []), isSlave := isSlave,
                       masterId := xs.getD 3 [], slots := [] }
  if isSlave then some base
  else if xs.length < 9 then none
  else match parseSlots nslots (xs.drop 8) with
    | none => none
    | some slots => some { base with slots := slots }

/-- one line of the nodes text: the node it describes, if the line is usable -/
def parseLineNode (nslots : Nat) (known : Bytes → Bool) (info : Bytes → Option Info) (line : Bytes) : Option Node :=
  let xs := splitOn 32 line
  if lineUsable xs then
    match nodeOfLine nslots xs with
    | none => none
    | some n => admitNode known info n
  else none

/-- `parse`: the usable nodes of the text, in order (none when fewer than three) -/
def parseText (nslots : Nat) (known : Bytes → Bool) (info : Bytes → Option Info) (text : Bytes) : Option (List Node) :=
  let ns := (splitOn 10 text).filterMap (parseLineNode nslots known info)
  if ns.length < 3 then none else some ns

def showSlots (l : List (Nat × Nat)) : Bytes :=
  [91] ++ (l.map (fun r => [123] ++ itoa r.1 ++ [32] ++ itoa r.2 ++ [125])).foldl (fun acc x => if acc.isEmpty then x else acc ++ [32] ++ x) [] ++ [93]

/-- the entry of a node in the change signature -/
def sigOf (n : Node) : Bytes :=
  if n.isSlave then n.addr ++ [35, 49, 35] ++ n.masterId          -- addr#1#masterId
  else n.addr ++ [35, 48, 35] ++ showSlots n.slots                -- addr#0#[{a b} ...]

def bytesLe : Bytes → Bytes → Bool
  | [], _ => true
  | _ :: _, [] => false
  | x :: xs, y :: ys => x < y || (x == y && bytesLe xs ys)

def insertSorted (x : Bytes) : List Bytes → List Bytes
  | [] => [x]
  | y :: ys => if bytesLe x y then x :: y :: ys else y :: insertSorted x ys

def sortBytes (l : List Bytes) : List Bytes := l.foldr insertSorted []

/-- `setServer`: `hashmap.Insert` by address - the first node with a given address wins -/
def setServers (ns : List Node) : List Node :=
  ns.foldl (fun acc n => if acc.any (·.addr = n.addr) then acc else acc ++ [n]) []

/-- `setReplicaset` -/
def setReplicasets (ns : List Node) : List (Node × List Node) :=
  let masters := ns.filter (fun n => !n.isSlave)
  let attach (sets : List (Node × List Node)) (sl : Node) : List (Node × List Node) :=
    match sets.findIdx? (fun p => p.1.name = sl.masterId) with
    | some i => sets.mapIdx (fun j p => if j = i then (p.1, p.2 ++ [sl]) else p)
    | none => sets
  (ns.filter (·.isSlave)).foldl attach (masters.map (fun m => (m, [])))

/-- the gate of `loopClusterNodes`: the nodes text of a usable probe reply (a bulk string of at most
    163840 bytes), or none -/
def probeText (msg : Bytes) : Option Bytes :=
  if msg.length < 3 then none
  else if msg.take 3 = [43, 79, 75] then none                 -- "+OK"
  else if msg.take 3 = [36, 45, 49] then none                 -- "$-1"
  else match indexOf 10 msg with
    | none => none
    | some lf =>
      if msg.head? ≠ some 36 ∨ lf < 2 ∨ msg.length - 3 < lf + 1 then none
      else match parseLen ((msg.take (lf - 1)).drop 1) with
        | .error _ => none
        | .ok length =>
          if length > 163840 then none
          else some ((msg.take (msg.length - 3)).drop (lf + 1))

/-- `updateClusterNodes`: parse, compare with the last published signature, publish -/
def adopt (nslots : Nat) (info : Bytes → Option Info) (st : RState) (text : Bytes) : RState :=
  match parseText nslots (fun a => st.servers.any (·.addr = a)) info text with
  | none => st
  | some ns =>
    let names := sortBytes (ns.map sigOf)
    if ns.length ≠ st.servers.length ∨ names ≠ st.lastNames then
      { st with servers := setServers ns, sets := setReplicasets ns, lastNames := names, changed := true }
    else { st with lastNames := names }

/-- one iteration of `loopClusterNodes` on a probe reply -/
def onProbeReply (nslots : Nat) (info : Bytes → Option Info) (st : RState) (msg : Bytes) : RState :=
  if !st.alive then st else
  match probeText msg with
  | none => st
  | some text => adopt nslots info st text

/-- slot table after `eventloop.ticker` rebuilt it from the published replica sets:
    a later set overwrites an earlier one on overlapping ranges -/
def slotTable (sets : List (Node × List Node)) (slot : Nat) : Option (Node × List Node) :=
  (sets.reverse.find? (fun p => p.1.slots.any (fun r => r.1 ≤ slot ∧ slot ≤ r.2)))

/-- pools after the ticker: one per published server, replica flag from its role -/
def poolsAfterTick (st : RState) : List (Bytes × Bool) := st.servers.map (fun n => (n.addr, n.isSlave))

end RcVerif.Cluster
