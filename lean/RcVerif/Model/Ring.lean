import RcVerif.Model.Basic
import RcVerif.Gen.Tables
/-
  Model of core/pkg/buffer/ring/ring_buffer.go (`ring.Buffer`): a circular byte buffer with an explicit
  empty flag that grows on demand. The backing array is a `List UInt8` of length `size`; positions the Go code
  never reads (free space, recycled memory after `grow`) are modelled as zeros.
  Not modelled: ReadFrom / WriteTo (io.Reader / io.Writer plumbing), WriteString (= Write), int overflow in `grow`.
-/
namespace RcVerif.Ring
open RcVerif

structure Ring where
  buf : Bytes := []
  size : Nat := 0
  r : Nat := 0
  w : Nat := 0
  isEmpty : Bool := true
  deriving Repr, DecidableEq

/-- `toolkit.CeilToPowerOfTwo` (for sizes far below the int range) -/
def ceilPow2 (n : Nat) : Nat := if n ≤ 2 then 2 else 2 ^ (Nat.log2 (n - 1) + 1)

/-- `ring.New` -/
def new (size : Nat) : Ring :=
  if size = 0 then {} else { buf := List.replicate (ceilPow2 size) 0, size := ceilPow2 size }

def reset (rb : Ring) : Ring := { rb with isEmpty := true, r := 0, w := 0 }

def buffered (rb : Ring) : Nat :=
  if rb.r = rb.w then (if rb.isEmpty then 0 else rb.size)
  else if rb.w > rb.r then rb.w - rb.r else rb.size - rb.r + rb.w

def available (rb : Ring) : Nat :=
  if rb.r = rb.w then (if rb.isEmpty then rb.size else 0)
  else if rb.w < rb.r then rb.r - rb.w else rb.size - rb.w + rb.r

def slice (b : Bytes) (lo hi : Nat) : Bytes := (b.drop lo).take (hi - lo)

def peekAll (rb : Ring) : Bytes × Bytes :=
  if rb.isEmpty then ([], [])
  else if rb.w > rb.r then (slice rb.buf rb.r rb.w, [])
  else (rb.buf.drop rb.r, if rb.w ≠ 0 then rb.buf.take rb.w else [])

/-- `Peek(n)` (head, tail); `n ≤ 0` means everything -/
def peek (rb : Ring) (n : Int) : Bytes × Bytes :=
  if rb.isEmpty then ([], [])
  else if n ≤ 0 then peekAll rb
  else
    let n := n.toNat
    if rb.w > rb.r then
      let m := min (rb.w - rb.r) n
      (slice rb.buf rb.r (rb.r + m), [])
    else
      let m := min (rb.size - rb.r + rb.w) n
      if rb.r + m ≤ rb.size then (slice rb.buf rb.r (rb.r + m), [])
      else (rb.buf.drop rb.r, rb.buf.take (m - (rb.size - rb.r)))

/-- `Discard(n)`: the new buffer and the number discarded -/
def discard (rb : Ring) (n : Int) : Ring × Nat :=
  if n ≤ 0 then (rb, 0)
  else
    let d := buffered rb
    if n.toNat < d then ({ rb with r := (rb.r + n.toNat) % rb.size }, n.toNat)
    else (reset rb, d)

/-- `Read(p)` with `len(p) = k`: the new buffer, the bytes copied into `p`, and whether ErrIsEmpty was returned -/
def read (rb : Ring) (k : Nat) : Ring × Bytes × Bool :=
  if k = 0 then (rb, [], false)
  else if rb.isEmpty then (rb, [], true)
  else if rb.w > rb.r then
    let n := min (rb.w - rb.r) k
    let out := slice rb.buf rb.r (rb.r + n)
    let rb1 := { rb with r := rb.r + n }
    (if rb1.r = rb1.w then reset rb1 else rb1, out, false)
  else
    let n := min (rb.size - rb.r + rb.w) k
    let out := if rb.r + n ≤ rb.size then slice rb.buf rb.r (rb.r + n)
               else rb.buf.drop rb.r ++ rb.buf.take (n - (rb.size - rb.r))
    let rb1 := { rb with r := (rb.r + n) % rb.size }
    (if rb1.r = rb1.w then reset rb1 else rb1, out, false)

/-- `ReadByte` -/
def readByte (rb : Ring) : Ring × Option UInt8 :=
  if rb.isEmpty then (rb, none)
  else
    let b := rb.buf[rb.r]?
    let r1 := if rb.r + 1 = rb.size then 0 else rb.r + 1
    let rb1 := { rb with r := r1 }
    (if rb1.r = rb1.w then reset rb1 else rb1, b)

/-- the loop `for 0 < n && n < newCap { n += n / 4 }` -/
def growLoop : Nat → Nat → Nat → Nat
  | 0, n, _ => n
  | fuel + 1, n, cap => if 0 < n ∧ n < cap then growLoop fuel (n + n / 4) cap else n

/-- the capacity `grow(newCap)` settles on -/
def growCap (size newCap : Nat) : Nat :=
  if size = 0 then
    if newCap ≤ Gen.ringDefaultBufferSize then Gen.ringDefaultBufferSize else ceilPow2 newCap
  else
    let doubleCap := size + size
    if newCap ≤ doubleCap then
      if size < Gen.ringBufferGrowThreshold then doubleCap
      else
        let n := growLoop newCap size newCap
        if n > 0 then n else newCap
    else newCap

/-- everything readable, oldest first (also `Bytes()`) -/
def content (rb : Ring) : Bytes :=
  if rb.isEmpty then []
  else if rb.r < rb.w then slice rb.buf rb.r rb.w
  else rb.buf.drop rb.r ++ rb.buf.take rb.w

/-- `grow`: a new backing array, the content moved to its front -/
def grow (rb : Ring) (newCap : Nat) : Ring :=
  let cap := growCap rb.size newCap
  let old := content rb
  { buf := old ++ List.replicate (cap - old.length) 0, size := cap, r := 0, w := old.length,
    isEmpty := old.isEmpty }

/-- copy `p` into `b` at position `at` (`copy(b[at:], p)` with enough room) -/
def blit (b : Bytes) (pos : Nat) (p : Bytes) : Bytes := b.take pos ++ p ++ b.drop (pos + p.length)

/-- the copy part of `Write(p)` once there is room: up to the end of the array, the rest at its start -/
def writeCore (rb : Ring) (p : Bytes) : Ring :=
  let n := p.length
  let rb1 : Ring :=
    if rb.w ≥ rb.r then
      let c1 := rb.size - rb.w
      if c1 ≥ n then { rb with buf := blit rb.buf rb.w p, w := rb.w + n }
      else { rb with buf := blit (blit rb.buf rb.w (p.take c1)) 0 (p.drop c1), w := n - c1 }
    else { rb with buf := blit rb.buf rb.w p, w := rb.w + n }
  { rb1 with w := if rb1.w = rb1.size then 0 else rb1.w, isEmpty := false }

/-- `Write(p)` -/
def write (rb : Ring) (p : Bytes) : Ring :=
  let n := p.length
  if n = 0 then rb
  else
    let free := available rb
    writeCore (if n > free then grow rb (rb.size + n - free) else rb) p

/-- `WriteByte(c)` -/
def writeByte (rb : Ring) (c : UInt8) : Ring :=
  let rb := if available rb < 1 then grow rb (rb.size + 1) else rb
  let rb1 := { rb with buf := blit rb.buf rb.w [c], w := rb.w + 1 }
  { rb1 with w := if rb1.w = rb1.size then 0 else rb1.w, isEmpty := false }

def isFull (rb : Ring) : Bool := rb.r = rb.w ∧ !rb.isEmpty

end RcVerif.Ring
