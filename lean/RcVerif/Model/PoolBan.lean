import RcVerif.Model.Basic
/-
  Model of `core/redis_pool.go` (`Pool.Get`, `Release`, `Close`, `SetIsSlave`, the active list) together with
  the part of `core/server/server_c.go` that uses it: `getConn` with its ban bookkeeping
  (`LiftBanOrder`, `LiftBanTime`, `AutoBanFlag`) and the retry of `OnCReact` after a failed replica dial.

  Unlike the event-loop model (`Model/Sim.lean`, where a dial always succeeds) a dial may FAIL here: whether
  dialling a node succeeds right now is part of the state (`dialOk`, set by the environment op `setDial`).
  Time: `LiftBanTime` is kept as the length of the ban in units of the configured retry timeout
  (`ServerRetryTimeout`); the ban set by `getConn` never runs out within a history of this model (the view
  configures a retry timeout of ten minutes), so `route` picks a replica up again and clears its flag.

  Topology of the model: one slot range, pool 0 = its master, pool 1 (if present) = its only replica, so that
  the random pick of `route` has one outcome.
-/
namespace RcVerif.PoolBan

/-- a redis connection as the pool sees it -/
structure Conn where
  pool : Nat          -- the pool that dialled it
  opened : Bool       -- `IsOpened()`
  slave : Bool        -- the role it was dialled with (`Pool.isSlave` at dial time: decides the READONLY handshake)
  gone : Bool := false  -- the peer went away and the proxy has not been told (no EOF event yet): the next write fails
  deriving Repr, DecidableEq

structure Pool where
  maxActive : Nat
  active : List Nat := []     -- connection ids, front first (`activeList`)
  closed : Bool := false
  isSlave : Bool := false
  dialOk : Bool := true       -- environment: does dialling this node succeed at the moment
  order : Nat := 0            -- `LiftBanOrder`
  flag : Bool := false        -- `AutoBanFlag`
  banUnits : Nat := 0         -- the last ban length set by `getConn`, in retry-timeout units (0 = never set)
  banPassed : Bool := false   -- `LiftBanTime.Before(now)`: the ban has run out (environment op `expire`)
  deriving Repr

structure St where
  pools : List Pool
  conns : List Conn := []
  deriving Repr

def isOpen (conns : List Conn) (c : Nat) : Bool :=
  match conns[c]? with
  | some x => x.opened
  | none => false

def setPool (s : St) (p : Nat) (pl : Pool) : St := { s with pools := s.pools.set p pl }

/-- the rotation loop of `Pool.Get` on the list read from the BACK: closed connections are popped and
    dropped, the first open one is returned together with what is left behind it -/
def rotateRev (conns : List Conn) : List Nat → Option (Nat × List Nat)
  | [] => none
  | id :: rest => if isOpen conns id then some (id, rest) else rotateRev conns rest

/-- `Pool.dial` + `pushFront`; a failed dial leaves the pool as handed in -/
def dial (s : St) (p : Nat) (pl : Pool) : St × Option Nat :=
  if pl.dialOk then
    let id := s.conns.length
    ({ pools := s.pools.set p { pl with active := id :: pl.active },
       conns := s.conns ++ [{ pool := p, opened := true, slave := pl.isSlave }] }, some id)
  else (setPool s p pl, none)

/-- `Pool.Get` -/
def get (s : St) (p : Nat) : St × Option Nat :=
  match s.pools[p]? with
  | none => (s, none)
  | some pl =>
    if pl.closed then (s, none)
    else if pl.active.length < pl.maxActive then dial s p pl
    else match rotateRev s.conns pl.active.reverse with
      | some (id, restRev) => (setPool s p { pl with active := id :: restRev.reverse }, some id)
      | none => dial s p { pl with active := [] }     -- every pooled connection was closed and popped

def closeConns (conns : List Conn) (ids : List Nat) : List Conn :=
  ids.foldl (fun cs id => cs.modify id (fun x => { x with opened := false })) conns

/-- `Pool.Release`: every pooled connection is closed, the list emptied; nothing on a closed pool -/
def release (s : St) (p : Nat) : St :=
  match s.pools[p]? with
  | none => s
  | some pl =>
    if pl.closed then s
    else { pools := s.pools.set p { pl with active := [] }, conns := closeConns s.conns pl.active }

/-- `Pool.Close` -/
def close (s : St) (p : Nat) : St :=
  match s.pools[p]? with
  | none => s
  | some pl =>
    if pl.closed then s
    else
      let s1 := release s p
      match s1.pools[p]? with
      | none => s1
      | some pl1 => setPool s1 p { pl1 with closed := true }

/-- `Pool.SetIsSlave` -/
def setIsSlave (s : St) (p : Nat) (b : Bool) : St :=
  match s.pools[p]? with
  | none => s
  | some pl =>
    if pl.isSlave = b then s
    else release (setPool s p { pl with isSlave := b }) p

/-- the peer of connection `c` went away (`closeConn`): the pool is not told, `Get` finds out -/
def lose (s : St) (c : Nat) : St := { s with conns := s.conns.modify c (fun x => { x with opened := false }) }

/-- time passes: the ban of pool `p` runs out -/
def expire (s : St) (p : Nat) : St :=
  match s.pools[p]? with
  | none => s
  | some pl => { s with pools := s.pools.set p { pl with banPassed := true } }

def setDial (s : St) (p : Nat) (ok : Bool) : St :=
  match s.pools[p]? with
  | none => s
  | some pl => setPool s p { pl with dialOk := ok }

/-- the bookkeeping of `getConn` after `pool.Get()` returned nil -/
def banFail (pl : Pool) : Pool :=
  { pl with banUnits := 2 ^ pl.order, order := if pl.order ≥ 5 then 5 else pl.order + 1, flag := true,
            banPassed := false }

def updPool (s : St) (p : Nat) (f : Pool → Pool) : St :=
  match s.pools[p]? with
  | none => s
  | some pl => setPool s p (f pl)

/-- which pool `route` names: the replica for a read when there is one - unless it is flagged and its ban HAS run
    out: then `route` skips it (until the health monitor clears the flag) and the read goes to the master; a
    flagged replica whose ban has not run out is picked up again and its flag cleared. (This is the code; its log
    messages say the opposite, see DESIGN §9.) -/
def routePool (s : St) (isRead : Bool) : Nat :=
  match s.pools[1]? with
  | some rp => if isRead && !(rp.flag && rp.banPassed) then 1 else 0
  | none => 0

/-- `getConn`: route, `pool.Get()`, ban bookkeeping. Returns (state, connection, retry) -/
def getConn (s : St) (isRead : Bool) : St × Option Nat × Bool :=
  let p := routePool s isRead
  let s0 := if p = 1 then updPool s 1 (fun pl => { pl with flag := false }) else s
  match get s0 p with
  | (s1, none) => (updPool s1 p banFail, none, p = 1)
  | (s1, some c) => (updPool s1 p (fun pl => { pl with order := 0 }), some c, false)

inductive Out
  | fwd (c : Nat)        -- the request was queued on connection `c`
  | err                  -- the client got `-ERR unknown proxy pool conn`
  deriving Repr, DecidableEq

/-- one single-key client request through `OnCReact`: `getConn`, once more if it says so -/
def request (s : St) (isRead : Bool) : St × Out :=
  match getConn s isRead with
  | (s1, some c, _) => (s1, .fwd c)
  | (s1, none, true) =>
    (match getConn s1 isRead with
     | (s2, some c, _) => (s2, .fwd c)
     | (s2, none, _) => (s2, .err))
  | (s1, none, false) => (s1, .err)

/-- the peer of connection `c` goes away silently: the proxy still believes the connection open -/
def vanish (s : St) (c : Nat) : St := { s with conns := s.conns.modify c (fun x => { x with gone := true }) }

/-- the write signal of a request queued on `c` (`handleWriteSignal` -> `writev`): on a connection whose peer is
    gone the write fails, `closeConn` fails everything queued on it and the connection is closed. `true` = written -/
def deliver (s : St) (c : Nat) : St × Bool :=
  match s.conns[c]? with
  | some x =>
    if x.gone then ({ s with conns := s.conns.modify c (fun y => { y with opened := false }) }, false) else (s, true)
  | none => (s, true)

inductive Served
  | fwd (c : Nat)        -- written to connection `c`
  | lost (c : Nat)       -- queued on `c`, the write failed: the client got `-ERR redis connection closed`, `c` is closed
  | err                  -- the client got `-ERR unknown proxy pool conn`
  deriving Repr, DecidableEq

/-- a client request up to and including the write signal -/
def serve (s : St) (isRead : Bool) : St × Served :=
  match request s isRead with
  | (s1, .fwd c) =>
    (match deliver s1 c with
     | (s2, true) => (s2, .fwd c)
     | (s2, false) => (s2, .lost c))
  | (s1, .err) => (s1, .err)

inductive Op
  | get (p : Nat)
  | lose (c : Nat)
  | vanish (c : Nat)
  | setDial (p : Nat) (ok : Bool)
  | expire (p : Nat)
  | release (p : Nat)
  | close (p : Nat)
  | setSlave (p : Nat) (b : Bool)
  | req (isRead : Bool)
  deriving Repr, DecidableEq

def step (s : St) : Op → St
  | .get p => (get s p).1
  | .lose c => lose s c
  | .vanish c => vanish s c
  | .setDial p ok => setDial s p ok
  | .expire p => expire s p
  | .release p => release s p
  | .close p => close s p
  | .setSlave p b => setIsSlave s p b
  | .req r => (serve s r).1

def run (s : St) (ops : List Op) : St := ops.foldl step s

def init (maxActive : Nat) (withReplica : Bool) : St :=
  { pools := { maxActive := maxActive, isSlave := false } ::
             (if withReplica then [{ maxActive := maxActive, isSlave := true }] else []) }

end RcVerif.PoolBan
