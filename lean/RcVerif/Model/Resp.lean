import RcVerif.Model.Basic
/-
  Model of core/codec/buff.go (`Buffer.ReadLine/ReadN`) and core/codec.go
  (`parseLen`). A `codec.Buffer` is modelled by the bytes that are still
  unread; the number of bytes read is `total - rest.length`.
-/
namespace RcVerif.Resp

/-- the error values of package `codec` that the decoders distinguish -/
inductive RErr
  | emptyLine        -- `EmptyLine`, nothing left to read (no bytes consumed)
  | emptyLineAdv     -- `EmptyLine` from `ReadLine` on a complete line shorter than 2 (bytes consumed)
  | lfNotFound       -- `ErrLFNotFound`
  | shortLine        -- `ShortLine`
  | invalid          -- `ErrInvalidResp`
  | malformedLen     -- `errors.New("malformed length")`
  | fuel             -- model artefact: recursion budget exhausted (proved unreachable)
  deriving DecidableEq, Repr

/-- `Buffer.ReadN(n)` -/
def readN (n : Nat) (rest : Bytes) : Except RErr (Bytes × Bytes) :=
  if rest.length < 1 then .error .emptyLine
  else if n > rest.length then .error .shortLine
  else .ok (rest.take n, rest.drop n)

/-- `Buffer.ReadLine()`: returns the line without its CRLF and the new rest -/
def readLine (rest : Bytes) : Except RErr (Bytes × Bytes) :=
  if rest.length < 1 then .error .emptyLine
  else match indexOf 10 rest with
    | none => .error .lfNotFound
    | some idx =>
      if idx < 2 then .error .emptyLineAdv
      else if rest.getD (idx - 1) 0 ≠ 13 then .error .invalid
      else .ok (rest.take (idx - 1), rest.drop (idx + 1))

def isDigit (b : UInt8) : Bool := 48 ≤ b && b ≤ 57

/-- the digit loop of `parseLen` (no overflow: callers guarantee at most 18 digits) -/
def parseDigits : Nat → Bytes → Option Nat
  | acc, [] => some acc
  | acc, b :: bs => if isDigit b then parseDigits (acc * 10 + (b.toNat - 48)) bs else none

/-- `parseLen(p)` after the fix: `-1` only as the literal "-1"; canonical decimals of at most 18 digits -/
def parseLen (p : Bytes) : Except RErr Int :=
  match p with
  | [] => .error .malformedLen
  | [45, 49] => .ok (-1)
  | b :: bs =>
    if (b = 48 ∧ bs ≠ []) ∨ (b :: bs).length > 18 then .error .invalid
    else match parseDigits 0 (b :: bs) with
      | none => .error .invalid
      | some n => .ok (Int.ofNat n)

end RcVerif.Resp
