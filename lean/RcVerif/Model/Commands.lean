import RcVerif.Model.Basic
/-
  Model of core/codec/commands.go: `Transform2Type`, `checkArgs`, `toLower`,
  over tables that are parameters (instantiated from the regenerated Go tables).
-/
namespace RcVerif

/-- every table and constant of the Go code that the model depends on -/
structure Tables where
  crcTab : List Nat
  slots : Nat
  str2type : List (Bytes × Nat)
  type2nargs : List (Nat × Int)
  nargsInf : Int
  nargsEvenInf : Int
  nargsFixed : List Int        -- Nargsz, Nargs0 .. Nargs3: the fixed arity classes
  cUnknown : Nat
  cMget : Nat
  cDel : Nat
  cMset : Nat
  cEval : Nat
  cEvalsha : Nat
  cPing : Nat
  cQuit : Nat
  cAuth : Nat
  cTooLarge : Nat
  cWrongArgs : Nat
  cWriteStart : Nat
  cHscan : Nat
  cSscan : Nat
  cZscan : Nat
  cSentinel : Nat
  rStatus : Nat
  rOk : Nat
  rPong : Nat
  rError : Nat
  rNeedAuth : Nat
  rNeedNtAuth : Nat
  rAuthFailed : Nat
  rInteger : Nat
  rBulk : Nat
  rMultibulk : Nat
  rAsk : Nat
  rMoved : Nat

namespace Commands

def lowerByte (b : UInt8) : UInt8 := if 65 ≤ b ∧ b ≤ 90 then b ^^^ 0x20 else b

/-- `toLower` -/
def toLower (bs : Bytes) : Bytes := bs.map lowerByte

def lookup {α β} [DecidableEq α] (k : α) : List (α × β) → Option β
  | [] => none
  | (k', v) :: rest => if k = k' then some v else lookup k rest

/-- `checkArgs(command, n)` -/
def checkArgs (T : Tables) (cmd : Nat) (n : Nat) : Nat :=
  match lookup cmd T.type2nargs with
  | none => T.cWrongArgs
  | some nargs =>
    if nargs ∈ T.nargsFixed then
      (if nargs ≠ Int.ofNat n then T.cWrongArgs else cmd)
    else if nargs = T.nargsInf then
      (if n < 1 then T.cWrongArgs else cmd)
    else if nargs = T.nargsEvenInf then
      (if n < 2 ∨ n % 2 = 1 then T.cWrongArgs else cmd)
    else T.cWrongArgs

/-- `Transform2Type(command, n)` (the in-place lower-casing is returned separately by the decoder) -/
def transform2Type (T : Tables) (name : Bytes) (n : Nat) : Nat :=
  match lookup (toLower name) T.str2type with
  | some v => checkArgs T v n
  | none => T.cUnknown

end Commands
end RcVerif
