import RcVerif.Model.SDecode
import RcVerif.Model.CDecode
/-
  Model of the reply side of a request: `conn.sread` (core/connection.go) after
  the reply has been framed, and `SRespCodec.MGet / parseMGet / MSet / Del /
  Default` (core/codec_s.go), after the fixes. A request carries its own
  fragments; a fragment is addressed by its slot.
-/
namespace RcVerif.Merge
open RcVerif.Resp RcVerif.SDecode RcVerif.CDecode

structure MFrag where
  slot : Nat
  key : Bytes
  req : Bytes
  done : Bool := false
  ok : Bool := false
  rsp : List Bytes := []          -- elements of an MGET fragment reply, re-encoded
  err : Bytes := []               -- `Frag.Error` ("" = none)
  rtype : Nat := 0
  redirects : Nat := 0
  deriving Repr, DecidableEq

structure MMsg where
  type : Nat
  keys : List Bytes
  groups : List (Nat × List Bytes)
  frags : List MFrag              -- `Msg.Body`, in the order Go's map iteration visited them
  rspBody : Bytes := []
  err : Bytes := []
  fragDone : Nat := 0
  delNum : Int := 0
  done : Bool := false
  deriving Repr, DecidableEq

/-- what `conn.sread` tells the event loop -/
inductive Signal
  | dropped      -- fragment already done: `codec.Continue`
  | redirect     -- `codec.MovedOrAsk`
  | waiting      -- other fragments outstanding: `codec.Continue`
  | ready        -- `(f, nil)`: the event loop tries to flush the owner
  | panic        -- the Go code would panic here
  deriving Repr, DecidableEq

def ofCMsg (m : CMsg) : MMsg :=
  { type := m.type, keys := m.keys, groups := m.groups,
    frags := m.frags.map (fun p => { slot := p.1, key := m.key, req := p.2 }) }

def setFrag (m : MMsg) (slot : Nat) (f : MFrag → MFrag) : MMsg :=
  { m with frags := m.frags.map (fun x => if x.slot = slot then f x else x) }

def getFrag (m : MMsg) (slot : Nat) : Option MFrag := m.frags.find? (·.slot = slot)

def allDone (m : MMsg) : MMsg := { m with frags := m.frags.map (fun x => { x with done := true }) }

/-- the loop of `parseMGet` -/
def parseMGetLoop : Nat → Bytes → List Bytes → Option (List Bytes)
  | 0, _, acc => some acc
  | fuel + 1, rest, acc =>
    match readLine rest with
    | .error .emptyLine => some acc
    | .error .emptyLineAdv => some acc
    | .error _ => none
    | .ok (line, rest1) =>
      let n : Int := match parseLen line.tail with
        | .ok n => n
        | .error _ => -1
      if n < 0 then parseMGetLoop fuel rest1 (acc ++ [line ++ [13, 10]])
      else
        let (v, rest2) := match readN n.toNat rest1 with
          | .ok (v, r) => (v, r)
          | .error _ => ([], rest1)
        let rest3 := match readN 2 rest2 with
          | .ok (_, r) => r
          | .error _ => rest2
        parseMGetLoop fuel rest3 (acc ++ [line ++ [13, 10] ++ v ++ [13, 10]])

/-- `parseMGet`: `none` = the Go code panics (negative slice length), `some none` = nil result -/
def parseMGet (body : Bytes) : Option (Option (List Bytes)) :=
  match readLine body with
  | .error _ => none                                 -- `kLenBytes[1:]` on a nil line
  | .ok (line, rest) =>
    let kLen : Int := match parseLen line.tail with
      | .ok n => n
      | .error _ => -1
    if kLen < 0 then none                            -- `make([]string, kLen)` with kLen < 0
    else some (parseMGetLoop (rest.length + 1) rest [])

def indexOfKey (k : Bytes) : List Bytes → Option Nat
  | [] => none
  | x :: xs => if x = k then some 0 else (indexOfKey k xs).map (· + 1)

/-- the assembly loop of `SRespCodec.MGet`: `none` = index out of range panic -/
def assembleMGet (slot : Bytes → Nat) (m : MMsg) : List Bytes → Bytes → Option Bytes
  | [], acc => some acc
  | k :: ks, acc =>
    let s := slot k
    match Commands.lookup s m.groups with
    | none => assembleMGet slot m ks acc
    | some grp =>
      match indexOfKey k grp with
      | none => assembleMGet slot m ks acc
      | some i =>
        match getFrag m s with
        | none => none                               -- nil `msg.Body[slot]`
        | some f =>
          match f.rsp[i]? with
          | none => none                             -- `Rsp[i]` out of range
          | some e => assembleMGet slot m ks (acc ++ e)

def itoaInt (n : Int) : Bytes := if n < 0 then 45 :: itoa n.natAbs else itoa n.toNat

structure Consts where
  errTooLargeRsp : Bytes
  errUnknownMget : Bytes
  errUnknown : Bytes
  ok : Bytes

/-- the error branch of `conn.sread`: the whole request is completed with `e` -/
def failWith (m : MMsg) (e : Bytes) : MMsg × Signal :=
  (allDone { m with err := e, fragDone := m.frags.length, rspBody := e, done := true }, .ready)

def bump (m : MMsg) : MMsg := { m with fragDone := m.fragDone + 1 }

/-- `SRespCodec.MGet` (the fragment counter has already been incremented) -/
def mergeMGet (K : Consts) (slotFn : Bytes → Nat) (limit : Nat) (m1 : MMsg) (slot rtype : Nat) (body : Bytes) :
    MMsg × Signal :=
  match parseMGet body with
  | none => (m1, .panic)
  | some parsed =>
    let rsp := parsed.getD []
    let m2 := setFrag m1 slot (fun x => { x with rsp := rsp, done := true, rtype := rtype })
    if rsp.length < 1 then failWith (setFrag m2 slot (fun x => { x with err := K.errUnknownMget })) K.errUnknownMget
    else if m2.fragDone < m2.frags.length then (m2, .waiting)
    else
      match assembleMGet slotFn m2 m2.keys ([42] ++ itoa m2.keys.length ++ [13, 10]) with
      | none => (m2, .panic)
      | some rb =>
        if rb.length > limit then ({ m2 with done := true, err := K.errTooLargeRsp, rspBody := K.errTooLargeRsp }, .ready)
        else ({ m2 with done := true, rspBody := rb }, .ready)

/-- `SRespCodec.MSet` -/
def mergeMSet (T : Tables) (K : Consts) (m1 : MMsg) (slot rtype : Nat) : MMsg × Signal :=
  let m2 := setFrag m1 slot (fun x => { x with ok := (rtype = T.rOk), done := true, rtype := rtype })
  if m2.fragDone < m2.frags.length then (m2, .waiting)
  else if m2.frags.all (·.ok) then ({ m2 with done := true, rspBody := K.ok }, .ready)
  else ({ m2 with done := true, rspBody := K.errUnknown }, .ready)

/-- `SRespCodec.Del` -/
def mergeDel (m1 : MMsg) (slot rtype : Nat) (body : Bytes) : MMsg × Signal :=
  let n : Int := match parseLen ((body.drop 1).take (body.length - 3)) with
    | .ok n => n
    | .error _ => -1
  let m2 := setFrag { m1 with delNum := m1.delNum + n } slot (fun x => { x with done := true, rtype := rtype })
  if m2.fragDone < m2.frags.length then (m2, .waiting)
  else ({ m2 with done := true, rspBody := [58] ++ itoaInt m2.delNum ++ [13, 10] }, .ready)

/-- `SRespCodec.Default` -/
def mergeDefault (m1 : MMsg) (slot rtype : Nat) (body : Bytes) : MMsg × Signal :=
  let m2 := setFrag m1 slot (fun x => { x with done := true, rtype := rtype })
  ({ m2 with done := true, rspBody := body }, .ready)

/-- `conn.sread` once `SRespCodec.Decode` has framed a reply of type `rtype` with bytes `body`
    for the fragment of `slot` -/
def onReply (T : Tables) (K : Consts) (slotFn : Bytes → Nat) (limit : Nat)
    (m : MMsg) (slot : Nat) (rtype : Nat) (body : Bytes) : MMsg × Signal :=
  match getFrag m slot with
  | none => (m, .panic)
  | some f =>
    if f.done then (m, .dropped)
    else if rtype = T.rMoved ∨ rtype = T.rAsk then (setFrag m slot (fun x => { x with rtype := rtype }), .redirect)
    else
      let e0 : Bytes := if body.length > limit then K.errTooLargeRsp else f.err
      let isSplit := m.type = T.cMget ∨ m.type = T.cMset ∨ m.type = T.cDel
      let e1 : Bytes := if e0 = [] ∧ rtype = T.rError ∧ isSplit then body else e0
      if e1 ≠ [] then failWith (setFrag (bump m) slot (fun x => { x with err := e1, rtype := rtype })) e1
      else if m.type = T.cMget then mergeMGet K slotFn limit (bump m) slot rtype body
      else if m.type = T.cMset then mergeMSet T K (bump m) slot rtype
      else if m.type = T.cDel then mergeDel (bump m) slot rtype body
      else mergeDefault (bump m) slot rtype body

end RcVerif.Merge
