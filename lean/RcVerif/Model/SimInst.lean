import RcVerif.Model.Sim
import RcVerif.Model.Inst
/-
  The constants of the Sim model, taken from the regenerated Go tables.
-/
namespace RcVerif

def goMergeConsts : Merge.Consts where
  errTooLargeRsp := Gen.strErrMsgRspTooLarge
  errUnknownMget := Gen.strErrUnKnownMget
  errUnknown := Gen.strErrUnKnown
  ok := Gen.strOK

def goStrs : Sim.Strs where
  pong := Gen.strPONG
  ok := Gen.strOK
  errUnknownCommand := Gen.strErrUnKnownCommand
  errTooLargeReq := Gen.strErrMsgReqTooLarge
  errWrongArgs := Gen.strErrMsgReqWrongArgumentsNumber
  errNeedNtPassword := Gen.strErrAuthNeedNtPassword
  errInvalidPassword := Gen.strErrAuthInvalidPassword
  errUnknownSlot := Gen.strErrUnKnownSlot
  errAddrNotFound := Gen.strErrAddrNotFoundError
  errUnknownPool := Gen.strErrUnKnownProxyPoolError
  errUnknownPoolConn := Gen.strErrUnKnownProxyPoolConnError
  errTimeout := Gen.strErrMsgRequestTimeout
  errBackendClosed := Gen.strErrBackendClosed
  errTooManyRedirects := Gen.strErrTooManyRedirects
  readOnly := Gen.strReadOnly
  authPrefix := Gen.strAuthCmd0
  asking := Gen.reqAsking
  maxRedirects := Gen.maxRedirects
  merge := goMergeConsts

end RcVerif
