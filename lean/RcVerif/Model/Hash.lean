import RcVerif.Model.Basic
/-
  Model of core/pkg/hashkit/crc16.go: `Hash` (hash-tag extraction) and `hash`
  (table driven CRC16 in uint32 arithmetic, reduced modulo the slot count).
  The table and the slot count are parameters; `Model/Inst.lean` instantiates
  them with the values regenerated from the Go source.
-/
namespace RcVerif.Hash

/-- one iteration of the loop in `hash`: `crc = (crc << 8) ^ tab[((crc>>8) ^ b) & 0xff]` on uint32 -/
def crcStep (tab : List Nat) (crc : Nat) (b : UInt8) : Nat :=
  ((crc <<< 8) % 2 ^ 32) ^^^ tab.getD (((crc >>> 8) ^^^ b.toNat) % 256) 0

/-- `hash(key)`: `int32(crc % RedisClusterSlots)` -/
def hashRaw (tab : List Nat) (slots : Nat) (key : Bytes) : Nat :=
  key.foldl (crcStep tab) 0 % slots

/-- `Hash(key)` after the fix: the tag is what lies between the first '{' and
    the first '}' after it, when non-empty. -/
def hashKey (tab : List Nat) (slots : Nat) (key : Bytes) : Nat :=
  match indexOf 123 key with            -- '{'
  | none => hashRaw tab slots key
  | some s =>
    let rest := key.drop (s + 1)
    match indexOf 125 rest with          -- '}'
    | none => hashRaw tab slots key      -- e = -1
    | some e =>
      if e < 1 then hashRaw tab slots key
      else hashRaw tab slots (rest.take e)

end RcVerif.Hash
