import RcVerif.Model.Elastic
import RcVerif.Model.CDecode
/-
  Model of the inbound side of a client connection (core/connection.go `conn.Peek`, `conn.Discard`,
  `resetBuffer`; core/eventloop.go `read` + `cread`): the bytes of the current read event (`c.buffer`, a slice of
  the event loop's read buffer) in front of which the leftover of earlier reads sits in the connection's
  `elastic.RingBuffer` (`c.inboundBuffer`). The decoder sees `Peek(0)`, consumes with `Discard(n)`; what is
  left when the decoder reports "incomplete" is written to the ring at the end of the read event.
-/
namespace RcVerif.ConnIn
open RcVerif RcVerif.Elastic RcVerif.CDecode RcVerif.Commands

structure InConn where
  inb : ERing := {}
  buf : Bytes := []        -- `c.buffer`: the unconsumed bytes of the current read event
  deriving Repr

/-- what the decoder is meant to see -/
def InConn.view (c : InConn) : Bytes := c.inb.content ++ c.buf

/-- `conn.Peek(n)`; `none` = `io.ErrShortBuffer` -/
def InConn.peek (c : InConn) (n : Int) : Option Bytes :=
  let inLen := c.inb.buffered
  let total := inLen + c.buf.length
  if n > (total : Int) then none
  else
    let n : Int := if n ≤ 0 then (total : Int) else n
    if c.inb.isEmpty then some (c.buf.take n.toNat)
    else
      let ht := c.inb.peek n
      if ht.1.length ≥ n.toNat then some (ht.1.take n.toNat)
      else if inLen ≥ n.toNat then some (ht.1 ++ ht.2)
      else some (ht.1 ++ ht.2 ++ c.buf.take (n.toNat - inLen))

/-- `conn.Discard(n)`: pool, connection, the number returned -/
def InConn.discard (pool : Pool) (c : InConn) (n : Int) : Pool × InConn × Nat :=
  let inLen := c.inb.buffered
  let tmp := c.buf.length
  if ((inLen + tmp : Nat) : Int) < n ∨ n ≤ 0 then (pool, { inb := c.inb.reset, buf := [] }, inLen + tmp)
  else if c.inb.isEmpty then (pool, { c with buf := c.buf.drop n.toNat }, n.toNat)
  else
    let r := c.inb.discard pool n
    if r.2.2.1 < inLen then (r.1, { c with inb := r.2.1 }, r.2.2.1)
    else (r.1, { inb := r.2.1, buf := c.buf.drop (n.toNat - inLen) }, n.toNat)

/-- the end of a read event: the unconsumed bytes go into the ring (`c.inboundBuffer.Write(c.buffer)`); the next
    read event replaces `c.buffer` before anything looks at it -/
def InConn.store (pool : Pool) (c : InConn) : Pool × InConn :=
  let r := c.inb.write pool c.buf
  (r.1, { inb := r.2, buf := [] })

/-- the decode loop of `eventloop.cread` on the connection: `Peek(0)`, decode, `Discard(consumed)`, until
    "incomplete" (stop) or "invalid" (close). Returns the requests, the state, closed -/
def drain (T : Tables) (slot : Bytes → Nat) (limit : Nat) :
    Nat → Pool → InConn → List CMsg × Pool × InConn × Bool
  | 0, pool, c => ([], pool, c, false)
  | fuel + 1, pool, c =>
    match c.peek 0 with
    | none => ([], pool, c, false)                 -- (Peek(0) never fails)
    | some view =>
      match decode T slot limit view with
      | .ok m n =>
        let d := c.discard pool (n : Int)
        let r := drain T slot limit fuel d.1 d.2.1
        (m :: r.1, r.2)
      | .invalid => ([], pool, c, true)
      | .panic => ([], pool, c, true)
      | .incomplete => ([], pool, c, false)

/-- one readable event with `chunk` -/
def feed (T : Tables) (slot : Bytes → Nat) (limit : Nat) (pool : Pool) (c : InConn) (chunk : Bytes) :
    List CMsg × Pool × InConn × Bool :=
  let c1 : InConn := { c with buf := chunk }
  let r := drain T slot limit (c1.view.length + 1) pool c1
  if r.2.2.2 then r
  else
    let s := r.2.2.1.store r.2.1
    (r.1, s.1, s.2, false)

def feedAll (T : Tables) (slot : Bytes → Nat) (limit : Nat) :
    Pool → InConn → List Bytes → List CMsg × Pool × InConn × Bool
  | pool, c, [] => ([], pool, c, false)
  | pool, c, chunk :: cs =>
    let r := feed T slot limit pool c chunk
    if r.2.2.2 then r
    else
      let r' := feedAll T slot limit r.2.1 r.2.2.1 cs
      (r.1 ++ r'.1, r'.2)

/-- the connection is closed (`releaseTCP`): `c.buffer = nil`, the inbound ring - whatever it holds - goes back
    to the pool (`inboundBuffer.Done()`) -/
def InConn.close (pool : Pool) (c : InConn) : Pool × InConn :=
  let r := c.inb.release pool
  (r.1, { inb := r.2, buf := [] })

end RcVerif.ConnIn
