/-
  Shared vocabulary of the model. Core Lean only (no Mathlib): everything under
  Model/ and Spec/ is linked into the compiled driver.
-/
namespace RcVerif

abbrev Bytes := List UInt8

/-- index of the first occurrence of `c` (Go `strings.Index(key, "c")`, `bytes.IndexByte`) -/
def indexOf (c : UInt8) : Bytes → Option Nat
  | [] => none
  | x :: xs => if x = c then some 0 else (indexOf c xs).map (· + 1)

def digit (n : Nat) : UInt8 := UInt8.ofNat (48 + n % 10)

/-- `strconv.Itoa` on a natural number, most significant digit first (fuel = value + 1 suffices). -/
def itoaFuel : Nat → Nat → Bytes
  | 0, _ => []
  | fuel + 1, n => if n < 10 then [digit n] else itoaFuel fuel (n / 10) ++ [digit n]

def itoa (n : Nat) : Bytes := itoaFuel (n + 1) n

def hexDigit (n : Nat) : Char :=
  if n < 10 then Char.ofNat (48 + n) else Char.ofNat (87 + n)

def toHex (b : Bytes) : String :=
  String.ofList (b.foldr (fun x acc => hexDigit (x.toNat / 16) :: hexDigit (x.toNat % 16) :: acc) [])

def hexVal (c : Char) : Option Nat :=
  if '0' ≤ c ∧ c ≤ '9' then some (c.toNat - 48)
  else if 'a' ≤ c ∧ c ≤ 'f' then some (c.toNat - 87)
  else if 'A' ≤ c ∧ c ≤ 'F' then some (c.toNat - 55)
  else none

def fromHexAux : List Char → Option Bytes
  | [] => some []
  | [_] => none
  | a :: b :: rest => do
    let x ← hexVal a
    let y ← hexVal b
    let r ← fromHexAux rest
    pure (UInt8.ofNat (x * 16 + y) :: r)

/-- "-" denotes the empty byte string in the line protocol -/
def fromHex (s : String) : Option Bytes :=
  if s = "-" then some [] else fromHexAux s.toList

def hexOrDash (b : Bytes) : String := if b.isEmpty then "-" else toHex b

end RcVerif
