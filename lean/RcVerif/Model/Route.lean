import RcVerif.Model.Commands
/-
  Model of `listenServer.route` (core/server/server_c.go, after the fix) and of
  the handshake `OnSOpened` sends (core/server/server_s.go).
  `rand.Intn(len(liveSlaves))` is the explicit argument `draw`.
-/
namespace RcVerif.Route

structure RSet where
  master : Bytes
  slaves : List Bytes
  deriving Repr, DecidableEq

/-- requests that must be served by the master -/
def masterOnly (T : Tables) (disableSlave : Bool) (ty : Nat) : Bool :=
  disableSlave || decide (ty > T.cWriteStart) || decide (ty = T.cHscan) || decide (ty = T.cSscan) || decide (ty = T.cZscan)

/-- the candidate list handed to the random pick: the replicas that are candidates - `hasPool a` stands for
    "a has a pool and is not skipped by the auto-ban" (a banned pool whose lift time has passed is skipped until the
    monitor clears the flag; one whose lift time is still ahead is picked up again and its flag cleared) -/
def candidates (hasPool : Bytes → Bool) (rs : RSet) : List Bytes := rs.slaves.filter hasPool

/-- `route`: (address, isSlave) -/
def route (T : Tables) (disableSlave : Bool) (hasPool : Bytes → Bool) (ty : Nat) (rs : RSet) (draw : Nat) : Bytes × Bool :=
  if masterOnly T disableSlave ty then (rs.master, false)
  else
    match (candidates hasPool rs)[draw]? with
    | some a => (a, true)
    | none => (rs.master, false)      -- no live replica (a draw is always below the list length)

/-- the bytes written when a redis connection opens: AUTH if a password is configured, then
    READONLY on a replica connection; and the number of `+OK` replies to swallow -/
def handshake (authPrefix readOnly passwd : Bytes) (isSlave : Bool) : Bytes × Nat :=
  let auth := if passwd.isEmpty then [] else authPrefix ++ itoa passwd.length ++ [13, 10] ++ passwd ++ [13, 10]
  let ro := if isSlave then readOnly else []
  (auth ++ ro, (if passwd.isEmpty then 0 else 1) + (if isSlave then 1 else 0))

/-- one cycle of `Pool.monitor` (core/redis_pool.go): the node is probed, a second time after a pause if the first
    probe failed; the auto-ban flag is cleared if either probe succeeded and set otherwise -/
def monitorCycle (probe1 probe2 : Bool) : Bool := !(probe1 || probe2)

end RcVerif.Route
