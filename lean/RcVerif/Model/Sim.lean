import RcVerif.Model.Merge
/-
  Layer B: the single-threaded event loop as a state machine.

  Model of `eventloop.cread / sread / flushClient / closeConn / failFrags /
  msgTimeout` (core/eventloop.go), `conn.handleWriteSignal / EnqueueOutFrag /
  enqueueInFrag / DequeueInFrag` (core/connection.go), `listenServer.OnCReact /
  getConn / route / OnMoved / OnSOpened / OnCOpened` (core/server), `Pool.Get`
  (core/redis_pool.go), after the fixes. Byte-level work is delegated to
  `CDecode`, `SDecode` and `Merge`.

  Everything Go leaves open - the order in which a request's slots are visited
  (map iteration) and the replica `rand.Intn` picks - enters as an explicit
  `ReqChoice`, checked for admissibility: an inadmissible choice makes the step
  report `badChoice` instead of guessing.

  A request object is never reused in the model (the message pool is not
  modelled): this is faithful as long as no live fragment points at a recycled
  request, which is what the correspondence view keeps checking.
-/
namespace RcVerif.Sim
open RcVerif.Resp RcVerif.CDecode RcVerif.SDecode RcVerif.Merge RcVerif.Commands

structure Cfg where
  limit : Nat
  timeout : Bool               -- a request timeout is configured
  passwd : Bytes
  disableSlave : Bool
  maxActive : Nat              -- connections per node
  deriving Repr

structure RSet where
  master : Bytes
  slaves : List Bytes
  deriving Repr, DecidableEq

/-- the strings the handler answers with -/
structure Strs where
  pong : Bytes
  ok : Bytes
  errUnknownCommand : Bytes
  errTooLargeReq : Bytes
  errWrongArgs : Bytes
  errNeedNtPassword : Bytes
  errInvalidPassword : Bytes
  errUnknownSlot : Bytes
  errAddrNotFound : Bytes
  errUnknownPool : Bytes
  errUnknownPoolConn : Bytes
  errTimeout : Bytes
  errBackendClosed : Bytes
  errTooManyRedirects : Bytes
  readOnly : Bytes
  authPrefix : Bytes           -- "*2\r\n$4\r\nauth\r\n$"
  asking : Bytes
  maxRedirects : Nat
  merge : Merge.Consts

inductive FragRef
  | frag (msg : Nat) (slot : Nat)
  | asking
  | probe
  deriving Repr, DecidableEq

structure Client where
  opened : Bool := true
  closing : Bool := false
  leftover : Bytes := []
  queue : List Nat := []       -- request ids, oldest first (`inMsgQueue`)
  out : Bytes := []            -- every byte written to the client socket, in order
  decoded : Nat := 0           -- ghost: number of requests decoded on this connection
  log : List (Nat × Bytes) := []  -- ghost: (request number, reply bytes) in delivery order
  deriving Repr

/-- a fragment queued to a redis connection: which fragment, the bytes to write (`Frag.Req`, fixed when the
    request is decoded) and - ghost - for a fragment queued directly by a client request its (client, request number) -/
structure QEntry where
  ref : FragRef
  bytes : Bytes
  direct : Option (Nat × Nat) := none
  deriving Repr, DecidableEq

structure Backend where
  opened : Bool := true
  addr : Bytes
  isSlave : Bool
  initSteps : Nat              -- number of `+OK` the handshake still has to swallow (0: none)
  initializing : Bool
  outQ : List QEntry := []     -- `outFragQueue`, oldest first
  inQ : List FragRef := []     -- `inFragQueue`, oldest first
  out : Bytes := []            -- every byte written to the redis socket, in order
  leftover : Bytes := []
  hs : Bytes := []             -- ghost: the handshake written when the connection was opened
  sent : List QEntry := []     -- ghost: fragments written, in order
  enq : List QEntry := []      -- ghost: everything ever queued to this connection, in order
  deriving Repr

structure Pool where
  addr : Bytes
  isSlave : Bool
  active : List Nat := []      -- backend ids, front first (`activeList`)
  removed : Bool := false      -- the node left the topology: `Pool.Close` + deleted from `ProxyPool`
  deriving Repr

/-- a queued task of the poller (`asyncTaskQueue`, FIFO): a write signal or a close request for a redis connection -/
inductive Task
  | write (b : Nat)
  | close (b : Nat)
  deriving Repr, DecidableEq

structure Req where
  owner : Nat
  num : Nat                    -- ghost: this is the num-th request decoded on its connection
  m : MMsg
  deriving Repr

structure State where
  clients : List Client := []
  backends : List Backend := []
  msgs : List Req := []
  pools : List Pool := []
  table : List (Nat × Nat × RSet) := []   -- slot ranges (inclusive) and their replica set
  timeouts : List FragRef := []           -- pending deadlines, earliest first
  tasks : List Task := []                 -- queued poller tasks, oldest first
  flag : Option String := none            -- "stuck" / "shutdown" / "panic" / "badChoice": outside the modelled domain
  deriving Repr

/-- how Go resolved what the code leaves open for one request -/
structure ReqChoice where
  visit : List (Nat × Bytes)   -- slots in the order visited, with the address each was routed to
  deriving Repr

/-! ### small helpers -/

def setAt {α} (l : List α) (i : Nat) (f : α → α) : List α :=
  l.mapIdx (fun j x => if j = i then f x else x)

def State.client (s : State) (i : Nat) : Option Client := s.clients[i]?
def State.backend (s : State) (i : Nat) : Option Backend := s.backends[i]?
def State.req (s : State) (i : Nat) : Option Req := s.msgs[i]?

def State.updClient (s : State) (i : Nat) (f : Client → Client) : State :=
  { s with clients := setAt s.clients i f }
def State.updBackend (s : State) (i : Nat) (f : Backend → Backend) : State :=
  { s with backends := setAt s.backends i f }
def State.updReq (s : State) (i : Nat) (f : Req → Req) : State :=
  { s with msgs := setAt s.msgs i f }

def State.fail (s : State) (why : String) : State :=
  match s.flag with
  | some _ => s
  | none => { s with flag := some why }

def slotOwner (table : List (Nat × Nat × RSet)) (slot : Nat) : Option RSet :=
  match table.find? (fun r => r.1 ≤ slot ∧ slot ≤ r.2.1) with
  | some r => some r.2.2
  | none => none

def findPool (pools : List Pool) (addr : Bytes) : Option Nat := pools.findIdx? (fun p => p.addr = addr ∧ !p.removed)

/-! ### client side: flush and close -/

/-- the completed requests at the head of the queue -/
def donePrefix (msgs : List Req) : List Nat → List Nat
  | [] => []
  | i :: rest =>
    match msgs[i]? with
    | some r => if r.m.done then i :: donePrefix msgs rest else []
    | none => []

/-- `closeConn` on a client connection: the queue is dropped, requests in flight stay referenced by their fragments -/
def closeClient (s : State) (c : Nat) : State :=
  s.updClient c (fun cl => { cl with opened := false, closing := false, queue := [], leftover := [] })

/-- `flushClient` -/
def flushClient (s : State) (c : Nat) : State :=
  match s.client c with
  | none => s
  | some cl =>
    if !cl.opened then s else
    let ds := donePrefix s.msgs cl.queue
    if ds.isEmpty then s else
    let replies := ds.filterMap (fun i => (s.msgs[i]?).map (fun r => (r.num, r.m.rspBody)))
    let bytes := (replies.map (·.2)).flatten
    let s1 := s.updClient c (fun cl => { cl with out := cl.out ++ bytes, queue := cl.queue.drop ds.length,
                                                 log := cl.log ++ replies })
    match s1.client c with
    | some cl1 => if cl1.closing ∧ cl1.queue.isEmpty then closeClient s1 c else s1
    | none => s1

/-- what `eventloop.sread` does with the owner of a fragment whose reply has been merged: nothing if the
    client is gone, close it if its queue is (unexpectedly) empty, otherwise flush -/
def deliver (s : State) (owner : Nat) : State :=
  match s.client owner with
  | some cl =>
    if !cl.opened then s
    else if cl.queue.isEmpty then closeClient s owner
    else flushClient s owner
  | none => s

/-! ### backend connections and pools -/

def handshake (S : Strs) (cfg : Cfg) (isSlave : Bool) : Bytes × Nat :=
  let auth := if cfg.passwd.isEmpty then [] else S.authPrefix ++ itoa cfg.passwd.length ++ [13, 10] ++ cfg.passwd ++ [13, 10]
  let ro := if isSlave then S.readOnly else []
  (auth ++ ro, (if cfg.passwd.isEmpty then 0 else 1) + (if isSlave then 1 else 0))

/-- `Pool.dial` + `eventloop.open` + `OnSOpened`: a new backend connection; the handshake is written at once -/
def dial (S : Strs) (cfg : Cfg) (s : State) (p : Nat) : State × Nat :=
  match s.pools[p]? with
  | none => (s.fail "panic", 0)
  | some pool =>
    let (hs, steps) := handshake S cfg pool.isSlave
    let id := s.backends.length
    let b : Backend := { addr := pool.addr, isSlave := pool.isSlave, initSteps := steps, initializing := steps > 0,
                         out := hs, hs := hs }
    ({ s with backends := s.backends ++ [b],
              pools := setAt s.pools p (fun q => { q with active := id :: q.active }) }, id)

/-- the rotation loop of `Pool.Get` once the pool is full: take from the back, skip closed ones -/
def rotate (backends : List Backend) : Nat → List Nat → Option (Nat × List Nat)
  | 0, _ => none
  | fuel + 1, active =>
    match active.getLast? with
    | none => none
    | some id =>
      let rest := active.dropLast
      match backends[id]? with
      | some b => if b.opened then some (id, id :: rest) else rotate backends fuel rest
      | none => rotate backends fuel rest

/-- `Pool.Get` (dial never fails in the modelled domain) -/
def poolGet (S : Strs) (cfg : Cfg) (s : State) (p : Nat) : State × Nat :=
  match s.pools[p]? with
  | none => (s.fail "panic", 0)
  | some pool =>
    if pool.active.length < cfg.maxActive then dial S cfg s p
    else match rotate s.backends (pool.active.length + 1) pool.active with
      | some (id, active') => ({ s with pools := setAt s.pools p (fun q => { q with active := active' }) }, id)
      | none =>
        -- every pooled connection was closed: they were all popped, dial a new one
        dial S cfg { s with pools := setAt s.pools p (fun q => { q with active := [] }) } p

/-- `EnqueueOutFrag`: queue the fragment and send a write signal -/
def enqueueOut (s : State) (b : Nat) (e : QEntry) : State :=
  { s.updBackend b (fun x => { x with outQ := x.outQ ++ [e], enq := x.enq ++ [e] }) with tasks := s.tasks ++ [.write b] }

def fragReq (S : Strs) (s : State) : FragRef → Bytes
  | .frag mi slot => match s.req mi with
    | some r => match getFrag r.m slot with
      | some f => f.req
      | none => []
    | none => []
  | .asking => S.asking
  | .probe => []

/-- does the fragment get a deadline? (`pushToTimeoutQueue`: only fragments with an owner) -/
def tracked (cfg : Cfg) : FragRef → Bool
  | .frag _ _ => cfg.timeout
  | _ => false

/-- `handleWriteSignal`: everything pending is written in order and now awaits its reply -/
def writeSignal (S : Strs) (cfg : Cfg) (s : State) (b : Nat) : State :=
  match s.backend b with
  | none => s
  | some x =>
    if !x.opened ∨ x.outQ.isEmpty then s else
    let bytes := (x.outQ.map (·.bytes)).flatten
    let s1 := s.updBackend b (fun x => { x with inQ := x.inQ ++ x.outQ.map (·.ref), sent := x.sent ++ x.outQ, outQ := [], out := x.out ++ bytes })
    { s1 with timeouts := s1.timeouts ++ (x.outQ.map (·.ref)).filter (tracked cfg) }

/-- one poller task -/
def runTask (S : Strs) (cfg : Cfg) (close : State → Nat → State) (s : State) : Task → State
  | .write b => writeSignal S cfg s b
  | .close b => close s b

/-! ### request side -/

/-- candidates `route` may pick for a read: the replicas that have a pool -/
def liveSlaves (s : State) (rs : RSet) : List Bytes := rs.slaves.filter (fun a => (findPool s.pools a).isSome)

/-- is `addr` an admissible result of `route` for a request of type `ty` on replica set `rs`? -/
def routeAdmissible (T : Tables) (cfg : Cfg) (s : State) (ty : Nat) (rs : RSet) (addr : Bytes) : Bool :=
  let masterOnly := cfg.disableSlave ∨ ty > T.cWriteStart ∨ ty = T.cHscan ∨ ty = T.cSscan ∨ ty = T.cZscan
  if masterOnly then addr = rs.master
  else
    let live := liveSlaves s rs
    if live.isEmpty then addr = rs.master else live.contains addr

/-- complete a request with an error exactly like `Frag.Fail` / the error branch of `conn.sread` -/
def failReq (m : MMsg) (e : Bytes) : MMsg :=
  allDone { m with err := e, fragDone := m.frags.length, rspBody := e, done := true }

/-- a locally produced reply for the request just decoded on `c` (it becomes that connection's
    next request number): written at once when nothing is queued, otherwise queued as a completed
    request so that it keeps its place in the pipeline -/
def answerLocal (s : State) (c : Nat) (m : MMsg) (out : Bytes) : State :=
  match s.client c with
  | none => s
  | some cl =>
    let num := cl.decoded
    if cl.queue.isEmpty then
      s.updClient c (fun cl => { cl with decoded := cl.decoded + 1, out := cl.out ++ out, log := cl.log ++ [(num, out)] })
    else
      let id := s.msgs.length
      let r : Req := { owner := c, num := num, m := { m with rspBody := out, done := true } }
      { s with msgs := s.msgs ++ [r] }.updClient c (fun cl => { cl with decoded := cl.decoded + 1, queue := cl.queue ++ [id] })

/-- a forwarded request: it becomes the connection's next request number, is stored (not done) and
    queued behind the earlier ones; returns its id -/
def acceptReq (s : State) (c : Nat) (m : MMsg) : State × Nat :=
  let id := s.msgs.length
  match s.client c with
  | none => (s, id)
  | some cl =>
    let r : Req := { owner := c, num := cl.decoded, m := { m with done := false } }
    ({ s with msgs := s.msgs ++ [r] }.updClient c (fun cl => { cl with decoded := cl.decoded + 1, queue := cl.queue ++ [id] }), id)

/-- first pass of `OnCReact`'s routing loop: resolve a connection for each visited slot.
    Returns the state (dials happened), the targets so far, and an error reply if the request is rejected. -/
def resolve (T : Tables) (S : Strs) (cfg : Cfg) (ty : Nat) :
    State → List (Nat × Bytes) → List (Nat × Nat) → State × List (Nat × Nat) × Option Bytes
  | s, [], acc => (s, acc, none)
  | s, (slot, addr) :: rest, acc =>
    match slotOwner s.table slot with
    | none => (s, acc, some S.errUnknownSlot)
    | some rs =>
      if !routeAdmissible T cfg s ty rs addr then (s.fail "badChoice", acc, none)
      else if addr.isEmpty then (s, acc, some S.errAddrNotFound)
      else match findPool s.pools addr with
        | none => (s, acc, some S.errUnknownPool)
        | some p =>
          let (s1, b) := poolGet S cfg s p
          resolve T S cfg ty s1 rest (acc ++ [(slot, b)])

/-- the requests `OnCReact` answers itself: the reply, and whether the connection is closed afterwards (QUIT) -/
def localAnswer (T : Tables) (S : Strs) (cfg : Cfg) (cm : CMsg) : Option (Bytes × Bool) :=
  let ty := cm.type
  if ty ≤ T.cUnknown ∨ ty ≥ T.cSentinel then some (S.errUnknownCommand, false)
  else if ty = T.cTooLarge then some (S.errTooLargeReq, false)
  else if ty = T.cWrongArgs then some (S.errWrongArgs, false)
  else if ty = T.cPing then some (S.pong, false)
  else if ty = T.cQuit then some (S.ok, true)
  else if ty = T.cAuth then
    if cfg.passwd.isEmpty then some (S.errNeedNtPassword, false)
    else if cfg.passwd ≠ cm.key then some (S.errInvalidPassword, false)
    else some (S.ok, false)
  else none

/-- the routing part of `OnCReact`: resolve a connection for every fragment, then queue them all -/
def forward (T : Tables) (S : Strs) (cfg : Cfg) (s : State) (c : Nat) (cm : CMsg) (ch : ReqChoice) : State :=
  let m := ofCMsg cm
  -- the visited slots must be distinct slots of this request; all of them unless the request is rejected
  let slots := m.frags.map (·.slot)
  let visited := ch.visit.map (·.1)
  if !(visited.all (slots.contains ·)) ∨ !visited.Nodup then s.fail "badChoice" else
  match resolve T S cfg cm.type s ch.visit [] with
  | (s1, _, some e) => answerLocal s1 c m e
  | (s1, targets, none) =>
    if s1.flag.isSome then s1
    else if targets.length ≠ slots.length then s1.fail "badChoice"
    else
      -- the fragments are kept in visiting order
      let frags := targets.filterMap (fun t => getFrag m t.1)
      match acceptReq s1 c { m with frags := frags } with
      | (s2, id) =>
        let num := ((s1.client c).map (·.decoded)).getD 0
        targets.foldl (fun st t =>
          enqueueOut st t.2 { ref := .frag id t.1, bytes := ((getFrag m t.1).map (·.req)).getD [], direct := some (c, num) }) s2

/-- `OnCReact` + the tail of the `cread` iteration for one decoded request.
    Returns the new state and whether the connection must be closed (QUIT). -/
def onRequest (T : Tables) (S : Strs) (cfg : Cfg) (s : State) (c : Nat) (cm : CMsg) (ch : ReqChoice) : State × Bool :=
  match localAnswer T S cfg cm with
  | some (out, quit) => (answerLocal s c (ofCMsg cm) out, quit)
  | none => (forward T S cfg s c cm ch, false)

/-- the loop of `eventloop.cread` over the bytes in view -/
def creadLoop (T : Tables) (S : Strs) (cfg : Cfg) (slotFn : Bytes → Nat) :
    Nat → State → Nat → Bytes → List ReqChoice → State
  | 0, s, _, _, _ => s
  | fuel + 1, s, c, view, chs =>
    match decode T slotFn cfg.limit view with
    | .invalid => closeClient s c
    | .panic => s.fail "panic"
    | .incomplete => s.updClient c (fun cl => { cl with leftover := view })
    | .ok cm n =>
      let (ch, chs') : ReqChoice × List ReqChoice :=
        if (localAnswer T S cfg cm).isNone then (chs.head?.getD { visit := [] }, chs.tail) else ({ visit := [] }, chs)
      let (s1, quit) := onRequest T S cfg s c cm ch
      let rest := view.drop n
      if s1.flag.isSome then s1
      else if quit then
        match s1.client c with
        | some cl => if cl.queue.isEmpty then closeClient s1 c
                     else s1.updClient c (fun cl => { cl with closing := true, leftover := [] })
        | none => s1
      else match s1.client c with
        | some cl => if !cl.opened then s1 else creadLoop T S cfg slotFn fuel s1 c rest chs'
        | none => s1

/-- a readable event on a client connection -/
def clientBytes (T : Tables) (S : Strs) (cfg : Cfg) (slotFn : Bytes → Nat) (s : State) (c : Nat)
    (chunk : Bytes) (chs : List ReqChoice) : State :=
  match s.client c with
  | none => s
  | some cl =>
    if !cl.opened ∨ cl.closing then s
    else
      let view := cl.leftover ++ chunk
      creadLoop T S cfg slotFn (view.length + 1) (s.updClient c (fun cl => { cl with leftover := [] })) c view chs

/-! ### reply side -/

def dropTimeout (s : State) (f : FragRef) : State := { s with timeouts := s.timeouts.erase f }

/-- `OnMoved`: follow a redirect for the fragment `(mi, slot)` whose reply named `addr` -/
def onMoved (S : Strs) (cfg : Cfg) (s : State) (mi slot : Nat) (isAsk : Bool) (addr : Bytes) : State :=
  match s.req mi with
  | none => s.fail "panic"
  | some r =>
    let red := (getFrag r.m slot).map (·.redirects) |>.getD 0
    let s := s.updReq mi (fun r => { r with m := setFrag r.m slot (fun f => { f with redirects := f.redirects + 1 }) })
    let failWith (s : State) (e : Bytes) : State :=
      flushClient (s.updReq mi (fun r => { r with m := failReq (setFrag r.m slot (fun f => { f with err := e })) e })) r.owner
    if red + 1 > S.maxRedirects then failWith s S.errTooManyRedirects
    else match findPool s.pools addr with
      | none => failWith s S.errUnknownPool
      | some p =>
        let (s1, b) := poolGet S cfg s p
        let s2 := if isAsk then enqueueOut s1 b { ref := .asking, bytes := S.asking } else s1
        enqueueOut s2 b { ref := .frag mi slot, bytes := fragReq S s (.frag mi slot) }

/-- the handshake prelude of `conn.sread`: swallow the `+OK` replies first. `none` = wait for more bytes -/
def initPrelude (s : State) (b : Nat) (x : Backend) (view : Bytes) : Option (State × Bytes) :=
  if x.initializing then
    match initializingDecode x.initSteps view with
    | .incomplete => none
    | .done n => some (s.updBackend b (fun x => { x with initializing := false }), view.drop n)
    | .fallThrough => some (s, view)
    | .invalidInit => some (s.fail "stuck", view)
  else some (s, view)

/-- one framed reply (type `rtype`, bytes `body`) for the fragment `(mi, slot)`: `conn.sread` followed by the
    corresponding branch of `eventloop.sread`. Returns the new state and whether the read loop goes on. -/
def onFragReply (T : Tables) (S : Strs) (cfg : Cfg) (slotFn : Bytes → Nat) (s : State) (mi slot rtype : Nat)
    (body : Bytes) : State × Bool :=
  match s.req mi with
  | none => (s.fail "panic", false)
  | some r =>
    match onReply T S.merge slotFn cfg.limit r.m slot rtype body with
    | (m', sig) =>
      let s1 := s.updReq mi (fun r => { r with m := m' })
      match sig with
      | .panic => (s1.fail "panic", false)
      | .dropped => (s1, true)
      | .waiting => (s1, true)
      | .redirect =>
        let s2 := onMoved S cfg s1 mi slot (rtype = T.rAsk) (parseMovedOrAsk T rtype body)
        (s2, !s2.flag.isSome)
      | .ready =>
        if rtype = T.rNeedNtAuth ∨ rtype = T.rNeedAuth ∨ rtype = T.rAuthFailed then (s1.fail "shutdown", false)
        else (deliver s1 r.owner, true)

/-- the loop of `eventloop.sread` over the bytes in view -/
def sreadLoop (T : Tables) (S : Strs) (cfg : Cfg) (slotFn : Bytes → Nat) :
    Nat → State → Nat → Bytes → State
  | 0, s, _, _ => s
  | fuel + 1, s, b, view =>
    match s.backend b with
    | none => s
    | some x =>
      if !x.opened then s else
      match initPrelude s b x view with
      | none => s.updBackend b (fun x => { x with leftover := view })
      | some (s, view) =>
        if s.flag.isSome then s else
        match frameReply T view with
        | .incomplete => s.updBackend b (fun x => { x with leftover := view })
        | .stuck => s.fail "stuck"
        | .ok rtype n =>
          match ((s.backend b).getD x).inQ with
          | [] => s.fail "stuck"                       -- unsolicited reply: ErrUnKnown, the real loop spins
          | f :: inQ' =>
            let body := view.take n
            let rest := view.drop n
            let s := dropTimeout (s.updBackend b (fun x => { x with inQ := inQ' })) f
            match f with
            | .asking => sreadLoop T S cfg slotFn fuel s b rest
            | .probe =>
              if rtype = T.rNeedNtAuth ∨ rtype = T.rNeedAuth ∨ rtype = T.rAuthFailed then s.fail "shutdown"
              else sreadLoop T S cfg slotFn fuel s b rest     -- handed to the refresh goroutine
            | .frag mi slot =>
              match onFragReply T S cfg slotFn s mi slot rtype body with
              | (s', true) => sreadLoop T S cfg slotFn fuel s' b rest
              | (s', false) => s'

/-- a readable event on a backend connection -/
def backendBytes (T : Tables) (S : Strs) (cfg : Cfg) (slotFn : Bytes → Nat) (s : State) (b : Nat) (chunk : Bytes) : State :=
  match s.backend b with
  | none => s
  | some x =>
    if !x.opened then s
    else
      let view := x.leftover ++ chunk
      sreadLoop T S cfg slotFn (view.length * 2 + 4) (s.updBackend b (fun x => { x with leftover := [] })) b view

/-- `failFrags`: every request that waits on, or was queued to, a lost connection is failed and its owner flushed -/
def failFrags (S : Strs) (s : State) (refs : List FragRef) : State :=
  refs.foldl (fun s f =>
    match f with
    | .frag mi slot =>
      match s.req mi with
      | none => s
      | some r =>
        match getFrag r.m slot with
        | none => s
        | some fr =>
          if fr.done then s
          else flushClient (s.updReq mi (fun r => { r with m := failReq (setFrag r.m slot (fun f => { f with err := S.errBackendClosed })) S.errBackendClosed })) r.owner
    | _ => s) s

/-- `closeConn` on a backend connection (peer closed it, or its pool was closed) -/
def backendClose (S : Strs) (s : State) (b : Nat) : State :=
  match s.backend b with
  | none => s
  | some x =>
    if !x.opened then s
    else
      let s1 := failFrags S s (x.inQ ++ x.outQ.map (·.ref))
      let s2 := x.inQ.foldl dropTimeout s1
      s2.updBackend b (fun x => { x with opened := false, inQ := [], outQ := [], leftover := [] })

/-- the poller runs its queued tasks in order -/
def runTasks (S : Strs) (cfg : Cfg) (s : State) : State :=
  let s1 := s.tasks.foldl (runTask S cfg (backendClose S)) s
  { s1 with tasks := [] }

/-- a node leaves the topology (`ticker`): its pool is closed - every pooled connection gets a close task - and
    forgotten; requests for its slots are rejected from then on (no pool) -/
def poolRemove (s : State) (p : Nat) : State :=
  match s.pools[p]? with
  | none => s
  | some pool =>
    if pool.removed then s
    else { s with pools := setAt s.pools p (fun q => { q with removed := true, active := [] }),
                  tasks := s.tasks ++ pool.active.map Task.close }

/-- the deadlines of fragments that are still unanswered, earliest first (an entry whose fragment is done - a sibling
    of a request that was failed - is dropped by `msgTimeout` without effect whenever it reaches the head) -/
def liveDeadlines (s : State) : List FragRef :=
  s.timeouts.filter (fun f =>
    match f with
    | .frag mi slot =>
      match s.req mi with
      | some r =>
        match getFrag r.m slot with
        | some fr => !fr.done
        | none => false
      | none => false
    | _ => false)

/-- `msgTimeout` when the `n` earliest deadlines of unanswered fragments have passed and no later one has
    (deadline = write time + the configured timeout, so deadline order is write order; `n ≥` the number of pending
    deadlines: all of them) -/
def expire (S : Strs) (s : State) (n : Nat) : State :=
  let s1 := ((liveDeadlines s).take n).foldl (fun s f =>
    match f with
    | .frag mi slot =>
      match s.req mi with
      | none => s
      | some r =>
        match getFrag r.m slot with
        | none => s
        | some fr =>
          if fr.done then s
          else
            let m1 : MMsg := { r.m with frags := r.m.frags.map (fun x => if x.done then x else { x with err := S.errTimeout, done := true }) }
            let m2 : MMsg := { m1 with err := S.errTimeout, rspBody := S.errTimeout, fragDone := m1.frags.length, done := true }
            flushClient (s.updReq mi (fun r => { r with m := m2 })) r.owner
    | _ => s) s
  { s1 with timeouts := (liveDeadlines s).drop n }

/-! ### events -/

inductive Event
  | connect (admitted : Bool)
  | clientBytes (c : Nat) (chunk : Bytes) (choices : List ReqChoice)
  | clientClose (c : Nat)
  | runTasks
  | backendBytes (b : Nat) (chunk : Bytes)
  | backendClose (b : Nat)
  | expire (n : Nat)
  | poolRemove (p : Nat)
  deriving Repr

def step (T : Tables) (S : Strs) (cfg : Cfg) (slotFn : Bytes → Nat) (s : State) (e : Event) : State :=
  if s.flag.isSome then s else
  match e with
  | .connect admitted => { s with clients := s.clients ++ [{ opened := admitted }] }
  | .clientBytes c chunk chs => clientBytes T S cfg slotFn s c chunk chs
  | .clientClose c => closeClient s c
  | .runTasks => runTasks S cfg s
  | .backendBytes b chunk => backendBytes T S cfg slotFn s b chunk
  | .backendClose b => backendClose S s b
  | .expire n => expire S s n
  | .poolRemove p => poolRemove s p

/-- start-up: the configured pools and slot table, every pool connected once (RedisPreconnect), no client yet -/
def init (S : Strs) (cfg : Cfg) (pools : List (Bytes × Bool)) (table : List (Nat × Nat × RSet)) : State :=
  let s0 : State := { pools := pools.map (fun p => { addr := p.1, isSlave := p.2 }), table := table }
  (List.range pools.length).foldl (fun s p => (poolGet S cfg s p).1) s0

def run (T : Tables) (S : Strs) (cfg : Cfg) (slotFn : Bytes → Nat) (s : State) (es : List Event) : State :=
  es.foldl (step T S cfg slotFn) s

end RcVerif.Sim
