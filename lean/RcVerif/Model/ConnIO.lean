import RcVerif.Model.Elastic
import RcVerif.Gen.Tables
/-
  Model of the write path of a connection (core/connection.go `write` / `writev`, core/eventloop.go `write`):
  bytes go straight to the socket while nothing is backlogged, whatever the kernel does not take is kept in the
  outbound `elastic.Buffer`, and writable events drain that backlog. How many bytes the kernel accepts in one
  call is not decided by the proxy: it is the explicit argument `acc` (EAGAIN = 0 accepted).
-/
namespace RcVerif.ConnIO
open RcVerif RcVerif.Elastic

structure Conn where
  out : EBuf                 -- `outboundBuffer`
  wire : Bytes := []         -- everything the kernel has accepted for this socket, in order
  queue : List Bytes := []   -- `outFragQueue`: requests waiting for the write signal, oldest first
  deriving Repr

/-- the leftover computation of `writev` after a short write of `sent` bytes: the slices from the first one that
    was not written completely, that one cut -/
def trimSent : List Bytes → Nat → List Bytes
  | [], _ => []
  | b :: rest, sent => if sent < b.length then b.drop sent :: rest else trimSent rest (sent - b.length)

/-- `conn.writev(bs)` -/
def writev (pool : Pool) (c : Conn) (bs : List Bytes) (acc : Nat) : Pool × Conn :=
  if !c.out.isEmpty then
    let (pool', o) := c.out.writev pool bs
    (pool', { c with out := o })
  else
    let total := bs.flatten.length
    let sent := min acc total
    let c1 := { c with wire := c.wire ++ bs.flatten.take sent }
    if sent < total then
      let (pool', o) := c.out.writev pool (trimSent bs sent)
      (pool', { c1 with out := o })
    else (pool, c1)

/-- `conn.write(data)` -/
def write (pool : Pool) (c : Conn) (data : Bytes) (acc : Nat) : Pool × Conn :=
  if !c.out.isEmpty then
    let (pool', o) := c.out.write pool data
    (pool', { c with out := o })
  else
    let sent := min acc data.length
    let c1 := { c with wire := c.wire ++ data.take sent }
    if sent < data.length then
      let (pool', o) := c.out.write pool (data.drop sent)
      (pool', { c1 with out := o })
    else (pool, c1)

/-- what `eventloop.write` offers to the kernel: the peeked slices (at most `iovMax`), or only the first one
    when a single slice was peeked -/
def offered (c : Conn) : Bytes :=
  let iov := c.out.peek (-1)
  if iov.length > 1 then (iov.take Gen.iovMax).flatten else (iov.headD [])

/-- `eventloop.write(c)`: a writable event -/
def flush (pool : Pool) (c : Conn) (acc : Nat) : Pool × Conn :=
  let off := offered c
  let sent := min acc off.length
  let (pool', o, _) := c.out.discard pool sent
  (pool', { c with out := o, wire := c.wire ++ off.take sent })

/-- `EnqueueOutFrag`: the request joins the pending-write queue (and a write signal is posted to the poller) -/
def enqueue (c : Conn) (req : Bytes) : Conn := { c with queue := c.queue ++ [req] }

/-- the loop of `handleWriteSignal` over the dequeued requests: one vectored write per `iovMax` of them, each with
    its own number of bytes accepted by the kernel (`accs`, missing = 0) -/
def writeChunks (pool : Pool) (c : Conn) : Nat → List Bytes → List Nat → Pool × Conn
  | 0, _, _ => (pool, c)
  | fuel + 1, bs, accs =>
    if bs.isEmpty then (pool, c)
    else
      let (pool', c') := writev pool c (bs.take Gen.iovMax) (accs.headD 0)
      writeChunks pool' c' fuel (bs.drop Gen.iovMax) accs.tail

/-- `handleWriteSignal`: the task the poller runs for a posted write signal - everything queued is written, in queue
    order, behind whatever is already backlogged (the trailing `writev` of the empty rest included) -/
def writeSignal (pool : Pool) (c : Conn) (accs : List Nat) : Pool × Conn :=
  let (pool', c') := writeChunks pool { c with queue := [] } (c.queue.length + 1) c.queue accs
  writev pool' c' [] 0

end RcVerif.ConnIO
