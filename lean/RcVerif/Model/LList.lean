import RcVerif.Model.Basic
/-
  Model of core/pkg/buffer/linkedlist/linked_list_buffer.go (`linkedlist.Buffer`): a list of byte slices (nodes)
  with separately maintained node and byte counters. Pool recycling of node memory (`bsPool`) is not modelled.
  Not modelled: ReadFrom / WriteTo.
-/
namespace RcVerif.LList
open RcVerif

structure LL where
  nodes : List Bytes := []   -- head first
  size : Nat := 0            -- `llb.size`: number of nodes
  bytes : Nat := 0           -- `llb.bytes`: buffered bytes
  deriving Repr, DecidableEq

def maxInt32 : Nat := 2147483647

/-- `PushBack(p)`: a copy of `p` becomes the last node; empty slices are ignored -/
def pushBack (l : LL) (p : Bytes) : LL :=
  if p.length = 0 then l else { nodes := l.nodes ++ [p], size := l.size + 1, bytes := l.bytes + p.length }

/-- `PushFront(p)` -/
def pushFront (l : LL) (p : Bytes) : LL :=
  if p.length = 0 then l else { nodes := p :: l.nodes, size := l.size + 1, bytes := l.bytes + p.length }

/-- the node walk of `Peek` / `PeekWithBytes`: whole nodes until the running total reaches `max` -/
def peekNodes : List Bytes → Nat → Nat → List Bytes
  | [], _, _ => []
  | b :: rest, cum, max => if cum + b.length ≥ max then [b] else b :: peekNodes rest (cum + b.length) max

def clampMax (n : Int) : Nat := if n ≤ 0 then maxInt32 else n.toNat

/-- `Peek(maxBytes)` -/
def peek (l : LL) (n : Int) : List Bytes := peekNodes l.nodes 0 (clampMax n)

/-- the first loop of `PeekWithBytes`: the non-empty extra slices; `none` = the limit was reached inside it -/
def peekExtra : List Bytes → Nat → Nat → List Bytes × Option Nat
  | [], cum, _ => ([], some cum)
  | b :: rest, cum, max =>
    if b.length > 0 then
      if cum + b.length ≥ max then ([b], none)
      else
        let (l, c) := peekExtra rest (cum + b.length) max
        (b :: l, c)
    else peekExtra rest cum max

/-- `PeekWithBytes(maxBytes, bs...)` -/
def peekWithBytes (l : LL) (n : Int) (bs : List Bytes) : List Bytes :=
  match peekExtra bs 0 (clampMax n) with
  | (pre, none) => pre
  | (pre, some cum) => pre ++ peekNodes l.nodes cum (clampMax n)

/-- the loop of `Discard`: remaining nodes, node and byte counters, discarded so far -/
def discardLoop : List Bytes → Nat → Nat → Nat → Nat → List Bytes × Nat × Nat × Nat
  | [], size, bytes, _, d => ([], size, bytes, d)
  | b :: rest, size, bytes, n, d =>
    if n = 0 then (b :: rest, size, bytes, d)
    else if n < b.length then (b.drop n :: rest, size, bytes - b.length + (b.length - n), d + n)   -- pop, trim, pushFront
    else discardLoop rest (size - 1) (bytes - b.length) (n - b.length) (d + b.length)

/-- `Discard(n)`: the new list and the number discarded -/
def discard (l : LL) (n : Int) : LL × Nat :=
  if n ≤ 0 then (l, 0)
  else
    let (nodes, size, bytes, d) := discardLoop l.nodes l.size l.bytes n.toNat 0
    ({ nodes := nodes, size := size, bytes := bytes }, d)

/-- the loop of `Read`: `k` bytes of `p` still free -/
def readLoop : List Bytes → Nat → Nat → Nat → Bytes → List Bytes × Nat × Nat × Bytes
  | [], size, bytes, _, acc => ([], size, bytes, acc)
  | b :: rest, size, bytes, k, acc =>
    let m := min b.length k
    if m < b.length then (b.drop m :: rest, size, bytes - b.length + (b.length - m), acc ++ b.take m)
    else if k - m = 0 then (rest, size - 1, bytes - b.length, acc ++ b)
    else readLoop rest (size - 1) (bytes - b.length) (k - m) (acc ++ b)

/-- `Read(p)` with `len(p) = k` -/
def read (l : LL) (k : Nat) : LL × Bytes :=
  if k = 0 then (l, [])
  else
    let (nodes, size, bytes, out) := readLoop l.nodes l.size l.bytes k []
    ({ nodes := nodes, size := size, bytes := bytes }, out)

def reset (_ : LL) : LL := {}

def isEmpty (l : LL) : Bool := l.nodes.isEmpty

/-- everything readable, oldest first -/
def content (l : LL) : Bytes := l.nodes.flatten

end RcVerif.LList
