import RcVerif.Model.Ring
import RcVerif.Model.LList
/-
  Model of core/pkg/buffer/elastic: `elastic.RingBuffer` (a lazily acquired, pooled `ring.Buffer`) and
  `elastic.Buffer` (ring first, spill into the linked list beyond `maxStaticBytes`), together with the part of
  core/pkg/pool/ringbuffer that matters for content: `Put` resets the ring and keeps it, `Get` hands back a pooled
  ring or a fresh `ring.New(0)`. The pool is modelled as sync.Pool behaves on one P without GC (private slot,
  then a LIFO shared list); its size calibration is not modelled (it needs 42000 calls).
-/
namespace RcVerif.Elastic
open RcVerif RcVerif.Ring RcVerif.LList

structure Pool where
  priv : Option Ring := none
  shared : List Ring := []
  deriving Repr

def Pool.get (p : Pool) : Pool × Ring :=
  match p.priv with
  | some r => ({ p with priv := none }, r)
  | none =>
    match p.shared with
    | r :: rest => ({ p with shared := rest }, r)
    | [] => (p, Ring.new 0)

/-- `ringbuffer.Put`: the ring is reset before it is kept -/
def Pool.put (p : Pool) (r : Ring) : Pool :=
  let r := Ring.reset r
  match p.priv with
  | none => { p with priv := some r }
  | some _ => { p with shared := r :: p.shared }

/-- `elastic.RingBuffer` -/
structure ERing where
  rb : Option Ring := none
  deriving Repr

/-- `done()`: an emptied ring goes back to the pool -/
def ERing.done (pool : Pool) (e : ERing) : Pool × ERing :=
  match e.rb with
  | some r => if r.isEmpty then (pool.put r, { rb := none }) else (pool, e)
  | none => (pool, e)

/-- `Done()` -/
def ERing.release (pool : Pool) (e : ERing) : Pool × ERing :=
  match e.rb with
  | some r => (pool.put r, { rb := none })
  | none => (pool, e)

def ERing.peek (e : ERing) (n : Int) : Bytes × Bytes :=
  match e.rb with
  | some r => Ring.peek r n
  | none => ([], [])

/-- `Discard`: pool, buffer, discarded, ErrIsEmpty -/
def ERing.discard (pool : Pool) (e : ERing) (n : Int) : Pool × ERing × Nat × Bool :=
  match e.rb with
  | none => (pool, e, 0, true)
  | some r =>
    let (r', d) := Ring.discard r n
    let (pool', e') := ERing.done pool { rb := some r' }
    (pool', e', d, false)

/-- `Read`: pool, buffer, bytes, ErrIsEmpty -/
def ERing.read (pool : Pool) (e : ERing) (k : Nat) : Pool × ERing × Bytes × Bool :=
  match e.rb with
  | none => (pool, e, [], true)
  | some r =>
    let (r', out, err) := Ring.read r k
    let (pool', e') := ERing.done pool { rb := some r' }
    (pool', e', out, err)

def ERing.instance (pool : Pool) (e : ERing) : Pool × Ring :=
  match e.rb with
  | some r => (pool, r)
  | none => pool.get

def ERing.write (pool : Pool) (e : ERing) (p : Bytes) : Pool × ERing :=
  if p.length = 0 then (pool, e)
  else
    let (pool', r) := ERing.instance pool e
    (pool', { rb := some (Ring.write r p) })

def ERing.buffered (e : ERing) : Nat := match e.rb with | some r => Ring.buffered r | none => 0
def ERing.len (e : ERing) : Nat := match e.rb with | some r => r.buf.length | none => 0
def ERing.cap (e : ERing) : Nat := match e.rb with | some r => r.size | none => 0
def ERing.available (e : ERing) : Nat := match e.rb with | some r => Ring.available r | none => 0
def ERing.isEmpty (e : ERing) : Bool := match e.rb with | some r => r.isEmpty | none => true
def ERing.reset (e : ERing) : ERing := match e.rb with | some r => { rb := some (Ring.reset r) } | none => e
def ERing.content (e : ERing) : Bytes := match e.rb with | some r => Ring.content r | none => []

/-- `elastic.Buffer` -/
structure EBuf where
  maxStatic : Nat
  ring : ERing := {}
  list : LL := {}
  deriving Repr

def EBuf.content (b : EBuf) : Bytes := b.ring.content ++ LList.content b.list
def EBuf.buffered (b : EBuf) : Nat := b.ring.buffered + b.list.bytes
def EBuf.isEmpty (b : EBuf) : Bool := b.ring.isEmpty && LList.isEmpty b.list

/-- `Read(p)`, `len(p) = k` -/
def EBuf.read (pool : Pool) (b : EBuf) (k : Nat) : Pool × EBuf × Bytes :=
  let (pool', ring', out, _) := b.ring.read pool k
  if out.length = k then (pool', { b with ring := ring' }, out)
  else
    let (list', out2) := LList.read b.list (k - out.length)
    (pool', { b with ring := ring', list := list' }, out ++ out2)

/-- `Peek(n)` -/
def EBuf.peek (b : EBuf) (n : Int) : List Bytes :=
  let n : Int := if n ≤ 0 then (LList.maxInt32 : Int) else n
  let (head, tail) := b.ring.peek n
  if (b.ring.buffered : Int) ≥ n then [head, tail]
  else LList.peekWithBytes b.list n [head, tail]

/-- `Discard(n)` -/
def EBuf.discard (pool : Pool) (b : EBuf) (n : Int) : Pool × EBuf × Nat :=
  let (pool', ring', d, _) := b.ring.discard pool n
  if n ≤ (d : Int) then (pool', { b with ring := ring' }, d)
  else
    let (list', m) := LList.discard b.list (n - d)
    (pool', { b with ring := ring', list := list' }, d + m)

/-- `Write(p)` -/
def EBuf.write (pool : Pool) (b : EBuf) (p : Bytes) : Pool × EBuf :=
  if !LList.isEmpty b.list ∨ b.ring.buffered ≥ b.maxStatic then (pool, { b with list := LList.pushBack b.list p })
  else if b.ring.len ≥ b.maxStatic ∧ p.length > b.ring.available then
    let writable := b.ring.available
    let (pool', ring') := b.ring.write pool (p.take writable)
    (pool', { b with ring := ring', list := LList.pushBack b.list (p.drop writable) })
  else
    let (pool', ring') := b.ring.write pool p
    (pool', { b with ring := ring' })

/-- the first loop of `Writev`: ring while it fits, the slice that does not is split, `none` once the list took over -/
def writevLoop (pool : Pool) (ring : ERing) (list : LL) : List Bytes → Nat → Pool × ERing × LL × List Bytes
  | [], _ => (pool, ring, list, [])
  | b :: rest, writable =>
    if b.length > writable then
      let (pool', ring') := ring.write pool (b.take writable)
      (pool', ring', LList.pushBack list (b.drop writable), rest)
    else
      let (pool', ring') := ring.write pool b
      writevLoop pool' ring' list rest (writable - b.length)

/-- `Writev(bs)` -/
def EBuf.writev (pool : Pool) (b : EBuf) (bs : List Bytes) : Pool × EBuf :=
  if !LList.isEmpty b.list ∨ b.ring.buffered ≥ b.maxStatic then
    (pool, { b with list := bs.foldl LList.pushBack b.list })
  else
    let writable := if b.ring.len < b.maxStatic then b.maxStatic - b.ring.buffered else b.ring.available
    let (pool', ring', list', rest) := writevLoop pool b.ring b.list bs writable
    (pool', { b with ring := ring', list := rest.foldl LList.pushBack list' })

/-- `Reset(maxStaticBytes)` -/
def EBuf.reset (b : EBuf) (maxStatic : Int) : EBuf :=
  { maxStatic := if maxStatic > 0 then maxStatic.toNat else b.maxStatic, ring := b.ring.reset, list := {} }

/-- `Release()` -/
def EBuf.release (pool : Pool) (b : EBuf) : Pool × EBuf :=
  let (pool', ring') := b.ring.release pool
  (pool', { b with ring := ring', list := {} })

end RcVerif.Elastic
