import RcVerif.Model.Cluster
import RcVerif.Gen.Tables
/-
  The hand-over of a new topology from the refresh goroutine (`loopClusterNodes` /
  `updateClusterNodes`, core/cluster.go) to the event loop (`eventloop.ticker`, core/eventloop.go),
  at the granularity of the individual reads and writes of the shared fields `ServerMap`,
  `Replicasets` and `serverChanged`, under every interleaving of the two.

  The goroutine G publishes in this order: change decision (writes `lastServerNames`), `setServer`
  (delete the old entries, insert the new ones), `setReplicaset`, `serverChanged = true`.
  The event loop T, once per tick: test the flag; rebuild the pools from `ServerMap` (removal loop, then
  add / re-role loop); rebuild the slot table from `Replicasets`; take the flag down - either first
  (`resetFirst`, the order the code has now) or last (the order it had: a description published while
  the rebuild was running had its flag taken down unseen).

  Two program orders are data, regenerated from the source on every run (`Gen.tickerResetsFirst`,
  `Gen.publishRaisesFlagLast`).
-/
namespace RcVerif.Handover
open RcVerif RcVerif.Cluster

/-- where the refresh goroutine is inside `updateClusterNodes` -/
inductive GPc where
  | idle
  | clear (ns : List Node)     -- change detected; next: `setServer` deletes the old entries
  | fill (ns : List Node)      -- next: `setServer` inserts the new entries
  | sets (ns : List Node)      -- next: `setReplicaset`
  | flag                       -- next: `serverChanged = true`
  deriving Repr, DecidableEq

/-- where the event loop is inside `ticker` -/
inductive TPc where
  | idle
  | remove                     -- next: close and forget the pools of addresses no longer in `ServerMap`
  | add                        -- next: a pool per `ServerMap` entry, role refreshed
  | table                      -- next: `Slots2Node` rebuilt from `Replicasets`
  | reset                      -- next: `serverChanged = false` (only in the reset-last order)
  deriving Repr, DecidableEq

structure MState where
  r : RState := {}                              -- the shared fields (and the goroutine's private `lastServerNames`)
  gpc : GPc := .idle
  tpc : TPc := .idle
  pools : List (Bytes × Bool) := []             -- `ProxyPool`: address -> replica role
  table : List (Node × List Node) := []         -- what `Slots2Node` was built from
  log : List Bytes := []                        -- ghost: the probe replies the goroutine has taken from the channel
  deriving Repr

/-- removal loop of `ticker` -/
def removePools (servers : List Node) (pools : List (Bytes × Bool)) : List (Bytes × Bool) :=
  pools.filter (fun p => servers.any (fun n => n.addr = p.1))

/-- add / `SetIsSlave` loop of `ticker` -/
def addPools (servers : List Node) (pools : List (Bytes × Bool)) : List (Bytes × Bool) :=
  servers.foldl (fun pools n =>
    if pools.any (fun p => p.1 = n.addr) then pools.map (fun p => if p.1 = n.addr then (p.1, n.isSlave) else p)
    else pools ++ [(n.addr, n.isSlave)]) pools

/-- the role `ProxyPool` holds for an address -/
def poolRole (pools : List (Bytes × Bool)) (a : Bytes) : Option Bool := (pools.find? (fun p => p.1 = a)).map (·.2)
/-- the role `ServerMap` holds for an address -/
def serverRole (servers : List Node) (a : Bytes) : Option Bool := (servers.find? (fun n => n.addr = a)).map (·.isSlave)

inductive Ev where
  | deliver (msg : Bytes)      -- G, idle, takes a probe reply from the channel: gate, parse, change decision
  | g                          -- one further step of G
  | tick                       -- T, idle: the flag test at the top of `ticker`
  | t                          -- one further step of T
  | gTorn (servers : List Node) (sets : List (Node × List Node))
                               -- G in the middle of `setServer` / `setReplicaset`: a partially written value is visible
  | tTorn (pools : List (Bytes × Bool)) (table : List (Node × List Node))
                               -- a T step that overlapped G's writes: it read a mixture
  deriving Repr

variable (nslots : Nat) (info : Bytes → Option Info) (resetFirst : Bool)

/-- G takes a message: everything up to and including `isChanged` (which always stores the signature) -/
def gReceive (s : MState) (msg : Bytes) : MState :=
  if s.gpc ≠ .idle then s else
  let s := { s with log := s.log ++ [msg] }
  if !s.r.alive then s else
  match probeText msg with
  | none => s
  | some text =>
    match parseText nslots (fun a => s.r.servers.any (·.addr = a)) info text with
    | none => s
    | some ns =>
      let names := sortBytes (ns.map sigOf)
      if ns.length ≠ s.r.servers.length ∨ names ≠ s.r.lastNames then
        { s with r := { s.r with lastNames := names }, gpc := .clear ns }
      else { s with r := { s.r with lastNames := names } }

def gStep (s : MState) : MState :=
  match s.gpc with
  | .idle => s
  | .clear ns => { s with r := { s.r with servers := [] }, gpc := .fill ns }
  | .fill ns => { s with r := { s.r with servers := setServers ns }, gpc := .sets ns }
  | .sets ns => { s with r := { s.r with sets := setReplicasets ns }, gpc := .flag }
  | .flag => { s with r := { s.r with changed := true }, gpc := .idle }

def tTick (s : MState) : MState :=
  if s.tpc = .idle ∧ s.r.changed then
    if resetFirst then { s with r := { s.r with changed := false }, tpc := .remove }
    else { s with tpc := .remove }
  else s

def tStep (s : MState) : MState :=
  match s.tpc with
  | .idle => s
  | .remove => { s with pools := removePools s.r.servers s.pools, tpc := .add }
  | .add => { s with pools := addPools s.r.servers s.pools, tpc := .table }
  | .table => { s with table := s.r.sets, tpc := if resetFirst then .idle else .reset }
  | .reset => { s with r := { s.r with changed := false }, tpc := .idle }

/-- the next program counter of T after a step (whatever it read) -/
def tNext : TPc → TPc
  | .idle => .idle
  | .remove => .add
  | .add => .table
  | .table => if resetFirst then .idle else .reset
  | .reset => .idle

def step (s : MState) : Ev → MState
  | .deliver msg => gReceive nslots info s msg
  | .g => gStep s
  | .tick => tTick resetFirst s
  | .t => tStep resetFirst s
  | .gTorn servers sets =>
    match s.gpc with
    | .clear _ | .fill _ => { s with r := { s.r with servers := servers } }
    | .sets _ => { s with r := { s.r with sets := sets } }
    | _ => s
  | .tTorn pools table =>
    if s.gpc = .idle then s else
    match s.tpc with
    | .idle | .reset => s
    | .remove | .add => { s with pools := pools, tpc := tNext resetFirst s.tpc }
    | .table => { s with table := table, tpc := tNext resetFirst s.tpc }

def run (s : MState) (evs : List Ev) : MState := evs.foldl (step nslots info resetFirst) s

/-- let the goroutine finish what it is doing / let the event loop finish its pass -/
def finishG (s : MState) : MState := gStep (gStep (gStep (gStep s)))
def finishT (s : MState) : MState := tStep resetFirst (tStep resetFirst (tStep resetFirst (tStep resetFirst s)))

/-- what "a few seconds later" amounts to: the goroutine finishes, the running pass (if any) finishes, one more
    tick happens and its pass finishes -/
def settle (s : MState) : MState :=
  finishT resetFirst (tTick resetFirst (finishT resetFirst (finishG s)))

/-- the event loop routes by exactly what the goroutine has published -/
def Clean (s : MState) : Prop :=
  (∀ a, poolRole s.pools a = serverRole s.r.servers a) ∧ s.table = s.r.sets

/-- the program order of `ticker` the model runs, read off the regenerated `Gen.tickerOrder`
    (reset-last for any order that does not begin with the reset) -/
def resetFirstNow : Bool := decide (Gen.tickerOrder = ["reset", "remove", "add", "table"])

end RcVerif.Handover
