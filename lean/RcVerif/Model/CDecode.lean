import RcVerif.Model.Resp
import RcVerif.Model.Commands
/-
  Model of core/codec_c.go: `CRespCodec.Decode`, `parseLine`, `Frag1`, `Frag2`,
  `Eval`, `Default`, `MGet`, `Del`, `MSet`, `sizeTooLarge` (after the fixes).
  The slot function is a parameter. Places where the Go code would panic
  (indexing an empty line) are explicit `panic` outcomes, proved unreachable.
-/
namespace RcVerif.CDecode
open RcVerif.Resp RcVerif.Commands

/-- what the decoder hands to the handler -/
structure CMsg where
  type : Nat
  key : Bytes                       -- `Frag.Key` of a single-fragment request (first argument; third for EVAL/EVALSHA)
  keys : List Bytes                 -- `Msg.Keys`
  frags : List (Nat × Bytes)        -- `Msg.Body`: slot ↦ `Frag.Req`, in first-occurrence order of slots
  groups : List (Nat × List Bytes)  -- `Msg.Frags` (MGET/DEL) or flattened `Msg.Frags2` (MSET), per slot
  deriving Repr, DecidableEq

inductive COut
  | incomplete                      -- any error but ErrInvalidResp: wait for more bytes
  | invalid                         -- ErrInvalidResp: the connection is closed
  | panic                           -- the Go code would panic here (proved unreachable)
  | ok (m : CMsg) (consumed : Nat)
  deriving Repr, DecidableEq

/-- framing errors as `eventloop.cread` distinguishes them -/
inductive FErr
  | incomplete | invalid | panic
  deriving Repr, DecidableEq

def ofRErr : RErr → FErr
  | .invalid => .invalid
  | _ => .incomplete

/-- `parseLine`: one bulk string argument -/
def parseLine (rest : Bytes) : Except FErr (Bytes × Bytes) :=
  match readLine rest with
  | .error .emptyLineAdv => .error .invalid
  | .error e => .error (ofRErr e)
  | .ok (line, rest1) =>
    match line with
    | [] => .error .panic             -- `line[0]` on an empty line
    | 36 :: lenBytes =>               -- '$'
      match parseLen lenBytes with
      | .error _ => .error .invalid
      | .ok n =>
        if n < 0 then .error .invalid
        else match readN n.toNat rest1 with
          | .error e => .error (ofRErr e)
          | .ok (b, rest2) =>
            match readN 2 rest2 with
            | .error _ => .error .incomplete
            | .ok (crlf, rest3) =>
              if crlf = [13, 10] then .ok (b, rest3) else .error .invalid
    | _ => .error .invalid

/-- parse `n` arguments -/
def parseArgs : Nat → Bytes → Except FErr (List Bytes × Bytes)
  | 0, rest => .ok ([], rest)
  | n + 1, rest =>
    match parseLine rest with
    | .error e => .error e
    | .ok (a, rest1) =>
      match parseArgs n rest1 with
      | .error e => .error e
      | .ok (as, rest2) => .ok (a :: as, rest2)

/-- the framing part of `Decode`: header line, command name, arguments.
    Returns (name, arguments, what was unread after the name, unread rest). -/
def frame (view : Bytes) : Except FErr (Bytes × List Bytes × Bytes × Bytes) :=
  if view.length < 1 then .error .incomplete else
  match readLine view with
  | .error .lfNotFound => .error .incomplete
  | .error _ => .error .invalid
  | .ok (line, rest0) =>
    match line with
    | [] => .error .panic
    | 42 :: lenBytes =>              -- '*'
      match parseLen lenBytes with
      | .error _ => .error .invalid
      | .ok n =>
        if n < 1 then .error .invalid else
        match parseLine rest0 with
        | .error e => .error e
        | .ok (name, rest1) =>
          match parseArgs (n.toNat - 1) rest1 with
          | .error e => .error e
          | .ok (args, rest2) => .ok (name, args, rest1, rest2)
    | _ => .error .invalid

/-- append an item to the group of its slot (Go: `resp.Frags[slot] = append(v, seg)`) -/
def addToGroup {α} (s : Nat) (k : α) : List (Nat × List α) → List (Nat × List α)
  | [] => [(s, [k])]
  | (s', ks) :: rest =>
    if s = s' then (s', ks ++ [k]) :: rest else (s', ks) :: addToGroup s k rest

def groupBySlot {α} (slotOf : α → Nat) (items : List α) : List (Nat × List α) :=
  items.foldl (fun g k => addToGroup (slotOf k) k g) []

def bulk (k : Bytes) : Bytes := [36] ++ itoa k.length ++ [13, 10] ++ k ++ [13, 10]

def bulks (ks : List Bytes) : Bytes := (ks.map bulk).flatten

/-- `"*" itoa(argc) "\r\n$L\r\nname\r\n"` followed by the arguments -/
def encodeCmd (name : Bytes) (args : List Bytes) : Bytes :=
  [42] ++ itoa (args.length + 1) ++ [13, 10] ++ bulk name ++ bulks args

def pairs : List Bytes → List (Bytes × Bytes)
  | k :: v :: rest => (k, v) :: pairs rest
  | _ => []

def unpairs (ps : List (Bytes × Bytes)) : List Bytes := (ps.map (fun p => [p.1, p.2])).flatten

def nameMget : Bytes := [109, 103, 101, 116]
def nameDel : Bytes := [100, 101, 108]
def nameMset : Bytes := [109, 115, 101, 116]

/-- the request object built from a framed request. `raw` is `buf.ReadBuf()`:
    the bytes read, with the command name lower-cased in place. -/
def build (T : Tables) (slot : Bytes → Nat) (limit : Nat) (name : Bytes) (args : List Bytes)
    (raw : Bytes) (consumed : Nat) : CMsg :=
  let argc := args.length
  let ty := transform2Type T name argc
  let sized (m : CMsg) : CMsg := if consumed > limit then { m with type := T.cTooLarge } else m
  if ty = T.cMget ∨ ty = T.cDel then
    let g := groupBySlot slot args
    let nm := if ty = T.cMget then nameMget else nameDel
    sized { type := ty, key := [], keys := args, groups := g,
            frags := g.map (fun p => (p.1, encodeCmd nm p.2)) }
  else if ty = T.cMset then
    let ps := pairs args
    let g := groupBySlot (fun p : Bytes × Bytes => slot p.1) ps
    sized { type := ty, key := [], keys := ps.map (·.1), groups := g.map (fun p => (p.1, unpairs p.2)),
            frags := g.map (fun p => (p.1, encodeCmd nameMset (unpairs p.2))) }
  else if ty = T.cEval ∨ ty = T.cEvalsha then
    let ty' := if argc < 3 then T.cWrongArgs else ty
    let k := match args with
      | _ :: _ :: k :: _ => k
      | _ => []
    let s := match args with
      | _ :: _ :: k :: _ => slot k
      | _ => 0
    sized { type := ty', key := k, keys := [], groups := [], frags := [(s, raw)] }
  else
    let k := match args with
      | k :: _ => k
      | [] => []
    let s := match args with
      | k :: _ => slot k
      | [] => 0
    sized { type := ty, key := k, keys := [], groups := [], frags := [(s, raw)] }

/-- `CRespCodec.Decode` on the bytes in view -/
def decode (T : Tables) (slot : Bytes → Nat) (limit : Nat) (view : Bytes) : COut :=
  match frame view with
  | .error .incomplete => .incomplete
  | .error .invalid => .invalid
  | .error .panic => .panic
  | .ok (name, args, rest1, rest) =>
    let consumed := view.length - rest.length
    -- position of the command name inside the consumed bytes: it ends 2 bytes (CRLF) before the arguments
    let a := view.length - rest1.length - 2 - name.length
    let raw := view.take a ++ toLower name ++ (view.take consumed).drop (a + name.length)
    .ok (build T slot limit name args raw consumed) consumed

end RcVerif.CDecode
