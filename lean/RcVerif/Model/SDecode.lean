import RcVerif.Model.Resp
import RcVerif.Model.Commands
/-
  Model of core/codec_s.go: `SRespCodec.readReply` (recursive framing and
  classification of one RESP2 reply), `Decode`, `InitializingDecode`, and of
  `Frag.parseMovedOrAsk` (core/message.go).
-/
namespace RcVerif.SDecode
open RcVerif.Resp

def isPrefix (p l : Bytes) : Bool := l.take p.length == p

def sOK : Bytes := [43, 79, 75]                      -- "+OK"
def sPONG : Bytes := [43, 80, 79, 78, 71]            -- "+PONG"
def sNoAuth : Bytes := [45, 78, 79, 65, 85, 84, 72, 32, 65, 117, 116, 104, 101, 110, 116, 105, 99, 97, 116, 105, 111, 110, 32, 114, 101, 113, 117, 105, 114, 101, 100]  -- "-NOAUTH Authentication required"
def sInvalidPw : Bytes := [45, 69, 82, 82, 32, 105, 110, 118, 97, 108, 105, 100, 32, 112, 97, 115, 115, 119, 111, 114, 100]  -- "-ERR invalid password"
def sNoPwSet : Bytes := [45, 69, 82, 82, 32, 67, 108, 105, 101, 110, 116, 32, 115, 101, 110, 116, 32, 65, 85, 84, 72, 44, 32, 98, 117, 116, 32, 110, 111, 32, 112, 97, 115, 115, 119, 111, 114, 100, 32, 105, 115, 32, 115, 101, 116]  -- "-ERR Client sent AUTH, but no password is set"
def sNoPwSet2 : Bytes := [45, 69, 82, 82, 32, 65, 85, 84, 72, 32, 60, 112, 97, 115, 115, 119, 111, 114, 100, 62, 32, 99, 97, 108, 108, 101, 100, 32, 119, 105, 116, 104, 111, 117, 116, 32, 97, 110, 121, 32, 112, 97, 115, 115, 119, 111, 114, 100, 32, 99, 111, 110, 102, 105, 103, 117, 114, 101, 100, 32, 102, 111, 114, 32, 116, 104, 101, 32, 100, 101, 102, 97, 117, 108, 116, 32, 117, 115, 101, 114, 46]  -- "-ERR AUTH <password> called without any password configured for the default user."
def sMoved : Bytes := [45, 77, 79, 86, 69, 68]       -- "-MOVED"
def sAsk : Bytes := [45, 65, 83, 75]                 -- "-ASK"

/-- classification of a `+` / `-` line (the line includes its first byte) -/
def classifyStatus (T : Tables) (line : Bytes) : Nat :=
  if isPrefix sOK line then T.rOk else if isPrefix sPONG line then T.rPong else T.rStatus

def classifyError (T : Tables) (line : Bytes) : Nat :=
  if isPrefix sNoAuth line then T.rNeedAuth
  else if isPrefix sInvalidPw line then T.rAuthFailed
  else if isPrefix sNoPwSet line then T.rNeedNtAuth
  else if isPrefix sNoPwSet2 line then T.rNeedNtAuth
  else if isPrefix sMoved line then T.rMoved
  else if isPrefix sAsk line then T.rAsk
  else T.rError

mutual
/-- `readReply`: frames one reply at the front of `rest`; returns its type and the new rest.
    Fuel bounds the recursion (one unit per call); `rest.length * 2 + 4` always suffices. -/
def readReply (T : Tables) : Nat → Bytes → Except RErr (Nat × Bytes)
  | 0, _ => .error .fuel
  | fuel + 1, rest =>
    match readLine rest with
    | .error e => .error e
    | .ok (line, rest1) =>
      match line with
      | [] => .error .invalid                       -- `len(line) == 0` => BadLine (unreachable)
      | 43 :: _ => .ok (classifyStatus T line, rest1)        -- '+'
      | 58 :: _ => .ok (T.rInteger, rest1)                   -- ':'
      | 45 :: _ => .ok (classifyError T line, rest1)         -- '-'
      | 36 :: lenBytes =>                                    -- '$'
        match parseLen lenBytes with
        | .error e => .error e
        | .ok n =>
          if n < 0 then .ok (T.rBulk, rest1)
          else match readN n.toNat rest1 with
            | .error e => .error e
            | .ok (_, rest2) =>
              match readN 2 rest2 with
              | .error e => .error e
              | .ok (crlf, rest3) => if crlf = [13, 10] then .ok (T.rBulk, rest3) else .error .invalid
      | 42 :: lenBytes =>                                    -- '*'
        match parseLen lenBytes with
        | .error e => .error e
        | .ok n =>
          if n < 0 then .ok (T.cUnknown, rest1)              -- `return codec.UNKNOWN, err` with err = nil
          else match readReplies T fuel n.toNat rest1 with
            | .error e => .error e
            | .ok rest2 => .ok (T.rMultibulk, rest2)
      | _ => .error .invalid
/-- the element loop of an array reply -/
def readReplies (T : Tables) : Nat → Nat → Bytes → Except RErr Bytes
  | 0, _, _ => .error .fuel
  | _ + 1, 0, rest => .ok rest
  | fuel + 1, n + 1, rest =>
    match readReply T fuel rest with
    | .error e => .error e
    | .ok (_, rest1) => readReplies T fuel n rest1
end

/-- outcome of `SRespCodec.Decode` as `eventloop.sread` distinguishes it -/
inductive SOut
  | incomplete                     -- break Loop: wait for more bytes
  | stuck                          -- ErrInvalidResp: the real loop `continue`s without consuming (spins)
  | ok (rtype : Nat) (consumed : Nat)
  deriving Repr, DecidableEq

def frameReply (T : Tables) (view : Bytes) : SOut :=
  if view.length < 1 then .incomplete else
  match readReply T (view.length * 2 + 4) view with
  | .error .invalid => .stuck
  | .error _ => .incomplete
  | .ok (ty, rest) => .ok ty (view.length - rest.length)

/-- `InitializingDecode` with `steps` expected `+OK`: how many bytes to swallow, or wait, or fall through -/
inductive InitOut
  | incomplete | done (swallow : Nat) | fallThrough | invalidInit
  deriving Repr, DecidableEq

def okLine : Bytes := [43, 79, 75, 13, 10]

def initializingDecode (steps : Nat) (view : Bytes) : InitOut :=
  if view.length < 1 then .incomplete
  else if steps < 1 ∨ steps > 2 then .invalidInit
  else
    let shortcut := (List.replicate steps okLine).flatten
    if view.length ≥ steps * 5 ∧ isPrefix shortcut view then .done (steps * 5)
    else match view with
      | b :: _ =>
        if b ≠ 45 ∧ b ≠ 43 then .invalidInit
        else if isPrefix view shortcut then .incomplete
        else .fallThrough
      | [] => .incomplete

def splitOn (c : UInt8) : Bytes → List Bytes
  | [] => [[]]
  | x :: xs =>
    match splitOn c xs with
    | [] => [[]]
    | h :: t => if x = c then [] :: h :: t else (x :: h) :: t

/-- `Frag.parseMovedOrAsk`: the address a redirect names ("" when the reply is too short) -/
def parseMovedOrAsk (T : Tables) (rtype : Nat) (body : Bytes) : Bytes :=
  if body.length < 10 then []
  else
    let i := if rtype = T.rMoved then 7 else if rtype = T.rAsk then 5 else 0
    if i = 0 then []
    else match splitOn 32 ((body.take (body.length - 2)).drop i) with
      | _ :: addr :: _ => addr
      | _ => []

end RcVerif.SDecode
