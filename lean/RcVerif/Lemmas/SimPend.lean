import RcVerif.Props.C13
import RcVerif.Props.C16
/-
  "No orphan": the invariant behind C15. In every reachable state inside the modelled domain, every unanswered
  fragment of every uncompleted request sits in the awaiting-reply or pending-write queue of an OPEN redis
  connection - so a reply, a redirect, a close of that connection or a timeout will reach it; nothing is left
  referenced by no queue. Proved preserved by every `Sim.step`.
-/
namespace RcVerif.Lemmas.SimPend
open RcVerif RcVerif.Sim RcVerif.Merge RcVerif.Lemmas.SimInv RcVerif.Lemmas.SimBack
open RcVerif.Props.C13 (getFrag_setFrag)
open RcVerif.Props.C03 (msgs_flushClient msgs_deliver msgs_updReq_other)
open RcVerif.Props.C16 (getFrag_done_of_all)

/-- the fragment of `slot` exists and still waits for its reply -/
def Undone (m : MMsg) (slot : Nat) : Prop := ∃ f, getFrag m slot = some f ∧ f.done = false

theorem getFrag_setFrag_other (m : MMsg) (slot slot' : Nat) (g : MFrag → MFrag) (hg : ∀ x, (g x).slot = x.slot)
    (hne : slot' ≠ slot) : getFrag (setFrag m slot g) slot' = getFrag m slot' := by
  unfold getFrag setFrag
  dsimp only
  induction m.frags with
  | nil => rfl
  | cons x xs ih =>
    simp only [List.map_cons, List.find?_cons]
    by_cases hx : x.slot = slot
    · have hne' : ¬ slot = slot' := fun h => hne h.symm
      simp [hx, hg, hne', ih]
    · simp only [hx, ↓reduceIte]
      by_cases hx' : x.slot = slot'
      · simp [hx']
      · simp [hx', ih]

/-- marking the fragment of `slot` done: what is still undone afterwards was undone before and is another slot -/
theorem undone_setFrag_done (m : MMsg) (slot slot' : Nat) (g : MFrag → MFrag) (h : Undone (setFrag m slot g) slot')
    (hg : ∀ x, (g x).slot = x.slot) (hd : ∀ x, (g x).done = true) : slot' ≠ slot ∧ Undone m slot' := by
  obtain ⟨f, hf, hnd⟩ := h
  by_cases hs : slot' = slot
  · subst hs
    rw [getFrag_setFrag m slot' g hg] at hf
    cases hm : getFrag m slot' with
    | none => rw [hm] at hf; simp at hf
    | some f0 => rw [hm] at hf; simp at hf; subst hf; rw [hd] at hnd; simp at hnd
  · rw [getFrag_setFrag_other m slot slot' g hg hs] at hf
    exact ⟨hs, f, hf, hnd⟩

/-- an update of the fragment of `slot` that keeps its `done` flag -/
theorem undone_setFrag_keep (m : MMsg) (slot slot' : Nat) (g : MFrag → MFrag) (hg : ∀ x, (g x).slot = x.slot)
    (hd : ∀ x, (g x).done = x.done) : Undone (setFrag m slot g) slot' ↔ Undone m slot' := by
  unfold Undone
  by_cases hs : slot' = slot
  · subst hs
    rw [getFrag_setFrag m slot' g hg]
    cases hm : getFrag m slot' with
    | none => simp
    | some f0 => simp [hd]
  · rw [getFrag_setFrag_other m slot slot' g hg hs]

theorem undone_congr (m m' : MMsg) (h : m'.frags = m.frags) (slot : Nat) : Undone m' slot ↔ Undone m slot := by
  unfold Undone getFrag; rw [h]

/-- what a reply does to the set of unanswered fragments -/
def ReplySpec (m : MMsg) (slot : Nat) (res : MMsg × Signal) : Prop :=
  (res.2 = .ready → res.1.done = true) ∧
  (res.2 = .waiting → ∀ slot', Undone res.1 slot' → slot' ≠ slot ∧ Undone m slot') ∧
  (res.2 = .dropped → res.1 = m ∧ ¬ Undone m slot) ∧
  (res.2 = .redirect → res.1.done = m.done ∧ ∀ slot', Undone res.1 slot' → Undone m slot')

theorem spec_failWith (m0 m : MMsg) (slot : Nat) (e : Bytes) : ReplySpec m0 slot (failWith m e) := by
  refine ⟨fun _ => rfl, ?_, ?_, ?_⟩ <;> intro h <;> simp [failWith] at h

theorem spec_mergeMGet (K : Merge.Consts) (slotFn : Bytes → Nat) (limit : Nat) (m0 m : MMsg) (slot rtype : Nat) (body : Bytes)
    (h0 : ∀ slot', Undone m slot' → Undone m0 slot') :
    ReplySpec m0 slot (mergeMGet K slotFn limit m slot rtype body) := by
  unfold mergeMGet
  split
  · refine ⟨?_, ?_, ?_, ?_⟩ <;> intro h <;> simp at h
  · dsimp only
    split
    · exact spec_failWith m0 _ slot _
    · split
      · refine ⟨?_, ?_, ?_, ?_⟩ <;> intro h <;> simp at h
        intro slot' hu
        obtain ⟨h1, h2⟩ := undone_setFrag_done m slot slot' _ hu (fun _ => rfl) (fun _ => rfl)
        exact ⟨h1, h0 slot' h2⟩
      · split
        · refine ⟨?_, ?_, ?_, ?_⟩ <;> intro h <;> simp at h
        · split
          · refine ⟨fun _ => rfl, ?_, ?_, ?_⟩ <;> intro h <;> simp at h
          · refine ⟨fun _ => rfl, ?_, ?_, ?_⟩ <;> intro h <;> simp at h

theorem spec_mergeMSet (T : Tables) (K : Merge.Consts) (m0 m : MMsg) (slot rtype : Nat)
    (h0 : ∀ slot', Undone m slot' → Undone m0 slot') :
    ReplySpec m0 slot (mergeMSet T K m slot rtype) := by
  unfold mergeMSet
  dsimp only
  split
  · refine ⟨?_, ?_, ?_, ?_⟩ <;> intro h <;> simp at h
    intro slot' hu
    obtain ⟨h1, h2⟩ := undone_setFrag_done m slot slot' _ hu (fun _ => rfl) (fun _ => rfl)
    exact ⟨h1, h0 slot' h2⟩
  · split
    · refine ⟨fun _ => rfl, ?_, ?_, ?_⟩ <;> intro h <;> simp at h
    · refine ⟨fun _ => rfl, ?_, ?_, ?_⟩ <;> intro h <;> simp at h

theorem spec_mergeDel (m0 m : MMsg) (slot rtype : Nat) (body : Bytes)
    (h0 : ∀ slot', Undone m slot' → Undone m0 slot') :
    ReplySpec m0 slot (mergeDel m slot rtype body) := by
  have core : ∀ n : Int, ReplySpec m0 slot
      (if (setFrag { m with delNum := m.delNum + n } slot (fun x => { x with done := true, rtype := rtype })).fragDone <
          (setFrag { m with delNum := m.delNum + n } slot (fun x => { x with done := true, rtype := rtype })).frags.length
       then (setFrag { m with delNum := m.delNum + n } slot (fun x => { x with done := true, rtype := rtype }), .waiting)
       else ({ (setFrag { m with delNum := m.delNum + n } slot (fun x => { x with done := true, rtype := rtype })) with
                done := true, rspBody := [58] ++ itoaInt (setFrag { m with delNum := m.delNum + n } slot (fun x => { x with done := true, rtype := rtype })).delNum ++ [13, 10] }, .ready)) := by
    intro n
    split
    · refine ⟨?_, ?_, ?_, ?_⟩ <;> intro h <;> simp at h
      intro slot' hu
      obtain ⟨h1, h2⟩ := undone_setFrag_done { m with delNum := m.delNum + n } slot slot' _ hu (fun _ => rfl) (fun _ => rfl)
      exact ⟨h1, h0 slot' ((undone_congr m _ rfl slot').mp h2)⟩
    · refine ⟨fun _ => rfl, ?_, ?_, ?_⟩ <;> intro h <;> simp at h
  unfold mergeDel
  exact core _

theorem spec_mergeDefault (m0 m : MMsg) (slot rtype : Nat) (body : Bytes) :
    ReplySpec m0 slot (mergeDefault m slot rtype body) := by
  unfold mergeDefault
  refine ⟨fun _ => rfl, ?_, ?_, ?_⟩ <;> intro h <;> simp at h

theorem spec_tail (T : Tables) (K : Merge.Consts) (slotFn : Bytes → Nat) (limit : Nat) (m : MMsg) (slot rtype : Nat)
    (body : Bytes) (e1 : Bytes) : ReplySpec m slot
      (if e1 ≠ [] then failWith (setFrag (bump m) slot (fun x => { x with err := e1, rtype := rtype })) e1
       else if m.type = T.cMget then mergeMGet K slotFn limit (bump m) slot rtype body
       else if m.type = T.cMset then mergeMSet T K (bump m) slot rtype
       else if m.type = T.cDel then mergeDel (bump m) slot rtype body
       else mergeDefault (bump m) slot rtype body) := by
  have hb : ∀ slot', Undone (bump m) slot' → Undone m slot' := fun slot' h => (undone_congr m (bump m) rfl slot').mp h
  split
  · exact spec_failWith m _ slot _
  · split
    · exact spec_mergeMGet K slotFn limit m (bump m) slot rtype body hb
    · split
      · exact spec_mergeMSet T K m (bump m) slot rtype hb
      · split
        · exact spec_mergeDel m (bump m) slot rtype body hb
        · exact spec_mergeDefault m (bump m) slot rtype body

theorem spec_onReply (T : Tables) (K : Merge.Consts) (slotFn : Bytes → Nat) (limit : Nat) (m : MMsg) (slot rtype : Nat)
    (body : Bytes) : ReplySpec m slot (onReply T K slotFn limit m slot rtype body) := by
  unfold onReply
  split
  · refine ⟨?_, ?_, ?_, ?_⟩ <;> intro h <;> simp at h
  · rename_i f hf
    split
    · rename_i hd
      refine ⟨?_, ?_, ?_, ?_⟩ <;> intro h <;> simp at h
      refine ⟨rfl, ?_⟩
      rintro ⟨f', hf', hnd⟩
      rw [hf] at hf'; injection hf' with hf'; subst hf'
      rw [hd] at hnd; simp at hnd
    · split
      · refine ⟨?_, ?_, ?_, ?_⟩ <;> intro h <;> simp at h
        refine ⟨rfl, fun slot' hu => ?_⟩
        exact (undone_setFrag_keep m slot slot' (fun x => { x with rtype := rtype }) (fun _ => rfl) (fun _ => rfl)).mp hu
      · exact spec_tail T K slotFn limit m slot rtype body _


/-! ### pending fragments -/

/-- the fragment is in the awaiting-reply or pending-write queue of an open connection -/
def Pending (s : State) (f : FragRef) : Prop :=
  ∃ (i : Nat) (b : Backend), s.backends[i]? = some b ∧ b.opened = true ∧ f ∈ b.inQ ++ b.outQ.map (·.ref)

/-- no orphan (except possibly the fragment `ex`, which is being processed) -/
def NoOrphanX (s : State) (ex : Option (Nat × Nat)) : Prop :=
  ∀ (mi : Nat) (r : Req), s.msgs[mi]? = some r → r.m.done = false →
    ∀ slot, Undone r.m slot → ex ≠ some (mi, slot) → Pending s (.frag mi slot)

abbrev NoOrphan (s : State) : Prop := NoOrphanX s none

/-- requests only get "more done", pending fragments stay pending -/
structure Keep (s s' : State) : Prop where
  msgs : ∀ (mi : Nat) (r' : Req), s'.msgs[mi]? = some r' → r'.m.done = false →
    ∃ r, s.msgs[mi]? = some r ∧ r.m.done = false ∧ ∀ slot, Undone r'.m slot → Undone r.m slot
  pend : ∀ mi slot, Pending s (.frag mi slot) → Pending s' (.frag mi slot)

theorem Keep.refl (s : State) : Keep s s := ⟨fun _ r' h hd => ⟨r', h, hd, fun _ hu => hu⟩, fun _ _ h => h⟩
theorem Keep.trans {a b c : State} (h1 : Keep a b) (h2 : Keep b c) : Keep a c := by
  refine ⟨fun mi r'' h hd => ?_, fun mi slot h => h2.pend mi slot (h1.pend mi slot h)⟩
  obtain ⟨r', hr', hd', hu'⟩ := h2.msgs mi r'' h hd
  obtain ⟨r, hr, hd0, hu⟩ := h1.msgs mi r' hr' hd'
  exact ⟨r, hr, hd0, fun slot h => hu slot (hu' slot h)⟩

theorem noOrphanX_keep (s s' : State) (ex : Option (Nat × Nat)) (hk : Keep s s') (h : NoOrphanX s ex) : NoOrphanX s' ex := by
  intro mi r' hr' hd' slot hu hex
  obtain ⟨r, hr, hd, hu0⟩ := hk.msgs mi r' hr' hd'
  exact hk.pend mi slot (h mi r hr hd slot (hu0 slot hu) hex)

theorem keep_of_eq (s s' : State) (hm : s'.msgs = s.msgs) (hb : s'.backends = s.backends) : Keep s s' := by
  refine ⟨fun mi r' h hd => ⟨r', by rw [← hm]; exact h, hd, fun _ hu => hu⟩, fun mi slot h => ?_⟩
  obtain ⟨i, b, h1, h2, h3⟩ := h
  exact ⟨i, b, by rw [hb]; exact h1, h2, h3⟩

theorem keep_of_msgs (s s' : State) (hm : s'.msgs = s.msgs) (hp : ∀ mi slot, Pending s (.frag mi slot) → Pending s' (.frag mi slot)) :
    Keep s s' :=
  ⟨fun mi r' h hd => ⟨r', by rw [← hm]; exact h, hd, fun _ hu => hu⟩, hp⟩

theorem keep_fail (s : State) (w : String) : Keep s (s.fail w) := keep_of_eq _ _ (same_fail s w).2 (bsame_fail s w)
theorem keep_updClient (s : State) (c : Nat) (f : Client → Client) : Keep s (s.updClient c f) := keep_of_eq _ _ rfl rfl
theorem keep_closeClient (s : State) (c : Nat) : Keep s (closeClient s c) := keep_of_eq _ _ rfl rfl
theorem keep_flushClient (s : State) (c : Nat) : Keep s (flushClient s c) := keep_of_eq _ _ (msgs_flushClient s c) (bsame_flushClient s c)
theorem keep_deliver (s : State) (c : Nat) : Keep s (deliver s c) := keep_of_eq _ _ (msgs_deliver s c) (bsame_deliver s c)
theorem keep_dropTimeout (s : State) (f : FragRef) : Keep s (dropTimeout s f) := keep_of_eq _ _ rfl rfl

/-- appending a completed request -/
theorem keep_appendDone (s : State) (r : Req) (hd : r.m.done = true) : Keep s { s with msgs := s.msgs ++ [r] } := by
  refine ⟨fun mi r' h hd' => ?_, fun mi slot h => h⟩
  have h' : (s.msgs ++ [r])[mi]? = some r' := h
  rw [getElem?_append_new] at h'
  split at h'
  · exact ⟨r', h', hd', fun _ hu => hu⟩
  · split at h'
    · injection h' with h'; subst h'; rw [hd] at hd'; simp at hd'
    · simp at h'

theorem keep_answerLocal (s : State) (c : Nat) (m : MMsg) (out : Bytes) : Keep s (answerLocal s c m out) := by
  unfold answerLocal
  split
  · exact Keep.refl s
  · dsimp only
    split
    · exact keep_updClient s c _
    · refine Keep.trans ?_ (keep_updClient _ c _)
      exact keep_appendDone s _ rfl

/-- an update of one request that only completes things -/
theorem keep_updReq (s : State) (mi : Nat) (f : Req → Req)
    (hf : ∀ r, s.msgs[mi]? = some r → (f r).m.done = false → r.m.done = false ∧ ∀ slot, Undone (f r).m slot → Undone r.m slot) :
    Keep s (s.updReq mi f) := by
  refine ⟨fun mj r' h hd => ?_, fun _ _ h => h⟩
  have h' : (setAt s.msgs mi f)[mj]? = some r' := h
  rw [getElem?_setAt] at h'
  cases hr : s.msgs[mj]? with
  | none => rw [hr] at h'; simp at h'
  | some r =>
    rw [hr] at h'
    simp only [Option.map_some] at h'
    split at h'
    · rename_i hmj
      subst hmj
      injection h' with h'; subst h'
      obtain ⟨h1, h2⟩ := hf r hr hd
      exact ⟨r, rfl, h1, h2⟩
    · injection h' with h'; subst h'
      exact ⟨r, rfl, hd, fun _ hu => hu⟩

theorem pending_mono (s s' : State) (f : FragRef)
    (h : ∀ (i : Nat) (b : Backend), s.backends[i]? = some b → b.opened = true → ∃ b', s'.backends[i]? = some b' ∧ b'.opened = true ∧
      ∀ x, x ∈ b.inQ ++ b.outQ.map (·.ref) → x ∈ b'.inQ ++ b'.outQ.map (·.ref))
    (hp : Pending s f) : Pending s' f := by
  obtain ⟨i, b, h1, h2, h3⟩ := hp
  obtain ⟨b', h1', h2', h3'⟩ := h i b h1 h2
  exact ⟨i, b', h1', h2', h3' f h3⟩

/-- an update of one connection that keeps it open and loses nothing from its queues -/
theorem keep_updBackend (s : State) (b : Nat) (f : Backend → Backend)
    (hf : ∀ x, x.opened = true → (f x).opened = true ∧ ∀ y, y ∈ x.inQ ++ x.outQ.map (·.ref) → y ∈ (f x).inQ ++ (f x).outQ.map (·.ref)) :
    Keep s (s.updBackend b f) := by
  refine keep_of_msgs s (s.updBackend b f) rfl ?_
  intro mi slot
  apply pending_mono
  intro i x hx ho
  by_cases hib : i = b
  · subst hib
    exact ⟨f x, backend_upd_same s i f x hx, (hf x ho).1, (hf x ho).2⟩
  · exact ⟨x, by rw [backend_upd_other s b i f hib]; exact hx, ho, fun _ h => h⟩

theorem keep_enqueueOut (s : State) (b : Nat) (e : QEntry) : Keep s (enqueueOut s b e) := by
  unfold enqueueOut
  refine Keep.trans (b := s.updBackend b (fun x => { x with outQ := x.outQ ++ [e], enq := x.enq ++ [e] }))
    (keep_updBackend s b _ (fun x ho => ⟨ho, fun y hy => ?_⟩)) (keep_of_eq _ _ rfl rfl)
  simp only [List.map_append, List.mem_append] at hy ⊢
  rcases hy with h | h
  · exact Or.inl h
  · exact Or.inr (Or.inl h)

theorem keep_appendBackend (s : State) (x : Backend) (ps : List Pool) : Keep s { s with backends := s.backends ++ [x], pools := ps } := by
  refine keep_of_msgs s _ rfl ?_
  intro mi slot
  apply pending_mono
  intro i b hb ho
  refine ⟨b, ?_, ho, fun _ h => h⟩
  show (s.backends ++ [x])[i]? = some b
  rw [getElem?_append_new]
  obtain ⟨hlt, _⟩ := List.getElem?_eq_some_iff.mp hb
  rw [if_pos hlt]; exact hb

theorem keep_dial (S : Strs) (cfg : Cfg) (s : State) (p : Nat) : Keep s (dial S cfg s p).1 := by
  unfold dial
  split
  · exact keep_fail s _
  · exact keep_appendBackend s _ _

theorem keep_poolGet (S : Strs) (cfg : Cfg) (s : State) (p : Nat) : Keep s (poolGet S cfg s p).1 := by
  unfold poolGet
  split
  · exact keep_fail s _
  · split
    · exact keep_dial S cfg s p
    · split
      · exact keep_of_eq _ _ rfl rfl
      · refine Keep.trans ?_ (keep_dial S cfg _ p)
        exact keep_of_eq _ _ rfl rfl

theorem keep_writeSignal (S : Strs) (cfg : Cfg) (s : State) (b : Nat) : Keep s (writeSignal S cfg s b) := by
  unfold writeSignal
  split
  · exact Keep.refl s
  · dsimp only
    split
    · exact Keep.refl s
    · refine Keep.trans ?_ (keep_of_eq (s.updBackend b _) _ rfl rfl)
      apply keep_updBackend
      intro x ho
      refine ⟨ho, fun y hy => ?_⟩
      simp only [List.map_nil, List.append_nil, List.mem_append] at hy ⊢
      exact hy


/-- open connections stay open -/
def OpenMono (s s' : State) : Prop :=
  ∀ (i : Nat) (b : Backend), s.backends[i]? = some b → b.opened = true → ∃ b', s'.backends[i]? = some b' ∧ b'.opened = true

theorem OpenMono.refl (s : State) : OpenMono s s := fun _ b h ho => ⟨b, h, ho⟩
theorem OpenMono.trans {a b c : State} (h1 : OpenMono a b) (h2 : OpenMono b c) : OpenMono a c := by
  intro i x hx ho
  obtain ⟨x', hx', ho'⟩ := h1 i x hx ho
  exact h2 i x' hx' ho'
theorem openMono_of_bsame (s s' : State) (h : BSame s s') : OpenMono s s' := by
  intro i b hb ho; exact ⟨b, by rw [h]; exact hb, ho⟩

theorem openMono_updBackend (s : State) (b : Nat) (f : Backend → Backend) (hf : ∀ x, x.opened = true → (f x).opened = true) :
    OpenMono s (s.updBackend b f) := by
  intro i x hx ho
  by_cases hib : i = b
  · subst hib; exact ⟨f x, backend_upd_same s i f x hx, hf x ho⟩
  · exact ⟨x, by rw [backend_upd_other s b i f hib]; exact hx, ho⟩

theorem openMono_enqueueOut (s : State) (b : Nat) (e : QEntry) : OpenMono s (enqueueOut s b e) := by
  unfold enqueueOut
  refine OpenMono.trans ?_ (openMono_of_bsame (s.updBackend b _) _ rfl)
  exact openMono_updBackend s b _ (fun _ h => h)

theorem openMono_dial (S : Strs) (cfg : Cfg) (s : State) (p : Nat) : OpenMono s (dial S cfg s p).1 := by
  unfold dial
  split
  · exact openMono_of_bsame _ _ (bsame_fail s _)
  · intro i b hb ho
    refine ⟨b, ?_, ho⟩
    show (s.backends ++ [_])[i]? = some b
    rw [getElem?_append_new]
    obtain ⟨hlt, _⟩ := List.getElem?_eq_some_iff.mp hb
    rw [if_pos hlt]; exact hb

theorem openMono_poolGet (S : Strs) (cfg : Cfg) (s : State) (p : Nat) : OpenMono s (poolGet S cfg s p).1 := by
  unfold poolGet
  split
  · exact openMono_of_bsame _ _ (bsame_fail s _)
  · split
    · exact openMono_dial S cfg s p
    · split
      · exact openMono_of_bsame _ _ rfl
      · refine OpenMono.trans ?_ (openMono_dial S cfg _ p)
        exact openMono_of_bsame _ _ rfl

theorem findPool_some (pools : List Pool) (addr : Bytes) (p : Nat) (h : findPool pools addr = some p) :
    ∃ pool, pools[p]? = some pool := by
  unfold findPool at h
  have := List.findIdx?_eq_some_iff_getElem.mp h
  obtain ⟨hlt, _⟩ := this
  exact ⟨pools[p], by simp [hlt]⟩

/-- `resolve`: nothing is lost, and every target it hands out is an open connection -/
theorem resolve_spec (T : Tables) (S : Strs) (cfg : Cfg) (ty : Nat) (s : State) (vs : List (Nat × Bytes)) (acc : List (Nat × Nat))
    (hacc : ∀ t ∈ acc, ∃ b, s.backends[t.2]? = some b ∧ b.opened = true) :
    Keep s (resolve T S cfg ty s vs acc).1 ∧
    ∀ t ∈ (resolve T S cfg ty s vs acc).2.1, ∃ b, (resolve T S cfg ty s vs acc).1.backends[t.2]? = some b ∧ b.opened = true := by
  induction vs generalizing s acc with
  | nil => exact ⟨Keep.refl s, hacc⟩
  | cons v vs ih =>
    obtain ⟨slot, addr⟩ := v
    unfold resolve
    split
    · exact ⟨Keep.refl s, hacc⟩
    · split
      · refine ⟨keep_fail s _, fun t ht => ?_⟩
        obtain ⟨b, hb, ho⟩ := hacc t ht
        exact ⟨b, by rw [bsame_fail s _]; exact hb, ho⟩
      · split
        · exact ⟨Keep.refl s, hacc⟩
        · split
          · exact ⟨Keep.refl s, hacc⟩
          · rename_i p hp
            obtain ⟨pool, hpool⟩ := findPool_some s.pools addr p hp
            have hopen := RcVerif.Props.C13.poolGet_open S cfg s p pool hpool
            have hmono := openMono_poolGet S cfg s p
            have hacc' : ∀ t ∈ acc ++ [(slot, (poolGet S cfg s p).2)], ∃ b, (poolGet S cfg s p).1.backends[t.2]? = some b ∧ b.opened = true := by
              intro t ht
              rcases List.mem_append.mp ht with h | h
              · obtain ⟨b, hb, ho⟩ := hacc t h
                exact hmono t.2 b hb ho
              · simp at h; subst h; exact hopen
            obtain ⟨hk, ht⟩ := ih (poolGet S cfg s p).1 (acc ++ [(slot, (poolGet S cfg s p).2)]) hacc'
            exact ⟨Keep.trans (keep_poolGet S cfg s p) hk, ht⟩

theorem pending_enqueueOut (s : State) (b : Nat) (e : QEntry) (x : Backend) (hx : s.backends[b]? = some x) (ho : x.opened = true) :
    Pending (enqueueOut s b e) e.ref := by
  refine ⟨b, _, backend_upd_same s b _ x hx, ho, ?_⟩
  simp

theorem foldl_enqueue_pending (targets : List (Nat × Nat)) (g : Nat × Nat → QEntry) (s : State)
    (hg : ∀ t, ∃ mi slot, (g t).ref = .frag mi slot)
    (hopen : ∀ t ∈ targets, ∃ b, s.backends[t.2]? = some b ∧ b.opened = true) :
    Keep s (targets.foldl (fun st t => enqueueOut st t.2 (g t)) s) ∧
    ∀ t ∈ targets, Pending (targets.foldl (fun st t => enqueueOut st t.2 (g t)) s) (g t).ref := by
  induction targets generalizing s with
  | nil => exact ⟨Keep.refl s, by simp⟩
  | cons t ts ih =>
    rw [List.foldl_cons]
    have hopen' : ∀ t' ∈ ts, ∃ b, (enqueueOut s t.2 (g t)).backends[t'.2]? = some b ∧ b.opened = true := by
      intro t' ht'
      obtain ⟨b, hb, ho⟩ := hopen t' (List.mem_cons_of_mem _ ht')
      exact openMono_enqueueOut s t.2 (g t) t'.2 b hb ho
    obtain ⟨hk, hp⟩ := ih (enqueueOut s t.2 (g t)) hopen'
    refine ⟨Keep.trans (keep_enqueueOut s t.2 (g t)) hk, fun t' ht' => ?_⟩
    rcases List.mem_cons.mp ht' with h | h
    · subst h
      obtain ⟨b, hb, ho⟩ := hopen t' List.mem_cons_self
      obtain ⟨mi, slot, href⟩ := hg t'
      rw [href]
      apply hk.pend
      rw [← href]
      exact pending_enqueueOut s t'.2 (g t') b hb ho
    · exact hp t' h


theorem acceptReq_msgs (s : State) (c : Nat) (m : MMsg) :
    (acceptReq s c m).2 = s.msgs.length ∧
    ((acceptReq s c m).1.msgs = s.msgs ∨
     ∃ o n, (acceptReq s c m).1.msgs = s.msgs ++ [{ owner := o, num := n, m := { m with done := false } }]) := by
  unfold acceptReq
  dsimp only
  split
  · exact ⟨rfl, Or.inl rfl⟩
  · exact ⟨rfl, Or.inr ⟨_, _, rfl⟩⟩

theorem getFrag_mem (m : MMsg) (slot : Nat) (f : MFrag) (h : getFrag m slot = some f) : f ∈ m.frags ∧ f.slot = slot := by
  unfold getFrag at h
  exact ⟨List.mem_of_find?_eq_some h, by simpa using List.find?_some h⟩

/-- a flagged state is outside the modelled domain; otherwise no fragment is orphaned -/
def GoodP (s : State) : Prop := s.flag.isSome = true ∨ NoOrphan s

theorem noOrphan_forward (T : Tables) (S : Strs) (cfg : Cfg) (s : State) (c : Nat) (cm : CDecode.CMsg) (ch : ReqChoice)
    (h : NoOrphan s) : NoOrphan (forward T S cfg s c cm ch) := by
  unfold forward
  dsimp only
  split
  · exact noOrphanX_keep _ _ none (keep_fail s _) h
  · obtain ⟨hk, hopen⟩ := resolve_spec T S cfg cm.type s ch.visit [] (by simp)
    generalize resolve T S cfg cm.type s ch.visit [] = res at hk hopen
    obtain ⟨s1, targets, rej⟩ := res
    simp only at hk hopen
    have h1 : NoOrphan s1 := noOrphanX_keep _ _ none hk h
    cases rej with
    | some e => exact noOrphanX_keep _ _ none (keep_answerLocal s1 c _ _) h1
    | none =>
      simp only
      split
      · exact h1
      · split
        · exact noOrphanX_keep _ _ none (keep_fail s1 _) h1
        · generalize hm : ({ ofCMsg cm with frags := targets.filterMap (fun t => getFrag (ofCMsg cm) t.1) } : MMsg) = m'
          obtain ⟨hid, hmsgs⟩ := acceptReq_msgs s1 c m'
          have hb2 := bsame_acceptReq s1 c m'
          generalize acceptReq s1 c m' = acc at hid hmsgs hb2
          obtain ⟨s2, id⟩ := acc
          simp only at hid hmsgs hb2 ⊢
          generalize hnum : ((s1.client c).map (·.decoded)).getD 0 = num
          show NoOrphan (targets.foldl (fun st t => enqueueOut st t.2 (fwdEntry cm c id num t)) s2)
          have hopen2 : ∀ t ∈ targets, ∃ b, s2.backends[t.2]? = some b ∧ b.opened = true := by
            intro t ht; rw [hb2]; exact hopen t ht
          obtain ⟨hkf, hpf⟩ := foldl_enqueue_pending targets (fwdEntry cm c id num) s2 (fun t => ⟨id, t.1, rfl⟩) hopen2
          have hsf := foldl_enqueue_same targets (fwdEntry cm c id num) s2
          intro mi r0 hr0 hd0 slot hu _
          rw [hsf.2] at hr0
          -- an old request, or the new one
          have hold : ∀ r, s1.msgs[mi]? = some r → r = r0 → Pending (targets.foldl (fun st t => enqueueOut st t.2 (fwdEntry cm c id num t)) s2) (.frag mi slot) := by
            intro r hr he
            subst he
            have hp1 := h1 mi r hr hd0 slot hu (by simp)
            apply hkf.pend
            obtain ⟨i, b, hb, ho, hmem⟩ := hp1
            exact ⟨i, b, by rw [hb2]; exact hb, ho, hmem⟩
          rcases hmsgs with hms | ⟨o, n, hms⟩
          · rw [hms] at hr0; exact hold r0 hr0 rfl
          · rw [hms, getElem?_append_new] at hr0
            split at hr0
            · exact hold r0 hr0 rfl
            · split at hr0
              · rename_i hmi
                injection hr0 with hr0
                subst hr0
                obtain ⟨f, hf, _⟩ := hu
                obtain ⟨hmem, hslot⟩ := getFrag_mem _ slot f hf
                rw [← hm] at hmem
                simp only [List.mem_filterMap] at hmem
                obtain ⟨t, ht, hgt⟩ := hmem
                have hts : t.1 = slot := by rw [← (getFrag_mem _ t.1 f hgt).2, hslot]
                have := hpf t ht
                rw [hmi, ← hid, ← hts]
                exact this
              · simp at hr0


theorem noOrphan_onRequest (T : Tables) (S : Strs) (cfg : Cfg) (s : State) (c : Nat) (cm : CDecode.CMsg) (ch : ReqChoice)
    (h : NoOrphan s) : NoOrphan (onRequest T S cfg s c cm ch).1 := by
  unfold onRequest
  split
  · exact noOrphanX_keep _ _ none (keep_answerLocal s c _ _) h
  · exact noOrphan_forward T S cfg s c cm ch h

theorem noOrphan_creadLoop (T : Tables) (S : Strs) (cfg : Cfg) (slotFn : Bytes → Nat) (fuel : Nat) :
    ∀ (s : State) (c : Nat) (view : Bytes) (chs : List ReqChoice), NoOrphan s →
      NoOrphan (creadLoop T S cfg slotFn fuel s c view chs) := by
  induction fuel with
  | zero => intro s c view chs h; exact h
  | succ fuel ih =>
    intro s c view chs h
    unfold creadLoop
    split
    · exact noOrphanX_keep _ _ none (keep_closeClient s c) h
    · exact noOrphanX_keep _ _ none (keep_fail s _) h
    · exact noOrphanX_keep _ _ none (keep_updClient s c _) h
    · rename_i cm n _
      dsimp only
      have hg := noOrphan_onRequest T S cfg s c cm
        (if (localAnswer T S cfg cm).isNone = true then (chs.head?.getD { visit := [] }, chs.tail) else ({ visit := [] }, chs)).1 h
      generalize onRequest T S cfg s c cm
        (if (localAnswer T S cfg cm).isNone = true then (chs.head?.getD { visit := [] }, chs.tail) else ({ visit := [] }, chs)).1 = res at hg
      obtain ⟨s1, quit⟩ := res
      simp only at hg ⊢
      split
      · exact hg
      · split
        · split
          · split
            · exact noOrphanX_keep _ _ none (keep_closeClient s1 c) hg
            · exact noOrphanX_keep _ _ none (keep_updClient s1 c _) hg
          · exact hg
        · split
          · split
            · exact hg
            · exact ih s1 c _ _ hg
          · exact hg

theorem noOrphan_clientBytes (T : Tables) (S : Strs) (cfg : Cfg) (slotFn : Bytes → Nat) (s : State) (c : Nat)
    (chunk : Bytes) (chs : List ReqChoice) (h : NoOrphan s) : NoOrphan (clientBytes T S cfg slotFn s c chunk chs) := by
  unfold clientBytes
  split
  · exact h
  · split
    · exact h
    · exact noOrphan_creadLoop T S cfg slotFn _ _ c _ chs (noOrphanX_keep _ _ none (keep_updClient s c _) h)

/-- the excepted fragment is not unanswered any more: the exception can be dropped -/
theorem noOrphan_of_x (s : State) (mi slot : Nat) (h : NoOrphanX s (some (mi, slot)))
    (hx : ∀ r, s.msgs[mi]? = some r → r.m.done = false → ¬ Undone r.m slot) : NoOrphan s := by
  intro mj r hr hd slot' hu _
  by_cases he : (mj, slot') = (mi, slot)
  · injection he with h1 h2; subst h1; subst h2
    exact absurd hu (hx r hr hd)
  · exact h mj r hr hd slot' hu (fun e => he (by injection e with e; exact e.symm))

/-- the excepted fragment is pending again -/
theorem noOrphan_of_x_pending (s : State) (mi slot : Nat) (h : NoOrphanX s (some (mi, slot)))
    (hp : Pending s (.frag mi slot)) : NoOrphan s := by
  intro mj r hr hd slot' hu _
  by_cases he : (mj, slot') = (mi, slot)
  · injection he with h1 h2; subst h1; subst h2; exact hp
  · exact h mj r hr hd slot' hu (fun e => he (by injection e with e; exact e.symm))

theorem goodP_onMoved (S : Strs) (cfg : Cfg) (s : State) (mi slot : Nat) (isAsk : Bool) (addr : Bytes)
    (h : NoOrphanX s (some (mi, slot))) : GoodP (onMoved S cfg s mi slot isAsk addr) := by
  unfold onMoved State.req
  cases hr : s.msgs[mi]? with
  | none => exact Or.inl (fail_flag s _)
  | some r =>
    dsimp only
    have hk1 : Keep s (s.updReq mi (fun r => { r with m := setFrag r.m slot (fun f => { f with redirects := f.redirects + 1 }) })) := by
      apply keep_updReq
      intro r0 _ hd
      exact ⟨hd, fun slot' hu => (undone_setFrag_keep r0.m slot slot' (fun f => { f with redirects := f.redirects + 1 }) (fun _ => rfl) (fun _ => rfl)).mp hu⟩
    have h1 := noOrphanX_keep _ _ _ hk1 h
    have hfail : ∀ e, NoOrphan (flushClient ((s.updReq mi (fun r => { r with m := setFrag r.m slot (fun f => { f with redirects := f.redirects + 1 }) })).updReq mi
        (fun r => { r with m := failReq (setFrag r.m slot (fun f => { f with err := e })) e })) r.owner) := by
      intro e
      apply noOrphanX_keep _ _ none (keep_flushClient _ _)
      apply noOrphan_of_x _ mi slot
      · apply noOrphanX_keep _ _ _ _ h1
        apply keep_updReq
        intro r0 _ hd
        exact absurd hd (by simp [failReq, allDone])
      · intro r0 hr0 hd
        have hr1 := msgs_updReq_same s mi (fun r => { r with m := setFrag r.m slot (fun f => { f with redirects := f.redirects + 1 }) }) r hr
        rw [msgs_updReq_same _ mi _ _ hr1] at hr0
        injection hr0 with hr0; subst hr0
        exact absurd hd (by simp [failReq, allDone])
    split
    · exact Or.inr (hfail _)
    · split
      · exact Or.inr (hfail _)
      · right
        rename_i p hp
        obtain ⟨pool, hpool⟩ := findPool_some _ addr p hp
        obtain ⟨b, hb, ho⟩ := RcVerif.Props.C13.poolGet_open S cfg _ p pool hpool
        have h2 := noOrphanX_keep _ _ _ (keep_poolGet S cfg _ p) h1
        apply noOrphan_of_x_pending _ mi slot
        · apply noOrphanX_keep _ _ _ (keep_enqueueOut _ _ _)
          split
          · exact noOrphanX_keep _ _ _ (keep_enqueueOut _ _ _) h2
          · exact h2
        · split
          · obtain ⟨b', hb', ho'⟩ := openMono_enqueueOut _ _ { ref := .asking, bytes := S.asking } _ b hb ho
            exact pending_enqueueOut _ _ { ref := .frag mi slot, bytes := _ } b' hb' ho'
          · exact pending_enqueueOut _ _ { ref := .frag mi slot, bytes := _ } b hb ho


theorem goodP_onFragReply (T : Tables) (S : Strs) (cfg : Cfg) (slotFn : Bytes → Nat) (s : State) (mi slot rtype : Nat)
    (body : Bytes) (h : NoOrphanX s (some (mi, slot))) :
    GoodP (onFragReply T S cfg slotFn s mi slot rtype body).1 ∧
    ((onFragReply T S cfg slotFn s mi slot rtype body).2 = true →
      NoOrphan (onFragReply T S cfg slotFn s mi slot rtype body).1) := by
  unfold onFragReply State.req
  cases hr : s.msgs[mi]? with
  | none => exact ⟨Or.inl (fail_flag s _), by simp⟩
  | some r =>
    dsimp only
    have hspec := spec_onReply T S.merge slotFn cfg.limit r.m slot rtype body
    have hk := onReply_done T S.merge slotFn cfg.limit r.m slot rtype body
    generalize onReply T S.merge slotFn cfg.limit r.m slot rtype body = res at hspec hk
    obtain ⟨m', sig⟩ := res
    dsimp only
    obtain ⟨hready, hwait, hdrop, hred⟩ := hspec
    simp only at hready hwait hdrop hred
    have hr1 : (s.updReq mi (fun r => { r with m := m' })).msgs[mi]? = some { r with m := m' } := msgs_updReq_same s mi _ r hr
    -- any signal but ready: `done` is kept, and what is undone afterwards was undone before
    have hkeepx : sig ≠ .ready → (∀ slot', Undone m' slot' → Undone r.m slot') →
        NoOrphanX (s.updReq mi (fun r => { r with m := m' })) (some (mi, slot)) := by
      intro hs hu
      apply noOrphanX_keep _ _ _ _ h
      apply keep_updReq
      intro r0 hr0 hd
      rw [hr] at hr0; injection hr0 with hr0; subst hr0
      have := hk hs
      simp only at this
      exact ⟨by rw [← this]; exact hd, hu⟩
    cases sig with
    | panic => exact ⟨Or.inl (fail_flag _ _), by simp⟩
    | dropped =>
      obtain ⟨hm, hnu⟩ := hdrop rfl
      subst hm
      have := noOrphan_of_x _ mi slot (hkeepx (by simp) (fun _ hu => hu)) (by
        intro r0 hr0 _
        rw [hr1] at hr0; injection hr0 with hr0; subst hr0; exact hnu)
      exact ⟨Or.inr this, fun _ => this⟩
    | waiting =>
      have := noOrphan_of_x _ mi slot (hkeepx (by simp) (fun slot' hu => (hwait rfl slot' hu).2)) (by
        intro r0 hr0 _ hu
        rw [hr1] at hr0; injection hr0 with hr0; subst hr0
        exact (hwait rfl slot hu).1 rfl)
      exact ⟨Or.inr this, fun _ => this⟩
    | redirect =>
      have hg := goodP_onMoved S cfg _ mi slot (rtype = T.rAsk) (SDecode.parseMovedOrAsk T rtype body)
        (hkeepx (by simp) (hred rfl).2)
      refine ⟨hg, ?_⟩
      intro hcont
      rcases hg with hg | hg
      · simp only [hg, Bool.not_true] at hcont; exact absurd hcont (by simp)
      · exact hg
    | ready =>
      dsimp only
      have hno : NoOrphan (s.updReq mi (fun r => { r with m := m' })) := by
        apply noOrphan_of_x _ mi slot
        · apply noOrphanX_keep _ _ _ _ h
          apply keep_updReq
          intro r0 _ hd
          rw [hready rfl] at hd; simp at hd
        · intro r0 hr0 hd
          rw [hr1] at hr0; injection hr0 with hr0; subst hr0
          rw [hready rfl] at hd; simp at hd
      split
      · exact ⟨Or.inl (fail_flag _ _), by simp⟩
      · have := noOrphanX_keep _ _ none (keep_deliver _ r.owner) hno
        exact ⟨Or.inr this, fun _ => this⟩

theorem keep_initPrelude (s : State) (b : Nat) (x : Backend) (view : Bytes) (s' : State) (v' : Bytes)
    (h : initPrelude s b x view = some (s', v')) : Keep s s' := by
  unfold initPrelude at h
  split at h
  · split at h
    · simp at h
    · injection h with h; injection h with h1 _; subst h1
      exact keep_updBackend s b _ (fun _ ho => ⟨ho, fun _ hy => hy⟩)
    · injection h with h; injection h with h1 _; subst h1; exact Keep.refl s
    · injection h with h; injection h with h1 _; subst h1; exact keep_fail s _
  · injection h with h; injection h with h1 _; subst h1; exact Keep.refl s

/-- taking the head `f` off the awaiting-reply queue of `b`: every other pending fragment stays pending -/
theorem pop_pending (s : State) (b : Nat) (x : Backend) (f : FragRef) (inQ' : List FragRef)
    (hq : ((s.backends[b]?).getD x).inQ = f :: inQ') (g : FragRef) (hne : g ≠ f) (hp : Pending s g) :
    Pending (dropTimeout (s.updBackend b (fun x => { x with inQ := inQ' })) f) g := by
  obtain ⟨i, y, hy, ho, hmem⟩ := hp
  by_cases hib : i = b
  · subst hib
    refine ⟨i, { y with inQ := inQ' }, backend_upd_same s i _ y hy, ho, ?_⟩
    have : y.inQ = f :: inQ' := by rw [hy] at hq; exact hq
    rw [this] at hmem
    simp only [List.cons_append, List.mem_cons] at hmem
    rcases hmem with h | h
    · exact absurd h hne
    · exact h
  · exact ⟨i, y, by show (s.updBackend b _).backends[i]? = _; rw [backend_upd_other s b i _ hib]; exact hy, ho, hmem⟩

theorem pop_noOrphanX (s : State) (b : Nat) (x : Backend) (mi slot : Nat) (inQ' : List FragRef)
    (hq : ((s.backends[b]?).getD x).inQ = .frag mi slot :: inQ') (h : NoOrphan s) :
    NoOrphanX (dropTimeout (s.updBackend b (fun x => { x with inQ := inQ' })) (.frag mi slot)) (some (mi, slot)) := by
  intro mj r hr hd slot' hu hex
  apply pop_pending s b x _ inQ' hq
  · intro he; injection he with h1 h2; subst h1; subst h2; exact hex rfl
  · exact h mj r hr hd slot' hu (by simp)

theorem pop_noOrphan (s : State) (b : Nat) (x : Backend) (f : FragRef) (inQ' : List FragRef)
    (hq : ((s.backends[b]?).getD x).inQ = f :: inQ') (hf : ∀ mi slot, f ≠ .frag mi slot) (h : NoOrphan s) :
    NoOrphan (dropTimeout (s.updBackend b (fun x => { x with inQ := inQ' })) f) := by
  intro mj r hr hd slot' hu _
  apply pop_pending s b x _ inQ' hq
  · exact fun he => hf mj slot' he.symm
  · exact h mj r hr hd slot' hu (by simp)

theorem goodP_sreadLoop (T : Tables) (S : Strs) (cfg : Cfg) (slotFn : Bytes → Nat) (fuel : Nat) :
    ∀ (s : State) (b : Nat) (view : Bytes), NoOrphan s → GoodP (sreadLoop T S cfg slotFn fuel s b view) := by
  induction fuel with
  | zero => intro s b view h; exact Or.inr h
  | succ fuel ih =>
    intro s b view h
    unfold sreadLoop State.backend
    cases hx : s.backends[b]? with
    | none => exact Or.inr h
    | some x =>
      dsimp only
      split
      · exact Or.inr h
      · split
        · exact Or.inr (noOrphanX_keep _ _ none (keep_updBackend s b _ (fun _ ho => ⟨ho, fun _ hy => hy⟩)) h)
        · rename_i s1 v1 hinit
          have h1 : NoOrphan s1 := noOrphanX_keep _ _ none (keep_initPrelude s b x view s1 v1 hinit) h
          split
          · rename_i hf; exact Or.inl hf
          · split
            · exact Or.inr (noOrphanX_keep _ _ none (keep_updBackend s1 b _ (fun _ ho => ⟨ho, fun _ hy => hy⟩)) h1)
            · exact Or.inl (fail_flag s1 _)
            · rename_i rtype n _
              split
              · exact Or.inl (fail_flag s1 _)
              · rename_i f inQ' hq
                split
                · exact ih _ b _ (pop_noOrphan s1 b x _ inQ' hq (by intro _ _ he; cases he) h1)
                · have h2 := pop_noOrphan s1 b x _ inQ' hq (by intro _ _ he; cases he) h1
                  split
                  · exact Or.inl (fail_flag _ _)
                  · exact ih _ b _ h2
                · rename_i mi slot
                  have h2 := pop_noOrphanX s1 b x mi slot inQ' hq h1
                  have hg := goodP_onFragReply T S cfg slotFn _ mi slot rtype (v1.take n) h2
                  split
                  · rename_i s' heq
                    rw [heq] at hg
                    exact ih s' b _ (hg.2 rfl)
                  · rename_i s' heq
                    rw [heq] at hg
                    exact hg.1

theorem goodP_backendBytes (T : Tables) (S : Strs) (cfg : Cfg) (slotFn : Bytes → Nat) (s : State) (b : Nat) (chunk : Bytes)
    (h : NoOrphan s) : GoodP (backendBytes T S cfg slotFn s b chunk) := by
  unfold backendBytes
  split
  · exact Or.inr h
  · split
    · exact Or.inr h
    · exact goodP_sreadLoop T S cfg slotFn _ _ b _
        (noOrphanX_keep _ _ none (keep_updBackend s b _ (fun _ ho => ⟨ho, fun _ hy => hy⟩)) h)


/-! ### closing a connection -/

/-- one entry of `failFrags`: a fragment that waited on, or was queued to, the lost connection -/
def cstep (S : Strs) (s : State) (f : FragRef) : State :=
  match f with
  | .frag mi slot =>
    match s.req mi with
    | none => s
    | some r =>
      match getFrag r.m slot with
      | none => s
      | some fr =>
        if fr.done then s
        else flushClient (s.updReq mi (fun r => { r with m := failReq (setFrag r.m slot (fun f => { f with err := S.errBackendClosed })) S.errBackendClosed })) r.owner
  | _ => s

theorem failFrags_eq (S : Strs) (s : State) (refs : List FragRef) : failFrags S s refs = refs.foldl (cstep S) s := rfl

/-- completed because its backend connection was lost: done, answered with the error, every fragment done -/
def LostOut (S : Strs) (r : Req) : Prop :=
  r.m.done = true ∧ r.m.rspBody = S.errBackendClosed ∧ ∀ x ∈ r.m.frags, x.done = true

theorem cstep_other (S : Strs) (s : State) (f : FragRef) (mj : Nat)
    (h : ∀ slot, f ≠ .frag mj slot) : (cstep S s f).msgs[mj]? = s.msgs[mj]? := by
  unfold cstep
  cases f with
  | asking => rfl
  | probe => rfl
  | frag mi slot =>
    have hne : mj ≠ mi := fun e => h slot (by rw [e])
    dsimp only
    split
    · rfl
    · split
      · rfl
      · split
        · rfl
        · rw [msgs_flushClient, msgs_updReq_other _ mi mj _ hne]

theorem cstep_keeps (S : Strs) (s : State) (f : FragRef) (mi : Nat) (r : Req)
    (hr : s.msgs[mi]? = some r) (ht : ∀ x ∈ r.m.frags, x.done = true) : (cstep S s f).msgs[mi]? = some r := by
  by_cases hf : ∃ slot, f = .frag mi slot
  · obtain ⟨slot, rfl⟩ := hf
    unfold cstep State.req
    dsimp only
    rw [hr]
    dsimp only
    cases hg : getFrag r.m slot with
    | none => exact hr
    | some fr =>
      dsimp only
      have := getFrag_done_of_all r.m slot fr hg ht
      simp only [this, ↓reduceIte]
      exact hr
  · rw [cstep_other S s f mi (fun slot e => hf ⟨slot, e⟩)]; exact hr

theorem cstep_fails (S : Strs) (s : State) (mi slot : Nat) (r : Req) (fr : MFrag)
    (hr : s.msgs[mi]? = some r) (hg : getFrag r.m slot = some fr) (hnd : fr.done = false) :
    ∃ r', (cstep S s (.frag mi slot)).msgs[mi]? = some r' ∧ LostOut S r' ∧ r'.owner = r.owner ∧ r'.num = r.num := by
  unfold cstep State.req
  dsimp only
  rw [hr]
  dsimp only
  rw [hg]
  dsimp only
  simp only [hnd, Bool.false_eq_true, ↓reduceIte]
  rw [msgs_flushClient, msgs_updReq_same s mi _ r hr]
  have := RcVerif.Props.C13.failReq_failed (setFrag r.m slot (fun f => { f with err := S.errBackendClosed })) S.errBackendClosed r.owner r.num
  exact ⟨_, rfl, this, rfl, rfl⟩

theorem fold_fails (S : Strs) (ts : List FragRef) (s : State) (mi : Nat) (r : Req)
    (hr : s.msgs[mi]? = some r) :
    ((∀ x ∈ r.m.frags, x.done = true) → (ts.foldl (cstep S) s).msgs[mi]? = some r) ∧
    ((∃ slot fr, FragRef.frag mi slot ∈ ts ∧ getFrag r.m slot = some fr ∧ fr.done = false) →
      ∃ r', (ts.foldl (cstep S) s).msgs[mi]? = some r' ∧ LostOut S r' ∧ r'.owner = r.owner ∧ r'.num = r.num) := by
  induction ts generalizing s r with
  | nil =>
    refine ⟨fun _ => hr, ?_⟩
    rintro ⟨slot, fr, hmem, _⟩; simp at hmem
  | cons f ts ih =>
    simp only [List.foldl_cons]
    constructor
    · intro ht
      exact (ih (cstep S s f) r (cstep_keeps S s f mi r hr ht)).1 ht
    · rintro ⟨slot, fr, hmem, hg, hnd⟩
      by_cases hf : ∃ slot', f = .frag mi slot'
      · obtain ⟨slot', rfl⟩ := hf
        cases hg' : getFrag r.m slot' with
        | none =>
          have hsame : cstep S s (.frag mi slot') = s := by
            unfold cstep State.req; dsimp only; rw [hr]; dsimp only; rw [hg']
          rw [hsame]
          rcases List.mem_cons.mp hmem with he | hmem'
          · injection he with _ he; subst he; rw [hg] at hg'; simp at hg'
          · exact (ih s r hr).2 ⟨slot, fr, hmem', hg, hnd⟩
        | some fr' =>
          by_cases hd' : fr'.done = true
          · have hsame : cstep S s (.frag mi slot') = s := by
              unfold cstep State.req; dsimp only; rw [hr]; dsimp only; rw [hg']; dsimp only; simp [hd']
            rw [hsame]
            rcases List.mem_cons.mp hmem with he | hmem'
            · injection he with _ he; subst he
              rw [hg] at hg'; injection hg' with hg'; subst hg'
              rw [hnd] at hd'; exact absurd hd' (by simp)
            · exact (ih s r hr).2 ⟨slot, fr, hmem', hg, hnd⟩
          · obtain ⟨r', hr', ht', ho', hn'⟩ := cstep_fails S s mi slot' r fr' hr hg' (by simpa using hd')
            exact ⟨r', (ih _ r' hr').1 ht'.2.2, ht', ho', hn'⟩
      · have hr2 : (cstep S s f).msgs[mi]? = some r := by
          rw [cstep_other S s f mi (fun slot e => hf ⟨slot, e⟩)]; exact hr
        have hmem' : FragRef.frag mi slot ∈ ts := by
          rcases List.mem_cons.mp hmem with he | hmem'
          · exact absurd ⟨slot, he.symm⟩ hf
          · exact hmem'
        exact (ih _ r hr2).2 ⟨slot, fr, hmem', hg, hnd⟩

theorem msgs_backendClose (S : Strs) (s : State) (b : Nat) (x : Backend) (hx : s.backends[b]? = some x)
    (ho : x.opened = true) : (backendClose S s b).msgs = ((x.inQ ++ x.outQ.map (·.ref)).foldl (cstep S) s).msgs := by
  unfold backendClose
  have hx' : s.backend b = some x := hx
  rw [hx']
  simp only [ho, Bool.not_true, Bool.false_eq_true, ↓reduceIte]
  show (List.foldl dropTimeout _ x.inQ).msgs = _
  rw [(foldl_dropTimeout_same x.inQ _).2, failFrags_eq]


/-! ### every step keeps `NoOrphan` -/

theorem keep_cstep (S : Strs) (s : State) (f : FragRef) : Keep s (cstep S s f) := by
  unfold cstep
  cases f with
  | asking => exact Keep.refl s
  | probe => exact Keep.refl s
  | frag mi slot =>
    dsimp only
    split
    · exact Keep.refl s
    · split
      · exact Keep.refl s
      · split
        · exact Keep.refl s
        · refine Keep.trans ?_ (keep_flushClient _ _)
          apply keep_updReq
          intro r0 _ hd
          exact absurd hd (by simp [failReq, allDone])

theorem keep_foldl_cstep (S : Strs) (refs : List FragRef) (s : State) : Keep s (refs.foldl (cstep S) s) := by
  induction refs generalizing s with
  | nil => exact Keep.refl s
  | cons f fs ih => exact Keep.trans (keep_cstep S s f) (ih _)

theorem keep_foldl_dropTimeout (refs : List FragRef) (s : State) : Keep s (refs.foldl dropTimeout s) := by
  induction refs generalizing s with
  | nil => exact Keep.refl s
  | cons f fs ih => exact Keep.trans (keep_dropTimeout s f) (ih _)

theorem noOrphan_backendClose (S : Strs) (s : State) (b : Nat) (h : NoOrphan s) : NoOrphan (backendClose S s b) := by
  cases hx : s.backends[b]? with
  | none =>
    have : backendClose S s b = s := by
      unfold backendClose State.backend; rw [hx]
    rw [this]; exact h
  | some x =>
    by_cases ho : x.opened = true
    · intro mi r' hr' hd' slot hu _
      have hmsgs := msgs_backendClose S s b x hx ho
      rw [hmsgs] at hr'
      have hk := keep_foldl_cstep S (x.inQ ++ x.outQ.map (·.ref)) s
      obtain ⟨r, hr, hd, hu0⟩ := hk.msgs mi r' hr' hd'
      obtain ⟨i, y, hy, hyo, hmem⟩ := h mi r hr hd slot (hu0 slot hu) (by simp)
      by_cases hib : i = b
      · subst hib
        rw [hx] at hy; injection hy with hy; subst hy
        obtain ⟨f, hf, hnd⟩ := hu0 slot hu
        obtain ⟨r'', hr'', hlost, _, _⟩ := (fold_fails S (x.inQ ++ x.outQ.map (·.ref)) s mi r hr).2 ⟨slot, f, hmem, hf, hnd⟩
        rw [hr''] at hr'; injection hr' with hr'; subst hr'
        rw [hlost.1] at hd'; simp at hd'
      · refine ⟨i, y, ?_, hyo, hmem⟩
        have hstate : backendClose S s b =
            (List.foldl dropTimeout (failFrags S s (x.inQ ++ x.outQ.map (·.ref))) x.inQ).updBackend b
              (fun x => { x with opened := false, inQ := [], outQ := [], leftover := [] }) := by
          unfold backendClose State.backend
          rw [hx]
          simp [ho]
        rw [hstate, backend_upd_other _ b i _ hib]
        have hb : (List.foldl dropTimeout (failFrags S s (x.inQ ++ x.outQ.map (·.ref))) x.inQ).backends = s.backends :=
          BSame.trans (bsame_failFrags S _ s) (bsame_foldl_dropTimeout _ _)
        rw [hb]; exact hy
    · have : backendClose S s b = s := by
        unfold backendClose State.backend; rw [hx]; simp [ho]
      rw [this]; exact h

theorem noOrphan_runTasks (S : Strs) (cfg : Cfg) (s : State) (h : NoOrphan s) : NoOrphan (runTasks S cfg s) := by
  unfold runTasks
  have : ∀ (ts : List Task) (s0 : State), NoOrphan s0 → NoOrphan (ts.foldl (runTask S cfg (backendClose S)) s0) := by
    intro ts
    induction ts with
    | nil => intro s0 h0; exact h0
    | cons t ts ih =>
      intro s0 h0
      apply ih
      cases t with
      | write b => exact noOrphanX_keep _ _ none (keep_writeSignal S cfg s0 b) h0
      | close b => exact noOrphan_backendClose S s0 b h0
  exact noOrphanX_keep _ _ none (keep_of_eq _ _ rfl rfl) (this s.tasks s h)

theorem keep_expire (S : Strs) (s : State) (n : Nat) : Keep s (expire S s n) := by
  unfold expire
  dsimp only
  refine Keep.trans (b := List.foldl _ s ((liveDeadlines s).take n)) ?_ (keep_of_eq _ _ rfl rfl)
  generalize (liveDeadlines s).take n = ts
  induction ts generalizing s with
  | nil => exact Keep.refl s
  | cons f fs ih =>
    rw [List.foldl_cons]
    refine Keep.trans ?_ (ih _)
    split
    · split
      · exact Keep.refl s
      · split
        · exact Keep.refl s
        · split
          · exact Keep.refl s
          · refine Keep.trans ?_ (keep_flushClient _ _)
            apply keep_updReq
            intro r0 _ hd
            exact absurd hd (by simp)
    · exact Keep.refl s

theorem goodP_step (T : Tables) (S : Strs) (cfg : Cfg) (slotFn : Bytes → Nat) (s : State) (e : Event) (h : GoodP s) :
    GoodP (step T S cfg slotFn s e) := by
  unfold step
  split
  · exact h
  · rename_i hf
    rcases h with h | h
    · exact absurd h hf
    · cases e with
      | connect admitted => exact Or.inr (noOrphanX_keep _ _ none (keep_of_eq s { s with clients := _ } rfl rfl) h)
      | clientBytes c chunk chs => exact Or.inr (noOrphan_clientBytes T S cfg slotFn s c chunk chs h)
      | clientClose c => exact Or.inr (noOrphanX_keep _ _ none (keep_closeClient s c) h)
      | runTasks => exact Or.inr (noOrphan_runTasks S cfg s h)
      | backendBytes b chunk => exact goodP_backendBytes T S cfg slotFn s b chunk h
      | backendClose b => exact Or.inr (noOrphan_backendClose S s b h)
      | expire n => exact Or.inr (noOrphanX_keep _ _ none (keep_expire S s n) h)
      | poolRemove p => exact Or.inr (noOrphanX_keep _ _ none (keep_of_eq _ _ (same_poolRemove s p).2 (bsame_poolRemove s p)) h)

theorem goodP_run (T : Tables) (S : Strs) (cfg : Cfg) (slotFn : Bytes → Nat) (es : List Event) (s : State) (h : GoodP s) :
    GoodP (run T S cfg slotFn s es) := by
  unfold run
  induction es generalizing s with
  | nil => exact h
  | cons e es ih => exact ih _ (goodP_step T S cfg slotFn s e h)

theorem goodP_init (S : Strs) (cfg : Cfg) (pools : List (Bytes × Bool)) (table : List (Nat × Nat × RSet)) :
    GoodP (init S cfg pools table) := by
  right
  unfold init
  dsimp only
  have : ∀ (l : List Nat) (s : State), NoOrphan s → NoOrphan (l.foldl (fun s p => (poolGet S cfg s p).1) s) := by
    intro l
    induction l with
    | nil => intro s h; exact h
    | cons p l ih => intro s h; exact ih _ (noOrphanX_keep _ _ none (keep_poolGet S cfg s p) h)
  apply this
  intro mi r hr
  simp at hr


end RcVerif.Lemmas.SimPend
