import RcVerif.Model.Elastic
import RcVerif.Lemmas.RingBuf
import RcVerif.Lemmas.LListBuf
/-
  `elastic.RingBuffer` (pooled ring) and `elastic.Buffer` (ring, then list) refine a FIFO byte queue; rings in the
  pool are always empty, so a recycled ring never brings stale bytes with it.
-/
namespace RcVerif.Lemmas.ElasticBuf
open RcVerif RcVerif.Elastic RcVerif.Lemmas.RingBuf RcVerif.Lemmas.LListBuf
open RcVerif.Ring (Ring)
open RcVerif.LList (LL)

/-- `Read(p)` in general: the first `k` buffered bytes are copied out and dropped -/
theorem ring_read_spec (rb : Ring) (h : Inv rb) (k : Nat) :
    Inv (Ring.read rb k).1 ∧ Ring.content (Ring.read rb k).1 = (Ring.content rb).drop k ∧
    (Ring.read rb k).2.1 = (Ring.content rb).take k := by
  by_cases hk : k = 0
  · subst hk; simp [Ring.read, h]
  · by_cases he : rb.isEmpty = true
    · have : Ring.content rb = [] := by simp [Ring.content, he]
      simp [Ring.read, hk, he, h, this]
    · obtain ⟨h1, h2, _⟩ := read_eq rb h k (by omega) he
      obtain ⟨d1, d2, _⟩ := discard_spec rb h k
      have hp := peek_spec rb h k
      have hki : ¬ ((k : Int) ≤ 0) := by omega
      simp only [hki, ↓reduceIte, Int.toNat_natCast] at hp d2
      rw [h1, h2]
      exact ⟨d1, d2, hp⟩

/-- every pooled ring is well formed and empty -/
structure PInv (p : Pool) : Prop where
  priv : ∀ r, p.priv = some r → Inv r ∧ Ring.content r = []
  shared : ∀ r ∈ p.shared, Inv r ∧ Ring.content r = []

def EInv (e : ERing) : Prop := ∀ r, e.rb = some r → Inv r

theorem pinv_empty : PInv {} := ⟨fun _ h => by simp at h, fun _ h => by simp at h⟩

theorem pool_get_spec (p : Pool) (h : PInv p) : PInv p.get.1 ∧ Inv p.get.2 ∧ Ring.content p.get.2 = [] := by
  unfold Pool.get
  cases hp : p.priv with
  | some r =>
    obtain ⟨h1, h2⟩ := h.priv r hp
    exact ⟨⟨fun _ h' => by simp at h', h.shared⟩, h1, h2⟩
  | none =>
    dsimp only
    cases hs : p.shared with
    | nil => exact ⟨h, (inv_new 0).1, (inv_new 0).2⟩
    | cons r rest =>
      have hr := h.shared r (by rw [hs]; exact List.mem_cons_self)
      refine ⟨⟨fun r' h' => h.priv r' (by simpa using h'), fun r' hm => h.shared r' (by rw [hs]; exact List.mem_cons_of_mem _ hm)⟩, hr.1, hr.2⟩

theorem pool_put_spec (p : Pool) (h : PInv p) (r : Ring) (hr : Inv r) : PInv (p.put r) := by
  unfold Pool.put
  have hres : Inv (Ring.reset r) ∧ Ring.content (Ring.reset r) = [] := ⟨inv_reset r hr, content_reset r⟩
  cases hp : p.priv with
  | none => exact ⟨fun r' h' => by simp at h'; rw [← h']; exact hres, h.shared⟩
  | some r0 =>
    refine ⟨fun r' h' => h.priv r' (by rw [hp]; exact h'), fun r' hm => ?_⟩
    rcases List.mem_cons.mp hm with h1 | h1
    · rw [h1]; exact hres
    · exact h.shared r' h1

theorem ering_done_spec (p : Pool) (e : ERing) (hp : PInv p) (he : EInv e) :
    PInv (e.done p).1 ∧ EInv (e.done p).2 ∧ (e.done p).2.content = e.content := by
  unfold ERing.done
  cases hr : e.rb with
  | none => exact ⟨hp, he, rfl⟩
  | some r =>
    dsimp only
    split
    · rename_i hem
      refine ⟨pool_put_spec p hp r (he r hr), fun _ h => by simp at h, ?_⟩
      simp [ERing.content, hr, Ring.content, hem]
    · exact ⟨hp, he, rfl⟩

theorem ering_release_spec (p : Pool) (e : ERing) (hp : PInv p) (he : EInv e) :
    PInv (e.release p).1 ∧ EInv (e.release p).2 ∧ (e.release p).2.content = [] := by
  unfold ERing.release
  cases hr : e.rb with
  | none => exact ⟨hp, he, by simp [ERing.content, hr]⟩
  | some r => exact ⟨pool_put_spec p hp r (he r hr), fun _ h => by simp at h, rfl⟩

theorem ering_peek_spec (e : ERing) (he : EInv e) (n : Int) :
    (e.peek n).1 ++ (e.peek n).2 = if n ≤ 0 then e.content else e.content.take n.toNat := by
  unfold ERing.peek ERing.content
  cases hr : e.rb with
  | none => simp
  | some r => exact peek_spec r (he r hr) n

theorem ering_buffered (e : ERing) (he : EInv e) : e.buffered = e.content.length := by
  unfold ERing.buffered ERing.content
  cases hr : e.rb with
  | none => rfl
  | some r => exact (content_length r (he r hr)).symm

theorem ering_discard_spec (p : Pool) (e : ERing) (hp : PInv p) (he : EInv e) (n : Int) :
    PInv (e.discard p n).1 ∧ EInv (e.discard p n).2.1 ∧
    (e.discard p n).2.1.content = e.content.drop n.toNat ∧
    (e.discard p n).2.2.1 = min n.toNat e.content.length := by
  unfold ERing.discard
  cases hr : e.rb with
  | none => exact ⟨hp, he, by simp [ERing.content, hr], by simp [ERing.content, hr]⟩
  | some r =>
    dsimp only
    obtain ⟨d1, d2, d3⟩ := discard_spec r (he r hr) n
    have he' : EInv { rb := some (Ring.discard r n).1 } := fun r' h' => by simp at h'; rw [← h']; exact d1
    obtain ⟨q1, q2, q3⟩ := ering_done_spec p { rb := some (Ring.discard r n).1 } hp he'
    refine ⟨q1, q2, ?_, ?_⟩
    · rw [q3]; simp [ERing.content, hr, d2]
    · simp [ERing.content, hr, d3]

theorem ering_read_spec (p : Pool) (e : ERing) (hp : PInv p) (he : EInv e) (k : Nat) :
    PInv (e.read p k).1 ∧ EInv (e.read p k).2.1 ∧
    (e.read p k).2.1.content = e.content.drop k ∧ (e.read p k).2.2.1 = e.content.take k := by
  unfold ERing.read
  cases hr : e.rb with
  | none => exact ⟨hp, he, by simp [ERing.content, hr], by simp [ERing.content, hr]⟩
  | some r =>
    dsimp only
    obtain ⟨d1, d2, d3⟩ := ring_read_spec r (he r hr) k
    have he' : EInv { rb := some (Ring.read r k).1 } := fun r' h' => by simp at h'; rw [← h']; exact d1
    obtain ⟨q1, q2, q3⟩ := ering_done_spec p { rb := some (Ring.read r k).1 } hp he'
    refine ⟨q1, q2, ?_, ?_⟩
    · rw [q3]; simp [ERing.content, hr, d2]
    · simp [ERing.content, hr, d3]

theorem ering_write_spec (p : Pool) (e : ERing) (hp : PInv p) (he : EInv e) (b : Bytes) :
    PInv (e.write p b).1 ∧ EInv (e.write p b).2 ∧ (e.write p b).2.content = e.content ++ b := by
  unfold ERing.write
  split
  · rename_i h0
    have : b = [] := List.eq_nil_of_length_eq_zero h0
    exact ⟨hp, he, by simp [this]⟩
  · unfold ERing.instance
    cases hr : e.rb with
    | some r =>
      dsimp only
      obtain ⟨w1, w2⟩ := write_spec r (he r hr) b
      exact ⟨hp, fun r' h' => by simp at h'; rw [← h']; exact w1, by simp [ERing.content, hr, w2]⟩
    | none =>
      dsimp only
      obtain ⟨g1, g2, g3⟩ := pool_get_spec p hp
      obtain ⟨w1, w2⟩ := write_spec p.get.2 g2 b
      exact ⟨g1, fun r' h' => by simp at h'; rw [← h']; exact w1, by simp [ERing.content, hr, w2, g3]⟩

theorem ering_reset_spec (e : ERing) (he : EInv e) : EInv e.reset ∧ e.reset.content = [] := by
  unfold ERing.reset
  cases hr : e.rb with
  | none => exact ⟨fun r' h' => he r' h', by simp [ERing.content, hr]⟩
  | some r => exact ⟨fun r' h' => by simp at h'; rw [← h']; exact inv_reset r (he r hr), by simp [ERing.content, content_reset]⟩


/-- a well-formed elastic buffer -/
structure BInv (b : EBuf) : Prop where
  ring : EInv b.ring
  list : LInv b.list

theorem list_empty_content (l : LL) (h : LList.isEmpty l = true) : LList.content l = [] := by
  unfold LList.isEmpty at h
  simp only [List.isEmpty_iff] at h
  simp [LList.content, h]

theorem ebuf_buffered (b : EBuf) (h : BInv b) : b.buffered = b.content.length := by
  unfold EBuf.buffered EBuf.content
  rw [ering_buffered b.ring h.ring, h.list.bytes]; simp

/-- **`Buffer.Write(p)`**: appended, whichever of the ring and the list takes it -/
theorem ebuf_write_spec (p : Pool) (b : EBuf) (hp : PInv p) (h : BInv b) (d : Bytes) :
    PInv (b.write p d).1 ∧ BInv (b.write p d).2 ∧ (b.write p d).2.content = b.content ++ d := by
  unfold EBuf.write
  split
  · obtain ⟨l1, l2⟩ := pushBack_spec b.list h.list d
    exact ⟨hp, ⟨h.ring, l1⟩, by simp [EBuf.content, l2]⟩
  · rename_i hc
    have hle : LList.isEmpty b.list = true := by
      cases hE : LList.isEmpty b.list with
      | true => rfl
      | false => exact absurd (Or.inl (by simp [hE])) hc
    have hlc := list_empty_content b.list hle
    split
    · dsimp only
      obtain ⟨w1, w2, w3⟩ := ering_write_spec p b.ring hp h.ring (d.take b.ring.available)
      obtain ⟨l1, l2⟩ := pushBack_spec b.list h.list (d.drop b.ring.available)
      refine ⟨w1, ⟨w2, l1⟩, ?_⟩
      simp only [EBuf.content, w3, l2, hlc, List.nil_append, List.append_nil, List.append_assoc, List.take_append_drop]
    · dsimp only
      obtain ⟨w1, w2, w3⟩ := ering_write_spec p b.ring hp h.ring d
      exact ⟨w1, ⟨w2, h.list⟩, by simp [EBuf.content, w3, hlc]⟩

theorem foldl_pushBack_spec (bs : List Bytes) (l : LL) (h : LInv l) :
    LInv (bs.foldl LList.pushBack l) ∧ LList.content (bs.foldl LList.pushBack l) = LList.content l ++ bs.flatten := by
  induction bs generalizing l with
  | nil => exact ⟨h, by simp⟩
  | cons x xs ih =>
    obtain ⟨l1, l2⟩ := pushBack_spec l h x
    obtain ⟨i1, i2⟩ := ih (LList.pushBack l x) l1
    exact ⟨i1, by rw [List.foldl_cons, i2, l2]; simp⟩

theorem writevLoop_spec (p : Pool) (ring : ERing) (list : LL) (bs : List Bytes) (writable : Nat)
    (hp : PInv p) (hr : EInv ring) (hl : LInv list) (hle : LList.content list = []) :
    let res := writevLoop p ring list bs writable
    PInv res.1 ∧ EInv res.2.1 ∧ LInv res.2.2.1 ∧
    res.2.1.content ++ LList.content res.2.2.1 ++ res.2.2.2.flatten = ring.content ++ bs.flatten := by
  induction bs generalizing p ring writable with
  | nil => exact ⟨hp, hr, hl, by simp [writevLoop, hle]⟩
  | cons x xs ih =>
    unfold writevLoop
    split
    · dsimp only
      obtain ⟨w1, w2, w3⟩ := ering_write_spec p ring hp hr (x.take writable)
      obtain ⟨l1, l2⟩ := pushBack_spec list hl (x.drop writable)
      refine ⟨w1, w2, l1, ?_⟩
      simp only [w3, l2, hle, List.nil_append, List.flatten_cons, List.append_assoc]
      rw [← List.append_assoc (x.take writable), List.take_append_drop]
    · dsimp only
      obtain ⟨w1, w2, w3⟩ := ering_write_spec p ring hp hr x
      obtain ⟨i1, i2, i3, i4⟩ := ih (ring.write p x).1 (ring.write p x).2 (writable - x.length) w1 w2
      exact ⟨i1, i2, i3, by rw [i4, w3]; simp⟩

/-- **`Buffer.Writev(bs)`**: all slices appended, in order -/
theorem ebuf_writev_spec (p : Pool) (b : EBuf) (hp : PInv p) (h : BInv b) (bs : List Bytes) :
    PInv (b.writev p bs).1 ∧ BInv (b.writev p bs).2 ∧ (b.writev p bs).2.content = b.content ++ bs.flatten := by
  unfold EBuf.writev
  split
  · obtain ⟨l1, l2⟩ := foldl_pushBack_spec bs b.list h.list
    exact ⟨hp, ⟨h.ring, l1⟩, by simp [EBuf.content, l2]⟩
  · rename_i hc
    have hle : LList.isEmpty b.list = true := by
      cases hE : LList.isEmpty b.list with
      | true => rfl
      | false => exact absurd (Or.inl (by simp [hE])) hc
    have hlc := list_empty_content b.list hle
    dsimp only
    obtain ⟨v1, v2, v3, v4⟩ := writevLoop_spec p b.ring b.list bs
      (if b.ring.len < b.maxStatic then b.maxStatic - b.ring.buffered else b.ring.available) hp h.ring h.list hlc
    generalize writevLoop p b.ring b.list bs _ = res at v1 v2 v3 v4
    obtain ⟨p', ring', list', rest⟩ := res
    simp only at v1 v2 v3 v4 ⊢
    obtain ⟨f1, f2⟩ := foldl_pushBack_spec rest list' v3
    refine ⟨v1, ⟨v2, f1⟩, ?_⟩
    simp only [EBuf.content, f2, hlc, List.append_nil]
    rw [← List.append_assoc, v4]

/-- **`Buffer.Read(p)`** -/
theorem ebuf_read_spec (p : Pool) (b : EBuf) (hp : PInv p) (h : BInv b) (k : Nat) :
    PInv (b.read p k).1 ∧ BInv (b.read p k).2.1 ∧
    (b.read p k).2.1.content = b.content.drop k ∧ (b.read p k).2.2 = b.content.take k := by
  unfold EBuf.read
  obtain ⟨r1, r2, r3, r4⟩ := ering_read_spec p b.ring hp h.ring k
  generalize b.ring.read p k = res at r1 r2 r3 r4
  obtain ⟨p', ring', out, err⟩ := res
  simp only at r1 r2 r3 r4 ⊢
  split
  · rename_i hfull
    refine ⟨r1, ⟨r2, h.list⟩, ?_, ?_⟩
    · simp only [EBuf.content, r3]
      rw [List.drop_append_of_le_length (by rw [r4] at hfull; simp at hfull; omega)]
    · simp only [EBuf.content]
      rw [List.take_append_of_le_length (by rw [r4] at hfull; simp at hfull; omega), r4]
  · rename_i hshort
    obtain ⟨l1, l2, l3⟩ := read_spec b.list h.list (k - out.length)
    have hlen : b.ring.content.length < k := by
      rw [r4] at hshort; simp at hshort; omega
    have hout : out = b.ring.content := by rw [r4]; exact List.take_of_length_le (by omega)
    refine ⟨r1, ⟨r2, l1⟩, ?_, ?_⟩
    · simp only [EBuf.content, r3, l2]
      rw [List.drop_append, List.drop_of_length_le (by omega), hout]
    · simp only [EBuf.content, l3]
      rw [List.take_append, List.take_of_length_le (l := b.ring.content) (by omega), hout]

/-- **`Buffer.Discard(n)`** -/
theorem ebuf_discard_spec (p : Pool) (b : EBuf) (hp : PInv p) (h : BInv b) (n : Int) :
    PInv (b.discard p n).1 ∧ BInv (b.discard p n).2.1 ∧
    (b.discard p n).2.1.content = b.content.drop n.toNat ∧
    (b.discard p n).2.2 = min n.toNat b.content.length := by
  unfold EBuf.discard
  obtain ⟨r1, r2, r3, r4⟩ := ering_discard_spec p b.ring hp h.ring n
  generalize b.ring.discard p n = res at r1 r2 r3 r4
  obtain ⟨p', ring', d, err⟩ := res
  simp only at r1 r2 r3 r4 ⊢
  split
  · rename_i hle
    have hn : n.toNat ≤ b.ring.content.length := by omega
    refine ⟨r1, ⟨r2, h.list⟩, ?_, ?_⟩
    · simp only [EBuf.content, r3]
      rw [List.drop_append_of_le_length hn]
    · simp only [EBuf.content, List.length_append]; omega
  · rename_i hgt
    obtain ⟨l1, l2, l3⟩ := RcVerif.Lemmas.LListBuf.discard_spec b.list h.list (n - d)
    have hd : d = b.ring.content.length := by omega
    have hnn : (n - (d : Int)).toNat = n.toNat - b.ring.content.length := by omega
    refine ⟨r1, ⟨r2, l1⟩, ?_, ?_⟩
    · simp only [EBuf.content, r3, l2, hnn]
      rw [List.drop_append, List.drop_of_length_le (l := b.ring.content) (by omega)]
    · rw [l3, hnn]; simp only [EBuf.content, List.length_append]; omega

/-- **`Buffer.Peek(n)`**: the slices returned, concatenated, are a prefix of the queue and cover the `n` bytes asked for
    (everything for `n ≤ 0`) -/
theorem ebuf_peek_spec (b : EBuf) (h : BInv b) (n : Int) :
    (∃ rest, b.content = (b.peek n).flatten ++ rest) ∧
    min (LList.clampMax n) b.content.length ≤ (b.peek n).flatten.length := by
  unfold EBuf.peek
  generalize hn' : (if n ≤ 0 then (LList.maxInt32 : Int) else n) = n'
  have hpos : ¬ n' ≤ 0 := by
    rw [← hn']; split
    · simp [LList.maxInt32]
    · assumption
  have hclamp : LList.clampMax n' = LList.clampMax n := by
    unfold LList.clampMax; rw [← hn']
    split
    · rename_i h1; simp [h1, LList.maxInt32]
    · rename_i h1; simp [h1]
  have hcl : LList.clampMax n' = n'.toNat := by unfold LList.clampMax; simp [hpos]
  have hpk := ering_peek_spec b.ring h.ring n'
  simp only [hpos, ↓reduceIte] at hpk
  have hbuf := ering_buffered b.ring h.ring
  dsimp only
  split
  · rename_i hge
    have hlen : n'.toNat ≤ b.ring.content.length := by omega
    refine ⟨⟨b.ring.content.drop n'.toNat ++ LList.content b.list, ?_⟩, ?_⟩
    · simp only [List.flatten_cons, List.flatten_nil, List.append_nil, EBuf.content]
      rw [hpk, ← List.append_assoc, List.take_append_drop]
    · simp only [List.flatten_cons, List.flatten_nil, List.append_nil]
      rw [hpk, List.length_take, ← hclamp, hcl]; omega
  · rename_i hlt
    have hlen : b.ring.content.length < n'.toNat := by omega
    have hall : (b.ring.peek n').1 ++ (b.ring.peek n').2 = b.ring.content := by
      rw [hpk]; exact List.take_of_length_le (by omega)
    obtain ⟨⟨r, hr⟩, h2⟩ := peekWithBytes_spec b.list n' [(b.ring.peek n').1, (b.ring.peek n').2]
    simp only [List.flatten_cons, List.flatten_nil, List.append_nil] at hr h2
    rw [hall] at hr h2
    exact ⟨⟨r, hr⟩, by rw [← hclamp]; exact h2⟩

theorem ebuf_reset_spec (b : EBuf) (h : BInv b) (m : Int) : BInv (b.reset m) ∧ (b.reset m).content = [] := by
  unfold EBuf.reset
  obtain ⟨r1, r2⟩ := ering_reset_spec b.ring h.ring
  exact ⟨⟨r1, inv_empty⟩, by simp [EBuf.content, r2, LList.content]⟩

theorem ebuf_release_spec (p : Pool) (b : EBuf) (hp : PInv p) (h : BInv b) :
    PInv (b.release p).1 ∧ BInv (b.release p).2 ∧ (b.release p).2.content = [] := by
  unfold EBuf.release
  obtain ⟨r1, r2, r3⟩ := ering_release_spec p b.ring hp h.ring
  exact ⟨r1, ⟨r2, inv_empty⟩, by simp [EBuf.content, r3, LList.content]⟩


end RcVerif.Lemmas.ElasticBuf
