import RcVerif.Lemmas.Frame
import RcVerif.Spec.Resp
/-
  The characterisation of the client decoder: it accepts exactly the canonical
  encodings, consumes exactly one of them whatever follows, hands the handler
  `build …`, is "incomplete" on proper prefixes and never reaches a panic.
-/
namespace RcVerif.Lemmas.Decode
open RcVerif RcVerif.Resp RcVerif.CDecode RcVerif.Commands RcVerif.Lemmas.Decimal RcVerif.Lemmas.Frame

theorem bulk_eq_spec (b : Bytes) : bulk b = Spec.encBulk b := rfl

theorem bulks_eq_spec (bs : List Bytes) : bulks bs = (bs.map Spec.encBulk).flatten := rfl

theorem encodeCmd_eq_spec (name : Bytes) (args : List Bytes) :
    encodeCmd name args = Spec.encRequest (name :: args) := by
  simp [encodeCmd, Spec.encRequest, bulk_eq_spec, bulks_eq_spec]

theorem toLower_length (b : Bytes) : (toLower b).length = b.length := by simp [toLower]

/-- request size accepted by the decoder's 18-digit length fields -/
structure SmallReq (name : Bytes) (args : List Bytes) : Prop where
  nameS : Small name.length
  argsS : ∀ a ∈ args, Small a.length
  countS : Small (args.length + 1)

/-- the bytes the decoder copies into a single-key fragment: the request with
    only the command name lower-cased -/
theorem raw_eq (name : Bytes) (args : List Bytes) (t : Bytes) :
    let view := encodeCmd name args ++ t
    let consumed := view.length - t.length
    let a := view.length - (bulks args ++ t).length - 2 - name.length
    view.take a ++ toLower name ++ (view.take consumed).drop (a + name.length)
      = encodeCmd (toLower name) args := by
  intro view consumed a
  -- enc = H ++ name ++ R
  let H : Bytes := [42] ++ itoa (args.length + 1) ++ [13, 10] ++ ([36] ++ itoa name.length ++ [13, 10])
  let R : Bytes := [13, 10] ++ bulks args
  have henc : encodeCmd name args = H ++ name ++ R := by simp [encodeCmd, bulk, H, R]
  have hencl : encodeCmd (toLower name) args = H ++ toLower name ++ R := by
    simp [encodeCmd, bulk, H, R, toLower_length]
  have hcons : consumed = (H ++ name ++ R).length := by
    simp only [consumed, view, henc]; simp; omega
  have ha : a = H.length := by
    simp only [a, view, henc, R]; simp; omega
  have hview : view = H ++ (name ++ (R ++ t)) := by simp [view, henc]
  rw [hencl, ha]
  have h1 : view.take H.length = H := by rw [hview, List.take_left']; rfl
  have h2 : view.take consumed = H ++ name ++ R := by
    rw [hcons]
    have : view = (H ++ name ++ R) ++ t := by simp [view, henc]
    rw [this, List.take_left']; rfl
  rw [h1, h2]
  have h3 : (H ++ name ++ R).drop (H.length + name.length) = R := by
    have : H.length + name.length = (H ++ name).length := by simp
    rw [this, List.drop_left']; rfl
  rw [h3]

/-- **acceptance**: the canonical encoding of any request, followed by anything,
    is decoded to `build …` and exactly its own bytes are consumed -/
theorem decode_encode (T : Tables) (slot : Bytes → Nat) (limit : Nat)
    (name : Bytes) (args : List Bytes) (t : Bytes) (hs : SmallReq name args) :
    decode T slot limit (encodeCmd name args ++ t) =
      .ok (build T slot limit name args (encodeCmd (toLower name) args) (encodeCmd name args).length)
          (encodeCmd name args).length := by
  unfold decode
  rw [frame_encode name args t hs.nameS hs.argsS hs.countS]
  simp only
  have hc : (encodeCmd name args ++ t).length - t.length = (encodeCmd name args).length := by simp
  have hraw := raw_eq name args t
  simp only at hraw
  rw [hraw, hc]

/-- **characterisation**: whatever the decoder accepts is a canonical encoding -/
theorem decode_ok (T : Tables) (slot : Bytes → Nat) (limit : Nat) (view : Bytes) (m : CMsg) (n : Nat)
    (h : decode T slot limit view = .ok m n) :
    ∃ name args t, view = encodeCmd name args ++ t ∧ SmallReq name args ∧
      n = (encodeCmd name args).length ∧
      m = build T slot limit name args (encodeCmd (toLower name) args) n := by
  unfold decode at h
  cases hf : frame view with
  | error e => rw [hf] at h; cases e <;> simp at h
  | ok v =>
    obtain ⟨name, args, r1, r⟩ := v
    obtain ⟨hv, _, h1, h2, h3⟩ := frame_ok view name args r1 r hf
    have hs : SmallReq name args := ⟨h1, h2, h3⟩
    have hd := decode_encode T slot limit name args r hs
    rw [← hv] at hd
    unfold decode at hd
    rw [hf] at h hd
    rw [hd] at h
    injection h with hm hn
    exact ⟨name, args, r, hv, hs, hn.symm, by rw [← hn]; exact hm.symm⟩

/-- **prefix**: a proper prefix of a canonical encoding is never an error, only "incomplete" -/
theorem decode_prefix (T : Tables) (slot : Bytes → Nat) (limit : Nat)
    (name : Bytes) (args : List Bytes) (p s : Bytes) (hsm : SmallReq name args)
    (hs : s ≠ []) (h : p ++ s = encodeCmd name args) :
    decode T slot limit p = .incomplete := by
  unfold decode
  rw [frame_prefix name args p s hsm.nameS hsm.argsS hsm.countS hs h]

theorem parseLine_no_panic (rest : Bytes) : parseLine rest ≠ .error .panic := by
  unfold parseLine
  cases hrl : readLine rest with
  | error e => cases e <;> simp [ofRErr]
  | ok v =>
    obtain ⟨line, rest1⟩ := v
    obtain ⟨_, hne, _⟩ := readLine_ok rest line rest1 hrl
    simp only
    split
    · exact absurd rfl hne
    · split
      · simp
      · split
        · simp
        · split
          · rename_i e _; cases e <;> simp [ofRErr]
          · split
            · simp
            · split <;> simp
    · simp

theorem parseArgs_no_panic (n : Nat) (rest : Bytes) : parseArgs n rest ≠ .error .panic := by
  induction n generalizing rest with
  | zero => simp [parseArgs]
  | succ n ih =>
    simp only [parseArgs]
    cases hp : parseLine rest with
    | error e =>
      have := parseLine_no_panic rest
      rw [hp] at this
      simp only
      intro hc; injection hc with hc; subst hc; exact this rfl
    | ok v =>
      simp only
      cases hq : parseArgs n v.2 with
      | error e =>
        have := ih v.2
        rw [hq] at this
        simp only
        intro hc; injection hc with hc; subst hc; exact this rfl
      | ok w => simp

theorem frame_no_panic (view : Bytes) : frame view ≠ .error .panic := by
  unfold frame
  split
  · simp
  · cases hrl : readLine view with
    | error e => cases e <;> simp
    | ok v =>
      obtain ⟨line, rest0⟩ := v
      obtain ⟨_, hne, _⟩ := readLine_ok view line rest0 hrl
      simp only
      split
      · exact absurd rfl hne
      · split
        · simp
        · split
          · simp
          · cases hp : parseLine rest0 with
            | error e =>
              have := parseLine_no_panic rest0
              rw [hp] at this
              simp only
              intro hc; injection hc with hc; subst hc; exact this rfl
            | ok v1 =>
              simp only
              rename_i n _ _
              cases hq : parseArgs (n.toNat - 1) v1.2 with
              | error e =>
                have := parseArgs_no_panic (n.toNat - 1) v1.2
                rw [hq] at this
                simp only
                intro hc; injection hc with hc; subst hc; exact this rfl
              | ok w => simp
      · simp

/-- **totality**: no byte string drives the decoder into a Go panic -/
theorem decode_no_panic (T : Tables) (slot : Bytes → Nat) (limit : Nat) (view : Bytes) :
    decode T slot limit view ≠ .panic := by
  unfold decode
  cases hf : frame view with
  | error e =>
    cases e with
    | panic => exact absurd hf (frame_no_panic view)
    | incomplete => simp
    | invalid => simp
  | ok v => simp

end RcVerif.Lemmas.Decode
