import RcVerif.Lemmas.SimPend
/-
  Termination of redirect handling, over all histories: the number of times a fragment has been re-queued by a
  redirect never exceeds its redirect counter, nor `maxRedirects`. The counter is written by `onMoved` only
  (`RedSame` for every reply merge and every completion), re-sends are queued by `onMoved` only (`RKeep` for
  everything else), and `onMoved` re-sends only below the bound, raising the counter with it.
-/
namespace RcVerif.Lemmas.SimRedir
open RcVerif RcVerif.Sim RcVerif.Merge RcVerif.Lemmas.SimInv RcVerif.Lemmas.SimBack RcVerif.Lemmas.SimPend
open RcVerif.Props.C13 (redOf)
open RcVerif.Props.C03 (msgs_flushClient msgs_deliver msgs_updReq_other)

/-! ### the redirect counter is written by nothing but `onMoved` -/

def RedSame (m m' : MMsg) : Prop := ∀ slot, redOf m' slot = redOf m slot

theorem RedSame.refl (m : MMsg) : RedSame m m := fun _ => rfl
theorem RedSame.trans {a b c : MMsg} (h1 : RedSame a b) (h2 : RedSame b c) : RedSame a c :=
  fun slot => by rw [h2 slot, h1 slot]

theorem getFrag_mapFrags (frags : List MFrag) (g : MFrag → MFrag) (hg : ∀ x, (g x).slot = x.slot) (slot : Nat) :
    (frags.map g).find? (·.slot = slot) = (frags.find? (·.slot = slot)).map g := by
  induction frags with
  | nil => rfl
  | cons x xs ih =>
    simp only [List.map_cons, List.find?_cons, hg]
    by_cases hx : x.slot = slot
    · simp [hx]
    · simp [hx, ih]

theorem redSame_mapFrags (m : MMsg) (g : MFrag → MFrag) (hg : ∀ x, (g x).slot = x.slot)
    (hr : ∀ x, (g x).redirects = x.redirects) : RedSame m { m with frags := m.frags.map g } := by
  intro slot
  unfold redOf getFrag
  dsimp only
  rw [getFrag_mapFrags m.frags g hg slot]
  cases m.frags.find? (·.slot = slot) <;> simp [hr]

theorem redSame_setFrag (m : MMsg) (slot : Nat) (g : MFrag → MFrag) (hg : ∀ x, (g x).slot = x.slot)
    (hr : ∀ x, (g x).redirects = x.redirects) : RedSame m (setFrag m slot g) := by
  unfold setFrag
  apply redSame_mapFrags m (fun x => if x.slot = slot then g x else x)
  · intro x; split <;> simp [hg]
  · intro x; split <;> simp [hr]

theorem redSame_allDone (m : MMsg) : RedSame m (allDone m) :=
  redSame_mapFrags m _ (fun _ => rfl) (fun _ => rfl)

theorem redSame_frags (m m' : MMsg) (h : m'.frags = m.frags) : RedSame m m' := by
  intro slot; unfold redOf getFrag; rw [h]

theorem redSame_failWith (m : MMsg) (e : Bytes) : RedSame m (failWith m e).1 := by
  unfold failWith
  exact RedSame.trans (redSame_frags m { m with err := e, fragDone := m.frags.length, rspBody := e, done := true } rfl) (redSame_allDone _)

theorem redSame_failReq (m : MMsg) (e : Bytes) : RedSame m (failReq m e) := by
  unfold failReq
  exact RedSame.trans (redSame_frags m { m with err := e, fragDone := m.frags.length, rspBody := e, done := true } rfl) (redSame_allDone _)

theorem redSame_mergeMGet (K : Merge.Consts) (slotFn : Bytes → Nat) (limit : Nat) (m : MMsg) (slot rtype : Nat) (body : Bytes) :
    RedSame m (mergeMGet K slotFn limit m slot rtype body).1 := by
  unfold mergeMGet
  split
  · exact RedSame.refl m
  · dsimp only
    have h2 := redSame_setFrag m slot (fun x => { x with rsp := (‹Option (List Bytes)›).getD [], done := true, rtype := rtype }) (fun _ => rfl) (fun _ => rfl)
    split
    · refine RedSame.trans h2 (RedSame.trans ?_ (redSame_failWith _ _))
      exact redSame_setFrag _ slot _ (fun _ => rfl) (fun _ => rfl)
    · split
      · exact h2
      · split
        · exact h2
        · split
          · exact RedSame.trans h2 (redSame_frags _ _ rfl)
          · exact RedSame.trans h2 (redSame_frags _ _ rfl)

theorem redSame_mergeMSet (T : Tables) (K : Merge.Consts) (m : MMsg) (slot rtype : Nat) :
    RedSame m (mergeMSet T K m slot rtype).1 := by
  unfold mergeMSet
  dsimp only
  have h2 := redSame_setFrag m slot (fun x => { x with ok := (rtype = T.rOk), done := true, rtype := rtype }) (fun _ => rfl) (fun _ => rfl)
  split
  · exact h2
  · split
    · exact RedSame.trans h2 (redSame_frags _ _ rfl)
    · exact RedSame.trans h2 (redSame_frags _ _ rfl)

theorem redSame_mergeDel (m : MMsg) (slot rtype : Nat) (body : Bytes) : RedSame m (mergeDel m slot rtype body).1 := by
  have core : ∀ n : Int, RedSame m
      (if (setFrag { m with delNum := m.delNum + n } slot (fun x => { x with done := true, rtype := rtype })).fragDone <
          (setFrag { m with delNum := m.delNum + n } slot (fun x => { x with done := true, rtype := rtype })).frags.length
       then (setFrag { m with delNum := m.delNum + n } slot (fun x => { x with done := true, rtype := rtype }), Signal.waiting)
       else ({ (setFrag { m with delNum := m.delNum + n } slot (fun x => { x with done := true, rtype := rtype })) with
                done := true, rspBody := [58] ++ itoaInt (setFrag { m with delNum := m.delNum + n } slot (fun x => { x with done := true, rtype := rtype })).delNum ++ [13, 10] }, Signal.ready)).1 := by
    intro n
    have h2 : RedSame m (setFrag { m with delNum := m.delNum + n } slot (fun x => { x with done := true, rtype := rtype })) :=
      RedSame.trans (redSame_frags m { m with delNum := m.delNum + n } rfl)
        (redSame_setFrag _ slot (fun x => { x with done := true, rtype := rtype }) (fun _ => rfl) (fun _ => rfl))
    split
    · exact h2
    · exact RedSame.trans h2 (redSame_frags _ _ rfl)
  unfold mergeDel
  exact core _

theorem redSame_mergeDefault (m : MMsg) (slot rtype : Nat) (body : Bytes) : RedSame m (mergeDefault m slot rtype body).1 := by
  unfold mergeDefault
  have h2 := redSame_setFrag m slot (fun x => { x with done := true, rtype := rtype }) (fun _ => rfl) (fun _ => rfl)
  exact RedSame.trans h2 (redSame_frags _ _ rfl)

theorem redSame_tail (T : Tables) (K : Merge.Consts) (slotFn : Bytes → Nat) (limit : Nat) (m : MMsg) (slot rtype : Nat)
    (body : Bytes) (e1 : Bytes) : RedSame m
      (if e1 ≠ [] then failWith (setFrag (bump m) slot (fun x => { x with err := e1, rtype := rtype })) e1
       else if m.type = T.cMget then mergeMGet K slotFn limit (bump m) slot rtype body
       else if m.type = T.cMset then mergeMSet T K (bump m) slot rtype
       else if m.type = T.cDel then mergeDel (bump m) slot rtype body
       else mergeDefault (bump m) slot rtype body).1 := by
  have hb : RedSame m (bump m) := redSame_frags m (bump m) rfl
  split
  · exact RedSame.trans (RedSame.trans hb (redSame_setFrag _ slot (fun x => { x with err := e1, rtype := rtype }) (fun _ => rfl) (fun _ => rfl))) (redSame_failWith _ _)
  · split
    · exact RedSame.trans hb (redSame_mergeMGet K slotFn limit (bump m) slot rtype body)
    · split
      · exact RedSame.trans hb (redSame_mergeMSet T K (bump m) slot rtype)
      · split
        · exact RedSame.trans hb (redSame_mergeDel (bump m) slot rtype body)
        · exact RedSame.trans hb (redSame_mergeDefault (bump m) slot rtype body)

theorem redSame_onReply (T : Tables) (K : Merge.Consts) (slotFn : Bytes → Nat) (limit : Nat) (m : MMsg) (slot rtype : Nat)
    (body : Bytes) : RedSame m (onReply T K slotFn limit m slot rtype body).1 := by
  unfold onReply
  split
  · exact RedSame.refl m
  · split
    · exact RedSame.refl m
    · split
      · exact redSame_setFrag m slot (fun x => { x with rtype := rtype }) (fun _ => rfl) (fun _ => rfl)
      · exact redSame_tail T K slotFn limit m slot rtype body _


/-! ### counting re-sends -/

/-- a re-queued fragment (by a redirect): same fragment reference, not queued directly by a client request -/
def isResend (mi slot : Nat) (e : QEntry) : Bool := decide (e.ref = .frag mi slot) && e.direct.isNone

def resendsIn (l : List QEntry) (mi slot : Nat) : Nat := (l.filter (isResend mi slot)).length

/-- how often the fragment has been re-sent, over all connections -/
def resends (s : State) (mi slot : Nat) : Nat := (s.backends.map (fun b => resendsIn b.enq mi slot)).sum

/-- the fragment's redirect counter -/
def red (s : State) (mi slot : Nat) : Nat := match s.msgs[mi]? with | some r => redOf r.m slot | none => 0

structure RKeep (s s' : State) : Prop where
  red : ∀ mi slot, red s' mi slot = red s mi slot
  res : ∀ mi slot, resends s' mi slot = resends s mi slot

theorem RKeep.refl (s : State) : RKeep s s := ⟨fun _ _ => rfl, fun _ _ => rfl⟩
theorem RKeep.trans {a b c : State} (h1 : RKeep a b) (h2 : RKeep b c) : RKeep a c :=
  ⟨fun mi slot => by rw [h2.red, h1.red], fun mi slot => by rw [h2.res, h1.res]⟩

theorem rkeep_of_eq (s s' : State) (hm : s'.msgs = s.msgs) (hb : s'.backends = s.backends) : RKeep s s' :=
  ⟨fun mi slot => by unfold red; rw [hm], fun mi slot => by unfold resends; rw [hb]⟩

theorem rkeep_fail (s : State) (w : String) : RKeep s (s.fail w) := rkeep_of_eq _ _ (same_fail s w).2 (bsame_fail s w)
theorem rkeep_updClient (s : State) (c : Nat) (f : Client → Client) : RKeep s (s.updClient c f) := rkeep_of_eq _ _ rfl rfl
theorem rkeep_closeClient (s : State) (c : Nat) : RKeep s (closeClient s c) := rkeep_of_eq _ _ rfl rfl
theorem rkeep_flushClient (s : State) (c : Nat) : RKeep s (flushClient s c) :=
  rkeep_of_eq _ _ (msgs_flushClient s c) (bsame_flushClient s c)
theorem rkeep_deliver (s : State) (c : Nat) : RKeep s (deliver s c) := rkeep_of_eq _ _ (msgs_deliver s c) (bsame_deliver s c)
theorem rkeep_dropTimeout (s : State) (f : FragRef) : RKeep s (dropTimeout s f) := rkeep_of_eq _ _ rfl rfl

/-- an update of one request that does not touch redirect counters -/
theorem rkeep_updReq (s : State) (mi : Nat) (f : Req → Req) (hf : ∀ r, s.msgs[mi]? = some r → RedSame r.m (f r).m) :
    RKeep s (s.updReq mi f) := by
  refine ⟨fun mj slot => ?_, fun _ _ => rfl⟩
  unfold red
  show (match (setAt s.msgs mi f)[mj]? with | some r => redOf r.m slot | none => 0) = _
  rw [getElem?_setAt]
  cases hr : s.msgs[mj]? with
  | none => simp
  | some r =>
    by_cases h : mj = mi
    · subst h; simp [hf r hr slot]
    · simp [h]

theorem redOf_zero_of_frags (m : MMsg) (h : ∀ f ∈ m.frags, f.redirects = 0) (slot : Nat) : redOf m slot = 0 := by
  unfold redOf
  cases hg : getFrag m slot with
  | none => rfl
  | some f =>
    have := h f (getFrag_mem m slot f hg).1
    simp [this]

/-- appending a request whose fragments have never been redirected -/
theorem rkeep_appendMsg (s : State) (r : Req) (h : ∀ f ∈ r.m.frags, f.redirects = 0) : RKeep s { s with msgs := s.msgs ++ [r] } := by
  refine ⟨fun mi slot => ?_, fun _ _ => rfl⟩
  unfold red
  show (match (s.msgs ++ [r])[mi]? with | some r => redOf r.m slot | none => 0) = _
  rw [getElem?_append_new]
  by_cases hlt : mi < s.msgs.length
  · rw [if_pos hlt]
  · rw [if_neg hlt]
    have hnone : s.msgs[mi]? = none := by simp; omega
    rw [hnone]
    by_cases heq : mi = s.msgs.length
    · rw [if_pos heq]; simp [redOf_zero_of_frags r.m h slot]
    · rw [if_neg heq]

theorem ofCMsg_red0 (cm : CDecode.CMsg) : ∀ f ∈ (ofCMsg cm).frags, f.redirects = 0 := by
  intro f hf
  simp only [ofCMsg, List.mem_map] at hf
  obtain ⟨p, _, rfl⟩ := hf
  rfl

theorem rkeep_answerLocal (s : State) (c : Nat) (cm : CDecode.CMsg) (out : Bytes) : RKeep s (answerLocal s c (ofCMsg cm) out) := by
  unfold answerLocal
  split
  · exact RKeep.refl s
  · dsimp only
    split
    · exact rkeep_updClient s c _
    · refine RKeep.trans ?_ (rkeep_updClient _ c _)
      exact rkeep_appendMsg s _ (ofCMsg_red0 cm)

theorem setAt_cons_zero (y : Backend) (ys : List Backend) (f : Backend → Backend) : setAt (y :: ys) 0 f = f y :: ys := by
  apply List.ext_getElem?
  intro i
  rw [getElem?_setAt]
  cases i with
  | zero => simp
  | succ i => cases ys[i]? <;> simp

theorem setAt_cons_succ (y : Backend) (ys : List Backend) (b : Nat) (f : Backend → Backend) :
    setAt (y :: ys) (b + 1) f = y :: setAt ys b f := by
  apply List.ext_getElem?
  intro i
  rw [getElem?_setAt]
  cases i with
  | zero => simp
  | succ i => simp [getElem?_setAt]

theorem sum_map_setAt (l : List Backend) (b : Nat) (f : Backend → Backend) (g : Backend → Nat) (x : Backend)
    (hx : l[b]? = some x) : ((setAt l b f).map g).sum + g x = (l.map g).sum + g (f x) := by
  induction l generalizing b with
  | nil => simp at hx
  | cons y ys ih =>
    cases b with
    | zero =>
      simp at hx; subst hx
      rw [setAt_cons_zero]; simp; omega
    | succ b =>
      have hx' : ys[b]? = some x := by simpa using hx
      have := ih b hx'
      rw [setAt_cons_succ]; simp only [List.map_cons, List.sum_cons]; omega

theorem setAt_none (l : List Backend) (b : Nat) (f : Backend → Backend) (h : l[b]? = none) : setAt l b f = l := by
  apply List.ext_getElem?
  intro i
  rw [getElem?_setAt]
  by_cases hib : i = b
  · subst hib; simp [h]
  · cases l[i]? <;> simp [hib]

/-- an update of one connection that leaves its queue history alone -/
theorem rkeep_updBackend (s : State) (b : Nat) (f : Backend → Backend) (hf : ∀ x, (f x).enq = x.enq) : RKeep s (s.updBackend b f) := by
  refine ⟨fun _ _ => rfl, fun mi slot => ?_⟩
  unfold resends
  show ((setAt s.backends b f).map _).sum = _
  cases hx : s.backends[b]? with
  | none => rw [setAt_none _ _ _ hx]
  | some x =>
    have := sum_map_setAt s.backends b f (fun b => resendsIn b.enq mi slot) x hx
    simp only [hf x] at this
    omega

/-- `EnqueueOutFrag` of an entry that is not a re-send of this fragment -/
theorem resends_enqueueOut (s : State) (b : Nat) (e : QEntry) (mi slot : Nat) :
    resends (enqueueOut s b e) mi slot =
      resends s mi slot + (if (s.backends[b]?).isSome ∧ isResend mi slot e = true then 1 else 0) := by
  unfold resends enqueueOut
  show ((setAt s.backends b _).map _).sum = _
  cases hx : s.backends[b]? with
  | none => rw [setAt_none _ _ _ hx]; simp
  | some x =>
    have := sum_map_setAt s.backends b (fun x => { x with outQ := x.outQ ++ [e], enq := x.enq ++ [e] })
      (fun b => resendsIn b.enq mi slot) x hx
    simp only [resendsIn, List.filter_append, List.length_append] at this ⊢
    by_cases hr : isResend mi slot e = true
    · simp [hr] at this ⊢; omega
    · simp [hr] at this ⊢; omega

theorem rkeep_enqueueOut_other (s : State) (b : Nat) (e : QEntry) (h : ∀ mi slot, isResend mi slot e = false) :
    RKeep s (enqueueOut s b e) := by
  refine ⟨fun _ _ => rfl, fun mi slot => ?_⟩
  rw [resends_enqueueOut]; simp [h mi slot]

theorem rkeep_appendBackend (s : State) (x : Backend) (ps : List Pool) (hx : x.enq = []) :
    RKeep s { s with backends := s.backends ++ [x], pools := ps } := by
  refine ⟨fun _ _ => rfl, fun mi slot => ?_⟩
  unfold resends
  simp [resendsIn, hx]

theorem rkeep_dial (S : Strs) (cfg : Cfg) (s : State) (p : Nat) : RKeep s (dial S cfg s p).1 := by
  unfold dial
  split
  · exact rkeep_fail s _
  · exact rkeep_appendBackend s _ _ rfl

theorem rkeep_poolGet (S : Strs) (cfg : Cfg) (s : State) (p : Nat) : RKeep s (poolGet S cfg s p).1 := by
  unfold poolGet
  split
  · exact rkeep_fail s _
  · split
    · exact rkeep_dial S cfg s p
    · split
      · exact rkeep_of_eq _ _ rfl rfl
      · refine RKeep.trans ?_ (rkeep_dial S cfg _ p)
        exact rkeep_of_eq _ _ rfl rfl

theorem rkeep_writeSignal (S : Strs) (cfg : Cfg) (s : State) (b : Nat) : RKeep s (writeSignal S cfg s b) := by
  unfold writeSignal
  split
  · exact RKeep.refl s
  · dsimp only
    split
    · exact RKeep.refl s
    · refine RKeep.trans ?_ (rkeep_of_eq (s.updBackend b _) _ rfl rfl)
      exact rkeep_updBackend s b _ (fun _ => rfl)

theorem rkeep_resolve (T : Tables) (S : Strs) (cfg : Cfg) (ty : Nat) (s : State) (vs : List (Nat × Bytes)) (acc : List (Nat × Nat)) :
    RKeep s (resolve T S cfg ty s vs acc).1 := by
  induction vs generalizing s acc with
  | nil => exact RKeep.refl s
  | cons v vs ih =>
    obtain ⟨slot, addr⟩ := v
    unfold resolve
    split
    · exact RKeep.refl s
    · split
      · exact rkeep_fail s _
      · split
        · exact RKeep.refl s
        · split
          · exact RKeep.refl s
          · exact RKeep.trans (rkeep_poolGet S cfg s _) (ih _ _)


theorem rkeep_foldl_enqueue_direct (targets : List (Nat × Nat)) (g : Nat × Nat → QEntry) (s : State)
    (hg : ∀ t, (g t).direct.isSome = true) : RKeep s (targets.foldl (fun st t => enqueueOut st t.2 (g t)) s) := by
  induction targets generalizing s with
  | nil => exact RKeep.refl s
  | cons t ts ih =>
    refine RKeep.trans (rkeep_enqueueOut_other s t.2 (g t) (fun mi slot => ?_)) (ih _)
    unfold isResend
    have := hg t
    cases hd : (g t).direct with
    | none => rw [hd] at this; simp at this
    | some _ => simp

theorem rkeep_acceptReq (s : State) (c : Nat) (m : MMsg) (h : ∀ f ∈ m.frags, f.redirects = 0) : RKeep s (acceptReq s c m).1 := by
  unfold acceptReq
  dsimp only
  split
  · exact RKeep.refl s
  · refine RKeep.trans ?_ (rkeep_updClient _ c _)
    exact rkeep_appendMsg s _ h

theorem rkeep_forward (T : Tables) (S : Strs) (cfg : Cfg) (s : State) (c : Nat) (cm : CDecode.CMsg) (ch : ReqChoice) :
    RKeep s (forward T S cfg s c cm ch) := by
  unfold forward
  dsimp only
  split
  · exact rkeep_fail s _
  · have h1 := rkeep_resolve T S cfg cm.type s ch.visit []
    generalize resolve T S cfg cm.type s ch.visit [] = res at h1
    obtain ⟨s1, targets, rej⟩ := res
    refine RKeep.trans h1 ?_
    cases rej with
    | some e => exact rkeep_answerLocal s1 c cm e
    | none =>
      simp only
      split
      · exact RKeep.refl s1
      · split
        · exact rkeep_fail s1 _
        · have hfr : ∀ f ∈ ({ ofCMsg cm with frags := targets.filterMap (fun t => getFrag (ofCMsg cm) t.1) } : MMsg).frags, f.redirects = 0 := by
            intro f hf
            simp only [List.mem_filterMap] at hf
            obtain ⟨t, _, hg⟩ := hf
            exact ofCMsg_red0 cm f (getFrag_mem _ _ f hg).1
          have h2 := rkeep_acceptReq s1 c _ hfr
          generalize acceptReq s1 c _ = acc at h2
          obtain ⟨s2, id⟩ := acc
          refine RKeep.trans h2 ?_
          exact rkeep_foldl_enqueue_direct targets _ s2 (fun _ => rfl)

theorem rkeep_onRequest (T : Tables) (S : Strs) (cfg : Cfg) (s : State) (c : Nat) (cm : CDecode.CMsg) (ch : ReqChoice) :
    RKeep s (onRequest T S cfg s c cm ch).1 := by
  unfold onRequest
  split
  · exact rkeep_answerLocal s c cm _
  · exact rkeep_forward T S cfg s c cm ch

theorem rkeep_creadLoop (T : Tables) (S : Strs) (cfg : Cfg) (slotFn : Bytes → Nat) (fuel : Nat) :
    ∀ (s : State) (c : Nat) (view : Bytes) (chs : List ReqChoice), RKeep s (creadLoop T S cfg slotFn fuel s c view chs) := by
  induction fuel with
  | zero => intro s c view chs; exact RKeep.refl s
  | succ fuel ih =>
    intro s c view chs
    unfold creadLoop
    split
    · exact rkeep_closeClient s c
    · exact rkeep_fail s _
    · exact rkeep_updClient s c _
    · rename_i cm n _
      dsimp only
      have hg := rkeep_onRequest T S cfg s c cm
        (if (localAnswer T S cfg cm).isNone = true then (chs.head?.getD { visit := [] }, chs.tail) else ({ visit := [] }, chs)).1
      generalize onRequest T S cfg s c cm
        (if (localAnswer T S cfg cm).isNone = true then (chs.head?.getD { visit := [] }, chs.tail) else ({ visit := [] }, chs)).1 = res at hg
      obtain ⟨s1, quit⟩ := res
      simp only at hg ⊢
      split
      · exact hg
      · split
        · split
          · split
            · exact RKeep.trans hg (rkeep_closeClient s1 c)
            · exact RKeep.trans hg (rkeep_updClient s1 c _)
          · exact hg
        · split
          · split
            · exact hg
            · exact RKeep.trans hg (ih s1 c _ _)
          · exact hg

theorem rkeep_clientBytes (T : Tables) (S : Strs) (cfg : Cfg) (slotFn : Bytes → Nat) (s : State) (c : Nat)
    (chunk : Bytes) (chs : List ReqChoice) : RKeep s (clientBytes T S cfg slotFn s c chunk chs) := by
  unfold clientBytes
  split
  · exact RKeep.refl s
  · split
    · exact RKeep.refl s
    · exact RKeep.trans (rkeep_updClient s c _) (rkeep_creadLoop T S cfg slotFn _ _ c _ chs)

/-! ### the re-send bound -/

/-- no fragment has been re-sent more often than its redirect counter says, and never more than `maxRedirects` times -/
def RInv (S : Strs) (s : State) : Prop := ∀ mi slot, resends s mi slot ≤ min (red s mi slot) S.maxRedirects

theorem rinv_keep (S : Strs) (s s' : State) (hk : RKeep s s') (h : RInv S s) : RInv S s' := by
  intro mi slot; rw [hk.red, hk.res]; exact h mi slot

theorem red_updReq_other (s : State) (mi mj : Nat) (f : Req → Req) (slot : Nat) (h : mj ≠ mi) :
    red (s.updReq mi f) mj slot = red s mj slot := by
  unfold red; rw [msgs_updReq_other s mi mj f h]

theorem ite_le_one (P : Prop) [Decidable P] : (if P then 1 else 0) ≤ 1 := by split <;> omega

/-- `OnMoved` keeps the bound: a re-send happens only below the bound and raises the counter with it -/
theorem rinv_onMoved (S : Strs) (cfg : Cfg) (s : State) (mi slot : Nat) (isAsk : Bool) (addr : Bytes)
    (h : RInv S s) (hex : ∀ r, s.msgs[mi]? = some r → ∃ f, getFrag r.m slot = some f) :
    RInv S (onMoved S cfg s mi slot isAsk addr) := by
  unfold onMoved State.req
  cases hr : s.msgs[mi]? with
  | none => exact rinv_keep S _ _ (rkeep_fail s _) h
  | some r =>
    dsimp only
    obtain ⟨fr, hfr⟩ := hex r hr
    have hro : ((getFrag r.m slot).map (·.redirects)).getD 0 = fr.redirects := by simp [hfr]
    rw [hro]
    -- the state with the counter raised
    have hr1 : (s.updReq mi (fun r => { r with m := setFrag r.m slot (fun f => { f with redirects := f.redirects + 1 }) })).msgs[mi]? =
        some { r with m := setFrag r.m slot (fun f => { f with redirects := f.redirects + 1 }) } := msgs_updReq_same s mi _ r hr
    have hredS : red s mi slot = fr.redirects := by unfold red; rw [hr]; simp [redOf, hfr]
    have hred1 : ∀ mj slot', red (s.updReq mi (fun r => { r with m := setFrag r.m slot (fun f => { f with redirects := f.redirects + 1 }) })) mj slot' =
        if mj = mi ∧ slot' = slot then red s mj slot' + 1 else red s mj slot' := by
      intro mj slot'
      by_cases hmj : mj = mi
      · subst hmj
        unfold red
        rw [hr1, hr]
        dsimp only
        unfold redOf
        by_cases hs : slot' = slot
        · subst hs
          rw [RcVerif.Props.C13.getFrag_setFrag r.m slot' (fun f => { f with redirects := f.redirects + 1 }) (fun _ => rfl), hfr]
          simp
        · rw [getFrag_setFrag_other r.m slot slot' (fun f => { f with redirects := f.redirects + 1 }) (fun _ => rfl) hs]
          simp [hs]
      · rw [red_updReq_other s mi mj _ slot' hmj]; simp [hmj]
    have hres1 : ∀ mj slot', resends (s.updReq mi (fun r => { r with m := setFrag r.m slot (fun f => { f with redirects := f.redirects + 1 }) })) mj slot' = resends s mj slot' :=
      fun _ _ => rfl
    -- raising the counter alone keeps the bound
    have h1 : RInv S (s.updReq mi (fun r => { r with m := setFrag r.m slot (fun f => { f with redirects := f.redirects + 1 }) })) := by
      intro mj slot'
      rw [hres1, hred1]
      have := h mj slot'
      split <;> omega
    have hfail : ∀ e, RInv S (flushClient ((s.updReq mi (fun r => { r with m := setFrag r.m slot (fun f => { f with redirects := f.redirects + 1 }) })).updReq mi
        (fun r => { r with m := failReq (setFrag r.m slot (fun f => { f with err := e })) e })) r.owner) := by
      intro e
      apply rinv_keep S _ _ (rkeep_flushClient _ _)
      apply rinv_keep S _ _ _ h1
      apply rkeep_updReq
      intro r0 _
      exact RedSame.trans (redSame_setFrag r0.m slot (fun f => { f with err := e }) (fun _ => rfl) (fun _ => rfl)) (redSame_failReq _ e)
    split
    · exact hfail _
    · rename_i hbound
      split
      · exact hfail _
      · rename_i p hp
        -- re-send: the counter went up with it
        have h2 := rinv_keep S _ _ (rkeep_poolGet S cfg _ p) h1
        have hk2 := rkeep_poolGet S cfg (s.updReq mi (fun r => { r with m := setFrag r.m slot (fun f => { f with redirects := f.redirects + 1 }) })) p
        intro mj slot'
        rw [resends_enqueueOut]
        have hask : ∀ st b, resends (if isAsk = true then enqueueOut st b { ref := .asking, bytes := S.asking } else st) mj slot' = resends st mj slot' := by
          intro st b
          split
          · rw [resends_enqueueOut]; simp [isResend]
          · rfl
        have hredE : ∀ st b e, red (enqueueOut st b e) mj slot' = red st mj slot' := fun _ _ _ => rfl
        have hredA : ∀ st b, red (if isAsk = true then enqueueOut st b { ref := .asking, bytes := S.asking } else st) mj slot' = red st mj slot' := by
          intro st b; split <;> rfl
        rw [hredE, hask, hredA, hk2.red, hk2.res, hres1, hred1]
        have hb := h mj slot'
        by_cases hsame : mj = mi ∧ slot' = slot
        · obtain ⟨e1, e2⟩ := hsame
          subst e1; subst e2
          simp only [and_self, ↓reduceIte]
          rw [hredS] at hb ⊢
          refine Nat.le_trans (Nat.add_le_add_left (ite_le_one _) _) ?_
          omega
        · simp only [hsame, ↓reduceIte]
          have hnot : isResend mj slot' { ref := .frag mi slot, bytes := fragReq S (s.updReq mi (fun r => { r with m := setFrag r.m slot (fun f => { f with redirects := f.redirects + 1 }) })) (.frag mi slot) } = false := by
            unfold isResend
            simp only [Bool.and_eq_false_iff, decide_eq_false_iff_not]
            left
            intro he
            injection he with e1 e2
            exact hsame ⟨e1.symm, e2.symm⟩
          simp only [hnot, Bool.false_eq_true, and_false, ↓reduceIte, Nat.add_zero]
          exact hb


theorem onReply_redirect_frag (T : Tables) (K : Merge.Consts) (slotFn : Bytes → Nat) (limit : Nat) (m : MMsg)
    (slot rtype : Nat) (body : Bytes) (h : (onReply T K slotFn limit m slot rtype body).2 = .redirect) :
    ∃ f, getFrag (onReply T K slotFn limit m slot rtype body).1 slot = some f := by
  have hspec := spec_onReply T K slotFn limit m slot rtype body
  unfold onReply at h ⊢
  cases hg : getFrag m slot with
  | none => rw [hg] at h; simp at h
  | some f =>
    rw [hg] at h
    dsimp only at h ⊢
    by_cases hd : f.done = true
    · simp [hd] at h
    · simp only [hd, Bool.false_eq_true, ↓reduceIte] at h ⊢
      by_cases hr : rtype = T.rMoved ∨ rtype = T.rAsk
      · simp only [hr, ↓reduceIte]
        rw [RcVerif.Props.C13.getFrag_setFrag m slot (fun x => { x with rtype := rtype }) (fun _ => rfl), hg]
        exact ⟨_, rfl⟩
      · exfalso
        simp only [hr, ↓reduceIte] at h
        -- every other branch signals ready, waiting or panic
        have key : ∀ (e1 : Bytes), (if e1 ≠ [] then failWith (setFrag (bump m) slot (fun x => { x with err := e1, rtype := rtype })) e1
            else if m.type = T.cMget then mergeMGet K slotFn limit (bump m) slot rtype body
            else if m.type = T.cMset then mergeMSet T K (bump m) slot rtype
            else if m.type = T.cDel then mergeDel (bump m) slot rtype body
            else mergeDefault (bump m) slot rtype body).2 ≠ .redirect := by
          intro e1
          split
          · simp [failWith]
          · split
            · unfold mergeMGet
              split
              · simp
              · dsimp only
                split
                · simp [failWith]
                · split
                  · simp
                  · split
                    · simp
                    · split <;> simp
            · split
              · unfold mergeMSet
                dsimp only
                split
                · simp
                · split <;> simp
              · split
                · unfold mergeDel
                  dsimp only
                  split <;> (split <;> simp)
                · simp [mergeDefault]
        exact key _ h

theorem rkeep_initPrelude (s : State) (b : Nat) (x : Backend) (view : Bytes) (s' : State) (v' : Bytes)
    (h : initPrelude s b x view = some (s', v')) : RKeep s s' := by
  unfold initPrelude at h
  split at h
  · split at h
    · simp at h
    · injection h with h; injection h with h1 _; subst h1; exact rkeep_updBackend s b _ (fun _ => rfl)
    · injection h with h; injection h with h1 _; subst h1; exact RKeep.refl s
    · injection h with h; injection h with h1 _; subst h1; exact rkeep_fail s _
  · injection h with h; injection h with h1 _; subst h1; exact RKeep.refl s

theorem rinv_onFragReply (T : Tables) (S : Strs) (cfg : Cfg) (slotFn : Bytes → Nat) (s : State) (mi slot rtype : Nat)
    (body : Bytes) (h : RInv S s) : RInv S (onFragReply T S cfg slotFn s mi slot rtype body).1 := by
  unfold onFragReply State.req
  cases hr : s.msgs[mi]? with
  | none => exact rinv_keep S _ _ (rkeep_fail s _) h
  | some r =>
    dsimp only
    have hrs := redSame_onReply T S.merge slotFn cfg.limit r.m slot rtype body
    have hfrag := onReply_redirect_frag T S.merge slotFn cfg.limit r.m slot rtype body
    generalize onReply T S.merge slotFn cfg.limit r.m slot rtype body = res at hrs hfrag
    obtain ⟨m', sig⟩ := res
    dsimp only at hrs hfrag ⊢
    have hk : RKeep s (s.updReq mi (fun r => { r with m := m' })) := by
      refine ⟨fun mj slot' => ?_, fun _ _ => rfl⟩
      by_cases hmj : mj = mi
      · subst hmj
        unfold red
        rw [msgs_updReq_same s mj _ r hr, hr]
        exact hrs slot'
      · exact red_updReq_other s mi mj _ slot' hmj
    have h1 := rinv_keep S _ _ hk h
    cases sig with
    | panic => exact rinv_keep S _ _ (rkeep_fail _ _) h1
    | dropped => exact h1
    | waiting => exact h1
    | redirect =>
      apply rinv_onMoved S cfg _ mi slot _ _ h1
      intro r0 hr0
      rw [msgs_updReq_same s mi _ r hr] at hr0
      injection hr0 with hr0; subst hr0
      exact hfrag rfl
    | ready =>
      dsimp only
      split
      · exact rinv_keep S _ _ (rkeep_fail _ _) h1
      · exact rinv_keep S _ _ (rkeep_deliver _ _) h1

theorem rinv_sreadLoop (T : Tables) (S : Strs) (cfg : Cfg) (slotFn : Bytes → Nat) (fuel : Nat) :
    ∀ (s : State) (b : Nat) (view : Bytes), RInv S s → RInv S (sreadLoop T S cfg slotFn fuel s b view) := by
  induction fuel with
  | zero => intro s b view h; exact h
  | succ fuel ih =>
    intro s b view h
    unfold sreadLoop
    split
    · exact h
    · rename_i x _
      split
      · exact h
      · split
        · exact rinv_keep S _ _ (rkeep_updBackend s b _ (fun _ => rfl)) h
        · rename_i s1 v1 hinit
          have h1 : RInv S s1 := rinv_keep S _ _ (rkeep_initPrelude s b x view s1 v1 hinit) h
          split
          · exact h1
          · split
            · exact rinv_keep S _ _ (rkeep_updBackend s1 b _ (fun _ => rfl)) h1
            · exact rinv_keep S _ _ (rkeep_fail s1 _) h1
            · rename_i rtype n _
              split
              · exact rinv_keep S _ _ (rkeep_fail s1 _) h1
              · rename_i f inQ' _
                dsimp only
                have h2 : RInv S (dropTimeout (s1.updBackend b (fun x => { x with inQ := inQ' })) f) := by
                  apply rinv_keep S _ _ (rkeep_dropTimeout _ f)
                  exact rinv_keep S _ _ (rkeep_updBackend s1 b _ (fun _ => rfl)) h1
                split
                · exact ih _ b _ h2
                · split
                  · exact rinv_keep S _ _ (rkeep_fail _ _) h2
                  · exact ih _ b _ h2
                · rename_i mi slot _
                  have hg := rinv_onFragReply T S cfg slotFn _ mi slot rtype (v1.take n) h2
                  split
                  · rename_i s' heq
                    rw [heq] at hg
                    exact ih s' b _ hg
                  · rename_i s' heq
                    rw [heq] at hg
                    exact hg

theorem rinv_backendBytes (T : Tables) (S : Strs) (cfg : Cfg) (slotFn : Bytes → Nat) (s : State) (b : Nat) (chunk : Bytes)
    (h : RInv S s) : RInv S (backendBytes T S cfg slotFn s b chunk) := by
  unfold backendBytes
  split
  · exact h
  · split
    · exact h
    · exact rinv_sreadLoop T S cfg slotFn _ _ b _ (rinv_keep S _ _ (rkeep_updBackend s b _ (fun _ => rfl)) h)

theorem rkeep_cstep (S : Strs) (s : State) (f : FragRef) : RKeep s (cstep S s f) := by
  unfold cstep
  cases f with
  | asking => exact RKeep.refl s
  | probe => exact RKeep.refl s
  | frag mi slot =>
    dsimp only
    split
    · exact RKeep.refl s
    · split
      · exact RKeep.refl s
      · split
        · exact RKeep.refl s
        · refine RKeep.trans ?_ (rkeep_flushClient _ _)
          apply rkeep_updReq
          intro r0 _
          exact RedSame.trans (redSame_setFrag r0.m slot (fun f => { f with err := S.errBackendClosed }) (fun _ => rfl) (fun _ => rfl)) (redSame_failReq _ _)

theorem rkeep_foldl_cstep (S : Strs) (refs : List FragRef) (s : State) : RKeep s (refs.foldl (cstep S) s) := by
  induction refs generalizing s with
  | nil => exact RKeep.refl s
  | cons f fs ih => exact RKeep.trans (rkeep_cstep S s f) (ih _)

theorem rkeep_foldl_dropTimeout (refs : List FragRef) (s : State) : RKeep s (refs.foldl dropTimeout s) := by
  induction refs generalizing s with
  | nil => exact RKeep.refl s
  | cons f fs ih => exact RKeep.trans (rkeep_dropTimeout s f) (ih _)

theorem rkeep_backendClose (S : Strs) (s : State) (b : Nat) : RKeep s (backendClose S s b) := by
  unfold backendClose
  split
  · exact RKeep.refl s
  · split
    · exact RKeep.refl s
    · dsimp only
      refine RKeep.trans ?_ (rkeep_updBackend _ b _ (fun _ => rfl))
      refine RKeep.trans ?_ (rkeep_foldl_dropTimeout _ _)
      rw [failFrags_eq]
      exact rkeep_foldl_cstep S _ s

theorem rkeep_runTasks (S : Strs) (cfg : Cfg) (s : State) : RKeep s (runTasks S cfg s) := by
  unfold runTasks
  have : ∀ (ts : List Task) (s0 : State), RKeep s0 (ts.foldl (runTask S cfg (backendClose S)) s0) := by
    intro ts
    induction ts with
    | nil => intro s0; exact RKeep.refl s0
    | cons t ts ih =>
      intro s0
      refine RKeep.trans ?_ (ih _)
      cases t with
      | write b => exact rkeep_writeSignal S cfg s0 b
      | close b => exact rkeep_backendClose S s0 b
  exact RKeep.trans (this s.tasks s) (rkeep_of_eq _ _ rfl rfl)

theorem rkeep_expire (S : Strs) (s : State) (n : Nat) : RKeep s (expire S s n) := by
  unfold expire
  dsimp only
  refine RKeep.trans (b := List.foldl _ s ((liveDeadlines s).take n)) ?_ (rkeep_of_eq _ _ rfl rfl)
  generalize (liveDeadlines s).take n = ts
  induction ts generalizing s with
  | nil => exact RKeep.refl s
  | cons f fs ih =>
    rw [List.foldl_cons]
    refine RKeep.trans ?_ (ih _)
    split
    · split
      · exact RKeep.refl s
      · split
        · exact RKeep.refl s
        · split
          · exact RKeep.refl s
          · rename_i mi slot _ r hreq _ _ _ _
            refine RKeep.trans ?_ (rkeep_flushClient _ _)
            apply rkeep_updReq
            intro r0 hr0
            have : r0 = r := by
              have h1 : s.msgs[mi]? = some r := hreq
              rw [h1] at hr0; injection hr0 with hr0; exact hr0.symm
            subst this
            refine RedSame.trans (redSame_mapFrags r0.m (fun x => if x.done then x else { x with err := S.errTimeout, done := true }) ?_ ?_) (redSame_frags _ _ rfl)
            · intro x; split <;> rfl
            · intro x; split <;> rfl
    · exact RKeep.refl s

theorem rinv_step (T : Tables) (S : Strs) (cfg : Cfg) (slotFn : Bytes → Nat) (s : State) (e : Event) (h : RInv S s) :
    RInv S (step T S cfg slotFn s e) := by
  unfold step
  split
  · exact h
  · cases e with
    | connect admitted => exact rinv_keep S _ _ (rkeep_of_eq s { s with clients := _ } rfl rfl) h
    | clientBytes c chunk chs => exact rinv_keep S _ _ (rkeep_clientBytes T S cfg slotFn s c chunk chs) h
    | clientClose c => exact rinv_keep S _ _ (rkeep_closeClient s c) h
    | runTasks => exact rinv_keep S _ _ (rkeep_runTasks S cfg s) h
    | backendBytes b chunk => exact rinv_backendBytes T S cfg slotFn s b chunk h
    | backendClose b => exact rinv_keep S _ _ (rkeep_backendClose S s b) h
    | expire n => exact rinv_keep S _ _ (rkeep_expire S s n) h
    | poolRemove p => exact rinv_keep S _ _ (rkeep_of_eq _ _ (same_poolRemove s p).2 (bsame_poolRemove s p)) h

theorem rinv_run (T : Tables) (S : Strs) (cfg : Cfg) (slotFn : Bytes → Nat) (es : List Event) (s : State) (h : RInv S s) :
    RInv S (run T S cfg slotFn s es) := by
  unfold run
  induction es generalizing s with
  | nil => exact h
  | cons e es ih => exact ih _ (rinv_step T S cfg slotFn s e h)

theorem rinv_init (S : Strs) (cfg : Cfg) (pools : List (Bytes × Bool)) (table : List (Nat × Nat × RSet)) :
    RInv S (init S cfg pools table) := by
  unfold init
  dsimp only
  have : ∀ (l : List Nat) (s : State), RInv S s → RInv S (l.foldl (fun s p => (poolGet S cfg s p).1) s) := by
    intro l
    induction l with
    | nil => intro s h; exact h
    | cons p l ih => intro s h; exact ih _ (rinv_keep S _ _ (rkeep_poolGet S cfg s p) h)
  apply this
  intro mi slot
  simp [resends]


end RcVerif.Lemmas.SimRedir
