import RcVerif.Model.CDecode
import RcVerif.Lemmas.Decimal
/-
  Framing lemmas for the client decoder: the decoder accepts exactly the
  canonical RESP encodings of (name, arguments), whatever follows them, and
  reports "incomplete" on every proper prefix of one.
-/
namespace RcVerif.Lemmas.Frame
open RcVerif RcVerif.Resp RcVerif.CDecode RcVerif.Lemmas.Decimal

/-- lengths the real decoder can express (at most 18 decimal digits) -/
def Small (n : Nat) : Prop := n < 10 ^ 18

theorem indexOf_append_of_not_mem (c : UInt8) (l r : Bytes) (h : c ∉ l) :
    indexOf c (l ++ c :: r) = some l.length := by
  induction l with
  | nil => simp [indexOf]
  | cons x xs ih =>
    have hx : x ≠ c := fun e => h (by simp [e])
    have hxs : c ∉ xs := fun e => h (by simp [e])
    simp [indexOf, hx, ih hxs]

theorem indexOf_none_of_not_mem (c : UInt8) (l : Bytes) (h : c ∉ l) : indexOf c l = none := by
  induction l with
  | nil => rfl
  | cons x xs ih =>
    have hx : x ≠ c := fun e => h (by simp [e])
    have hxs : c ∉ xs := fun e => h (by simp [e])
    simp [indexOf, hx, ih hxs]

theorem indexOf_some (c : UInt8) (l : Bytes) (i : Nat) (h : indexOf c l = some i) :
    l = l.take i ++ c :: l.drop (i + 1) ∧ c ∉ l.take i := by
  induction l generalizing i with
  | nil => simp [indexOf] at h
  | cons x xs ih =>
    simp only [indexOf] at h
    split at h
    · rename_i hx
      injection h with h; subst h; simp [hx]
    · rename_i hx
      cases hi : indexOf c xs with
      | none => rw [hi] at h; simp at h
      | some j =>
        rw [hi] at h; simp at h; subst h
        obtain ⟨h1, h2⟩ := ih j hi
        constructor
        · simp only [List.take_succ_cons, List.drop_succ_cons, List.cons_append]
          exact congrArg _ h1
        · simp only [List.take_succ_cons, List.mem_cons, not_or]
          exact ⟨fun e => hx e.symm, h2⟩

/-- a non-empty line without LF, followed by CRLF, is read back exactly -/
theorem readLine_line (l r : Bytes) (hne : l ≠ []) (hlf : (10 : UInt8) ∉ l) :
    readLine (l ++ 13 :: 10 :: r) = .ok (l, r) := by
  have hidx : indexOf 10 (l ++ 13 :: 10 :: r) = some (l.length + 1) := by
    have : l ++ 13 :: 10 :: r = (l ++ [13]) ++ 10 :: r := by simp
    rw [this, indexOf_append_of_not_mem 10 (l ++ [13]) r (by simp [hlf])]
    simp
  have hlen : 0 < l.length := List.length_pos_iff.mpr hne
  unfold readLine
  have h1 : ¬ (l ++ 13 :: 10 :: r).length < 1 := by simp
  simp only [h1, ↓reduceIte, hidx]
  have h2 : ¬ l.length + 1 < 2 := by omega
  simp only [h2, ↓reduceIte, Nat.add_sub_cancel]
  have h3 : (l ++ 13 :: 10 :: r).getD l.length 0 = 13 := by
    simp [List.getD_eq_getElem?_getD]
  simp only [h3, ne_eq, not_true_eq_false, ↓reduceIte]
  congr 2
  · simp
  · have : l ++ 13 :: 10 :: r = (l ++ [13, 10]) ++ r := by simp
    rw [this, List.drop_left' (by simp)]

theorem readN_append (b r : Bytes) (h : b ++ r ≠ []) : readN b.length (b ++ r) = .ok (b, r) := by
  unfold readN
  have h1 : ¬ (b ++ r).length < 1 := by
    have := List.length_pos_iff.mpr h; omega
  have h2 : ¬ b.length > (b ++ r).length := by simp
  simp only [h1, h2, ↓reduceIte, List.take_left', List.drop_left']

theorem lf_not_mem_itoa (n : Nat) : (10 : UInt8) ∉ itoa n := by
  intro h
  have := itoa_digits n 10 h
  revert this; decide

/-- `parseLine` reads back any bulk string, binary-safe, whatever follows it -/
theorem parseLine_bulk (b r : Bytes) (hb : Small b.length) :
    parseLine (bulk b ++ r) = .ok (b, r) := by
  have hshape : bulk b ++ r = (36 :: itoa b.length) ++ 13 :: 10 :: (b ++ 13 :: 10 :: r) := by
    simp [bulk]
  have hl := readLine_line (36 :: itoa b.length) (b ++ 13 :: 10 :: r) (by simp)
    (by simp only [List.mem_cons, not_or]; exact ⟨by decide, lf_not_mem_itoa _⟩)
  unfold parseLine
  rw [hshape, hl]
  simp only [parseLen_itoa b.length hb]
  have : ¬ (Int.ofNat b.length < 0) := by simp
  simp only [this, ↓reduceIte]
  have h1 : (Int.ofNat b.length).toNat = b.length := rfl
  rw [h1, readN_append b (13 :: 10 :: r) (by simp)]
  simp only
  have h2 : readN 2 (13 :: 10 :: r) = .ok ([13, 10], r) := by
    have := readN_append [13, 10] r (by simp)
    simpa using this
  rw [h2]
  simp

theorem parseArgs_bulks (args : List Bytes) (r : Bytes) (h : ∀ a ∈ args, Small a.length) :
    parseArgs args.length (bulks args ++ r) = .ok (args, r) := by
  induction args with
  | nil => simp [parseArgs, bulks]
  | cons a as ih =>
    have : bulks (a :: as) ++ r = bulk a ++ (bulks as ++ r) := by simp [bulks]
    simp only [List.length_cons, parseArgs, this]
    rw [parseLine_bulk a _ (h a (by simp))]
    simp only
    rw [ih (fun x hx => h x (by simp [hx]))]

/-- the decoder frames the canonical encoding of (name, args), whatever follows -/
theorem frame_encode (name : Bytes) (args : List Bytes) (t : Bytes)
    (hn : Small name.length) (ha : ∀ a ∈ args, Small a.length) (hc : Small (args.length + 1)) :
    frame (encodeCmd name args ++ t) = .ok (name, args, bulks args ++ t, t) := by
  have hshape : encodeCmd name args ++ t
      = (42 :: itoa (args.length + 1)) ++ 13 :: 10 :: (bulk name ++ (bulks args ++ t)) := by
    simp [encodeCmd]
  have hl := readLine_line (42 :: itoa (args.length + 1)) (bulk name ++ (bulks args ++ t)) (by simp)
    (by simp only [List.mem_cons, not_or]; exact ⟨by decide, lf_not_mem_itoa _⟩)
  unfold frame
  have h0 : ¬ (encodeCmd name args ++ t).length < 1 := by rw [hshape]; simp
  simp only [h0, ↓reduceIte]
  rw [hshape, hl]
  simp only [parseLen_itoa _ hc]
  have h1 : ¬ (Int.ofNat (args.length + 1) < 1) := by
    show ¬ ((args.length + 1 : Nat) : Int) < 1
    omega
  simp only [h1, ↓reduceIte]
  rw [parseLine_bulk name _ hn]
  simp only
  have h2 : (Int.ofNat (args.length + 1)).toNat - 1 = args.length := rfl
  rw [h2, parseArgs_bulks args t ha]

theorem readLine_ok (rest line r : Bytes) (h : readLine rest = .ok (line, r)) :
    rest = line ++ 13 :: 10 :: r ∧ line ≠ [] ∧ (10 : UInt8) ∉ line := by
  unfold readLine at h
  split at h
  · exact absurd h (by simp)
  · cases hi : indexOf 10 rest with
    | none => rw [hi] at h; exact absurd h (by simp)
    | some idx =>
      rw [hi] at h
      simp only at h
      split at h
      · exact absurd h (by simp)
      · rename_i hidx
        split at h
        · exact absurd h (by simp)
        · rename_i hcr
          simp only [ne_eq, Decidable.not_not] at hcr
          injection h with h
          injection h with h1 h2
          obtain ⟨hs, hnm⟩ := indexOf_some 10 rest idx hi
          have hidx2 : idx - 1 + 1 = idx := by omega
          have hlt : idx < rest.length := by
            have := congrArg List.length hs
            simp at this; omega
          -- rest.take idx = rest.take (idx-1) ++ [13]
          have htake : rest.take idx = rest.take (idx - 1) ++ [13] := by
            conv => lhs; rw [← hidx2]
            rw [List.take_add_one]
            congr 1
            have hlt' : idx - 1 < rest.length := by omega
            rw [List.getD_eq_getElem?_getD, List.getElem?_eq_getElem hlt'] at hcr
            simp at hcr
            simp [List.getElem?_eq_getElem hlt', hcr]
          subst h1 h2
          refine ⟨?_, ?_, ?_⟩
          · conv => lhs; rw [hs, htake]
            simp
          · intro he
            have hl : (rest.take (idx - 1)).length = 0 := by rw [he]; rfl
            rw [List.length_take] at hl
            omega
          · intro hm
            apply hnm
            rw [htake]; simp [hm]

theorem readN_ok (n : Nat) (rest b r : Bytes) (h : readN n rest = .ok (b, r)) :
    rest = b ++ r ∧ b.length = n := by
  unfold readN at h
  split at h
  · exact absurd h (by simp)
  · split at h
    · exact absurd h (by simp)
    · rename_i h2
      injection h with h; injection h with h1 h2'
      subst h1 h2'
      exact ⟨(List.take_append_drop n rest).symm, by rw [List.length_take]; omega⟩

theorem parseLine_ok (rest b r : Bytes) (h : parseLine rest = .ok (b, r)) :
    rest = bulk b ++ r ∧ Small b.length := by
  unfold parseLine at h
  cases hrl : readLine rest with
  | error e =>
    rw [hrl] at h
    cases e <;> simp at h
  | ok v =>
    obtain ⟨line, rest1⟩ := v
    rw [hrl] at h
    simp only at h
    obtain ⟨hrest, hne, hnl⟩ := readLine_ok rest line rest1 hrl
    split at h
    · exact absurd h (by simp)
    · rename_i lenBytes
      cases hpl : parseLen lenBytes with
      | error e => rw [hpl] at h; simp at h
      | ok n =>
        rw [hpl] at h
        simp only at h
        split at h
        · exact absurd h (by simp)
        · rename_i hn
          cases hr1 : readN n.toNat rest1 with
          | error e => rw [hr1] at h; simp at h
          | ok v1 =>
            obtain ⟨b', rest2⟩ := v1
            rw [hr1] at h
            simp only at h
            cases hr2 : readN 2 rest2 with
            | error e => rw [hr2] at h; simp at h
            | ok v2 =>
              obtain ⟨crlf, rest3⟩ := v2
              rw [hr2] at h
              simp only at h
              split at h
              · rename_i hcrlf
                injection h with h; injection h with hb hr
                subst hb hr
                obtain ⟨e1, l1⟩ := readN_ok _ _ _ _ hr1
                obtain ⟨e2, _⟩ := readN_ok _ _ _ _ hr2
                rcases parseLen_ok lenBytes n hpl with ⟨hneg, _⟩ | ⟨hpos, hsmall, hp⟩
                · omega
                · have hlen : b'.length = n.toNat := l1
                  constructor
                  · rw [hrest, e1, e2, hcrlf, hp, ← hlen]
                    simp [bulk]
                  · unfold Small; rw [hlen]; exact hsmall
              · exact absurd h (by simp)
    · exact absurd h (by simp)

theorem parseArgs_ok (n : Nat) (rest : Bytes) (args : List Bytes) (r : Bytes)
    (h : parseArgs n rest = .ok (args, r)) :
    rest = bulks args ++ r ∧ args.length = n ∧ ∀ a ∈ args, Small a.length := by
  induction n generalizing rest args with
  | zero =>
    simp [parseArgs] at h
    obtain ⟨h1, h2⟩ := h
    subst h1 h2
    simp [bulks]
  | succ n ih =>
    simp only [parseArgs] at h
    cases hp : parseLine rest with
    | error e => rw [hp] at h; simp at h
    | ok v =>
      obtain ⟨a, rest1⟩ := v
      rw [hp] at h
      simp only at h
      cases hq : parseArgs n rest1 with
      | error e => rw [hq] at h; simp at h
      | ok w =>
        obtain ⟨as, rest2⟩ := w
        rw [hq] at h
        simp only at h
        injection h with h; injection h with h1 h2
        subst h1 h2
        obtain ⟨e1, s1⟩ := parseLine_ok _ _ _ hp
        obtain ⟨e2, l2, s2⟩ := ih _ _ hq
        refine ⟨?_, by simp [l2], ?_⟩
        · rw [e1, e2]; simp [bulks]
        · intro x hx
          cases hx with
          | head => exact s1
          | tail _ hx => exact s2 x hx

/-- converse of `frame_encode`: whatever the decoder frames is a canonical encoding -/
theorem frame_ok (view name : Bytes) (args : List Bytes) (r1 r : Bytes)
    (h : frame view = .ok (name, args, r1, r)) :
    view = encodeCmd name args ++ r ∧ r1 = bulks args ++ r ∧
      Small name.length ∧ (∀ a ∈ args, Small a.length) ∧ Small (args.length + 1) := by
  unfold frame at h
  split at h
  · exact absurd h (by simp)
  · cases hrl : readLine view with
    | error e => rw [hrl] at h; cases e <;> simp at h
    | ok v =>
      obtain ⟨line, rest0⟩ := v
      rw [hrl] at h
      simp only at h
      obtain ⟨hview, hne, hnl⟩ := readLine_ok _ _ _ hrl
      split at h
      · exact absurd h (by simp)
      · rename_i lenBytes
        cases hpl : parseLen lenBytes with
        | error e => rw [hpl] at h; simp at h
        | ok n =>
          rw [hpl] at h
          simp only at h
          split at h
          · exact absurd h (by simp)
          · rename_i hn1
            cases hp : parseLine rest0 with
            | error e => rw [hp] at h; simp at h
            | ok v1 =>
              obtain ⟨nm, rest1⟩ := v1
              rw [hp] at h
              simp only at h
              cases hq : parseArgs (n.toNat - 1) rest1 with
              | error e => rw [hq] at h; simp at h
              | ok w =>
                obtain ⟨as, rest2⟩ := w
                rw [hq] at h
                simp only at h
                injection h with h
                simp only [Prod.mk.injEq] at h
                obtain ⟨h1, h2, h3, h4⟩ := h
                subst h1 h2 h3 h4
                obtain ⟨e1, s1⟩ := parseLine_ok _ _ _ hp
                obtain ⟨e2, l2, s2⟩ := parseArgs_ok _ _ _ _ hq
                rcases parseLen_ok lenBytes n hpl with ⟨hneg, _⟩ | ⟨hpos, hsmall, hpd⟩
                · omega
                · have hn : n.toNat = as.length + 1 := by omega
                  refine ⟨?_, e2, s1, s2, ?_⟩
                  · rw [hview, e1, e2, hpd, hn]; simp [encodeCmd]
                  · unfold Small; rw [← hn]; exact hsmall
      · exact absurd h (by simp)

theorem prefix_cases {α} (p s x y : List α) (h : p ++ s = x ++ y) :
    (∃ t, x = p ++ t ∧ s = t ++ y) ∨ (∃ q, p = x ++ q ∧ y = q ++ s) := by
  rcases List.append_eq_append_iff.mp h with ⟨a, h1, h2⟩ | ⟨c, h1, h2⟩
  · exact Or.inl ⟨a, h1, h2⟩
  · exact Or.inr ⟨c, h1, h2⟩

/-- a proper prefix of `line CRLF` (line without LF) has no complete line in it -/
theorem readLine_prefix (l p s : Bytes) (hlf : (10 : UInt8) ∉ l) (hs : s ≠ [])
    (h : p ++ s = l ++ [13, 10]) :
    readLine p = .error .emptyLine ∨ readLine p = .error .lfNotFound := by
  have hno : (10 : UInt8) ∉ p := by
    have h' : p ++ s = (l ++ [13]) ++ [10] := by simpa using h
    rcases prefix_cases p s (l ++ [13]) [10] h' with ⟨t, h1, _⟩ | ⟨q, h1, h2⟩
    · intro hm
      have : (10 : UInt8) ∈ l ++ [13] := by rw [h1]; simp [hm]
      simp at this; exact hlf this
    · have hq : q = [] := by
        cases q with
        | nil => rfl
        | cons x xs =>
          have hl := congrArg List.length h2
          simp only [List.length_cons, List.length_nil, List.length_append] at hl
          have : s.length = 0 := by omega
          exact absurd (List.length_eq_zero_iff.mp this) hs
      subst hq
      simp at h1
      intro hm; rw [h1] at hm; simp at hm; exact hlf hm
  unfold readLine
  by_cases hp : p.length < 1
  · left; simp [hp]
  · right; simp [hp, indexOf_none_of_not_mem 10 p hno]

theorem parseLine_of_readLine_inc (p : Bytes)
    (h : readLine p = .error .emptyLine ∨ readLine p = .error .lfNotFound) :
    parseLine p = .error .incomplete := by
  unfold parseLine
  rcases h with h | h <;> rw [h] <;> rfl

theorem readN_short (n : Nat) (q : Bytes) (h : q.length < n) :
    readN n q = .error .emptyLine ∨ readN n q = .error .shortLine := by
  unfold readN
  by_cases h1 : q.length < 1
  · left; simp [h1]
  · right; simp [h1, h]

/-- every proper prefix of a bulk string is "incomplete" for `parseLine` -/
theorem parseLine_prefix (b p s : Bytes) (hb : Small b.length) (hs : s ≠ []) (h : p ++ s = bulk b) :
    parseLine p = .error .incomplete := by
  have hshape : bulk b = ((36 :: itoa b.length) ++ [13, 10]) ++ (b ++ [13, 10]) := by simp [bulk]
  have hlf : (10 : UInt8) ∉ (36 :: itoa b.length) := by
    simp only [List.mem_cons, not_or]; exact ⟨by decide, lf_not_mem_itoa _⟩
  rw [hshape] at h
  rcases prefix_cases _ _ _ _ h with ⟨t, h1, h2⟩ | ⟨q, h1, h2⟩
  · by_cases ht : t = []
    · -- p is exactly the header line: nothing after it
      subst ht
      simp only [List.append_nil] at h1
      have hl := readLine_line (36 :: itoa b.length) [] (by simp) hlf
      unfold parseLine
      rw [← h1]
      have e : (36 :: itoa b.length) ++ [13, 10] = (36 :: itoa b.length) ++ 13 :: 10 :: [] := rfl
      rw [e, hl]
      simp only [parseLen_itoa b.length hb]
      have : ¬ (Int.ofNat b.length < 0) := by simp
      simp only [this, ↓reduceIte]
      simp [readN, ofRErr]
    · exact parseLine_of_readLine_inc p (readLine_prefix _ p t hlf ht h1.symm)
  · -- header complete, q is what follows it
    have hl := readLine_line (36 :: itoa b.length) q (by simp) hlf
    have e : p = (36 :: itoa b.length) ++ 13 :: 10 :: q := by rw [h1]; simp
    unfold parseLine
    rw [e, hl]
    simp only [parseLen_itoa b.length hb]
    have : ¬ (Int.ofNat b.length < 0) := by simp
    simp only [this, ↓reduceIte]
    have hn : (Int.ofNat b.length).toNat = b.length := rfl
    rw [hn]
    rcases prefix_cases _ _ _ _ h2.symm with ⟨t, h3, h4⟩ | ⟨q', h3, h4⟩
    · -- q is a prefix of the data
      by_cases ht : t = []
      · subst ht
        simp only [List.append_nil] at h3
        subst h3
        -- q = b, then CRLF missing entirely
        by_cases hbe : b = []
        · subst hbe; simp [readN, ofRErr]
        · have hr := readN_append b [] (by simpa using hbe)
          simp only [List.append_nil] at hr
          rw [hr]
          simp [readN]
      · have hlt : q.length < b.length := by
          have := congrArg List.length h3
          simp at this
          have : 0 < t.length := List.length_pos_iff.mpr ht
          omega
        rcases readN_short b.length q hlt with h5 | h5 <;> rw [h5] <;> rfl
    · -- q = b ++ q', q' a proper prefix of CRLF
      have hq'len : q'.length < 2 := by
        have := congrArg List.length h4
        simp at this
        have : 0 < s.length := List.length_pos_iff.mpr hs
        omega
      rw [h3]
      by_cases hbe : b ++ q' = []
      · rw [hbe]; simp [readN, ofRErr]
      · rw [readN_append b q' hbe]
        simp only
        rcases readN_short 2 q' hq'len with h5 | h5 <;> rw [h5]

theorem parseArgs_prefix (args : List Bytes) (p s : Bytes) (ha : ∀ a ∈ args, Small a.length)
    (hs : s ≠ []) (h : p ++ s = bulks args) :
    parseArgs args.length p = .error .incomplete := by
  induction args generalizing p with
  | nil =>
    simp [bulks] at h
    exact absurd h.2 hs
  | cons a as ih =>
    have hb : bulks (a :: as) = bulk a ++ bulks as := by simp [bulks]
    rw [hb] at h
    have has : ∀ x ∈ as, Small x.length := fun x hx => ha x (by simp [hx])
    simp only [List.length_cons, parseArgs]
    rcases prefix_cases _ _ _ _ h with ⟨t, h1, h2⟩ | ⟨q, h1, h2⟩
    · by_cases ht : t = []
      · subst ht
        simp only [List.append_nil] at h1
        simp only [List.nil_append] at h2
        have hp := parseLine_bulk a [] (ha a (by simp))
        simp only [List.append_nil] at hp
        rw [← h1, hp]
        simp only
        rw [ih [] has (by simpa using h2)]
      · rw [parseLine_prefix a p t (ha a (by simp)) ht h1.symm]
    · rw [h1, parseLine_bulk a q (ha a (by simp))]
      simp only
      rw [ih q has h2.symm]

/-- **prefix lemma**: every proper prefix of a canonical request encoding is "incomplete" -/
theorem frame_prefix (name : Bytes) (args : List Bytes) (p s : Bytes)
    (hn : Small name.length) (ha : ∀ a ∈ args, Small a.length) (hc : Small (args.length + 1))
    (hs : s ≠ []) (h : p ++ s = encodeCmd name args) :
    frame p = .error .incomplete := by
  have hshape : encodeCmd name args
      = ((42 :: itoa (args.length + 1)) ++ [13, 10]) ++ (bulk name ++ bulks args) := by
    simp [encodeCmd]
  have hlf : (10 : UInt8) ∉ (42 :: itoa (args.length + 1)) := by
    simp only [List.mem_cons, not_or]; exact ⟨by decide, lf_not_mem_itoa _⟩
  rw [hshape] at h
  unfold frame
  by_cases hp0 : p.length < 1
  · simp [hp0]
  simp only [hp0, ↓reduceIte]
  have hpne : p ≠ [] := by intro e; subst e; simp at hp0
  have hn1 : ¬ (Int.ofNat (args.length + 1) < 1) := by
    show ¬ ((args.length + 1 : Nat) : Int) < 1
    omega
  have hn2 : (Int.ofNat (args.length + 1)).toNat - 1 = args.length := rfl
  rcases prefix_cases _ _ _ _ h with ⟨t, h1, h2⟩ | ⟨q, h1, h2⟩
  · by_cases ht : t = []
    · subst ht
      simp only [List.append_nil] at h1
      have hl := readLine_line (42 :: itoa (args.length + 1)) [] (by simp) hlf
      have e : (42 :: itoa (args.length + 1)) ++ [13, 10] = (42 :: itoa (args.length + 1)) ++ 13 :: 10 :: [] := rfl
      rw [← h1, e, hl]
      simp only [parseLen_itoa _ hc, hn1, ↓reduceIte]
      simp [parseLine, readLine, ofRErr]
    · rcases readLine_prefix _ p t hlf ht h1.symm with h3 | h3
      · -- emptyLine would need p = []
        unfold readLine at h3
        simp [hp0] at h3
        cases hi : indexOf 10 p with
        | none => rw [hi] at h3; simp at h3
        | some i => rw [hi] at h3; simp only at h3; split at h3 <;> (try split at h3) <;> simp at h3
      · rw [h3]
  · have hl := readLine_line (42 :: itoa (args.length + 1)) q (by simp) hlf
    have e : p = (42 :: itoa (args.length + 1)) ++ 13 :: 10 :: q := by rw [h1]; simp
    rw [e, hl]
    simp only [parseLen_itoa _ hc, hn1, ↓reduceIte]
    rcases prefix_cases _ _ _ _ h2.symm with ⟨t, h3, h4⟩ | ⟨q2, h3, h4⟩
    · by_cases ht : t = []
      · subst ht
        simp only [List.append_nil] at h3
        simp only [List.nil_append] at h4
        have hp := parseLine_bulk name [] hn
        simp only [List.append_nil] at hp
        rw [← h3, hp]
        simp only [hn2]
        rw [parseArgs_prefix args [] s ha hs (by simpa using h4)]
      · rw [parseLine_prefix name q t hn ht h3.symm]
    · rw [h3, parseLine_bulk name q2 hn]
      simp only [hn2]
      rw [parseArgs_prefix args q2 s ha hs h4.symm]

end RcVerif.Lemmas.Frame
