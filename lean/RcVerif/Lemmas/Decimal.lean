import RcVerif.Model.Resp
/-
  Decimal lemmas: `itoa` produces the canonical decimal of a number and
  `parseLen` accepts exactly the canonical decimals of at most 18 digits.
-/
namespace RcVerif.Lemmas.Decimal
open RcVerif RcVerif.Resp

theorem digit_isDigit (n : Nat) : isDigit (digit n) = true := by
  unfold isDigit digit
  have h : n % 10 < 10 := Nat.mod_lt _ (by decide)
  have : (UInt8.ofNat (48 + n % 10)).toNat = 48 + n % 10 := by
    rw [UInt8.toNat_ofNat']; omega
  simp [UInt8.le_iff_toNat_le, this]
  omega

theorem digit_toNat (n : Nat) : (digit n).toNat - 48 = n % 10 := by
  unfold digit
  have h : n % 10 < 10 := Nat.mod_lt _ (by decide)
  rw [UInt8.toNat_ofNat']; omega

theorem digit_ne_lf (n : Nat) : digit n ≠ 10 := by
  intro h
  have := digit_isDigit n
  rw [h] at this
  revert this; decide

theorem parseDigits_append (acc : Nat) (xs : Bytes) (d : UInt8) (hd : isDigit d = true) :
    parseDigits acc (xs ++ [d]) = (parseDigits acc xs).map (fun v => v * 10 + (d.toNat - 48)) := by
  induction xs generalizing acc with
  | nil => simp [parseDigits, hd]
  | cons x xs ih =>
    simp only [List.cons_append, parseDigits]
    split
    · exact ih _
    · rfl

theorem itoaFuel_digits (f n : Nat) : ∀ b ∈ itoaFuel f n, isDigit b = true := by
  induction f generalizing n with
  | zero => simp [itoaFuel]
  | succ f ih =>
    unfold itoaFuel
    split
    · intro b hb; simp at hb; rw [hb]; exact digit_isDigit n
    · intro b hb
      rw [List.mem_append] at hb
      cases hb with
      | inl h => exact ih _ b h
      | inr h => simp at h; rw [h]; exact digit_isDigit n

theorem itoa_digits (n : Nat) : ∀ b ∈ itoa n, isDigit b = true := itoaFuel_digits _ _

theorem itoaFuel_ne_nil (f n : Nat) : itoaFuel (f + 1) n ≠ [] := by
  unfold itoaFuel; split <;> simp

theorem itoa_ne_nil (n : Nat) : itoa n ≠ [] := itoaFuel_ne_nil _ _

/-- with enough fuel the result does not depend on the fuel -/
theorem itoaFuel_eq (f g n : Nat) (hf : n < f) (hg : n < g) : itoaFuel f n = itoaFuel g n := by
  induction f generalizing g n with
  | zero => omega
  | succ f ih =>
    cases g with
    | zero => omega
    | succ g =>
      unfold itoaFuel
      split
      · rfl
      · rw [ih g (n / 10) (by omega) (by omega)]

theorem itoa_lt10 (n : Nat) (h : n < 10) : itoa n = [digit n] := by
  unfold itoa itoaFuel; simp [h]

theorem itoa_ge10 (n : Nat) (h : 10 ≤ n) : itoa n = itoa (n / 10) ++ [digit n] := by
  unfold itoa
  conv => lhs; unfold itoaFuel
  have : ¬ n < 10 := by omega
  simp only [this, ↓reduceIte]
  rw [itoaFuel_eq n (n / 10 + 1) (n / 10) (by omega) (by omega)]

theorem parseDigits_itoa (n : Nat) : parseDigits 0 (itoa n) = some n := by
  induction n using Nat.strongRecOn with
  | _ n ih =>
    by_cases h : n < 10
    · rw [itoa_lt10 n h]
      simp [parseDigits, digit_isDigit, digit_toNat]
      omega
    · rw [itoa_ge10 n (by omega), parseDigits_append _ _ _ (digit_isDigit n), ih (n / 10) (by omega)]
      simp [digit_toNat]; omega

/-- number of digits -/
theorem itoa_length_le (k n : Nat) (h : n < 10 ^ (k + 1)) : (itoa n).length ≤ k + 1 := by
  induction k generalizing n with
  | zero => rw [itoa_lt10 n (by simpa using h)]; simp
  | succ k ih =>
    by_cases h10 : n < 10
    · rw [itoa_lt10 n h10]; simp
    · rw [itoa_ge10 n (by omega)]
      have : n / 10 < 10 ^ (k + 1) := by
        rw [Nat.div_lt_iff_lt_mul (by decide)]
        have : 10 ^ (k + 1 + 1) = 10 ^ (k + 1) * 10 := Nat.pow_succ ..
        omega
      have := ih (n / 10) this
      simp; omega

theorem head_itoa_ne_zero (n : Nat) (h : 0 < n) : ∃ d ds, itoa n = d :: ds ∧ d ≠ 48 := by
  induction n using Nat.strongRecOn with
  | _ n ih =>
    by_cases h10 : n < 10
    · refine ⟨digit n, [], itoa_lt10 n h10, ?_⟩
      unfold digit
      intro hc
      have := congrArg UInt8.toNat hc
      rw [UInt8.toNat_ofNat'] at this
      have : n % 10 = n := Nat.mod_eq_of_lt h10
      simp at *; omega
    · obtain ⟨d, ds, he, hd⟩ := ih (n / 10) (by omega) (by omega)
      exact ⟨d, ds ++ [digit n], by rw [itoa_ge10 n (by omega), he]; rfl, hd⟩

theorem parseLen_cons_digit (d : UInt8) (ds : Bytes) (hd : isDigit d = true) :
    parseLen (d :: ds) =
      if (d = 48 ∧ ds ≠ []) ∨ (d :: ds).length > 18 then .error .invalid
      else match parseDigits 0 (d :: ds) with
        | none => .error .invalid
        | some n => .ok (Int.ofNat n) := by
  have h45 : d ≠ 45 := by intro h; subst h; revert hd; decide
  unfold parseLen
  split
  · rename_i heq; exact absurd heq (by simp)
  · rename_i heq; injection heq with h1 _; exact absurd h1 h45
  · rename_i b bs _ heq; injection heq with h1 h2; subst h1 h2; rfl

/-- `parseLen` accepts the canonical decimal of every length below 10^18 -/
theorem parseLen_itoa (n : Nat) (h : n < 10 ^ 18) : parseLen (itoa n) = .ok (Int.ofNat n) := by
  have hlen := itoa_length_le 17 n h
  have hpd := parseDigits_itoa n
  by_cases h0 : n = 0
  · subst h0; rfl
  · obtain ⟨d, ds, he, hd⟩ := head_itoa_ne_zero n (by omega)
    rw [he] at hlen hpd ⊢
    have hdig : isDigit d = true := itoa_digits n d (by rw [he]; simp)
    rw [parseLen_cons_digit d ds hdig]
    have hcond : ¬ ((d = 48 ∧ ds ≠ []) ∨ (d :: ds).length > 18) := by
      intro hc; cases hc with
      | inl h1 => exact hd h1.1
      | inr h2 => omega
    simp only [hcond, ↓reduceIte, hpd]

theorem parseDigits_ge (acc : Nat) (xs : Bytes) (r : Nat) (h : parseDigits acc xs = some r) : acc ≤ r := by
  induction xs generalizing acc with
  | nil => simp [parseDigits] at h; omega
  | cons x xs ih =>
    simp only [parseDigits] at h
    split at h
    · have := ih _ h; omega
    · exact absurd h (by simp)

theorem parseDigits_all_digits (acc : Nat) (xs : Bytes) (r : Nat) (h : parseDigits acc xs = some r) :
    ∀ b ∈ xs, isDigit b = true := by
  induction xs generalizing acc with
  | nil => simp
  | cons x xs ih =>
    simp only [parseDigits] at h
    split at h
    · rename_i hx
      intro b hb
      cases hb with
      | head => exact hx
      | tail _ hb => exact ih _ h b hb
    · exact absurd h (by simp)

theorem digit_of_isDigit (d : UInt8) (hd : isDigit d = true) : digit (d.toNat - 48) = d := by
  unfold isDigit at hd
  simp [UInt8.le_iff_toNat_le] at hd
  unfold digit
  apply UInt8.toNat_inj.mp
  rw [UInt8.toNat_ofNat']
  have := d.toNat_lt
  omega

theorem digit_add (m : Nat) (d : UInt8) (hd : isDigit d = true) : digit (m * 10 + (d.toNat - 48)) = d := by
  unfold isDigit at hd
  simp [UInt8.le_iff_toNat_le] at hd
  unfold digit
  apply UInt8.toNat_inj.mp
  rw [UInt8.toNat_ofNat']
  have := d.toNat_lt
  omega

/-- a canonical decimal (digits only, no leading zero unless it is "0") is the `itoa` of its value -/
theorem canon_unique (n : Nat) : ∀ p : Bytes, p ≠ [] → (p.head? = some 48 → p.length = 1) →
    parseDigits 0 p = some n → p = itoa n := by
  induction n using Nat.strongRecOn with
  | _ n ih =>
    intro p hne hcanon hp
    have hsplit := (List.dropLast_concat_getLast hne).symm
    generalize hq : p.dropLast = q at hsplit
    generalize hdl : p.getLast hne = d at hsplit
    have hdig : isDigit d = true := parseDigits_all_digits 0 p n hp d (by rw [hsplit]; simp)
    rw [hsplit, parseDigits_append 0 q d hdig] at hp
    cases hpq : parseDigits 0 q with
    | none => rw [hpq] at hp; simp at hp
    | some m =>
      rw [hpq] at hp
      simp at hp
      cases q with
      | nil =>
        simp [parseDigits] at hpq
        subst hpq
        have hlt : d.toNat - 48 < 10 := by
          unfold isDigit at hdig; simp [UInt8.le_iff_toNat_le] at hdig; omega
        rw [hsplit, ← hp, itoa_lt10 _ (by omega)]
        simp
        have := digit_add 0 d hdig
        simpa using this.symm
      | cons x xs =>
        have hx48 : x ≠ 48 := by
          intro hx
          have := hcanon (by rw [hsplit]; simp [hx])
          rw [hsplit] at this; simp at this
        have hxdig : isDigit x = true := parseDigits_all_digits 0 _ m hpq x (by simp)
        have hm1 : 1 ≤ m := by
          simp only [parseDigits, hxdig, ↓reduceIte] at hpq
          have := parseDigits_ge _ _ _ hpq
          unfold isDigit at hxdig; simp [UInt8.le_iff_toNat_le] at hxdig
          have : x.toNat ≠ 48 := fun h => hx48 (UInt8.toNat_inj.mp (by simpa using h))
          omega
        have hdv : d.toNat - 48 < 10 := by
          unfold isDigit at hdig; simp [UInt8.le_iff_toNat_le] at hdig; omega
        have hq' := ih m (by omega) (x :: xs) (by simp) (by intro h; simp at h; exact absurd h hx48) hpq
        rw [hsplit, ← hp, itoa_ge10 _ (by omega)]
        have : (m * 10 + (d.toNat - 48)) / 10 = m := by omega
        rw [this, ← hq', digit_add m d hdig]

theorem parseDigits_lt (acc : Nat) (xs : Bytes) (r : Nat) (h : parseDigits acc xs = some r) :
    r < (acc + 1) * 10 ^ xs.length := by
  induction xs generalizing acc with
  | nil => simp [parseDigits] at h; simp; omega
  | cons x xs ih =>
    simp only [parseDigits] at h
    split at h
    · rename_i hx
      have := ih _ h
      unfold isDigit at hx; simp [UInt8.le_iff_toNat_le] at hx
      have h2 : (acc * 10 + (x.toNat - 48) + 1) * 10 ^ xs.length ≤ (acc + 1) * 10 ^ (xs.length + 1) := by
        rw [Nat.pow_succ]
        have : acc * 10 + (x.toNat - 48) + 1 ≤ (acc + 1) * 10 := by omega
        calc (acc * 10 + (x.toNat - 48) + 1) * 10 ^ xs.length
            ≤ ((acc + 1) * 10) * 10 ^ xs.length := Nat.mul_le_mul_right _ this
          _ = (acc + 1) * (10 ^ xs.length * 10) := by rw [Nat.mul_assoc, Nat.mul_comm 10]
      simp only [List.length_cons]; omega
    · exact absurd h (by simp)

/-- what `parseLen` accepts: the literal "-1", or the canonical decimal of a number below 10^18 -/
theorem parseLen_ok (p : Bytes) (v : Int) (h : parseLen p = .ok v) :
    (v = -1 ∧ p = [45, 49]) ∨ (0 ≤ v ∧ v.toNat < 10 ^ 18 ∧ p = itoa v.toNat) := by
  unfold parseLen at h
  split at h
  · exact absurd h (by simp)
  · left; injection h with h; exact ⟨h.symm, rfl⟩
  · rename_i b bs _
    right
    split at h
    · exact absurd h (by simp)
    · rename_i hcond
      cases hpd : parseDigits 0 (b :: bs) with
      | none => rw [hpd] at h; exact absurd h (by simp)
      | some n =>
        rw [hpd] at h
        injection h with h
        subst h
        have hlen : (b :: bs).length ≤ 18 := by
          have : ¬ (b :: bs).length > 18 := fun hc => hcond (Or.inr hc)
          omega
        have hlt := parseDigits_lt 0 _ n hpd
        have hpow : 10 ^ (b :: bs).length ≤ 10 ^ 18 := Nat.pow_le_pow_right (by decide) hlen
        refine ⟨Int.natCast_nonneg n, ?_, ?_⟩
        · show (Int.ofNat n).toNat < 10 ^ 18
          have : (Int.ofNat n).toNat = n := rfl
          rw [this]; rw [Nat.zero_add, Nat.one_mul] at hlt; omega
        show b :: bs = itoa (Int.ofNat n).toNat
        have : (Int.ofNat n).toNat = n := rfl
        rw [this]
        apply canon_unique n (b :: bs) (by simp) _ hpd
        intro hh
        simp at hh
        by_cases hbs : bs = []
        · simp [hbs]
        · exact absurd (Or.inl ⟨hh, hbs⟩) hcond

end RcVerif.Lemmas.Decimal
