import RcVerif.Lemmas.SimInv
/-
  Backend-side invariants of the event-loop model (`RcVerif.Model.Sim`):

  * `BInv`  - per redis connection: the byte stream written is the handshake followed by the bytes of the
              fragments written, in the order they were queued; what was queued is what was written followed
              by what is still pending; the awaiting-reply queue is a suffix of what was written.
  * `DInv`  - per redis connection and client: the fragments the client's requests queued directly carry
              non-decreasing request numbers, and each names a stored request of that client.
  Both are proved preserved by every `Sim.step`, for every event, through a framing relation (`Frame`).
-/
namespace RcVerif.Lemmas.SimBack
open RcVerif RcVerif.Sim RcVerif.Merge RcVerif.Lemmas.SimInv

def BSame (s s' : State) : Prop := s'.backends = s.backends
theorem BSame.refl (s : State) : BSame s s := rfl
theorem BSame.trans {a b c : State} (h1 : BSame a b) (h2 : BSame b c) : BSame a c := by
  unfold BSame at *; rw [h2, h1]

/-- clients only ever decode more; a stored request keeps its owner and number -/
structure Ext (s s' : State) : Prop where
  clients : ∀ (c : Nat) (cl : Client), s.clients[c]? = some cl → ∃ cl', s'.clients[c]? = some cl' ∧ cl.decoded ≤ cl'.decoded
  msgs : ∀ (i : Nat) (r : Req), s.msgs[i]? = some r → ∃ r', s'.msgs[i]? = some r' ∧ r'.owner = r.owner ∧ r'.num = r.num

theorem Ext.refl (s : State) : Ext s s := ⟨fun _ cl h => ⟨cl, h, Nat.le_refl _⟩, fun _ r h => ⟨r, h, rfl, rfl⟩⟩
theorem Ext.trans {a b c : State} (h1 : Ext a b) (h2 : Ext b c) : Ext a c := by
  refine ⟨fun i cl h => ?_, fun i r h => ?_⟩
  · obtain ⟨cl1, h1c, hle1⟩ := h1.clients i cl h
    obtain ⟨cl2, h2c, hle2⟩ := h2.clients i cl1 h1c
    exact ⟨cl2, h2c, Nat.le_trans hle1 hle2⟩
  · obtain ⟨r1, h1r, ho1, hn1⟩ := h1.msgs i r h
    obtain ⟨r2, h2r, ho2, hn2⟩ := h2.msgs i r1 h1r
    exact ⟨r2, h2r, by rw [ho2, ho1], by rw [hn2, hn1]⟩

theorem ext_of_same (s s' : State) (h : SameCM s s') : Ext s s' := by
  refine ⟨fun i cl hc => ⟨cl, by rw [h.1]; exact hc, Nat.le_refl _⟩, fun i r hr => ⟨r, by rw [h.2]; exact hr, rfl, rfl⟩⟩

theorem ext_updClient (s : State) (c : Nat) (f : Client → Client) (hf : ∀ cl, cl.decoded ≤ (f cl).decoded) :
    Ext s (s.updClient c f) := by
  refine ⟨fun i cl hc => ?_, fun i r hr => ⟨r, hr, rfl, rfl⟩⟩
  by_cases hic : i = c
  · subst hic; exact ⟨f cl, client_updClient_same s i f cl hc, hf cl⟩
  · exact ⟨cl, by rw [client_updClient_other s c i f hic]; exact hc, Nat.le_refl _⟩

theorem ext_updReq (s : State) (mi : Nat) (f : Req → Req) (hf : ∀ r, (f r).owner = r.owner ∧ (f r).num = r.num) :
    Ext s (s.updReq mi f) := by
  refine ⟨fun i cl hc => ⟨cl, hc, Nat.le_refl _⟩, fun i r hr => ?_⟩
  show ∃ r', (setAt s.msgs mi f)[i]? = some r' ∧ _
  rw [getElem?_setAt, hr]
  by_cases him : i = mi
  · simp [him, hf r]
  · simp [him]

theorem bsame_fail (s : State) (w : String) : BSame s (s.fail w) := by
  unfold State.fail; split <;> rfl

theorem bsame_closeClient (s : State) (c : Nat) : BSame s (closeClient s c) := rfl
theorem ext_closeClient (s : State) (c : Nat) : Ext s (closeClient s c) :=
  ext_updClient s c _ (fun _ => Nat.le_refl _)

theorem bsame_flushClient (s : State) (c : Nat) : BSame s (flushClient s c) := by
  unfold flushClient
  split
  · rfl
  · split
    · rfl
    · dsimp only
      split
      · rfl
      · split
        · split <;> rfl
        · rfl

theorem ext_flushClient (s : State) (c : Nat) : Ext s (flushClient s c) := by
  unfold flushClient
  split
  · exact Ext.refl s
  · split
    · exact Ext.refl s
    · dsimp only
      split
      · exact Ext.refl s
      · have h1 : ∀ f : Client → Client, (∀ cl, cl.decoded ≤ (f cl).decoded) → Ext s (s.updClient c f) := ext_updClient s c
        split
        · split
          · refine Ext.trans ?_ (ext_closeClient _ c)
            exact h1 _ (fun _ => Nat.le_refl _)
          · exact h1 _ (fun _ => Nat.le_refl _)
        · exact h1 _ (fun _ => Nat.le_refl _)

theorem bsame_deliver (s : State) (c : Nat) : BSame s (deliver s c) := by
  unfold deliver
  split
  · split
    · rfl
    · split
      · rfl
      · exact bsame_flushClient s c
  · rfl

theorem ext_deliver (s : State) (c : Nat) : Ext s (deliver s c) := by
  unfold deliver
  split
  · split
    · exact Ext.refl s
    · split
      · exact ext_closeClient s c
      · exact ext_flushClient s c
  · exact Ext.refl s


theorem ext_appendMsg (s : State) (r : Req) : Ext s { s with msgs := s.msgs ++ [r] } := by
  refine ⟨fun i cl hc => ⟨cl, hc, Nat.le_refl _⟩, fun i r0 hr => ⟨r0, ?_, rfl, rfl⟩⟩
  show (s.msgs ++ [r])[i]? = some r0
  rw [getElem?_append_new]
  have := List.getElem?_eq_some_iff.mp hr
  obtain ⟨hlt, _⟩ := this
  rw [if_pos hlt]; exact hr

theorem bsame_answerLocal (s : State) (c : Nat) (m : MMsg) (out : Bytes) : BSame s (answerLocal s c m out) := by
  unfold answerLocal
  split
  · rfl
  · dsimp only
    split <;> rfl

theorem ext_answerLocal (s : State) (c : Nat) (m : MMsg) (out : Bytes) : Ext s (answerLocal s c m out) := by
  unfold answerLocal
  split
  · exact Ext.refl s
  · dsimp only
    split
    · exact ext_updClient s c _ (fun _ => Nat.le_succ _)
    · refine Ext.trans ?_ (ext_updClient _ c _ (fun _ => Nat.le_succ _))
      exact ext_appendMsg s _

theorem bsame_acceptReq (s : State) (c : Nat) (m : MMsg) : BSame s (acceptReq s c m).1 := by
  unfold acceptReq
  dsimp only
  split <;> rfl

theorem ext_acceptReq (s : State) (c : Nat) (m : MMsg) : Ext s (acceptReq s c m).1 := by
  unfold acceptReq
  dsimp only
  split
  · exact Ext.refl s
  · refine Ext.trans ?_ (ext_updClient _ c _ (fun _ => Nat.le_succ _))
    exact ext_appendMsg s _

theorem bsame_dropTimeout (s : State) (f : FragRef) : BSame s (dropTimeout s f) := rfl

theorem bsame_foldl_dropTimeout (refs : List FragRef) (s : State) : BSame s (refs.foldl dropTimeout s) := by
  induction refs generalizing s with
  | nil => rfl
  | cons f fs ih => exact BSame.trans (bsame_dropTimeout s f) (ih _)

theorem bsame_failFrags (S : Strs) (refs : List FragRef) (s : State) : BSame s (failFrags S s refs) := by
  unfold failFrags
  induction refs generalizing s with
  | nil => rfl
  | cons f fs ih =>
    rw [List.foldl_cons]
    refine BSame.trans ?_ (ih _)
    split
    · split
      · rfl
      · split
        · rfl
        · split
          · rfl
          · exact BSame.trans (b := s.updReq _ _) rfl (bsame_flushClient _ _)
    · rfl

theorem ext_failFrags (S : Strs) (refs : List FragRef) (s : State) : Ext s (failFrags S s refs) := by
  unfold failFrags
  induction refs generalizing s with
  | nil => exact Ext.refl s
  | cons f fs ih =>
    rw [List.foldl_cons]
    refine Ext.trans ?_ (ih _)
    split
    · split
      · exact Ext.refl s
      · split
        · exact Ext.refl s
        · split
          · exact Ext.refl s
          · refine Ext.trans ?_ (ext_flushClient _ _)
            exact ext_updReq s _ _ (fun _ => ⟨rfl, rfl⟩)
    · exact Ext.refl s

theorem bsame_expire (S : Strs) (s : State) (n : Nat) : BSame s (expire S s n) := by
  unfold expire
  dsimp only
  show (List.foldl _ s ((liveDeadlines s).take n)).backends = s.backends
  generalize (liveDeadlines s).take n = ts
  induction ts generalizing s with
  | nil => rfl
  | cons f fs ih =>
    rw [List.foldl_cons]
    rw [ih]
    split
    · split
      · rfl
      · split
        · rfl
        · split
          · rfl
          · exact BSame.trans (b := s.updReq _ _) rfl (bsame_flushClient _ _)
    · rfl

theorem ext_expire (S : Strs) (s : State) (n : Nat) : Ext s (expire S s n) := by
  unfold expire
  dsimp only
  refine Ext.trans (b := List.foldl _ s ((liveDeadlines s).take n)) ?_ (ext_of_same _ _ ⟨rfl, rfl⟩)
  generalize (liveDeadlines s).take n = ts
  induction ts generalizing s with
  | nil => exact Ext.refl s
  | cons f fs ih =>
    rw [List.foldl_cons]
    refine Ext.trans ?_ (ih _)
    split
    · split
      · exact Ext.refl s
      · split
        · exact Ext.refl s
        · split
          · exact Ext.refl s
          · refine Ext.trans ?_ (ext_flushClient _ _)
            exact ext_updReq s _ _ (fun _ => ⟨rfl, rfl⟩)
    · exact Ext.refl s


/-! ### what is queued to a connection, and in which order -/

def enqAt (s : State) (i : Nat) : List QEntry := match s.backends[i]? with | some b => b.enq | none => []

/-- request numbers of the fragments client `c` queued directly, in queue order -/
def numsOf (c : Nat) (l : List QEntry) : List Nat :=
  l.filterMap (fun e => match e.direct with | some (c', n) => if c' = c then some n else none | none => none)

theorem numsOf_append (c : Nat) (l1 l2 : List QEntry) : numsOf c (l1 ++ l2) = numsOf c l1 ++ numsOf c l2 := by
  unfold numsOf; simp

theorem mem_numsOf (c n : Nat) (l : List QEntry) : n ∈ numsOf c l ↔ ∃ e ∈ l, e.direct = some (c, n) := by
  unfold numsOf
  rw [List.mem_filterMap]
  constructor
  · rintro ⟨e, he, h⟩
    refine ⟨e, he, ?_⟩
    cases hd : e.direct with
    | none => simp [hd] at h
    | some p =>
      obtain ⟨c', n'⟩ := p
      simp only [hd] at h
      split at h
      · rename_i hc; injection h with h; subst hc; subst h; rfl
      · simp at h
  · rintro ⟨e, he, h⟩
    exact ⟨e, he, by simp [h]⟩

/-- a directly queued entry names a stored request of that client with that number, already counted -/
def EntryOK (s : State) (e : QEntry) : Prop :=
  ∀ c n, e.direct = some (c, n) →
    (∃ cl, s.clients[c]? = some cl ∧ n < cl.decoded) ∧
    ∃ id slot r, e.ref = .frag id slot ∧ s.msgs[id]? = some r ∧ r.owner = c ∧ r.num = n

theorem entryOK_ext (s s' : State) (e : QEntry) (hx : Ext s s') (h : EntryOK s e) : EntryOK s' e := by
  intro c n hd
  obtain ⟨⟨cl, hc, hlt⟩, id, slot, r, href, hr, ho, hn⟩ := h c n hd
  obtain ⟨cl', hc', hle⟩ := hx.clients c cl hc
  obtain ⟨r', hr', ho', hn'⟩ := hx.msgs id r hr
  exact ⟨⟨cl', hc', Nat.lt_of_lt_of_le hlt hle⟩, id, slot, r', href, hr', by rw [ho', ho], by rw [hn', hn]⟩

/-- new entries are appended; a new directly queued entry is numbered no lower than anything its client
    had decoded before -/
structure Frame (s s' : State) : Prop where
  ext : Ext s s'
  blen : s.backends.length ≤ s'.backends.length
  enq : ∀ (i : Nat) (b' : Backend), s'.backends[i]? = some b' → ∃ extra, b'.enq = enqAt s i ++ extra ∧
      (∀ e ∈ extra, EntryOK s' e) ∧
      (∀ e ∈ extra, ∀ c n, e.direct = some (c, n) → ∀ cl, s.clients[c]? = some cl → cl.decoded ≤ n) ∧
      ∀ c, (numsOf c extra).Pairwise (· ≤ ·)

theorem frame_of_bsame (s s' : State) (hb : BSame s s') (hx : Ext s s') : Frame s s' := by
  refine ⟨hx, by rw [hb]; exact Nat.le_refl _, fun i b' h => ⟨[], ?_, by simp, by simp, by simp [numsOf]⟩⟩
  rw [hb] at h
  simp [enqAt, h]

theorem Frame.refl (s : State) : Frame s s := frame_of_bsame s s rfl (Ext.refl s)

theorem Frame.trans {a b c : State} (h1 : Frame a b) (h2 : Frame b c) : Frame a c := by
  refine ⟨Ext.trans h1.ext h2.ext, Nat.le_trans h1.blen h2.blen, fun i b'' hb'' => ?_⟩
  obtain ⟨ex2, he2, hok2, hlo2, hpw2⟩ := h2.enq i b'' hb''
  cases hb' : b.backends[i]? with
  | none =>
    have hge : b.backends.length ≤ i := by simpa using hb'
    have ha : a.backends[i]? = none := by simp; exact Nat.le_trans h1.blen hge
    refine ⟨ex2, ?_, hok2, ?_, hpw2⟩
    · rw [he2]; simp [enqAt, hb', ha]
    · intro e he cc n hd cl hcl
      obtain ⟨cl', hcl', hle⟩ := h1.ext.clients cc cl hcl
      exact Nat.le_trans hle (hlo2 e he cc n hd cl' hcl')
  | some b' =>
    obtain ⟨ex1, he1, hok1, hlo1, hpw1⟩ := h1.enq i b' hb'
    refine ⟨ex1 ++ ex2, ?_, ?_, ?_, ?_⟩
    · rw [he2]; simp [enqAt, hb', he1]
    · intro e he
      rcases List.mem_append.mp he with h | h
      · exact entryOK_ext b c e h2.ext (hok1 e h)
      · exact hok2 e h
    · intro e he cc n hd cl hcl
      rcases List.mem_append.mp he with h | h
      · exact hlo1 e h cc n hd cl hcl
      · obtain ⟨cl', hcl', hle⟩ := h1.ext.clients cc cl hcl
        exact Nat.le_trans hle (hlo2 e h cc n hd cl' hcl')
    · intro cc
      rw [numsOf_append, List.pairwise_append]
      refine ⟨hpw1 cc, hpw2 cc, fun x hx y hy => ?_⟩
      obtain ⟨e1, he1m, hd1⟩ := (mem_numsOf cc x ex1).mp hx
      obtain ⟨e2, he2m, hd2⟩ := (mem_numsOf cc y ex2).mp hy
      obtain ⟨⟨cl, hcl, hlt⟩, _⟩ := hok1 e1 he1m cc x hd1
      exact Nat.le_trans (Nat.le_of_lt hlt) (hlo2 e2 he2m cc y hd2 cl hcl)

/-- the order invariant: on every connection, the fragments one client queued directly carry
    non-decreasing request numbers -/
def DInv (s : State) : Prop :=
  ∀ (i : Nat) (b : Backend), s.backends[i]? = some b →
    (∀ e ∈ b.enq, EntryOK s e) ∧ ∀ c, (numsOf c b.enq).Pairwise (· ≤ ·)

theorem dinv_frame (s s' : State) (hf : Frame s s') (h : DInv s) : DInv s' := by
  intro i b' hb'
  obtain ⟨ex, he, hok, hlo, hpw⟩ := hf.enq i b' hb'
  cases hb : s.backends[i]? with
  | none =>
    have : enqAt s i = [] := by simp [enqAt, hb]
    rw [this, List.nil_append] at he
    rw [he]; exact ⟨hok, hpw⟩
  | some b =>
    have : enqAt s i = b.enq := by simp [enqAt, hb]
    rw [this] at he
    obtain ⟨hbok, hbpw⟩ := h i b hb
    rw [he]
    refine ⟨fun e hm => ?_, fun c => ?_⟩
    · rcases List.mem_append.mp hm with h1 | h1
      · exact entryOK_ext s s' e hf.ext (hbok e h1)
      · exact hok e h1
    · rw [numsOf_append, List.pairwise_append]
      refine ⟨hbpw c, hpw c, fun x hx y hy => ?_⟩
      obtain ⟨e1, he1m, hd1⟩ := (mem_numsOf c x b.enq).mp hx
      obtain ⟨e2, he2m, hd2⟩ := (mem_numsOf c y ex).mp hy
      obtain ⟨⟨cl, hcl, hlt⟩, _⟩ := hbok e1 he1m c x hd1
      exact Nat.le_trans (Nat.le_of_lt hlt) (hlo e2 he2m c y hd2 cl hcl)


/-- connections are only added, and nothing new is queued -/
structure BKeep (s s' : State) : Prop where
  blen : s.backends.length ≤ s'.backends.length
  enq : ∀ (i : Nat) (b' : Backend), s'.backends[i]? = some b' → b'.enq = enqAt s i

theorem BKeep.refl (s : State) : BKeep s s := ⟨Nat.le_refl _, fun i b' h => by simp [enqAt, h]⟩
theorem bkeep_of_bsame (s s' : State) (h : BSame s s') : BKeep s s' := by
  refine ⟨by rw [h]; exact Nat.le_refl _, fun i b' hb => ?_⟩
  rw [h] at hb; simp [enqAt, hb]
theorem BKeep.trans {a b c : State} (h1 : BKeep a b) (h2 : BKeep b c) : BKeep a c := by
  refine ⟨Nat.le_trans h1.blen h2.blen, fun i b'' hb'' => ?_⟩
  rw [h2.enq i b'' hb'']
  cases hb : b.backends[i]? with
  | none =>
    have hge : b.backends.length ≤ i := by simpa using hb
    have ha : a.backends[i]? = none := by simp; exact Nat.le_trans h1.blen hge
    simp [enqAt, hb, ha]
  | some b' =>
    have := h1.enq i b' hb
    simp [enqAt, hb, this]

theorem frame_of_keep (s s' : State) (hs : SameCM s s') (hk : BKeep s s') : Frame s s' := by
  refine ⟨ext_of_same s s' hs, hk.blen, fun i b' h => ⟨[], ?_, by simp, by simp, by simp [numsOf]⟩⟩
  rw [hk.enq i b' h]; simp

theorem frame_of_keep_ext (s s' : State) (hx : Ext s s') (hk : BKeep s s') : Frame s s' := by
  refine ⟨hx, hk.blen, fun i b' h => ⟨[], ?_, by simp, by simp, by simp [numsOf]⟩⟩
  rw [hk.enq i b' h]; simp

theorem bkeep_updBackend (s : State) (b : Nat) (f : Backend → Backend) (hf : ∀ x, (f x).enq = x.enq) :
    BKeep s (s.updBackend b f) := by
  refine ⟨by show s.backends.length ≤ (setAt s.backends b f).length; rw [setAt_length]; exact Nat.le_refl _, fun i b' hb' => ?_⟩
  have hb'' : (setAt s.backends b f)[i]? = some b' := hb'
  rw [getElem?_setAt] at hb''
  cases hx : s.backends[i]? with
  | none => rw [hx] at hb''; simp at hb''
  | some x =>
    rw [hx] at hb''
    simp only [Option.map_some] at hb''
    simp only [enqAt, hx]
    split at hb''
    · injection hb'' with hb''; subst hb''; exact hf x
    · injection hb'' with hb''; subst hb''; rfl

theorem bkeep_fail (s : State) (w : String) : BKeep s (s.fail w) := bkeep_of_bsame _ _ (bsame_fail s w)

theorem bkeep_dial (S : Strs) (cfg : Cfg) (s : State) (p : Nat) : BKeep s (dial S cfg s p).1 := by
  unfold dial
  split
  · exact bkeep_fail s _
  · dsimp only
    refine ⟨by simp, fun i b' hb' => ?_⟩
    have hy' : (s.backends ++ [_])[i]? = some b' := hb'
    rw [getElem?_append_new] at hy'
    split at hy'
    · simp [enqAt, hy']
    · split at hy'
      · rename_i hlt heq
        injection hy' with hy'; subst hy'
        have : s.backends[i]? = none := by simp; omega
        simp [enqAt, this]
      · exact absurd hy' (by simp)

theorem bkeep_poolGet (S : Strs) (cfg : Cfg) (s : State) (p : Nat) : BKeep s (poolGet S cfg s p).1 := by
  unfold poolGet
  split
  · exact bkeep_fail s _
  · split
    · exact bkeep_dial S cfg s p
    · split
      · exact bkeep_of_bsame _ _ rfl
      · refine BKeep.trans ?_ (bkeep_dial S cfg _ p)
        exact bkeep_of_bsame _ _ rfl

theorem bkeep_writeSignal (S : Strs) (cfg : Cfg) (s : State) (b : Nat) : BKeep s (writeSignal S cfg s b) := by
  unfold writeSignal
  split
  · exact BKeep.refl s
  · dsimp only
    split
    · exact BKeep.refl s
    · refine BKeep.trans ?_ (bkeep_of_bsame (s.updBackend b _) _ rfl)
      exact bkeep_updBackend s b _ (fun _ => rfl)

theorem bkeep_resolve (T : Tables) (S : Strs) (cfg : Cfg) (ty : Nat) (s : State) (vs : List (Nat × Bytes)) (acc : List (Nat × Nat)) :
    BKeep s (resolve T S cfg ty s vs acc).1 := by
  induction vs generalizing s acc with
  | nil => exact BKeep.refl s
  | cons v vs ih =>
    obtain ⟨slot, addr⟩ := v
    unfold resolve
    split
    · exact BKeep.refl s
    · split
      · exact bkeep_fail s _
      · split
        · exact BKeep.refl s
        · split
          · exact BKeep.refl s
          · exact BKeep.trans (bkeep_poolGet S cfg s _) (ih _ _)

theorem bkeep_initPrelude (s : State) (b : Nat) (x : Backend) (view : Bytes) (s' : State) (v' : Bytes)
    (h : initPrelude s b x view = some (s', v')) : BKeep s s' := by
  unfold initPrelude at h
  split at h
  · split at h
    · simp at h
    · injection h with h; injection h with h1 _; subst h1; exact bkeep_updBackend s b _ (fun _ => rfl)
    · injection h with h; injection h with h1 _; subst h1; exact BKeep.refl s
    · injection h with h; injection h with h1 _; subst h1; exact bkeep_fail s _
  · injection h with h; injection h with h1 _; subst h1; exact BKeep.refl s


theorem enqAt_enqueueOut (s : State) (b : Nat) (e : QEntry) (i : Nat) :
    (enqueueOut s b e).backends.length = s.backends.length ∧
    (enqAt (enqueueOut s b e) i = enqAt s i ∨ enqAt (enqueueOut s b e) i = enqAt s i ++ [e]) := by
  unfold enqueueOut
  refine ⟨by show (setAt s.backends b _).length = _; rw [setAt_length], ?_⟩
  show (match (setAt s.backends b _)[i]? with | some b => b.enq | none => []) = enqAt s i ∨
    (match (setAt s.backends b _)[i]? with | some b => b.enq | none => []) = enqAt s i ++ [e]
  rw [getElem?_setAt]
  cases hx : s.backends[i]? with
  | none => left; simp [enqAt, hx]
  | some x =>
    by_cases hib : i = b
    · subst hib; right; simp [enqAt, hx]
    · left; simp [enqAt, hx, hib]

theorem frame_enqueueOut_none (s : State) (b : Nat) (e : QEntry) (h : e.direct = none) : Frame s (enqueueOut s b e) := by
  refine ⟨ext_of_same _ _ (same_enqueueOut s b e), Nat.le_of_eq (enqAt_enqueueOut s b e 0).1.symm, fun i b' hb' => ?_⟩
  have hq : enqAt (enqueueOut s b e) i = b'.enq := by simp [enqAt, hb']
  rcases (enqAt_enqueueOut s b e i).2 with h1 | h1
  · exact ⟨[], by rw [← hq, h1]; simp, by simp, by simp, by simp [numsOf]⟩
  · refine ⟨[e], by rw [← hq, h1], ?_, ?_, ?_⟩
    · intro e' he' c n hd; simp at he'; subst he'; rw [h] at hd; simp at hd
    · intro e' he' c n hd; simp at he'; subst he'; rw [h] at hd; simp at hd
    · intro c; simp [numsOf, h]

theorem foldl_enqueue_enq (targets : List (Nat × Nat)) (g : Nat × Nat → QEntry) (s : State) (i : Nat) :
    (targets.foldl (fun st t => enqueueOut st t.2 (g t)) s).backends.length = s.backends.length ∧
    ∃ extra, enqAt (targets.foldl (fun st t => enqueueOut st t.2 (g t)) s) i = enqAt s i ++ extra ∧
      ∀ e ∈ extra, ∃ t ∈ targets, e = g t := by
  induction targets generalizing s with
  | nil => exact ⟨rfl, [], by simp, by simp⟩
  | cons t ts ih =>
    rw [List.foldl_cons]
    obtain ⟨hl, ex, he, hall⟩ := ih (enqueueOut s t.2 (g t))
    obtain ⟨hl1, h1⟩ := enqAt_enqueueOut s t.2 (g t) i
    refine ⟨by rw [hl, hl1], ?_⟩
    rcases h1 with h1 | h1
    · refine ⟨ex, by rw [he, h1], fun e hm => ?_⟩
      obtain ⟨t', ht', he'⟩ := hall e hm
      exact ⟨t', List.mem_cons_of_mem _ ht', he'⟩
    · refine ⟨g t :: ex, by rw [he, h1]; simp, fun e hm => ?_⟩
      rcases List.mem_cons.mp hm with h2 | h2
      · exact ⟨t, List.mem_cons_self, h2⟩
      · obtain ⟨t', ht', he'⟩ := hall e h2
        exact ⟨t', List.mem_cons_of_mem _ ht', he'⟩

theorem pairwise_const (l : List Nat) (n : Nat) (h : ∀ x ∈ l, x = n) : l.Pairwise (· ≤ ·) := by
  induction l with
  | nil => exact List.Pairwise.nil
  | cons a l ih =>
    refine List.Pairwise.cons (fun y hy => ?_) (ih (fun x hx => h x (List.mem_cons_of_mem _ hx)))
    rw [h a List.mem_cons_self, h y (List.mem_cons_of_mem _ hy)]
    exact Nat.le_refl _

def Exists' (s : State) (c : Nat) : Prop := ∃ cl, s.clients[c]? = some cl

theorem exists_ext (s s' : State) (c : Nat) (hx : Ext s s') (h : Exists' s c) : Exists' s' c := by
  obtain ⟨cl, hcl⟩ := h
  obtain ⟨cl', hcl', _⟩ := hx.clients c cl hcl
  exact ⟨cl', hcl'⟩

theorem acceptReq_spec (s : State) (c : Nat) (m : MMsg) (cl : Client) (hc : s.clients[c]? = some cl) :
    (acceptReq s c m).2 = s.msgs.length ∧
    (∃ cl', (acceptReq s c m).1.clients[c]? = some cl' ∧ cl'.decoded = cl.decoded + 1) ∧
    ∃ r, (acceptReq s c m).1.msgs[s.msgs.length]? = some r ∧ r.owner = c ∧ r.num = cl.decoded := by
  unfold acceptReq
  have hc' : s.client c = some cl := hc
  dsimp only
  split
  · rename_i h; rw [hc'] at h; simp at h
  · rename_i cl0 h; rw [hc'] at h; injection h with h; subst h
    refine ⟨rfl, ⟨_, client_updClient_same _ c _ cl hc, rfl⟩, ⟨{ owner := c, num := cl.decoded, m := { m with done := false } }, ?_, rfl, rfl⟩⟩
    show (s.msgs ++ [_])[s.msgs.length]? = _
    simp

def fwdEntry (cm : CDecode.CMsg) (c id n : Nat) (t : Nat × Nat) : QEntry :=
  { ref := .frag id t.1, bytes := ((getFrag (ofCMsg cm) t.1).map (·.req)).getD [], direct := some (c, n) }

theorem frame_forward (T : Tables) (S : Strs) (cfg : Cfg) (s : State) (c : Nat) (cm : CDecode.CMsg) (ch : ReqChoice)
    (hex : Exists' s c) : Frame s (forward T S cfg s c cm ch) := by
  unfold forward
  dsimp only
  split
  · exact frame_of_bsame _ _ (bsame_fail s _) (ext_of_same _ _ (same_fail s _))
  · generalize hres : resolve T S cfg cm.type s ch.visit [] = res
    have hsame := same_resolve T S cfg cm.type s ch.visit []
    have hkeep := bkeep_resolve T S cfg cm.type s ch.visit []
    rw [hres] at hsame hkeep
    obtain ⟨s1, targets, rej⟩ := res
    have hf1 : Frame s s1 := frame_of_keep s s1 hsame hkeep
    refine Frame.trans hf1 ?_
    have hex1 : Exists' s1 c := exists_ext s s1 c hf1.ext hex
    cases rej with
    | some e => exact frame_of_bsame _ _ (bsame_answerLocal s1 c _ _) (ext_answerLocal s1 c _ _)
    | none =>
      simp only
      split
      · exact Frame.refl s1
      · split
        · exact frame_of_bsame _ _ (bsame_fail s1 _) (ext_of_same _ _ (same_fail s1 _))
        · obtain ⟨cl, hcl⟩ := hex1
          generalize hm : ({ ofCMsg cm with frags := _ } : MMsg) = m'
          obtain ⟨hid, ⟨cl2, hcl2, hdec2⟩, r, hr, hro, hrn⟩ := acceptReq_spec s1 c m' cl hcl
          have hx2 := ext_acceptReq s1 c m'
          have hb2 := bsame_acceptReq s1 c m'
          generalize hacc : acceptReq s1 c m' = acc at *
          obtain ⟨s2, id⟩ := acc
          simp only at hid hcl2 hr hx2 hb2 ⊢
          have hnum : ((s1.client c).map (·.decoded)).getD 0 = cl.decoded := by
            show ((s1.clients[c]?).map (·.decoded)).getD 0 = _
            rw [hcl]; rfl
          rw [hnum]
          show Frame s1 (targets.foldl (fun st t => enqueueOut st t.2 (fwdEntry cm c id cl.decoded t)) s2)
          generalize hg : fwdEntry cm c id cl.decoded = g
          have hsf := foldl_enqueue_same targets g s2
          refine ⟨Ext.trans hx2 (ext_of_same _ _ hsf), ?_, fun i b' hb' => ?_⟩
          · rw [(foldl_enqueue_enq targets g s2 0).1, hb2]; exact Nat.le_refl _
          · obtain ⟨_, ex, he, hall⟩ := foldl_enqueue_enq targets g s2 i
            have hq : enqAt (targets.foldl (fun st t => enqueueOut st t.2 (g t)) s2) i = b'.enq := by simp [enqAt, hb']
            have h12 : enqAt s2 i = enqAt s1 i := by unfold enqAt; rw [hb2]
            refine ⟨ex, by rw [← hq, he, h12], ?_, ?_, ?_⟩
            · intro e hm cc n hd
              obtain ⟨t, _, het⟩ := hall e hm
              rw [het, ← hg] at hd
              simp only [fwdEntry, Option.some.injEq, Prod.mk.injEq] at hd
              obtain ⟨hcc, hn⟩ := hd
              subst hcc; subst hn
              refine ⟨⟨cl2, by rw [hsf.1]; exact hcl2, by omega⟩, id, t.1, r, by rw [het, ← hg]; rfl, ?_, hro, hrn⟩
              rw [hsf.2, hid]; exact hr
            · intro e hm cc n hd cl0 hcl0
              obtain ⟨t, _, het⟩ := hall e hm
              rw [het, ← hg] at hd
              simp only [fwdEntry, Option.some.injEq, Prod.mk.injEq] at hd
              obtain ⟨hcc, hn⟩ := hd
              subst hcc; subst hn
              rw [hcl] at hcl0; injection hcl0 with hcl0; subst hcl0
              exact Nat.le_refl _
            · intro cc
              apply pairwise_const _ cl.decoded
              intro x hx
              obtain ⟨e, hm, hd⟩ := (mem_numsOf cc x ex).mp hx
              obtain ⟨t, _, het⟩ := hall e hm
              rw [het, ← hg] at hd
              simp only [fwdEntry, Option.some.injEq, Prod.mk.injEq] at hd
              exact hd.2.symm


theorem frame_ext_bsame {s s' : State} (hx : Ext s s') (hb : BSame s s') : Frame s s' := frame_of_bsame s s' hb hx

theorem frame_updClient (s : State) (c : Nat) (f : Client → Client) (hf : ∀ cl, cl.decoded ≤ (f cl).decoded) :
    Frame s (s.updClient c f) := frame_of_bsame _ _ rfl (ext_updClient s c f hf)
theorem frame_updReq (s : State) (mi : Nat) (f : Req → Req) (hf : ∀ r, (f r).owner = r.owner ∧ (f r).num = r.num) :
    Frame s (s.updReq mi f) := frame_of_bsame _ _ rfl (ext_updReq s mi f hf)
theorem frame_updBackend (s : State) (b : Nat) (f : Backend → Backend) (hf : ∀ x, (f x).enq = x.enq) :
    Frame s (s.updBackend b f) := frame_of_keep _ _ (same_updBackend s b f) (bkeep_updBackend s b f hf)
theorem frame_fail (s : State) (w : String) : Frame s (s.fail w) :=
  frame_of_bsame _ _ (bsame_fail s w) (ext_of_same _ _ (same_fail s w))
theorem frame_closeClient (s : State) (c : Nat) : Frame s (closeClient s c) :=
  frame_of_bsame _ _ (bsame_closeClient s c) (ext_closeClient s c)
theorem frame_flushClient (s : State) (c : Nat) : Frame s (flushClient s c) :=
  frame_of_bsame _ _ (bsame_flushClient s c) (ext_flushClient s c)
theorem frame_deliver (s : State) (c : Nat) : Frame s (deliver s c) :=
  frame_of_bsame _ _ (bsame_deliver s c) (ext_deliver s c)
theorem frame_answerLocal (s : State) (c : Nat) (m : MMsg) (out : Bytes) : Frame s (answerLocal s c m out) :=
  frame_of_bsame _ _ (bsame_answerLocal s c m out) (ext_answerLocal s c m out)
theorem frame_poolGet (S : Strs) (cfg : Cfg) (s : State) (p : Nat) : Frame s (poolGet S cfg s p).1 :=
  frame_of_keep _ _ (same_poolGet S cfg s p) (bkeep_poolGet S cfg s p)

theorem frame_onRequest (T : Tables) (S : Strs) (cfg : Cfg) (s : State) (c : Nat) (cm : CDecode.CMsg) (ch : ReqChoice)
    (hex : Exists' s c) : Frame s (onRequest T S cfg s c cm ch).1 := by
  unfold onRequest
  split
  · exact frame_answerLocal s c _ _
  · exact frame_forward T S cfg s c cm ch hex

theorem frame_creadLoop (T : Tables) (S : Strs) (cfg : Cfg) (slotFn : Bytes → Nat) (fuel : Nat) :
    ∀ (s : State) (c : Nat) (view : Bytes) (chs : List ReqChoice), Exists' s c →
      Frame s (creadLoop T S cfg slotFn fuel s c view chs) := by
  induction fuel with
  | zero => intro s c view chs _; exact Frame.refl s
  | succ fuel ih =>
    intro s c view chs hex
    unfold creadLoop
    split
    · exact frame_closeClient s c
    · exact frame_fail s _
    · exact frame_updClient s c _ (fun _ => Nat.le_refl _)
    · rename_i cm n _
      dsimp only
      generalize hreq : onRequest T S cfg s c cm
        (if (localAnswer T S cfg cm).isNone = true then (chs.head?.getD { visit := [] }, chs.tail) else ({ visit := [] }, chs)).1 = res
      have hg := frame_onRequest T S cfg s c cm
        (if (localAnswer T S cfg cm).isNone = true then (chs.head?.getD { visit := [] }, chs.tail) else ({ visit := [] }, chs)).1 hex
      rw [hreq] at hg
      obtain ⟨s1, quit⟩ := res
      simp only at hg ⊢
      split
      · exact hg
      · split
        · split
          · split
            · exact Frame.trans hg (frame_closeClient s1 c)
            · exact Frame.trans hg (frame_updClient s1 c _ (fun _ => Nat.le_refl _))
          · exact hg
        · split
          · split
            · exact hg
            · exact Frame.trans hg (ih s1 c _ _ (exists_ext s s1 c hg.ext hex))
          · exact hg

theorem frame_clientBytes (T : Tables) (S : Strs) (cfg : Cfg) (slotFn : Bytes → Nat) (s : State) (c : Nat)
    (chunk : Bytes) (chs : List ReqChoice) : Frame s (clientBytes T S cfg slotFn s c chunk chs) := by
  unfold clientBytes
  split
  · exact Frame.refl s
  · rename_i cl hcl
    split
    · exact Frame.refl s
    · have h1 := frame_updClient s c (fun cl => { cl with leftover := [] }) (fun _ => Nat.le_refl _)
      exact Frame.trans h1 (frame_creadLoop T S cfg slotFn _ _ c _ chs (exists_ext _ _ c h1.ext ⟨cl, hcl⟩))

theorem frame_onMoved (S : Strs) (cfg : Cfg) (s : State) (mi slot : Nat) (isAsk : Bool) (addr : Bytes) :
    Frame s (onMoved S cfg s mi slot isAsk addr) := by
  unfold onMoved
  split
  · exact frame_fail s _
  · dsimp only
    refine Frame.trans (b := s.updReq mi (fun r => { r with m := setFrag r.m slot (fun f => { f with redirects := f.redirects + 1 }) })) (frame_updReq s mi _ (fun _ => ⟨rfl, rfl⟩)) ?_
    split
    · refine Frame.trans ?_ (frame_flushClient _ _)
      exact frame_updReq _ mi _ (fun _ => ⟨rfl, rfl⟩)
    · split
      · refine Frame.trans ?_ (frame_flushClient _ _)
        exact frame_updReq _ mi _ (fun _ => ⟨rfl, rfl⟩)
      · rename_i p _
        refine Frame.trans (frame_poolGet S cfg _ p) ?_
        refine Frame.trans ?_ (frame_enqueueOut_none _ _ _ rfl)
        split
        · exact frame_enqueueOut_none _ _ _ rfl
        · exact Frame.refl _

theorem frame_onFragReply (T : Tables) (S : Strs) (cfg : Cfg) (slotFn : Bytes → Nat) (s : State) (mi slot rtype : Nat)
    (body : Bytes) : Frame s (onFragReply T S cfg slotFn s mi slot rtype body).1 := by
  unfold onFragReply
  split
  · exact frame_fail s _
  · dsimp only
    generalize onReply T S.merge slotFn cfg.limit _ slot rtype body = res
    obtain ⟨m', sig⟩ := res
    dsimp only
    have h1 := frame_updReq s mi (fun r => { r with m := m' }) (fun _ => ⟨rfl, rfl⟩)
    cases sig with
    | panic => exact Frame.trans h1 (frame_fail _ _)
    | dropped => exact h1
    | waiting => exact h1
    | redirect => exact Frame.trans h1 (frame_onMoved S cfg _ mi slot _ _)
    | ready =>
      dsimp only
      split
      · exact Frame.trans h1 (frame_fail _ _)
      · exact Frame.trans h1 (frame_deliver _ _)

theorem frame_sreadLoop (T : Tables) (S : Strs) (cfg : Cfg) (slotFn : Bytes → Nat) (fuel : Nat) :
    ∀ (s : State) (b : Nat) (view : Bytes), Frame s (sreadLoop T S cfg slotFn fuel s b view) := by
  induction fuel with
  | zero => intro s b view; exact Frame.refl s
  | succ fuel ih =>
    intro s b view
    unfold sreadLoop
    split
    · exact Frame.refl s
    · rename_i x _
      split
      · exact Frame.refl s
      · split
        · exact frame_updBackend s b _ (fun _ => rfl)
        · rename_i s1 v1 hinit
          have h1 : Frame s s1 := frame_of_keep s s1 (same_initPrelude s b x view s1 v1 hinit) (bkeep_initPrelude s b x view s1 v1 hinit)
          refine Frame.trans h1 ?_
          split
          · exact Frame.refl s1
          · split
            · exact frame_updBackend s1 b _ (fun _ => rfl)
            · exact frame_fail s1 _
            · rename_i rtype n _
              split
              · exact frame_fail s1 _
              · rename_i f inQ' _
                dsimp only
                have h2 : Frame s1 (dropTimeout (s1.updBackend b (fun x => { x with inQ := inQ' })) f) := by
                  refine Frame.trans ?_ (frame_of_bsame _ _ (bsame_dropTimeout _ f) (ext_of_same _ _ (same_dropTimeout _ f)))
                  exact frame_updBackend s1 b _ (fun _ => rfl)
                refine Frame.trans h2 ?_
                split
                · exact ih _ b _
                · split
                  · exact frame_fail _ _
                  · exact ih _ b _
                · rename_i mi slot _
                  have hg := frame_onFragReply T S cfg slotFn (dropTimeout (s1.updBackend b (fun x => { x with inQ := inQ' })) (.frag mi slot)) mi slot rtype (v1.take n)
                  split
                  · rename_i s' heq
                    rw [heq] at hg
                    exact Frame.trans hg (ih s' b _)
                  · rename_i s' heq
                    rw [heq] at hg
                    exact hg

theorem frame_backendBytes (T : Tables) (S : Strs) (cfg : Cfg) (slotFn : Bytes → Nat) (s : State) (b : Nat) (chunk : Bytes) :
    Frame s (backendBytes T S cfg slotFn s b chunk) := by
  unfold backendBytes
  split
  · exact Frame.refl s
  · split
    · exact Frame.refl s
    · refine Frame.trans ?_ (frame_sreadLoop T S cfg slotFn _ _ b _)
      exact frame_updBackend s b _ (fun _ => rfl)

theorem frame_backendClose (S : Strs) (s : State) (b : Nat) : Frame s (backendClose S s b) := by
  unfold backendClose
  split
  · exact Frame.refl s
  · split
    · exact Frame.refl s
    · dsimp only
      refine Frame.trans ?_ (frame_updBackend _ b _ (fun _ => rfl))
      refine Frame.trans ?_ (frame_of_bsame _ _ (bsame_foldl_dropTimeout _ _) (ext_of_same _ _ (foldl_dropTimeout_same _ _)))
      exact frame_of_bsame _ _ (bsame_failFrags S _ s) (ext_failFrags S _ s)

theorem bsame_poolRemove (s : State) (p : Nat) : BSame s (poolRemove s p) := by
  unfold poolRemove
  split
  · rfl
  · split <;> rfl

theorem frame_runTasks (S : Strs) (cfg : Cfg) (s : State) : Frame s (runTasks S cfg s) := by
  unfold runTasks
  have : ∀ (ts : List Task) (s0 : State), Frame s0 (ts.foldl (runTask S cfg (backendClose S)) s0) := by
    intro ts
    induction ts with
    | nil => intro s0; exact Frame.refl s0
    | cons t ts ih =>
      intro s0
      refine Frame.trans ?_ (ih _)
      cases t with
      | write b => exact frame_of_keep _ _ (same_writeSignal S cfg s0 b) (bkeep_writeSignal S cfg s0 b)
      | close b => exact frame_backendClose S s0 b
  exact Frame.trans (this s.tasks s) (frame_of_bsame _ _ rfl (ext_of_same _ _ ⟨rfl, rfl⟩))

theorem frame_step (T : Tables) (S : Strs) (cfg : Cfg) (slotFn : Bytes → Nat) (s : State) (e : Event) :
    Frame s (step T S cfg slotFn s e) := by
  unfold step
  split
  · exact Frame.refl s
  · cases e with
    | connect admitted =>
      refine frame_of_bsame _ _ rfl ⟨fun i cl h => ⟨cl, ?_, Nat.le_refl _⟩, fun i r h => ⟨r, h, rfl, rfl⟩⟩
      show (s.clients ++ [_])[i]? = some cl
      rw [getElem?_append_new]
      obtain ⟨hlt, _⟩ := List.getElem?_eq_some_iff.mp h
      rw [if_pos hlt]; exact h
    | clientBytes c chunk chs => exact frame_clientBytes T S cfg slotFn s c chunk chs
    | clientClose c => exact frame_closeClient s c
    | runTasks => exact frame_runTasks S cfg s
    | backendBytes b chunk => exact frame_backendBytes T S cfg slotFn s b chunk
    | backendClose b => exact frame_backendClose S s b
    | expire n => exact frame_of_bsame _ _ (bsame_expire S s n) (ext_expire S s n)
    | poolRemove p => exact frame_of_bsame _ _ (bsame_poolRemove s p) (ext_of_same _ _ (same_poolRemove s p))

theorem dinv_run (T : Tables) (S : Strs) (cfg : Cfg) (slotFn : Bytes → Nat) (es : List Event) (s : State) (h : DInv s) :
    DInv (run T S cfg slotFn s es) := by
  unfold run
  induction es generalizing s with
  | nil => exact h
  | cons e es ih => exact ih _ (dinv_frame _ _ (frame_step T S cfg slotFn s e) h)


/-! ### the stream written to a connection -/

/-- what holds of every redis connection -/
structure BackendOK (b : Backend) : Prop where
  stream : b.out = b.hs ++ (b.sent.map (·.bytes)).flatten
  pre : ∃ lost, b.enq = b.sent ++ lost
  queued : b.opened = true → b.enq = b.sent ++ b.outQ
  await : b.opened = true → ∃ answered, b.sent.map (·.ref) = answered ++ b.inQ

def BInv (s : State) : Prop := ∀ (i : Nat) (b : Backend), s.backends[i]? = some b → BackendOK b


theorem binv_of_bsame (s s' : State) (h : BSame s s') (hi : BInv s) : BInv s' := by
  intro i b hb; rw [h] at hb; exact hi i b hb

theorem backend_upd_same (s : State) (b : Nat) (f : Backend → Backend) (x : Backend) (h : s.backends[b]? = some x) :
    (s.updBackend b f).backends[b]? = some (f x) := by
  show (setAt s.backends b f)[b]? = _
  rw [getElem?_setAt]; simp [h]

theorem backend_upd_other (s : State) (b b' : Nat) (f : Backend → Backend) (h : b' ≠ b) :
    (s.updBackend b f).backends[b']? = s.backends[b']? := by
  show (setAt s.backends b f)[b']? = _
  rw [getElem?_setAt]; simp [h]

theorem binv_updBackend (s : State) (b : Nat) (f : Backend → Backend) (hi : BInv s)
    (hf : ∀ x, s.backends[b]? = some x → BackendOK x → BackendOK (f x)) : BInv (s.updBackend b f) := by
  intro i y hy
  by_cases hib : i = b
  · subst hib
    cases hx : s.backends[i]? with
    | none =>
      have : (s.updBackend i f).backends[i]? = none := by
        show (setAt s.backends i f)[i]? = _
        rw [getElem?_setAt]; simp [hx]
      rw [this] at hy; simp at hy
    | some x =>
      rw [backend_upd_same s i f x hx] at hy
      injection hy with hy; subst hy
      exact hf x hx (hi i x hx)
  · rw [backend_upd_other s b i f hib] at hy
    exact hi i y hy


theorem binv_enqueueOut (s : State) (b : Nat) (e : QEntry) (hi : BInv s) : BInv (enqueueOut s b e) := by
  unfold enqueueOut
  apply binv_of_bsame (s.updBackend b _) _ rfl
  apply binv_updBackend s b _ hi
  intro x _ hx
  exact ⟨hx.stream, by obtain ⟨l, hl⟩ := hx.pre; exact ⟨l ++ [e], by simp [hl]⟩, fun ho => by simp [hx.queued ho], hx.await⟩

theorem binv_dial (S : Strs) (cfg : Cfg) (s : State) (p : Nat) (hi : BInv s) : BInv (dial S cfg s p).1 := by
  unfold dial
  split
  · exact binv_of_bsame _ _ (bsame_fail s _) hi
  · dsimp only
    intro i y hy
    have hy' : (s.backends ++ [_])[i]? = some y := hy
    rw [getElem?_append_new] at hy'
    split at hy'
    · exact hi i y hy'
    · split at hy'
      · injection hy' with hy'; subst hy'
        exact ⟨by simp, ⟨[], by simp⟩, fun _ => by simp, fun _ => ⟨[], by simp⟩⟩
      · exact absurd hy' (by simp)

theorem binv_poolGet (S : Strs) (cfg : Cfg) (s : State) (p : Nat) (hi : BInv s) : BInv (poolGet S cfg s p).1 := by
  unfold poolGet
  split
  · exact binv_of_bsame _ _ (bsame_fail s _) hi
  · split
    · exact binv_dial S cfg s p hi
    · split
      · exact binv_of_bsame _ _ rfl hi
      · exact binv_dial S cfg _ p (binv_of_bsame _ _ rfl hi)

theorem binv_writeSignal (S : Strs) (cfg : Cfg) (s : State) (b : Nat) (hi : BInv s) : BInv (writeSignal S cfg s b) := by
  unfold writeSignal State.backend
  cases hx : s.backends[b]? with
  | none => exact hi
  | some x =>
    dsimp only
    split
    · exact hi
    · rename_i hcond
      simp only [not_or, Bool.not_eq_true', Bool.not_eq_eq_eq_not, Bool.not_false] at hcond
      apply binv_of_bsame (s.updBackend b _) _ rfl
      apply binv_updBackend s b _ hi
      intro y hy hyok
      rw [hx] at hy; injection hy with hy; subst hy
      have hop : x.opened = true := by simpa using hcond.1
      refine ⟨?_, ⟨[], ?_⟩, fun _ => ?_, fun _ => ?_⟩
      · show x.out ++ _ = x.hs ++ ((x.sent ++ x.outQ).map (·.bytes)).flatten
        rw [hyok.stream]; simp
      · show x.enq = (x.sent ++ x.outQ) ++ []
        rw [hyok.queued hop]; simp
      · show x.enq = (x.sent ++ x.outQ) ++ []
        rw [hyok.queued hop]; simp
      · obtain ⟨ans, ha⟩ := hyok.await hop
        exact ⟨ans, by show (x.sent ++ x.outQ).map (·.ref) = ans ++ (x.inQ ++ x.outQ.map (·.ref)); rw [List.map_append, ha]; simp⟩

/-! ### every step keeps `BInv` -/

theorem binv_bs {s s' : State} (h : BSame s s') (hi : BInv s) : BInv s' := binv_of_bsame s s' h hi

theorem binv_resolve (T : Tables) (S : Strs) (cfg : Cfg) (ty : Nat) (s : State) (vs : List (Nat × Bytes)) (acc : List (Nat × Nat))
    (hi : BInv s) : BInv (resolve T S cfg ty s vs acc).1 := by
  induction vs generalizing s acc with
  | nil => exact hi
  | cons v vs ih =>
    obtain ⟨slot, addr⟩ := v
    unfold resolve
    split
    · exact hi
    · split
      · exact binv_bs (bsame_fail s _) hi
      · split
        · exact hi
        · split
          · exact hi
          · exact ih _ _ (binv_poolGet S cfg s _ hi)

theorem binv_foldl_enqueue (targets : List (Nat × Nat)) (g : Nat × Nat → QEntry) (s : State) (hi : BInv s) :
    BInv (targets.foldl (fun st t => enqueueOut st t.2 (g t)) s) := by
  induction targets generalizing s with
  | nil => exact hi
  | cons t ts ih => exact ih _ (binv_enqueueOut s _ _ hi)

theorem binv_forward (T : Tables) (S : Strs) (cfg : Cfg) (s : State) (c : Nat) (cm : CDecode.CMsg) (ch : ReqChoice)
    (hi : BInv s) : BInv (forward T S cfg s c cm ch) := by
  unfold forward
  dsimp only
  split
  · exact binv_bs (bsame_fail s _) hi
  · have h1 := binv_resolve T S cfg cm.type s ch.visit [] hi
    generalize resolve T S cfg cm.type s ch.visit [] = res at h1
    obtain ⟨s1, targets, rej⟩ := res
    cases rej with
    | some e => exact binv_bs (bsame_answerLocal s1 c _ _) h1
    | none =>
      simp only
      split
      · exact h1
      · split
        · exact binv_bs (bsame_fail s1 _) h1
        · exact binv_foldl_enqueue _ _ _ (binv_bs (bsame_acceptReq s1 c _) h1)

theorem binv_onRequest (T : Tables) (S : Strs) (cfg : Cfg) (s : State) (c : Nat) (cm : CDecode.CMsg) (ch : ReqChoice)
    (hi : BInv s) : BInv (onRequest T S cfg s c cm ch).1 := by
  unfold onRequest
  split
  · exact binv_bs (bsame_answerLocal s c _ _) hi
  · exact binv_forward T S cfg s c cm ch hi

theorem binv_creadLoop (T : Tables) (S : Strs) (cfg : Cfg) (slotFn : Bytes → Nat) (fuel : Nat) :
    ∀ (s : State) (c : Nat) (view : Bytes) (chs : List ReqChoice), BInv s →
      BInv (creadLoop T S cfg slotFn fuel s c view chs) := by
  induction fuel with
  | zero => intro s c view chs h; exact h
  | succ fuel ih =>
    intro s c view chs hi
    unfold creadLoop
    split
    · exact binv_bs (bsame_closeClient s c) hi
    · exact binv_bs (bsame_fail s _) hi
    · exact binv_bs (s' := s.updClient c _) rfl hi
    · rename_i cm n _
      dsimp only
      have hg := binv_onRequest T S cfg s c cm
        (if (localAnswer T S cfg cm).isNone = true then (chs.head?.getD { visit := [] }, chs.tail) else ({ visit := [] }, chs)).1 hi
      generalize onRequest T S cfg s c cm
        (if (localAnswer T S cfg cm).isNone = true then (chs.head?.getD { visit := [] }, chs.tail) else ({ visit := [] }, chs)).1 = res at hg
      obtain ⟨s1, quit⟩ := res
      simp only at hg ⊢
      split
      · exact hg
      · split
        · split
          · split
            · exact binv_bs (bsame_closeClient s1 c) hg
            · exact binv_bs (s' := s1.updClient c _) rfl hg
          · exact hg
        · split
          · split
            · exact hg
            · exact ih s1 c _ _ hg
          · exact hg

theorem binv_clientBytes (T : Tables) (S : Strs) (cfg : Cfg) (slotFn : Bytes → Nat) (s : State) (c : Nat)
    (chunk : Bytes) (chs : List ReqChoice) (hi : BInv s) : BInv (clientBytes T S cfg slotFn s c chunk chs) := by
  unfold clientBytes
  split
  · exact hi
  · split
    · exact hi
    · exact binv_creadLoop T S cfg slotFn _ _ c _ chs (binv_bs (s' := s.updClient c _) rfl hi)

theorem binv_onMoved (S : Strs) (cfg : Cfg) (s : State) (mi slot : Nat) (isAsk : Bool) (addr : Bytes) (hi : BInv s) :
    BInv (onMoved S cfg s mi slot isAsk addr) := by
  unfold onMoved
  split
  · exact binv_bs (bsame_fail s _) hi
  · dsimp only
    have h1 : BInv (s.updReq mi (fun r => { r with m := setFrag r.m slot (fun f => { f with redirects := f.redirects + 1 }) })) :=
      binv_bs rfl hi
    split
    · exact binv_bs (bsame_flushClient _ _) (binv_bs (s' := State.updReq _ mi _) rfl h1)
    · split
      · exact binv_bs (bsame_flushClient _ _) (binv_bs (s' := State.updReq _ mi _) rfl h1)
      · rename_i p _
        apply binv_enqueueOut
        have h2 := binv_poolGet S cfg _ p h1
        split
        · exact binv_enqueueOut _ _ _ h2
        · exact h2

theorem binv_onFragReply (T : Tables) (S : Strs) (cfg : Cfg) (slotFn : Bytes → Nat) (s : State) (mi slot rtype : Nat)
    (body : Bytes) (hi : BInv s) : BInv (onFragReply T S cfg slotFn s mi slot rtype body).1 := by
  unfold onFragReply
  split
  · exact binv_bs (bsame_fail s _) hi
  · dsimp only
    generalize onReply T S.merge slotFn cfg.limit _ slot rtype body = res
    obtain ⟨m', sig⟩ := res
    dsimp only
    have h1 : BInv (s.updReq mi (fun r => { r with m := m' })) := binv_bs rfl hi
    cases sig with
    | panic => exact binv_bs (bsame_fail _ _) h1
    | dropped => exact h1
    | waiting => exact h1
    | redirect => exact binv_onMoved S cfg _ mi slot _ _ h1
    | ready =>
      dsimp only
      split
      · exact binv_bs (bsame_fail _ _) h1
      · exact binv_bs (bsame_deliver _ _) h1

theorem binv_initPrelude (s : State) (b : Nat) (x : Backend) (view : Bytes) (s' : State) (v' : Bytes)
    (h : initPrelude s b x view = some (s', v')) (hi : BInv s) : BInv s' := by
  unfold initPrelude at h
  split at h
  · split at h
    · simp at h
    · injection h with h; injection h with h1 _; subst h1
      exact binv_updBackend s b _ hi (fun y _ hy => ⟨hy.stream, hy.pre, hy.queued, hy.await⟩)
    · injection h with h; injection h with h1 _; subst h1; exact hi
    · injection h with h; injection h with h1 _; subst h1; exact binv_bs (bsame_fail s _) hi
  · injection h with h; injection h with h1 _; subst h1; exact hi

theorem binv_sreadLoop (T : Tables) (S : Strs) (cfg : Cfg) (slotFn : Bytes → Nat) (fuel : Nat) :
    ∀ (s : State) (b : Nat) (view : Bytes), BInv s → BInv (sreadLoop T S cfg slotFn fuel s b view) := by
  induction fuel with
  | zero => intro s b view h; exact h
  | succ fuel ih =>
    intro s b view hi
    unfold sreadLoop State.backend
    cases hx : s.backends[b]? with
    | none => exact hi
    | some x =>
      dsimp only
      split
      · exact hi
      · split
        · exact binv_updBackend s b _ hi (fun y _ hy => ⟨hy.stream, hy.pre, hy.queued, hy.await⟩)
        · rename_i s1 v1 hinit
          have h1 : BInv s1 := binv_initPrelude s b x view s1 v1 hinit hi
          split
          · exact h1
          · split
            · exact binv_updBackend s1 b _ h1 (fun y _ hy => ⟨hy.stream, hy.pre, hy.queued, hy.await⟩)
            · exact binv_bs (bsame_fail s1 _) h1
            · rename_i rtype n _
              split
              · exact binv_bs (bsame_fail s1 _) h1
              · rename_i f inQ' hq
                have h2 : BInv (dropTimeout (s1.updBackend b (fun x => { x with inQ := inQ' })) f) := by
                  apply binv_bs (bsame_dropTimeout _ f)
                  apply binv_updBackend s1 b _ h1
                  intro y hy hyok
                  refine ⟨hyok.stream, hyok.pre, hyok.queued, fun ho => ?_⟩
                  obtain ⟨ans, ha⟩ := hyok.await ho
                  have hyq : y.inQ = f :: inQ' := by
                    have : (s1.backends[b]?).getD x = y := by rw [hy]; rfl
                    rw [← this]; exact hq
                  exact ⟨ans ++ [f], by show y.sent.map (·.ref) = (ans ++ [f]) ++ inQ'; rw [ha, hyq]; simp⟩
                split
                · exact ih _ b _ h2
                · split
                  · exact binv_bs (bsame_fail _ _) h2
                  · exact ih _ b _ h2
                · rename_i mi slot
                  have hg := binv_onFragReply T S cfg slotFn _ mi slot rtype (v1.take n) h2
                  split
                  · rename_i s' heq
                    rw [heq] at hg
                    exact ih s' b _ hg
                  · rename_i s' heq
                    rw [heq] at hg
                    exact hg

theorem binv_backendBytes (T : Tables) (S : Strs) (cfg : Cfg) (slotFn : Bytes → Nat) (s : State) (b : Nat) (chunk : Bytes)
    (hi : BInv s) : BInv (backendBytes T S cfg slotFn s b chunk) := by
  unfold backendBytes
  split
  · exact hi
  · split
    · exact hi
    · exact binv_sreadLoop T S cfg slotFn _ _ b _
        (binv_updBackend s b _ hi (fun y _ hy => ⟨hy.stream, hy.pre, hy.queued, hy.await⟩))

theorem binv_backendClose (S : Strs) (s : State) (b : Nat) (hi : BInv s) : BInv (backendClose S s b) := by
  unfold backendClose
  split
  · exact hi
  · split
    · exact hi
    · dsimp only
      apply binv_updBackend
      · exact binv_bs (bsame_foldl_dropTimeout _ _) (binv_bs (bsame_failFrags S _ s) hi)
      · intro y _ hy
        exact ⟨hy.stream, hy.pre, fun ho => absurd ho (by simp), fun ho => absurd ho (by simp)⟩

theorem binv_runTasks (S : Strs) (cfg : Cfg) (s : State) (hi : BInv s) : BInv (runTasks S cfg s) := by
  unfold runTasks
  have : ∀ (ts : List Task) (s0 : State), BInv s0 → BInv (ts.foldl (runTask S cfg (backendClose S)) s0) := by
    intro ts
    induction ts with
    | nil => intro s0 h; exact h
    | cons t ts ih =>
      intro s0 h
      apply ih
      cases t with
      | write b => exact binv_writeSignal S cfg s0 b h
      | close b => exact binv_backendClose S s0 b h
  exact binv_of_bsame _ _ rfl (this s.tasks s hi)

theorem binv_step (T : Tables) (S : Strs) (cfg : Cfg) (slotFn : Bytes → Nat) (s : State) (e : Event) (hi : BInv s) :
    BInv (step T S cfg slotFn s e) := by
  unfold step
  split
  · exact hi
  · cases e with
    | connect admitted => exact binv_bs (s' := { s with clients := _ }) rfl hi
    | clientBytes c chunk chs => exact binv_clientBytes T S cfg slotFn s c chunk chs hi
    | clientClose c => exact binv_bs (bsame_closeClient s c) hi
    | runTasks => exact binv_runTasks S cfg s hi
    | backendBytes b chunk => exact binv_backendBytes T S cfg slotFn s b chunk hi
    | backendClose b => exact binv_backendClose S s b hi
    | expire n => exact binv_bs (bsame_expire S s n) hi
    | poolRemove p => exact binv_bs (bsame_poolRemove s p) hi

theorem binv_run (T : Tables) (S : Strs) (cfg : Cfg) (slotFn : Bytes → Nat) (es : List Event) (s : State) (h : BInv s) :
    BInv (run T S cfg slotFn s es) := by
  unfold run
  induction es generalizing s with
  | nil => exact h
  | cons e es ih => exact ih _ (binv_step T S cfg slotFn s e h)

theorem binv_init (S : Strs) (cfg : Cfg) (pools : List (Bytes × Bool)) (table : List (Nat × Nat × RSet)) :
    BInv (init S cfg pools table) := by
  unfold init
  dsimp only
  have : ∀ (l : List Nat) (s : State), BInv s → BInv (l.foldl (fun s p => (poolGet S cfg s p).1) s) := by
    intro l
    induction l with
    | nil => intro s h; exact h
    | cons p l ih => intro s h; exact ih _ (binv_poolGet S cfg s p h)
  apply this
  intro i b hb
  simp at hb

theorem dinv_init (S : Strs) (cfg : Cfg) (pools : List (Bytes × Bool)) (table : List (Nat × Nat × RSet)) :
    DInv (init S cfg pools table) := by
  unfold init
  dsimp only
  have : ∀ (l : List Nat) (s : State), DInv s → DInv (l.foldl (fun s p => (poolGet S cfg s p).1) s) := by
    intro l
    induction l with
    | nil => intro s h; exact h
    | cons p l ih => intro s h; exact ih _ (dinv_frame _ _ (frame_poolGet S cfg s p) h)
  apply this
  intro i b hb
  simp at hb


end RcVerif.Lemmas.SimBack
