import RcVerif.Model.Inst
import RcVerif.Spec.KeySlot
/-
  Helper lemmas for C05: linearity of the CRC shift register over xor, the
  split of a 16-bit word into bytes, and the agreement of the table-driven
  uint32 step with the bit-by-bit specification.
-/
namespace RcVerif.Lemmas.Crc
open RcVerif RcVerif.Spec RcVerif.Hash

theorem xor_cancel (a b p : BitVec 16) : a ^^^ p ^^^ (b ^^^ p) = a ^^^ b := by
  rw [BitVec.xor_comm b p, ← BitVec.xor_assoc, BitVec.xor_assoc a p p, BitVec.xor_self, BitVec.xor_zero]

theorem shift1_xor (x y : BitVec 16) : crcShift1 (x ^^^ y) = crcShift1 x ^^^ crcShift1 y := by
  unfold crcShift1
  rw [BitVec.msb_xor, BitVec.shiftLeft_xor_distrib]
  cases hx : x.msb <;> cases hy : y.msb <;> simp
  · rw [BitVec.xor_assoc]
  · rw [BitVec.xor_assoc, BitVec.xor_comm (y <<< 1), ← BitVec.xor_assoc]
  · rw [xor_cancel]

theorem shift8_xor (x y : BitVec 16) : crcShift8 (x ^^^ y) = crcShift8 x ^^^ crcShift8 y := by
  simp only [crcShift8, shift1_xor]

/-- a word whose top byte is clear is simply shifted up by eight (256 cases, kernel-evaluated) -/
theorem shift8_low : ∀ lo : Fin 256, crcShift8 (BitVec.ofNat 16 lo.val) = BitVec.ofNat 16 (lo.val * 256) := by
  decide +kernel

theorem two_pow_mul_add_eq_xor {b i : Nat} (b_lt : b < 2 ^ i) (a : Nat) :
    2 ^ i * a + b = (2 ^ i * a) ^^^ b := by
  apply Nat.eq_of_testBit_eq
  intro j
  simp only [Nat.testBit_two_pow_mul_add _ b_lt, Nat.testBit_xor, Nat.testBit_two_pow_mul]
  by_cases j_lt : j < i
  · have : ¬ (i ≤ j) := by omega
    simp [j_lt, this]
  · have hb : b.testBit j = false :=
      Nat.testBit_lt_two_pow (Nat.lt_of_lt_of_le b_lt (Nat.pow_le_pow_right (by omega) (by omega)))
    have : i ≤ j := by omega
    simp [j_lt, hb, this]

/-- every 16-bit word is (high byte · 256) xor (low byte) -/
theorem split_bytes (x : BitVec 16) :
    x = BitVec.ofNat 16 (x.toNat / 256 * 256) ^^^ BitVec.ofNat 16 (x.toNat % 256) := by
  rw [← BitVec.ofNat_xor]
  have h : x.toNat % 256 < 2 ^ 8 := Nat.mod_lt _ (by decide)
  have := two_pow_mul_add_eq_xor h (x.toNat / 256)
  have e : x.toNat / 256 * 256 = 2 ^ 8 * (x.toNat / 256) := by omega
  rw [e, ← this]
  have : 2 ^ 8 * (x.toNat / 256) + x.toNat % 256 = x.toNat := by omega
  rw [this, BitVec.ofNat_toNat, BitVec.setWidth_eq]

end RcVerif.Lemmas.Crc
