import RcVerif.Model.ConnIn
import RcVerif.Lemmas.ElasticBuf
/-
  `conn.Peek` / `conn.Discard` / the end-of-read store over the pooled inbound ring present exactly
  "leftover ++ fresh bytes" and drop exactly the consumed prefix (helper lemmas; the property theorems are in
  `Props/C08Conn.lean`).
-/
namespace RcVerif.Lemmas.ConnIn
open RcVerif RcVerif.Elastic RcVerif.ConnIn RcVerif.Lemmas.ElasticBuf RcVerif.Lemmas.RingBuf

theorem isEmpty_content (e : ERing) (h : e.isEmpty = true) : e.content = [] := by
  unfold ERing.isEmpty at h
  unfold ERing.content
  cases hr : e.rb with
  | none => rfl
  | some r => rw [hr] at h; simp only at h; simp [Ring.content, h]

theorem view_length (c : InConn) : c.view.length = c.inb.content.length + c.buf.length := by
  simp [InConn.view]

/-- `Peek(n)` for `n` up to what is buffered: the first `n` bytes of leftover ++ fresh (everything for `n ≤ 0`) -/
theorem peek_spec (c : InConn) (he : EInv c.inb) (n : Int) (hn : n ≤ (c.view.length : Int)) :
    c.peek n = some (if n ≤ 0 then c.view else c.view.take n.toNat) := by
  have hb := ering_buffered c.inb he
  have hv := view_length c
  unfold InConn.peek
  simp only [hb]
  have hgt : ¬ n > ((c.inb.content.length + c.buf.length : Nat) : Int) := by omega
  rw [if_neg hgt]
  -- the normalised count
  generalize hk : (if n ≤ 0 then ((c.inb.content.length + c.buf.length : Nat) : Int) else n) = n'
  have hn'0 : 0 ≤ n' := by rw [← hk]; split <;> omega
  have hn'le : n'.toNat ≤ c.view.length := by rw [← hk]; split <;> omega
  have hgoal : (if n ≤ 0 then c.view else c.view.take n.toNat) = c.view.take n'.toNat := by
    rw [← hk]
    by_cases h0 : n ≤ 0
    · simp only [h0, if_true]
      rw [Int.toNat_natCast, ← hv, List.take_length]
    · simp only [h0, if_false]
  rw [hgoal]
  by_cases hem : c.inb.isEmpty = true
  · rw [if_pos hem]
    have hc := isEmpty_content c.inb hem
    simp [InConn.view, hc]
  · rw [if_neg hem]
    have hp := ering_peek_spec c.inb he n'
    generalize c.inb.peek n' = ht at hp
    by_cases hpos : n' ≤ 0
    · -- nothing is buffered at all
      have hz : n'.toNat = 0 := by omega
      rw [if_pos hpos] at hp
      have hlen : c.inb.content.length + c.buf.length = 0 := by
        rw [← hk] at hpos; split at hpos <;> omega
      have hc : c.inb.content = [] := List.eq_nil_of_length_eq_zero (by omega)
      rw [hc] at hp
      have h1 : ht.1 = [] := (List.append_eq_nil_iff.mp hp).1
      simp [hz, h1]
    · rw [if_neg hpos] at hp
      have hlen : (ht.1 ++ ht.2).length = min n'.toNat c.inb.content.length := by rw [hp]; simp
      simp only [List.length_append] at hlen
      by_cases h1 : ht.1.length ≥ n'.toNat
      · rw [if_pos h1]
        have h2 : ht.2 = [] := List.eq_nil_of_length_eq_zero (by omega)
        have hk1 : n'.toNat ≤ c.inb.content.length := by omega
        rw [h2, List.append_nil] at hp
        rw [hp, List.take_take, Nat.min_self]
        simp only [InConn.view]
        rw [List.take_append_of_le_length hk1]
      · rw [if_neg h1]
        by_cases h3 : c.inb.content.length ≥ n'.toNat
        · rw [if_pos h3, hp]
          simp only [InConn.view]
          rw [List.take_append_of_le_length h3]
        · rw [if_neg h3, hp]
          simp only [InConn.view]
          rw [List.take_append, List.take_of_length_le (by omega)]

/-- `Discard(n)` for `0 < n ≤` what is buffered: exactly the first `n` bytes are dropped -/
theorem discard_spec (pool : Pool) (c : InConn) (hp : PInv pool) (he : EInv c.inb) (n : Nat) (h0 : 0 < n)
    (hn : n ≤ c.view.length) :
    PInv (c.discard pool (n : Int)).1 ∧ EInv (c.discard pool (n : Int)).2.1.inb ∧
    (c.discard pool (n : Int)).2.1.view = c.view.drop n ∧
    (c.buf = [] → (c.discard pool (n : Int)).2.1.buf = []) := by
  have hb := ering_buffered c.inb he
  have hv := view_length c
  unfold InConn.discard
  simp only [hb]
  have hg : ¬ ((((c.inb.content.length + c.buf.length : Nat) : Int) < (n : Int)) ∨ (n : Int) ≤ 0) := by omega
  rw [if_neg hg]
  by_cases hem : c.inb.isEmpty = true
  · rw [if_pos hem]
    have hc := isEmpty_content c.inb hem
    refine ⟨hp, he, ?_, fun hbuf => by simp [hbuf]⟩
    simp [InConn.view, hc]
  · rw [if_neg hem]
    obtain ⟨d1, d2, d3, d4⟩ := ering_discard_spec pool c.inb hp he (n : Int)
    simp only [Int.toNat_natCast] at d3 d4
    by_cases hlt : (c.inb.discard pool (n : Int)).2.2.1 < c.inb.content.length
    · rw [if_pos hlt]
      refine ⟨d1, d2, ?_, fun hbuf => hbuf⟩
      have hnl : n < c.inb.content.length := by rw [d4] at hlt; omega
      simp only [InConn.view, d3]
      rw [List.drop_append_of_le_length (by omega)]
    · rw [if_neg hlt]
      refine ⟨d1, d2, ?_, fun hbuf => by simp [hbuf]⟩
      simp only [InConn.view, d3, Int.toNat_natCast]
      rw [List.drop_append]

/-- the end of a read event keeps the unconsumed bytes, now all in the ring -/
theorem store_spec (pool : Pool) (c : InConn) (hp : PInv pool) (he : EInv c.inb) :
    PInv (c.store pool).1 ∧ EInv (c.store pool).2.inb ∧ (c.store pool).2.view = c.view ∧ (c.store pool).2.buf = [] := by
  obtain ⟨w1, w2, w3⟩ := ering_write_spec pool c.inb hp he c.buf
  unfold InConn.store
  exact ⟨w1, w2, by simp [InConn.view, w3], rfl⟩

/-- `Peek(n)` beyond what is buffered is refused (`io.ErrShortBuffer`), and only then -/
theorem peek_none_iff (c : InConn) (he : EInv c.inb) (n : Int) :
    c.peek n = none ↔ n > (c.view.length : Int) := by
  constructor
  · intro h
    by_cases hn : n ≤ (c.view.length : Int)
    · rw [peek_spec c he n hn] at h; cases h
    · omega
  · intro h
    have hb := ering_buffered c.inb he
    have hv := view_length c
    unfold InConn.peek
    simp only [hb]
    rw [if_pos (by omega)]

/-- `Discard(n)` outside `1 .. buffered` (the branch `resetBuffer`): everything is dropped, the ring reset, and
    the number of bytes that were buffered is returned -/
theorem discard_reset_spec (pool : Pool) (c : InConn) (hp : PInv pool) (he : EInv c.inb) (n : Int)
    (h : n ≤ 0 ∨ n > (c.view.length : Int)) :
    PInv (c.discard pool n).1 ∧ EInv (c.discard pool n).2.1.inb ∧ (c.discard pool n).2.1.view = [] ∧
    (c.discard pool n).2.2 = c.view.length := by
  have hb := ering_buffered c.inb he
  have hv := view_length c
  obtain ⟨r1, r2⟩ := ering_reset_spec c.inb he
  unfold InConn.discard
  simp only [hb]
  rw [if_pos (by omega)]
  exact ⟨hp, r1, by simp [InConn.view, r2], by simp only; omega⟩

end RcVerif.Lemmas.ConnIn
