import RcVerif.Model.Merge
/-
  Basic facts about `conn.sread`'s merge step: pass-through of single-fragment
  replies, the reply size limit, dropping of late replies, error short-circuit.
-/
open RcVerif RcVerif.Merge RcVerif.Resp

namespace RcVerif.Lemmas.MergeBasic

theorem getFrag_some_mem (m : MMsg) (s : Nat) (f : MFrag) (h : getFrag m s = some f) : f ∈ m.frags ∧ f.slot = s := by
  unfold getFrag at h
  have := List.find?_some h
  exact ⟨List.mem_of_find?_eq_some h, by simpa using this⟩

/-- a single-fragment request that is not MGET/MSET/DEL: any reply that is not a redirect and fits
    the limit becomes the request's reply verbatim -/
theorem default_passthrough (T : Tables) (K : Consts) (slotFn : Bytes → Nat) (limit : Nat)
    (m : MMsg) (slot rtype : Nat) (body : Bytes) (f : MFrag)
    (hf : getFrag m slot = some f) (hnd : f.done = false) (herr : f.err = [])
    (hty : m.type ≠ T.cMget ∧ m.type ≠ T.cMset ∧ m.type ≠ T.cDel)
    (hr : rtype ≠ T.rMoved ∧ rtype ≠ T.rAsk) (hsz : body.length ≤ limit) :
    (onReply T K slotFn limit m slot rtype body).2 = .ready ∧
    (onReply T K slotFn limit m slot rtype body).1.done = true ∧
    (onReply T K slotFn limit m slot rtype body).1.rspBody = body := by
  unfold onReply
  simp only [hf, hnd, Bool.false_eq_true, ↓reduceIte, hr.1, hr.2, or_self]
  have h1 : ¬ body.length > limit := by omega
  simp only [h1, ↓reduceIte, herr, hty.1, hty.2.1, hty.2.2, or_self, and_false, ne_eq, not_true_eq_false]
  simp [mergeDefault]

/-- a reply larger than the limit is replaced by the too-large error -/
theorem reply_too_large (T : Tables) (K : Consts) (slotFn : Bytes → Nat) (limit : Nat)
    (m : MMsg) (slot rtype : Nat) (body : Bytes) (f : MFrag)
    (hf : getFrag m slot = some f) (hnd : f.done = false)
    (hr : rtype ≠ T.rMoved ∧ rtype ≠ T.rAsk) (hsz : body.length > limit) (hK : K.errTooLargeRsp ≠ []) :
    (onReply T K slotFn limit m slot rtype body).2 = .ready ∧
    (onReply T K slotFn limit m slot rtype body).1.done = true ∧
    (onReply T K slotFn limit m slot rtype body).1.rspBody = K.errTooLargeRsp := by
  unfold onReply
  simp [hf, hnd, hr.1, hr.2, hsz, hK, allDone, failWith]

/-- a reply for a fragment whose request is already completed is dropped and changes nothing -/
theorem done_dropped (T : Tables) (K : Consts) (slotFn : Bytes → Nat) (limit : Nat)
    (m : MMsg) (slot rtype : Nat) (body : Bytes) (f : MFrag)
    (hf : getFrag m slot = some f) (hd : f.done = true) :
    onReply T K slotFn limit m slot rtype body = (m, .dropped) := by
  unfold onReply
  simp [hf, hd]

/-- an error reply to any fragment of a split request completes the whole request with that error -/
theorem split_error (T : Tables) (K : Consts) (slotFn : Bytes → Nat) (limit : Nat)
    (m : MMsg) (slot : Nat) (body : Bytes) (f : MFrag)
    (hf : getFrag m slot = some f) (hnd : f.done = false) (herr : f.err = [])
    (hty : m.type = T.cMget ∨ m.type = T.cMset ∨ m.type = T.cDel)
    (hdist : T.rError ≠ T.rMoved ∧ T.rError ≠ T.rAsk) (hsz : body.length ≤ limit) (hb : body ≠ []) :
    (onReply T K slotFn limit m slot T.rError body).2 = .ready ∧
    (onReply T K slotFn limit m slot T.rError body).1.done = true ∧
    (onReply T K slotFn limit m slot T.rError body).1.rspBody = body ∧
    (onReply T K slotFn limit m slot T.rError body).1.err = body ∧
    (∀ x ∈ (onReply T K slotFn limit m slot T.rError body).1.frags, x.done = true) := by
  unfold onReply
  simp only [hf, hnd, Bool.false_eq_true, ↓reduceIte, hdist.1, hdist.2, or_self]
  have h1 : ¬ body.length > limit := by omega
  simp only [h1, ↓reduceIte, herr, hty, and_self, ne_eq, hb, not_false_eq_true]
  simp [allDone, failWith]

end RcVerif.Lemmas.MergeBasic
