import RcVerif.Model.Merge
import RcVerif.Lemmas.Decimal
import RcVerif.Lemmas.Frame
/-
  DEL and MSET reassembly in any arrival order: the sum of the per-node counts,
  and OK exactly when every node answered OK.
-/
open RcVerif RcVerif.Merge RcVerif.Resp RcVerif.Lemmas.Decimal RcVerif.Lemmas.Frame

namespace RcVerif.Lemmas.MergeDelSet

section del
variable (T : Tables) (K : Consts) (slotFn : Bytes → Nat) (limit : Nat) (cnt : Nat → Nat)

/-- the node's answer to the DEL fragment of slot `s`: the number of keys it removed -/
def delBody (s : Nat) : Bytes := [58] ++ itoa (cnt s) ++ [13, 10]

/-- the reply to a split DEL: the sum of the per-node counts -/
def finalDel (n : Nat) : Bytes := [58] ++ itoaInt (Int.ofNat n) ++ [13, 10]

def finish (m : MMsg) (rb : Bytes) : MMsg := { m with done := true, rspBody := rb }

structure InitDel (m0 : MMsg) : Prop where
  type : m0.type = T.cDel
  fresh : ∀ fr ∈ m0.frags, fr.done = false ∧ fr.err = []
  notDone : m0.done = false
  fragDone : m0.fragDone = 0
  delNum : m0.delNum = 0

def updD (ps : List Nat) (fr : MFrag) : MFrag :=
  if fr.slot ∈ ps then { fr with done := true, rtype := T.rInteger } else fr

def midD (m0 : MMsg) (ps : List Nat) : MMsg :=
  { m0 with fragDone := ps.length, delNum := Int.ofNat ((ps.map cnt).sum), frags := m0.frags.map (updD T ps) }

theorem updD_slot (ps : List Nat) (fr : MFrag) : (updD T ps fr).slot = fr.slot := by
  unfold updD; split <;> rfl

theorem getFrag_midD (m0 : MMsg) (ps : List Nat) (s : Nat) :
    getFrag (midD T cnt m0 ps) s = (getFrag m0 s).map (updD T ps) := by
  unfold getFrag midD
  simp only
  rw [List.find?_map]
  congr 1
  have : ((fun x : MFrag => decide (x.slot = s)) ∘ updD T ps) = (fun x : MFrag => decide (x.slot = s)) := by
    funext x; simp [updD_slot]
  rw [this]

theorem parse_delBody (s : Nat) (h : Small (cnt s)) :
    parseLen (((delBody cnt s).drop 1).take ((delBody cnt s).length - 3)) = .ok (Int.ofNat (cnt s)) := by
  have : ((delBody cnt s).drop 1).take ((delBody cnt s).length - 3) = itoa (cnt s) := by
    simp [delBody]
  rw [this, parseLen_itoa _ h]

theorem frags_stepD (m0 : MMsg) (ps : List Nat) (s : Nat) (hs : s ∉ ps) :
    (m0.frags.map (updD T ps)).map
        (fun x => if x.slot = s then { x with done := true, rtype := T.rInteger } else x)
      = m0.frags.map (updD T (ps ++ [s])) := by
  rw [List.map_map]
  apply List.map_congr_left
  intro fr _
  simp only [Function.comp, updD_slot]
  by_cases h : fr.slot = s
  · have h1 : fr.slot ∉ ps := by rw [h]; exact hs
    simp [updD, h, hs]
  · have h2 : (fr.slot ∈ ps ++ [s]) ↔ fr.slot ∈ ps := by simp [h]
    unfold updD
    simp only [h, ↓reduceIte, h2]

theorem del_step (m0 : MMsg) (ps : List Nat) (s : Nat) (hs : s ∉ ps) (hsm : Small (cnt s)) :
    mergeDel (bump (midD T cnt m0 ps)) s T.rInteger (delBody cnt s)
      = if ps.length + 1 < m0.frags.length then (midD T cnt m0 (ps ++ [s]), .waiting)
        else (finish (midD T cnt m0 (ps ++ [s])) (finalDel (((ps ++ [s]).map cnt).sum)), .ready) := by
  unfold mergeDel
  simp only [parse_delBody cnt s hsm]
  have hset : setFrag { (bump (midD T cnt m0 ps)) with delNum := (bump (midD T cnt m0 ps)).delNum + Int.ofNat (cnt s) } s
      (fun x => { x with done := true, rtype := T.rInteger }) = midD T cnt m0 (ps ++ [s]) := by
    unfold setFrag bump midD
    simp only [List.length_append, List.length_cons, List.length_nil, List.map_append, List.map_cons, List.map_nil,
      List.sum_append, List.sum_cons, List.sum_nil]
    congr 1
    exact frags_stepD T m0 ps s hs
  rw [hset]
  by_cases h : ps.length + 1 < m0.frags.length
  · have : (midD T cnt m0 (ps ++ [s])).fragDone < (midD T cnt m0 (ps ++ [s])).frags.length := by
      simp [midD]; omega
    simp only [this, h, ↓reduceIte]
  · have : ¬ (midD T cnt m0 (ps ++ [s])).fragDone < (midD T cnt m0 (ps ++ [s])).frags.length := by
      simp [midD]; omega
    simp only [this, h, ↓reduceIte]
    rfl

structure TypesD : Prop where
  d1 : T.rInteger ≠ T.rMoved
  d2 : T.rInteger ≠ T.rAsk
  d3 : T.rInteger ≠ T.rError
  c1 : T.cDel ≠ T.cMget
  c2 : T.cDel ≠ T.cMset

theorem onReply_del (hT : TypesD T) (m0 : MMsg) (hi : InitDel T m0) (ps : List Nat) (s : Nat) (hs : s ∉ ps)
    (hmem : s ∈ m0.frags.map (·.slot)) (hsz : (delBody cnt s).length ≤ limit) :
    onReply T K slotFn limit (midD T cnt m0 ps) s T.rInteger (delBody cnt s)
      = mergeDel (bump (midD T cnt m0 ps)) s T.rInteger (delBody cnt s) := by
  obtain ⟨fr0, hfr0, hslot⟩ := List.mem_map.mp hmem
  have hg0 : ∃ fr, getFrag m0 s = some fr ∧ fr.slot = s := by
    unfold getFrag
    cases hf : m0.frags.find? (fun x => decide (x.slot = s)) with
    | none =>
      have := List.find?_eq_none.mp hf fr0 hfr0
      simp [hslot] at this
    | some fr =>
      have := List.find?_some hf
      exact ⟨fr, rfl, by simpa using this⟩
  obtain ⟨fr, hg, hfs⟩ := hg0
  have hfresh := hi.fresh fr (List.mem_of_find?_eq_some hg)
  have hupd : updD T ps fr = fr := by
    unfold updD; rw [hfs]; simp [hs]
  have hgm : getFrag (midD T cnt m0 ps) s = some fr := by
    rw [getFrag_midD, hg]; simp [hupd]
  unfold onReply
  simp only [hgm, hfresh.1, Bool.false_eq_true, ↓reduceIte, hT.d1, hT.d2, or_self]
  have h1 : ¬ (delBody cnt s).length > limit := by omega
  simp only [h1, ↓reduceIte, hfresh.2, hT.d3, false_and, and_false, ne_eq, not_true_eq_false]
  have hty : (midD T cnt m0 ps).type = T.cDel := hi.type
  simp only [hty, hT.c1, hT.c2, ↓reduceIte]

theorem feed_fromD (hT : TypesD T) (m0 : MMsg) (hi : InitDel T m0) (hsm : ∀ s, Small (cnt s))
    (hnd : (m0.frags.map (·.slot)).Nodup) (hsz : ∀ s, (delBody cnt s).length ≤ limit) :
    ∀ (rest ps : List Nat) (sigs : List Signal), rest ≠ [] → (ps ++ rest).Perm (m0.frags.map (·.slot)) →
      rest.foldl (fun (acc : MMsg × List Signal) s =>
          let r := onReply T K slotFn limit acc.1 s T.rInteger (delBody cnt s)
          (r.1, acc.2 ++ [r.2])) (midD T cnt m0 ps, sigs)
        = (finish (midD T cnt m0 (ps ++ rest)) (finalDel (((ps ++ rest).map cnt).sum)),
           sigs ++ List.replicate (rest.length - 1) Signal.waiting ++ [Signal.ready]) := by
  intro rest
  induction rest with
  | nil => intro _ _ h; exact absurd rfl h
  | cons s rest ih =>
    intro ps sigs _ hperm
    have hnd' : (ps ++ s :: rest).Nodup := hperm.nodup_iff.mpr hnd
    have hs : s ∉ ps := by
      intro hin
      have := List.nodup_append.mp hnd'
      exact this.2.2 s hin s (by simp) rfl
    have hmem : s ∈ m0.frags.map (·.slot) := hperm.mem_iff.mp (by simp)
    have hlen : (ps ++ s :: rest).length = m0.frags.length := by
      rw [hperm.length_eq]; simp
    simp only [List.foldl_cons]
    rw [onReply_del T K slotFn limit cnt hT m0 hi ps s hs hmem (hsz s), del_step T cnt m0 ps s hs (hsm s)]
    cases rest with
    | nil =>
      have : ¬ ps.length + 1 < m0.frags.length := by simp at hlen; omega
      simp [this]
    | cons s2 rest2 =>
      have : ps.length + 1 < m0.frags.length := by simp at hlen; omega
      simp only [this, ↓reduceIte]
      have := ih (ps ++ [s]) (sigs ++ [Signal.waiting]) (by simp) (by simpa using hperm)
      simp only at this ⊢
      rw [this]
      simp [List.replicate_succ]

theorem midD_nil (m0 : MMsg) (h1 : m0.fragDone = 0) (h2 : m0.delNum = 0) : midD T cnt m0 [] = m0 := by
  unfold midD
  have : m0.frags.map (updD T []) = m0.frags := by
    rw [List.map_congr_left (g := id)]
    · simp
    · intro fr _; simp [updD]
  rw [this]
  cases m0; simp_all

/-- **C07 (DEL)**: in any arrival order the reply is the sum of the per-node counts -/
theorem del_any_order (hT : TypesD T) (m0 : MMsg) (hi : InitDel T m0) (hsm : ∀ s, Small (cnt s))
    (hnd : (m0.frags.map (·.slot)).Nodup) (hne : m0.frags ≠ []) (hsz : ∀ s, (delBody cnt s).length ≤ limit)
    (order : List Nat) (hperm : order.Perm (m0.frags.map (·.slot))) :
    order.foldl (fun (acc : MMsg × List Signal) s =>
          let r := onReply T K slotFn limit acc.1 s T.rInteger (delBody cnt s)
          (r.1, acc.2 ++ [r.2])) (m0, [])
      = (finish (midD T cnt m0 order) (finalDel (((m0.frags.map (·.slot)).map cnt).sum)),
         List.replicate (order.length - 1) Signal.waiting ++ [Signal.ready]) := by
  have horder_ne : order ≠ [] := by
    intro e; subst e
    have := hperm.length_eq
    simp at this
    exact hne (List.length_eq_zero_iff.mp (by simpa using this.symm))
  have key := feed_fromD T K slotFn limit cnt hT m0 hi hsm hnd hsz order [] [] horder_ne (by simpa using hperm)
  rw [midD_nil T cnt m0 hi.fragDone hi.delNum] at key
  have hsum : (order.map cnt).sum = ((m0.frags.map (·.slot)).map cnt).sum := (hperm.map cnt).sum_nat
  simpa [hsum] using key

end del

section mset
variable (T : Tables) (K : Consts) (slotFn : Bytes → Nat) (limit : Nat)
variable (rt : Nat → Nat) (body : Nat → Bytes)   -- per slot: the reply type and bytes of the node

structure InitSet (m0 : MMsg) : Prop where
  type : m0.type = T.cMset
  fresh : ∀ fr ∈ m0.frags, fr.done = false ∧ fr.err = []
  notDone : m0.done = false
  fragDone : m0.fragDone = 0

def updS (ps : List Nat) (fr : MFrag) : MFrag :=
  if fr.slot ∈ ps then { fr with ok := (rt fr.slot = T.rOk), done := true, rtype := rt fr.slot } else fr

def midS (m0 : MMsg) (ps : List Nat) : MMsg :=
  { m0 with fragDone := ps.length, frags := m0.frags.map (updS T rt ps) }

theorem updS_slot (ps : List Nat) (fr : MFrag) : (updS T rt ps fr).slot = fr.slot := by
  unfold updS; split <;> rfl

theorem getFrag_midS (m0 : MMsg) (ps : List Nat) (s : Nat) :
    getFrag (midS T rt m0 ps) s = (getFrag m0 s).map (updS T rt ps) := by
  unfold getFrag midS
  simp only
  rw [List.find?_map]
  congr 1
  have : ((fun x : MFrag => decide (x.slot = s)) ∘ updS T rt ps) = (fun x : MFrag => decide (x.slot = s)) := by
    funext x; simp [updS_slot]
  rw [this]

theorem frags_stepS (m0 : MMsg) (ps : List Nat) (s : Nat) (hs : s ∉ ps) :
    (m0.frags.map (updS T rt ps)).map
        (fun x => if x.slot = s then { x with ok := (rt s = T.rOk), done := true, rtype := rt s } else x)
      = m0.frags.map (updS T rt (ps ++ [s])) := by
  rw [List.map_map]
  apply List.map_congr_left
  intro fr _
  simp only [Function.comp, updS_slot]
  by_cases h : fr.slot = s
  · have h1 : fr.slot ∉ ps := by rw [h]; exact hs
    simp [updS, h, hs]
  · have h2 : (fr.slot ∈ ps ++ [s]) ↔ fr.slot ∈ ps := by simp [h]
    unfold updS
    simp only [h, ↓reduceIte, h2]

/-- the reply to a split MSET: OK only if every node said OK -/
def finalSet (m0 : MMsg) : Bytes :=
  if (m0.frags.all (fun fr => rt fr.slot = T.rOk)) then K.ok else K.errUnknown

theorem all_ok_mid (m0 : MMsg) (qs : List Nat) (hall : ∀ s ∈ m0.frags.map (·.slot), s ∈ qs) :
    (midS T rt m0 qs).frags.all (·.ok) = m0.frags.all (fun fr => decide (rt fr.slot = T.rOk)) := by
  unfold midS
  rw [Bool.eq_iff_iff]
  simp only [List.all_eq_true, List.mem_map, forall_exists_index, and_imp, forall_apply_eq_imp_iff₂, decide_eq_true_eq]
  constructor
  · intro h fr hfr
    have hq : fr.slot ∈ qs := hall _ (List.mem_map_of_mem (f := (·.slot)) hfr)
    have := h fr hfr
    simpa [updS, hq] using this
  · intro h fr hfr
    have hq : fr.slot ∈ qs := hall _ (List.mem_map_of_mem (f := (·.slot)) hfr)
    simp [updS, hq, h fr hfr]

theorem mset_step (m0 : MMsg) (ps : List Nat) (s : Nat) (hs : s ∉ ps) (hbound : ps.length + 1 ≤ m0.frags.length)
    (hall : ps.length + 1 = m0.frags.length → ∀ x ∈ m0.frags.map (·.slot), x ∈ ps ++ [s]) :
    mergeMSet T K (bump (midS T rt m0 ps)) s (rt s)
      = if ps.length + 1 < m0.frags.length then (midS T rt m0 (ps ++ [s]), .waiting)
        else (finish (midS T rt m0 (ps ++ [s])) (finalSet T K rt m0), .ready) := by
  unfold mergeMSet
  have hset : setFrag (bump (midS T rt m0 ps)) s
      (fun x => { x with ok := (rt s = T.rOk), done := true, rtype := rt s }) = midS T rt m0 (ps ++ [s]) := by
    unfold setFrag bump midS
    simp only [List.length_append, List.length_cons, List.length_nil]
    congr 1
    exact frags_stepS T rt m0 ps s hs
  have hset' : setFrag (bump (midS T rt m0 ps)) s
      (fun x => { x with ok := decide (rt s = T.rOk), done := true, rtype := rt s }) = midS T rt m0 (ps ++ [s]) := hset
  simp only [hset']
  by_cases h : ps.length + 1 < m0.frags.length
  · have : (midS T rt m0 (ps ++ [s])).fragDone < (midS T rt m0 (ps ++ [s])).frags.length := by
      simp [midS]; omega
    simp only [this, h, ↓reduceIte]
  · have hn : ¬ (midS T rt m0 (ps ++ [s])).fragDone < (midS T rt m0 (ps ++ [s])).frags.length := by
      simp [midS]; omega
    simp only [hn, h, ↓reduceIte]
    have hle : ps.length + 1 = m0.frags.length := by omega
    rw [all_ok_mid T rt m0 (ps ++ [s]) (hall hle)]
    unfold finalSet finish
    split <;> rfl

structure TypesS : Prop where
  notRedirect : ∀ s, rt s ≠ T.rMoved ∧ rt s ≠ T.rAsk ∧ rt s ≠ T.rError
  c1 : T.cMset ≠ T.cMget

theorem onReply_mset (hT : TypesS T rt) (m0 : MMsg) (hi : InitSet T m0) (ps : List Nat) (s : Nat) (hs : s ∉ ps)
    (hmem : s ∈ m0.frags.map (·.slot)) (hsz : (body s).length ≤ limit) :
    onReply T K slotFn limit (midS T rt m0 ps) s (rt s) (body s)
      = mergeMSet T K (bump (midS T rt m0 ps)) s (rt s) := by
  obtain ⟨fr0, hfr0, hslot⟩ := List.mem_map.mp hmem
  have hg0 : ∃ fr, getFrag m0 s = some fr ∧ fr.slot = s := by
    unfold getFrag
    cases hf : m0.frags.find? (fun x => decide (x.slot = s)) with
    | none =>
      have := List.find?_eq_none.mp hf fr0 hfr0
      simp [hslot] at this
    | some fr =>
      have := List.find?_some hf
      exact ⟨fr, rfl, by simpa using this⟩
  obtain ⟨fr, hg, hfs⟩ := hg0
  have hfresh := hi.fresh fr (List.mem_of_find?_eq_some hg)
  have hupd : updS T rt ps fr = fr := by
    unfold updS; rw [hfs]; simp [hs]
  have hgm : getFrag (midS T rt m0 ps) s = some fr := by
    rw [getFrag_midS, hg]; simp [hupd]
  have hr := hT.notRedirect s
  unfold onReply
  simp only [hgm, hfresh.1, Bool.false_eq_true, ↓reduceIte, hr.1, hr.2.1, or_self]
  have h1 : ¬ (body s).length > limit := by omega
  simp only [h1, ↓reduceIte, hfresh.2, hr.2.2, false_and, and_false, ne_eq, not_true_eq_false]
  have hty : (midS T rt m0 ps).type = T.cMset := hi.type
  simp only [hty, hT.c1, ↓reduceIte]

theorem feed_fromS (hT : TypesS T rt) (m0 : MMsg) (hi : InitSet T m0)
    (hnd : (m0.frags.map (·.slot)).Nodup) (hsz : ∀ s, (body s).length ≤ limit) :
    ∀ (rest ps : List Nat) (sigs : List Signal), rest ≠ [] → (ps ++ rest).Perm (m0.frags.map (·.slot)) →
      rest.foldl (fun (acc : MMsg × List Signal) s =>
          let r := onReply T K slotFn limit acc.1 s (rt s) (body s)
          (r.1, acc.2 ++ [r.2])) (midS T rt m0 ps, sigs)
        = (finish (midS T rt m0 (ps ++ rest)) (finalSet T K rt m0),
           sigs ++ List.replicate (rest.length - 1) Signal.waiting ++ [Signal.ready]) := by
  intro rest
  induction rest with
  | nil => intro _ _ h; exact absurd rfl h
  | cons s rest ih =>
    intro ps sigs _ hperm
    have hnd' : (ps ++ s :: rest).Nodup := hperm.nodup_iff.mpr hnd
    have hs : s ∉ ps := by
      intro hin
      have := List.nodup_append.mp hnd'
      exact this.2.2 s hin s (by simp) rfl
    have hmem : s ∈ m0.frags.map (·.slot) := hperm.mem_iff.mp (by simp)
    have hlen : (ps ++ s :: rest).length = m0.frags.length := by
      rw [hperm.length_eq]; simp
    simp only [List.foldl_cons]
    rw [onReply_mset T K slotFn limit rt body hT m0 hi ps s hs hmem (hsz s)]
    cases rest with
    | nil =>
      have hall : ps.length + 1 = m0.frags.length → ∀ x ∈ m0.frags.map (·.slot), x ∈ ps ++ [s] :=
        fun _ x hx => hperm.mem_iff.mpr hx
      rw [mset_step T K rt m0 ps s hs (by simp at hlen; omega) hall]
      have : ¬ ps.length + 1 < m0.frags.length := by simp at hlen; omega
      simp [this]
    | cons s2 rest2 =>
      have hlt : ps.length + 1 < m0.frags.length := by simp at hlen; omega
      rw [mset_step T K rt m0 ps s hs (by omega) (by intro h; omega)]
      simp only [hlt, ↓reduceIte]
      have := ih (ps ++ [s]) (sigs ++ [Signal.waiting]) (by simp) (by simpa using hperm)
      simp only at this ⊢
      rw [this]
      simp [List.replicate_succ]

theorem midS_nil (m0 : MMsg) (h1 : m0.fragDone = 0) : midS T rt m0 [] = m0 := by
  unfold midS
  have : m0.frags.map (updS T rt []) = m0.frags := by
    rw [List.map_congr_left (g := id)]
    · simp
    · intro fr _; simp [updS]
  rw [this]
  cases m0; simp_all

/-- **C07 (MSET)**: in any arrival order the reply is OK exactly when every node answered OK -/
theorem mset_any_order (hT : TypesS T rt) (m0 : MMsg) (hi : InitSet T m0)
    (hnd : (m0.frags.map (·.slot)).Nodup) (hne : m0.frags ≠ []) (hsz : ∀ s, (body s).length ≤ limit)
    (order : List Nat) (hperm : order.Perm (m0.frags.map (·.slot))) :
    order.foldl (fun (acc : MMsg × List Signal) s =>
          let r := onReply T K slotFn limit acc.1 s (rt s) (body s)
          (r.1, acc.2 ++ [r.2])) (m0, [])
      = (finish (midS T rt m0 order) (finalSet T K rt m0),
         List.replicate (order.length - 1) Signal.waiting ++ [Signal.ready]) := by
  have horder_ne : order ≠ [] := by
    intro e; subst e
    have := hperm.length_eq
    simp at this
    exact hne (List.length_eq_zero_iff.mp (by simpa using this.symm))
  have key := feed_fromS T K slotFn limit rt body hT m0 hi hnd hsz order [] [] horder_ne (by simpa using hperm)
  rw [midS_nil T rt m0 hi.fragDone] at key
  simpa using key

end mset
end RcVerif.Lemmas.MergeDelSet
