import RcVerif.Model.LList
/-
  `linkedlist.Buffer` refines a FIFO byte queue; its node and byte counters are exact.
-/
namespace RcVerif.Lemmas.LListBuf
open RcVerif RcVerif.LList

structure LInv (l : LL) : Prop where
  size : l.size = l.nodes.length
  bytes : l.bytes = (content l).length

theorem inv_empty : LInv {} := ⟨rfl, rfl⟩

theorem pushBack_spec (l : LL) (h : LInv l) (p : Bytes) :
    LInv (pushBack l p) ∧ content (pushBack l p) = content l ++ p := by
  unfold pushBack
  split
  · rename_i h0
    have : p = [] := List.eq_nil_of_length_eq_zero h0
    simp [this, h]
  · refine ⟨⟨by simp [h.size], by simp [content, h.bytes]⟩, by simp [content]⟩

theorem pushFront_spec (l : LL) (h : LInv l) (p : Bytes) :
    LInv (pushFront l p) ∧ content (pushFront l p) = p ++ content l := by
  unfold pushFront
  split
  · rename_i h0
    have : p = [] := List.eq_nil_of_length_eq_zero h0
    simp [this, h]
  · refine ⟨⟨by simp [h.size], by simp [content, h.bytes]; omega⟩, by simp [content]⟩

/-- the node walk returns whole nodes from the front: a prefix, and it stops early only once the running
    total has reached the limit -/
theorem peekNodes_spec (nodes : List Bytes) (cum max : Nat) :
    (∃ rest, nodes = peekNodes nodes cum max ++ rest) ∧
    (peekNodes nodes cum max = nodes ∨ max ≤ cum + (peekNodes nodes cum max).flatten.length) := by
  induction nodes generalizing cum with
  | nil => exact ⟨⟨[], rfl⟩, Or.inl rfl⟩
  | cons b rest ih =>
    unfold peekNodes
    split
    · exact ⟨⟨rest, rfl⟩, Or.inr (by simp only [List.flatten_cons, List.flatten_nil, List.append_nil]; omega)⟩
    · obtain ⟨⟨r, hr⟩, h2⟩ := ih (cum + b.length)
      refine ⟨⟨r, by rw [List.cons_append, ← hr]⟩, ?_⟩
      rcases h2 with h2 | h2
      · exact Or.inl (by rw [h2])
      · exact Or.inr (by simp only [List.flatten_cons, List.length_append]; omega)

/-- **`Peek(n)`**: what is returned, concatenated, is a prefix of the queue, and it covers the `n` bytes asked for
    (or everything there is) -/
theorem peek_spec (l : LL) (n : Int) :
    (∃ rest, content l = (peek l n).flatten ++ rest) ∧
    min (clampMax n) (content l).length ≤ (peek l n).flatten.length := by
  unfold peek content
  obtain ⟨⟨r, hr⟩, h2⟩ := peekNodes_spec l.nodes 0 (clampMax n)
  refine ⟨⟨r.flatten, ?_⟩, ?_⟩
  · conv => lhs; rw [hr]
    simp
  · rcases h2 with h2 | h2
    · rw [h2]; omega
    · omega

theorem discardLoop_spec (nodes : List Bytes) (size bytes n d : Nat)
    (hs : size = nodes.length) (hb : bytes = nodes.flatten.length) :
    let res := discardLoop nodes size bytes n d
    res.2.1 = res.1.length ∧ res.2.2.1 = res.1.flatten.length ∧
    res.1.flatten = nodes.flatten.drop n ∧ res.2.2.2 = d + min n nodes.flatten.length := by
  induction nodes generalizing size bytes n d with
  | nil => simp [discardLoop, hs, hb]
  | cons b rest ih =>
    unfold discardLoop
    by_cases hn : n = 0
    · simp [hn, hs, hb]
    · simp only [hn, ↓reduceIte]
      by_cases hlt : n < b.length
      · simp only [hlt, ↓reduceIte]
        refine ⟨by simp [hs], ?_, ?_, ?_⟩
        · simp only [List.flatten_cons, List.length_append, List.length_drop] at hb ⊢; omega
        · simp [List.drop_append_of_le_length (Nat.le_of_lt hlt)]
        · simp only [List.flatten_cons, List.length_append]; omega
      · simp only [hlt, ↓reduceIte]
        simp only [List.length_cons] at hs
        simp only [List.flatten_cons, List.length_append] at hb
        have := ih (size - 1) (bytes - b.length) (n - b.length) (d + b.length) (by omega) (by omega)
        obtain ⟨h1, h2, h3, h4⟩ := this
        refine ⟨h1, h2, ?_, ?_⟩
        · rw [h3]; simp only [List.flatten_cons]
          rw [List.drop_append, List.drop_of_length_le (l := b) (by omega)]; simp
        · rw [h4]; simp only [List.flatten_cons, List.length_append]; omega

/-- **`Discard(n)`** -/
theorem discard_spec (l : LL) (h : LInv l) (n : Int) :
    LInv (LList.discard l n).1 ∧ content (LList.discard l n).1 = (content l).drop n.toNat ∧
    (LList.discard l n).2 = min n.toNat (content l).length := by
  unfold LList.discard
  by_cases hn : n ≤ 0
  · have : n.toNat = 0 := by omega
    simp [hn, this, h]
  · simp only [hn, ↓reduceIte]
    have := discardLoop_spec l.nodes l.size l.bytes n.toNat 0 h.size h.bytes
    obtain ⟨h1, h2, h3, h4⟩ := this
    exact ⟨⟨h1, h2⟩, h3, by rw [h4]; simp [content]⟩

theorem readLoop_spec (nodes : List Bytes) (size bytes k : Nat) (acc : Bytes) (hk : 0 < k)
    (hs : size = nodes.length) (hb : bytes = nodes.flatten.length) :
    let res := readLoop nodes size bytes k acc
    res.2.1 = res.1.length ∧ res.2.2.1 = res.1.flatten.length ∧
    res.1.flatten = nodes.flatten.drop k ∧ res.2.2.2 = acc ++ nodes.flatten.take k := by
  induction nodes generalizing size bytes k acc with
  | nil => simp [readLoop, hs, hb]
  | cons b rest ih =>
    unfold readLoop
    dsimp only
    by_cases hlt : min b.length k < b.length
    · simp only [hlt, ↓reduceIte]
      have hk' : k < b.length := by omega
      have hm : min b.length k = k := by omega
      rw [hm]
      refine ⟨by simp [hs], ?_, ?_, ?_⟩
      · simp only [List.flatten_cons, List.length_append, List.length_drop] at hb ⊢; omega
      · simp [List.drop_append_of_le_length (Nat.le_of_lt hk')]
      · simp [List.take_append_of_le_length (Nat.le_of_lt hk')]
    · simp only [hlt, ↓reduceIte]
      have hm : min b.length k = b.length := by omega
      rw [hm]
      by_cases hz : k - b.length = 0
      · simp only [hz, ↓reduceIte]
        have hkb : k = b.length := by omega
        simp only [List.length_cons] at hs
        simp only [List.flatten_cons, List.length_append] at hb
        refine ⟨by omega, by omega, ?_, ?_⟩
        · simp [hkb]
        · simp [hkb]
      · simp only [hz, ↓reduceIte]
        simp only [List.length_cons] at hs
        simp only [List.flatten_cons, List.length_append] at hb
        have := ih (size - 1) (bytes - b.length) (k - b.length) (acc ++ b) (by omega) (by omega) (by omega)
        obtain ⟨h1, h2, h3, h4⟩ := this
        refine ⟨h1, h2, ?_, ?_⟩
        · rw [h3]; simp only [List.flatten_cons]
          rw [List.drop_append, List.drop_of_length_le (l := b) (by omega)]; simp
        · rw [h4]; simp only [List.flatten_cons]
          rw [List.take_append, List.take_of_length_le (l := b) (by omega)]; simp

/-- **`Read(p)`** -/
theorem read_spec (l : LL) (h : LInv l) (k : Nat) :
    LInv (LList.read l k).1 ∧ content (LList.read l k).1 = (content l).drop k ∧ (LList.read l k).2 = (content l).take k := by
  unfold LList.read
  by_cases hk : k = 0
  · simp [hk, h]
  · simp only [hk, ↓reduceIte]
    have := readLoop_spec l.nodes l.size l.bytes k [] (by omega) h.size h.bytes
    obtain ⟨h1, h2, h3, h4⟩ := this
    exact ⟨⟨h1, h2⟩, h3, by rw [h4]; simp [content]⟩

theorem peekExtra_spec (bs : List Bytes) (cum max : Nat) :
    (∃ rest, bs.flatten = (peekExtra bs cum max).1.flatten ++ rest) ∧
    (match (peekExtra bs cum max).2 with
     | none => max ≤ cum + (peekExtra bs cum max).1.flatten.length
     | some c => (peekExtra bs cum max).1.flatten = bs.flatten ∧ c = cum + bs.flatten.length) := by
  induction bs generalizing cum with
  | nil => exact ⟨⟨[], rfl⟩, by simp [peekExtra]⟩
  | cons b rest ih =>
    unfold peekExtra
    by_cases hb : b.length > 0
    · simp only [hb, ↓reduceIte]
      by_cases hm : cum + b.length ≥ max
      · simp only [hm, ↓reduceIte]
        exact ⟨⟨rest.flatten, by simp⟩, by simp; omega⟩
      · simp only [hm, ↓reduceIte]
        obtain ⟨⟨r, hr⟩, h2⟩ := ih (cum + b.length)
        generalize peekExtra rest (cum + b.length) max = res at hr h2
        obtain ⟨l', c'⟩ := res
        refine ⟨⟨r, by simp at hr ⊢; rw [hr]⟩, ?_⟩
        cases c' with
        | none => simp at h2 ⊢; omega
        | some c => simp at h2 ⊢; obtain ⟨h3, h4⟩ := h2; exact ⟨by rw [h3], by omega⟩
    · simp only [hb, ↓reduceIte]
      have hnil : b = [] := by
        cases b with
        | nil => rfl
        | cons _ _ => simp at hb
      subst hnil
      simpa using ih cum

/-- **`PeekWithBytes(n, bs...)`**: a prefix of the extra slices followed by the queue, covering `n` bytes or all -/
theorem peekWithBytes_spec (l : LL) (n : Int) (bs : List Bytes) :
    (∃ rest, bs.flatten ++ content l = (peekWithBytes l n bs).flatten ++ rest) ∧
    min (clampMax n) (bs.flatten ++ content l).length ≤ (peekWithBytes l n bs).flatten.length := by
  unfold peekWithBytes
  obtain ⟨⟨r, hr⟩, h2⟩ := peekExtra_spec bs 0 (clampMax n)
  generalize peekExtra bs 0 (clampMax n) = res at hr h2
  obtain ⟨pre, c⟩ := res
  cases c with
  | none =>
    simp only at h2 hr ⊢
    refine ⟨⟨r ++ content l, by rw [hr]; simp⟩, by omega⟩
  | some c =>
    simp only at h2 hr ⊢
    obtain ⟨h3, h4⟩ := h2
    obtain ⟨⟨r2, hr2⟩, h5⟩ := peekNodes_spec l.nodes c (clampMax n)
    refine ⟨⟨r2.flatten, ?_⟩, ?_⟩
    · simp only [List.flatten_append, h3, List.append_assoc]
      congr 1
      unfold content
      conv => lhs; rw [hr2]
      simp
    · simp only [List.flatten_append, List.length_append, h3]
      rcases h5 with h5 | h5
      · rw [h5]; unfold content; omega
      · omega


end RcVerif.Lemmas.LListBuf
