import RcVerif.Model.Ring
/-
  `ring.Buffer` refines a FIFO byte queue: for a well-formed ring (`Inv`), `content` is the queue and every
  operation of the model does to it what the ideal queue operation does - including wrap-around and growth.
-/
namespace RcVerif.Lemmas.RingBuf
open RcVerif RcVerif.Ring

structure Inv (rb : Ring) : Prop where
  len : rb.buf.length = rb.size
  empty : rb.isEmpty = true → rb.r = 0 ∧ rb.w = 0
  zero : rb.size = 0 → rb.isEmpty = true
  rlt : 0 < rb.size → rb.r < rb.size
  wlt : 0 < rb.size → rb.w < rb.size

theorem slice_length (b : Bytes) (lo hi : Nat) (h : hi ≤ b.length) : (slice b lo hi).length = hi - lo := by
  unfold slice; simp; omega

theorem content_length (rb : Ring) (h : Inv rb) : (content rb).length = buffered rb := by
  unfold content buffered
  by_cases he : rb.isEmpty = true
  · obtain ⟨h1, h2⟩ := h.empty he
    simp [he, h1, h2]
  · have hs : 0 < rb.size := by
      rcases Nat.eq_zero_or_pos rb.size with h0 | h0
      · exact absurd (h.zero h0) he
      · exact h0
    have hr := h.rlt hs
    have hw := h.wlt hs
    have hl := h.len
    simp only [he, Bool.false_eq_true, ↓reduceIte]
    split
    · rename_i hlt
      rw [slice_length _ _ _ (by omega)]
      have : ¬ rb.r = rb.w := by omega
      simp [this]
    · rename_i hge
      simp only [List.length_append, List.length_drop, List.length_take]
      split
      · omega
      · omega

theorem available_eq (rb : Ring) (h : Inv rb) : available rb = rb.size - buffered rb := by
  unfold available buffered
  by_cases he : rb.isEmpty = true
  · obtain ⟨h1, h2⟩ := h.empty he
    simp [he, h1, h2]
  · have hs : 0 < rb.size := by
      rcases Nat.eq_zero_or_pos rb.size with h0 | h0
      · exact absurd (h.zero h0) he
      · exact h0
    have hr := h.rlt hs
    have hw := h.wlt hs
    simp only [he, Bool.false_eq_true, ↓reduceIte]
    split
    · omega
    · split <;> split <;> omega


theorem pos_of_nonempty (rb : Ring) (h : Inv rb) (he : ¬ rb.isEmpty = true) : 0 < rb.size := by
  rcases Nat.eq_zero_or_pos rb.size with h0 | h0
  · exact absurd (h.zero h0) he
  · exact h0

/-- the bytes `Peek(n)` returns, head then tail, are the first `n` buffered bytes (all of them for `n ≤ 0`) -/
theorem peek_spec (rb : Ring) (h : Inv rb) (n : Int) :
    (peek rb n).1 ++ (peek rb n).2 = if n ≤ 0 then content rb else (content rb).take n.toNat := by
  unfold peek content
  by_cases he : rb.isEmpty = true
  · simp [he]
  · have hs := pos_of_nonempty rb h he
    have hr := h.rlt hs
    have hw := h.wlt hs
    have hl := h.len
    simp only [he, Bool.false_eq_true, ↓reduceIte]
    by_cases hn : n ≤ 0
    · simp only [hn, ↓reduceIte]
      unfold peekAll
      simp only [he, Bool.false_eq_true, ↓reduceIte]
      by_cases hlt : rb.r < rb.w
      · simp [hlt]
      · have : ¬ rb.w > rb.r := by omega
        simp only [this, ↓reduceIte, hlt]
        by_cases hw0 : rb.w = 0
        · simp [hw0]
        · simp [hw0]
    · simp only [hn, ↓reduceIte]
      generalize hk : n.toNat = k
      have hk0 : 0 < k := by omega
      by_cases hlt : rb.r < rb.w
      · have : rb.w > rb.r := hlt
        simp only [this, ↓reduceIte, hlt, List.append_nil]
        unfold slice
        rw [List.take_take]
        congr 1
        omega
      · have : ¬ rb.w > rb.r := by omega
        simp only [this, ↓reduceIte, hlt]
        by_cases hfit : rb.r + min (rb.size - rb.r + rb.w) k ≤ rb.size
        · simp only [hfit, ↓reduceIte, List.append_nil]
          unfold slice
          rw [List.take_append]
          simp only [List.length_drop, hl]
          by_cases hkA : k ≤ rb.size - rb.r
          · have e1 : rb.r + min (rb.size - rb.r + rb.w) k - rb.r = k := by omega
            have e2 : k - (rb.size - rb.r) = 0 := by omega
            rw [e1, e2]; simp
          · have hw0 : rb.w = 0 := by omega
            have e1 : rb.r + min (rb.size - rb.r + rb.w) k - rb.r = rb.size - rb.r := by omega
            rw [e1, hw0]
            simp
            omega
        · simp only [hfit, ↓reduceIte]
          rw [List.take_append]
          simp only [List.length_drop, hl]
          have e : List.take k (List.drop rb.r rb.buf) = List.drop rb.r rb.buf :=
            List.take_of_length_le (by simp; omega)
          rw [e, List.take_take]
          congr 2
          omega


theorem inv_reset (rb : Ring) (h : Inv rb) : Inv (reset rb) :=
  ⟨h.len, fun _ => ⟨rfl, rfl⟩, fun _ => rfl, fun hs => hs, fun hs => hs⟩

theorem content_reset (rb : Ring) : content (reset rb) = [] := by simp [content, reset]

/-- `Discard(n)` drops exactly the first `n` buffered bytes (all of them if fewer are buffered) and reports how many -/
theorem discard_spec (rb : Ring) (h : Inv rb) (n : Int) :
    Inv (Ring.discard rb n).1 ∧
    content (Ring.discard rb n).1 = (content rb).drop n.toNat ∧
    (Ring.discard rb n).2 = min n.toNat (content rb).length := by
  have hcl := content_length rb h
  unfold Ring.discard
  by_cases hn : n ≤ 0
  · have : n.toNat = 0 := by omega
    simp [hn, this, h]
  · simp only [hn, ↓reduceIte]
    generalize hk : n.toNat = k
    have hk0 : 0 < k := by omega
    by_cases hlt : k < buffered rb
    · simp only [hlt, ↓reduceIte]
      have he : ¬ rb.isEmpty = true := by
        intro he
        obtain ⟨h1, h2⟩ := h.empty he
        simp [buffered, he, h1, h2] at hlt
      have hs := pos_of_nonempty rb h he
      have hr := h.rlt hs
      have hw := h.wlt hs
      have hl := h.len
      refine ⟨⟨h.len, fun e => absurd e he, fun e => absurd e (Nat.ne_of_gt hs), fun _ => Nat.mod_lt _ hs, h.wlt⟩, ?_, by show k = min k (content rb).length; omega⟩
      unfold buffered at hlt
      simp only [he, Bool.false_eq_true, ↓reduceIte] at hlt
      unfold content
      simp only [he, Bool.false_eq_true, ↓reduceIte]
      by_cases hrw : rb.r < rb.w
      · have hne : ¬ rb.r = rb.w := by omega
        have hgt : rb.w > rb.r := hrw
        simp only [hne, hgt, ↓reduceIte] at hlt
        have hmod : (rb.r + k) % rb.size = rb.r + k := Nat.mod_eq_of_lt (by omega)
        simp only [hmod, hrw, show rb.r + k < rb.w from by omega, ↓reduceIte]
        unfold slice
        rw [List.drop_take, List.drop_drop]
        congr 1
        omega
      · simp only [hrw, ↓reduceIte]
        have hbuf : k < rb.size - rb.r + rb.w := by
          by_cases hEq : rb.r = rb.w
          · simp only [hEq, ↓reduceIte] at hlt; omega
          · have : ¬ rb.w > rb.r := by omega
            simp only [hEq, this, ↓reduceIte] at hlt; exact hlt
        by_cases hwrap : rb.r + k < rb.size
        · have hmod : (rb.r + k) % rb.size = rb.r + k := Nat.mod_eq_of_lt hwrap
          simp only [hmod, show ¬ rb.r + k < rb.w from by omega, ↓reduceIte]
          rw [List.drop_append_of_le_length (by simp; omega), List.drop_drop]
        · have hmod : (rb.r + k) % rb.size = rb.r + k - rb.size := by
            rw [Nat.mod_eq_sub_mod (by omega), Nat.mod_eq_of_lt (by omega)]
          simp only [hmod, show rb.r + k - rb.size < rb.w from by omega, ↓reduceIte]
          rw [List.drop_append]
          simp only [List.length_drop, hl]
          rw [List.drop_of_length_le (by simp; omega)]
          unfold slice
          simp only [List.nil_append]
          rw [List.drop_take]
          congr 1
          · omega
          · congr 1; omega
    · simp only [hlt, ↓reduceIte]
      refine ⟨inv_reset rb h, ?_, by omega⟩
      rw [content_reset, List.drop_of_length_le (by omega)]


/-- `Read(p)` copies what `Peek(len p)` shows and leaves what `Discard(len p)` leaves -/
theorem read_eq (rb : Ring) (h : Inv rb) (k : Nat) (hk : 0 < k) (he : ¬ rb.isEmpty = true) :
    (Ring.read rb k).1 = (Ring.discard rb k).1 ∧ (Ring.read rb k).2.1 = (peek rb k).1 ++ (peek rb k).2 ∧ (Ring.read rb k).2.2 = false := by
  have hs := pos_of_nonempty rb h he
  have hr := h.rlt hs
  have hw := h.wlt hs
  have hl := h.len
  unfold Ring.read Ring.discard peek buffered
  have hk' : ¬ k = 0 := by omega
  have hki : ¬ ((k : Int) ≤ 0) := by omega
  simp only [hk', he, hki, Bool.false_eq_true, ↓reduceIte, Int.toNat_natCast]
  by_cases hrw : rb.w > rb.r
  · have hne : ¬ rb.r = rb.w := by omega
    simp only [hrw, hne, ↓reduceIte, List.append_nil, and_true]
    by_cases hkd : k < rb.w - rb.r
    · have hmin : min (rb.w - rb.r) k = k := by omega
      have hmod : (rb.r + k) % rb.size = rb.r + k := Nat.mod_eq_of_lt (by omega)
      simp only [hkd, hmin, hmod, show ¬ rb.r + k = rb.w from by omega, ↓reduceIte, and_self]
    · have hmin : min (rb.w - rb.r) k = rb.w - rb.r := by omega
      simp only [hkd, hmin, show rb.r + (rb.w - rb.r) = rb.w from by omega, ↓reduceIte]
      simp [reset]
  · simp only [hrw, ↓reduceIte]
    by_cases hEq : rb.r = rb.w
    · simp only [hEq, ↓reduceIte]
      by_cases hkd : k < rb.size
      · have hmin : min (rb.size - rb.w + rb.w) k = k := by omega
        simp only [hkd, hmin, ↓reduceIte]
        have hne : ¬ (rb.w + k) % rb.size = rb.w := by
          by_cases hwrap : rb.w + k < rb.size
          · rw [Nat.mod_eq_of_lt hwrap]; omega
          · rw [Nat.mod_eq_sub_mod (by omega), Nat.mod_eq_of_lt (by omega)]; omega
        simp only [hne, ↓reduceIte, true_and]
        split <;> simp
      · have hmin : min (rb.size - rb.w + rb.w) k = rb.size := by omega
        have hmod : (rb.w + rb.size) % rb.size = rb.w := by
          rw [Nat.add_mod_right]; exact Nat.mod_eq_of_lt hw
        simp only [hkd, hmin, hmod, ↓reduceIte]
        refine ⟨by simp [reset], ?_, trivial⟩
        split <;> simp
    · simp only [hEq, ↓reduceIte]
      by_cases hkd : k < rb.size - rb.r + rb.w
      · have hmin : min (rb.size - rb.r + rb.w) k = k := by omega
        simp only [hkd, hmin, ↓reduceIte]
        have hne : ¬ (rb.r + k) % rb.size = rb.w := by
          by_cases hwrap : rb.r + k < rb.size
          · rw [Nat.mod_eq_of_lt hwrap]; omega
          · rw [Nat.mod_eq_sub_mod (by omega), Nat.mod_eq_of_lt (by omega)]; omega
        simp only [hne, ↓reduceIte, true_and]
        split <;> simp
      · have hmin : min (rb.size - rb.r + rb.w) k = rb.size - rb.r + rb.w := by omega
        have hmod : (rb.r + (rb.size - rb.r + rb.w)) % rb.size = rb.w := by
          rw [show rb.r + (rb.size - rb.r + rb.w) = rb.w + rb.size from by omega, Nat.add_mod_right]
          exact Nat.mod_eq_of_lt hw
        simp only [hkd, hmin, hmod, ↓reduceIte]
        refine ⟨by simp [reset], ?_, trivial⟩
        split <;> simp


theorem growLoop_ge (fuel n cap : Nat) (hn : 4 ≤ n) (hf : cap ≤ fuel + n) : cap ≤ growLoop fuel n cap := by
  induction fuel generalizing n with
  | zero => simp [growLoop]; omega
  | succ fuel ih =>
    unfold growLoop
    split
    · apply ih
      · omega
      · have : 1 ≤ n / 4 := by omega
        omega
    · omega

theorem le_ceilPow2 (n : Nat) : n ≤ ceilPow2 n := by
  unfold ceilPow2
  split
  · omega
  · have := Nat.lt_log2_self (n := n - 1)
    omega

/-- `grow` settles on a capacity that is at least what was asked for -/
theorem growCap_ge (size newCap : Nat) : newCap ≤ growCap size newCap := by
  unfold growCap
  split
  · split
    · assumption
    · exact le_ceilPow2 newCap
  · dsimp only
    split
    · split
      · omega
      · rename_i hthr
        have h4 : 4 ≤ size := by simp [Gen.ringBufferGrowThreshold] at hthr; omega
        have := growLoop_ge newCap size newCap h4 (by omega)
        split <;> omega
    · omega

/-- `grow` keeps the content, moved to the front of a larger array -/
theorem grow_spec (rb : Ring) (h : Inv rb) (newCap : Nat) (hc : buffered rb < newCap) :
    Inv (grow rb newCap) ∧ content (grow rb newCap) = content rb ∧
    (grow rb newCap).size = growCap rb.size newCap ∧ (grow rb newCap).r = 0 ∧
    (grow rb newCap).w = (content rb).length ∧ ((grow rb newCap).isEmpty = true ↔ content rb = []) := by
  have hcl := content_length rb h
  have hge := growCap_ge rb.size newCap
  unfold grow
  dsimp only
  refine ⟨⟨?_, ?_, ?_, ?_, ?_⟩, ?_, rfl, rfl, rfl, ?_⟩
  · simp; omega
  · intro he
    simp only [List.isEmpty_iff] at he
    simp [he]
  · intro h0
    have h0' : growCap rb.size newCap = 0 := h0
    exfalso; omega
  · intro _; show 0 < growCap rb.size newCap; omega
  · intro _; show (content rb).length < growCap rb.size newCap; omega
  · unfold content
    dsimp only
    by_cases hE : (content rb) = []
    · have : (content rb).isEmpty = true := by simp [hE]
      unfold content at this hE
      simp [this, hE]
    · have hne : (content rb).isEmpty = false := by simp [List.isEmpty_iff, hE]
      have hpos : 0 < (content rb).length := List.length_pos_iff.mpr hE
      unfold content at hne hpos
      simp only [hne, Bool.false_eq_true, ↓reduceIte, hpos]
      unfold slice
      simp
  · simp [List.isEmpty_iff]


theorem blit_length (b : Bytes) (pos : Nat) (p : Bytes) (h : pos + p.length ≤ b.length) : (blit b pos p).length = b.length := by
  unfold blit; simp; omega

theorem wrap_lists (A P1 q : Bytes) (r c2 : Nat) (hq : q.length = c2) (hc2r : c2 ≤ r) (hrA : r ≤ A.length) :
    (q ++ (A ++ P1).drop c2).drop r ++ (q ++ (A ++ P1).drop c2).take c2 = A.drop r ++ (P1 ++ q) := by
  have h1 : (A ++ P1).drop c2 = A.drop c2 ++ P1 := List.drop_append_of_le_length (by omega)
  rw [h1]
  have h2 : (q ++ (A.drop c2 ++ P1)).take c2 = q := by
    rw [List.take_append_of_le_length (by omega), List.take_of_length_le (by omega)]
  rw [h2, List.drop_append, List.drop_of_length_le (l := q) (by omega), List.nil_append, hq]
  rw [List.drop_append_of_le_length (by simp; omega), List.drop_drop]
  rw [show c2 + (r - c2) = r from by omega]
  simp

theorem nowrap_lists (B p : Bytes) (w r : Nat) (hwp : w + p.length ≤ r) (hr : r ≤ B.length) :
    (B.take w ++ p ++ B.drop (w + p.length)).drop r ++ (B.take w ++ p ++ B.drop (w + p.length)).take (w + p.length)
      = B.drop r ++ B.take w ++ p := by
  have hA : (B.take w).length = w := by simp; omega
  have h1 : (B.take w ++ p ++ B.drop (w + p.length)).take (w + p.length) = B.take w ++ p := by
    rw [List.take_append_of_le_length (by simp; omega), List.take_of_length_le (by simp; omega)]
  rw [h1, List.drop_append, List.drop_of_length_le (l := B.take w ++ p) (by simp; omega), List.nil_append]
  simp only [List.length_append, hA, List.drop_drop]
  rw [show w + p.length + (r - (w + p.length)) = r from by omega, List.append_assoc]

/-- the copy: with room for `p`, the content afterwards is the content before followed by `p` -/
theorem writeCore_spec (rb : Ring) (h : Inv rb) (p : Bytes) (hp : 0 < p.length) (hroom : p.length ≤ available rb) :
    Inv (writeCore rb p) ∧ content (writeCore rb p) = content rb ++ p ∧ (writeCore rb p).size = rb.size := by
  have hav := available_eq rb h
  have hcl := content_length rb h
  have hl := h.len
  have hs : 0 < rb.size := by
    rcases Nat.eq_zero_or_pos rb.size with h0 | h0
    · rw [h0] at hav; omega
    · exact h0
  have hr := h.rlt hs
  have hw := h.wlt hs
  unfold writeCore
  dsimp only
  by_cases hwr : rb.w ≥ rb.r
  · simp only [hwr, ↓reduceIte]
    -- either empty (r = w = 0) or r < w; full is excluded by the room
    have hcase : (rb.isEmpty = true ∧ rb.r = 0 ∧ rb.w = 0) ∨ (rb.isEmpty = false ∧ rb.r < rb.w) := by
      by_cases he : rb.isEmpty = true
      · exact Or.inl ⟨he, h.empty he⟩
      · right
        refine ⟨by simpa using he, ?_⟩
        rcases Nat.lt_or_ge rb.r rb.w with h1 | h1
        · exact h1
        · have hEq : rb.r = rb.w := by omega
          have : available rb = 0 := by unfold available; simp [hEq, he]
          omega
    have hfree : p.length ≤ rb.size - rb.w + rb.r := by
      rcases hcase with ⟨he, h1, h2⟩ | ⟨he, hlt⟩
      · rw [h1, h2]; unfold available at hroom; simp [he, h1, h2] at hroom; omega
      · unfold available at hroom
        have : ¬ rb.r = rb.w := by omega
        have : ¬ rb.w < rb.r := by omega
        simp [*] at hroom; omega
    have hcont : content rb = slice rb.buf rb.r rb.w := by
      unfold content
      rcases hcase with ⟨he, h1, h2⟩ | ⟨he, hlt⟩
      · simp [he, h1, h2, slice]
      · simp [he, hlt]
    by_cases hc1 : rb.size - rb.w ≥ p.length
    · simp only [hc1, ↓reduceIte]
      have hbl : (blit rb.buf rb.w p).length = rb.size := by rw [blit_length _ _ _ (by omega)]; exact hl
      by_cases hwrap : rb.w + p.length = rb.size
      · simp only [hwrap, ↓reduceIte]
        refine ⟨⟨hbl, fun e => by simp at e, fun e => absurd e (Nat.ne_of_gt hs), fun _ => hr, fun _ => hs⟩, ?_, by first | rfl | trivial⟩
        rw [hcont]
        unfold content
        simp only [Bool.false_eq_true, ↓reduceIte, Nat.not_lt_zero, List.take_zero, List.append_nil]
        unfold blit slice
        rw [List.drop_append_of_le_length (by simp; omega), List.drop_append_of_le_length (by simp; omega)]
        rw [List.drop_of_length_le (l := rb.buf) (by omega)]
        simp [List.drop_take]
      · have hne : ¬ rb.w + p.length = rb.size := hwrap
        simp only [hne, ↓reduceIte]
        refine ⟨⟨hbl, fun e => by simp at e, fun e => absurd e (Nat.ne_of_gt hs), fun _ => hr, fun _ => by show rb.w + p.length < rb.size; omega⟩, ?_, by first | rfl | trivial⟩
        rw [hcont]
        unfold content
        simp only [Bool.false_eq_true, ↓reduceIte, show rb.r < rb.w + p.length from by omega]
        unfold blit slice
        rw [List.drop_append_of_le_length (by simp; omega), List.drop_append_of_le_length (by simp; omega)]
        rw [List.take_append, List.take_append]
        simp only [List.length_drop, List.length_take, List.length_append]
        have e1 : min rb.w rb.buf.length = rb.w := by omega
        rw [e1]
        have e2 : rb.w + p.length - rb.r - (rb.w - rb.r) = p.length := by omega
        have e3 : rb.w + p.length - rb.r - (rb.w - rb.r + p.length) = 0 := by omega
        rw [List.take_of_length_le (by simp; omega), e2, e3]
        simp [List.drop_take]
    · simp only [hc1, ↓reduceIte]
      -- wrap: the room forces r < w and n - c1 ≤ r
      have hlt : rb.r < rb.w := by
        rcases hcase with ⟨he, h1, h2⟩ | ⟨he, hlt⟩
        · omega
        · exact hlt
      have he : rb.isEmpty = false := by
        rcases hcase with ⟨he, h1, h2⟩ | ⟨he, _⟩
        · omega
        · exact he
      have hc2 : p.length - (rb.size - rb.w) ≤ rb.r := by omega
      have hne : ¬ p.length - (rb.size - rb.w) = rb.size := by omega
      have hb1 : (blit rb.buf rb.w (p.take (rb.size - rb.w))).length = rb.size := by
        rw [blit_length _ _ _ (by simp; omega)]; exact hl
      have hb2 : (blit (blit rb.buf rb.w (p.take (rb.size - rb.w))) 0 (p.drop (rb.size - rb.w))).length = rb.size := by
        rw [blit_length _ _ _ (by simp; omega)]; exact hb1
      simp only [hne, ↓reduceIte]
      refine ⟨⟨hb2, fun e => by simp at e, fun e => absurd e (Nat.ne_of_gt hs), fun _ => hr, fun _ => by show p.length - (rb.size - rb.w) < rb.size; omega⟩, ?_, by first | rfl | trivial⟩
      rw [hcont]
      unfold content
      simp only [Bool.false_eq_true, ↓reduceIte, show ¬ rb.r < p.length - (rb.size - rb.w) from by omega]
      generalize hc1d : rb.size - rb.w = c1 at *
      have hX : blit rb.buf rb.w (p.take c1) = rb.buf.take rb.w ++ p.take c1 := by
        unfold blit
        rw [List.drop_of_length_le (by simp; omega)]; simp
      rw [hX]
      have hbuf : blit (rb.buf.take rb.w ++ p.take c1) 0 (p.drop c1) =
          p.drop c1 ++ (rb.buf.take rb.w ++ p.take c1).drop (p.length - c1) := by
        unfold blit; simp
      rw [hbuf, wrap_lists (rb.buf.take rb.w) (p.take c1) (p.drop c1) rb.r (p.length - c1) (by simp) hc2 (by simp; omega)]
      unfold slice
      rw [List.drop_take, List.take_append_drop]
  · simp only [hwr, ↓reduceIte]
    have hlt : rb.w < rb.r := by omega
    have he : rb.isEmpty = false := by
      cases hE : rb.isEmpty with
      | false => rfl
      | true => have := h.empty hE; omega
    have hfree : rb.w + p.length ≤ rb.r := by
      unfold available at hroom
      have : ¬ rb.r = rb.w := by omega
      simp [*] at hroom; omega
    have hne : ¬ rb.w + p.length = rb.size := by omega
    have hbl : (blit rb.buf rb.w p).length = rb.size := by rw [blit_length _ _ _ (by omega)]; exact hl
    simp only [hne, ↓reduceIte]
    refine ⟨⟨hbl, fun e => by simp at e, fun e => absurd e (Nat.ne_of_gt hs), fun _ => hr, fun _ => by show rb.w + p.length < rb.size; omega⟩, ?_, by first | rfl | trivial⟩
    have hcont : content rb = rb.buf.drop rb.r ++ rb.buf.take rb.w := by
      unfold content; simp [he, show ¬ rb.r < rb.w from by omega]
    rw [hcont]
    unfold content
    simp only [Bool.false_eq_true, ↓reduceIte, show ¬ rb.r < rb.w + p.length from by omega]
    unfold blit
    rw [nowrap_lists rb.buf p rb.w rb.r hfree (by omega)]


theorem buffered_le (rb : Ring) (h : Inv rb) : buffered rb ≤ rb.size := by
  have := available_eq rb h
  unfold buffered
  by_cases he : rb.isEmpty = true
  · obtain ⟨h1, h2⟩ := h.empty he; simp [he, h1, h2]
  · have hs := pos_of_nonempty rb h he
    have hr := h.rlt hs
    have hw := h.wlt hs
    simp only [he, Bool.false_eq_true, ↓reduceIte]
    split
    · omega
    · split <;> omega

/-- **`Write(p)`**: the content afterwards is the content before followed by `p`, whatever the cursors were and
    whether or not the array had to grow -/
theorem write_spec (rb : Ring) (h : Inv rb) (p : Bytes) :
    Inv (write rb p) ∧ content (write rb p) = content rb ++ p := by
  unfold write
  dsimp only
  by_cases hn : p.length = 0
  · have : p = [] := List.eq_nil_of_length_eq_zero hn
    simp [hn, this, h]
  · simp only [hn, ↓reduceIte]
    have hp : 0 < p.length := by omega
    have hav := available_eq rb h
    have hble := buffered_le rb h
    by_cases hg : p.length > available rb
    · simp only [hg, ↓reduceIte]
      have hcap : buffered rb < rb.size + p.length - available rb := by omega
      obtain ⟨hi, hc, hsz, _, _, _⟩ := grow_spec rb h _ hcap
      have hge := growCap_ge rb.size (rb.size + p.length - available rb)
      have hroom : p.length ≤ available (grow rb (rb.size + p.length - available rb)) := by
        rw [available_eq _ hi, ← content_length _ hi, hc, content_length rb h, hsz]
        omega
      obtain ⟨hi2, hc2, _⟩ := writeCore_spec _ hi p hp hroom
      exact ⟨hi2, by rw [hc2, hc]⟩
    · simp only [hg, ↓reduceIte]
      obtain ⟨hi2, hc2, _⟩ := writeCore_spec rb h p hp (by omega)
      exact ⟨hi2, hc2⟩

/-- `WriteByte(c)` is `Write` of the one byte -/
theorem writeByte_eq (rb : Ring) (h : Inv rb) (c : UInt8) : writeByte rb c = write rb [c] := by
  have key : ∀ rb0 : Ring, Inv rb0 → 1 ≤ available rb0 →
      ({ ({ rb0 with buf := blit rb0.buf rb0.w [c], w := rb0.w + 1 } : Ring) with
          w := if rb0.w + 1 = rb0.size then 0 else rb0.w + 1, isEmpty := false } : Ring) = writeCore rb0 [c] := by
    intro rb0 h0 hav0
    have hav := available_eq rb0 h0
    have hs : 0 < rb0.size := by
      rcases Nat.eq_zero_or_pos rb0.size with hz | hz
      · rw [hz] at hav; omega
      · exact hz
    have hw := h0.wlt hs
    unfold writeCore
    dsimp only
    by_cases hwr : rb0.w ≥ rb0.r
    · have : rb0.size - rb0.w ≥ 1 := by omega
      simp [hwr, this]
    · simp [hwr]
  unfold writeByte write
  dsimp only
  simp only [List.length_singleton, Nat.one_ne_zero, ↓reduceIte]
  have hav := available_eq rb h
  have hble := buffered_le rb h
  by_cases hg : available rb < 1
  · have hg' : 1 > available rb := hg
    simp only [hg, hg', ↓reduceIte]
    have h0 : available rb = 0 := by omega
    rw [h0]
    have hcap : buffered rb < rb.size + 1 := by omega
    obtain ⟨hi, hc, hsz, _, _, _⟩ := grow_spec rb h (rb.size + 1) hcap
    have hge := growCap_ge rb.size (rb.size + 1)
    have hroom : 1 ≤ available (grow rb (rb.size + 1)) := by
      rw [available_eq _ hi, ← content_length _ hi, hc, content_length rb h, hsz]
      omega
    exact key _ hi hroom
  · have hg' : ¬ 1 > available rb := by omega
    simp only [hg, hg', ↓reduceIte]
    exact key rb h (by omega)

/-- `ReadByte` reads like `Read` into a one-byte slice -/
theorem readByte_eq (rb : Ring) (h : Inv rb) (he : ¬ rb.isEmpty = true) :
    (readByte rb).1 = (Ring.read rb 1).1 ∧ (readByte rb).2 = (Ring.read rb 1).2.1.head? := by
  have hs := pos_of_nonempty rb h he
  have hr := h.rlt hs
  have hw := h.wlt hs
  have hl := h.len
  unfold readByte Ring.read
  simp only [he, Nat.one_ne_zero, Bool.false_eq_true, ↓reduceIte]
  by_cases hrw : rb.w > rb.r
  · have hmin : min (rb.w - rb.r) 1 = 1 := by omega
    have hne : ¬ rb.r + 1 = rb.size := by omega
    simp only [hrw, hmin, hne, ↓reduceIte, true_and]
    simp [slice, List.getElem?_eq_getElem (show rb.r < rb.buf.length by omega), List.take_one]
  · have hmin : min (rb.size - rb.r + rb.w) 1 = 1 := by omega
    simp only [hrw, hmin, ↓reduceIte]
    by_cases hend : rb.r + 1 = rb.size
    · have hmod : (rb.r + 1) % rb.size = 0 := by rw [hend]; exact Nat.mod_self _
      simp only [hend, hmod, ↓reduceIte, Nat.le_refl, true_and]
      have e : rb.size - rb.r = 1 := by omega
      simp [slice, e, List.getElem?_eq_getElem (show rb.r < rb.buf.length by omega), List.take_one]
    · have hmod : (rb.r + 1) % rb.size = rb.r + 1 := Nat.mod_eq_of_lt (by omega)
      have hle : rb.r + 1 ≤ rb.size := by omega
      simp only [hend, hmod, hle, ↓reduceIte, true_and]
      simp [slice, List.getElem?_eq_getElem (show rb.r < rb.buf.length by omega), List.take_one]

theorem inv_new (size : Nat) : Inv (new size) ∧ content (new size) = [] := by
  unfold new
  split
  · exact ⟨⟨rfl, fun _ => ⟨rfl, rfl⟩, fun _ => rfl, fun h => absurd h (by simp), fun h => absurd h (by simp)⟩, rfl⟩
  · have hpos : 0 < ceilPow2 size := by
      unfold ceilPow2; split
      · omega
      · exact Nat.two_pow_pos _
    refine ⟨⟨by simp, fun _ => ⟨rfl, rfl⟩, fun h0 => rfl, fun _ => hpos, fun _ => hpos⟩, rfl⟩


end RcVerif.Lemmas.RingBuf
