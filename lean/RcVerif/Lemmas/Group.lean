import RcVerif.Model.CDecode
/-
  Grouping lemmas for C06: `groupBySlot` produces exactly one group per distinct
  slot, and the group of slot `s` is the sub-list of items of that slot, in the
  original order.
-/
namespace RcVerif.Lemmas.Group
open RcVerif RcVerif.CDecode

variable {α : Type}

theorem keys_addToGroup (s : Nat) (k : α) (g : List (Nat × List α)) :
    (addToGroup s k g).map (·.1) = if s ∈ g.map (·.1) then g.map (·.1) else g.map (·.1) ++ [s] := by
  induction g with
  | nil => simp [addToGroup]
  | cons p g ih =>
    obtain ⟨s', ks⟩ := p
    simp only [addToGroup]
    by_cases h : s = s'
    · subst h; simp
    · simp only [h, ↓reduceIte, List.map_cons, ih, List.mem_cons, false_or]
      by_cases hm : s ∈ g.map (·.1)
      · simp [hm]
      · simp [hm]

theorem mem_addToGroup (s0 : Nat) (k : α) (g : List (Nat × List α)) (hnd : (g.map (·.1)).Nodup)
    (s : Nat) (ks : List α) :
    (s, ks) ∈ addToGroup s0 k g ↔
      (s = s0 ∧ ((∃ ks0, (s0, ks0) ∈ g ∧ ks = ks0 ++ [k]) ∨ (s0 ∉ g.map (·.1) ∧ ks = [k])))
      ∨ (s ≠ s0 ∧ (s, ks) ∈ g) := by
  induction g with
  | nil => simp [addToGroup]
  | cons p g ih =>
    obtain ⟨s', ks'⟩ := p
    simp only [List.map_cons, List.nodup_cons] at hnd
    obtain ⟨hnm, hnd'⟩ := hnd
    have hnm' : ∀ x, (s', x) ∉ g := fun x hx => hnm (List.mem_map_of_mem (f := (·.1)) hx)
    simp only [addToGroup]
    by_cases h : s0 = s'
    · subst h
      simp only [↓reduceIte, List.mem_cons, Prod.mk.injEq, List.map_cons]
      have hk : ∀ x, (s0, x) ∉ g := hnm'
      grind
    · have ih' := ih hnd'
      simp only [h, ↓reduceIte, List.mem_cons, Prod.mk.injEq, List.map_cons]
      grind

/-- the invariant of the grouping loop after processing `xs` -/
def Inv (f : α → Nat) (g : List (Nat × List α)) (xs : List α) : Prop :=
  (g.map (·.1)).Nodup ∧
  ∀ s ks, (s, ks) ∈ g ↔ (ks = xs.filter (fun x => f x = s) ∧ ks ≠ [])

theorem inv_nil (f : α → Nat) : Inv f [] [] := by
  constructor
  · simp
  · intro s ks; simp

theorem inv_step (f : α → Nat) (g : List (Nat × List α)) (xs : List α) (k : α) (h : Inv f g xs) :
    Inv f (addToGroup (f k) k g) (xs ++ [k]) := by
  obtain ⟨hnd, hm⟩ := h
  constructor
  · rw [keys_addToGroup]
    split
    · exact hnd
    · rename_i hn
      rw [List.nodup_append]
      refine ⟨hnd, by simp, ?_⟩
      intro a ha b hb
      simp at hb; subst hb
      intro e; subst e; exact hn ha
  · intro s ks
    rw [mem_addToGroup (f k) k g hnd s ks]
    simp only [List.filter_append, List.filter_cons, List.filter_nil]
    constructor
    · rintro (⟨h1, (⟨ks0, h2, h3⟩ | ⟨h2, h3⟩)⟩ | ⟨h1, h2⟩)
      · subst h1
        obtain ⟨e, _⟩ := (hm (f k) ks0).mp h2
        subst h3
        simp [e]
      · subst h1 h3
        -- no group yet for this slot: no earlier item has it
        have hempty : xs.filter (fun x => f x = f k) = [] := by
          cases hx : xs.filter (fun x => f x = f k) with
          | nil => rfl
          | cons y ys =>
            have : (f k, y :: ys) ∈ g := (hm (f k) (y :: ys)).mpr ⟨hx.symm, by simp⟩
            exact absurd (List.mem_map_of_mem (f := (·.1)) this) h2
        simp [hempty]
      · obtain ⟨e, hne⟩ := (hm s ks).mp h2
        have : ¬ (f k = s) := fun e => h1 e.symm
        simp only [this, decide_false, Bool.false_eq_true, ↓reduceIte, List.append_nil]
        exact ⟨e, hne⟩
    · rintro ⟨h1, h2⟩
      by_cases hs : s = f k
      · subst hs
        left
        refine ⟨rfl, ?_⟩
        simp only [decide_true, ↓reduceIte] at h1
        cases hx : xs.filter (fun x => f x = f k) with
        | nil =>
          right
          rw [hx] at h1
          refine ⟨?_, by simpa using h1⟩
          intro hmem
          obtain ⟨⟨s', ks'⟩, hp, hs'⟩ := List.mem_map.mp hmem
          simp only at hs'; subst hs'
          obtain ⟨e, hne⟩ := (hm _ ks').mp hp
          rw [hx] at e; exact hne e
        | cons y ys =>
          left
          refine ⟨y :: ys, (hm _ _).mpr ⟨hx.symm, by simp⟩, ?_⟩
          rw [hx] at h1; exact h1
      · right
        have : ¬ (f k = s) := fun e => hs e.symm
        simp only [this, decide_false, Bool.false_eq_true, ↓reduceIte, List.append_nil] at h1
        exact ⟨hs, (hm s ks).mpr ⟨h1, h2⟩⟩

theorem inv_foldl (f : α → Nat) (ys : List α) (g : List (Nat × List α)) (xs : List α) (h : Inv f g xs) :
    Inv f (ys.foldl (fun g k => addToGroup (f k) k g) g) (xs ++ ys) := by
  induction ys generalizing g xs with
  | nil => simpa using h
  | cons y ys ih =>
    simp only [List.foldl_cons]
    have := ih _ _ (inv_step f g xs y h)
    simpa using this

/-- one group per distinct slot -/
theorem group_nodup (f : α → Nat) (items : List α) : ((groupBySlot f items).map (·.1)).Nodup := by
  have := inv_foldl f items [] [] (inv_nil f)
  simp only [List.nil_append] at this
  exact this.1

/-- the group of slot `s` is exactly the items of slot `s`, in order; no empty groups -/
theorem group_mem (f : α → Nat) (items : List α) (s : Nat) (ks : List α) :
    (s, ks) ∈ groupBySlot f items ↔ (ks = items.filter (fun x => f x = s) ∧ ks ≠ []) := by
  have := inv_foldl f items [] [] (inv_nil f)
  simp only [List.nil_append] at this
  exact this.2 s ks

end RcVerif.Lemmas.Group
