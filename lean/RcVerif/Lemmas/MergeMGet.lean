import RcVerif.Model.Merge
import RcVerif.Lemmas.Reply
import RcVerif.Lemmas.Group
/-
  MGET reassembly: the array a node returns for a fragment is parsed back into
  its elements (binary-safe); whatever order the fragments are answered in, the
  request completes exactly at the last answer with one element per requested key
  in request order.
-/
open RcVerif RcVerif.Merge RcVerif.Resp RcVerif.Spec RcVerif.Lemmas.Decimal RcVerif.Lemmas.Frame RcVerif.Lemmas.Reply

namespace RcVerif.Lemmas.MergeMGet

/-- what a node returns for one key of an MGET -/
inductive Val
  | bulk (b : Bytes)
  | null
  deriving DecidableEq

def Val.reply : Val → Reply
  | .bulk b => .bulk b
  | .null => .nullBulk

def Val.enc (v : Val) : Bytes := encReply v.reply

def Val.WF : Val → Prop
  | .bulk b => Small b.length
  | .null => True

theorem enc_bulk (b : Bytes) : (Val.bulk b).enc = (36 :: itoa b.length) ++ 13 :: 10 :: (b ++ [13, 10]) := by
  simp [Val.enc, Val.reply, encReply, encBulk]

theorem enc_null : Val.null.enc = [36, 45, 49, 13, 10] := rfl

theorem parseMGetLoop_vals (vs : List Val) (h : ∀ v ∈ vs, v.WF) (acc : List Bytes) (fuel : Nat)
    (hf : vs.length < fuel) :
    parseMGetLoop fuel (vs.map Val.enc).flatten acc = some (acc ++ vs.map Val.enc) := by
  induction vs generalizing acc fuel with
  | nil =>
    cases fuel with
    | zero => omega
    | succ f => simp [parseMGetLoop, readLine]
  | cons v vs ih =>
    cases fuel with
    | zero => omega
    | succ f =>
      have hvs : ∀ x ∈ vs, x.WF := fun x hx => h x (by simp [hx])
      have hfl : vs.length < f := by simp at hf; omega
      simp only [List.map_cons, List.flatten_cons]
      cases v with
      | null =>
        have hs : Val.null.enc ++ (vs.map Val.enc).flatten = [36, 45, 49] ++ 13 :: 10 :: (vs.map Val.enc).flatten := by
          simp [enc_null]
        unfold parseMGetLoop
        rw [hs, readLine_line [36, 45, 49] _ (by simp) (by decide)]
        simp only [List.tail_cons]
        have : parseLen [45, 49] = .ok (-1) := rfl
        simp only [this]
        have hneg : ((-1 : Int) < 0) := by decide
        simp only [hneg, ↓reduceIte]
        rw [ih hvs _ f hfl]
        simp [enc_null]
      | bulk b =>
        have hb : Small b.length := h (.bulk b) (by simp)
        have hs : (Val.bulk b).enc ++ (vs.map Val.enc).flatten
            = (36 :: itoa b.length) ++ 13 :: 10 :: (b ++ 13 :: 10 :: (vs.map Val.enc).flatten) := by
          simp [enc_bulk]
        unfold parseMGetLoop
        rw [hs, readLine_line (36 :: itoa b.length) _ (by simp)
          (by simp only [List.mem_cons, not_or]; exact ⟨by decide, lf_not_mem_itoa _⟩)]
        simp only [List.tail_cons, parseLen_itoa b.length hb]
        have hnn : ¬ (Int.ofNat b.length < 0) := by simp
        simp only [hnn, ↓reduceIte]
        have h1 : (Int.ofNat b.length).toNat = b.length := rfl
        rw [h1, readN_append b (13 :: 10 :: (vs.map Val.enc).flatten) (by simp)]
        simp only
        have h2 : readN 2 (13 :: 10 :: (vs.map Val.enc).flatten) = .ok ([13, 10], (vs.map Val.enc).flatten) := by
          have := readN_append [13, 10] (vs.map Val.enc).flatten (by simp)
          simpa using this
        rw [h2]
        simp only
        rw [ih hvs _ f hfl]
        simp [enc_bulk]

theorem enc_len_pos (v : Val) : 0 < v.enc.length := by
  cases v <;> simp [enc_bulk, enc_null]

theorem flatten_len_ge (vs : List Val) : vs.length ≤ (vs.map Val.enc).flatten.length := by
  induction vs with
  | nil => simp
  | cons v vs ih =>
    have := enc_len_pos v
    simp at ih ⊢; omega

/-- the array reply of a node to an MGET fragment is parsed back into its elements, binary-safe -/
theorem parseMGet_vals (vs : List Val) (h : ∀ v ∈ vs, v.WF) (hs : Small vs.length) :
    parseMGet (encReply (.array (vs.map Val.reply))) = some (some (vs.map Val.enc)) := by
  have hshape : encReply (.array (vs.map Val.reply))
      = (42 :: itoa vs.length) ++ 13 :: 10 :: (vs.map Val.enc).flatten := by
    have : ∀ l : List Val, encReplies (l.map Val.reply) = (l.map Val.enc).flatten := by
      intro l; induction l with
      | nil => rfl
      | cons x xs ih => simp [encReplies, ih, Val.enc]
    simp [encReply, this]
  unfold parseMGet
  rw [hshape, readLine_line (42 :: itoa vs.length) _ (by simp)
    (by simp only [List.mem_cons, not_or]; exact ⟨by decide, lf_not_mem_itoa _⟩)]
  simp only [List.tail_cons, parseLen_itoa vs.length hs]
  have hnn : ¬ (Int.ofNat vs.length < 0) := by simp
  simp only [hnn, ↓reduceIte]
  rw [parseMGetLoop_vals vs h [] _ (by have := flatten_len_ge vs; omega)]
  simp

open RcVerif.CDecode RcVerif.Lemmas.Group

section mget
variable (T : Tables) (K : Consts) (slotFn : Bytes → Nat) (limit : Nat) (val : Bytes → Val)

/-- keys of the request that live in slot `s`, in request order -/
def grpOf (keys : List Bytes) (s : Nat) : List Bytes := keys.filter (fun k => slotFn k = s)

/-- the node's answer to the fragment of slot `s` -/
def bodyOf (keys : List Bytes) (s : Nat) : Bytes :=
  encReply (.array ((grpOf slotFn keys s).map (fun k => (val k).reply)))

def rspOf (keys : List Bytes) (s : Nat) : List Bytes := (grpOf slotFn keys s).map (fun k => (val k).enc)

/-- the reply the client must get: one element per requested key, in request order -/
def finalOf (keys : List Bytes) : Bytes := encReply (.array (keys.map (fun k => (val k).reply)))

structure Init (m0 : MMsg) : Prop where
  type : m0.type = T.cMget
  groups : m0.groups = groupBySlot slotFn m0.keys
  fresh : ∀ fr ∈ m0.frags, fr.done = false ∧ fr.err = []
  slots : ∀ s, (∃ ks, (s, ks) ∈ m0.groups) ↔ s ∈ m0.frags.map (·.slot)
  notDone : m0.done = false
  fragDone : m0.fragDone = 0

def upd (keys : List Bytes) (ps : List Nat) (fr : MFrag) : MFrag :=
  if fr.slot ∈ ps then { fr with rsp := rspOf slotFn val keys fr.slot, done := true, rtype := T.rMultibulk } else fr

/-- the request after the fragments of the slots in `ps` have been answered (in whatever order) -/
def mid (m0 : MMsg) (ps : List Nat) : MMsg :=
  { m0 with fragDone := ps.length, frags := m0.frags.map (upd T slotFn val m0.keys ps) }

theorem upd_slot (keys : List Bytes) (ps : List Nat) (fr : MFrag) : (upd T slotFn val keys ps fr).slot = fr.slot := by
  unfold upd; split <;> rfl

theorem getFrag_mid (m0 : MMsg) (ps : List Nat) (s : Nat) :
    getFrag (mid T slotFn val m0 ps) s = (getFrag m0 s).map (upd T slotFn val m0.keys ps) := by
  unfold getFrag mid
  simp only
  rw [List.find?_map]
  congr 1
  have : ((fun x : MFrag => decide (x.slot = s)) ∘ upd T slotFn val m0.keys ps) = (fun x : MFrag => decide (x.slot = s)) := by
    funext x; simp [upd_slot]
  rw [this]

theorem grp_wf (keys : List Bytes) (s : Nat) (hv : ∀ k, (val k).WF) :
    ∀ v ∈ (grpOf slotFn keys s).map val, v.WF := by
  intro v hv'
  obtain ⟨k, _, rfl⟩ := List.mem_map.mp hv'
  exact hv k

theorem parse_body (keys : List Bytes) (s : Nat) (hv : ∀ k, (val k).WF) (hs : Small keys.length) :
    parseMGet (bodyOf slotFn val keys s) = some (some (rspOf slotFn val keys s)) := by
  have h1 : (grpOf slotFn keys s).map (fun k => (val k).reply) = ((grpOf slotFn keys s).map val).map Val.reply := by
    simp [List.map_map]
  have h2 : rspOf slotFn val keys s = ((grpOf slotFn keys s).map val).map Val.enc := by
    simp [rspOf, List.map_map]
  unfold bodyOf
  rw [h1, h2]
  apply parseMGet_vals _ (grp_wf slotFn val keys s hv)
  unfold Small at hs ⊢
  have : (grpOf slotFn keys s).length ≤ keys.length := List.length_filter_le _ _
  simp; omega

/-- table facts the merge relies on -/
structure TypesOK : Prop where
  m1 : T.rMultibulk ≠ T.rMoved
  m2 : T.rMultibulk ≠ T.rAsk
  m3 : T.rMultibulk ≠ T.rError

theorem frags_step (m0 : MMsg) (ps : List Nat) (s : Nat) (hs : s ∉ ps) :
    (m0.frags.map (upd T slotFn val m0.keys ps)).map
        (fun x => if x.slot = s then { x with rsp := rspOf slotFn val m0.keys s, done := true, rtype := T.rMultibulk } else x)
      = m0.frags.map (upd T slotFn val m0.keys (ps ++ [s])) := by
  rw [List.map_map]
  apply List.map_congr_left
  intro fr _
  simp only [Function.comp, upd_slot]
  by_cases h : fr.slot = s
  · have h1 : fr.slot ∉ ps := by rw [h]; exact hs
    simp [upd, h, hs]
  · have h2 : (fr.slot ∈ ps ++ [s]) ↔ fr.slot ∈ ps := by simp [h]
    unfold upd
    simp only [h, ↓reduceIte, h2]

theorem set_step (m0 : MMsg) (ps : List Nat) (s : Nat) (hs : s ∉ ps) :
    setFrag (bump (mid T slotFn val m0 ps)) s
      (fun x => { x with rsp := rspOf slotFn val m0.keys s, done := true, rtype := T.rMultibulk })
      = mid T slotFn val m0 (ps ++ [s]) := by
  unfold setFrag bump mid
  simp only [List.length_append, List.length_cons, List.length_nil]
  congr 1
  exact frags_step T slotFn val m0 ps s hs

theorem grp_nonempty (m0 : MMsg) (hi : Init T slotFn m0) (s : Nat) (hmem : s ∈ m0.frags.map (·.slot)) :
    (rspOf slotFn val m0.keys s).length ≥ 1 := by
  have := (hi.slots s).mpr hmem
  obtain ⟨ks, hks⟩ := this
  rw [hi.groups] at hks
  have h := (group_mem slotFn m0.keys s ks).mp hks
  have hne : grpOf slotFn m0.keys s ≠ [] := by
    intro he; exact h.2 (by rw [h.1]; exact he)
  have : 0 < (grpOf slotFn m0.keys s).length := List.length_pos_iff.mpr hne
  simp [rspOf]; omega

/-- answering one more fragment while others are outstanding: the request waits -/
theorem mget_step_mid (m0 : MMsg) (hi : Init T slotFn m0) (hv : ∀ k, (val k).WF)
    (hsm : Small m0.keys.length) (ps : List Nat) (s : Nat) (hs : s ∉ ps) (hmem : s ∈ m0.frags.map (·.slot))
    (hmore : ps.length + 1 < m0.frags.length) :
    mergeMGet K slotFn limit (bump (mid T slotFn val m0 ps)) s T.rMultibulk (bodyOf slotFn val m0.keys s)
      = (mid T slotFn val m0 (ps ++ [s]), .waiting) := by
  unfold mergeMGet
  simp only [parse_body slotFn val m0.keys s hv hsm, Option.getD_some, set_step T slotFn val m0 ps s hs]
  have h1 : ¬ (rspOf slotFn val m0.keys s).length < 1 := by
    have := grp_nonempty T slotFn val m0 hi s hmem; omega
  have h2 : (mid T slotFn val m0 (ps ++ [s])).fragDone < (mid T slotFn val m0 (ps ++ [s])).frags.length := by
    simp [mid]; omega
  simp only [h1, ↓reduceIte, h2]

theorem lookup_of_mem {β} (g : List (Nat × β)) (hnd : (g.map (·.1)).Nodup) (s : Nat) (v : β) (h : (s, v) ∈ g) :
    Commands.lookup s g = some v := by
  induction g with
  | nil => simp at h
  | cons p g ih =>
    obtain ⟨s', v'⟩ := p
    simp only [List.map_cons, List.nodup_cons] at hnd
    simp only [Commands.lookup]
    rcases List.mem_cons.mp h with hhd | htl
    · injection hhd with h1 h2; subst h1 h2; simp
    · have hin : s ∈ g.map (·.1) := List.mem_map_of_mem (f := (·.1)) htl
      have hne : s ≠ s' := by
        intro e; subst e; exact hnd.1 hin
      simp [hne, ih hnd.2 htl]

theorem indexOfKey_mem (k : Bytes) (l : List Bytes) (h : k ∈ l) : ∃ i, indexOfKey k l = some i ∧ l[i]? = some k := by
  induction l with
  | nil => simp at h
  | cons x xs ih =>
    unfold indexOfKey
    by_cases hx : x = k
    · exact ⟨0, by simp [hx], by simp [hx]⟩
    · have hk : k ∈ xs := by
        rcases List.mem_cons.mp h with h | h
        · exact absurd h.symm hx
        · exact h
      obtain ⟨i, h1, h2⟩ := ih hk
      exact ⟨i + 1, by simp [hx, h1], by simpa using h2⟩

theorem encReplies_vals (l : List Val) : encReplies (l.map Val.reply) = (l.map Val.enc).flatten := by
  induction l with
  | nil => rfl
  | cons x xs ih => simp [encReplies, ih, Val.enc]

theorem finalOf_eq (keys : List Bytes) :
    finalOf val keys = [42] ++ itoa keys.length ++ [13, 10] ++ (keys.map (fun k => (val k).enc)).flatten := by
  have h1 : keys.map (fun k => (val k).reply) = (keys.map val).map Val.reply := by simp [List.map_map]
  have h2 : keys.map (fun k => (val k).enc) = (keys.map val).map Val.enc := by simp [List.map_map]
  unfold finalOf
  rw [h1, h2]
  simp only [encReply, encReplies_vals, List.length_map]

/-- once every fragment is answered the assembly loop finds, for each requested key in request
    order, the element its node returned for it -/
theorem assemble_all (m0 : MMsg) (hi : Init T slotFn m0) (qs : List Nat)
    (hall : ∀ s ∈ m0.frags.map (·.slot), s ∈ qs) (ks : List Bytes) (hks : ∀ k ∈ ks, k ∈ m0.keys) (acc : Bytes) :
    assembleMGet slotFn (mid T slotFn val m0 qs) ks acc
      = some (acc ++ (ks.map (fun k => (val k).enc)).flatten) := by
  induction ks generalizing acc with
  | nil => simp [assembleMGet]
  | cons k ks ih =>
    have hk : k ∈ m0.keys := hks k (by simp)
    have hgrp_mem : k ∈ grpOf slotFn m0.keys (slotFn k) := by
      unfold grpOf; exact List.mem_filter.mpr ⟨hk, by simp⟩
    have hgrp_ne : grpOf slotFn m0.keys (slotFn k) ≠ [] := List.ne_nil_of_mem hgrp_mem
    have hmemg : (slotFn k, grpOf slotFn m0.keys (slotFn k)) ∈ groupBySlot slotFn m0.keys :=
      (group_mem slotFn m0.keys (slotFn k) _).mpr ⟨rfl, hgrp_ne⟩
    have hlook : Commands.lookup (slotFn k) (mid T slotFn val m0 qs).groups = some (grpOf slotFn m0.keys (slotFn k)) := by
      show Commands.lookup (slotFn k) m0.groups = _
      rw [hi.groups]
      exact lookup_of_mem _ (group_nodup slotFn m0.keys) _ _ hmemg
    obtain ⟨i, hidx, hget⟩ := indexOfKey_mem k _ hgrp_mem
    -- the fragment of that slot exists and carries the node's elements
    have hslot_mem : slotFn k ∈ m0.frags.map (·.slot) :=
      (hi.slots (slotFn k)).mp ⟨_, by rw [hi.groups]; exact hmemg⟩
    obtain ⟨fr0, hfr0, hslot⟩ := List.mem_map.mp hslot_mem
    have hg0 : ∃ fr, getFrag m0 (slotFn k) = some fr ∧ fr.slot = slotFn k := by
      unfold getFrag
      cases hf : m0.frags.find? (fun x => decide (x.slot = slotFn k)) with
      | none =>
        have := List.find?_eq_none.mp hf fr0 hfr0
        simp [hslot] at this
      | some fr =>
        have := List.find?_some hf
        exact ⟨fr, rfl, by simpa using this⟩
    obtain ⟨fr, hg, hfs⟩ := hg0
    have hq : fr.slot ∈ qs := by rw [hfs]; exact hall _ hslot_mem
    have hgm : getFrag (mid T slotFn val m0 qs) (slotFn k)
        = some { fr with rsp := rspOf slotFn val m0.keys fr.slot, done := true, rtype := T.rMultibulk } := by
      rw [getFrag_mid, hg]; simp [upd, hq]
    have hrsp : (rspOf slotFn val m0.keys fr.slot)[i]? = some ((val k).enc) := by
      rw [hfs]; unfold rspOf
      rw [List.getElem?_map, hget]; rfl
    simp only [assembleMGet, hlook, hidx, hgm, hrsp, List.map_cons, List.flatten_cons]
    rw [ih (fun x hx => hks x (by simp [hx]))]
    simp

/-- the last outstanding fragment is answered: the request is completed with one element per
    requested key, in request order -/
theorem mget_step_last (m0 : MMsg) (hi : Init T slotFn m0) (hv : ∀ k, (val k).WF)
    (hsm : Small m0.keys.length) (ps : List Nat) (s : Nat) (hs : s ∉ ps) (hmem : s ∈ m0.frags.map (·.slot))
    (hall : ∀ x ∈ m0.frags.map (·.slot), x ∈ ps ++ [s]) (hlast : ps.length + 1 = m0.frags.length)
    (hfin : (finalOf val m0.keys).length ≤ limit) :
    mergeMGet K slotFn limit (bump (mid T slotFn val m0 ps)) s T.rMultibulk (bodyOf slotFn val m0.keys s)
      = ({ mid T slotFn val m0 (ps ++ [s]) with done := true, rspBody := finalOf val m0.keys }, .ready) := by
  unfold mergeMGet
  simp only [parse_body slotFn val m0.keys s hv hsm, Option.getD_some, set_step T slotFn val m0 ps s hs]
  have h1 : ¬ (rspOf slotFn val m0.keys s).length < 1 := by
    have := grp_nonempty T slotFn val m0 hi s hmem; omega
  have h2 : ¬ (mid T slotFn val m0 (ps ++ [s])).fragDone < (mid T slotFn val m0 (ps ++ [s])).frags.length := by
    simp [mid]; omega
  simp only [h1, ↓reduceIte, h2]
  have hk : (mid T slotFn val m0 (ps ++ [s])).keys = m0.keys := rfl
  rw [hk, assemble_all T slotFn val m0 hi (ps ++ [s]) hall m0.keys (fun _ h => h)]
  simp only
  rw [← finalOf_eq]
  have : ¬ (finalOf val m0.keys).length > limit := by omega
  simp only [this, ↓reduceIte]

/-- `conn.sread` reduces to the MGET merge for a fresh fragment and an array reply within the limit -/
theorem onReply_mget (hT : TypesOK T) (m0 : MMsg) (hi : Init T slotFn m0) (ps : List Nat) (s : Nat) (hs : s ∉ ps)
    (hmem : s ∈ m0.frags.map (·.slot)) (hsz : (bodyOf slotFn val m0.keys s).length ≤ limit) :
    onReply T K slotFn limit (mid T slotFn val m0 ps) s T.rMultibulk (bodyOf slotFn val m0.keys s)
      = mergeMGet K slotFn limit (bump (mid T slotFn val m0 ps)) s T.rMultibulk (bodyOf slotFn val m0.keys s) := by
  obtain ⟨fr0, hfr0, hslot⟩ := List.mem_map.mp hmem
  have hg0 : ∃ fr, getFrag m0 s = some fr ∧ fr.slot = s := by
    unfold getFrag
    cases hf : m0.frags.find? (fun x => decide (x.slot = s)) with
    | none =>
      have := List.find?_eq_none.mp hf fr0 hfr0
      simp [hslot] at this
    | some fr =>
      have := List.find?_some hf
      exact ⟨fr, rfl, by simpa using this⟩
  obtain ⟨fr, hg, hfs⟩ := hg0
  have hfresh := hi.fresh fr (List.mem_of_find?_eq_some hg)
  have hupd : upd T slotFn val m0.keys ps fr = fr := by
    unfold upd; rw [hfs]; simp [hs]
  have hgm : getFrag (mid T slotFn val m0 ps) s = some fr := by
    rw [getFrag_mid, hg]; simp [hupd]
  unfold onReply
  simp only [hgm, hfresh.1, Bool.false_eq_true, ↓reduceIte, hT.m1, hT.m2, or_self]
  have h1 : ¬ (bodyOf slotFn val m0.keys s).length > limit := by omega
  simp only [h1, ↓reduceIte, hfresh.2, hT.m3, false_and, and_false, ne_eq, not_true_eq_false]
  have hty : (mid T slotFn val m0 ps).type = T.cMget := hi.type
  simp only [hty, ↓reduceIte]

/-- feed the fragments' replies in the given order -/
def feedOrder (m : MMsg) (order : List Nat) (keys : List Bytes) : MMsg × List Signal :=
  order.foldl (fun (acc : MMsg × List Signal) s =>
    let r := onReply T K slotFn limit acc.1 s T.rMultibulk (bodyOf slotFn val keys s)
    (r.1, acc.2 ++ [r.2])) (m, [])

theorem feed_from (hT : TypesOK T) (m0 : MMsg) (hi : Init T slotFn m0) (hv : ∀ k, (val k).WF)
    (hsm : Small m0.keys.length) (hnd : (m0.frags.map (·.slot)).Nodup)
    (hsz : ∀ s, (bodyOf slotFn val m0.keys s).length ≤ limit) (hfin : (finalOf val m0.keys).length ≤ limit) :
    ∀ (rest ps : List Nat) (sigs : List Signal), rest ≠ [] → (ps ++ rest).Perm (m0.frags.map (·.slot)) →
      rest.foldl (fun (acc : MMsg × List Signal) s =>
          let r := onReply T K slotFn limit acc.1 s T.rMultibulk (bodyOf slotFn val m0.keys s)
          (r.1, acc.2 ++ [r.2])) (mid T slotFn val m0 ps, sigs)
        = ({ mid T slotFn val m0 (ps ++ rest) with done := true, rspBody := finalOf val m0.keys },
           sigs ++ List.replicate (rest.length - 1) Signal.waiting ++ [Signal.ready]) := by
  intro rest
  induction rest with
  | nil => intro _ _ h; exact absurd rfl h
  | cons s rest ih =>
    intro ps sigs _ hperm
    have hnd' : (ps ++ s :: rest).Nodup := hperm.nodup_iff.mpr hnd
    have hs : s ∉ ps := by
      intro hin
      have := List.nodup_append.mp hnd'
      exact this.2.2 s hin s (by simp) rfl
    have hmem : s ∈ m0.frags.map (·.slot) := hperm.mem_iff.mp (by simp)
    have hlen : (ps ++ s :: rest).length = m0.frags.length := by
      rw [hperm.length_eq]; simp
    simp only [List.foldl_cons]
    rw [onReply_mget T K slotFn limit val hT m0 hi ps s hs hmem (hsz s)]
    cases rest with
    | nil =>
      have hall : ∀ x ∈ m0.frags.map (·.slot), x ∈ ps ++ [s] := fun x hx => hperm.mem_iff.mpr hx
      rw [mget_step_last T K slotFn limit val m0 hi hv hsm ps s hs hmem hall (by simp at hlen; omega) hfin]
      simp
    | cons s2 rest2 =>
      rw [mget_step_mid T K slotFn limit val m0 hi hv hsm ps s hs hmem (by simp at hlen; omega)]
      have := ih (ps ++ [s]) (sigs ++ [Signal.waiting]) (by simp) (by simpa using hperm)
      simp only at this ⊢
      rw [this]
      simp [List.replicate_succ]

theorem mid_nil (m0 : MMsg) (h : m0.fragDone = 0) : mid T slotFn val m0 [] = m0 := by
  unfold mid
  have : m0.frags.map (upd T slotFn val m0.keys []) = m0.frags := by
    rw [List.map_congr_left (g := id)]
    · simp
    · intro fr _; simp [upd]
  rw [this]
  cases m0; simp_all

/-- **C07 (MGET)**: whatever order the nodes answer in, the request is completed exactly when the
    last fragment is answered, with one element per requested key in request order -/
theorem mget_any_order (hT : TypesOK T) (m0 : MMsg) (hi : Init T slotFn m0) (hv : ∀ k, (val k).WF)
    (hsm : Small m0.keys.length) (hnd : (m0.frags.map (·.slot)).Nodup) (hne : m0.frags ≠ [])
    (hsz : ∀ s, (bodyOf slotFn val m0.keys s).length ≤ limit) (hfin : (finalOf val m0.keys).length ≤ limit)
    (order : List Nat) (hperm : order.Perm (m0.frags.map (·.slot))) :
    feedOrder T K slotFn limit val m0 order m0.keys
      = ({ mid T slotFn val m0 order with done := true, rspBody := finalOf val m0.keys },
         List.replicate (order.length - 1) Signal.waiting ++ [Signal.ready]) := by
  have horder_ne : order ≠ [] := by
    intro e; subst e
    have := hperm.length_eq
    simp at this
    exact hne (List.length_eq_zero_iff.mp (by simpa using this.symm))
  have key := feed_from T K slotFn limit val hT m0 hi hv hsm hnd hsz hfin order [] [] horder_ne (by simpa using hperm)
  rw [mid_nil T slotFn val m0 hi.fragDone] at key
  simpa [feedOrder] using key

end mget
end RcVerif.Lemmas.MergeMGet
