import RcVerif.Model.Sim
/-
  The client-side invariant of the event-loop machine and its preservation by every event
  (`good_step`, `good_run`): per client, the delivered replies are request numbers 0,1,2,.. in order,
  the queue holds the next consecutive numbers, every queued request belongs to that client, the
  bytes written are exactly the delivered replies, and the head of an open client's queue is never
  a completed request.
-/
open RcVerif RcVerif.Sim RcVerif.Merge

namespace RcVerif.Lemmas.SimInv

theorem setAt_length {α} (l : List α) (i : Nat) (f : α → α) : (setAt l i f).length = l.length := by
  simp [setAt]

theorem getElem?_setAt {α} (l : List α) (i j : Nat) (f : α → α) :
    (setAt l i f)[j]? = if j = i then (l[j]?).map f else l[j]? := by
  unfold setAt
  rw [List.getElem?_mapIdx]
  cases h : l[j]? with
  | none => simp
  | some x => by_cases hj : j = i <;> simp [hj]

def numOf (msgs : List Req) (i : Nat) : Nat := ((msgs[i]?).map (·.num)).getD 0

def headNotDone (msgs : List Req) : List Nat → Prop
  | [] => True
  | i :: _ => ∀ r, msgs[i]? = some r → r.m.done = false

structure ClientOK (msgs : List Req) (c : Nat) (cl : Client) (needHead : Bool) : Prop where
  own : ∀ i ∈ cl.queue, ∃ r, msgs[i]? = some r ∧ r.owner = c
  nums : ∃ k, cl.log.map (·.1) = List.range k ∧ cl.queue.map (numOf msgs) = List.range' k cl.queue.length ∧
           k + cl.queue.length ≤ cl.decoded ∧ (cl.opened = true → k + cl.queue.length = cl.decoded)
  out : cl.out = (cl.log.map (·.2)).flatten
  head : needHead = true → cl.opened = true → headNotDone msgs cl.queue

/-- the client-side invariant; `except` names a client whose head-of-queue condition is temporarily waived -/
def CInvX (s : State) (except : Option Nat) : Prop :=
  ∀ c cl, s.clients[c]? = some cl → ClientOK s.msgs c cl (decide (some c ≠ except))

abbrev CInv (s : State) : Prop := CInvX s none

theorem cinvx_weaken (s : State) (o : Option Nat) (h : CInvX s none) : CInvX s o := by
  intro c cl hc
  have := h c cl hc
  exact ⟨this.own, this.nums, this.out, fun _ ho => this.head (by simp) ho⟩

theorem cinvx_congr (s s' : State) (o : Option Nat) (hc : s'.clients = s.clients) (hm : s'.msgs = s.msgs)
    (h : CInvX s o) : CInvX s' o := by
  intro c cl hcl
  rw [hc] at hcl
  rw [hm]
  exact h c cl hcl


theorem numOf_setAt (msgs : List Req) (mi : Nat) (f : Req → Req) (hf : ∀ r, msgs[mi]? = some r → (f r).num = r.num) (i : Nat) :
    numOf (setAt msgs mi f) i = numOf msgs i := by
  unfold numOf
  rw [getElem?_setAt]
  by_cases h : i = mi
  · subst h
    cases hr : msgs[i]? with
    | none => simp
    | some r => simp [hf r hr]
  · simp [h]

theorem cinvx_updReq (s : State) (mi : Nat) (f : Req → Req) (o : Option Nat) (h : CInvX s o)
    (hf : ∀ r, s.msgs[mi]? = some r → (f r).owner = r.owner ∧ (f r).num = r.num)
    (ho : ∀ r, s.msgs[mi]? = some r → o = some r.owner ∨ ((f r).m.done = true → r.m.done = true)) :
    CInvX (s.updReq mi f) o := by
  intro c cl hc
  have hok := h c cl hc
  refine ⟨?_, ?_, hok.out, ?_⟩
  · intro i hi
    obtain ⟨r, hr, hro⟩ := hok.own i hi
    show ∃ r, (setAt s.msgs mi f)[i]? = some r ∧ r.owner = c
    rw [getElem?_setAt]
    by_cases him : i = mi
    · subst him
      exact ⟨f r, by simp [hr], by rw [(hf r hr).1]; exact hro⟩
    · exact ⟨r, by simp [him, hr], hro⟩
  · obtain ⟨k, h1, h2, h3, h4⟩ := hok.nums
    refine ⟨k, h1, ?_, h3, h4⟩
    show cl.queue.map (numOf (setAt s.msgs mi f)) = _
    rw [← h2]
    apply List.map_congr_left
    intro i _
    exact numOf_setAt s.msgs mi f (fun r hr => (hf r hr).2) i
  · intro hn hop
    have hh := hok.head hn hop
    show headNotDone (setAt s.msgs mi f) cl.queue
    cases hq : cl.queue with
    | nil => trivial
    | cons i rest =>
      rw [hq] at hh
      intro r' hr'
      rw [getElem?_setAt] at hr'
      by_cases him : i = mi
      · subst him
        obtain ⟨r, hr, hro⟩ := hok.own i (by rw [hq]; simp)
        simp only [↓reduceIte, hr, Option.map_some, Option.some.injEq] at hr'
        subst hr'
        rcases ho r hr with ho1 | ho1
        · -- the owner is the exempted client: but then the head condition was not required
          exfalso
          subst ho1
          rw [hro] at hn
          simp at hn
        · have hd := hh r hr
          cases hfd : (f r).m.done with
          | false => rfl
          | true => rw [ho1 hfd] at hd; exact absurd hd (by simp)
      · simp only [him, ↓reduceIte] at hr'
        exact hh r' hr'

/-- client fields that the invariant does not look at -/
theorem cinvx_updClient_benign (s : State) (c : Nat) (f : Client → Client) (o : Option Nat) (h : CInvX s o)
    (hf : ∀ cl, (f cl).queue = cl.queue ∧ (f cl).log = cl.log ∧ (f cl).out = cl.out ∧ (f cl).decoded = cl.decoded ∧
                (f cl).opened = cl.opened) :
    CInvX (s.updClient c f) o := by
  intro c' cl' hc'
  have hc'' : (setAt s.clients c f)[c']? = some cl' := hc'
  rw [getElem?_setAt] at hc''
  by_cases hcc : c' = c
  · subst hcc
    simp only [↓reduceIte] at hc''
    cases hcl : s.clients[c']? with
    | none => rw [hcl] at hc''; simp at hc''
    | some cl =>
      rw [hcl] at hc''
      simp only [Option.map_some, Option.some.injEq] at hc''
      subst hc''
      have hok := h c' cl hcl
      obtain ⟨e1, e2, e3, e4, e5⟩ := hf cl
      exact ⟨by rw [e1]; exact hok.own, by rw [e1, e2, e4, e5]; exact hok.nums, by rw [e2, e3]; exact hok.out,
        by rw [e1, e5]; exact hok.head⟩
  · simp only [hcc, ↓reduceIte] at hc''
    exact h c' cl' hc''


theorem client_updClient_same (s : State) (c : Nat) (f : Client → Client) (cl : Client) (h : s.clients[c]? = some cl) :
    (s.updClient c f).clients[c]? = some (f cl) := by
  show (setAt s.clients c f)[c]? = _
  rw [getElem?_setAt]; simp [h]

theorem client_updClient_other (s : State) (c c' : Nat) (f : Client → Client) (hne : c' ≠ c) :
    (s.updClient c f).clients[c']? = s.clients[c']? := by
  show (setAt s.clients c f)[c']? = _
  rw [getElem?_setAt]; simp [hne]

/-- replace one client by a client that satisfies the invariant on its own -/
theorem cinvx_updClient_replace (s : State) (c : Nat) (f : Client → Client) (o o' : Option Nat) (h : CInvX s o)
    (hnew : ∀ cl, s.clients[c]? = some cl → ClientOK s.msgs c (f cl) (decide (some c ≠ o')))
    (hoth : ∀ c', c' ≠ c → (decide (some c' ≠ o') = true → decide (some c' ≠ o) = true)) :
    CInvX (s.updClient c f) o' := by
  intro c' cl' hc'
  by_cases hcc : c' = c
  · subst hcc
    cases hcl : s.clients[c']? with
    | none =>
      have : (s.updClient c' f).clients[c']? = none := by
        show (setAt s.clients c' f)[c']? = _
        rw [getElem?_setAt]; simp [hcl]
      rw [this] at hc'; simp at hc'
    | some cl =>
      rw [client_updClient_same s c' f cl hcl] at hc'
      injection hc' with hc'; subst hc'
      exact hnew cl hcl
  · rw [client_updClient_other s c c' f hcc] at hc'
    have hok := h c' cl' hc'
    exact ⟨hok.own, hok.nums, hok.out, fun hn ho => hok.head (hoth c' hcc hn) ho⟩

theorem cinvx_closeClient (s : State) (c : Nat) (o : Option Nat) (h : CInvX s o) (ho : o = none ∨ o = some c) :
    CInvX (closeClient s c) none := by
  unfold closeClient
  apply cinvx_updClient_replace s c _ o none h
  · intro cl hcl
    have hok := h c cl hcl
    obtain ⟨k, h1, h2, h3, h4⟩ := hok.nums
    refine ⟨by simp, ⟨k, h1, by simp, by simp; omega, by simp⟩, hok.out, by simp⟩
  · intro c' hne _
    rcases ho with ho | ho
    · subst ho; simp
    · subst ho; simp; exact hne

/-- `donePrefix` is a prefix of the queue made of completed requests; what follows does not start with one -/
theorem donePrefix_spec (msgs : List Req) (q : List Nat) :
    ∃ rest, q = donePrefix msgs q ++ rest ∧
      (∀ i ∈ donePrefix msgs q, ∃ r, msgs[i]? = some r ∧ r.m.done = true) ∧
      (∀ i rest', rest = i :: rest' → ∀ r, msgs[i]? = some r → r.m.done = false) := by
  induction q with
  | nil => exact ⟨[], by simp [donePrefix], by simp [donePrefix], by simp⟩
  | cons i q ih =>
    obtain ⟨rest, h1, h2, h3⟩ := ih
    unfold donePrefix
    cases hr : msgs[i]? with
    | none =>
      refine ⟨i :: q, by simp, by simp, ?_⟩
      intro j rest' hj r hr'
      injection hj with hj _; subst hj; rw [hr] at hr'; simp at hr'
    | some r =>
      simp only
      by_cases hd : r.m.done = true
      · simp only [hd, ↓reduceIte]
        refine ⟨rest, by simp; exact h1, ?_, h3⟩
        intro j hj
        rcases List.mem_cons.mp hj with hj | hj
        · subst hj; exact ⟨r, hr, hd⟩
        · exact h2 j hj
      · simp only [hd, Bool.false_eq_true, ↓reduceIte]
        refine ⟨i :: q, by simp, by simp, ?_⟩
        intro j rest' hj r' hr'
        injection hj with hj _; subst hj
        rw [hr] at hr'; injection hr' with hr'; subst hr'
        simpa using hd


theorem replies_fst (msgs : List Req) (ds : List Nat) (h : ∀ i ∈ ds, ∃ r, msgs[i]? = some r) :
    (ds.filterMap (fun i => (msgs[i]?).map (fun r => (r.num, r.m.rspBody)))).map (·.1) = ds.map (numOf msgs) := by
  induction ds with
  | nil => rfl
  | cons i ds ih =>
    obtain ⟨r, hr⟩ := h i (by simp)
    have := ih (fun j hj => h j (by simp [hj]))
    simp [List.filterMap_cons, hr, numOf, this]

theorem cinvx_flushClient (s : State) (c : Nat) (o : Option Nat) (h : CInvX s o) (ho : o = none ∨ o = some c) :
    CInvX (flushClient s c) none := by
  -- every client other than c already satisfies the full invariant
  have hother : ∀ c', c' ≠ c → (decide (some c' ≠ (none : Option Nat)) = true → decide (some c' ≠ o) = true) := by
    intro c' hne _
    rcases ho with ho | ho
    · subst ho; simp
    · subst ho; simp; exact hne
  have hfull_of_c : (∀ cl, s.clients[c]? = some cl → ClientOK s.msgs c cl true) → CInvX s none := by
    intro hc c' cl' hcl'
    by_cases hcc : c' = c
    · subst hcc; simpa using hc cl' hcl'
    · have hok := h c' cl' hcl'
      exact ⟨hok.own, hok.nums, hok.out, fun hn hop => hok.head (hother c' hcc hn) hop⟩
  unfold flushClient State.client
  cases hcl : s.clients[c]? with
  | none => simp only; exact hfull_of_c (fun cl hc => by rw [hcl] at hc; simp at hc)
  | some cl =>
    simp only
    have hok := h c cl hcl
    by_cases hop : cl.opened = true
    · simp only [hop, Bool.not_true, Bool.false_eq_true, ↓reduceIte]
      obtain ⟨rest, hq, hdone, hrest⟩ := donePrefix_spec s.msgs cl.queue
      have hhead_rest : headNotDone s.msgs rest := by
        cases hr : rest with
        | nil => trivial
        | cons i rest' => exact fun r hr' => hrest i rest' hr r hr'
      by_cases hds : (donePrefix s.msgs cl.queue).isEmpty = true
      · -- nothing to deliver: the head (if any) is not done
        simp only [hds, ↓reduceIte]
        apply hfull_of_c
        intro cl2 hcl2
        rw [hcl] at hcl2; injection hcl2 with hcl2; subst hcl2
        refine ⟨hok.own, hok.nums, hok.out, fun _ _ => ?_⟩
        have : donePrefix s.msgs cl.queue = [] := by simpa using hds
        rw [this] at hq
        simp at hq
        rw [hq]; exact hhead_rest
      · simp only [hds, Bool.false_eq_true, ↓reduceIte]
        -- the updated client
        let ds := donePrefix s.msgs cl.queue
        let replies := ds.filterMap (fun i => (s.msgs[i]?).map (fun r => (r.num, r.m.rspBody)))
        let f : Client → Client := fun cl => { cl with out := cl.out ++ (replies.map (·.2)).flatten,
                                                         queue := cl.queue.drop ds.length, log := cl.log ++ replies }
        have hdrop : cl.queue.drop ds.length = rest := by
          conv => lhs; rw [hq]
          exact List.drop_left' rfl
        have hnewok : ClientOK s.msgs c (f cl) true := by
          obtain ⟨k, h1, h2, h3, h4⟩ := hok.nums
          have hlenq : cl.queue.length = ds.length + rest.length := by
            have := congrArg List.length hq; simpa using this
          have hsplit : ds.map (numOf s.msgs) = List.range' k ds.length ∧
              rest.map (numOf s.msgs) = List.range' (k + ds.length) rest.length := by
            have h2' : (ds ++ rest).map (numOf s.msgs) = List.range' k (ds.length + rest.length) := by
              rw [← hq, h2, hlenq]
            rw [List.map_append, ← List.range'_append_1] at h2'
            have hl : (ds.map (numOf s.msgs)).length = (List.range' k ds.length).length := by simp
            exact List.append_inj h2' hl
          refine ⟨?_, ?_, ?_, ?_⟩
          · intro i hi
            apply hok.own i
            have : i ∈ rest := by simpa [f, hdrop] using hi
            rw [hq]; exact List.mem_append_right _ this
          · refine ⟨k + ds.length, ?_, ?_, ?_, ?_⟩
            · show (cl.log ++ replies).map (·.1) = _
              rw [List.map_append, h1, replies_fst s.msgs ds (fun i hi => by obtain ⟨r, hr, _⟩ := hdone i hi; exact ⟨r, hr⟩),
                hsplit.1, List.range_eq_range', List.range_eq_range']
              have := List.range'_append_1 (s := 0) (m := k) (n := ds.length)
              simpa using this
            · show (cl.queue.drop ds.length).map (numOf s.msgs) = List.range' (k + ds.length) (cl.queue.drop ds.length).length
              rw [hdrop]; exact hsplit.2
            · show k + ds.length + (cl.queue.drop ds.length).length ≤ cl.decoded
              rw [hdrop]; omega
            · intro hop'
              show k + ds.length + (cl.queue.drop ds.length).length = cl.decoded
              rw [hdrop]; have := h4 hop; omega
          · show cl.out ++ (replies.map (·.2)).flatten = ((cl.log ++ replies).map (·.2)).flatten
            rw [List.map_append, List.flatten_append, hok.out]
          · intro _ _
            show headNotDone s.msgs (cl.queue.drop ds.length)
            rw [hdrop]; exact hhead_rest
        have hs1 : CInvX (s.updClient c f) none :=
          cinvx_updClient_replace s c f o none h (fun cl2 hcl2 => by
            rw [hcl] at hcl2; injection hcl2 with hcl2; subst hcl2; simpa using hnewok) hother
        have hc1 : (s.updClient c f).clients[c]? = some (f cl) := client_updClient_same s c f cl hcl
        show CInvX (match (s.updClient c f).clients[c]? with
          | some cl1 => if cl1.closing = true ∧ cl1.queue.isEmpty = true then closeClient (s.updClient c f) c else s.updClient c f
          | none => s.updClient c f) none
        rw [hc1]
        simp only
        split
        · exact cinvx_closeClient _ c none hs1 (Or.inl rfl)
        · exact hs1
    · -- the client is not open: nothing happens and its head condition is vacuous
      have hop' : cl.opened = false := by simpa using hop
      simp only [hop', Bool.not_false, ↓reduceIte]
      apply hfull_of_c
      intro cl2 hcl2
      rw [hcl] at hcl2; injection hcl2 with hcl2; subst hcl2
      exact ⟨hok.own, hok.nums, hok.out, fun _ h' => by rw [hop'] at h'; exact absurd h' (by simp)⟩


theorem cinvx_deliver (s : State) (c : Nat) (o : Option Nat) (h : CInvX s o) (ho : o = none ∨ o = some c) :
    CInvX (deliver s c) none := by
  unfold deliver State.client
  cases hcl : s.clients[c]? with
  | none =>
    simp only
    have := cinvx_flushClient s c o h ho
    unfold flushClient State.client at this
    rw [hcl] at this; exact this
  | some cl =>
    simp only
    split
    · -- not opened: same as flush on a closed client
      rename_i hno
      have := cinvx_flushClient s c o h ho
      unfold flushClient State.client at this
      rw [hcl] at this
      simp only [hno, ↓reduceIte] at this
      exact this
    · split
      · exact cinvx_closeClient s c o h ho
      · exact cinvx_flushClient s c o h ho

theorem getElem?_append_new {α} (l : List α) (x : α) (i : Nat) :
    (l ++ [x])[i]? = if i < l.length then l[i]? else if i = l.length then some x else none := by
  by_cases h : i < l.length
  · simp [h, List.getElem?_append_left h]
  · by_cases h2 : i = l.length
    · subst h2; simp
    · have : l.length + 1 ≤ i := by omega
      simp [h, h2, List.getElem?_eq_none (by simp; omega : (l ++ [x]).length ≤ i)]

/-- appending a request does not disturb what the existing clients see -/
theorem clientOK_append (msgs : List Req) (r : Req) (c : Nat) (cl : Client) (b : Bool) (h : ClientOK msgs c cl b) :
    ClientOK (msgs ++ [r]) c cl b := by
  have hlt : ∀ i ∈ cl.queue, i < msgs.length := by
    intro i hi
    obtain ⟨r', hr', _⟩ := h.own i hi
    exact (List.getElem?_eq_some_iff.mp hr').1
  have hsame : ∀ i ∈ cl.queue, (msgs ++ [r])[i]? = msgs[i]? := fun i hi => List.getElem?_append_left (hlt i hi)
  refine ⟨?_, ?_, h.out, ?_⟩
  · intro i hi
    rw [hsame i hi]; exact h.own i hi
  · obtain ⟨k, h1, h2, h3, h4⟩ := h.nums
    refine ⟨k, h1, ?_, h3, h4⟩
    rw [← h2]
    apply List.map_congr_left
    intro i hi
    unfold numOf; rw [hsame i hi]
  · intro hb hop
    have hh := h.head hb hop
    cases hq : cl.queue with
    | nil => trivial
    | cons i rest =>
      rw [hq] at hh
      intro r' hr'
      rw [hsame i (by rw [hq]; simp)] at hr'
      exact hh r' hr'

theorem cinvx_answerLocal (s : State) (c : Nat) (m : MMsg) (out : Bytes) (h : CInvX s none)
    (hopen : ∀ cl, s.clients[c]? = some cl → cl.opened = true) :
    CInvX (answerLocal s c m out) none := by
  unfold answerLocal State.client
  cases hcl : s.clients[c]? with
  | none => exact h
  | some cl =>
    simp only
    have hok := h c cl hcl
    have hop := hopen cl hcl
    obtain ⟨k, h1, h2, h3, h4⟩ := hok.nums
    have hdec := h4 hop
    by_cases hq : cl.queue.isEmpty = true
    · simp only [hq, ↓reduceIte]
      have hqe : cl.queue = [] := by simpa using hq
      rw [hqe] at hdec; simp at hdec
      apply cinvx_updClient_replace s c _ none none h
      · intro cl2 hcl2
        rw [hcl] at hcl2; injection hcl2 with hcl2; subst hcl2
        refine ⟨by simp [hqe], ?_, ?_, by simp [hqe, headNotDone]⟩
        · refine ⟨k + 1, ?_, by simp [hqe], by simp [hqe]; omega, by intro _; simp [hqe]; omega⟩
          show (cl.log ++ [(cl.decoded, out)]).map (·.1) = List.range (k + 1)
          rw [List.map_append, h1, List.range_succ, ← hdec]; rfl
        · show cl.out ++ out = ((cl.log ++ [(cl.decoded, out)]).map (·.2)).flatten
          rw [List.map_append, List.flatten_append, hok.out]; simp
      · intro c' _ hh; exact hh
    · simp only [hq, Bool.false_eq_true, ↓reduceIte]
      have hqne : cl.queue ≠ [] := by simpa using hq
      -- first append the completed request, then push it on the queue
      let r : Req := { owner := c, num := cl.decoded, m := { m with rspBody := out, done := true } }
      have happ : CInvX { s with msgs := s.msgs ++ [r] } none := by
        intro c' cl' hc'
        exact clientOK_append s.msgs r c' cl' _ (h c' cl' hc')
      apply cinvx_updClient_replace { s with msgs := s.msgs ++ [r] } c _ none none happ
      · intro cl2 hcl2
        have hcl2' : s.clients[c]? = some cl2 := hcl2
        rw [hcl] at hcl2'; injection hcl2' with hcl2'; subst hcl2'
        have hok' := clientOK_append s.msgs r c cl true (by simpa using hok)
        have hnew : (s.msgs ++ [r])[s.msgs.length]? = some r := by simp
        refine ⟨?_, ?_, hok'.out, ?_⟩
        · intro i hi
          simp only [List.mem_append, List.mem_singleton] at hi
          rcases hi with hi | hi
          · exact hok'.own i hi
          · subst hi; exact ⟨r, hnew, rfl⟩
        · obtain ⟨k', g1, g2, g3, g4⟩ := hok'.nums
          have hk : k' = k := by
            have := congrArg List.length g1; rw [h1] at this; simpa using this.symm
          subst hk
          refine ⟨k', g1, ?_, by simp; omega, by intro _; simp; omega⟩
          show (cl.queue ++ [s.msgs.length]).map (numOf (s.msgs ++ [r])) = List.range' k' (cl.queue ++ [s.msgs.length]).length
          rw [List.map_append, g2, List.length_append, ← List.range'_append_1]
          congr 1
          simp only [List.map_cons, List.map_nil, List.length_cons, List.length_nil, List.range'_one, numOf, hnew,
            Option.map_some, Option.getD_some]
          show [cl.decoded] = [k' + cl.queue.length]
          rw [hdec]
        · intro _ hop'
          show headNotDone (s.msgs ++ [r]) (cl.queue ++ [s.msgs.length])
          have hh := hok'.head rfl hop
          cases hqq : cl.queue with
          | nil => exact absurd hqq hqne
          | cons i rest => rw [hqq] at hh; exact hh
      · intro c' _ hh; exact hh

theorem cinvx_acceptReq (s : State) (c : Nat) (m : MMsg) (h : CInvX s none)
    (hopen : ∀ cl, s.clients[c]? = some cl → cl.opened = true) :
    CInvX (acceptReq s c m).1 none := by
  unfold acceptReq State.client
  cases hcl : s.clients[c]? with
  | none => exact h
  | some cl =>
    simp only
    have hok := h c cl hcl
    have hop := hopen cl hcl
    obtain ⟨k, h1, h2, h3, h4⟩ := hok.nums
    have hdec := h4 hop
    let r : Req := { owner := c, num := cl.decoded, m := { m with done := false } }
    have happ : CInvX { s with msgs := s.msgs ++ [r] } none := by
      intro c' cl' hc'
      exact clientOK_append s.msgs r c' cl' _ (h c' cl' hc')
    apply cinvx_updClient_replace { s with msgs := s.msgs ++ [r] } c _ none none happ
    · intro cl2 hcl2
      have hcl2' : s.clients[c]? = some cl2 := hcl2
      rw [hcl] at hcl2'; injection hcl2' with hcl2'; subst hcl2'
      have hok' := clientOK_append s.msgs r c cl true (by simpa using hok)
      have hnew : (s.msgs ++ [r])[s.msgs.length]? = some r := by simp
      refine ⟨?_, ?_, hok'.out, ?_⟩
      · intro i hi
        simp only [List.mem_append, List.mem_singleton] at hi
        rcases hi with hi | hi
        · exact hok'.own i hi
        · subst hi; exact ⟨r, hnew, rfl⟩
      · obtain ⟨k', g1, g2, g3, g4⟩ := hok'.nums
        have hk : k' = k := by
          have := congrArg List.length g1; rw [h1] at this; simpa using this.symm
        subst hk
        refine ⟨k', g1, ?_, by simp; omega, by intro _; simp; omega⟩
        show (cl.queue ++ [s.msgs.length]).map (numOf (s.msgs ++ [r])) = List.range' k' (cl.queue ++ [s.msgs.length]).length
        rw [List.map_append, g2, List.length_append, ← List.range'_append_1]
        congr 1
        simp only [List.map_cons, List.map_nil, List.length_cons, List.length_nil, List.range'_one, numOf, hnew,
          Option.map_some, Option.getD_some]
        show [cl.decoded] = [k' + cl.queue.length]
        rw [hdec]
      · intro _ hop'
        show headNotDone (s.msgs ++ [r]) (cl.queue ++ [s.msgs.length])
        have hh := hok'.head rfl hop
        cases hqq : cl.queue with
        | nil =>
          intro r' hr'
          have hr'' : (s.msgs ++ [r])[s.msgs.length]? = some r' := hr'
          rw [hnew] at hr''; injection hr'' with hr''; subst hr''; rfl
        | cons i rest => rw [hqq] at hh; exact hh
    · intro c' _ hh; exact hh


/-- the step left clients and requests alone -/
def SameCM (s s' : State) : Prop := s'.clients = s.clients ∧ s'.msgs = s.msgs

theorem SameCM.refl (s : State) : SameCM s s := ⟨rfl, rfl⟩
theorem SameCM.trans {a b c : State} (h1 : SameCM a b) (h2 : SameCM b c) : SameCM a c :=
  ⟨h2.1.trans h1.1, h2.2.trans h1.2⟩

theorem same_updBackend (s : State) (b : Nat) (f : Backend → Backend) : SameCM s (s.updBackend b f) := ⟨rfl, rfl⟩
theorem same_fail (s : State) (w : String) : SameCM s (s.fail w) := by
  unfold State.fail; split <;> exact ⟨rfl, rfl⟩
theorem fail_flag (s : State) (w : String) : (s.fail w).flag.isSome = true := by
  unfold State.fail; split
  · rename_i h; simp [h]
  · rfl
theorem same_enqueueOut (s : State) (b : Nat) (e : QEntry) : SameCM s (enqueueOut s b e) := ⟨rfl, rfl⟩
theorem same_dropTimeout (s : State) (f : FragRef) : SameCM s (dropTimeout s f) := ⟨rfl, rfl⟩

theorem same_dial (S : Strs) (cfg : Cfg) (s : State) (p : Nat) : SameCM s (dial S cfg s p).1 := by
  unfold dial
  split
  · exact same_fail s _
  · exact ⟨rfl, rfl⟩

theorem same_poolGet (S : Strs) (cfg : Cfg) (s : State) (p : Nat) : SameCM s (poolGet S cfg s p).1 := by
  unfold poolGet
  split
  · exact same_fail s _
  · split
    · exact same_dial S cfg s p
    · split
      · exact ⟨rfl, rfl⟩
      · exact SameCM.trans ⟨rfl, rfl⟩ (same_dial S cfg _ p)

theorem same_writeSignal (S : Strs) (cfg : Cfg) (s : State) (b : Nat) : SameCM s (writeSignal S cfg s b) := by
  unfold writeSignal
  split
  · exact SameCM.refl s
  · split
    · exact SameCM.refl s
    · exact ⟨rfl, rfl⟩

theorem same_resolve (T : Tables) (S : Strs) (cfg : Cfg) (ty : Nat) (s : State) (vs : List (Nat × Bytes)) (acc : List (Nat × Nat)) :
    SameCM s (resolve T S cfg ty s vs acc).1 := by
  induction vs generalizing s acc with
  | nil => exact SameCM.refl s
  | cons v vs ih =>
    obtain ⟨slot, addr⟩ := v
    unfold resolve
    split
    · exact SameCM.refl s
    · split
      · exact same_fail s _
      · split
        · exact SameCM.refl s
        · split
          · exact SameCM.refl s
          · exact SameCM.trans (same_poolGet S cfg s _) (ih _ _)

theorem cinvx_of_same (s s' : State) (o : Option Nat) (h : SameCM s s') (hi : CInvX s o) : CInvX s' o :=
  cinvx_congr s s' o h.1 h.2 hi

/-- the inductive invariant of the whole machine: a state outside the modelled domain (flagged), or the
    client-side invariant -/
def Good (s : State) : Prop := s.flag.isSome = true ∨ CInvX s none

theorem foldl_enqueue_same (targets : List (Nat × Nat)) (g : Nat × Nat → QEntry) (s : State) :
    SameCM s (targets.foldl (fun st t => enqueueOut st t.2 (g t)) s) := by
  induction targets generalizing s with
  | nil => exact SameCM.refl s
  | cons t ts ih => exact SameCM.trans (same_enqueueOut s _ _) (ih _)


def OpenIn (s : State) (c : Nat) : Prop := ∀ cl, s.clients[c]? = some cl → cl.opened = true

theorem openIn_same (s s' : State) (c : Nat) (h : SameCM s s') (ho : OpenIn s c) : OpenIn s' c := by
  intro cl hcl; rw [h.1] at hcl; exact ho cl hcl

theorem good_forward (T : Tables) (S : Strs) (cfg : Cfg) (s : State) (c : Nat) (cm : CDecode.CMsg) (ch : ReqChoice)
    (h : CInvX s none) (ho : OpenIn s c) : Good (forward T S cfg s c cm ch) := by
  unfold forward
  dsimp only
  split
  · exact Or.inl (fail_flag s _)
  · generalize hres : resolve T S cfg cm.type s ch.visit [] = res
    have hsame := same_resolve T S cfg cm.type s ch.visit []
    rw [hres] at hsame
    obtain ⟨s1, targets, rej⟩ := res
    have h1 : CInvX s1 none := cinvx_of_same s s1 none hsame h
    have ho1 : OpenIn s1 c := openIn_same s s1 c hsame ho
    cases rej with
    | some e => exact Or.inr (cinvx_answerLocal s1 c _ _ h1 ho1)
    | none =>
      simp only
      split
      · rename_i hf; exact Or.inl hf
      · split
        · exact Or.inl (fail_flag s1 _)
        · right
          apply cinvx_of_same _ _ none (foldl_enqueue_same _ _ _)
          exact cinvx_acceptReq s1 c _ h1 ho1

theorem good_onRequest (T : Tables) (S : Strs) (cfg : Cfg) (s : State) (c : Nat) (cm : CDecode.CMsg) (ch : ReqChoice)
    (h : CInvX s none) (ho : OpenIn s c) : Good (onRequest T S cfg s c cm ch).1 := by
  unfold onRequest
  split
  · exact Or.inr (cinvx_answerLocal s c _ _ h ho)
  · exact good_forward T S cfg s c cm ch h ho


theorem good_of_cinv {s : State} (h : CInvX s none) : Good s := Or.inr h

theorem good_creadLoop (T : Tables) (S : Strs) (cfg : Cfg) (slotFn : Bytes → Nat) (fuel : Nat) :
    ∀ (s : State) (c : Nat) (view : Bytes) (chs : List ReqChoice), CInvX s none → OpenIn s c →
      Good (creadLoop T S cfg slotFn fuel s c view chs) := by
  induction fuel with
  | zero => intro s c view chs h _; exact Or.inr h
  | succ fuel ih =>
    intro s c view chs h ho
    unfold creadLoop
    split
    · exact Or.inr (cinvx_closeClient s c none h (Or.inl rfl))
    · exact Or.inl (fail_flag s _)
    · exact Or.inr (cinvx_updClient_benign s c _ none h (fun cl => ⟨rfl, rfl, rfl, rfl, rfl⟩))
    · rename_i cm n _
      dsimp only
      generalize hreq : onRequest T S cfg s c cm
        (if (localAnswer T S cfg cm).isNone = true then (chs.head?.getD { visit := [] }, chs.tail) else ({ visit := [] }, chs)).1 = res
      have hg := good_onRequest T S cfg s c cm
        (if (localAnswer T S cfg cm).isNone = true then (chs.head?.getD { visit := [] }, chs.tail) else ({ visit := [] }, chs)).1 h ho
      rw [hreq] at hg
      obtain ⟨s1, quit⟩ := res
      simp only at hg ⊢
      split
      · rename_i hf; exact Or.inl hf
      · rcases hg with hg | hg
        · rename_i hf; exact absurd hg hf
        · split
          · -- QUIT
            split
            · split
              · exact Or.inr (cinvx_closeClient s1 c none hg (Or.inl rfl))
              · exact Or.inr (cinvx_updClient_benign s1 c _ none hg (fun cl => ⟨rfl, rfl, rfl, rfl, rfl⟩))
            · exact Or.inr hg
          · split
            · rename_i cl hcl
              split
              · exact Or.inr hg
              · rename_i hop
                apply ih s1 c _ _ hg
                intro cl' hcl'
                have : s1.client c = some cl' := hcl'
                rw [hcl] at this; injection this with this; subst this
                simpa using hop
            · exact Or.inr hg

theorem good_clientBytes (T : Tables) (S : Strs) (cfg : Cfg) (slotFn : Bytes → Nat) (s : State) (c : Nat)
    (chunk : Bytes) (chs : List ReqChoice) (h : CInvX s none) : Good (clientBytes T S cfg slotFn s c chunk chs) := by
  unfold clientBytes
  split
  · exact Or.inr h
  · rename_i cl hcl
    split
    · exact Or.inr h
    · rename_i hop
      simp only [not_or, Bool.not_eq_true', Bool.not_eq_eq_eq_not, Bool.not_false] at hop
      apply good_creadLoop
      · exact cinvx_updClient_benign s c _ none h (fun cl => ⟨rfl, rfl, rfl, rfl, rfl⟩)
      · intro cl' hcl'
        have hcl1 : s.clients[c]? = some cl := hcl
        rw [client_updClient_same s c _ cl hcl1] at hcl'
        injection hcl' with hcl'; subst hcl'
        simpa using hop.1


theorem setFrag_done (m : MMsg) (slot : Nat) (f : MFrag → MFrag) : (setFrag m slot f).done = m.done := rfl

/-- "unless it signals ready, the step leaves `done` as it was" -/
def KeepsDone (m : MMsg) (res : MMsg × Signal) : Prop := res.2 ≠ .ready → res.1.done = m.done

theorem keeps_failWith (m m0 : MMsg) (e : Bytes) : KeepsDone m0 (failWith m e) := by
  intro h; exact absurd rfl h

theorem keeps_mergeMGet (K : Merge.Consts) (slotFn : Bytes → Nat) (limit : Nat) (m : MMsg) (slot rtype : Nat) (body : Bytes) :
    KeepsDone m (mergeMGet K slotFn limit (bump m) slot rtype body) := by
  unfold mergeMGet
  split
  · intro _; rfl
  · dsimp only
    split
    · exact keeps_failWith _ _ _
    · split
      · intro _; rfl
      · split
        · intro _; rfl
        · split <;> (intro h; exact absurd rfl h)

theorem keeps_mergeMSet (T : Tables) (K : Merge.Consts) (m : MMsg) (slot rtype : Nat) :
    KeepsDone m (mergeMSet T K (bump m) slot rtype) := by
  unfold mergeMSet
  dsimp only
  split
  · intro _; rfl
  · split <;> (intro h; exact absurd rfl h)

theorem keeps_mergeDel (m : MMsg) (slot rtype : Nat) (body : Bytes) :
    KeepsDone m (mergeDel (bump m) slot rtype body) := by
  unfold mergeDel
  dsimp only
  repeat' split
  all_goals (intro h; first | rfl | exact absurd rfl h)

theorem keeps_mergeDefault (m : MMsg) (slot rtype : Nat) (body : Bytes) :
    KeepsDone m (mergeDefault (bump m) slot rtype body) := by
  intro h; exact absurd rfl h

/-- only a `ready` signal completes a request -/
theorem onReply_done (T : Tables) (K : Merge.Consts) (slotFn : Bytes → Nat) (limit : Nat) (m : MMsg) (slot rtype : Nat)
    (body : Bytes) : KeepsDone m (onReply T K slotFn limit m slot rtype body) := by
  unfold onReply
  dsimp only
  repeat' split
  all_goals first
    | exact keeps_failWith _ _ _
    | exact keeps_mergeMGet K slotFn limit m slot rtype body
    | exact keeps_mergeMSet T K m slot rtype
    | exact keeps_mergeDel m slot rtype body
    | exact keeps_mergeDefault m slot rtype body
    | (intro _; rfl)


/-- update a request (keeping owner and number) and then flush its owner -/
theorem cinvx_updReq_flush (s : State) (mi : Nat) (f : Req → Req) (r : Req) (hr : s.msgs[mi]? = some r)
    (hf : (f r).owner = r.owner ∧ (f r).num = r.num) (h : CInvX s none) :
    CInvX (flushClient (s.updReq mi f) r.owner) none := by
  apply cinvx_flushClient _ _ (some r.owner) _ (Or.inr rfl)
  apply cinvx_updReq s mi f (some r.owner) (cinvx_weaken s _ h)
  · intro r' hr'; rw [hr] at hr'; injection hr' with hr'; subst hr'; exact hf
  · intro r' hr'; rw [hr] at hr'; injection hr' with hr'; subst hr'; exact Or.inl rfl

theorem cinvx_updReq_deliver (s : State) (mi : Nat) (f : Req → Req) (r : Req) (hr : s.msgs[mi]? = some r)
    (hf : (f r).owner = r.owner ∧ (f r).num = r.num) (h : CInvX s none) :
    CInvX (deliver (s.updReq mi f) r.owner) none := by
  apply cinvx_deliver _ _ (some r.owner) _ (Or.inr rfl)
  apply cinvx_updReq s mi f (some r.owner) (cinvx_weaken s _ h)
  · intro r' hr'; rw [hr] at hr'; injection hr' with hr'; subst hr'; exact hf
  · intro r' hr'; rw [hr] at hr'; injection hr' with hr'; subst hr'; exact Or.inl rfl

theorem msgs_updReq_same (s : State) (mi : Nat) (f : Req → Req) (r : Req) (hr : s.msgs[mi]? = some r) :
    (s.updReq mi f).msgs[mi]? = some (f r) := by
  show (setAt s.msgs mi f)[mi]? = _
  rw [getElem?_setAt]; simp [hr]

theorem good_onMoved (S : Strs) (cfg : Cfg) (s : State) (mi slot : Nat) (isAsk : Bool) (addr : Bytes)
    (h : CInvX s none) : Good (onMoved S cfg s mi slot isAsk addr) := by
  unfold onMoved State.req
  cases hr : s.msgs[mi]? with
  | none => exact Or.inl (fail_flag s _)
  | some r =>
    dsimp only
    -- the redirect counter goes up: `done` is untouched
    let f1 : Req → Req := fun r => { r with m := setFrag r.m slot (fun f => { f with redirects := f.redirects + 1 }) }
    have h1 : CInvX (s.updReq mi f1) none := by
      apply cinvx_updReq s mi f1 none h
      · intro r' _; exact ⟨rfl, rfl⟩
      · intro r' _; right; intro hd; exact hd
    have hr1 : (s.updReq mi f1).msgs[mi]? = some (f1 r) := msgs_updReq_same s mi f1 r hr
    have hfail : ∀ e, CInvX (flushClient ((s.updReq mi f1).updReq mi
        (fun r => { r with m := failReq (setFrag r.m slot (fun f => { f with err := e })) e })) r.owner) none := by
      intro e
      have := cinvx_updReq_flush (s.updReq mi f1) mi
        (fun r => { r with m := failReq (setFrag r.m slot (fun f => { f with err := e })) e }) (f1 r) hr1 ⟨rfl, rfl⟩ h1
      exact this
    split
    · exact Or.inr (hfail _)
    · split
      · exact Or.inr (hfail _)
      · right
        rename_i p _
        have hs := same_poolGet S cfg (s.updReq mi f1) p
        have h2 : CInvX (poolGet S cfg (s.updReq mi f1) p).1 none := cinvx_of_same _ _ none hs h1
        split
        · exact cinvx_of_same _ _ none (same_enqueueOut _ _ _) (cinvx_of_same _ _ none (same_enqueueOut _ _ _) h2)
        · exact cinvx_of_same _ _ none (same_enqueueOut _ _ _) h2


theorem same_initPrelude (s : State) (b : Nat) (x : Backend) (view : Bytes) (s' : State) (v' : Bytes)
    (h : initPrelude s b x view = some (s', v')) : SameCM s s' := by
  unfold initPrelude at h
  split at h
  · split at h
    · exact absurd h (by simp)
    · injection h with h; injection h with h1 _; subst h1; exact same_updBackend s b _
    · injection h with h; injection h with h1 _; subst h1; exact SameCM.refl s
    · injection h with h; injection h with h1 _; subst h1; exact same_fail s _
  · injection h with h; injection h with h1 _; subst h1; exact SameCM.refl s

/-- one fragment reply keeps the invariant; when the loop is told to go on the state is not flagged -/
theorem good_onFragReply (T : Tables) (S : Strs) (cfg : Cfg) (slotFn : Bytes → Nat) (s : State) (mi slot rtype : Nat)
    (body : Bytes) (h : CInvX s none) :
    Good (onFragReply T S cfg slotFn s mi slot rtype body).1 ∧
    ((onFragReply T S cfg slotFn s mi slot rtype body).2 = true →
      CInvX (onFragReply T S cfg slotFn s mi slot rtype body).1 none) := by
  unfold onFragReply State.req
  cases hr : s.msgs[mi]? with
  | none => exact ⟨Or.inl (fail_flag s _), by simp⟩
  | some r =>
    dsimp only
    generalize hres : onReply T S.merge slotFn cfg.limit r.m slot rtype body = res
    have hk := onReply_done T S.merge slotFn cfg.limit r.m slot rtype body
    rw [hres] at hk
    obtain ⟨m', sig⟩ := res
    dsimp only
    -- the update that keeps `done` (any signal but ready)
    have hkeep : sig ≠ .ready → CInvX (s.updReq mi (fun r => { r with m := m' })) none := by
      intro hs
      apply cinvx_updReq s mi _ none h
      · intro r' _; exact ⟨rfl, rfl⟩
      · intro r' hr'
        rw [hr] at hr'; injection hr' with hr'; subst hr'
        right
        have := hk hs
        simp only at this
        intro hd; rw [← this]; exact hd
    cases sig with
    | panic => exact ⟨Or.inl (fail_flag _ _), by simp⟩
    | dropped => exact ⟨Or.inr (hkeep (by simp)), fun _ => hkeep (by simp)⟩
    | waiting => exact ⟨Or.inr (hkeep (by simp)), fun _ => hkeep (by simp)⟩
    | redirect =>
      have hg := good_onMoved S cfg _ mi slot (rtype = T.rAsk) (SDecode.parseMovedOrAsk T rtype body) (hkeep (by simp))
      refine ⟨hg, ?_⟩
      intro hcont
      rcases hg with hg | hg
      · simp only [hg, Bool.not_true] at hcont; exact absurd hcont (by simp)
      · exact hg
    | ready =>
      dsimp only
      split
      · exact ⟨Or.inl (fail_flag _ _), by simp⟩
      · have := cinvx_updReq_deliver s mi (fun r => { r with m := m' }) r hr ⟨rfl, rfl⟩ h
        exact ⟨Or.inr this, fun _ => this⟩

theorem good_sreadLoop (T : Tables) (S : Strs) (cfg : Cfg) (slotFn : Bytes → Nat) (fuel : Nat) :
    ∀ (s : State) (b : Nat) (view : Bytes), CInvX s none → Good (sreadLoop T S cfg slotFn fuel s b view) := by
  induction fuel with
  | zero => intro s b view h; exact Or.inr h
  | succ fuel ih =>
    intro s b view h
    unfold sreadLoop
    split
    · exact Or.inr h
    · rename_i x _
      split
      · exact Or.inr h
      · split
        · exact Or.inr (cinvx_of_same _ _ none (same_updBackend s b _) h)
        · rename_i s1 v1 hinit
          have h1 : CInvX s1 none := cinvx_of_same _ _ none (same_initPrelude s b x view s1 v1 hinit) h
          split
          · rename_i hf; exact Or.inl hf
          · split
            · exact Or.inr (cinvx_of_same _ _ none (same_updBackend s1 b _) h1)
            · exact Or.inl (fail_flag s1 _)
            · rename_i rtype n _
              split
              · exact Or.inl (fail_flag s1 _)
              · rename_i f inQ' _
                dsimp only
                have h2 : CInvX (dropTimeout (s1.updBackend b (fun x => { x with inQ := inQ' })) f) none :=
                  cinvx_of_same _ _ none (SameCM.trans (same_updBackend s1 b _) (same_dropTimeout _ f)) h1
                split
                · exact ih _ b _ h2
                · split
                  · exact Or.inl (fail_flag _ _)
                  · exact ih _ b _ h2
                · rename_i mi slot _
                  have hg := good_onFragReply T S cfg slotFn _ mi slot rtype (v1.take n) h2
                  split
                  · rename_i s' heq
                    rw [heq] at hg
                    exact ih s' b _ (hg.2 rfl)
                  · rename_i s' heq
                    rw [heq] at hg
                    exact hg.1

theorem good_backendBytes (T : Tables) (S : Strs) (cfg : Cfg) (slotFn : Bytes → Nat) (s : State) (b : Nat) (chunk : Bytes)
    (h : CInvX s none) : Good (backendBytes T S cfg slotFn s b chunk) := by
  unfold backendBytes
  split
  · exact Or.inr h
  · split
    · exact Or.inr h
    · exact good_sreadLoop T S cfg slotFn _ _ b _ (cinvx_of_same _ _ none (same_updBackend s b _) h)


theorem cinv_failFrags (S : Strs) (refs : List FragRef) (s : State) (h : CInvX s none) : CInvX (failFrags S s refs) none := by
  unfold failFrags
  induction refs generalizing s with
  | nil => exact h
  | cons f refs ih =>
    simp only [List.foldl_cons]
    apply ih
    cases f with
    | asking => exact h
    | probe => exact h
    | frag mi slot =>
      dsimp only
      unfold State.req
      cases hr : s.msgs[mi]? with
      | none => exact h
      | some r =>
        dsimp only
        split
        · exact h
        · split
          · exact h
          · exact cinvx_updReq_flush s mi _ r hr ⟨rfl, rfl⟩ h

theorem foldl_dropTimeout_same (refs : List FragRef) (s : State) : SameCM s (refs.foldl dropTimeout s) := by
  induction refs generalizing s with
  | nil => exact SameCM.refl s
  | cons f fs ih => exact SameCM.trans (same_dropTimeout s f) (ih _)

theorem cinv_backendClose (S : Strs) (s : State) (b : Nat) (h : CInvX s none) : CInvX (backendClose S s b) none := by
  unfold backendClose
  split
  · exact h
  · split
    · exact h
    · apply cinvx_of_same _ _ none (same_updBackend _ b _)
      apply cinvx_of_same _ _ none (foldl_dropTimeout_same _ _)
      exact cinv_failFrags S _ s h

theorem cinv_expireLoop (S : Strs) (ts : List FragRef) (s : State) (h : CInvX s none) :
    CInvX (ts.foldl (fun s f =>
      match f with
      | .frag mi slot =>
        match s.req mi with
        | none => s
        | some r =>
          match getFrag r.m slot with
          | none => s
          | some fr =>
            if fr.done then s
            else
              let m1 : MMsg := { r.m with frags := r.m.frags.map (fun x => if x.done then x else { x with err := S.errTimeout, done := true }) }
              let m2 : MMsg := { m1 with err := S.errTimeout, rspBody := S.errTimeout, fragDone := m1.frags.length, done := true }
              flushClient (s.updReq mi (fun r => { r with m := m2 })) r.owner
      | _ => s) s) none := by
  induction ts generalizing s with
  | nil => exact h
  | cons f ts ih =>
    simp only [List.foldl_cons]
    apply ih
    cases f with
    | asking => exact h
    | probe => exact h
    | frag mi slot =>
      dsimp only
      unfold State.req
      cases hr : s.msgs[mi]? with
      | none => exact h
      | some r =>
        dsimp only
        split
        · exact h
        · split
          · exact h
          · exact cinvx_updReq_flush s mi _ r hr ⟨rfl, rfl⟩ h

theorem cinv_expire (S : Strs) (s : State) (n : Nat) (h : CInvX s none) : CInvX (expire S s n) none := by
  unfold expire
  exact cinvx_congr _ _ none rfl rfl (cinv_expireLoop S ((liveDeadlines s).take n) s h)

theorem cinv_connect (s : State) (admitted : Bool) (h : CInvX s none) :
    CInvX { s with clients := s.clients ++ [{ opened := admitted }] } none := by
  intro c cl hc
  have hc' : (s.clients ++ [({ opened := admitted } : Client)])[c]? = some cl := hc
  rw [getElem?_append_new] at hc'
  split at hc'
  · exact h c cl hc'
  · split at hc'
    · injection hc' with hc'; subst hc'
      exact ⟨by simp, ⟨0, by simp, by simp, by simp, by simp⟩, by simp, by simp [headNotDone]⟩
    · exact absurd hc' (by simp)

theorem cinv_runTasks (S : Strs) (cfg : Cfg) (s : State) (h : CInvX s none) : CInvX (runTasks S cfg s) none := by
  unfold runTasks
  have : ∀ (ts : List Task) (s0 : State), CInvX s0 none → CInvX (ts.foldl (runTask S cfg (backendClose S)) s0) none := by
    intro ts
    induction ts with
    | nil => intro s0 h0; exact h0
    | cons t ts ih =>
      intro s0 h0
      apply ih
      cases t with
      | write b => exact cinvx_of_same _ _ none (same_writeSignal S cfg s0 b) h0
      | close b => exact cinv_backendClose S s0 b h0
  exact cinvx_of_same _ _ none ⟨rfl, rfl⟩ (this s.tasks s h)

theorem same_poolRemove (s : State) (p : Nat) : SameCM s (poolRemove s p) := by
  unfold poolRemove
  split
  · exact SameCM.refl s
  · split
    · exact SameCM.refl s
    · exact ⟨rfl, rfl⟩

/-- **the client-side invariant is inductive**: one event of any kind, with any choices -/
theorem good_step (T : Tables) (S : Strs) (cfg : Cfg) (slotFn : Bytes → Nat) (s : State) (e : Event) (h : Good s) :
    Good (step T S cfg slotFn s e) := by
  unfold step
  split
  · rename_i hf; exact Or.inl hf
  · rename_i hf
    have hc : CInvX s none := by
      rcases h with h | h
      · exact absurd h hf
      · exact h
    cases e with
    | connect adm => exact Or.inr (cinv_connect s adm hc)
    | clientBytes c chunk chs => exact good_clientBytes T S cfg slotFn s c chunk chs hc
    | clientClose c => exact Or.inr (cinvx_closeClient s c none hc (Or.inl rfl))
    | runTasks => exact Or.inr (cinv_runTasks S cfg s hc)
    | backendBytes b chunk => exact good_backendBytes T S cfg slotFn s b chunk hc
    | backendClose b => exact Or.inr (cinv_backendClose S s b hc)
    | expire n => exact Or.inr (cinv_expire S s n hc)
    | poolRemove p => exact Or.inr (cinvx_of_same _ _ none (same_poolRemove s p) hc)

theorem good_run (T : Tables) (S : Strs) (cfg : Cfg) (slotFn : Bytes → Nat) (es : List Event) (s : State) (h : Good s) :
    Good (run T S cfg slotFn s es) := by
  unfold run
  induction es generalizing s with
  | nil => exact h
  | cons e es ih => exact ih _ (good_step T S cfg slotFn s e h)

end RcVerif.Lemmas.SimInv
