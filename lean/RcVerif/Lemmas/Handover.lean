import RcVerif.Model.Handover
/-
  Helper lemmas for the hand-over model: the pool loops as map updates, the inductive invariant of the
  reset-first order, the refinement of the goroutine's micro-steps to the atomic `onProbeReply`.
-/
namespace RcVerif.Handover
open RcVerif RcVerif.Cluster

/-! ### the pool loops -/

theorem serverRole_none {servers : List Node} {a : Bytes} :
    serverRole servers a = none ↔ ∀ n ∈ servers, n.addr ≠ a := by
  unfold serverRole
  simp [List.find?_eq_none]

theorem poolRole_none {pools : List (Bytes × Bool)} {a : Bytes} :
    poolRole pools a = none ↔ ∀ p ∈ pools, p.1 ≠ a := by
  unfold poolRole
  simp [List.find?_eq_none]

/-- after the removal loop no pool is left for an address that is not in the server map -/
theorem poolRole_remove (servers : List Node) (pools : List (Bytes × Bool)) (a : Bytes)
    (h : serverRole servers a = none) : poolRole (removePools servers pools) a = none := by
  rw [serverRole_none] at h
  rw [poolRole_none]
  intro p hp
  unfold removePools at hp
  rw [List.mem_filter] at hp
  intro hpa
  obtain ⟨_, hany⟩ := hp
  rw [List.any_eq_true] at hany
  obtain ⟨n, hn, hna⟩ := hany
  have : n.addr = p.1 := by simpa using hna
  exact h n hn (by rw [this, hpa])

/-- one iteration of the add loop -/
def upd (n : Node) (pools : List (Bytes × Bool)) : List (Bytes × Bool) :=
  if pools.any (fun p => p.1 = n.addr) then pools.map (fun p => if p.1 = n.addr then (p.1, n.isSlave) else p)
  else pools ++ [(n.addr, n.isSlave)]

theorem addPools_cons (n : Node) (rest : List Node) (pools : List (Bytes × Bool)) :
    addPools (n :: rest) pools = addPools rest (upd n pools) := by
  simp [addPools, upd]

theorem poolRole_upd (n : Node) (pools : List (Bytes × Bool)) (a : Bytes) :
    poolRole (upd n pools) a = if a = n.addr then some n.isSlave else poolRole pools a := by
  unfold upd
  split
  · rename_i hany
    unfold poolRole
    rw [List.find?_map]
    have hfun : ((fun p : Bytes × Bool => decide (p.1 = a)) ∘ fun p => if p.1 = n.addr then (p.1, n.isSlave) else p)
        = fun p : Bytes × Bool => decide (p.1 = a) := by
      funext p
      simp only [Function.comp]
      split <;> rfl
    rw [hfun]
    by_cases ha : a = n.addr
    · simp only [ha, ↓reduceIte]
      rw [List.any_eq_true] at hany
      obtain ⟨p, hp, hpa⟩ := hany
      cases hf : pools.find? (fun p => decide (p.1 = n.addr)) with
      | none =>
        rw [List.find?_eq_none] at hf
        exact absurd hpa (hf p hp)
      | some q =>
        have := List.find?_some hf
        have hq : q.1 = n.addr := by simpa using this
        simp [hq]
    · simp only [ha, ↓reduceIte]
      cases hf : pools.find? (fun p => decide (p.1 = a)) with
      | none => rfl
      | some q =>
        have := List.find?_some hf
        have hq : q.1 = a := by simpa using this
        have : ¬ q.1 = n.addr := by rw [hq]; exact ha
        simp [this]
  · rename_i hany
    have hno : ∀ p ∈ pools, p.1 ≠ n.addr := by
      intro p hp hpa
      apply hany
      rw [List.any_eq_true]
      exact ⟨p, hp, by simpa using hpa⟩
    unfold poolRole
    rw [List.find?_append]
    by_cases ha : a = n.addr
    · subst ha
      have : pools.find? (fun p => decide (p.1 = n.addr)) = none := by
        rw [List.find?_eq_none]; intro p hp; simpa using hno p hp
      simp [this]
    · simp only [ha, ↓reduceIte]
      cases hf : pools.find? (fun p => decide (p.1 = a)) with
      | none =>
        have : ¬ n.addr = a := fun h => ha h.symm
        simp [this]
      | some q => simp

/-- distinct addresses -/
def AddrNodup (servers : List Node) : Prop := (servers.map (·.addr)).Nodup

/-- the add loop over a server map (distinct addresses): a role per server, everything else as before -/
theorem poolRole_add (servers : List Node) (hnd : AddrNodup servers) (pools : List (Bytes × Bool)) (a : Bytes) :
    poolRole (addPools servers pools) a =
      match serverRole servers a with
      | some r => some r
      | none => poolRole pools a := by
  induction servers generalizing pools with
  | nil => simp [addPools, serverRole]
  | cons n rest ih =>
    rw [addPools_cons]
    unfold AddrNodup at hnd
    simp only [List.map_cons, List.nodup_cons] at hnd
    rw [ih hnd.2]
    by_cases ha : a = n.addr
    · subst ha
      have hnone : serverRole rest n.addr = none := by
        rw [serverRole_none]
        intro m hm hma
        exact hnd.1 (by rw [← hma]; exact List.mem_map_of_mem hm)
      rw [hnone]
      simp [serverRole, poolRole_upd]
    · have hne : ¬ n.addr = a := fun h => ha h.symm
      have : serverRole (n :: rest) a = serverRole rest a := by
        simp [serverRole, hne]
      rw [this, poolRole_upd]
      simp [ha]

theorem setServers_step_nodup (acc : List Node) (n : Node) (h : AddrNodup acc) :
    AddrNodup (if acc.any (·.addr = n.addr) then acc else acc ++ [n]) := by
  split
  · exact h
  · rename_i hany
    unfold AddrNodup at *
    rw [List.map_append, List.nodup_append]
    refine ⟨h, by simp, ?_⟩
    intro x hx y hy
    simp only [List.map_cons, List.map_nil, List.mem_singleton] at hy
    subst hy
    intro hxy
    apply hany
    rw [List.mem_map] at hx
    obtain ⟨m, hm, hmx⟩ := hx
    rw [List.any_eq_true]
    exact ⟨m, hm, by simp [hmx, hxy]⟩

theorem setServers_nodup (ns : List Node) : AddrNodup (setServers ns) := by
  unfold setServers
  suffices h : ∀ acc, AddrNodup acc →
      AddrNodup (ns.foldl (fun acc n => if acc.any (·.addr = n.addr) then acc else acc ++ [n]) acc) from
    h [] (by simp [AddrNodup])
  induction ns with
  | nil => intro acc h; exact h
  | cons n rest ih => intro acc h; exact ih _ (setServers_step_nodup acc n h)

/-! ### the invariant of the reset-first order -/

/-- how far the running pass has got, given that nothing was published since it took the flag down -/
def Progress (s : MState) : Prop :=
  match s.tpc with
  | .idle => Clean s
  | .remove => True
  | .add => ∀ a, serverRole s.r.servers a = none → poolRole s.pools a = none
  | .table => ∀ a, poolRole s.pools a = serverRole s.r.servers a
  | .reset => False

/-- the goroutine's own view of the server map is a map (distinct keys) whenever it is not inside `setServer` -/
def GInv (s : MState) : Prop :=
  match s.gpc with
  | .clear _ | .fill _ => True
  | _ => AddrNodup s.r.servers

structure Inv (s : MState) : Prop where
  noReset : s.tpc ≠ .reset
  g : GInv s
  /-- flag down and the goroutine idle: the pass (or, between passes, the loop's state) is consistent -/
  prog : s.r.changed = false → s.gpc = .idle → Progress s

theorem inv_init : Inv {} := by
  refine ⟨by simp, by simp [GInv, AddrNodup], ?_⟩
  intro _ _
  simp [Progress, Clean, poolRole, serverRole]

variable (nslots : Nat) (info : Bytes → Option Info)

theorem inv_gReceive (s : MState) (msg : Bytes) (h : Inv s) : Inv (gReceive nslots info s msg) := by
  unfold gReceive
  by_cases hg : s.gpc = .idle
  · simp only [hg, ne_eq, not_true_eq_false, ↓reduceIte]
    have hbase : Inv { s with log := s.log ++ [msg], gpc := .idle } :=
      ⟨h.noReset, by simpa [GInv, hg] using h.g, fun hc _ => h.prog hc hg⟩
    split
    · exact hbase
    · split
      · exact hbase
      · split
        · exact hbase
        · split
          · refine ⟨h.noReset, by simp [GInv], ?_⟩
            intro _ hi
            simp at hi
          · refine ⟨h.noReset, ?_, ?_⟩
            · have := h.g
              simpa [GInv, hg] using this
            · intro hc hi
              exact h.prog hc hg
  · simp [hg, h]

theorem inv_gStep (s : MState) (h : Inv s) : Inv (gStep s) := by
  unfold gStep
  split
  · exact h
  · refine ⟨h.noReset, by simp [GInv], ?_⟩
    intro _ hi; simp at hi
  · refine ⟨h.noReset, by simpa [GInv] using setServers_nodup _, ?_⟩
    intro _ hi; simp at hi
  · rename_i ns hpc
    refine ⟨h.noReset, ?_, ?_⟩
    · have := h.g; simpa [GInv, hpc] using this
    · intro _ hi; simp at hi
  · rename_i hpc
    refine ⟨h.noReset, ?_, ?_⟩
    · have := h.g; simpa [GInv, hpc] using this
    · intro hc _; simp at hc

theorem inv_tTick (s : MState) (h : Inv s) : Inv (tTick true s) := by
  unfold tTick
  split
  · rename_i hc
    simp only [↓reduceIte]
    refine ⟨by simp, ?_, ?_⟩
    · have := h.g
      unfold GInv at this ⊢
      simpa using this
    · intro _ _; simp [Progress]
  · exact h

theorem inv_tStep (s : MState) (h : Inv s) : Inv (tStep true s) := by
  unfold tStep
  split
  · exact h
  · -- removal loop
    refine ⟨by simp, ?_, ?_⟩
    · have := h.g; unfold GInv at this ⊢; simpa using this
    · intro _ _
      simp only [Progress]
      intro a ha
      exact poolRole_remove _ _ a ha
  · -- add loop
    rename_i hpc
    refine ⟨by simp, ?_, ?_⟩
    · have := h.g; unfold GInv at this ⊢; simpa using this
    · intro hc hi
      have hp := h.prog hc hi
      have hnd : AddrNodup s.r.servers := by
        have := h.g; simpa [GInv, show s.gpc = .idle from hi] using this
      simp only [Progress, hpc] at hp ⊢
      intro a
      rw [poolRole_add _ hnd]
      cases hs : serverRole s.r.servers a with
      | none => simpa using hp a hs
      | some r => rfl
  · -- table
    rename_i hpc
    refine ⟨by simp, ?_, ?_⟩
    · have := h.g; unfold GInv at this ⊢; simpa using this
    · intro hc hi
      have hp := h.prog hc hi
      simp only [Progress, hpc] at hp
      simp only [↓reduceIte, Progress, Clean]
      exact ⟨hp, trivial⟩
  · rename_i hpc
    exact absurd hpc h.noReset

theorem inv_step (s : MState) (e : Ev) (h : Inv s) : Inv (step nslots info true s e) := by
  cases e with
  | deliver msg => exact inv_gReceive nslots info s msg h
  | g => exact inv_gStep s h
  | tick => exact inv_tTick s h
  | t => exact inv_tStep s h
  | gTorn servers sets =>
    simp only [step]
    split
    · rename_i hpc
      refine ⟨h.noReset, by simp [GInv, hpc], ?_⟩
      intro _ hi; simp [hpc] at hi
    · rename_i hpc
      refine ⟨h.noReset, by simp [GInv, hpc], ?_⟩
      intro _ hi; simp [hpc] at hi
    · rename_i hpc
      refine ⟨h.noReset, ?_, ?_⟩
      · have := h.g; simpa [GInv, hpc] using this
      · intro _ hi; simp [hpc] at hi
    · exact h
  | tTorn pools table =>
    simp only [step]
    split
    · exact h
    · rename_i hg
      split
      · exact h
      · exact h
      · rename_i hpc
        refine ⟨by simp [tNext, hpc], ?_, ?_⟩
        · have := h.g; unfold GInv at this ⊢; simpa using this
        · intro _ hi; exact absurd hi hg
      · rename_i hpc
        refine ⟨by simp [tNext, hpc], ?_, ?_⟩
        · have := h.g; unfold GInv at this ⊢; simpa using this
        · intro _ hi; exact absurd hi hg
      · rename_i hpc
        refine ⟨by simp [tNext, hpc], ?_, ?_⟩
        · have := h.g; unfold GInv at this ⊢; simpa using this
        · intro _ hi; exact absurd hi hg

theorem inv_run (evs : List Ev) (s : MState) (h : Inv s) : Inv (run nslots info true s evs) := by
  induction evs generalizing s with
  | nil => exact h
  | cons e es ih => exact ih _ (inv_step nslots info s e h)

/-! ### the goroutine's micro-steps refine the atomic `onProbeReply` -/

/-- equality on what the goroutine publishes and remembers (everything but the flag, which the event loop resets) -/
def PubEq (r a : RState) : Prop :=
  r.servers = a.servers ∧ r.sets = a.sets ∧ r.lastNames = a.lastNames ∧ r.alive = a.alive

/-- the atomic model run over the replies taken from the channel so far -/
def atomic (log : List Bytes) : RState := log.foldl (onProbeReply nslots info) {}

def RInv (s : MState) : Prop :=
  let a := atomic nslots info s.log
  match s.gpc with
  | .idle | .flag => PubEq s.r a
  | .clear ns | .fill ns =>
    s.r.lastNames = a.lastNames ∧ s.r.alive = a.alive ∧ a.servers = setServers ns ∧ a.sets = setReplicasets ns
  | .sets ns =>
    s.r.lastNames = a.lastNames ∧ s.r.alive = a.alive ∧ a.servers = setServers ns ∧ a.sets = setReplicasets ns ∧
    s.r.servers = a.servers

theorem rinv_init : RInv nslots info {} := by
  simp [RInv, atomic, PubEq]

theorem atomic_snoc (log : List Bytes) (msg : Bytes) :
    atomic nslots info (log ++ [msg]) = onProbeReply nslots info (atomic nslots info log) msg := by
  simp [atomic, List.foldl_append]

theorem rinv_idle_of (s : MState) (hg : s.gpc = .idle) (h : PubEq s.r (atomic nslots info s.log)) : RInv nslots info s := by
  simp only [RInv, hg]; exact h

theorem rinv_gReceive (s : MState) (msg : Bytes) (h : RInv nslots info s) : RInv nslots info (gReceive nslots info s msg) := by
  by_cases hg : s.gpc = .idle
  · have hp : PubEq s.r (atomic nslots info s.log) := by
      have := h; simpa [RInv, hg] using this
    have hat := atomic_snoc nslots info s.log msg
    generalize atomic nslots info s.log = a at hp hat
    obtain ⟨h1, h2, h3, h4⟩ := hp
    unfold gReceive
    simp only [hg, ne_eq, not_true_eq_false, ↓reduceIte]
    by_cases hal : s.r.alive = true
    · have hal' : a.alive = true := by rw [← h4, hal]
      simp only [hal, Bool.not_true, Bool.false_eq_true, ↓reduceIte]
      cases hpt : probeText msg with
      | none =>
        apply rinv_idle_of _ _ _ rfl
        show PubEq s.r (atomic nslots info (s.log ++ [msg]))
        rw [hat]; simp only [onProbeReply, hal', hpt, Bool.not_true, Bool.false_eq_true, ↓reduceIte]
        exact ⟨h1, h2, h3, h4⟩
      | some text =>
        simp only
        cases hps : parseText nslots (fun a => s.r.servers.any (·.addr = a)) info text with
        | none =>
          apply rinv_idle_of _ _ _ rfl
          show PubEq s.r (atomic nslots info (s.log ++ [msg]))
          rw [hat]; simp only [onProbeReply, hal', hpt, Bool.not_true, Bool.false_eq_true, ↓reduceIte, adopt]
          rw [← h1, hps]
          exact ⟨h1, h2, h3, h4⟩
        | some ns =>
          simp only
          have hatv : atomic nslots info (s.log ++ [msg]) =
              (if ns.length ≠ s.r.servers.length ∨ sortBytes (ns.map sigOf) ≠ s.r.lastNames then
                { a with servers := setServers ns, sets := setReplicasets ns, lastNames := sortBytes (ns.map sigOf), changed := true }
              else { a with lastNames := sortBytes (ns.map sigOf) }) := by
            rw [hat]; simp only [onProbeReply, hal', hpt, Bool.not_true, Bool.false_eq_true, ↓reduceIte, adopt]
            rw [← h1, hps, ← h3]
          by_cases hc : ns.length ≠ s.r.servers.length ∨ sortBytes (ns.map sigOf) ≠ s.r.lastNames
          · rw [if_pos hc] at hatv
            rw [if_pos hc]
            simp only [RInv]
            show _ = (atomic nslots info (s.log ++ [msg])).lastNames ∧ _ = (atomic nslots info (s.log ++ [msg])).alive ∧
              (atomic nslots info (s.log ++ [msg])).servers = _ ∧ (atomic nslots info (s.log ++ [msg])).sets = _
            rw [hatv]
            exact ⟨rfl, hal'.symm, rfl, rfl⟩
          · rw [if_neg hc] at hatv
            rw [if_neg hc]
            apply rinv_idle_of _ _ _ rfl
            show PubEq _ (atomic nslots info (s.log ++ [msg]))
            rw [hatv]
            exact ⟨h1, h2, rfl, hal'.symm⟩
    · have hal1 : s.r.alive = false := by simpa using hal
      have hal' : a.alive = false := by rw [← h4, hal1]
      simp only [hal1, Bool.not_false, ↓reduceIte]
      apply rinv_idle_of _ _ _ rfl
      show PubEq s.r (atomic nslots info (s.log ++ [msg]))
      rw [hat]; simp only [onProbeReply, hal', Bool.not_false, ↓reduceIte]
      exact ⟨h1, h2, h3, h4⟩
  · unfold gReceive
    simp only [hg, ne_eq, not_false_eq_true, ↓reduceIte]
    exact h

theorem rinv_gStep (s : MState) (h : RInv nslots info s) : RInv nslots info (gStep s) := by
  unfold gStep
  split
  · exact h
  · rename_i ns hpc
    have := h; simp only [RInv, hpc] at this
    simpa [RInv] using this
  · rename_i ns hpc
    have := h; simp only [RInv, hpc] at this
    obtain ⟨h1, h2, h3, h4⟩ := this
    simp only [RInv]
    exact ⟨h1, h2, h3, h4, h3.symm⟩
  · rename_i ns hpc
    have := h; simp only [RInv, hpc] at this
    obtain ⟨h1, h2, h3, h4, h5⟩ := this
    simp only [RInv, PubEq]
    exact ⟨h5, h4.symm, h1, h2⟩
  · rename_i hpc
    have := h; simp only [RInv, hpc] at this
    simpa [RInv, PubEq] using this

theorem rinv_tTick (rf : Bool) (s : MState) (h : RInv nslots info s) : RInv nslots info (tTick rf s) := by
  unfold tTick
  split
  · split
    · unfold RInv at h ⊢
      simp only at h ⊢
      split at h <;> simp_all [PubEq]
    · unfold RInv at h ⊢
      simp only at h ⊢
      exact h
  · exact h

theorem rinv_tStep (rf : Bool) (s : MState) (h : RInv nslots info s) : RInv nslots info (tStep rf s) := by
  unfold tStep
  split
  · exact h
  · exact h
  · exact h
  · exact h
  · unfold RInv at h ⊢
    simp only at h ⊢
    split at h <;> simp_all [PubEq]

theorem rinv_step (rf : Bool) (s : MState) (e : Ev) (h : RInv nslots info s) : RInv nslots info (step nslots info rf s e) := by
  cases e with
  | deliver msg => exact rinv_gReceive nslots info s msg h
  | g => exact rinv_gStep nslots info s h
  | tick => exact rinv_tTick nslots info rf s h
  | t => exact rinv_tStep nslots info rf s h
  | gTorn servers sets =>
    simp only [step]
    split
    · rename_i hpc
      have := h; simp only [RInv, hpc] at this
      simpa [RInv, hpc] using this
    · rename_i hpc
      have := h; simp only [RInv, hpc] at this
      simpa [RInv, hpc] using this
    · rename_i hpc
      have := h; simp only [RInv, hpc] at this
      simpa [RInv, hpc] using this
    · exact h
  | tTorn pools table =>
    simp only [step]
    split
    · exact h
    · split <;> exact h

theorem rinv_run (rf : Bool) (evs : List Ev) (s : MState) (h : RInv nslots info s) :
    RInv nslots info (run nslots info rf s evs) := by
  induction evs generalizing s with
  | nil => exact h
  | cons e es ih => exact ih _ (rinv_step nslots info rf s e h)

/-! ### settling -/

theorem finishG_gpc (s : MState) : (finishG s).gpc = .idle := by
  unfold finishG
  cases hg : s.gpc <;> simp [gStep, hg]

theorem finishG_eq_run (s : MState) (rf : Bool) : finishG s = run nslots info rf s [.g, .g, .g, .g] := rfl
theorem finishT_eq_run (s : MState) (rf : Bool) : finishT rf s = run nslots info rf s [.t, .t, .t, .t] := rfl

theorem tStep_gpc (rf : Bool) (s : MState) : (tStep rf s).gpc = s.gpc := by
  unfold tStep; split <;> rfl
theorem tTick_gpc (rf : Bool) (s : MState) : (tTick rf s).gpc = s.gpc := by
  unfold tTick; split
  · split <;> rfl
  · rfl
theorem tStep_log (rf : Bool) (s : MState) : (tStep rf s).log = s.log := by
  unfold tStep; split <;> rfl
theorem tTick_log (rf : Bool) (s : MState) : (tTick rf s).log = s.log := by
  unfold tTick; split
  · split <;> rfl
  · rfl
theorem gStep_log (s : MState) : (gStep s).log = s.log := by
  unfold gStep; split <;> rfl

theorem finishT_gpc (rf : Bool) (s : MState) : (finishT rf s).gpc = s.gpc := by
  simp [finishT, tStep_gpc]
theorem finishT_log (rf : Bool) (s : MState) : (finishT rf s).log = s.log := by
  simp [finishT, tStep_log]
theorem finishG_log (s : MState) : (finishG s).log = s.log := by
  simp [finishG, gStep_log]

/-- in the reset-first order a pass is over after at most three further steps -/
theorem finishT_tpc (s : MState) (h : s.tpc ≠ .reset) : (finishT true s).tpc = .idle := by
  unfold finishT
  cases ht : s.tpc <;> simp_all [tStep]

/-- in the reset-first order T's further steps never touch the flag -/
theorem tStep_changed (s : MState) (h : s.tpc ≠ .reset) : (tStep true s).r.changed = s.r.changed := by
  unfold tStep
  split <;> first | rfl | (rename_i hpc; exact absurd hpc h)

theorem tStep_noReset (s : MState) (h : s.tpc ≠ .reset) : (tStep true s).tpc ≠ .reset := by
  unfold tStep
  split <;> simp_all

theorem finishT_changed (s : MState) (h : s.tpc ≠ .reset) : (finishT true s).r.changed = s.r.changed := by
  unfold finishT
  have h1 := tStep_noReset s h
  have h2 := tStep_noReset _ h1
  have h3 := tStep_noReset _ h2
  rw [tStep_changed _ h3, tStep_changed _ h2, tStep_changed _ h1, tStep_changed _ h]

end RcVerif.Handover
